import JunoModel.C08.Proofs
/-!
C08 — property theorems (statements only; helper lemmas are in `Proofs.lean`).

The model (`Model.lean`) transcribes the read handlers of rpc/v8, rpc/v9, rpc/v10 over the part
of `blockchain.Reader` they use. The specification side is `resolve` (what a block id denotes on
the node's chain), `finality` and the chain itself. The theorems say, for every node reachable
by any history of `Store` / `RevertHead` / `SetL1Head` (`run ops`; only `WellFormed` is used) and
every identifier, that each handler answers with the data of exactly the denoted block and with
the not-found error exactly when nothing is denoted. Where the code leaves the statement the
full statement is kept as a comment, the exact behaviour is proved (`_partial` carries the
excluded case in its name/hypotheses) and a concrete witness of the deviation is proved next to
it; the same witnesses are replayed on the real code by the harness (known/C08.json).

Hashes are opaque numbers; uniqueness of block / transaction hashes is an explicit hypothesis
(`HashesDistinct`, `TxHashesDistinct`) where it is needed.
-/
namespace Juno.C08.Props
open Juno.C08

/-! ## Reachable nodes -/

/-- Every node reachable from the empty database by any sequence of operations stores block
`i` at height `i` … -/
theorem reachable_wellFormed (ops : List Op) : WellFormed (run ops) := run_wellFormed ops

/-- … and every stored block points at the hash of its predecessor (genesis at 0x0). -/
theorem reachable_linked (ops : List Op) : Linked (run ops) := run_linked ops

/-! ## Resolution -/

/-- What an identifier resolves to is a block of the CURRENT chain, and it is the one the
identifier names: the given number; a block carrying the given hash; the head; the block at
`min(L1 head, head)`. -/
theorem resolve_sound (nd : Node) (id : BlockId) (n : Nat) (h : resolve nd id = some n) :
    n < nd.chain.length ∧
      (match id with
       | .number k => n = k
       | .hash x => ∃ b, nd.chain[n]? = some b ∧ b.hash = x
       | .latest => n + 1 = nd.chain.length
       | .l1Accepted => ∃ l, nd.l1 = some l ∧ n = min l (nd.chain.length - 1)
       | .pre => False) := by
  refine ⟨resolve_lt h, ?_⟩
  have hlt := resolve_lt h
  cases id with
  | number k =>
    simp only [resolve] at h
    split at h <;> simp_all
  | hash x =>
    simp only [resolve] at h
    obtain ⟨hl, hp, _⟩ := List.findIdx?_eq_some_iff_getElem.mp h
    exact ⟨nd.chain[n], by simp [hl], by simpa using hp⟩
  | latest =>
    simp only [resolve] at h
    split at h
    · cases h
    · cases h; simp only; omega
  | l1Accepted =>
    simp only [resolve] at h
    split at h
    · rename_i l hl
      split at h
      · cases h
      · cases h; exact ⟨l, hl, rfl⟩
    · cases h
  | pre => simp [resolve] at h

/-- Completeness of resolution: an identifier resolves to nothing exactly when the chain has no
such block. -/
theorem resolve_none_iff (nd : Node) (id : BlockId) :
    resolve nd id = none ↔
      (match id with
       | .number k => nd.chain.length ≤ k
       | .hash x => ∀ b ∈ nd.chain, b.hash ≠ x
       | .latest => nd.chain = []
       | .l1Accepted => nd.l1 = none ∨ nd.chain = []
       | .pre => True) := by
  cases id with
  | number k =>
    simp only [resolve]
    by_cases h : k < nd.chain.length <;> simp [h] <;> omega
  | hash x =>
    simp only [resolve, List.findIdx?_eq_none_iff]
    constructor
    · intro H b hb; simpa using H b hb
    · intro H b hb; simpa using H b hb
  | latest =>
    simp only [resolve]
    cases nd.chain <;> simp
  | l1Accepted =>
    simp only [resolve]
    cases nd.l1 <;> cases nd.chain <;> simp
  | pre => simp [resolve]

/-- A reverted block's hash resolves to nothing (block hashes being distinct). -/
theorem reverted_hash_resolves_to_nothing (nd : Node) (bs : List Block) (b : Block)
    (h : nd.chain = bs ++ [b]) (hd : HashesDistinct nd) :
    revert nd = some { nd with chain := bs } ∧
      resolve { nd with chain := bs } (.hash b.hash) = none :=
  ⟨revert_append nd bs b h, Juno.C08.reverted_hash_resolves_to_nothing nd bs b h hd⟩

/-- A reverted block's transactions are no longer found by hash (transaction hashes being
distinct): by-hash lookup, receipt and status all answer TXN_HASH_NOT_FOUND. -/
theorem reverted_tx_not_found (nd : Node) (bs : List Block) (b : Block) (t : Tx)
    (h : nd.chain = bs ++ [b]) (hd : TxHashesDistinct nd) (ht : t ∈ b.txs) :
    let nd' : Node := { nd with chain := bs }
    transactionByHash nd' t.hash = .err .txnHashNotFound ∧
      transactionReceipt nd' t.hash = .err .txnHashNotFound ∧
      transactionStatus nd' t.hash = .err .txnHashNotFound := by
  have hf := Juno.C08.reverted_tx_not_found nd bs b t h hd ht
  simp [transactionByHash, txByHash, transactionReceipt, transactionStatus, numberAndIndexByTxHash, hf]

/-! ## Finality -/

/-- ACCEPTED_ON_L1 exactly when an L1 head is recorded at or above the block's number. -/
theorem finality_spec (n : Nat) (l1 : Option Nat) :
    finality n l1 = .l1 ↔ ∃ l, l1 = some l ∧ n ≤ l := finality_l1_iff n l1

/-- Finality is downward closed along the chain … -/
theorem finality_monotone (n m : Nat) (l1 : Option Nat) (hmn : m ≤ n) (h : finality n l1 = .l1) :
    finality m l1 = .l1 := by
  rw [finality_l1_iff] at *
  obtain ⟨l, hl, hle⟩ := h
  exact ⟨l, hl, Nat.le_trans hmn hle⟩

/-- … and never lost when the recorded L1 head advances. -/
theorem finality_l1_head_monotone (n l l' : Nat) (hl : l ≤ l') (h : finality n (some l) = .l1) :
    finality n (some l') = .l1 := by
  rw [finality_l1_iff] at *
  obtain ⟨x, hx, hle⟩ := h
  cases hx
  exact ⟨l', rfl, Nat.le_trans hle hl⟩

/-- The status shown in a block header is the finality of the block's own number. -/
theorem header_status (nd : Node) (b : Block) (wf : WellFormed nd) (i : Nat) (h : nd.chain[i]? = some b) :
    (hdrOf nd b).status = finality i (statusL1 nd) ∧ (hdrOf nd b).number = i := by
  have := wf i b h
  simp [hdrOf, this]

/-! ## Block methods: the data of exactly the denoted block; BLOCK_NOT_FOUND iff none -/

/-- getBlockWithTxHashes / getBlockWithTxs / getBlockWithReceipts / getBlockTransactionCount /
getStateUpdate, all versions, every identifier kind (v8 does not know `l1_accepted`): when the
identifier denotes block `b` the answer is the projection of `b` itself — its number, hash,
parent, root, its own transactions in order, its own state diff — with the finality of `b`;
when it denotes nothing the answer is BLOCK_NOT_FOUND. -/
theorem block_methods_answer_denoted_block (ver : Ver) (nd : Node) (id : BlockId) (f : List Nat)
    (wf : WellFormed nd) (hv : ¬ (ver = .v8 ∧ id = .l1Accepted)) (hp : isV8Pending ver id = false) :
    match resolvedBlock nd id with
    | some b =>
      blockWithTxHashes ver nd id = .blockHashes (hdrOf nd b) (b.txs.map (·.hash)) ∧
      blockWithTxs ver nd id = .blockTxs (hdrOf nd b) b.txs ∧
      blockWithReceipts ver nd id =
        .blockReceipts (hdrOf nd b) (b.txs.map (fun t => (t, finality b.number (statusL1 nd)))) ∧
      blockTransactionCount ver nd id = .num b.txs.length ∧
      stateUpdate ver nd id f = .update b.hash b.root b.oldRoot (filterDiff ver f b.diff)
    | none =>
      blockWithTxHashes ver nd id = .err .blockNotFound ∧
      blockWithTxs ver nd id = .err .blockNotFound ∧
      blockWithReceipts ver nd id = .err .blockNotFound ∧
      blockTransactionCount ver nd id = .err .blockNotFound ∧
      stateUpdate ver nd id f = .err .blockNotFound := by
  obtain ⟨e1, e2, e3, e4, _, e6⟩ := handlers_eq_stored nd 0 f hp
  rw [e1, e2, e3, e4, e6, blockWithTxHashes_eq wf hv, blockWithTxs_eq wf hv, blockWithReceipts_eq hv,
    blockTransactionCount_eq hv, stateUpdate_eq f hv]
  cases resolvedBlock nd id <;> simp

/-- `resolvedBlock` is the block at the resolved height. -/
theorem resolvedBlock_spec (nd : Node) (id : BlockId) :
    resolvedBlock nd id = (resolve nd id).bind (fun n => nd.chain[n]?) ∧
      (resolvedBlock nd id = none ↔ resolve nd id = none) :=
  ⟨rfl, resolvedBlock_none_iff nd id⟩

/-- BLOCK_NOT_FOUND precisely when the chain lacks the block (block methods). -/
theorem block_methods_notfound_iff (ver : Ver) (nd : Node) (id : BlockId) (wf : WellFormed nd)
    (hv : ¬ (ver = .v8 ∧ id = .l1Accepted)) (hp : isV8Pending ver id = false) :
    (blockWithTxHashes ver nd id = .err .blockNotFound ↔ resolve nd id = none) ∧
    (blockWithTxs ver nd id = .err .blockNotFound ↔ resolve nd id = none) ∧
    (blockWithReceipts ver nd id = .err .blockNotFound ↔ resolve nd id = none) ∧
    (blockTransactionCount ver nd id = .err .blockNotFound ↔ resolve nd id = none) ∧
    (stateUpdate ver nd id [] = .err .blockNotFound ↔ resolve nd id = none) := by
  obtain ⟨e1, e2, e3, e4, _, e6⟩ := handlers_eq_stored nd 0 [] hp
  rw [e1, e2, e3, e4, e6, blockWithTxHashes_eq wf hv, blockWithTxs_eq wf hv, blockWithReceipts_eq hv,
    blockTransactionCount_eq hv, stateUpdate_eq [] hv, ← resolvedBlock_none_iff]
  cases resolvedBlock nd id <;> simp

/-- v8 answers the tag `l1_accepted` with "invalid params" (the tag does not exist in 0.8). -/
theorem v8_rejects_l1_accepted (nd : Node) :
    blockWithTxHashes .v8 nd .l1Accepted = .err .invalidParams ∧
    stateUpdate .v8 nd .l1Accepted [] = .err .invalidParams ∧
    transactionByBlockIdAndIndex .v8 nd .l1Accepted 0 = .err .invalidParams := by
  simp [blockWithTxHashes, blockWithTxHashesStored, blockById, stateUpdate, stateUpdateStored,
    transactionByBlockIdAndIndex, transactionByBlockIdAndIndexStored, isV8Pending]

/-- blockNumber / blockHashAndNumber: the head, or "no blocks" on the empty chain. -/
theorem head_methods (nd : Node) (wf : WellFormed nd) :
    match resolvedBlock nd .latest with
    | some b => blockNumber nd = .num b.number ∧ blockHashAndNumber nd = .hashNum b.hash b.number ∧
        b.number + 1 = nd.chain.length
    | none => blockNumber nd = .err .noBlocks ∧ blockHashAndNumber nd = .err .noBlocks ∧ nd.chain = [] := by
  have e : headBlock nd = resolvedBlock nd .latest := by
    simp only [headBlock, height, resolvedBlock, resolve]
    by_cases h : nd.chain.isEmpty
    · simp [h]
    · simp only [if_neg h]; rfl
  cases h : resolvedBlock nd .latest with
  | none =>
    have hr := (resolvedBlock_none_iff nd .latest).mp h
    have hnil := (resolve_none_iff nd .latest).mp hr
    simp only at hnil
    simp [blockNumber, blockHashAndNumber, height, e, h, hnil]
  | some b =>
    obtain ⟨hr, _⟩ := resolvedBlock_at wf h
    have hs := (resolve_sound nd .latest b.number hr).2
    simp only at hs
    have hne : nd.chain.isEmpty = false := by
      cases hc : nd.chain with
      | nil => simp [hc] at hs
      | cons _ _ => rfl
    have : nd.chain.length - 1 = b.number := by omega
    simp [blockNumber, blockHashAndNumber, height, e, h, hne, this, hs]

/-! ## Transaction by block id and index -/

/-
Full-strength statement (does NOT hold of juno):
  transactionByBlockIdAndIndex ver nd id i = .err .blockNotFound ↔ resolve nd id = none
It fails for `block_number` identifiers above the height, see
`txByIdx_missing_block_number_reports_invalid_index` below.
-/

/-- Exact behaviour: the transaction at that index of the denoted block, INVALID_TXN_INDEX past
its end; when nothing is denoted BLOCK_NOT_FOUND — unless the identifier is a block number, in
which case INVALID_TXN_INDEX. -/
theorem txByIdx_exact (ver : Ver) (nd : Node) (id : BlockId) (i : Nat) (wf : WellFormed nd)
    (hv : ¬ (ver = .v8 ∧ id = .l1Accepted)) (hp : isV8Pending ver id = false) :
    transactionByBlockIdAndIndex ver nd id i =
      match resolvedBlock nd id with
      | some b => (match b.txs[i]? with | some t => .tx t | none => .err .invalidTxIndex)
      | none => if id.isNumber then .err .invalidTxIndex else .err .blockNotFound := by
  rw [(handlers_eq_stored nd i [] hp).2.2.2.2.1]
  exact transactionByBlockIdAndIndex_eq i wf hv

/-- BLOCK_NOT_FOUND iff the chain lacks the block — for identifiers that are not block numbers. -/
theorem txByIdx_notfound_iff_partial (ver : Ver) (nd : Node) (id : BlockId) (i : Nat)
    (wf : WellFormed nd) (hv : ¬ (ver = .v8 ∧ id = .l1Accepted)) (hp : isV8Pending ver id = false)
    (hn : id.isNumber = false) :
    transactionByBlockIdAndIndex ver nd id i = .err .blockNotFound ↔ resolve nd id = none := by
  rw [(handlers_eq_stored nd i [] hp).2.2.2.2.1, transactionByBlockIdAndIndex_eq i wf hv, ← resolvedBlock_none_iff]
  cases resolvedBlock nd id with
  | none => simp [hn]
  | some b => simp only []; split <;> simp

/-- Witness of the deviation: one stored block, request for block number 5: nothing is denoted,
yet the answer is INVALID_TXN_INDEX, not BLOCK_NOT_FOUND (all three versions). -/
theorem txByIdx_missing_block_number_reports_invalid_index :
    let nd : Node := { chain := [{ number := 0, hash := 0xa, parent := 0, root := 1, oldRoot := 0, txs := [⟨0xf1, 0x13, false⟩], diff := {} }] }
    resolve nd (.number 5) = none ∧
      transactionByBlockIdAndIndex .v8 nd (.number 5) 0 = .err .invalidTxIndex ∧
      transactionByBlockIdAndIndex .v9 nd (.number 5) 0 = .err .invalidTxIndex ∧
      transactionByBlockIdAndIndex .v10 nd (.number 5) 0 = .err .invalidTxIndex ∧
      transactionByBlockIdAndIndex .v10 nd (.hash 0xbad) 0 = .err .blockNotFound := by
  decide

/-! ## Transactions by hash -/

/-- getTransactionByHash answers only with a transaction of the current chain carrying the
requested hash … -/
theorem txByHash_sound (nd : Node) (h : Nat) (t : Tx) (wf : WellFormed nd)
    (ha : transactionByHash nd h = .tx t) : t.hash = h ∧ ∃ b ∈ nd.chain, t ∈ b.txs :=
  transactionByHash_sound wf ha

/-- … and TXN_HASH_NOT_FOUND precisely when no transaction of the chain has that hash. The same
for the receipt and the status. -/
theorem txByHash_notfound_iff (nd : Node) (h : Nat) (wf : WellFormed nd) :
    (transactionByHash nd h = .err .txnHashNotFound ↔ ∀ b ∈ nd.chain, ∀ t ∈ b.txs, t.hash ≠ h) ∧
    (transactionReceipt nd h = .err .txnHashNotFound ↔ ∀ b ∈ nd.chain, ∀ t ∈ b.txs, t.hash ≠ h) ∧
    (transactionStatus nd h = .err .txnHashNotFound ↔ ∀ b ∈ nd.chain, ∀ t ∈ b.txs, t.hash ≠ h) :=
  ⟨transactionByHash_notFound_iff wf, transactionReceipt_notFound_iff wf, transactionStatus_notFound_iff wf⟩

/-- A receipt names the block that holds the transaction (number and hash) and carries that
block's finality. -/
theorem receipt_sound (nd : Node) (h n bh : Nat) (t : Tx) (f : Fin) (wf : WellFormed nd)
    (ha : transactionReceipt nd h = .receipt t f n bh) :
    t.hash = h ∧ f = finality n (statusL1 nd) ∧ ∃ b, nd.chain[n]? = some b ∧ t ∈ b.txs ∧ bh = b.hash :=
  transactionReceipt_sound wf ha

/-- A status is the finality of the holding block and the execution result of that transaction. -/
theorem status_sound (nd : Node) (h : Nat) (f : Fin) (r : Bool) (wf : WellFormed nd)
    (ha : transactionStatus nd h = .status f r) :
    ∃ n b t, nd.chain[n]? = some b ∧ t ∈ b.txs ∧ t.hash = h ∧ f = finality n (statusL1 nd) ∧ r = t.reverted :=
  transactionStatus_sound wf ha

/-! ## State methods -/

/-
Full-strength statement (does NOT hold of juno):
  stateById be ver nd id = .error .blockNotFound ↔ resolve nd id = none
It fails for the identifier {block_hash: 0x0}, which denotes nothing and is nevertheless served
from a state reader, see `hash_zero_is_served_from_a_state` below.
-/

/-- The state methods read the fold of the diffs of blocks `0 … n` where `n` is the block the
identifier denotes, and answer BLOCK_NOT_FOUND when it denotes nothing — for every identifier
except {block_hash: 0x0} (and v8's `pending`, which is the head state). -/
theorem state_resolution_partial (be : Backend) (ver : Ver) (nd : Node) (id : BlockId)
    (hv : ¬ (ver = .v8 ∧ id = .l1Accepted)) (hp : ¬ (ver = .v8 ∧ id = .pre)) (hz : id ≠ .hash 0) :
    stateById be ver nd id =
      match resolve nd id with
      | some n => .ok ⟨stateBlocks nd n, if id = .latest then .head else .history⟩
      | none => .error .blockNotFound :=
  stateById_eq be ver nd id hv hp hz

/-- getNonce / getClassHashAt / getClass / getClassAt on the denoted state. -/
theorem state_methods_partial (be : Backend) (ver : Ver) (nd : Node) (id : BlockId) (a c : Nat)
    (hv : ¬ (ver = .v8 ∧ id = .l1Accepted)) (hp : ¬ (ver = .v8 ∧ id = .pre)) (hz : id ≠ .hash 0) :
    match resolve nd id with
    | none =>
      nonce be ver nd id a = .err .blockNotFound ∧ classHashAt be ver nd id a = .err .blockNotFound ∧
      classByHash be ver nd id c = .err .blockNotFound ∧ classAt be ver nd id a = .err .blockNotFound
    | some n =>
      let st := stateBlocks nd n
      nonce be ver nd id a =
        (if isSystemContract a then .err .contractNotFound
         else if deployedIn st a then .num (nonceIn st a) else .err .contractNotFound) ∧
      classHashAt be ver nd id a =
        (if isSystemContract a then .err .contractNotFound
         else if deployedIn st a then .num (classHashIn st a) else .err .contractNotFound) ∧
      classByHash be ver nd id c = (if declaredIn st c then .num c else .err .classHashNotFound) ∧
      classAt be ver nd id a =
        (if isSystemContract a then .err .contractNotFound
         else if deployedIn st a then
           (if declaredIn st (classHashIn st a) then .num (classHashIn st a) else .err .contractNotFound)
         else .err .contractNotFound) := by
  have e := stateById_eq be ver nd id hv hp hz
  cases hr : resolve nd id with
  | none =>
    rw [hr] at e
    simp [nonce, classHashAt, classByHash, classAt, e]
  | some n =>
    rw [hr] at e
    simp only [nonce, classHashAt, classByHash, classAt, e]
    refine ⟨trivial, trivial, trivial, ?_⟩
    by_cases hs : isSystemContract a = true
    · simp [hs]
    · by_cases hd : deployedIn (stateBlocks nd n) a = true
      · by_cases hc : declaredIn (stateBlocks nd n) (classHashIn (stateBlocks nd n) a) = true
        · simp [hs, hd, hc]
        · simp [hs, hd, hc]
      · simp [hs, hd]

/-- getStorageAt, all three versions: the value of the slot in the denoted state when the
contract exists there, CONTRACT_NOT_FOUND otherwise, BLOCK_NOT_FOUND when nothing is denoted —
provided non-zero storage only lives in contracts of the state (deployed ones, or system
contracts a diff touched), which every valid chain satisfies. In particular v8, v9, v10 agree. -/
theorem storage_partial (be : Backend) (ver : Ver) (nd : Node) (id : BlockId) (a k : Nat)
    (hv : ¬ (ver = .v8 ∧ id = .l1Accepted)) (hp : ¬ (ver = .v8 ∧ id = .pre)) (hz : id ≠ .hash 0)
    (hdep : ∀ n, resolve nd id = some n →
      storageIn (stateBlocks nd n) a k ≠ 0 → deployedIn (stateBlocks nd n) a = true) :
    storageAt be ver nd id a k =
      match resolve nd id with
      | none => .err .blockNotFound
      | some n =>
        if deployedIn (stateBlocks nd n) a then .num (storageIn (stateBlocks nd n) a k)
        else .err .contractNotFound :=
  storageAt_eq be ver nd id a k hv hp hz hdep

/-- The state after block `n+1` is the state after block `n` updated by block `n+1`'s diff:
a slot / nonce / class hash keeps its value unless the diff writes it; contracts and classes
accumulate. (So the state the methods read is the fold of exactly the blocks `0 … n`.) -/
theorem state_is_fold_of_diffs (nd : Node) (n : Nat) (b : Block) (h : nd.chain[n + 1]? = some b)
    (a k c : Nat) :
    let s := stateBlocks nd n
    let s' := stateBlocks nd (n + 1)
    storageIn s' a k = (match lookup3 b.diff.storage a k with | some v => v | none => storageIn s a k) ∧
    nonceIn s' a = (match lookup2 b.diff.nonces a with | some v => v | none => nonceIn s a) ∧
    classHashIn s' a = (match classInDiff b.diff a with | some v => v | none => classHashIn s a) ∧
    deployedIn s' a = (deployedIn s a || deploysInDiff b.diff a) ∧
    declaredIn s' c = (declaredIn s c || b.diff.declared.contains c) := by
  simp only [stateBlocks_succ nd n b h]
  exact ⟨storageIn_snoc _ _ _ _, nonceIn_snoc _ _ _, classHashIn_snoc _ _ _, deployedIn_snoc _ _ _,
    declaredIn_snoc _ _ _⟩

/-- Witness of the deviation at {block_hash: 0x0}: a chain of one block deploying contract
0x105 (class 0xc0, declared) with nonce 3 and slot 7 = 9. The identifier denotes nothing, yet
the legacy backend answers as for an empty state (CONTRACT_NOT_FOUND / CLASS_HASH_NOT_FOUND,
v10 getStorageAt even succeeds with 0), the new backend answers with the head state's data;
the block methods say BLOCK_NOT_FOUND for the same identifier. -/
theorem hash_zero_is_served_from_a_state :
    let d : Diff := { deployed := [(0x105, 0xc0)], nonces := [(0x105, 3)], storage := [(0x105, 7, 9)], declared := [0xc0] }
    let nd : Node := { chain := [{ number := 0, hash := 0xa, parent := 0, root := 1, oldRoot := 0, txs := [], diff := d }] }
    resolve nd (.hash 0) = none ∧ blockWithTxHashes .v10 nd (.hash 0) = .err .blockNotFound ∧
      nonce .legacy .v10 nd (.hash 0) 0x105 = .err .contractNotFound ∧
      classByHash .legacy .v9 nd (.hash 0) 0xc0 = .err .classHashNotFound ∧
      storageAt .legacy .v9 nd (.hash 0) 0x105 7 = .err .contractNotFound ∧
      storageAt .legacy .v10 nd (.hash 0) 0x105 7 = .num 0 ∧
      nonce .new .v10 nd (.hash 0) 0x105 = .num 3 ∧
      classAt .new .v8 nd (.hash 0) 0x105 = .num 0xc0 ∧
      storageAt .new .v10 nd (.hash 0) 0x105 7 = .num 9 := by
  decide

/-! ## Versions -/

/-- v9 and v10 give the same answer to every read method on every identifier (getStorageAt under
the conditions of `storage_partial`; getStateUpdate without the v10-only filter); v8 gives the
same answer as well except for the tags it does not have. -/
theorem versions_agree (nd : Node) (id : BlockId) (i a c : Nat) (be : Backend)
    (h8 : id ≠ .l1Accepted ∧ id ≠ .pre) :
    (blockWithTxHashes .v8 nd id = blockWithTxHashes .v9 nd id ∧ blockWithTxHashes .v9 nd id = blockWithTxHashes .v10 nd id) ∧
    (blockWithTxs .v8 nd id = blockWithTxs .v9 nd id ∧ blockWithTxs .v9 nd id = blockWithTxs .v10 nd id) ∧
    (blockWithReceipts .v8 nd id = blockWithReceipts .v9 nd id ∧ blockWithReceipts .v9 nd id = blockWithReceipts .v10 nd id) ∧
    (stateUpdate .v8 nd id [] = stateUpdate .v9 nd id [] ∧ stateUpdate .v9 nd id [] = stateUpdate .v10 nd id []) ∧
    (transactionByBlockIdAndIndex .v8 nd id i = transactionByBlockIdAndIndex .v9 nd id i ∧
      transactionByBlockIdAndIndex .v9 nd id i = transactionByBlockIdAndIndex .v10 nd id i) ∧
    (nonce be .v8 nd id a = nonce be .v9 nd id a ∧ nonce be .v9 nd id a = nonce be .v10 nd id a) ∧
    (classHashAt be .v8 nd id a = classHashAt be .v9 nd id a ∧ classHashAt be .v9 nd id a = classHashAt be .v10 nd id a) ∧
    (classByHash be .v8 nd id c = classByHash be .v9 nd id c ∧ classByHash be .v9 nd id c = classByHash be .v10 nd id c) ∧
    (classAt be .v8 nd id a = classAt be .v9 nd id a ∧ classAt be .v9 nd id a = classAt be .v10 nd id a) := by
  obtain ⟨h1, h2⟩ := h8
  cases id <;> first | exact absurd rfl h1 | exact absurd rfl h2 | (simp [blockWithTxHashes, blockWithTxs, blockWithReceipts, stateUpdate, filterDiff, transactionByBlockIdAndIndex, blockWithTxHashesStored, blockWithTxsStored, blockWithReceiptsStored, stateUpdateStored, transactionByBlockIdAndIndexStored, isV8Pending, nonce, classHashAt, classByHash, classAt, blockById, stateById])

/-- The transaction count agrees across versions too (v8 reads the header's count, v9/v10 the
count by number) on well-formed nodes. -/
theorem versions_agree_txCount (nd : Node) (id : BlockId) (h8 : id ≠ .l1Accepted) (h8' : id ≠ .pre) :
    blockTransactionCount .v8 nd id = blockTransactionCount .v9 nd id ∧
      blockTransactionCount .v9 nd id = blockTransactionCount .v10 nd id := by
  have p8 : isV8Pending .v8 id = false := (isV8Pending_false_iff _ _).mpr (fun h => h8' h.2)
  have p9 : isV8Pending .v9 id = false := by simp [isV8Pending]
  have p10 : isV8Pending .v10 id = false := by simp [isV8Pending]
  rw [(handlers_eq_stored nd 0 [] p8).2.2.2.1, (handlers_eq_stored nd 0 [] p9).2.2.2.1,
    (handlers_eq_stored nd 0 [] p10).2.2.2.1]
  have hv8 : ¬ (Ver.v8 = .v8 ∧ id = .l1Accepted) := fun h => h8 h.2
  have hv9 : ¬ (Ver.v9 = .v8 ∧ id = .l1Accepted) := fun h => by cases h.1
  have hv10 : ¬ (Ver.v10 = .v8 ∧ id = .l1Accepted) := fun h => by cases h.1
  rw [blockTransactionCount_eq hv8, blockTransactionCount_eq hv9, blockTransactionCount_eq hv10]
  exact ⟨rfl, rfl⟩

/-! ## The wire layer: decoding of block ids, dispatch, refusals -/

/-- `BlockID.UnmarshalJSON`, all versions: `latest`; an object's `block_hash` wins over its
`block_number`; `{}` and non-ids are refused; v8 knows `pending` but neither `l1_accepted` nor
`pre_confirmed`; v9 / v10 know those two but not `pending`. -/
theorem decode_spec :
    (∀ ver, decodeId ver (.tag "latest") = .ok .latest) ∧
    (∀ ver h n, decodeId ver (.obj (some h) n) = .ok (.hash h)) ∧
    (∀ ver n, decodeId ver (.obj none (some n)) = .ok (.number n)) ∧
    (∀ ver, decodeId ver (.obj none none) = .error .invalidParams ∧ decodeId ver .other = .error .invalidParams) ∧
    (decodeId .v8 (.tag "pending") = .ok .pre ∧ decodeId .v8 (.tag "l1_accepted") = .error .invalidParams ∧
      decodeId .v8 (.tag "pre_confirmed") = .error .invalidParams) ∧
    (∀ ver, ver ≠ .v8 → decodeId ver (.tag "pending") = .error .invalidParams ∧
      decodeId ver (.tag "l1_accepted") = .ok .l1Accepted ∧ decodeId ver (.tag "pre_confirmed") = .ok .pre) := by
  refine ⟨?_, ?_, ?_, ?_, ?_, ?_⟩
  · intro ver; cases ver <;> simp [decodeId]
  · intro ver h n; cases ver <;> rfl
  · intro ver n; cases ver <;> rfl
  · intro ver; cases ver <;> exact ⟨rfl, rfl⟩
  · simp [decodeId]
  · intro ver hv; cases ver
    · exact absurd rfl hv
    · simp [decodeId]
    · simp [decodeId]

/-- A string that is not one of the version's tags is refused. -/
theorem decode_unknown_tag (ver : Ver) (s : String)
    (h : s ≠ "latest" ∧ s ≠ "pending" ∧ s ≠ "pre_confirmed" ∧ s ≠ "l1_accepted") :
    decodeId ver (.tag s) = .error .invalidParams := by
  obtain ⟨h1, h2, h3, h4⟩ := h
  cases ver <;> simp [decodeId, h1, h2, h3, h4]

/-- Whatever cannot be decoded as a block id of the version is answered "invalid params" by
every method that takes one, before any handler runs. -/
theorem serve_refuses_undecodable (be : Backend) (ver : Ver) (nd : Node) (raw : RawId) (e : Err)
    (h : decodeId ver raw = .error e) (f : List Nat) (i : Int) (a k c : Nat) :
    e = .invalidParams ∧
    serve be ver nd (.blockWithTxHashes raw) = .err .invalidParams ∧
    serve be ver nd (.blockWithTxs raw) = .err .invalidParams ∧
    serve be ver nd (.blockWithReceipts raw) = .err .invalidParams ∧
    serve be ver nd (.blockTransactionCount raw) = .err .invalidParams ∧
    serve be ver nd (.stateUpdate raw f) = .err .invalidParams ∧
    serve be ver nd (.transactionByBlockIdAndIndex raw i) = .err .invalidParams ∧
    serve be ver nd (.storageAt a k raw) = .err .invalidParams ∧
    serve be ver nd (.nonce raw a) = .err .invalidParams ∧
    serve be ver nd (.classHashAt raw a) = .err .invalidParams ∧
    serve be ver nd (.classByHash raw c) = .err .invalidParams ∧
    serve be ver nd (.classAt raw a) = .err .invalidParams := by
  have he : e = .invalidParams := by
    cases raw with
    | tag s =>
      simp only [decodeId] at h
      split at h
      · cases h
      · cases ver <;> simp only at h <;> (repeat' split at h) <;> cases h <;> rfl
    | obj hh nn => cases hh <;> cases nn <;> simp [decodeId] at h <;> exact h.symm
    | other => simp [decodeId] at h; exact h.symm
  subst he
  simp [serve, withId, h]

/-- A decodable id is handed to the handler of the method (dispatch), and a v8 id is never
`l1_accepted`. -/
theorem serve_dispatch (be : Backend) (ver : Ver) (nd : Node) (raw : RawId) (id : BlockId)
    (h : decodeId ver raw = .ok id) (f : List Nat) (i : Nat) (a k c : Nat) :
    ¬ (ver = .v8 ∧ id = .l1Accepted) ∧
    serve be ver nd (.blockWithTxHashes raw) = blockWithTxHashes ver nd id ∧
    serve be ver nd (.blockWithTxs raw) = blockWithTxs ver nd id ∧
    serve be ver nd (.blockWithReceipts raw) = blockWithReceipts ver nd id ∧
    serve be ver nd (.blockTransactionCount raw) = blockTransactionCount ver nd id ∧
    serve be ver nd (.stateUpdate raw f) = stateUpdate ver nd id f ∧
    serve be ver nd (.transactionByBlockIdAndIndex raw (Int.ofNat i)) = transactionByBlockIdAndIndex ver nd id i ∧
    serve be ver nd (.storageAt a k raw) = storageAt be ver nd id a k ∧
    serve be ver nd (.nonce raw a) = nonce be ver nd id a ∧
    serve be ver nd (.classHashAt raw a) = classHashAt be ver nd id a ∧
    serve be ver nd (.classByHash raw c) = classByHash be ver nd id c ∧
    serve be ver nd (.classAt raw a) = classAt be ver nd id a := by
  refine ⟨?_, ?_⟩
  · rintro ⟨hv, hi⟩
    subst hv
    exact decodeId_v8_never_l1 raw id h hi
  · have hneg : ¬ ((i : Int) < 0) := by omega
    simp [serve, withId, h, hneg]

/-- A negative transaction index is INVALID_TXN_INDEX whatever the (decodable) block id. -/
theorem negative_index (be : Backend) (ver : Ver) (nd : Node) (raw : RawId) (id : BlockId) (i : Int)
    (h : decodeId ver raw = .ok id) (hi : i < 0) :
    serve be ver nd (.transactionByBlockIdAndIndex raw i) = .err .invalidTxIndex := by
  simp [serve, withId, h, hi]

/-- End to end for the block methods: request in wire form → answer, on any reachable node. -/
theorem serve_block_methods_reachable (be : Backend) (ver : Ver) (ops : List Op) (raw : RawId) (id : BlockId)
    (h : decodeId ver raw = .ok id) (hp : isV8Pending ver id = false) :
    let nd := run ops
    match resolvedBlock nd id with
    | some b =>
      serve be ver nd (.blockWithTxHashes raw) = .blockHashes (hdrOf nd b) (b.txs.map (·.hash)) ∧
      serve be ver nd (.blockWithTxs raw) = .blockTxs (hdrOf nd b) b.txs ∧
      serve be ver nd (.blockWithReceipts raw) =
        .blockReceipts (hdrOf nd b) (b.txs.map (fun t => (t, finality b.number (statusL1 nd)))) ∧
      serve be ver nd (.blockTransactionCount raw) = .num b.txs.length ∧
      serve be ver nd (.stateUpdate raw []) = .update b.hash b.root b.oldRoot (filterDiff ver [] b.diff)
    | none =>
      serve be ver nd (.blockWithTxHashes raw) = .err .blockNotFound ∧
      serve be ver nd (.blockWithTxs raw) = .err .blockNotFound ∧
      serve be ver nd (.blockWithReceipts raw) = .err .blockNotFound ∧
      serve be ver nd (.blockTransactionCount raw) = .err .blockNotFound ∧
      serve be ver nd (.stateUpdate raw []) = .err .blockNotFound := by
  intro nd
  obtain ⟨hv, e1, e2, e3, e4, e5, _⟩ := serve_dispatch be ver nd raw id h [] 0 0 0 0
  rw [e1, e2, e3, e4, e5]
  exact block_methods_answer_denoted_block ver nd id [] (run_wellFormed ops) hv hp

/-! ## v8 `pending` -/

/-- rpc/v8 serves `pending` (no pending data) as a synthetic EMPTY block on top of the head: no
transactions (count 0, every index invalid), parent = head hash, old root = head root, and a
state diff that is empty below height 10 and otherwise records the hash of block `n - 10` in the
block-hash contract 0x1; on the empty chain everything is BLOCK_NOT_FOUND. The state methods on
`pending` read the head state (`stateById`). -/
theorem v8_pending_answers (nd : Node) (wf : WellFormed nd) (i : Nat) (f : List Nat) :
    match resolvedBlock nd .latest with
    | none =>
      blockWithTxHashes .v8 nd .pre = .err .blockNotFound ∧ blockWithTxs .v8 nd .pre = .err .blockNotFound ∧
      blockWithReceipts .v8 nd .pre = .err .blockNotFound ∧ blockTransactionCount .v8 nd .pre = .err .blockNotFound ∧
      transactionByBlockIdAndIndex .v8 nd .pre i = .err .blockNotFound ∧ stateUpdate .v8 nd .pre f = .err .blockNotFound
    | some h =>
      blockWithTxHashes .v8 nd .pre = .pendingBlock h.hash ∧ blockWithTxs .v8 nd .pre = .pendingBlock h.hash ∧
      blockWithReceipts .v8 nd .pre = .pendingBlock h.hash ∧ blockTransactionCount .v8 nd .pre = .num 0 ∧
      transactionByBlockIdAndIndex .v8 nd .pre i = .err .invalidTxIndex ∧
      stateUpdate .v8 nd .pre f = .pendingUpdate h.root
        (if h.number + 1 < blockHashLag then {}
         else { storage := [(1, h.number + 1 - blockHashLag,
                 match nd.chain[h.number + 1 - blockHashLag]? with | some b => b.hash | none => 0)] }) := by
  have hp := pendingOf_eq wf
  cases hh : resolvedBlock nd .latest with
  | none =>
    rw [hh] at hp
    simp only at hp
    simp [blockWithTxHashes, blockWithTxs, blockWithReceipts, blockTransactionCount,
      transactionByBlockIdAndIndex, stateUpdate, isV8Pending, hp]
  | some h =>
    rw [hh] at hp
    simp only at hp
    simp [blockWithTxHashes, blockWithTxs, blockWithReceipts, blockTransactionCount,
      transactionByBlockIdAndIndex, stateUpdate, isV8Pending, hp] <;> rfl

/-! ## Reachable nodes: storage needs no side condition; by-hash lookups are complete -/

/-- `Store` refuses a storage diff for a contract that does not exist (the model's `storageOk`,
tied to the real `Finalise` by the harness), so on every reachable node non-zero storage only
lives in contracts of the state. -/
theorem reachable_storage_in_contracts (ops : List Op) (n a k : Nat)
    (h : storageIn (stateBlocks (run ops) n) a k ≠ 0) : deployedIn (stateBlocks (run ops) n) a = true :=
  storage_in_contracts (run_storageInv ops) n a k h

/-- getStorageAt on every reachable node, all versions, both backends, every identifier except
{block_hash: 0x0} (and v8 `pending`, which reads the head state): the slot's value in the denoted
state when the contract exists there, CONTRACT_NOT_FOUND otherwise, BLOCK_NOT_FOUND when nothing
is denoted. -/
theorem storage_reachable (be : Backend) (ver : Ver) (ops : List Op) (id : BlockId) (a k : Nat)
    (hv : ¬ (ver = .v8 ∧ id = .l1Accepted)) (hp : ¬ (ver = .v8 ∧ id = .pre)) (hz : id ≠ .hash 0) :
    let nd := run ops
    storageAt be ver nd id a k =
      match resolve nd id with
      | none => .err .blockNotFound
      | some n =>
        if deployedIn (stateBlocks nd n) a then .num (storageIn (stateBlocks nd n) a k)
        else .err .contractNotFound :=
  storageAt_eq be ver (run ops) id a k hv hp hz
    (fun n _ h => storage_in_contracts (run_storageInv ops) n a k h)

/-- … so the three versions and the two backends agree on getStorageAt on every reachable node
for every identifier they share other than {block_hash: 0x0}. -/
theorem storage_versions_agree_reachable (ops : List Op) (id : BlockId) (a k : Nat) (be be' : Backend)
    (h8 : id ≠ .l1Accepted ∧ id ≠ .pre) (hz : id ≠ .hash 0) :
    storageAt be .v8 (run ops) id a k = storageAt be' .v9 (run ops) id a k ∧
      storageAt be' .v9 (run ops) id a k = storageAt be .v10 (run ops) id a k := by
  have h1 := storage_reachable be .v8 ops id a k (fun h => h8.1 h.2) (fun h => h8.2 h.2) hz
  have h2 := storage_reachable be' .v9 ops id a k (fun h => by cases h.1) (fun h => by cases h.1) hz
  have h3 := storage_reachable be .v10 ops id a k (fun h => by cases h.1) (fun h => by cases h.1) hz
  simp only at h1 h2 h3
  rw [h1, h2, h3]
  exact ⟨rfl, rfl⟩

/-- Completeness by hash: with distinct transaction hashes, the transaction at index `i` of block
`n` is found by its hash, its receipt names block `n` (number and hash) with that block's
finality, and its status is that finality and its own execution result — the same finality
getBlockWithReceipts shows for it. -/
theorem by_hash_complete (nd : Node) (n i : Nat) (b : Block) (t : Tx) (wf : WellFormed nd)
    (hd : TxHashesDistinct nd) (hb : nd.chain[n]? = some b) (ht : b.txs[i]? = some t) :
    transactionByHash nd t.hash = .tx t ∧
      transactionReceipt nd t.hash = .receipt t (finality n (statusL1 nd)) n b.hash ∧
      transactionStatus nd t.hash = .status (finality n (statusL1 nd)) t.reverted :=
  Juno.C08.by_hash_complete wf hd hb ht

/-! ## v10 getStorageAt with INCLUDE_LAST_UPDATE_BLOCK -/

/-- The flagged answer carries the same value as the plain v10 answer (plus the last update of
the slot in the same state), and is the same error otherwise. -/
theorem last_update_value (be : Backend) (nd : Node) (id : BlockId) (a k : Nat) :
    (∃ v st, stateById be .v10 nd id = .ok st ∧ storageAt be .v10 nd id a k = .num v ∧
        storageAtWithLastUpdate be nd id a k = .valueAt v (lastUpdateIn be st.blocks a k)) ∨
      storageAtWithLastUpdate be nd id a k = storageAt be .v10 nd id a k := by
  unfold storageAtWithLastUpdate
  cases hs : stateById be .v10 nd id with
  | error e => right; simp [storageAt, hs]
  | ok st =>
    cases h : storageAt be .v10 nd id a k with
    | num v => left; exact ⟨v, st, rfl, rfl, rfl⟩
    | _ => right; rfl

/-- "Last update" as a fold over the chain: block `n+1` becomes the last update of a slot when
its diff writes the slot — on the legacy backend unless it writes zero over zero. -/
theorem last_update_is_fold (bs : List Block) (b : Block) (a k : Nat) :
    lastUpdateIn .new (bs ++ [b]) a k =
      (if (lookup3 b.diff.storage a k).isSome then b.number else lastUpdateIn .new bs a k) ∧
    lastUpdateIn .legacy (bs ++ [b]) a k =
      (match lookup3 b.diff.storage a k with
       | some v => if v == 0 && storageIn bs a k == 0 then lastUpdateIn .legacy bs a k else b.number
       | none => lastUpdateIn .legacy bs a k) :=
  ⟨lastTouchedIn_snoc bs b a k, lastLoggedIn_snoc bs b a k⟩

/-
Full-strength statement (does NOT hold of juno): the two backends give the same last_update_block.
-/
/-- Witness: contract 0x105 deployed in block 0, block 1 writes 0 to its never-written slot 7:
the legacy backend reports last update 0 ("never"), the new backend reports block 1. -/
theorem last_update_backends_disagree_on_zero_over_zero :
    let nd : Node := { chain := [
      { number := 0, hash := 0xa0, parent := 0, root := 1, oldRoot := 0, txs := [], diff := { deployed := [(0x105, 0xc0)] } },
      { number := 1, hash := 0xa1, parent := 0xa0, root := 1, oldRoot := 1, txs := [], diff := { storage := [(0x105, 7, 0)] } }] }
    storageAtWithLastUpdate .legacy nd .latest 0x105 7 = .valueAt 0 0 ∧
      storageAtWithLastUpdate .new nd .latest 0x105 7 = .valueAt 0 1 := by
  decide

/-! ## Non-vacuity: a concrete reachable node meeting the hypotheses -/

def exampleOps : List Op :=
  [ .store { number := 0, hash := 0xa0, parent := 0, root := 0xe0, oldRoot := 0,
             txs := [⟨0xf1, 0x13, false⟩, ⟨0xf2, 0x21, true⟩],
             diff := { deployed := [(0x105, 0xc0)], storage := [(0x105, 7, 9), (1, 5, 8)], declared := [0xc0] } },
    .store { number := 1, hash := 0xbad, parent := 0xa0, root := 0, oldRoot := 0, txs := [],
             diff := { storage := [(0x777, 1, 1)] } },  -- refused: storage of a contract that does not exist
    .store { number := 1, hash := 0xa1, parent := 0xa0, root := 0xe1, oldRoot := 0xe0,
             txs := [⟨0xf3, 0x40, false⟩], diff := { nonces := [(0x105, 3)], storage := [(0x105, 7, 0)] } },
    .setL1 (some 0),
    .store { number := 5, hash := 0xbad, parent := 0xa1, root := 0, oldRoot := 0, txs := [], diff := {} },  -- refused
    .store { number := 2, hash := 0xa2, parent := 0xa1, root := 0xe2, oldRoot := 0xe1, txs := [], diff := {} },
    .revert ]

example : (run exampleOps).chain.length = 2 ∧ (run exampleOps).l1 = some 0 := by decide
example : resolve (run exampleOps) (.hash 0xa1) = some 1 ∧ resolve (run exampleOps) (.hash 0xa2) = none ∧
    resolve (run exampleOps) .l1Accepted = some 0 ∧ resolve (run exampleOps) .latest = some 1 := by decide
example : HashesDistinct (run exampleOps) ∧ TxHashesDistinct (run exampleOps) := by
  unfold HashesDistinct TxHashesDistinct; decide
example : blockWithReceipts .v10 (run exampleOps) .l1Accepted =
    .blockReceipts ⟨0, 0xa0, 0, 0xe0, .l1⟩ [(⟨0xf1, 0x13, false⟩, .l1), (⟨0xf2, 0x21, true⟩, .l1)] := by decide
example : transactionReceipt (run exampleOps) 0xf3 = .receipt ⟨0xf3, 0x40, false⟩ .l2 1 0xa1 := by decide
example : storageAt .new .v10 (run exampleOps) (.number 0) 0x105 7 = .num 9 ∧
    storageAt .new .v10 (run exampleOps) .latest 0x105 7 = .num 0 ∧
    storageAt .legacy .v9 (run exampleOps) .latest 1 5 = .num 8 ∧
    nonce .legacy .v8 (run exampleOps) (.hash 0xa1) 0x105 = .num 3 := by decide
example : serve .new .v8 (run exampleOps) (.blockWithTxHashes (.tag "pending")) = .pendingBlock 0xa1 ∧
    serve .new .v9 (run exampleOps) (.blockWithTxHashes (.tag "pending")) = .err .invalidParams ∧
    serve .new .v10 (run exampleOps) (.transactionByBlockIdAndIndex (.obj (some 0xa0) (some 7)) 1) = .tx ⟨0xf2, 0x21, true⟩ ∧
    serve .new .v10 (run exampleOps) (.transactionByBlockIdAndIndex (.tag "latest") (-1)) = .err .invalidTxIndex := by decide

end Juno.C08.Props
