import JunoModel.C08.Proofs
/-!
C08 — property theorems (statements only; helper lemmas are in `Proofs.lean`).

The model (`Model.lean`) transcribes the read path of rpc/v8, rpc/v9, rpc/v10: wire decoding of the
arguments, dispatch, the handlers over the part of `blockchain.Reader` they use, and the node as
the list of stored blocks PLUS the two index buckets the handlers go through (block hash → number,
transaction hash → (number, index)) which `store` writes and `revert` deletes. The specification
side is independent of the handlers: `resolve` (what a block id denotes on the chain), a search in
the chain for hashes (`findTx`), `stateAfter` (the left fold of the state diffs over total maps).

What is and is not claimed. Every theorem takes ONE node; the handlers' several database reads see
the same node (no Store / RevertHead between the reads of one request — the real code takes no
snapshot, so a torn answer under concurrent writes is outside these theorems and outside the
harness). The three API versions are one definition with a `Ver` parameter consulted where the Go
packages differ (tags, pending, count, storage, filter); the by-hash and head methods have no
`Ver` parameter at all: that they are identical in the three packages is an assumption of the
model which only the harness checks. Where the code leaves the statement, the full statement is a
comment, the exact behaviour is proved (`_partial` names the excluded case) and a concrete
witness is proved next to it. Witnesses of defects that were repaired in /repo since are kept as
regression witnesses and carry the repairing commit in their name (`…_before_<sha>`); they are
about the model's `Cfg` variant of the old code.
-/
namespace Juno.C08.Props
open Juno.C08

/-! ## Histories: well-formedness and the index buckets -/

/-- Every node reachable from the empty database by any sequence of operations stores block
`i` at height `i` … -/
theorem reachable_wellFormed (ops : List Op) : WellFormed (run ops) := run_wellFormed ops

/-- … and every stored block points at the hash of its predecessor (genesis at 0x0). -/
theorem reachable_linked (ops : List Op) : Linked (run ops) := run_linked ops

/-- After ANY history of Store / RevertHead / SetL1Head in which every block is new to the chain
when it is stored (`FreshFrom`: ideal hash — re-storing a reverted block is allowed), a lookup in
the hash → number bucket and in the tx-hash → (number, index) bucket gives exactly what a search
in the current chain gives, and hashes on the chain are distinct. This is where "including after
reverts" lives: it fails for a `revert` that leaves an index entry behind. -/
theorem buckets_agree_with_chain (ops : List Op) (fr : FreshFrom {} ops) :
    BucketsOk (run ops) ∧ HashesDistinct (run ops) ∧ TxHashesDistinct (run ops) :=
  run_inv ops fr

/-- One revert step, on any node whose buckets agree with its chain: the reverted block's hash and
its transactions' hashes are gone from the buckets, nothing else changed (the buckets agree with
the shorter chain), so by-hash requests for them answer not-found. -/
theorem revert_forgets_the_block (ver : Ver) (nd nd' : Node) (bs : List Block) (b : Block) (t : Tx)
    (inv : Inv nd) (wf : WellFormed nd) (hc : nd.chain = bs ++ [b]) (hr : revert nd = some nd') (ht : t ∈ b.txs) :
    nd'.chain = bs ∧ Inv nd' ∧ numberByHash nd' b.hash = none ∧ resolve nd' (.hash b.hash) = none ∧
      blockWithTxHashes ver nd' (.hash b.hash) = .err .blockNotFound ∧
      transactionByHash nd' t.hash = .err .txnHashNotFound ∧
      transactionReceipt nd' t.hash = .err .txnHashNotFound ∧
      transactionStatus nd' t.hash = .err .txnHashNotFound := by
  have inv' := revert_inv inv hr
  obtain ⟨b', hcb, hdl, _, _, _, _⟩ := revert_chain hr
  have hbs : nd'.chain = bs := by rw [hdl, hc, List.dropLast_concat]
  have wf' : WellFormed nd' := revert_wellFormed wf hr
  have hres : resolve nd' (.hash b.hash) = none := by
    have hd := inv.2.1
    unfold HashesDistinct at hd
    rw [hc, List.map_append, List.nodup_append] at hd
    simp only [resolve, hbs]
    rw [List.findIdx?_eq_none_iff]
    intro x hx
    have := hd.2.2 x.hash (List.mem_map_of_mem hx) b.hash (by simp)
    simpa using this
  have hnf : ∀ b0 ∈ nd'.chain, ∀ u ∈ b0.txs, u.hash ≠ t.hash := by
    have td := inv.2.2
    unfold TxHashesDistinct at td
    rw [hc, List.flatMap_append, List.nodup_append] at td
    intro b0 hb0 u hu
    rw [hbs] at hb0
    exact td.2.2 u.hash (List.mem_flatMap.mpr ⟨b0, hb0, List.mem_map_of_mem hu⟩) t.hash
      (by simp only [List.flatMap_cons, List.flatMap_nil, List.append_nil]; exact List.mem_map_of_mem ht)
  have hp : isV8Pending ver (.hash b.hash) = false := by cases ver <;> rfl
  have hv : ¬ (ver = .v8 ∧ BlockId.hash b.hash = .l1Accepted) := fun h => by cases h.2
  refine ⟨hbs, inv', ?_, hres, ?_, ?_, ?_, ?_⟩
  · rw [inv'.1.1 b.hash]; simpa [resolve] using hres
  · rw [(handlers_eq_stored nd' 0 [] hp).1, blockWithTxHashes_eq inv'.1 wf' hv,
      (resolvedBlock_none_iff nd' _).mpr hres]
  · exact (transactionByHash_notFound_iff inv'.1 wf').mpr hnf
  · exact (transactionReceipt_notFound_iff inv'.1 wf').mpr hnf
  · exact (transactionStatus_notFound_iff inv'.1 wf').mpr hnf

/-! ## Resolution -/

/-- What an identifier resolves to is a block of the CURRENT chain, and it is the one the
identifier names: the given number; a block carrying the given hash; the head; the block at
`min(L1 head, head)`. -/
theorem resolve_sound (nd : Node) (id : BlockId) (n : Nat) (h : resolve nd id = some n) :
    n < nd.chain.length ∧
      (match id with
       | .number k => n = k
       | .hash x => ∃ b, nd.chain[n]? = some b ∧ b.hash = x
       | .latest => n + 1 = nd.chain.length
       | .l1Accepted => ∃ l, nd.l1 = some l ∧ n = min l (nd.chain.length - 1)
       | .pre => False) := by
  refine ⟨resolve_lt h, ?_⟩
  have hlt := resolve_lt h
  cases id with
  | number k =>
    simp only [resolve] at h
    split at h <;> simp_all
  | hash x =>
    simp only [resolve] at h
    obtain ⟨hl, hp, _⟩ := List.findIdx?_eq_some_iff_getElem.mp h
    exact ⟨nd.chain[n], by simp [hl], by simpa using hp⟩
  | latest =>
    simp only [resolve] at h
    split at h
    · cases h
    · cases h; simp only; omega
  | l1Accepted =>
    simp only [resolve] at h
    split at h
    · rename_i l hl
      split at h
      · cases h
      · cases h; exact ⟨l, hl, rfl⟩
    · cases h
  | pre => simp [resolve] at h

/-- Completeness of resolution: an identifier resolves to nothing exactly when the chain has no
such block. -/
theorem resolve_none_iff (nd : Node) (id : BlockId) :
    resolve nd id = none ↔
      (match id with
       | .number k => nd.chain.length ≤ k
       | .hash x => ∀ b ∈ nd.chain, b.hash ≠ x
       | .latest => nd.chain = []
       | .l1Accepted => nd.l1 = none ∨ nd.chain = []
       | .pre => True) := by
  cases id with
  | number k =>
    simp only [resolve]
    by_cases h : k < nd.chain.length <;> simp [h] <;> omega
  | hash x =>
    simp only [resolve, List.findIdx?_eq_none_iff]
    constructor
    · intro H b hb; simpa using H b hb
    · intro H b hb; simpa using H b hb
  | latest =>
    simp only [resolve]
    cases nd.chain <;> simp
  | l1Accepted =>
    simp only [resolve]
    cases nd.l1 <;> cases nd.chain <;> simp
  | pre => simp [resolve]

/-! ## Finality -/

/-
Full-strength statement (does NOT hold of juno):
  finality n (statusL1 nd) = .l1 ↔ ∃ l, nd.l1 = some l ∧ n ≤ l
It fails when the recorded L1 head is the zero struct `core.L1Head{}`.
-/

/-- ACCEPTED_ON_L1 exactly when an L1 head is recorded at or above the block's number — unless the
recorded head is the zero struct (number 0, nil hash, nil root). -/
theorem finality_spec_partial (nd : Node) (n : Nat) (hz : nd.l1Zero = false) :
    finality n (statusL1 nd) = .l1 ↔ ∃ l, nd.l1 = some l ∧ n ≤ l := by
  simp only [statusL1, hz]
  exact finality_l1_iff n nd.l1

/-- Witness: with `core.L1Head{}` recorded, `l1_accepted` denotes block 0 and the very block it
returns is shown as ACCEPTED_ON_L2 (all versions that know the tag). -/
theorem zero_struct_l1_head_is_taken_for_absent :
    let nd := setL1Zero { chain := [{ number := 0, hash := 0xa, parent := 0, root := 1, oldRoot := 0, txs := [], diff := {} }],
                          numByHash := [(0xa, 0)] }
    nd.l1 = some 0 ∧ resolve nd .l1Accepted = some 0 ∧
      blockWithTxHashes .v10 nd .l1Accepted = .blockHashes ⟨0, 0xa, 0, 1, .l2⟩ [] ∧
      blockWithTxHashes .v9 nd .l1Accepted = .blockHashes ⟨0, 0xa, 0, 1, .l2⟩ [] := by
  decide

/-! ## Block methods: the data of exactly the denoted block; BLOCK_NOT_FOUND iff none -/

/-- getBlockWithTxHashes / getBlockWithTxs / getBlockWithReceipts / getBlockTransactionCount /
getStateUpdate, all versions, every identifier kind (v8 has no `l1_accepted`; v8 `pending` is
`v8_pending_answers`): when the identifier denotes block `b` the answer is the projection of `b`
itself — its number, hash, parent, root, its own transactions in order, its own state diff — with
the finality of `b`'s number; when it denotes nothing the answer is BLOCK_NOT_FOUND. The handlers
reach `b` by five differently written paths (header by id then list by `header.Number`, whole
block by id, number by hash then count, …); `resolvedBlock` is the specification. -/
theorem block_methods_answer_denoted_block (ver : Ver) (nd : Node) (id : BlockId) (f : List Nat)
    (ok : BucketsOk nd) (wf : WellFormed nd) (hv : ¬ (ver = .v8 ∧ id = .l1Accepted))
    (hp : isV8Pending ver id = false) :
    match resolvedBlock nd id with
    | some b =>
      blockWithTxHashes ver nd id = .blockHashes (hdrOf nd b) (b.txs.map (·.hash)) ∧
      blockWithTxs ver nd id = .blockTxs (hdrOf nd b) b.txs ∧
      blockWithReceipts ver nd id =
        .blockReceipts (hdrOf nd b) (b.txs.map (fun t => (t, finality b.number (statusL1 nd)))) ∧
      blockTransactionCount ver nd id = .num b.txs.length ∧
      stateUpdate ver nd id f = .update b.hash b.root b.oldRoot (filterDiff ver f b.diff)
    | none =>
      blockWithTxHashes ver nd id = .err .blockNotFound ∧
      blockWithTxs ver nd id = .err .blockNotFound ∧
      blockWithReceipts ver nd id = .err .blockNotFound ∧
      blockTransactionCount ver nd id = .err .blockNotFound ∧
      stateUpdate ver nd id f = .err .blockNotFound := by
  obtain ⟨e1, e2, e3, e4, _, e6⟩ := handlers_eq_stored nd 0 f hp
  rw [e1, e2, e3, e4, e6, blockWithTxHashes_eq ok wf hv, blockWithTxs_eq ok wf hv, blockWithReceipts_eq ok hv,
    blockTransactionCount_eq ok hv, stateUpdate_eq ok f hv]
  cases resolvedBlock nd id <;> simp

/-- BLOCK_NOT_FOUND precisely when the chain lacks the block (block methods). -/
theorem block_methods_notfound_iff (ver : Ver) (nd : Node) (id : BlockId) (ok : BucketsOk nd) (wf : WellFormed nd)
    (hv : ¬ (ver = .v8 ∧ id = .l1Accepted)) (hp : isV8Pending ver id = false) :
    (blockWithTxHashes ver nd id = .err .blockNotFound ↔ resolve nd id = none) ∧
    (blockWithTxs ver nd id = .err .blockNotFound ↔ resolve nd id = none) ∧
    (blockWithReceipts ver nd id = .err .blockNotFound ↔ resolve nd id = none) ∧
    (blockTransactionCount ver nd id = .err .blockNotFound ↔ resolve nd id = none) ∧
    (stateUpdate ver nd id [] = .err .blockNotFound ↔ resolve nd id = none) := by
  obtain ⟨e1, e2, e3, e4, _, e6⟩ := handlers_eq_stored nd 0 [] hp
  rw [e1, e2, e3, e4, e6, blockWithTxHashes_eq ok wf hv, blockWithTxs_eq ok wf hv, blockWithReceipts_eq ok hv,
    blockTransactionCount_eq ok hv, stateUpdate_eq ok [] hv, ← resolvedBlock_none_iff]
  cases resolvedBlock nd id <;> simp

/-- blockNumber / blockHashAndNumber: the head, or "no blocks" on the empty chain. -/
theorem head_methods (nd : Node) (wf : WellFormed nd) :
    match resolvedBlock nd .latest with
    | some b => blockNumber nd = .num b.number ∧ blockHashAndNumber nd = .hashNum b.hash b.number ∧
        b.number + 1 = nd.chain.length
    | none => blockNumber nd = .err .noBlocks ∧ blockHashAndNumber nd = .err .noBlocks ∧ nd.chain = [] := by
  have e : headBlock nd = resolvedBlock nd .latest := by
    simp only [headBlock, height, resolvedBlock, resolve]
    by_cases h : nd.chain.isEmpty
    · simp [h]
    · simp only [if_neg h]; rfl
  cases h : resolvedBlock nd .latest with
  | none =>
    have hr := (resolvedBlock_none_iff nd .latest).mp h
    have hnil := (resolve_none_iff nd .latest).mp hr
    simp only at hnil
    simp [blockNumber, blockHashAndNumber, height, e, h, hnil]
  | some b =>
    obtain ⟨hr, _⟩ := resolvedBlock_at wf h
    have hs := (resolve_sound nd .latest b.number hr).2
    simp only at hs
    have hne : nd.chain.isEmpty = false := by
      cases hc : nd.chain with
      | nil => simp [hc] at hs
      | cons _ _ => rfl
    have : nd.chain.length - 1 = b.number := by omega
    simp [blockNumber, blockHashAndNumber, height, e, h, hne, this, hs]

/-! ## Transaction by block id and index -/

/-
Full-strength statement (does NOT hold of juno):
  transactionByBlockIdAndIndex ver nd id i = .err .blockNotFound ↔ resolve nd id = none
It fails for `block_number` identifiers above the height.
-/

/-- Exact behaviour: the transaction at that index of the denoted block, INVALID_TXN_INDEX past
its end; when nothing is denoted BLOCK_NOT_FOUND — unless the identifier is a block number, in
which case INVALID_TXN_INDEX. -/
theorem txByIdx_exact (ver : Ver) (nd : Node) (id : BlockId) (i : Nat) (ok : BucketsOk nd) (wf : WellFormed nd)
    (hv : ¬ (ver = .v8 ∧ id = .l1Accepted)) (hp : isV8Pending ver id = false) :
    transactionByBlockIdAndIndex ver nd id i =
      match resolvedBlock nd id with
      | some b => (match b.txs[i]? with | some t => .tx t | none => .err .invalidTxIndex)
      | none => if id.isNumber then .err .invalidTxIndex else .err .blockNotFound := by
  rw [(handlers_eq_stored nd i [] hp).2.2.2.2.1]
  exact transactionByBlockIdAndIndex_eq ok i wf hv

/-- BLOCK_NOT_FOUND iff the chain lacks the block — for identifiers that are not block numbers. -/
theorem txByIdx_notfound_iff_partial (ver : Ver) (nd : Node) (id : BlockId) (i : Nat) (ok : BucketsOk nd)
    (wf : WellFormed nd) (hv : ¬ (ver = .v8 ∧ id = .l1Accepted)) (hp : isV8Pending ver id = false)
    (hn : id.isNumber = false) :
    transactionByBlockIdAndIndex ver nd id i = .err .blockNotFound ↔ resolve nd id = none := by
  rw [(handlers_eq_stored nd i [] hp).2.2.2.2.1, transactionByBlockIdAndIndex_eq ok i wf hv, ← resolvedBlock_none_iff]
  cases resolvedBlock nd id with
  | none => simp [hn]
  | some b => simp only []; split <;> simp

/-- Witness of the deviation: one stored block, request for block number 5: nothing is denoted,
yet the answer is INVALID_TXN_INDEX, not BLOCK_NOT_FOUND (all three versions). -/
theorem txByIdx_missing_block_number_reports_invalid_index :
    let nd : Node := { chain := [{ number := 0, hash := 0xa, parent := 0, root := 1, oldRoot := 0, txs := [⟨0xf1, 0x13, false⟩], diff := {} }],
                       numByHash := [(0xa, 0)], txLoc := [(0xf1, (0, 0))] }
    resolve nd (.number 5) = none ∧
      transactionByBlockIdAndIndex .v8 nd (.number 5) 0 = .err .invalidTxIndex ∧
      transactionByBlockIdAndIndex .v9 nd (.number 5) 0 = .err .invalidTxIndex ∧
      transactionByBlockIdAndIndex .v10 nd (.number 5) 0 = .err .invalidTxIndex ∧
      transactionByBlockIdAndIndex .v10 nd (.hash 0xbad) 0 = .err .blockNotFound := by
  decide

/-! ## Transactions by hash -/

/-- getTransactionByHash answers only with a transaction of the current chain carrying the
requested hash … -/
theorem txByHash_sound (nd : Node) (h : Nat) (t : Tx) (ok : BucketsOk nd) (wf : WellFormed nd)
    (ha : transactionByHash nd h = .tx t) : t.hash = h ∧ ∃ b ∈ nd.chain, t ∈ b.txs :=
  transactionByHash_sound ok wf ha

/-- … and TXN_HASH_NOT_FOUND precisely when no transaction of the chain has that hash. The same
for the receipt and the status. -/
theorem txByHash_notfound_iff (nd : Node) (h : Nat) (ok : BucketsOk nd) (wf : WellFormed nd) :
    (transactionByHash nd h = .err .txnHashNotFound ↔ ∀ b ∈ nd.chain, ∀ t ∈ b.txs, t.hash ≠ h) ∧
    (transactionReceipt nd h = .err .txnHashNotFound ↔ ∀ b ∈ nd.chain, ∀ t ∈ b.txs, t.hash ≠ h) ∧
    (transactionStatus nd h = .err .txnHashNotFound ↔ ∀ b ∈ nd.chain, ∀ t ∈ b.txs, t.hash ≠ h) :=
  ⟨transactionByHash_notFound_iff ok wf, transactionReceipt_notFound_iff ok wf, transactionStatus_notFound_iff ok wf⟩

/-- A receipt names the block that holds the transaction (number and hash) and carries that
block's finality. -/
theorem receipt_sound (nd : Node) (h n bh : Nat) (t : Tx) (f : Fin) (ok : BucketsOk nd) (wf : WellFormed nd)
    (ha : transactionReceipt nd h = .receipt t f n bh) :
    t.hash = h ∧ f = finality n (statusL1 nd) ∧ ∃ b, nd.chain[n]? = some b ∧ t ∈ b.txs ∧ bh = b.hash :=
  transactionReceipt_sound ok wf ha

/-- A status is the finality of the holding block and the execution result of that transaction. -/
theorem status_sound (nd : Node) (h : Nat) (f : Fin) (r : Bool) (ok : BucketsOk nd) (wf : WellFormed nd)
    (ha : transactionStatus nd h = .status f r) :
    ∃ n b t, nd.chain[n]? = some b ∧ t ∈ b.txs ∧ t.hash = h ∧ f = finality n (statusL1 nd) ∧ r = t.reverted :=
  transactionStatus_sound ok wf ha

/-- Completeness by hash on every fresh history: the transaction at index `i` of block `n` IS found
by its hash, its receipt names block `n` (number and hash) with that block's finality, and its
status is that finality and its own execution result — the same finality getBlockWithReceipts
shows for it. -/
theorem by_hash_complete (ops : List Op) (fr : FreshFrom {} ops) (n i : Nat) (b : Block) (t : Tx)
    (hb : (run ops).chain[n]? = some b) (ht : b.txs[i]? = some t) :
    let nd := run ops
    transactionByHash nd t.hash = .tx t ∧
      transactionReceipt nd t.hash = .receipt t (finality n (statusL1 nd)) n b.hash ∧
      transactionStatus nd t.hash = .status (finality n (statusL1 nd)) t.reverted :=
  Juno.C08.by_hash_complete (run_inv ops fr).1 (run_wellFormed ops) (run_inv ops fr).2.2 hb ht

/-! ## State methods -/

/-
Full-strength statement (does NOT hold of juno):
  stateById be ver nd id = .error .blockNotFound ↔ resolve nd id = none
It fails for the identifier {block_hash: 0x0}, which denotes nothing and is nevertheless served
from a state reader, see `hash_zero_is_served_from_a_state` below.
-/

/-- The state methods read the state after blocks `0 … n` where `n` is the block the identifier
denotes, and answer BLOCK_NOT_FOUND when it denotes nothing — for every identifier except
{block_hash: 0x0} (and v8's `pending`, see `v8_pending_state_is_head_state`). -/
theorem state_resolution_partial (be : Backend) (ver : Ver) (nd : Node) (id : BlockId) (ok : BucketsOk nd)
    (hv : ¬ (ver = .v8 ∧ id = .l1Accepted)) (hp : ¬ (ver = .v8 ∧ id = .pre)) (hz : id ≠ .hash 0) :
    stateById be ver nd id =
      match resolve nd id with
      | some n => .ok ⟨stateBlocks nd n, if id = .latest then .head else .history⟩
      | none => .error .blockNotFound :=
  stateById_eq be ver nd id ok hv hp hz

/-- v8 `pending` (no pending data) reads the head state. -/
theorem v8_pending_state_is_head_state (be : Backend) (nd : Node) :
    stateById be .v8 nd .pre = stateById be .v8 nd .latest := by
  simp [stateById]

/-- getNonce / getClassHashAt / getClass / getClassAt against an INDEPENDENT description of the
state: `S = stateAfter (blocks 0 … n)` is the left fold of the state diffs over total maps
(`AState.apply`: a written nonce / class hash takes the written value, everything else keeps its
value, deployed contracts accumulate, declared classes accumulate), `n` the block the identifier
denotes. Nonce and class hash of a contract of `S` (system contracts refused), CONTRACT_NOT_FOUND
otherwise; a class iff declared in `S`; getClassAt = the class of the contract's class hash, with
an undeclared class reported as CONTRACT_NOT_FOUND. -/
theorem state_methods_partial (be : Backend) (ver : Ver) (nd : Node) (id : BlockId) (a c : Nat) (ok : BucketsOk nd)
    (hv : ¬ (ver = .v8 ∧ id = .l1Accepted)) (hp : ¬ (ver = .v8 ∧ id = .pre)) (hz : id ≠ .hash 0) :
    match resolve nd id with
    | none =>
      nonce be ver nd id a = .err .blockNotFound ∧ classHashAt be ver nd id a = .err .blockNotFound ∧
      classByHash be ver nd id c = .err .blockNotFound ∧ classAt be ver nd id a = .err .blockNotFound
    | some n =>
      let S := stateAfter (stateBlocks nd n)
      nonce be ver nd id a =
        (if isSystemContract a then .err .contractNotFound
         else if S.contract a then .num (S.nonce a) else .err .contractNotFound) ∧
      classHashAt be ver nd id a =
        (if isSystemContract a then .err .contractNotFound
         else if S.contract a then .num (S.classHash a) else .err .contractNotFound) ∧
      classByHash be ver nd id c = (if S.declared c then .num c else .err .classHashNotFound) ∧
      classAt be ver nd id a =
        (if isSystemContract a then .err .contractNotFound
         else if S.contract a then
           (if S.declared (S.classHash a) then .num (S.classHash a) else .err .contractNotFound)
         else .err .contractNotFound) := by
  have e := stateById_eq be ver nd id ok hv hp hz
  cases hr : resolve nd id with
  | none =>
    rw [hr] at e
    simp [nonce, classHashAt, classByHash, classAt, e]
  | some n =>
    rw [hr] at e
    obtain ⟨_, f2, f3, f4, f5⟩ := readers_eq_fold (stateBlocks nd n)
    simp only [nonce, classHashAt, classByHash, classAt, e, f2, f3, f4, f5]
    refine ⟨trivial, trivial, trivial, ?_⟩
    by_cases hs : isSystemContract a = true
    · simp [hs]
    · by_cases hd : (stateAfter (stateBlocks nd n)).contract a = true
      · by_cases hc : (stateAfter (stateBlocks nd n)).declared ((stateAfter (stateBlocks nd n)).classHash a) = true
        · simp [hs, hd, hc]
        · simp [hs, hd, hc]
      · simp [hs, hd]

/-- getStorageAt on every reachable node (fresh history), all versions, both backends, every
identifier except {block_hash: 0x0} and v8 `pending`: the slot's value in `S` (the fold of the
diffs of blocks 0…n) when the contract is a contract of `S`, CONTRACT_NOT_FOUND otherwise,
BLOCK_NOT_FOUND when nothing is denoted. v8 / v9 (probe the class hash, then read) and v10 (read,
then probe only for zero at `latest`; history readers probe themselves) are differently written:
they coincide because `Store` refuses storage of contracts that do not exist (`StorageInv`,
proved by induction over the history). -/
theorem storage_reachable (be : Backend) (ver : Ver) (ops : List Op) (fr : FreshFrom {} ops) (id : BlockId) (a k : Nat)
    (hv : ¬ (ver = .v8 ∧ id = .l1Accepted)) (hp : ¬ (ver = .v8 ∧ id = .pre)) (hz : id ≠ .hash 0) :
    let nd := run ops
    storageAt be ver nd id a k =
      match resolve nd id with
      | none => .err .blockNotFound
      | some n =>
        let S := stateAfter (stateBlocks nd n)
        if S.contract a then .num (S.storage a k) else .err .contractNotFound := by
  intro nd
  have h := storageAt_eq be ver nd id a k (run_inv ops fr).1 hv hp hz
    (fun n _ h => storage_in_contracts (run_storageInv ops) n a k h)
  rw [h]
  cases resolve nd id with
  | none => rfl
  | some n =>
    obtain ⟨f1, _, _, f4, _⟩ := readers_eq_fold (stateBlocks nd n)
    simp only [f1, f4]

/-- Witness of the deviation at {block_hash: 0x0}: a chain of one block deploying contract
0x105 (class 0xc0, declared) with nonce 3 and slot 7 = 9. The identifier denotes nothing, yet
the legacy backend answers as for an empty state (CONTRACT_NOT_FOUND / CLASS_HASH_NOT_FOUND,
v10 getStorageAt even succeeds with 0), the new backend answers with the head state's data;
the block methods say BLOCK_NOT_FOUND for the same identifier. -/
theorem hash_zero_is_served_from_a_state :
    let d : Diff := { deployed := [(0x105, 0xc0)], nonces := [(0x105, 3)], storage := [(0x105, 7, 9)], declared := [0xc0] }
    let nd : Node := { chain := [{ number := 0, hash := 0xa, parent := 0, root := 1, oldRoot := 0, txs := [], diff := d }],
                       numByHash := [(0xa, 0)] }
    resolve nd (.hash 0) = none ∧ blockWithTxHashes .v10 nd (.hash 0) = .err .blockNotFound ∧
      nonce .legacy .v10 nd (.hash 0) 0x105 = .err .contractNotFound ∧
      classByHash .legacy .v9 nd (.hash 0) 0xc0 = .err .classHashNotFound ∧
      storageAt .legacy .v9 nd (.hash 0) 0x105 7 = .err .contractNotFound ∧
      storageAt .legacy .v10 nd (.hash 0) 0x105 7 = .num 0 ∧
      nonce .new .v10 nd (.hash 0) 0x105 = .num 3 ∧
      classAt .new .v8 nd (.hash 0) 0x105 = .num 0xc0 ∧
      storageAt .new .v10 nd (.hash 0) 0x105 7 = .num 9 := by
  decide

/-! ## End to end: wire request → answer -/

/-- The CURRENT code (`Cfg` with both switches off, what /repo has since 4d3f28e): whatever is not
a block id of the version — `null`, `{"block_number": null}`, `{}`, a foreign or unknown tag, any
other JSON — is answered "invalid params" by every method that takes one, and so is `null` for
any other required argument. -/
theorem malformed_arguments_are_refused (be : Backend) (ver : Ver) (nd : Node) (raw : RawId)
    (h : ∀ id, decodeId {nullCrashes := false, nullNumberIsZero := false} ver raw ≠ .ok id)
    (f : List Nat) (i : Int) (a k c : Nat) (nr : NullRequest) :
    let cfg : Cfg := {nullCrashes := false, nullNumberIsZero := false}
    serve cfg be ver nd (.blockWithTxHashes raw) = .err .invalidParams ∧
    serve cfg be ver nd (.blockWithTxs raw) = .err .invalidParams ∧
    serve cfg be ver nd (.blockWithReceipts raw) = .err .invalidParams ∧
    serve cfg be ver nd (.blockTransactionCount raw) = .err .invalidParams ∧
    serve cfg be ver nd (.stateUpdate raw f) = .err .invalidParams ∧
    serve cfg be ver nd (.transactionByBlockIdAndIndex raw i) = .err .invalidParams ∧
    serve cfg be ver nd (.storageAt a k raw) = .err .invalidParams ∧
    serve cfg be ver nd (.nonce raw a) = .err .invalidParams ∧
    serve cfg be ver nd (.classHashAt raw a) = .err .invalidParams ∧
    serve cfg be ver nd (.classByHash raw c) = .err .invalidParams ∧
    serve cfg be ver nd (.classAt raw a) = .err .invalidParams ∧
    serveNull cfg be ver nd nr = .err .invalidParams := by
  intro cfg
  have he : decodeId cfg ver raw = .error .invalidParams := decodeId_error cfg ver raw h
  have hw : ∀ p k', withId cfg ver p raw k' = .err .invalidParams := by
    intro p k'
    cases raw <;> simp_all [withId, cfg]
  refine ⟨hw _ _, hw _ _, hw _ _, hw _ _, hw _ _, ?_, hw _ _, hw _ _, hw _ _, hw _ _, hw _ _, ?_⟩
  · simp only [serve]
    have : (raw == RawId.null && cfg.nullCrashes && decide (i < 0)) = false := by simp [cfg]
    rw [this]; exact hw _ _
  · cases nr <;> simp [serveNull, cfg]

/-- Regression witness (the code before 4d3f28e, model variant `nullCrashes`): a JSON `null` block
id reached the v9 / v10 handlers as a nil pointer and crashed them; v8 crashed in the handlers
that take a pointer; a null address crashed once the state was open. -/
theorem null_argument_crashed_handler_before_4d3f28e :
    let cfg : Cfg := {nullCrashes := true, nullNumberIsZero := true}
    let nd : Node := { chain := [{ number := 0, hash := 0xa, parent := 0, root := 1, oldRoot := 0, txs := [], diff := {} }],
                       numByHash := [(0xa, 0)] }
    serve cfg .legacy .v10 nd (.nonce .null 1) = .crash ∧
      serve cfg .legacy .v8 nd (.blockWithTxHashes .null) = .crash ∧
      serve cfg .legacy .v8 nd (.nonce .null 1) = .err .invalidParams ∧
      serveNull cfg .legacy .v10 nd (.nonceAddr (.tag "latest")) = .crash ∧
      serveNull cfg .legacy .v10 nd (.nonceAddr (.obj none (some 9))) = .err .blockNotFound ∧
      serveNull cfg .legacy .v9 nd .txHash = .crash := by
  decide

/-- Regression witness (before 4d3f28e): `{"block_number": null}` was decoded as block 0 and a
null index as index 0. -/
theorem null_block_number_was_block_zero_before_4d3f28e :
    let cfg : Cfg := {nullCrashes := true, nullNumberIsZero := true}
    let nd : Node := { chain := [{ number := 0, hash := 0xa, parent := 0, root := 1, oldRoot := 0, txs := [⟨0xf1, 0x13, false⟩], diff := {} }],
                       numByHash := [(0xa, 0)], txLoc := [(0xf1, (0, 0))] }
    serve cfg .new .v9 nd (.blockTransactionCount .objNullNumber) = .num 1 ∧
      serveNull cfg .new .v10 nd (.index (.tag "latest")) = .tx ⟨0xf1, 0x13, false⟩ := by
  decide

/-- End to end for the block methods on every fresh history: request in wire form → answer. -/
theorem serve_block_methods_reachable (cfg : Cfg) (be : Backend) (ver : Ver) (ops : List Op) (fr : FreshFrom {} ops)
    (raw : RawId) (id : BlockId) (hn : raw ≠ .null) (h : decodeId cfg ver raw = .ok id)
    (hp : isV8Pending ver id = false) :
    let nd := run ops
    match resolvedBlock nd id with
    | some b =>
      serve cfg be ver nd (.blockWithTxHashes raw) = .blockHashes (hdrOf nd b) (b.txs.map (·.hash)) ∧
      serve cfg be ver nd (.blockWithTxs raw) = .blockTxs (hdrOf nd b) b.txs ∧
      serve cfg be ver nd (.blockWithReceipts raw) =
        .blockReceipts (hdrOf nd b) (b.txs.map (fun t => (t, finality b.number (statusL1 nd)))) ∧
      serve cfg be ver nd (.blockTransactionCount raw) = .num b.txs.length ∧
      serve cfg be ver nd (.stateUpdate raw []) = .update b.hash b.root b.oldRoot (filterDiff ver [] b.diff)
    | none =>
      serve cfg be ver nd (.blockWithTxHashes raw) = .err .blockNotFound ∧
      serve cfg be ver nd (.blockWithTxs raw) = .err .blockNotFound ∧
      serve cfg be ver nd (.blockWithReceipts raw) = .err .blockNotFound ∧
      serve cfg be ver nd (.blockTransactionCount raw) = .err .blockNotFound ∧
      serve cfg be ver nd (.stateUpdate raw []) = .err .blockNotFound := by
  intro nd
  obtain ⟨hv, e1, e2, e3, e4, e5, _⟩ := serve_dispatch cfg be ver nd raw id hn h [] 0 0 0 0
  rw [e1, e2, e3, e4, e5]
  exact block_methods_answer_denoted_block ver nd id [] (run_inv ops fr).1 (run_wellFormed ops) hv hp

/-! ## v8 `pending` -/

/-- rpc/v8 serves `pending` (no pending data) as a synthetic EMPTY block on top of the head: no
transactions (count 0, every index invalid), parent = head hash, old root = head root, and a
state diff that is empty below height 10 and otherwise records the hash of block `n - 10` in the
block-hash contract 0x1; on the empty chain everything is BLOCK_NOT_FOUND. -/
theorem v8_pending_answers (nd : Node) (wf : WellFormed nd) (i : Nat) (f : List Nat) :
    match resolvedBlock nd .latest with
    | none =>
      blockWithTxHashes .v8 nd .pre = .err .blockNotFound ∧ blockWithTxs .v8 nd .pre = .err .blockNotFound ∧
      blockWithReceipts .v8 nd .pre = .err .blockNotFound ∧ blockTransactionCount .v8 nd .pre = .err .blockNotFound ∧
      transactionByBlockIdAndIndex .v8 nd .pre i = .err .blockNotFound ∧ stateUpdate .v8 nd .pre f = .err .blockNotFound
    | some h =>
      blockWithTxHashes .v8 nd .pre = .pendingBlock h.hash ∧ blockWithTxs .v8 nd .pre = .pendingBlock h.hash ∧
      blockWithReceipts .v8 nd .pre = .pendingBlock h.hash ∧ blockTransactionCount .v8 nd .pre = .num 0 ∧
      transactionByBlockIdAndIndex .v8 nd .pre i = .err .invalidTxIndex ∧
      stateUpdate .v8 nd .pre f = .pendingUpdate h.root
        (if h.number + 1 < blockHashLag then {}
         else { storage := [(1, h.number + 1 - blockHashLag,
                 match nd.chain[h.number + 1 - blockHashLag]? with | some b => b.hash | none => 0)] }) := by
  have hp := pendingOf_eq wf
  cases hh : resolvedBlock nd .latest with
  | none =>
    rw [hh] at hp
    simp only at hp
    simp [blockWithTxHashes, blockWithTxs, blockWithReceipts, blockTransactionCount,
      transactionByBlockIdAndIndex, stateUpdate, isV8Pending, hp]
  | some h =>
    rw [hh] at hp
    simp only at hp
    simp [blockWithTxHashes, blockWithTxs, blockWithReceipts, blockTransactionCount,
      transactionByBlockIdAndIndex, stateUpdate, isV8Pending, hp] <;> rfl

/-! ## Versions -/

/-- v9 and v10 answer alike on EVERY identifier (including `l1_accepted` and `pre_confirmed`) for
every method with a version parameter (getStateUpdate: without the v10-only filter; getStorageAt:
see `storage_reachable`). The model is one definition with a `Ver` parameter, so this says that
none of the places where that parameter is consulted separates v9 from v10. -/
theorem versions_agree_v9_v10 (nd : Node) (id : BlockId) (i a c : Nat) (be : Backend) :
    blockWithTxHashes .v9 nd id = blockWithTxHashes .v10 nd id ∧
    blockWithTxs .v9 nd id = blockWithTxs .v10 nd id ∧
    blockWithReceipts .v9 nd id = blockWithReceipts .v10 nd id ∧
    blockTransactionCount .v9 nd id = blockTransactionCount .v10 nd id ∧
    stateUpdate .v9 nd id [] = stateUpdate .v10 nd id [] ∧
    transactionByBlockIdAndIndex .v9 nd id i = transactionByBlockIdAndIndex .v10 nd id i ∧
    nonce be .v9 nd id a = nonce be .v10 nd id a ∧
    classHashAt be .v9 nd id a = classHashAt be .v10 nd id a ∧
    classByHash be .v9 nd id c = classByHash be .v10 nd id c ∧
    classAt be .v9 nd id a = classAt be .v10 nd id a := by
  cases id <;> simp [blockWithTxHashes, blockWithTxs, blockWithReceipts, blockTransactionCount, stateUpdate, filterDiff,
    transactionByBlockIdAndIndex, blockWithTxHashesStored, blockWithTxsStored, blockWithReceiptsStored,
    blockTransactionCountStored, stateUpdateStored, transactionByBlockIdAndIndexStored, isV8Pending, nonce,
    classHashAt, classByHash, classAt, blockById, stateById]

/-- v8 answers as v9 on the identifiers it shares with it (everything but `l1_accepted` and the
pending / pre_confirmed tag), with any state-update filter (v8 and v9 have none); the transaction
count — v8 reads the header's count, v9 resolves to a number and reads the count by number —
needs the buckets to agree with the chain. -/
theorem versions_agree_v8_v9 (nd : Node) (id : BlockId) (i a c : Nat) (f : List Nat) (be : Backend)
    (ok : BucketsOk nd) (h8 : id ≠ .l1Accepted ∧ id ≠ .pre) :
    blockWithTxHashes .v8 nd id = blockWithTxHashes .v9 nd id ∧
    blockWithTxs .v8 nd id = blockWithTxs .v9 nd id ∧
    blockWithReceipts .v8 nd id = blockWithReceipts .v9 nd id ∧
    blockTransactionCount .v8 nd id = blockTransactionCount .v9 nd id ∧
    stateUpdate .v8 nd id f = stateUpdate .v9 nd id f ∧
    transactionByBlockIdAndIndex .v8 nd id i = transactionByBlockIdAndIndex .v9 nd id i ∧
    nonce be .v8 nd id a = nonce be .v9 nd id a ∧
    classHashAt be .v8 nd id a = classHashAt be .v9 nd id a ∧
    classByHash be .v8 nd id c = classByHash be .v9 nd id c ∧
    classAt be .v8 nd id a = classAt be .v9 nd id a := by
  obtain ⟨h1, h2⟩ := h8
  have hcount : blockTransactionCount .v8 nd id = blockTransactionCount .v9 nd id := by
    have p8 : isV8Pending .v8 id = false := (isV8Pending_false_iff _ _).mpr (fun h => h2 h.2)
    have p9 : isV8Pending .v9 id = false := by simp [isV8Pending]
    rw [(handlers_eq_stored nd 0 [] p8).2.2.2.1, (handlers_eq_stored nd 0 [] p9).2.2.2.1,
      blockTransactionCount_eq ok (fun h => h1 h.2), blockTransactionCount_eq ok (fun h => by cases h.1)]
  refine ⟨?_, ?_, ?_, hcount, ?_, ?_, ?_, ?_, ?_, ?_⟩ <;>
    (cases id <;> first | exact absurd rfl h1 | exact absurd rfl h2 |
      simp [blockWithTxHashes, blockWithTxs, blockWithReceipts, stateUpdate, filterDiff,
        transactionByBlockIdAndIndex, blockWithTxHashesStored, blockWithTxsStored, blockWithReceiptsStored,
        stateUpdateStored, transactionByBlockIdAndIndexStored, isV8Pending, nonce,
        classHashAt, classByHash, classAt, blockById, stateById])

/-! ## v10 getStorageAt with INCLUDE_LAST_UPDATE_BLOCK -/

/-
Full-strength statement (does NOT hold of juno): the two backends give the same last_update_block.
-/
/-- Witness: contract 0x105 deployed in block 0, block 1 writes 0 to its never-written slot 7:
the legacy backend reports last update 0 ("never"), the new backend reports block 1. -/
theorem last_update_backends_disagree_on_zero_over_zero :
    let nd : Node := { chain := [
      { number := 0, hash := 0xa0, parent := 0, root := 1, oldRoot := 0, txs := [], diff := { deployed := [(0x105, 0xc0)] } },
      { number := 1, hash := 0xa1, parent := 0xa0, root := 1, oldRoot := 1, txs := [], diff := { storage := [(0x105, 7, 0)] } }] }
    storageAtWithLastUpdate .legacy nd .latest 0x105 7 = .valueAt 0 0 ∧
      storageAtWithLastUpdate .new nd .latest 0x105 7 = .valueAt 0 1 := by
  decide

/-! ## Non-vacuity: a concrete reachable node meeting the hypotheses -/

def exampleOps : List Op :=
  [ .store { number := 0, hash := 0xa0, parent := 0, root := 0xe0, oldRoot := 0,
             txs := [⟨0xf1, 0x13, false⟩, ⟨0xf2, 0x21, true⟩],
             diff := { deployed := [(0x105, 0xc0)], storage := [(0x105, 7, 9), (1, 5, 8)], declared := [0xc0] } },
    .store { number := 1, hash := 0xbad, parent := 0xa0, root := 0, oldRoot := 0, txs := [],
             diff := { storage := [(0x777, 1, 1)] } },  -- refused: storage of a contract that does not exist
    .store { number := 1, hash := 0xa1, parent := 0xa0, root := 0xe1, oldRoot := 0xe0,
             txs := [⟨0xf3, 0x40, false⟩], diff := { nonces := [(0x105, 3)], storage := [(0x105, 7, 0)] } },
    .setL1 (some 0),
    .store { number := 5, hash := 0xbad, parent := 0xa1, root := 0, oldRoot := 0, txs := [], diff := {} },  -- refused
    .store { number := 2, hash := 0xa2, parent := 0xa1, root := 0xe2, oldRoot := 0xe1, txs := [], diff := {} },
    .revert ]

example : (run exampleOps).chain.length = 2 ∧ (run exampleOps).l1 = some 0 := by decide
example : resolve (run exampleOps) (.hash 0xa1) = some 1 ∧ resolve (run exampleOps) (.hash 0xa2) = none ∧
    resolve (run exampleOps) .l1Accepted = some 0 ∧ resolve (run exampleOps) .latest = some 1 := by decide
example : FreshFrom {} exampleOps := by
  simp [FreshFrom, exampleOps, FreshBlock, applyOp, store, succeeds, storageOk, headNumberAndHash, revert, setL1,
    isSystemContract, deployedIn, deploysInDiff, lookup2]
example : (run exampleOps).numByHash = [(0xa1, 1), (0xa0, 0)] ∧
    (run exampleOps).txLoc = [(0xf3, (1, 0)), (0xf1, (0, 0)), (0xf2, (0, 1))] := by decide
example : blockWithReceipts .v10 (run exampleOps) .l1Accepted =
    .blockReceipts ⟨0, 0xa0, 0, 0xe0, .l1⟩ [(⟨0xf1, 0x13, false⟩, .l1), (⟨0xf2, 0x21, true⟩, .l1)] := by decide
example : transactionReceipt (run exampleOps) 0xf3 = .receipt ⟨0xf3, 0x40, false⟩ .l2 1 0xa1 := by decide
example : storageAt .new .v10 (run exampleOps) (.number 0) 0x105 7 = .num 9 ∧
    storageAt .new .v10 (run exampleOps) .latest 0x105 7 = .num 0 ∧
    storageAt .legacy .v9 (run exampleOps) .latest 1 5 = .num 8 ∧
    nonce .legacy .v8 (run exampleOps) (.hash 0xa1) 0x105 = .num 3 := by decide
example : serve {} .new .v8 (run exampleOps) (.blockWithTxHashes (.tag "pending")) = .pendingBlock 0xa1 ∧
    serve {} .new .v9 (run exampleOps) (.blockWithTxHashes (.tag "pending")) = .err .invalidParams ∧
    serve {} .new .v10 (run exampleOps) (.transactionByBlockIdAndIndex (.obj (some 0xa0) (some 7)) 1) = .tx ⟨0xf2, 0x21, true⟩ ∧
    serve {} .new .v10 (run exampleOps) (.transactionByBlockIdAndIndex (.tag "latest") (-1)) = .err .invalidTxIndex := by decide

end Juno.C08.Props
