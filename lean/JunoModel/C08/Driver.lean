import JunoModel.Common.Proto
import JunoModel.C08.Model
import JunoModel.C08.ModelEnv
import JunoModel.C08.ModelV
import JunoModel.C08.ModelDb
/-!
Line-protocol driver for the C08 model (`lake build c08drv`). All numbers are hex without prefix.
Every request of API version X is answered by the transcription of package rpc/vX over the database
records (`ModelDb.lean`: `serveDb`; on a node that was never pruned this is `serveV` of `ModelV.lean`,
PropsDb `unpruned_db_refines`).

  reset                                         -> ok
  store <num> <hash> <parent> <root> <oldroot> <item>*  -> ok | err:rejected
        item: t=<hash>,<kind>,<0|1>   transaction (in block order)
              d=<addr>,<class>        deployed contract
              r=<addr>,<class>        replaced class
              n=<addr>,<nonce>        nonce
              s=<addr>,<key>,<value>  storage write
              c=<classhash>           declared class
  revert                                        -> ok | err:empty
  l1 <n> | l1 none | l1 zero                    -> ok   (zero: the zero struct core.L1Head{})
  q <v8|v9|v10> <legacy|new> <method> <arg>*    -> ok ... | err:<code>
        block id (wire form): t:<tag string> | n:<num> | h:<hash> | hn:<hash>:<num> | o | x | null | nn
        (`nn` = {"block_number": null}); methods `null:<position> …` are requests whose required
        non-id argument is JSON null
  cfg <0|1> <0|1>                               -> ok   (nullCrashes, nullNumberIsZero: code variant)
        transaction index: hex, optionally negative (`-1`)
        stateUpdate takes an optional last argument f=<addr>,… (v10 contract_addresses; `f=` is
        the empty list)
  q <ver> <be> txStatusF <hash> <feeder> <0|1>  -> getTransactionStatus with a feeder client:
        feeder = none | err | <fin>:<exec>, fin = l2|l1|notreceived|received|preconfirmed|candidate|unknown,
        exec = none|succeeded|reverted|rejected; last argument: the submitted-transactions cache has the hash
  qf <flags> <ver> <be> <method> <arg>*         -> the same request with a response_flags argument:
        flags = absent | null | x | l:<flag>,<flag>,… (`l:` is the empty list, `~` the empty string)
  shape <ver> <method> e | p:<n> | n:<name>,…   -> pass | err:-32602  (buildArguments over the method table)
  dump                                          -> h=<height|-> l1=<n|-|zero> nbh=<hash>:<num>,… txl=<hash>:<num>:<idx>,…
                                                   hdr=<num>,… body=<num>,… com=<num>,… su=<num>,…  (block numbers whose header /
                                                   transactions / commitments / state-update record exists)
  prune <e>                                     -> ok | err:damaged   (pruner.PruneUpto(e) run to completion)
  seed                                          -> ok                 (RetentionFloor.Seed)
  dropcommit <n>                                -> ok                 (fault: the commitments record of block n is deleted)
  hdr <ver> <seq> <l1wei> <l1fri> <l1data> <l2> <da>  -> seq=… l1=<w>/<f> l1d=<w>/<f> l2=<w>/<f> da=<BLOB|CALLDATA> c=<0|1>
        an absent (nil) value is `-`; a gas price is `-` or `<wei|->/<fri|->`; da is the core.L1DAMode number
  hdrcfg <0|1>                                  -> ok   (rpc/v8 renders a nil L1 gas price in wei as null)
-/
open Juno.Proto Juno.C08

def splitOn1 (s : String) (c : Char) : List String := s.splitOn (String.singleton c)

def parseNats (s : String) : Option (List Nat) := (splitOn1 s ',').mapM hexToNat?

def parseItem (b : Block) (w : String) : Option Block :=
  match splitOn1 w '=' with
  | [tag, body] =>
    match tag, parseNats body with
    | "t", some [h, k, r] => some { b with txs := b.txs ++ [⟨h, k, r != 0⟩] }
    | "d", some [a, c] => some { b with diff := { b.diff with deployed := b.diff.deployed ++ [(a, c)] } }
    | "r", some [a, c] => some { b with diff := { b.diff with replaced := b.diff.replaced ++ [(a, c)] } }
    | "n", some [a, n] => some { b with diff := { b.diff with nonces := b.diff.nonces ++ [(a, n)] } }
    | "s", some [a, k, v] => some { b with diff := { b.diff with storage := b.diff.storage ++ [(a, k, v)] } }
    | "c", some [c] => some { b with diff := { b.diff with declared := b.diff.declared ++ [c] } }
    | _, _ => none
  | _ => none

def parseBlock (num hash parent root oldRoot : String) (items : List String) : Option Block := do
  let n ← hexToNat? num
  let h ← hexToNat? hash
  let p ← hexToNat? parent
  let r ← hexToNat? root
  let o ← hexToNat? oldRoot
  items.foldlM parseItem { number := n, hash := h, parent := p, root := r, oldRoot := o, txs := [], diff := {} }

def parseVer : String → Option Ver
  | "v8" => some .v8
  | "v9" => some .v9
  | "v10" => some .v10
  | _ => none

/-- Wire form of a block id: `t:<tag>` (any string), `n:<num>`, `h:<hash>`, `hn:<hash>:<num>`
(object with both members), `o` (object with neither), `x` (any other JSON). -/
def parseRawId (s : String) : Option RawId :=
  if s == "o" then some (.obj none none)
  else if s == "x" then some .other
  else if s == "null" then some .null
  else if s == "nn" then some .objNullNumber
  else match splitOn1 s ':' with
    | ["t", tag] => some (.tag tag)
    | ["n", x] => (hexToNat? x).map (fun n => .obj none (some n))
    | ["h", x] => (hexToNat? x).map (fun h => .obj (some h) none)
    | ["hn", x, y] => do
      let h ← hexToNat? x
      let n ← hexToNat? y
      pure (.obj (some h) (some n))
    | _ => none

/-- A possibly negative hex integer (`-1`, `2a`). -/
def parseInt (s : String) : Option Int :=
  match s.toList with
  | '-' :: rest => (hexToNat? (String.ofList rest)).map (fun n => - (Int.ofNat n))
  | _ => (hexToNat? s).map Int.ofNat

def finS : Fin → String
  | .l1 => "L1"
  | .l2 => "L2"

def boolS (b : Bool) : String := if b then "1" else "0"

def joinOr (l : List String) : String := if l.isEmpty then "-" else ",".intercalate l

def txS (t : Tx) : String := natToHex t.hash ++ "/" ++ natToHex t.kind

def hdrS (h : Hdr) : String :=
  " ".intercalate [natToHex h.number, natToHex h.hash, natToHex h.parent, natToHex h.root, finS h.status]

/-- Insertion sort on strings (canonical order for the sections of a state diff, which are maps
in the implementation). -/
def insertS (x : String) : List String → List String
  | [] => [x]
  | y :: ys => if x ≤ y then x :: y :: ys else y :: insertS x ys

def sortS (l : List String) : List String := l.foldr insertS []

def pairS (tag : String) (p : Nat × Nat) : String := tag ++ "=" ++ natToHex p.1 ++ "," ++ natToHex p.2

def diffS (d : Diff) : String :=
  let items :=
    d.deployed.map (pairS "d") ++ d.replaced.map (pairS "r") ++ d.nonces.map (pairS "n") ++
    d.storage.map (fun e => "s=" ++ natToHex e.1 ++ "," ++ natToHex e.2.1 ++ "," ++ natToHex e.2.2) ++
    d.declared.map (fun c => "c=" ++ natToHex c)
  joinOr (sortS items)

def render : Ans → String
  | .err e => "err:" ++ e.code
  | .num n => "ok " ++ natToHex n
  | .hashNum h n => "ok " ++ natToHex h ++ " " ++ natToHex n
  | .blockHashes h txs => "ok " ++ hdrS h ++ " " ++ joinOr (txs.map natToHex)
  | .blockTxs h txs => "ok " ++ hdrS h ++ " " ++ joinOr (txs.map txS)
  | .blockReceipts h txs =>
    "ok " ++ hdrS h ++ " " ++ joinOr (txs.map (fun p => txS p.1 ++ "/" ++ boolS p.1.reverted ++ "/" ++ finS p.2))
  | .tx t => "ok " ++ txS t
  | .receipt t f n bh =>
    -- a receipt carries the transaction type but not its version
    "ok " ++ natToHex t.hash ++ "/" ++ natToHex (t.kind / 16) ++ " " ++ boolS t.reverted ++ " " ++ finS f ++ " " ++ natToHex n ++ " " ++ natToHex bh
  | .status f r => "ok " ++ finS f ++ " " ++ boolS r
  | .update bh nr orr d => "ok " ++ natToHex bh ++ " " ++ natToHex nr ++ " " ++ natToHex orr ++ " " ++ diffS d
  | .valueAt v n => "ok " ++ natToHex v ++ " @" ++ natToHex n
  | .crash => "crash"
  | .pendingBlock p => "ok pending " ++ natToHex p
  | .pendingUpdate orr d => "ok pending-update " ++ natToHex orr ++ " " ++ diffS d

def renderD : DAns → String
  | .ans a => render a
  | .internal => "err:-32603"

def parseBackend : String → Option Backend
  | "legacy" => some .legacy
  | "new" => some .new
  | _ => none

def parseFilter (f : String) : Option (List Nat) :=
  match splitOn1 f '=' with
  | ["f", ""] => some []
  | ["f", body] => parseNats body
  | _ => none

def parseRequest (method : String) (args : List String) : Option Request :=
  match method, args with
  | "blockNumber", [] => some .blockNumber
  | "blockHashAndNumber", [] => some .blockHashAndNumber
  | "blockTxHashes", [id] => (parseRawId id).map .blockWithTxHashes
  | "blockTxs", [id] => (parseRawId id).map .blockWithTxs
  | "blockReceipts", [id] => (parseRawId id).map .blockWithReceipts
  | "txCount", [id] => (parseRawId id).map .blockTransactionCount
  | "txByHash", [h] => (hexToNat? h).map .transactionByHash
  | "txByIdx", [id, i] => do
    let id ← parseRawId id
    let i ← parseInt i
    pure (.transactionByBlockIdAndIndex id i)
  | "receipt", [h] => (hexToNat? h).map .transactionReceipt
  | "txStatus", [h] => (hexToNat? h).map .transactionStatus
  | "stateUpdate", [id] => (parseRawId id).map (fun id => .stateUpdate id [])
  | "stateUpdate", [id, f] => do
    let id ← parseRawId id
    let fl ← parseFilter f
    pure (.stateUpdate id fl)
  | "storage", [id, a, k] => do
    let id ← parseRawId id
    let a ← hexToNat? a
    let k ← hexToNat? k
    pure (.storageAt a k id)
  | "storageLU", [id, a, k] => do
    let id ← parseRawId id
    let a ← hexToNat? a
    let k ← hexToNat? k
    pure (.storageAtWithLastUpdate a k id)
  | "nonce", [id, a] => do
    let id ← parseRawId id
    let a ← hexToNat? a
    pure (.nonce id a)
  | "classHashAt", [id, a] => do
    let id ← parseRawId id
    let a ← hexToNat? a
    pure (.classHashAt id a)
  | "class", [id, c] => do
    let id ← parseRawId id
    let c ← hexToNat? c
    pure (.classByHash id c)
  | "classAt", [id, a] => do
    let id ← parseRawId id
    let a ← hexToNat? a
    pure (.classAt id a)
  | _, _ => none

def parseNullRequest (method : String) (args : List String) : Option NullRequest :=
  match method, args with
  | "null:txHash", [] => some .txHash
  | "null:index", [id] => (parseRawId id).map .index
  | "null:nonce", [id] => (parseRawId id).map .nonceAddr
  | "null:classHashAt", [id] => (parseRawId id).map .classHashAtAddr
  | "null:classAt", [id] => (parseRawId id).map .classAtAddr
  | "null:class", [id] => (parseRawId id).map .classHash
  | "null:storageAddr", [id, k] => do
    let id ← parseRawId id
    let k ← hexToNat? k
    pure (.storageAddr k id)
  | "null:storageKey", [id, a] => do
    let id ← parseRawId id
    let a ← hexToNat? a
    pure (.storageKey a id)
  | _, _ => none


/-! ## round 4: feeder fallback, response flags, parameter shapes, bucket dump -/

def parseFFin : String → Option FFin
  | "l2" => some .acceptedOnL2
  | "l1" => some .acceptedOnL1
  | "notreceived" => some .notReceived
  | "received" => some .received
  | "preconfirmed" => some .preConfirmed
  | "candidate" => some .candidate
  | "unknown" => some .unknown
  | _ => none

def parseFExec : String → Option FExec
  | "none" => some .none
  | "succeeded" => some .succeeded
  | "reverted" => some .reverted
  | "rejected" => some .rejected
  | _ => none

def parseFeeder (s : String) : Option Feeder :=
  if s == "none" then some .absent
  else if s == "err" then some .fails
  else match splitOn1 s ':' with
    | [f, e] => do
      let f ← parseFFin f
      let e ← parseFExec e
      pure (.says f e)
    | _ => none

def sfinS : SFin → String
  | .l1 => "L1"
  | .l2 => "L2"
  | .received => "?RECEIVED"
  | .candidate => "?CANDIDATE"
  | .preConfirmed => "?PRE_CONFIRMED"
  | .rejected => "?REJECTED"

def sexecS : SExec → String
  | .none => "-"
  | .succeeded => "0"
  | .reverted => "1"

def sreasonS : SReason → String
  | .none => ""
  | .revertReason => " rr"
  | .failureReason => " fr"

def renderStatus : StatusAns → String
  | .local a => render a
  | .internal => "err:-32603"
  | .remote f e r => "ok " ++ sfinS f ++ " " ++ sexecS e ++ sreasonS r

def parseFlags (s : String) : Option RawFlags :=
  if s == "absent" then some .absent
  else if s == "null" then some .null
  else if s == "x" then some .other
  else if s == "l:" then some (.list [])
  else if s.startsWith "l:" then
    some (.list ((splitOn1 (String.ofList (s.toList.drop 2)) ',').map (fun f => if f == "~" then "" else f)))
  else none

def parseMethod : String → Option Method
  | "blockNumber" => some .blockNumber
  | "blockHashAndNumber" => some .blockHashAndNumber
  | "blockTxHashes" => some .blockWithTxHashes
  | "blockTxs" => some .blockWithTxs
  | "blockReceipts" => some .blockWithReceipts
  | "txCount" => some .blockTransactionCount
  | "stateUpdate" => some .stateUpdate
  | "txByHash" => some .transactionByHash
  | "receipt" => some .transactionReceipt
  | "txStatus" => some .transactionStatus
  | "txByIdx" => some .transactionByBlockIdAndIndex
  | "storage" => some .storageAt
  | "nonce" => some .nonce
  | "classHashAt" => some .classHashAt
  | "class" => some .classByHash
  | "classAt" => some .classAt
  | _ => none

def parseShape (s : String) : Option Shape :=
  if s == "e" then some .empty
  else if s == "n:" then some (.named [])
  else match splitOn1 s ':' with
    | ["p", n] => (hexToNat? n).map .positional
    | ["n", names] => some (.named (splitOn1 names ','))
    | _ => none

/-- First-match-wins view of an association list (what a key-value store holds after the writes
the list records newest first), rendered sorted. -/
def dedupKeys {β : Type} (l : List (Nat × β)) : List (Nat × β) :=
  l.foldl (fun acc e => if acc.any (fun x => x.1 == e.1) then acc else acc ++ [e]) []

def dumpNode (nd : Node) : String :=
  let h := match height nd with | some n => natToHex n | none => "-"
  let l1 := if nd.l1Zero then "zero" else match nd.l1 with | some n => natToHex n | none => "-"
  let nbh := sortS ((dedupKeys nd.numByHash).map (fun e => natToHex e.1 ++ ":" ++ natToHex e.2))
  let txl := sortS ((dedupKeys nd.txLoc).map (fun e => natToHex e.1 ++ ":" ++ natToHex e.2.1 ++ ":" ++ natToHex e.2.2))
  "h=" ++ h ++ " l1=" ++ l1 ++ " nbh=" ++ joinOr nbh ++ " txl=" ++ joinOr txl

def numsS (l : List Nat) : String := joinOr (l.map natToHex)

def dumpDb (db : Db) : String :=
  let ns := List.range db.len
  dumpNode db.nd ++
    " hdr=" ++ numsS (ns.filter (fun n => (db.header n).isSome)) ++
    " body=" ++ numsS (ns.filter (fun n => (db.body n).isSome)) ++
    " com=" ++ numsS (ns.filter (fun n => db.hasCommit n)) ++
    " su=" ++ numsS (ns.filter (fun n => (db.update n).isSome))

def parseOptNat (s : String) : Option (Option Nat) :=
  if s == "-" then some none else (hexToNat? s).map some

def parsePrice (s : String) : Option (Option (Option Nat × Option Nat)) :=
  if s == "-" then some none
  else match splitOn1 s '/' with
    | [w, f] => do
      let w ← parseOptNat w
      let f ← parseOptNat f
      pure (some (w, f))
    | _ => none

def jvS : JV → String
  | .null => "null"
  | .felt n => natToHex n

def priceS (p : JV × JV) : String := jvS p.1 ++ "/" ++ jvS p.2

def headerS (o : HeaderOut) : String :=
  "seq=" ++ natToHex o.seq ++ " l1=" ++ priceS o.l1 ++ " l1d=" ++ priceS o.l1Data ++ " l2=" ++ priceS o.l2 ++
    " da=" ++ (if o.blob then "BLOB" else "CALLDATA") ++ " c=" ++ boolS o.commitments

def stepHdr (hc : HdrCfg) (args : List String) : String :=
  match args with
  | [ver, seq, w, f, d, l2, da] =>
    match parseVer ver, parseOptNat seq, parseOptNat w, parseOptNat f, parsePrice d, parsePrice l2, hexToNat? da with
    | some v, some seq, some w, some f, some d, some l2, some da =>
      headerS (adaptHeader hc v { seq := seq, l1Wei := w, l1Fri := f, l1Data := d, l2 := l2, daMode := da })
    | _, _, _, _, _, _, _ => "bad-op"
  | _ => "bad-op"

structure St where
  db : Db := {}
  cfg : Cfg := {}
  hdrCfg : HdrCfg := {}

def stepNode (cfg : Cfg) (db : Db) (line : String) : Db × String :=
  match words line with
  | ["reset"] => ({}, "ok")
  | "store" :: num :: hash :: parent :: root :: oldRoot :: items =>
    match parseBlock num hash parent root oldRoot items with
    | none => (db, "bad-op")
    | some b =>
      match db.store b with
      | some db' => (db', "ok")
      | none => (db, "err:rejected")
  | ["revert"] =>
    match db.revert with
    | some db' => (db', "ok")
    | none => (db, "err:empty")
  | ["l1", "none"] => ({ db with nd := setL1 db.nd none }, "ok")
  | ["l1", "zero"] => ({ db with nd := setL1Zero db.nd }, "ok")
  | ["l1", n] =>
    match hexToNat? n with
    | some n => ({ db with nd := setL1 db.nd (some n) }, "ok")
    | none => (db, "bad-op")
  | ["prune", e] =>
    match hexToNat? e with
    | some e => if db.noCommit.isEmpty then (db.pruneUpto e, "ok") else (db, "err:damaged")
    | none => (db, "bad-op")
  | ["seed"] => (db.seed, "ok")
  | ["dropcommit", n] =>
    match hexToNat? n with
    | some n => (db.dropCommit n, "ok")
    | none => (db, "bad-op")
  | ["dump"] => (db, dumpDb db)
  | ["shape", ver, method, shape] =>
    match parseVer ver, parseMethod method, parseShape shape with
    | some v, some m, some sh => (db, if shapeOk (paramsOf v m) sh then "pass" else "err:-32602")
    | _, _, _ => (db, "bad-op")
  | ["q", ver, be, "txStatusF", h, fd, sub] =>
    match parseVer ver, parseBackend be, hexToNat? h, parseFeeder fd with
    | some v, some _, some h, some fd =>
      if sub == "0" || sub == "1" then
        (db, renderStatus (transactionStatusDb v { feeder := fd, submitted := sub == "1" } db h))
      else (db, "bad-op")
    | _, _, _, _ => (db, "bad-op")
  | "qf" :: flags :: ver :: be :: method :: args =>
    match parseFlags flags, parseVer ver, parseBackend be, parseRequest method args with
    | some fl, some v, some be, some r => (db, renderD (serveFlaggedDb cfg be v db r fl))
    | _, _, _, _ => (db, "bad-op")
  | "q" :: ver :: be :: method :: args =>
    match parseVer ver, parseBackend be with
    | none, _ => (db, "bad-op")
    | _, none => (db, "bad-op")
    | some v, some be =>
      match parseRequest method args with
      | some r => (db, renderD (serveDb cfg be v db r))   -- the record-level transcription of version v's own package
      | none =>
        match parseNullRequest method args with
        | some r => (db, render (serveNull cfg be v db.nd r))
        | none => (db, "bad-op")
  | _ => (db, "bad-op")

/-- `cfg <nullCrashes 0|1> <nullNumberIsZero 0|1>`: which variant of the code is being looked at. -/
def step (st : St) (line : String) : St × String :=
  match words line with
  | ["cfg", a, b] =>
    if (a == "0" || a == "1") && (b == "0" || b == "1") then
      ({ st with cfg := { nullCrashes := a == "1", nullNumberIsZero := b == "1" } }, "ok")
    else (st, "bad-op")
  | ["hdrcfg", a] =>
    if a == "0" || a == "1" then ({ st with hdrCfg := { v8WeiNull := a == "1" } }, "ok") else (st, "bad-op")
  | "hdr" :: args => (st, stepHdr st.hdrCfg args)
  | _ =>
    let (db', out) := stepNode st.cfg st.db line
    ({ st with db := db' }, out)

def main : IO Unit := loop step ({} : St)
