import JunoModel.Common.Proto
import JunoModel.C08.Model
/-!
Line-protocol driver for the C08 model (`lake build c08drv`). All numbers are hex without prefix.

  reset                                         -> ok
  store <num> <hash> <parent> <root> <oldroot> <item>*  -> ok | err:rejected
        item: t=<hash>,<kind>,<0|1>   transaction (in block order)
              d=<addr>,<class>        deployed contract
              r=<addr>,<class>        replaced class
              n=<addr>,<nonce>        nonce
              s=<addr>,<key>,<value>  storage write
              c=<classhash>           declared class
  revert                                        -> ok | err:empty
  l1 <n> | l1 none | l1 zero                    -> ok   (zero: the zero struct core.L1Head{})
  q <v8|v9|v10> <legacy|new> <method> <arg>*    -> ok ... | err:<code>
        block id (wire form): t:<tag string> | n:<num> | h:<hash> | hn:<hash>:<num> | o | x | null | nn
        (`nn` = {"block_number": null}); methods `null:<position> …` are requests whose required
        non-id argument is JSON null
  cfg <0|1> <0|1>                               -> ok   (nullCrashes, nullNumberIsZero: code variant)
        transaction index: hex, optionally negative (`-1`)
        stateUpdate takes an optional last argument f=<addr>,… (v10 contract_addresses; `f=` is
        the empty list)
-/
open Juno.Proto Juno.C08

def splitOn1 (s : String) (c : Char) : List String := s.splitOn (String.singleton c)

def parseNats (s : String) : Option (List Nat) := (splitOn1 s ',').mapM hexToNat?

def parseItem (b : Block) (w : String) : Option Block :=
  match splitOn1 w '=' with
  | [tag, body] =>
    match tag, parseNats body with
    | "t", some [h, k, r] => some { b with txs := b.txs ++ [⟨h, k, r != 0⟩] }
    | "d", some [a, c] => some { b with diff := { b.diff with deployed := b.diff.deployed ++ [(a, c)] } }
    | "r", some [a, c] => some { b with diff := { b.diff with replaced := b.diff.replaced ++ [(a, c)] } }
    | "n", some [a, n] => some { b with diff := { b.diff with nonces := b.diff.nonces ++ [(a, n)] } }
    | "s", some [a, k, v] => some { b with diff := { b.diff with storage := b.diff.storage ++ [(a, k, v)] } }
    | "c", some [c] => some { b with diff := { b.diff with declared := b.diff.declared ++ [c] } }
    | _, _ => none
  | _ => none

def parseBlock (num hash parent root oldRoot : String) (items : List String) : Option Block := do
  let n ← hexToNat? num
  let h ← hexToNat? hash
  let p ← hexToNat? parent
  let r ← hexToNat? root
  let o ← hexToNat? oldRoot
  items.foldlM parseItem { number := n, hash := h, parent := p, root := r, oldRoot := o, txs := [], diff := {} }

def parseVer : String → Option Ver
  | "v8" => some .v8
  | "v9" => some .v9
  | "v10" => some .v10
  | _ => none

/-- Wire form of a block id: `t:<tag>` (any string), `n:<num>`, `h:<hash>`, `hn:<hash>:<num>`
(object with both members), `o` (object with neither), `x` (any other JSON). -/
def parseRawId (s : String) : Option RawId :=
  if s == "o" then some (.obj none none)
  else if s == "x" then some .other
  else if s == "null" then some .null
  else if s == "nn" then some .objNullNumber
  else match splitOn1 s ':' with
    | ["t", tag] => some (.tag tag)
    | ["n", x] => (hexToNat? x).map (fun n => .obj none (some n))
    | ["h", x] => (hexToNat? x).map (fun h => .obj (some h) none)
    | ["hn", x, y] => do
      let h ← hexToNat? x
      let n ← hexToNat? y
      pure (.obj (some h) (some n))
    | _ => none

/-- A possibly negative hex integer (`-1`, `2a`). -/
def parseInt (s : String) : Option Int :=
  match s.toList with
  | '-' :: rest => (hexToNat? (String.ofList rest)).map (fun n => - (Int.ofNat n))
  | _ => (hexToNat? s).map Int.ofNat

def finS : Fin → String
  | .l1 => "L1"
  | .l2 => "L2"

def boolS (b : Bool) : String := if b then "1" else "0"

def joinOr (l : List String) : String := if l.isEmpty then "-" else ",".intercalate l

def txS (t : Tx) : String := natToHex t.hash ++ "/" ++ natToHex t.kind

def hdrS (h : Hdr) : String :=
  " ".intercalate [natToHex h.number, natToHex h.hash, natToHex h.parent, natToHex h.root, finS h.status]

/-- Insertion sort on strings (canonical order for the sections of a state diff, which are maps
in the implementation). -/
def insertS (x : String) : List String → List String
  | [] => [x]
  | y :: ys => if x ≤ y then x :: y :: ys else y :: insertS x ys

def sortS (l : List String) : List String := l.foldr insertS []

def pairS (tag : String) (p : Nat × Nat) : String := tag ++ "=" ++ natToHex p.1 ++ "," ++ natToHex p.2

def diffS (d : Diff) : String :=
  let items :=
    d.deployed.map (pairS "d") ++ d.replaced.map (pairS "r") ++ d.nonces.map (pairS "n") ++
    d.storage.map (fun e => "s=" ++ natToHex e.1 ++ "," ++ natToHex e.2.1 ++ "," ++ natToHex e.2.2) ++
    d.declared.map (fun c => "c=" ++ natToHex c)
  joinOr (sortS items)

def render : Ans → String
  | .err e => "err:" ++ e.code
  | .num n => "ok " ++ natToHex n
  | .hashNum h n => "ok " ++ natToHex h ++ " " ++ natToHex n
  | .blockHashes h txs => "ok " ++ hdrS h ++ " " ++ joinOr (txs.map natToHex)
  | .blockTxs h txs => "ok " ++ hdrS h ++ " " ++ joinOr (txs.map txS)
  | .blockReceipts h txs =>
    "ok " ++ hdrS h ++ " " ++ joinOr (txs.map (fun p => txS p.1 ++ "/" ++ boolS p.1.reverted ++ "/" ++ finS p.2))
  | .tx t => "ok " ++ txS t
  | .receipt t f n bh =>
    -- a receipt carries the transaction type but not its version
    "ok " ++ natToHex t.hash ++ "/" ++ natToHex (t.kind / 16) ++ " " ++ boolS t.reverted ++ " " ++ finS f ++ " " ++ natToHex n ++ " " ++ natToHex bh
  | .status f r => "ok " ++ finS f ++ " " ++ boolS r
  | .update bh nr orr d => "ok " ++ natToHex bh ++ " " ++ natToHex nr ++ " " ++ natToHex orr ++ " " ++ diffS d
  | .valueAt v n => "ok " ++ natToHex v ++ " @" ++ natToHex n
  | .crash => "crash"
  | .pendingBlock p => "ok pending " ++ natToHex p
  | .pendingUpdate orr d => "ok pending-update " ++ natToHex orr ++ " " ++ diffS d

def parseBackend : String → Option Backend
  | "legacy" => some .legacy
  | "new" => some .new
  | _ => none

def parseFilter (f : String) : Option (List Nat) :=
  match splitOn1 f '=' with
  | ["f", ""] => some []
  | ["f", body] => parseNats body
  | _ => none

def parseRequest (method : String) (args : List String) : Option Request :=
  match method, args with
  | "blockNumber", [] => some .blockNumber
  | "blockHashAndNumber", [] => some .blockHashAndNumber
  | "blockTxHashes", [id] => (parseRawId id).map .blockWithTxHashes
  | "blockTxs", [id] => (parseRawId id).map .blockWithTxs
  | "blockReceipts", [id] => (parseRawId id).map .blockWithReceipts
  | "txCount", [id] => (parseRawId id).map .blockTransactionCount
  | "txByHash", [h] => (hexToNat? h).map .transactionByHash
  | "txByIdx", [id, i] => do
    let id ← parseRawId id
    let i ← parseInt i
    pure (.transactionByBlockIdAndIndex id i)
  | "receipt", [h] => (hexToNat? h).map .transactionReceipt
  | "txStatus", [h] => (hexToNat? h).map .transactionStatus
  | "stateUpdate", [id] => (parseRawId id).map (fun id => .stateUpdate id [])
  | "stateUpdate", [id, f] => do
    let id ← parseRawId id
    let fl ← parseFilter f
    pure (.stateUpdate id fl)
  | "storage", [id, a, k] => do
    let id ← parseRawId id
    let a ← hexToNat? a
    let k ← hexToNat? k
    pure (.storageAt a k id)
  | "storageLU", [id, a, k] => do
    let id ← parseRawId id
    let a ← hexToNat? a
    let k ← hexToNat? k
    pure (.storageAtWithLastUpdate a k id)
  | "nonce", [id, a] => do
    let id ← parseRawId id
    let a ← hexToNat? a
    pure (.nonce id a)
  | "classHashAt", [id, a] => do
    let id ← parseRawId id
    let a ← hexToNat? a
    pure (.classHashAt id a)
  | "class", [id, c] => do
    let id ← parseRawId id
    let c ← hexToNat? c
    pure (.classByHash id c)
  | "classAt", [id, a] => do
    let id ← parseRawId id
    let a ← hexToNat? a
    pure (.classAt id a)
  | _, _ => none

def parseNullRequest (method : String) (args : List String) : Option NullRequest :=
  match method, args with
  | "null:txHash", [] => some .txHash
  | "null:index", [id] => (parseRawId id).map .index
  | "null:nonce", [id] => (parseRawId id).map .nonceAddr
  | "null:classHashAt", [id] => (parseRawId id).map .classHashAtAddr
  | "null:classAt", [id] => (parseRawId id).map .classAtAddr
  | "null:class", [id] => (parseRawId id).map .classHash
  | "null:storageAddr", [id, k] => do
    let id ← parseRawId id
    let k ← hexToNat? k
    pure (.storageAddr k id)
  | "null:storageKey", [id, a] => do
    let id ← parseRawId id
    let a ← hexToNat? a
    pure (.storageKey a id)
  | _, _ => none

structure St where
  nd : Node := {}
  cfg : Cfg := {}

def stepNode (cfg : Cfg) (nd : Node) (line : String) : Node × String :=
  match words line with
  | ["reset"] => ({}, "ok")
  | "store" :: num :: hash :: parent :: root :: oldRoot :: items =>
    match parseBlock num hash parent root oldRoot items with
    | none => (nd, "bad-op")
    | some b =>
      match store nd b with
      | some nd' => (nd', "ok")
      | none => (nd, "err:rejected")
  | ["revert"] =>
    match revert nd with
    | some nd' => (nd', "ok")
    | none => (nd, "err:empty")
  | ["l1", "none"] => (setL1 nd none, "ok")
  | ["l1", "zero"] => (setL1Zero nd, "ok")
  | ["l1", n] =>
    match hexToNat? n with
    | some n => (setL1 nd (some n), "ok")
    | none => (nd, "bad-op")
  | "q" :: ver :: be :: method :: args =>
    match parseVer ver, parseBackend be with
    | none, _ => (nd, "bad-op")
    | _, none => (nd, "bad-op")
    | some v, some be =>
      match parseRequest method args with
      | some r => (nd, render (serve cfg be v nd r))
      | none =>
        match parseNullRequest method args with
        | some r => (nd, render (serveNull cfg be v nd r))
        | none => (nd, "bad-op")
  | _ => (nd, "bad-op")

/-- `cfg <nullCrashes 0|1> <nullNumberIsZero 0|1>`: which variant of the code is being looked at. -/
def step (st : St) (line : String) : St × String :=
  match words line with
  | ["cfg", a, b] =>
    if (a == "0" || a == "1") && (b == "0" || b == "1") then
      ({ st with cfg := { nullCrashes := a == "1", nullNumberIsZero := b == "1" } }, "ok")
    else (st, "bad-op")
  | _ =>
    let (nd', out) := stepNode st.cfg st.nd line
    ({ st with nd := nd' }, out)

def main : IO Unit := loop step ({} : St)
