import JunoModel.C08.ModelDb
import JunoModel.C08.ProofsV
/-!
C08 — helper lemmas about the record-level model (`ModelDb.lean`); the statements that matter are
collected in `PropsDb.lean`.

Part 1: on a database that was never pruned (and never tampered with) every record read is the
corresponding read of the list view, hence every handler of `ModelDb.lean` is the handler of
`ModelV.lean` (and the internal-error arm of the v0.10 block methods is dead).
Part 2: histories with prunes simulate the same history without them (`Sim`): the chain is the
same, the two hash-keyed buckets are the unpruned ones minus the swept keys.
Part 3: what a pruned node answers.
-/
namespace Juno.C08

/-! ## Part 1: the unpruned database -/

/-- Never pruned, nothing deleted behind the node's back, retention floor unseeded or seeded on a
database that was never pruned (0). -/
structure Db.Unpruned (db : Db) : Prop where
  p : db.prunedBelow = 0
  c : db.noCommit = []
  f : db.floor = none ∨ db.floor = some 0

theorem Db.ofNode_unpruned (nd : Node) : (Db.ofNode nd).Unpruned := ⟨rfl, rfl, Or.inl rfl⟩

theorem lastLoggedRevFrom_zero (bs : List Block) (a k : Nat) : Db.lastLoggedRevFrom 0 bs a k = lastLoggedRev bs a k := by
  induction bs with
  | nil => rfl
  | cons b older ih =>
    simp only [Db.lastLoggedRevFrom, lastLoggedRev, Nat.not_lt_zero, if_false, ih]
    cases lookup3 b.diff.storage a k <;> rfl

section unpruned
variable {db : Db} (u : db.Unpruned)
include u

theorem db_header_u (n : Nat) : db.header n = blockByNumber db.nd n := by
  simp [Db.header, Db.headerKept, u.p, blockByNumber]

theorem db_body_u (n : Nat) : db.body n = txsByNumber db.nd n := by
  simp [Db.body, Db.bodyKept, u.p, txsByNumber, blockByNumber]

theorem db_update_u (n : Nat) : db.update n = stateUpdateByNumber db.nd n := by
  simp [Db.update, Db.bodyKept, u.p, stateUpdateByNumber, blockByNumber]

theorem db_hasCommit_u {n : Nat} (h : n < db.nd.chain.length) : db.hasCommit n = true := by
  simp [Db.hasCommit, Db.bodyKept, u.p, u.c, Db.len, h]

theorem db_blockByNumber_u (n : Nat) : db.blockByNumber n = blockByNumber db.nd n := by
  simp only [Db.blockByNumber, db_header_u u, db_body_u u, txsByNumber, blockByNumber]
  cases db.nd.chain[n]? <;> simp

theorem db_headsHeader_u : db.headsHeader = headBlock db.nd := by
  simp only [Db.headsHeader, Db.height, headBlock, db_header_u u]
  cases height db.nd <;> rfl

theorem db_head_u : db.head = headBlock db.nd := by
  simp only [Db.head, Db.height, headBlock, db_blockByNumber_u u]
  cases height db.nd <;> rfl

theorem db_headerByHash_u (x : Nat) : db.headerByHash x = blockByHash db.nd x := by
  simp only [Db.headerByHash, Db.numberByHash, blockByHash, db_header_u u]
  cases numberByHash db.nd x <;> rfl

theorem db_blockByHash_u (x : Nat) : db.blockByHash x = blockByHash db.nd x := by
  simp only [Db.blockByHash, Db.numberByHash, blockByHash, db_blockByNumber_u u]
  cases numberByHash db.nd x <;> rfl

theorem db_txCountByNumber_u (n : Nat) : db.txCountByNumber n = txCountByNumber db.nd n := by
  simp [Db.txCountByNumber, db_header_u u, txCountByNumber]

theorem db_txHashesByNumber_u (n : Nat) : db.txHashesByNumber n = txHashesByNumber db.nd n := by
  simp only [Db.txHashesByNumber, db_body_u u, txHashesByNumber, txsByNumber]
  cases blockByNumber db.nd n <;> rfl

theorem db_txsByNumber_u (n : Nat) : db.txsByNumber n = txsByNumber db.nd n := by
  simp [Db.txsByNumber, db_body_u u]

theorem db_txByNumberAndIndex_u (n i : Nat) : db.txByNumberAndIndex n i = txByNumberAndIndex db.nd n i := by
  simp only [Db.txByNumberAndIndex, db_body_u u, txsByNumber, txByNumberAndIndex]
  cases blockByNumber db.nd n <;> rfl

theorem db_txByHash_u (x : Nat) : db.txByHash x = txByHash db.nd x := by
  simp only [Db.txByHash, Db.txLoc, txByHash, db_txByNumberAndIndex_u u]
  cases numberAndIndexByTxHash db.nd x <;> rfl

theorem db_txAndBlockHash_u (n i : Nat) : db.txAndBlockHash n i = txAndBlockHash db.nd n i := by
  simp only [Db.txAndBlockHash, db_txByNumberAndIndex_u u, db_header_u u, txByNumberAndIndex, txAndBlockHash]
  cases blockByNumber db.nd n with
  | none => rfl
  | some b => cases h : b.txs[i]? <;> simp [h]

theorem db_updateByHash_u (x : Nat) : db.updateByHash x = stateUpdateByHash db.nd x := by
  simp only [Db.updateByHash, Db.numberByHash, stateUpdateByHash, blockByHash, db_update_u u, stateUpdateByNumber]
  cases numberByHash db.nd x <;> rfl

theorem db_headState_u (be : Backend) : db.headState be = headState db.nd := by
  cases be with
  | legacy => rfl
  | new =>
    simp only [Db.headState, Db.height, headState, height, db_header_u u, blockByNumber]
    by_cases h : db.nd.chain.isEmpty
    · simp [h]
    · have hl := length_pos_of_not_isEmpty h
      have : db.nd.chain.length - 1 < db.nd.chain.length := by omega
      simp [h, this]

theorem db_lastUpdate_u (be : Backend) (bs : List Block) (a k : Nat) : db.lastUpdate be bs a k = lastUpdateIn be bs a k := by
  cases be with
  | legacy => simp [Db.lastUpdate, lastUpdateIn, lastLoggedIn, u.p, lastLoggedRevFrom_zero]
  | new => rfl

end unpruned

/-- The hash index maps into the chain. -/
theorem numberByHash_lt {nd : Node} (ok : BucketsOk nd) {x n : Nat} (h : numberByHash nd x = some n) :
    n < nd.chain.length ∧ ∃ b, nd.chain[n]? = some b ∧ b.hash = x := by
  rw [ok.1] at h
  obtain ⟨hl, hp, _⟩ := List.findIdx?_eq_some_iff_getElem.mp h
  exact ⟨hl, nd.chain[n], by simp [hl], by simpa using hp⟩

/-- A block of the chain has an entry in the hash index. -/
theorem numberByHash_isSome_of_mem {nd : Node} (ok : BucketsOk nd) {b : Block} (hb : b ∈ nd.chain) :
    (numberByHash nd b.hash).isSome := by
  rw [ok.1]
  cases h : nd.chain.findIdx? (fun c => c.hash == b.hash) with
  | some _ => rfl
  | none =>
    rw [List.findIdx?_eq_none_iff] at h
    have := h b hb
    simp at this

theorem db_stateAtBlockNumber_u {db : Db} (u : db.Unpruned) (ok : BucketsOk db.nd) (be : Backend) (n : Nat) :
    db.stateAtBlockNumber be n = stateAtBlockNumber db.nd n := by
  simp only [Db.stateAtBlockNumber, stateAtBlockNumber, stateAtNumber, Db.histAt]
  rcases u.f with hf | hf
  · rw [hf]
    simp only [db_header_u u, blockByNumber, Db.numberByHash]
    by_cases hn : n < db.nd.chain.length
    · have hm : db.nd.chain[n] ∈ db.nd.chain := List.getElem_mem hn
      have hs := numberByHash_isSome_of_mem ok hm
      cases hq : numberByHash db.nd db.nd.chain[n].hash with
      | none => simp [hq] at hs
      | some m => simp [hn, hq]
    · simp [hn]
  · rw [hf]
    simp only [Nat.not_lt_zero, if_false]
    cases be with
    | legacy =>
      simp only [Db.height, height]
      by_cases he : db.nd.chain.isEmpty
      · have : db.nd.chain.length = 0 := by simpa using he
        simp [he, this]
      · have hl := length_pos_of_not_isEmpty he
        by_cases hn : n < db.nd.chain.length
        · have : ¬ (db.nd.chain.length - 1 < n) := by omega
          simp [he, hn, this]
        · have : db.nd.chain.length - 1 < n := by omega
          simp [he, hn, this]
    | new =>
      simp only [db_header_u u, blockByNumber]
      by_cases hn : n < db.nd.chain.length <;> simp [hn]

theorem db_stateAtBlockHash_u {db : Db} (u : db.Unpruned) (ok : BucketsOk db.nd) (be : Backend) (x : Nat) :
    db.stateAtBlockHash be x = stateAtBlockHash be db.nd x := by
  simp only [Db.stateAtBlockHash, stateAtBlockHash, Db.numberByHash, stateAtNumber, Db.histAt]
  by_cases hx : (x == 0) = true
  · simp only [hx, if_true]
    cases be <;> rfl
  · simp only [hx, Bool.false_eq_true, if_false]
    cases hq : numberByHash db.nd x with
    | none => rfl
    | some n =>
      have hl := (numberByHash_lt ok hq).1
      cases be with
      | legacy => simp [hl]
      | new => simp [db_header_u u, blockByNumber, hl]

/-! ### the handlers of the three packages on an unpruned database -/

theorem headBlock_mem {nd : Node} {b : Block} (h : headBlock nd = some b) : ∃ n : Nat, nd.chain[n]? = some b := by
  simp only [headBlock] at h
  cases hh : height nd with
  | none => simp [hh] at h
  | some n => exact ⟨n, by simpa [hh, blockByNumber] using h⟩

theorem blockByHash_mem {nd : Node} {x : Nat} {b : Block} (h : blockByHash nd x = some b) : ∃ n : Nat, nd.chain[n]? = some b := by
  simp only [blockByHash] at h
  cases hh : numberByHash nd x with
  | none => simp [hh] at h
  | some n => exact ⟨n, by simpa [hh, blockByNumber] using h⟩

theorem number_lt_of_getElem? {nd : Node} (wf : WellFormed nd) {n : Nat} {b : Block} (h : nd.chain[n]? = some b) :
    b.number < nd.chain.length := by
  have := wf n b h
  have hl : n < nd.chain.length := by
    rcases Nat.lt_or_ge n nd.chain.length with hl | hl
    · exact hl
    · rw [List.getElem?_eq_none_iff.mpr hl] at h; cases h
  omega

theorem v10_blockByID_mem {nd : Node} {id : BlockId} {b : Block} (h : V10.blockByID nd id = .ok b) :
    ∃ n : Nat, nd.chain[n]? = some b := by
  cases id with
  | pre => simp [V10.blockByID] at h
  | latest =>
    simp only [V10.blockByID] at h
    cases hh : headBlock nd with
    | none => simp [hh] at h
    | some c => simp [hh] at h; subst h; exact headBlock_mem hh
  | hash x =>
    simp only [V10.blockByID] at h
    cases hh : blockByHash nd x with
    | none => simp [hh] at h
    | some c => simp [hh] at h; subst h; exact blockByHash_mem hh
  | l1Accepted =>
    simp only [V10.blockByID] at h
    cases hl : V10.l1AcceptedBlockNumber nd with
    | none => simp [hl] at h
    | some n =>
      simp only [hl] at h
      cases hh : blockByNumber nd n with
      | none => simp [hh] at h
      | some c => simp [hh] at h; subst h; exact ⟨n, hh⟩
  | number n =>
    simp only [V10.blockByID] at h
    cases hh : blockByNumber nd n with
    | none => simp [hh] at h
    | some c => simp [hh] at h; subst h; exact ⟨n, hh⟩

theorem v9_blockByID_eq_v10 (nd : Node) (id : BlockId) : V9.blockByID nd id = V10.blockByID nd id := by
  cases id <;> rfl

theorem v8_blockByID_mem {nd : Node} {id : BlockId} {b : Block} (h : V8.blockByID nd id = .ok (.stored b)) :
    ∃ n : Nat, nd.chain[n]? = some b := by
  cases id with
  | pre =>
    simp only [V8.blockByID] at h
    cases hp : V8.pending nd with
    | none => simp [hp] at h
    | some p =>
      simp only [hp] at h
      simp only [V8.pending] at hp
      cases hh : headBlock nd with
      | none => simp [hh] at hp
      | some c =>
        simp only [hh] at hp
        split at hp
        · cases hp; cases h
        · split at hp
          · cases hp; cases h
          · cases hp
  | latest =>
    simp only [V8.blockByID] at h
    cases hh : headBlock nd with
    | none => simp [hh] at h
    | some c => simp [hh] at h; subst h; exact headBlock_mem hh
  | hash x =>
    simp only [V8.blockByID] at h
    cases hh : blockByHash nd x with
    | none => simp [hh] at h
    | some c => simp [hh] at h; subst h; exact blockByHash_mem hh
  | l1Accepted => simp [V8.blockByID] at h
  | number n =>
    simp only [V8.blockByID] at h
    cases hh : blockByNumber nd n with
    | none => simp [hh] at h
    | some c => simp [hh] at h; subst h; exact ⟨n, hh⟩

theorem txHashes_lt {nd : Node} {n : Nat} {hs : List Nat} (h : txHashesByNumber nd n = some hs) : n < nd.chain.length := by
  simp only [txHashesByNumber, blockByNumber] at h
  rcases Nat.lt_or_ge n nd.chain.length with hl | hl
  · exact hl
  · rw [List.getElem?_eq_none_iff.mpr hl] at h; cases h

theorem txs_lt {nd : Node} {n : Nat} {ts : List Tx} (h : txsByNumber nd n = some ts) : n < nd.chain.length := by
  simp only [txsByNumber, blockByNumber] at h
  rcases Nat.lt_or_ge n nd.chain.length with hl | hl
  · exact hl
  · rw [List.getElem?_eq_none_iff.mpr hl] at h; cases h

section handlers
variable {db : Db} (u : db.Unpruned)
include u

omit u in
theorem d10_l1_u : D10.l1AcceptedBlockNumber db = V10.l1AcceptedBlockNumber db.nd := rfl
omit u in
theorem d9_l1_u : D9.l1AcceptedBlockNumber db = V9.l1AcceptedBlockNumber db.nd := rfl

theorem d10_blockByID_u (id : BlockId) : D10.blockByID db id = V10.blockByID db.nd id := by
  cases id <;> simp only [D10.blockByID, V10.blockByID, db_head_u u, db_blockByHash_u u, db_blockByNumber_u u, d10_l1_u] <;> mrfl

theorem d10_blockHeaderByID_u (id : BlockId) : D10.blockHeaderByID db id = V10.blockHeaderByID db.nd id := by
  cases id <;> simp only [D10.blockHeaderByID, V10.blockHeaderByID, db_headsHeader_u u, db_headerByHash_u u, db_header_u u, d10_l1_u] <;> mrfl

theorem d9_blockByID_u (id : BlockId) : D9.blockByID db id = V9.blockByID db.nd id := by
  cases id <;> simp only [D9.blockByID, V9.blockByID, db_head_u u, db_blockByHash_u u, db_blockByNumber_u u, d9_l1_u] <;> mrfl

theorem d9_blockHeaderByID_u (id : BlockId) : D9.blockHeaderByID db id = V9.blockHeaderByID db.nd id := by
  cases id <;> simp only [D9.blockHeaderByID, V9.blockHeaderByID, db_headsHeader_u u, db_headerByHash_u u, db_header_u u, d9_l1_u] <;> mrfl

theorem d10_blockWithTxHashes_u (id : BlockId) : D10.blockWithTxHashes db id = .ans (V10.blockWithTxHashes db.nd id) := by
  simp only [D10.blockWithTxHashes, V10.blockWithTxHashes, d10_blockHeaderByID_u u, db_txHashesByNumber_u u, D10.header]
  by_cases hp : (id == BlockId.pre) = true
  · simp [hp]
  · simp only [hp, Bool.false_eq_true, if_false]
    cases hh : V10.blockHeaderByID db.nd id with
    | error e => rfl
    | ok hd =>
      simp only []
      cases ht : txHashesByNumber db.nd hd.number with
      | none => rfl
      | some hs => simp [db_hasCommit_u u (txHashes_lt ht)]

theorem d10_blockWithTxs_u (id : BlockId) : D10.blockWithTxs db id = .ans (V10.blockWithTxs db.nd id) := by
  simp only [D10.blockWithTxs, V10.blockWithTxs, d10_blockHeaderByID_u u, db_txsByNumber_u u, D10.header]
  by_cases hp : (id == BlockId.pre) = true
  · simp [hp]
  · simp only [hp, Bool.false_eq_true, if_false]
    cases hh : V10.blockHeaderByID db.nd id with
    | error e => rfl
    | ok hd =>
      simp only []
      cases ht : txsByNumber db.nd hd.number with
      | none => rfl
      | some hs => simp [db_hasCommit_u u (txs_lt ht)]

theorem d10_blockWithReceipts_u (wf : WellFormed db.nd) (id : BlockId) :
    D10.blockWithReceipts db id = .ans (V10.blockWithReceipts db.nd id) := by
  simp only [D10.blockWithReceipts, V10.blockWithReceipts, d10_blockByID_u u, D10.header, D10.blockStatus]
  cases hh : V10.blockByID db.nd id with
  | error e => rfl
  | ok b =>
    obtain ⟨n, hn⟩ := v10_blockByID_mem hh
    simp [db_hasCommit_u u (number_lt_of_getElem? wf hn)]

theorem d10_blockTransactionCount_u (id : BlockId) : D10.blockTransactionCount db id = V10.blockTransactionCount db.nd id := by
  cases id <;> simp only [D10.blockTransactionCount, V10.blockTransactionCount, db_txCountByNumber_u u, d10_l1_u, Db.height, Db.numberByHash] <;> mrfl

theorem d9_blockTransactionCount_u (id : BlockId) : D9.blockTransactionCount db id = V9.blockTransactionCount db.nd id := by
  cases id <;> simp only [D9.blockTransactionCount, V9.blockTransactionCount, db_txCountByNumber_u u, d9_l1_u, Db.height, Db.numberByHash] <;> mrfl

theorem d9_blockWithTxHashes_u (id : BlockId) : D9.blockWithTxHashes db id = V9.blockWithTxHashes db.nd id := by
  simp only [D9.blockWithTxHashes, V9.blockWithTxHashes, d9_blockHeaderByID_u u, db_txHashesByNumber_u u, D9.header]
  mrfl

theorem d9_blockWithTxs_u (id : BlockId) : D9.blockWithTxs db id = V9.blockWithTxs db.nd id := by
  simp only [D9.blockWithTxs, V9.blockWithTxs, d9_blockHeaderByID_u u, db_txsByNumber_u u, D9.header]
  mrfl

theorem d9_blockWithReceipts_u (id : BlockId) : D9.blockWithReceipts db id = V9.blockWithReceipts db.nd id := by
  simp only [D9.blockWithReceipts, V9.blockWithReceipts, d9_blockByID_u u, D9.header, D9.blockStatus]
  mrfl

theorem d10_byHash_u (x : Nat) :
    D10.transactionByHash db x = V10.transactionByHash db.nd x ∧
    D10.transactionReceiptByHash db x = V10.transactionReceiptByHash db.nd x ∧
    D10.transactionStatusFromStore db x = V10.transactionStatusFromStore db.nd x := by
  simp only [D10.transactionByHash, V10.transactionByHash, D10.transactionReceiptByHash, V10.transactionReceiptByHash,
    D10.transactionStatusFromStore, V10.transactionStatusFromStore, db_txByHash_u u, db_txAndBlockHash_u u,
    db_txByNumberAndIndex_u u, Db.txLoc, D10.blockStatus]
  exact ⟨rfl, rfl, rfl⟩

theorem d9_byHash_u (x : Nat) :
    D9.transactionByHash db x = V9.transactionByHash db.nd x ∧
    D9.transactionReceiptByHash db x = V9.transactionReceiptByHash db.nd x ∧
    D9.transactionStatusFromStore db x = V9.transactionStatusFromStore db.nd x := by
  simp only [D9.transactionByHash, V9.transactionByHash, D9.transactionReceiptByHash, V9.transactionReceiptByHash,
    D9.transactionStatusFromStore, V9.transactionStatusFromStore, db_txByHash_u u, db_txAndBlockHash_u u,
    db_txByNumberAndIndex_u u, Db.txLoc, D9.blockStatus]
  exact ⟨rfl, rfl, rfl⟩

theorem d10_txByIdx_u (id : BlockId) (i : Int) :
    D10.transactionByBlockIDAndIndex db id i = V10.transactionByBlockIDAndIndex db.nd id i := by
  cases id <;> simp only [D10.transactionByBlockIDAndIndex, V10.transactionByBlockIDAndIndex, db_headsHeader_u u,
    db_txByNumberAndIndex_u u, d10_l1_u, Db.numberByHash] <;> mrfl

theorem d9_txByIdx_u (id : BlockId) (i : Int) :
    D9.transactionByBlockIDAndIndex db id i = V9.transactionByBlockIDAndIndex db.nd id i := by
  cases id <;> simp only [D9.transactionByBlockIDAndIndex, V9.transactionByBlockIDAndIndex, db_headsHeader_u u,
    db_txByNumberAndIndex_u u, d9_l1_u, Db.numberByHash] <;> mrfl

theorem d10_stateUpdate_u (id : BlockId) (f : List Nat) : D10.stateUpdate db id f = V10.stateUpdate db.nd id f := by
  cases id <;> simp only [D10.stateUpdate, V10.stateUpdate, db_update_u u, db_updateByHash_u u, d10_l1_u, Db.height] <;> mrfl

theorem d9_stateUpdate_u (id : BlockId) : D9.stateUpdate db id = V9.stateUpdate db.nd id := by
  cases id <;> simp only [D9.stateUpdate, V9.stateUpdate, db_update_u u, db_updateByHash_u u, d9_l1_u, Db.height] <;> mrfl

theorem d10_status_u (env : Env) (x : Nat) : D10.transactionStatus env db x = V10.transactionStatus env db.nd x := by
  simp only [D10.transactionStatus, V10.transactionStatus, (d10_byHash_u u x).2.2]
  mrfl

theorem d9_status_u (env : Env) (x : Nat) : D9.transactionStatus env db x = V9.transactionStatus env db.nd x := by
  simp only [D9.transactionStatus, V9.transactionStatus, (d9_byHash_u u x).2.2]
  mrfl

theorem d10_stateByBlockID_u (ok : BucketsOk db.nd) (be : Backend) (id : BlockId) :
    D10.stateByBlockID be db id = V10.stateByBlockID be db.nd id := by
  cases id <;> simp only [D10.stateByBlockID, V10.stateByBlockID, db_headState_u u, db_stateAtBlockHash_u u ok,
    db_stateAtBlockNumber_u u ok, d10_l1_u] <;> mrfl

theorem d9_stateByBlockID_u (ok : BucketsOk db.nd) (be : Backend) (id : BlockId) :
    D9.stateByBlockID be db id = V9.stateByBlockID be db.nd id := by
  cases id <;> simp only [D9.stateByBlockID, V9.stateByBlockID, db_headState_u u, db_stateAtBlockHash_u u ok,
    db_stateAtBlockNumber_u u ok, d9_l1_u] <;> mrfl

theorem d10_stateMethods_u (ok : BucketsOk db.nd) (be : Backend) (id : BlockId) (a c k : Nat) (lu : Bool) :
    D10.nonce be db id a = V10.nonce be db.nd id a ∧ D10.classHashAt be db id a = V10.classHashAt be db.nd id a ∧
    D10.classByHash be db id c = V10.classByHash be db.nd id c ∧ D10.classAt be db id a = V10.classAt be db.nd id a ∧
    D10.storageAt be db id a k lu = V10.storageAt be db.nd id a k lu := by
  have e := d10_stateByBlockID_u u ok be id
  have hn : D10.nonce be db id a = V10.nonce be db.nd id a := by simp only [D10.nonce, V10.nonce, e]; mrfl
  have hc : D10.classHashAt be db id a = V10.classHashAt be db.nd id a := by simp only [D10.classHashAt, V10.classHashAt, e]; mrfl
  have hb : ∀ c, D10.classByHash be db id c = V10.classByHash be db.nd id c := by
    intro c; simp only [D10.classByHash, V10.classByHash, e]; mrfl
  refine ⟨hn, hc, hb c, ?_, ?_⟩
  · simp only [D10.classAt, V10.classAt, hc]
    congr 1
    funext c
    exact hb c
  · simp only [D10.storageAt, V10.storageAt, D10.storageOf, e, db_lastUpdate_u u]
    mrfl

theorem d9_stateMethods_u (ok : BucketsOk db.nd) (be : Backend) (id : BlockId) (a c k : Nat) :
    D9.nonce be db id a = V9.nonce be db.nd id a ∧ D9.classHashAt be db id a = V9.classHashAt be db.nd id a ∧
    D9.classByHash be db id c = V9.classByHash be db.nd id c ∧ D9.classAt be db id a = V9.classAt be db.nd id a ∧
    D9.storageAt be db id a k = V9.storageAt be db.nd id a k := by
  have e := d9_stateByBlockID_u u ok be id
  have hn : D9.nonce be db id a = V9.nonce be db.nd id a := by simp only [D9.nonce, V9.nonce, e]; mrfl
  have hc : D9.classHashAt be db id a = V9.classHashAt be db.nd id a := by simp only [D9.classHashAt, V9.classHashAt, e]; mrfl
  have hb : ∀ c, D9.classByHash be db id c = V9.classByHash be db.nd id c := by
    intro c; simp only [D9.classByHash, V9.classByHash, e]; mrfl
  refine ⟨hn, hc, hb c, ?_, ?_⟩
  · simp only [D9.classAt, V9.classAt, hc]
    congr 1
    funext c
    exact hb c
  · simp only [D9.storageAt, V9.storageAt, e]
    mrfl

/-! rpc/v8 -/

theorem d8_pending_u : D8.pending db = V8.pending db.nd := by
  simp only [D8.pending, V8.pending, db_headsHeader_u u, db_header_u u]
  mrfl

theorem d8_blockHeaderByID_u (id : BlockId) : D8.blockHeaderByID db id = V8.blockHeaderByID db.nd id := by
  cases id <;> simp only [D8.blockHeaderByID, V8.blockHeaderByID, db_headsHeader_u u, db_headerByHash_u u, db_header_u u,
    d8_pending_u u] <;> mrfl

theorem d8_blockByID_u (id : BlockId) : D8.blockByID db id = V8.blockByID db.nd id := by
  cases id <;> simp only [D8.blockByID, V8.blockByID, db_head_u u, db_blockByHash_u u, db_blockByNumber_u u,
    d8_pending_u u] <;> mrfl

theorem d8_blockTxnsByNumber_u (id : BlockId) : D8.blockTxnsByNumber db id = V8.blockTxnsByNumber db.nd id := by
  cases id <;> simp only [D8.blockTxnsByNumber, V8.blockTxnsByNumber, db_txsByNumber_u u, d8_pending_u u] <;> mrfl

theorem d8_blockMethods_u (id : BlockId) :
    D8.blockWithTxHashes db id = V8.blockWithTxHashes db.nd id ∧ D8.blockWithTxs db id = V8.blockWithTxs db.nd id ∧
    D8.blockWithReceipts db id = V8.blockWithReceipts db.nd id ∧
    D8.blockTransactionCount db id = V8.blockTransactionCount db.nd id := by
  refine ⟨?_, ?_, ?_, ?_⟩
  · simp only [D8.blockWithTxHashes, V8.blockWithTxHashes, d8_blockHeaderByID_u u, d8_blockTxnsByNumber_u u, D8.header]; mrfl
  · simp only [D8.blockWithTxs, V8.blockWithTxs, d8_blockHeaderByID_u u, d8_blockTxnsByNumber_u u, D8.header]; mrfl
  · simp only [D8.blockWithReceipts, V8.blockWithReceipts, d8_blockByID_u u, D8.header, D8.blockStatus]; mrfl
  · simp only [D8.blockTransactionCount, V8.blockTransactionCount, d8_blockHeaderByID_u u]; mrfl

theorem d8_byHash_u (x : Nat) :
    D8.transactionByHash db x = V8.transactionByHash db.nd x ∧
    D8.transactionReceiptByHash db x = V8.transactionReceiptByHash db.nd x := by
  simp only [D8.transactionByHash, V8.transactionByHash, D8.transactionReceiptByHash, V8.transactionReceiptByHash,
    db_txByHash_u u, db_txAndBlockHash_u u, Db.txLoc, D8.blockStatus]
  exact ⟨by mrfl, by mrfl⟩

theorem d8_status_u (env : Env) (x : Nat) : D8.transactionStatus env db x = V8.transactionStatus env db.nd x := by
  simp only [D8.transactionStatus, V8.transactionStatus, (d8_byHash_u u x).2]
  mrfl

theorem d8_txByIdx_u (id : BlockId) (i : Int) :
    D8.transactionByBlockIDAndIndex db id i = V8.transactionByBlockIDAndIndex db.nd id i := by
  cases id <;> simp only [D8.transactionByBlockIDAndIndex, V8.transactionByBlockIDAndIndex, db_headsHeader_u u,
    db_txByNumberAndIndex_u u, d8_pending_u u, Db.numberByHash] <;> mrfl

theorem d8_stateUpdate_u (id : BlockId) : D8.stateUpdate db id = V8.stateUpdate db.nd id := by
  cases id <;> simp only [D8.stateUpdate, V8.stateUpdate, db_update_u u, db_updateByHash_u u, d8_pending_u u, Db.height] <;> mrfl

theorem d8_stateByBlockID_u (ok : BucketsOk db.nd) (be : Backend) (id : BlockId) :
    D8.stateByBlockID be db id = V8.stateByBlockID be db.nd id := by
  cases id <;> simp only [D8.stateByBlockID, V8.stateByBlockID, db_headState_u u, db_stateAtBlockHash_u u ok,
    db_stateAtBlockNumber_u u ok]

theorem d8_stateMethods_u (ok : BucketsOk db.nd) (be : Backend) (id : BlockId) (a c k : Nat) :
    D8.nonce be db id a = V8.nonce be db.nd id a ∧ D8.classHashAt be db id a = V8.classHashAt be db.nd id a ∧
    D8.classByHash be db id c = V8.classByHash be db.nd id c ∧ D8.classAt be db id a = V8.classAt be db.nd id a ∧
    D8.storageAt be db id a k = V8.storageAt be db.nd id a k := by
  have e := d8_stateByBlockID_u u ok be id
  have hn : D8.nonce be db id a = V8.nonce be db.nd id a := by simp only [D8.nonce, V8.nonce, e]; mrfl
  have hc : D8.classHashAt be db id a = V8.classHashAt be db.nd id a := by simp only [D8.classHashAt, V8.classHashAt, e]; mrfl
  have hb : ∀ c, D8.classByHash be db id c = V8.classByHash be db.nd id c := by
    intro c; simp only [D8.classByHash, V8.classByHash, e]; mrfl
  refine ⟨hn, hc, hb c, ?_, ?_⟩
  · simp only [D8.classAt, V8.classAt, hc]
    congr 1
    funext c
    exact hb c
  · simp only [D8.storageAt, V8.storageAt, e]
    mrfl

end handlers

theorem withIdD_ans (cfg : Cfg) (ver : Ver) (p : Bool) (raw : RawId) (k : BlockId → DAns) (k' : BlockId → Ans)
    (h : ∀ id, k id = .ans (k' id)) : withIdD cfg ver p raw k = .ans (withIdV cfg ver p raw k') := by
  cases raw <;> simp only [withIdD, withIdV] <;> (repeat' split) <;> simp_all

theorem handleD_u {db : Db} (u : db.Unpruned) (ok : BucketsOk db.nd) (wf : WellFormed db.nd) (be : Backend) (ver : Ver)
    (r : Request) (id : BlockId) : handleD be ver db r id = .ans (handleV be ver db.nd r id) := by
  cases r with
  | blockWithTxHashes raw =>
    cases ver <;> simp only [handleD, handleV, (d8_blockMethods_u u id).1, d9_blockWithTxHashes_u u, d10_blockWithTxHashes_u u]
  | blockWithTxs raw =>
    cases ver <;> simp only [handleD, handleV, (d8_blockMethods_u u id).2.1, d9_blockWithTxs_u u, d10_blockWithTxs_u u]
  | blockWithReceipts raw =>
    cases ver <;> simp only [handleD, handleV, (d8_blockMethods_u u id).2.2.1, d9_blockWithReceipts_u u, d10_blockWithReceipts_u u wf]
  | blockTransactionCount raw =>
    cases ver <;> simp only [handleD, handleV, (d8_blockMethods_u u id).2.2.2, d9_blockTransactionCount_u u, d10_blockTransactionCount_u u]
  | stateUpdate raw f =>
    cases ver <;> simp only [handleD, handleV, d8_stateUpdate_u u, d9_stateUpdate_u u, d10_stateUpdate_u u]
  | transactionByBlockIdAndIndex raw i =>
    cases ver <;> simp only [handleD, handleV, d8_txByIdx_u u, d9_txByIdx_u u, d10_txByIdx_u u]
  | storageAt a k raw =>
    cases ver <;> simp only [handleD, handleV, (d8_stateMethods_u u ok be id a 0 k).2.2.2.2, (d9_stateMethods_u u ok be id a 0 k).2.2.2.2,
      (d10_stateMethods_u u ok be id a 0 k false).2.2.2.2]
  | storageAtWithLastUpdate a k raw =>
    simp only [handleD, handleV, (d10_stateMethods_u u ok be id a 0 k true).2.2.2.2]
  | nonce raw a =>
    cases ver <;> simp only [handleD, handleV, (d8_stateMethods_u u ok be id a 0 0).1, (d9_stateMethods_u u ok be id a 0 0).1,
      (d10_stateMethods_u u ok be id a 0 0 false).1]
  | classHashAt raw a =>
    cases ver <;> simp only [handleD, handleV, (d8_stateMethods_u u ok be id a 0 0).2.1, (d9_stateMethods_u u ok be id a 0 0).2.1,
      (d10_stateMethods_u u ok be id a 0 0 false).2.1]
  | classByHash raw c =>
    cases ver <;> simp only [handleD, handleV, (d8_stateMethods_u u ok be id 0 c 0).2.2.1, (d9_stateMethods_u u ok be id 0 c 0).2.2.1,
      (d10_stateMethods_u u ok be id 0 c 0 false).2.2.1]
  | classAt raw a =>
    cases ver <;> simp only [handleD, handleV, (d8_stateMethods_u u ok be id a 0 0).2.2.2.1, (d9_stateMethods_u u ok be id a 0 0).2.2.2.1,
      (d10_stateMethods_u u ok be id a 0 0 false).2.2.2.1]
  | blockNumber => rfl
  | blockHashAndNumber => rfl
  | transactionByHash h => rfl
  | transactionReceipt h => rfl
  | transactionStatus h => rfl

/-- On an unpruned database the record-level read path IS the list-level one. -/
theorem serveDb_u {db : Db} (u : db.Unpruned) (ok : BucketsOk db.nd) (wf : WellFormed db.nd) (cfg : Cfg) (be : Backend)
    (ver : Ver) (r : Request) : serveDb cfg be ver db r = .ans (serveV cfg be ver db.nd r) := by
  have hk := handleD_u u ok wf be ver r
  cases r with
  | blockNumber => simp only [serveDb, serveV, blockNumberD, blockNumberV, Db.height]; congr 1
  | blockHashAndNumber => simp only [serveDb, serveV, blockHashAndNumberD, blockHashAndNumberV, db_headsHeader_u u]; congr 1
  | transactionByHash h =>
    cases ver <;> simp only [serveDb, serveV, (d8_byHash_u u h).1, (d9_byHash_u u h).1, (d10_byHash_u u h).1]
  | transactionReceipt h =>
    cases ver <;> simp only [serveDb, serveV, (d8_byHash_u u h).2, (d9_byHash_u u h).2.1, (d10_byHash_u u h).2.1]
  | transactionStatus h =>
    cases ver <;> simp only [serveDb, serveV, d8_status_u u, (d9_byHash_u u h).2.2, (d10_byHash_u u h).2.2]
    congr 1
  | blockWithTxHashes raw => simp only [serveDb, serveV]; exact withIdD_ans _ _ _ _ _ _ hk
  | blockWithTxs raw => simp only [serveDb, serveV]; exact withIdD_ans _ _ _ _ _ _ hk
  | blockWithReceipts raw => simp only [serveDb, serveV]; exact withIdD_ans _ _ _ _ _ _ hk
  | blockTransactionCount raw => simp only [serveDb, serveV]; exact withIdD_ans _ _ _ _ _ _ hk
  | stateUpdate raw f => simp only [serveDb, serveV]; exact withIdD_ans _ _ _ _ _ _ hk
  | transactionByBlockIdAndIndex raw i =>
    simp only [serveDb, serveV]
    split
    · rfl
    · exact withIdD_ans _ _ _ _ _ _ hk
  | storageAt a k raw => simp only [serveDb, serveV]; exact withIdD_ans _ _ _ _ _ _ hk
  | storageAtWithLastUpdate a k raw =>
    cases ver <;> simp only [serveDb, serveV]
    exact withIdD_ans _ _ _ _ _ _ hk
  | nonce raw a => simp only [serveDb, serveV]; exact withIdD_ans _ _ _ _ _ _ hk
  | classHashAt raw a => simp only [serveDb, serveV]; exact withIdD_ans _ _ _ _ _ _ hk
  | classByHash raw c => simp only [serveDb, serveV]; exact withIdD_ans _ _ _ _ _ _ hk
  | classAt raw a => simp only [serveDb, serveV]; exact withIdD_ans _ _ _ _ _ _ hk

theorem transactionStatusDb_u {db : Db} (u : db.Unpruned) (ver : Ver) (env : Env) (h : Nat) :
    transactionStatusDb ver env db h = transactionStatusV ver env db.nd h := by
  cases ver <;> simp only [transactionStatusDb, transactionStatusV, d8_status_u u, d9_status_u u, d10_status_u u]

theorem serveFlaggedDb_u {db : Db} (u : db.Unpruned) (ok : BucketsOk db.nd) (wf : WellFormed db.nd) (cfg : Cfg) (be : Backend)
    (ver : Ver) (r : Request) (fl : RawFlags) :
    serveFlaggedDb cfg be ver db r fl = .ans (serveFlaggedV cfg be ver db.nd r fl) := by
  simp only [serveFlaggedDb, serveFlaggedV]
  cases flagOf ver r with
  | none => simp only []; split <;> simp [serveDb_u u ok wf]
  | some known =>
    simp only []
    cases decodeFlags known fl with
    | error e => rfl
    | ok set => cases r <;> simp only [serveDb_u u ok wf] <;> split <;> rfl

/-! ## Part 2: a history with prunes simulates the same history without them -/

/-- Block hashes whose hash-index entry the sweeps have deleted so far: those of the blocks below
`prunedBelow - 1`. -/
def Db.goneHashes (db : Db) : List Nat := (db.nd.chain.take (db.prunedBelow - 1)).map (·.hash)

/-- Transaction hashes whose index entry the sweeps have deleted: those of the blocks below
`prunedBelow`. -/
def Db.goneTxHashes (db : Db) : List Nat :=
  (db.nd.chain.take db.prunedBelow).flatMap (fun b => b.txs.map (·.hash))

/-- `db` is what the pruning node holds, `nd` what the same history leaves on a node that never
prunes: same chain and L1 head; the two hash-keyed buckets are `nd`'s minus the swept keys; the
head is retained; nothing was tampered with. -/
structure Sim (db : Db) (nd : Node) : Prop where
  chain : db.nd.chain = nd.chain
  l1 : db.nd.l1 = nd.l1
  l1z : db.nd.l1Zero = nd.l1Zero
  nbh : db.nd.numByHash = nd.numByHash.filter (fun x => !db.goneHashes.contains x.1)
  txl : db.nd.txLoc = nd.txLoc.filter (fun x => !db.goneTxHashes.contains x.1)
  head : db.prunedBelow = 0 ∨ db.prunedBelow < nd.chain.length
  nc : db.noCommit = []

/-- The retention floor, when seeded, is one below the oldest retained block. -/
def FloorOk (db : Db) : Prop := db.floor = none ∨ db.floor = some (db.prunedBelow - 1)

theorem sim_empty : Sim ({} : Db) ({} : Node) :=
  ⟨rfl, rfl, rfl, rfl, rfl, Or.inl rfl, rfl⟩

theorem store_cond_congr {nd1 nd2 : Node} (h : nd1.chain = nd2.chain) (b : Block) :
    (succeeds nd1 b && storageOk nd1 b) = (succeeds nd2 b && storageOk nd2 b) := by
  simp only [succeeds, storageOk, headNumberAndHash, h]

theorem freshBlock_congr {nd1 nd2 : Node} (h : nd1.chain = nd2.chain) (b : Block) : FreshBlock nd1 b ↔ FreshBlock nd2 b := by
  simp only [FreshBlock, h]

theorem mem_take_of {α : Type} {l : List α} {n : Nat} {x : α} (h : x ∈ l.take n) : x ∈ l := List.mem_of_mem_take h

theorem store_isSome_congr {nd1 nd2 : Node} (h : nd1.chain = nd2.chain) (b : Block) :
    (store nd1 b).isSome = (store nd2 b).isSome := by
  simp only [store, store_cond_congr h b]
  split <;> rfl

theorem gone_le {db : Db} {nd : Node} (s : Sim db nd) :
    db.prunedBelow - 1 ≤ db.nd.chain.length ∧ db.prunedBelow ≤ db.nd.chain.length := by
  rcases s.head with h0 | h1
  · omega
  · rw [s.chain]; omega

theorem sim_store {db : Db} {nd : Node} {b : Block} (s : Sim db nd) (fr : (store nd b).isSome → FreshBlock nd b) :
    Sim ((db.store b).getD db) ((store nd b).getD nd) := by
  have hi := store_isSome_congr s.chain b
  cases hs : store nd b with
  | none =>
    cases hd : store db.nd b with
    | some x => simp [hs, hd] at hi
    | none => simpa [Db.store, hd] using s
  | some nd' =>
    cases hd : store db.nd b with
    | none => simp [hs, hd] at hi
    | some dnd =>
      obtain ⟨c1, m1, t1, l1, z1⟩ := store_chain hs
      obtain ⟨c2, m2, t2, l2, z2⟩ := store_chain hd
      obtain ⟨fh, _, ft⟩ := fr (by simp [hs])
      obtain ⟨hle, hle2⟩ := gone_le s
      simp only [Db.store, hd, Option.getD_some]
      have hg : Db.goneHashes { db with nd := dnd, noCommit := db.noCommit.filter (· != b.number) } = db.goneHashes := by
        simp only [Db.goneHashes, c2, List.take_append_of_le_length hle]
      have hgt : Db.goneTxHashes { db with nd := dnd, noCommit := db.noCommit.filter (· != b.number) } = db.goneTxHashes := by
        simp only [Db.goneTxHashes, c2, List.take_append_of_le_length hle2]
      refine ⟨?_, ?_, ?_, ?_, ?_, ?_, ?_⟩
      · simp only [c1, c2, s.chain]
      · simp only [l1, l2, s.l1]
      · simp only [z1, z2, s.l1z]
      · rw [hg]
        have hb : db.goneHashes.contains b.hash = false := by
          rw [List.contains_eq_mem]
          simp only [decide_eq_false_iff_not, Db.goneHashes, List.mem_map, not_exists, not_and]
          intro x hx
          rw [s.chain] at hx
          exact fh x (List.mem_of_mem_take hx)
        simp only [m1, m2, List.filter_cons, hb, Bool.not_false, if_true, s.nbh]
      · rw [hgt]
        have hall : ∀ (ts : List Tx) (i0 : Nat), (∀ t ∈ ts, t ∈ b.txs) →
            (txEntries b.number i0 ts).filter (fun x => !db.goneTxHashes.contains x.1) = txEntries b.number i0 ts := by
          intro ts
          induction ts with
          | nil => intro _ _; rfl
          | cons t ts ih =>
            intro i0 hsub
            have ht : db.goneTxHashes.contains t.hash = false := by
              rw [List.contains_eq_mem]
              simp only [decide_eq_false_iff_not, Db.goneTxHashes, List.mem_flatMap, List.mem_map, not_exists, not_and]
              intro x hx u hu he
              rw [s.chain] at hx
              exact ft x (List.mem_of_mem_take hx) u hu t (hsub t (by simp)) he
            simp only [txEntries, List.filter_cons, ht, Bool.not_false, if_true]
            rw [ih (i0 + 1) (fun t' ht' => hsub t' (by simp [ht']))]
        simp only [t1, t2, List.filter_append, hall b.txs 0 (fun t ht => ht), s.txl]
      · rcases s.head with h0 | h1
        · exact Or.inl h0
        · right; simp only [c1, List.length_append, List.length_cons, List.length_nil]; omega
      · simp [s.nc]

theorem revert_isSome_congr {nd1 nd2 : Node} (h : nd1.chain = nd2.chain) : (revert nd1).isSome = (revert nd2).isSome := by
  have h1 := revert_isSome_iff nd1
  have h2 := revert_isSome_iff nd2
  rw [h] at h1
  cases ha : (revert nd1).isSome <;> cases hb : (revert nd2).isSome <;> simp_all

theorem filter_filter_comm {α : Type} (p q : α → Bool) (l : List α) :
    (l.filter p).filter q = (l.filter q).filter p := by
  simp only [List.filter_filter]
  congr 1
  funext a
  exact Bool.and_comm _ _

theorem sim_revert {db : Db} {nd : Node} (s : Sim db nd)
    (v : db.prunedBelow = 0 ∨ db.prunedBelow + 1 < db.nd.chain.length) :
    Sim ((db.revert).getD db) ((revert nd).getD nd) := by
  have hi := revert_isSome_congr s.chain
  cases hs : revert nd with
  | none =>
    cases hd : revert db.nd with
    | some x => simp [hs, hd] at hi
    | none => simpa [Db.revert, hd] using s
  | some nd' =>
    cases hd : revert db.nd with
    | none => simp [hs, hd] at hi
    | some dnd =>
      obtain ⟨b1, e1, c1, m1, t1, l1, z1⟩ := revert_chain hs
      obtain ⟨b2, e2, c2, m2, t2, l2, z2⟩ := revert_chain hd
      have hbb : b2 = b1 := by
        have h := s.chain
        rw [e1, e2, c1, c2, s.chain] at h
        have := List.append_inj_right' h rfl
        simpa using this
      subst hbb
      simp only [Db.revert, hd, Option.getD_some]
      have hlen : dnd.chain.length = db.nd.chain.length - 1 := by simp [c2]
      have htk : ∀ k, k ≤ db.nd.chain.length - 1 → dnd.chain.take k = db.nd.chain.take k := by
        intro k hk
        rw [c2, List.dropLast_eq_take, List.take_take]
        congr 1
        omega
      have hg : Db.goneHashes { db with nd := dnd } = db.goneHashes := by
        show (dnd.chain.take (db.prunedBelow - 1)).map (·.hash) = _
        rw [htk _ (by rcases v with h0 | h1 <;> omega)]
        rfl
      have hgt : Db.goneTxHashes { db with nd := dnd } = db.goneTxHashes := by
        show (dnd.chain.take db.prunedBelow).flatMap (fun b => b.txs.map (·.hash)) = _
        rw [htk _ (by rcases v with h0 | h1 <;> omega)]
        rfl
      refine ⟨?_, ?_, ?_, ?_, ?_, ?_, s.nc⟩
      · simp only [c1, c2, s.chain]
      · simp only [l1, l2, s.l1]
      · simp only [z1, z2, s.l1z]
      · rw [hg]
        simp only [m1, m2, s.nbh]
        exact filter_filter_comm _ _ _
      · rw [hgt]
        simp only [t1, t2, s.txl]
        exact filter_filter_comm _ _ _
      · rcases v with h0 | h1
        · exact Or.inl h0
        · right
          show db.prunedBelow < nd'.chain.length
          rw [c1, List.length_dropLast, ← s.chain]
          omega

theorem sim_setL1 {db : Db} {nd : Node} (s : Sim db nd) (l : Option Nat) :
    Sim { db with nd := setL1 db.nd l } (setL1 nd l) :=
  ⟨s.chain, rfl, rfl, s.nbh, s.txl, s.head, s.nc⟩

theorem sim_setL1Zero {db : Db} {nd : Node} (s : Sim db nd) :
    Sim { db with nd := setL1Zero db.nd } (setL1Zero nd) :=
  ⟨s.chain, rfl, rfl, s.nbh, s.txl, s.head, s.nc⟩

theorem take_split {α : Type} (l : List α) {k m : Nat} (h : k ≤ m) : l.take k ++ (l.take m).drop k = l.take m := by
  have : l.take k = (l.take m).take k := by
    rw [List.take_take]
    congr 1
    omega
  rw [this, List.take_append_drop]

theorem not_contains_append (l1 l2 : List Nat) (a : Nat) :
    (!(l1 ++ l2).contains a) = (!l1.contains a && !l2.contains a) := by
  simp [List.contains_eq_mem, List.mem_append, Bool.decide_or]

theorem pruneUpto_noop {db : Db} {e : Nat}
    (h : ¬ (db.prunedBelow < db.nd.chain.length ∧ db.prunedBelow < e ∧ e ≤ db.nd.chain.length)) : db.pruneUpto e = db := by
  simp only [Db.pruneUpto, Db.oldestRetained, Db.len]
  by_cases h1 : db.prunedBelow < db.nd.chain.length
  · have : e ≤ db.prunedBelow ∨ db.nd.chain.length < e := by omega
    rcases this with h2 | h2 <;> simp [h1, h2]
  · simp [h1]

theorem pruneUpto_act {db : Db} {e : Nat} (h1 : db.prunedBelow < db.nd.chain.length) (h3 : db.prunedBelow < e)
    (h4 : e ≤ db.nd.chain.length) :
    db.pruneUpto e =
      { db with prunedBelow := e,
                nd := { db.nd with numByHash := db.nd.numByHash.filter (fun x => !(db.sweptHashes db.prunedBelow e).contains x.1),
                                   txLoc := db.nd.txLoc.filter (fun x => !(db.sweptTxHashes db.prunedBelow e).contains x.1) } } := by
  have n1 : ¬ e ≤ db.prunedBelow := by omega
  have n2 : ¬ db.nd.chain.length < e := by omega
  simp [Db.pruneUpto, Db.oldestRetained, Db.len, h1, n1, n2]

theorem sim_prune {db : Db} {nd : Node} (s : Sim db nd) (e : Nat) (v : e < db.nd.chain.length) :
    Sim (db.pruneUpto e) nd ∧ (db.pruneUpto e).floor = db.floor ∧
      db.prunedBelow ≤ (db.pruneUpto e).prunedBelow := by
  by_cases hact : db.prunedBelow < db.nd.chain.length ∧ db.prunedBelow < e ∧ e ≤ db.nd.chain.length
  · obtain ⟨h1, h3, h4⟩ := hact
    rw [pruneUpto_act h1 h3 h4]
    refine ⟨⟨s.chain, s.l1, s.l1z, ?_, ?_, ?_, s.nc⟩, rfl, Nat.le_of_lt h3⟩
    · show db.nd.numByHash.filter _ = nd.numByHash.filter (fun x => !((db.nd.chain.take (e - 1)).map (·.hash)).contains x.1)
      simp only [Db.sweptHashes, s.nbh, List.filter_filter, Db.goneHashes]
      congr 1
      funext x
      have hm : (db.nd.chain.take (e - 1)).map (·.hash) =
          (db.nd.chain.take (db.prunedBelow - 1)).map (·.hash) ++ ((db.nd.chain.take (e - 1)).drop (db.prunedBelow - 1)).map (·.hash) := by
        rw [← List.map_append, take_split db.nd.chain (by omega)]
      rw [hm, not_contains_append, Bool.and_comm]
    · show db.nd.txLoc.filter _ = nd.txLoc.filter (fun x => !((db.nd.chain.take e).flatMap (fun b => b.txs.map (·.hash))).contains x.1)
      simp only [Db.sweptTxHashes, s.txl, List.filter_filter, Db.goneTxHashes]
      congr 1
      funext x
      have hm : (db.nd.chain.take e).flatMap (fun b => b.txs.map (·.hash)) =
          (db.nd.chain.take db.prunedBelow).flatMap (fun b => b.txs.map (·.hash)) ++
            ((db.nd.chain.take e).drop db.prunedBelow).flatMap (fun b => b.txs.map (·.hash)) := by
        rw [← List.flatMap_append, take_split db.nd.chain (by omega)]
      rw [hm, not_contains_append, Bool.and_comm]
    · right; show e < nd.chain.length; rw [← s.chain]; exact v
  · rw [pruneUpto_noop hact]
    exact ⟨s, rfl, Nat.le_refl _⟩

theorem sim_seed {db : Db} {nd : Node} (s : Sim db nd) : Sim db.seed nd :=
  ⟨s.chain, s.l1, s.l1z, s.nbh, s.txl, s.head, s.nc⟩

/-- Seeding (again) brings the floor to one below the oldest retained block, provided it was not
above that. -/
theorem seed_floor {db : Db} : db.seed.floor =
    some (match db.floor with
          | some g => max g (max (match db.oldestRetained with | some o => o | none => 0) 1 - 1)
          | none => max (match db.oldestRetained with | some o => o | none => 0) 1 - 1) := rfl

theorem seed_floorOk {db : Db} {nd : Node} (s : Sim db nd) (h : ∀ g, db.floor = some g → g ≤ db.prunedBelow - 1) :
    FloorOk db.seed := by
  right
  show db.seed.floor = some (db.prunedBelow - 1)
  rw [seed_floor]
  have ho : (match db.oldestRetained with | some o => o | none => 0) = db.prunedBelow := by
    simp only [Db.oldestRetained, Db.len]
    rcases s.head with h0 | h1
    · by_cases hl : db.prunedBelow < db.nd.chain.length
      · simp [hl]
      · have hl' : ¬ 0 < db.nd.chain.length := by rw [h0] at hl; exact hl
        simp [h0, hl']
    · rw [← s.chain] at h1
      simp [h1]
  rw [ho]
  cases hf : db.floor with
  | none => simp only []; congr 1; omega
  | some g => have := h g hf; simp only []; congr 1; omega

/-- Histories the theorems are about: every stored block is new to the chain when it is stored
(ideal hash, as in `FreshFrom`); the oldest retained block is never reverted (the pruner prunes
below the L1 head and L1-accepted blocks do not reorg); a prune keeps the head (the pruner's
floor is `min(L1 head, head) - retained`). -/
def ValidFrom : Db → List DOp → Prop
  | _, [] => True
  | db, op :: ops =>
    (match op with
     | .store b => (store db.nd b).isSome → FreshBlock db.nd b
     | .revert => db.prunedBelow = 0 ∨ db.prunedBelow + 1 < db.nd.chain.length
     | .prune e => e < db.nd.chain.length
     | _ => True) ∧ ValidFrom (applyDOp db op) ops

theorem db_store_keeps (db : Db) (b : Block) :
    ((db.store b).getD db).floor = db.floor ∧ ((db.store b).getD db).prunedBelow = db.prunedBelow := by
  simp only [Db.store]
  cases store db.nd b <;> exact ⟨rfl, rfl⟩

theorem db_revert_keeps (db : Db) :
    ((db.revert).getD db).floor = db.floor ∧ ((db.revert).getD db).prunedBelow = db.prunedBelow := by
  simp only [Db.revert]
  cases revert db.nd <;> exact ⟨rfl, rfl⟩

theorem floorOk_of_eq {db db' : Db} (f : FloorOk db) (h1 : db'.floor = db.floor) (h2 : db'.prunedBelow = db.prunedBelow) :
    FloorOk db' := by
  unfold FloorOk at *
  rw [h1, h2]; exact f

theorem sim_foldl (ops : List DOp) : ∀ (db : Db) (nd : Node), Sim db nd → FloorOk db → ValidFrom db ops →
    Sim (ops.foldl applyDOp db) ((plainOps ops).foldl applyOp nd) ∧ FloorOk (ops.foldl applyDOp db) ∧
      FreshFrom nd (plainOps ops) := by
  induction ops with
  | nil => intro db nd s f _; exact ⟨s, f, trivial⟩
  | cons op ops ih =>
    intro db nd s f v
    obtain ⟨v1, v2⟩ := v
    cases op with
    | store b =>
      have fr : (store nd b).isSome → FreshBlock nd b := by
        intro h
        rw [← store_isSome_congr s.chain b] at h
        exact (freshBlock_congr s.chain b).mp (v1 h)
      have s' := sim_store s fr
      obtain ⟨k1, k2⟩ := db_store_keeps db b
      obtain ⟨r1, r2, r3⟩ := ih _ _ s' (floorOk_of_eq f k1 k2) v2
      exact ⟨r1, r2, fr, r3⟩
    | revert =>
      have s' := sim_revert s v1
      obtain ⟨k1, k2⟩ := db_revert_keeps db
      obtain ⟨r1, r2, r3⟩ := ih _ _ s' (floorOk_of_eq f k1 k2) v2
      exact ⟨r1, r2, trivial, r3⟩
    | setL1 l =>
      obtain ⟨r1, r2, r3⟩ := ih _ _ (sim_setL1 s l) (floorOk_of_eq f rfl rfl) v2
      exact ⟨r1, r2, trivial, r3⟩
    | setL1Zero =>
      obtain ⟨r1, r2, r3⟩ := ih _ _ (sim_setL1Zero s) (floorOk_of_eq f rfl rfl) v2
      exact ⟨r1, r2, trivial, r3⟩
    | prune e =>
      obtain ⟨sp, hfl, hle⟩ := sim_prune s e v1
      have hstep : Sim (applyDOp db (.prune e)) nd ∧ FloorOk (applyDOp db (.prune e)) := by
        simp only [applyDOp]
        cases hf : db.floor with
        | none =>
          simp only [Option.isSome_none, Bool.false_eq_true, if_false]
          exact ⟨sp, Or.inl (by rw [hfl, hf])⟩
        | some g =>
          simp only [Option.isSome_some, if_true]
          refine ⟨sim_seed sp, seed_floorOk sp ?_⟩
          intro g' hg'
          rw [hfl, hf] at hg'
          cases hg'
          rcases f with f0 | f1
          · rw [hf] at f0; cases f0
          · rw [hf] at f1; cases f1; omega
      exact ih _ _ hstep.1 hstep.2 v2
    | seed =>
      have hstep : Sim (applyDOp db .seed) nd ∧ FloorOk (applyDOp db .seed) := by
        refine ⟨sim_seed s, seed_floorOk s ?_⟩
        intro g hg
        rcases f with f0 | f1
        · rw [hg] at f0; cases f0
        · rw [hg] at f1; cases f1; exact Nat.le_refl _
      exact ih _ _ hstep.1 hstep.2 v2

/-- Every valid history of a pruning node simulates the same history on a node that never prunes. -/
theorem runDb_sim (ops : List DOp) (v : ValidFrom {} ops) :
    Sim (runDb ops) (run (plainOps ops)) ∧ FloorOk (runDb ops) ∧ FreshFrom {} (plainOps ops) :=
  sim_foldl ops {} {} sim_empty (Or.inl rfl) v

/-! ## Part 3: what a pruned node answers -/

/-- `db` is a pruning node's database after a valid history, `nd` the never-pruned twin. -/
structure Pruned (db : Db) (nd : Node) : Prop where
  s : Sim db nd
  inv : Inv nd
  wf : WellFormed nd
  fo : FloorOk db

/-- A valid history of a pruning node ends in such a pair. -/
theorem runDb_pruned (ops : List DOp) (v : ValidFrom {} ops) : Pruned (runDb ops) (run (plainOps ops)) := by
  obtain ⟨s, f, fr⟩ := runDb_sim ops v
  exact ⟨s, run_inv _ fr, run_wellFormed _, f⟩

theorem find?_filter_key {β : Type} (g : List Nat) (x : Nat) : ∀ (l : List (Nat × β)),
    (l.filter (fun e => !g.contains e.1)).find? (fun e => e.1 == x) =
      if g.contains x then none else l.find? (fun e => e.1 == x) := by
  intro l
  induction l with
  | nil => simp
  | cons a l ih =>
    by_cases hx : (a.1 == x) = true
    · have hax : a.1 = x := by simpa using hx
      by_cases hg : g.contains x = true
      · have : g.contains a.1 = true := by rw [hax]; exact hg
        simp only [List.filter_cons, this, Bool.not_true, Bool.false_eq_true, if_false, ih, hg, if_true]
      · have hg' : g.contains x = false := by simpa using hg
        have : g.contains a.1 = false := by rw [hax]; exact hg'
        simp only [List.filter_cons, this, Bool.not_false, if_true, List.find?_cons, hx, hg', Bool.false_eq_true, if_false]
    · have hx' : (a.1 == x) = false := by simpa using hx
      by_cases hga : g.contains a.1 = true
      · simp only [List.filter_cons, hga, Bool.not_true, Bool.false_eq_true, if_false, ih, List.find?_cons, hx']
      · have hga' : g.contains a.1 = false := by simpa using hga
        simp only [List.filter_cons, hga', Bool.not_false, if_true, List.find?_cons, hx', ih]

section pruned
variable {db : Db} {nd : Node} (p : Pruned db nd)
include p

theorem pr_numberByHash_eq (x : Nat) :
    db.numberByHash x = if db.goneHashes.contains x then none else numberByHash nd x := by
  simp only [Db.numberByHash, numberByHash, p.s.nbh, find?_filter_key]
  split <;> rfl

theorem pr_txLoc_eq (x : Nat) :
    db.txLoc x = if db.goneTxHashes.contains x then none else numberAndIndexByTxHash nd x := by
  simp only [Db.txLoc, numberAndIndexByTxHash, p.s.txl, find?_filter_key]
  split <;> rfl

theorem pr_gone_iff {n : Nat} {b : Block} (hb : nd.chain[n]? = some b) :
    b.hash ∈ db.goneHashes ↔ n + 1 < db.prunedBelow := by
  simp only [Db.goneHashes, p.s.chain, List.mem_map]
  constructor
  · rintro ⟨c, hc, hh⟩
    obtain ⟨m, hm⟩ := List.getElem?_of_mem hc
    have hml : m < db.prunedBelow - 1 := by
      rcases Nat.lt_or_ge m (db.prunedBelow - 1) with h | h
      · exact h
      · exfalso
        have : (List.take (db.prunedBelow - 1) nd.chain).length ≤ m := by
          rw [List.length_take]; omega
        rw [List.getElem?_eq_none_iff.mpr this] at hm
        cases hm
    have hm' : nd.chain[m]? = some c := by
      rw [List.getElem?_take] at hm
      simpa [hml] using hm
    have e1 : (nd.chain.map (·.hash))[m]? = some b.hash := by simp [hm', hh]
    have e2 : (nd.chain.map (·.hash))[n]? = some b.hash := by simp [hb]
    have := nodup_getElem?_inj _ m n b.hash p.inv.2.1 e1 e2
    omega
  · intro h
    refine ⟨b, ?_, rfl⟩
    apply List.mem_of_getElem? (i := n)
    rw [List.getElem?_take]
    have : n < db.prunedBelow - 1 := by omega
    simp [this, hb]

theorem pr_chain : db.nd.chain = nd.chain := p.s.chain

theorem pr_head_retained : db.prunedBelow = 0 ∨ db.prunedBelow < nd.chain.length := p.s.head

theorem pr_height : db.height = height nd := by
  simp only [Db.height, height, p.s.chain]

theorem pr_height_retained {h : Nat} (hh : height nd = some h) : db.prunedBelow ≤ h := by
  simp only [height] at hh
  split at hh
  · cases hh
  · cases hh
    rcases p.s.head with h0 | h1 <;> omega

theorem pr_header_r {n : Nat} (h : db.prunedBelow ≤ n) : db.header n = blockByNumber nd n := by
  have : db.prunedBelow ≤ n + blockHashLag := by omega
  simp [Db.header, Db.headerKept, this, blockByNumber, p.s.chain]

theorem pr_body_r {n : Nat} (h : db.prunedBelow ≤ n) : db.body n = txsByNumber nd n := by
  simp [Db.body, Db.bodyKept, h, txsByNumber, blockByNumber, p.s.chain]

theorem pr_update_r {n : Nat} (h : db.prunedBelow ≤ n) : db.update n = stateUpdateByNumber nd n := by
  simp [Db.update, Db.bodyKept, h, stateUpdateByNumber, blockByNumber, p.s.chain]

theorem pr_hasCommit_r {n : Nat} (h : db.prunedBelow ≤ n) (hl : n < nd.chain.length) : db.hasCommit n = true := by
  simp [Db.hasCommit, Db.bodyKept, h, Db.len, p.s.chain, hl, p.s.nc]

theorem pr_blockByNumber_r {n : Nat} (h : db.prunedBelow ≤ n) : db.blockByNumber n = blockByNumber nd n := by
  simp only [Db.blockByNumber, pr_header_r p h, pr_body_r p h, txsByNumber, blockByNumber]
  cases nd.chain[n]? <;> simp

theorem pr_txCount_r {n : Nat} (h : db.prunedBelow ≤ n) : db.txCountByNumber n = txCountByNumber nd n := by
  simp [Db.txCountByNumber, pr_header_r p h, txCountByNumber]

theorem pr_txHashes_r {n : Nat} (h : db.prunedBelow ≤ n) : db.txHashesByNumber n = txHashesByNumber nd n := by
  simp only [Db.txHashesByNumber, pr_body_r p h, txHashesByNumber, txsByNumber]
  cases blockByNumber nd n <;> rfl

theorem pr_txs_r {n : Nat} (h : db.prunedBelow ≤ n) : db.txsByNumber n = txsByNumber nd n := by
  simp [Db.txsByNumber, pr_body_r p h]

theorem pr_txAt_r {n : Nat} (h : db.prunedBelow ≤ n) (i : Nat) : db.txByNumberAndIndex n i = txByNumberAndIndex nd n i := by
  simp only [Db.txByNumberAndIndex, pr_body_r p h, txsByNumber, txByNumberAndIndex]
  cases blockByNumber nd n <;> rfl

theorem pr_txAndBlockHash_r {n : Nat} (h : db.prunedBelow ≤ n) (i : Nat) : db.txAndBlockHash n i = txAndBlockHash nd n i := by
  simp only [Db.txAndBlockHash, pr_txAt_r p h, pr_header_r p h, txByNumberAndIndex, txAndBlockHash]
  cases blockByNumber nd n with
  | none => rfl
  | some b => cases h : b.txs[i]? <;> simp [h]

theorem pr_headsHeader : db.headsHeader = headBlock nd := by
  simp only [Db.headsHeader, pr_height p, headBlock]
  cases hh : height nd with
  | none => rfl
  | some h => simp [pr_header_r p (pr_height_retained p hh)]

theorem pr_head : db.head = headBlock nd := by
  simp only [Db.head, pr_height p, headBlock]
  cases hh : height nd with
  | none => rfl
  | some h => simp [pr_blockByNumber_r p (pr_height_retained p hh)]

omit p in
/-- Below the floor the number-keyed records are gone (the header: only below the ten-block
window). -/
theorem pr_body_p {n : Nat} (h : n < db.prunedBelow) :
    db.body n = none ∧ db.update n = none ∧ db.hasCommit n = false ∧ db.blockByNumber n = none ∧
      db.txHashesByNumber n = none ∧ db.txsByNumber n = none ∧ (∀ i, db.txByNumberAndIndex n i = none) := by
  have hb : db.bodyKept n = false := by simp [Db.bodyKept]; omega
  have h1 : db.body n = none := by simp [Db.body, hb]
  refine ⟨h1, by simp [Db.update, hb], by simp [Db.hasCommit, hb], ?_, by simp [Db.txHashesByNumber, h1],
    by simp [Db.txsByNumber, h1], fun i => by simp [Db.txByNumberAndIndex, h1]⟩
  simp only [Db.blockByNumber, h1]
  cases db.header n <;> rfl

theorem numberByHash_of_block {n : Nat} {b : Block} (hb : nd.chain[n]? = some b) : numberByHash nd b.hash = some n := by
  rw [p.inv.1.1]
  cases hf : nd.chain.findIdx? (fun c => c.hash == b.hash) with
  | none =>
    rw [List.findIdx?_eq_none_iff] at hf
    have := hf b (List.mem_of_getElem? hb)
    simp at this
  | some m =>
    obtain ⟨hl, hp, _⟩ := List.findIdx?_eq_some_iff_getElem.mp hf
    have e1 : (nd.chain.map (·.hash))[m]? = some b.hash := by
      have : nd.chain[m].hash = b.hash := by simpa using hp
      simp [hl, this]
    have e2 : (nd.chain.map (·.hash))[n]? = some b.hash := by simp [hb]
    rw [nodup_getElem?_inj _ m n b.hash p.inv.2.1 e1 e2]

/-- The hash index of a pruned node: the entry of block `n` is there iff `n ≥ prunedBelow - 1`. -/
theorem pr_numberByHash_block {n : Nat} {b : Block} (hb : nd.chain[n]? = some b) :
    db.numberByHash b.hash = if n + 1 < db.prunedBelow then none else some n := by
  rw [pr_numberByHash_eq p, List.contains_eq_mem, numberByHash_of_block p hb]
  by_cases h : n + 1 < db.prunedBelow
  · simp [(pr_gone_iff p hb).mpr h, h]
  · have : ¬ b.hash ∈ db.goneHashes := fun hm => h ((pr_gone_iff p hb).mp hm)
    simp [this, h]

/-- A hash that is on nobody's chain has no entry. -/
theorem pr_numberByHash_none {x : Nat} (h : numberByHash nd x = none) : db.numberByHash x = none := by
  rw [pr_numberByHash_eq p, h]; split <;> rfl

/-- An identifier by hash that does not point below the floor is looked up as on the twin. -/
theorem pr_numberByHash_r {x : Nat} (hx : ∀ n, numberByHash nd x = some n → db.prunedBelow ≤ n + 1) :
    db.numberByHash x = numberByHash nd x := by
  cases hq : numberByHash nd x with
  | none => exact pr_numberByHash_none p hq
  | some n =>
    obtain ⟨_, b, hb, hh⟩ := numberByHash_lt p.inv.1 hq
    subst hh
    rw [pr_numberByHash_block p hb]
    have := hx n hq
    have hn : ¬ n + 1 < db.prunedBelow := by omega
    simp [hn]

theorem pr_goneTx_iff {n : Nat} {b : Block} {t : Tx} (hb : nd.chain[n]? = some b) (ht : t ∈ b.txs) :
    t.hash ∈ db.goneTxHashes ↔ n < db.prunedBelow := by
  simp only [Db.goneTxHashes, p.s.chain, List.mem_flatMap, List.mem_map]
  constructor
  · rintro ⟨c, hc, u, hu, hh⟩
    obtain ⟨m, hm⟩ := List.getElem?_of_mem hc
    have hml : m < db.prunedBelow := by
      rcases Nat.lt_or_ge m db.prunedBelow with h | h
      · exact h
      · exfalso
        have : (List.take db.prunedBelow nd.chain).length ≤ m := by
          rw [List.length_take]; omega
        rw [List.getElem?_eq_none_iff.mpr this] at hm
        cases hm
    have hm' : nd.chain[m]? = some c := by
      rw [List.getElem?_take] at hm
      simpa [hml] using hm
    have hnd : (nd.chain.flatMap (fun b : Block => b.txs.map (fun t : Tx => t.hash))).Nodup := p.inv.2.2
    have := nodup_flatMap_index (fun b : Block => b.txs.map (fun t : Tx => t.hash)) nd.chain hnd m n c b t.hash hm' hb
      (List.mem_map.mpr ⟨u, hu, hh⟩) (List.mem_map.mpr ⟨t, ht, rfl⟩)
    omega
  · intro h
    refine ⟨b, ?_, t, ht, rfl⟩
    apply List.mem_of_getElem? (i := n)
    rw [List.getElem?_take]
    simp [h, hb]

/-- The transaction-hash index of a pruned node: the entries of block `n` are there iff
`n ≥ prunedBelow`. -/
theorem pr_txLoc_tx {n i : Nat} {b : Block} {t : Tx} (hb : nd.chain[n]? = some b) (ht : b.txs[i]? = some t) :
    db.txLoc t.hash = if n < db.prunedBelow then none else some (n, i) := by
  rw [pr_txLoc_eq p, List.contains_eq_mem, findTx_complete p.inv.1 p.wf p.inv.2.2 hb ht]
  have htm : t ∈ b.txs := List.mem_of_getElem? ht
  by_cases h : n < db.prunedBelow
  · simp [(pr_goneTx_iff p hb htm).mpr h, h]
  · have : ¬ t.hash ∈ db.goneTxHashes := fun hm => h ((pr_goneTx_iff p hb htm).mp hm)
    simp [this, h]

theorem pr_txLoc_none {x : Nat} (h : numberAndIndexByTxHash nd x = none) : db.txLoc x = none := by
  rw [pr_txLoc_eq p, h]; split <;> rfl

/-- The index entry of any transaction hash: that of the twin unless it points below the floor. -/
theorem pr_txLoc (x : Nat) :
    db.txLoc x = match numberAndIndexByTxHash nd x with
      | none => none
      | some (n, i) => if n < db.prunedBelow then none else some (n, i) := by
  cases hq : numberAndIndexByTxHash nd x with
  | none => exact pr_txLoc_none p hq
  | some q =>
    obtain ⟨n, i⟩ := q
    obtain ⟨b, t, hb, ht, hh⟩ := txLookup p.inv.1 p.wf hq
    subst hh
    exact pr_txLoc_tx p hb ht


theorem pr_headState (be : Backend) : db.headState be = headState nd := by
  cases be with
  | legacy => simp only [Db.headState, headState, p.s.chain]
  | new =>
    simp only [Db.headState, headState, pr_height p, p.s.chain]
    cases hh : height nd with
    | none =>
      have : nd.chain.isEmpty = true := by
        simp only [height] at hh
        split at hh
        · assumption
        · cases hh
      simp [this]
    | some h =>
      have hne : nd.chain.isEmpty = false := by
        simp only [height] at hh
        split at hh
        · cases hh
        · simpa using ‹¬ nd.chain.isEmpty = true›
      have hl : h < nd.chain.length := by
        simp only [height, hne] at hh
        cases hh
        have := length_pos_of_not_isEmpty (l := nd.chain) (by simp [hne])
        omega
      simp [pr_header_r p (pr_height_retained p hh), blockByNumber, hl, hne]

theorem pr_stateAtNumber_r {n : Nat} (h : db.prunedBelow ≤ n + 1) (be : Backend) :
    db.stateAtBlockNumber be n = stateAtBlockNumber nd n := by
  have hk : db.prunedBelow ≤ n + blockHashLag := by simp only [blockHashLag]; omega
  have hhdr : db.header n = nd.chain[n]? := by simp [Db.header, Db.headerKept, hk, p.s.chain]
  simp only [Db.stateAtBlockNumber, stateAtBlockNumber, stateAtNumber, Db.histAt, p.s.chain]
  rcases p.fo with hf | hf
  · rw [hf]
    simp only [hhdr]
    by_cases hn : n < nd.chain.length
    · have hb : nd.chain[n]? = some nd.chain[n] := by simp [hn]
      have hq := pr_numberByHash_block p hb
      have hnl : ¬ n + 1 < db.prunedBelow := by omega
      simp [hq, hnl, hn]
    · simp [hn]
  · rw [hf]
    have hnf : ¬ n < db.prunedBelow - 1 := by omega
    simp only [hnf, if_false]
    cases be with
    | legacy =>
      simp only [pr_height p, height]
      by_cases he : nd.chain.isEmpty
      · have : nd.chain.length = 0 := by simpa using he
        simp [he, this]
      · have hl := length_pos_of_not_isEmpty he
        by_cases hn : n < nd.chain.length
        · have : ¬ (nd.chain.length - 1 < n) := by omega
          simp [he, hn, this]
        · have : nd.chain.length - 1 < n := by omega
          simp [he, hn, this]
    | new =>
      simp only [hhdr]
      by_cases hn : n < nd.chain.length <;> simp [hn]

/-- Historical state below `prunedBelow - 1` is refused by both backends, whether the retention
floor is seeded or not. -/
theorem pr_stateAtNumber_p {n : Nat} (h : n + 1 < db.prunedBelow) (be : Backend) :
    db.stateAtBlockNumber be n = .error .blockNotFound := by
  simp only [Db.stateAtBlockNumber]
  rcases p.fo with hf | hf
  · rw [hf]
    simp only [Db.header]
    by_cases hk : db.headerKept n = true
    · simp only [hk, if_true, p.s.chain]
      cases hb : nd.chain[n]? with
      | none => rfl
      | some b => simp [pr_numberByHash_block p hb, h]
    · simp [hk]
  · rw [hf]
    have : n < db.prunedBelow - 1 := by omega
    simp [this]

theorem pr_stateAtHash_r {x : Nat} (hx : ∀ n, numberByHash nd x = some n → db.prunedBelow ≤ n + 1) (be : Backend) :
    db.stateAtBlockHash be x = stateAtBlockHash be nd x := by
  simp only [Db.stateAtBlockHash, stateAtBlockHash, pr_numberByHash_r p hx, stateAtNumber, Db.histAt, p.s.chain]
  by_cases h0 : (x == 0) = true
  · simp only [h0, if_true]
    cases be <;> rfl
  · simp only [h0, Bool.false_eq_true, if_false]
    cases hq : numberByHash nd x with
    | none => rfl
    | some n =>
      have hl := (numberByHash_lt p.inv.1 hq).1
      have hk : db.prunedBelow ≤ n + blockHashLag := by have := hx n hq; simp only [blockHashLag]; omega
      cases be with
      | legacy => simp [hl]
      | new => simp [Db.header, Db.headerKept, hk, p.s.chain, hl]

/-- A hash whose block lies below `prunedBelow - 1` has lost its index entry: no state by that hash. -/
theorem pr_stateAtHash_p {n : Nat} {b : Block} (hb : nd.chain[n]? = some b) (h : n + 1 < db.prunedBelow) (h0 : b.hash ≠ 0)
    (be : Backend) : db.stateAtBlockHash be b.hash = .error .blockNotFound := by
  have : (b.hash == 0) = false := by simpa using h0
  simp [Db.stateAtBlockHash, this, pr_numberByHash_block p hb, h]

end pruned

/-- An identifier that does not point at a pruned block: a number at or above the floor, a hash of
no block or of a block at or above the floor, `latest`, `l1_accepted` when the L1 head is at or above
the floor (the pruner never prunes above it), the tag of the block under construction. -/
def RetainedId (db : Db) (nd : Node) : BlockId → Prop
  | .number n => db.prunedBelow ≤ n
  | .hash x => ∀ n, numberByHash nd x = some n → db.prunedBelow ≤ n
  | .l1Accepted => ∀ n, l1AcceptedNumber nd = some n → db.prunedBelow ≤ n
  | .latest => True
  | .pre => True

theorem l1A_9 (nd : Node) : l1AcceptedNumber nd = V9.l1AcceptedBlockNumber nd := (l1Accepted_eq nd).1.symm
theorem l1A_10 (nd : Node) : l1AcceptedNumber nd = V10.l1AcceptedBlockNumber nd := (l1Accepted_eq nd).2.symm


/-- The weaker condition for the state methods: state is served from one block below the floor. -/
def RetainedStateId (db : Db) (nd : Node) : BlockId → Prop
  | .number n => db.prunedBelow ≤ n + 1
  | .hash x => ∀ n, numberByHash nd x = some n → db.prunedBelow ≤ n + 1
  | .l1Accepted => ∀ n, l1AcceptedNumber nd = some n → db.prunedBelow ≤ n + 1
  | .latest => True
  | .pre => True

theorem RetainedId.state {db : Db} {nd : Node} {id : BlockId} (r : RetainedId db nd id) : RetainedStateId db nd id := by
  cases id with
  | number n => exact Nat.le_succ_of_le r
  | hash x => exact fun n hn => Nat.le_succ_of_le (r n hn)
  | l1Accepted => exact fun n hn => Nat.le_succ_of_le (r n hn)
  | latest => trivial
  | pre => trivial

/-- A transaction hash that does not point into a pruned block. -/
def RetainedTx (db : Db) (nd : Node) (x : Nat) : Prop :=
  ∀ n i, numberAndIndexByTxHash nd x = some (n, i) → db.prunedBelow ≤ n

theorem v10_header_eq_block (nd : Node) (id : BlockId) : V10.blockHeaderByID nd id = V10.blockByID nd id := by
  cases id <;> rfl
theorem v9_header_eq_block (nd : Node) (id : BlockId) : V9.blockHeaderByID nd id = V9.blockByID nd id := by
  cases id <;> rfl

section pruned2
variable {db : Db} {nd : Node} (p : Pruned db nd)
include p

/-! ### retained identifiers: the pruned node answers as its never-pruned twin (rpc/v10) -/

theorem d10_l1_r : D10.l1AcceptedBlockNumber db = V10.l1AcceptedBlockNumber nd := by
  simp only [D10.l1AcceptedBlockNumber, V10.l1AcceptedBlockNumber, pr_height p, p.s.l1] <;> (first | done | mrfl)

theorem d10_blockStatus_r (n : Nat) : D10.blockStatus db n = V10.blockStatus nd n := by
  simp only [D10.blockStatus, V10.blockStatus, statusL1, p.s.l1, p.s.l1z] <;> (first | done | mrfl)

theorem d10_header_r (b : Block) : D10.header db b = V10.header nd b := by
  simp only [D10.header, V10.header, V10.blockStatus, statusL1, p.s.l1, p.s.l1z] <;> (first | done | mrfl)

theorem d10_blockHeaderByID_r {id : BlockId} (r : RetainedId db nd id) : D10.blockHeaderByID db id = V10.blockHeaderByID nd id := by
  cases id with
  | pre => rfl
  | latest => simp only [D10.blockHeaderByID, V10.blockHeaderByID, pr_headsHeader p] <;> (first | done | mrfl)
  | number n => simp only [D10.blockHeaderByID, V10.blockHeaderByID, pr_header_r p (show db.prunedBelow ≤ n from r)] <;> (first | done | mrfl)
  | hash x =>
    simp only [D10.blockHeaderByID, V10.blockHeaderByID, Db.headerByHash, blockByHash,
      pr_numberByHash_r p (fun n hn => Nat.le_succ_of_le (r n hn))]
    cases hq : numberByHash nd x with
    | none => rfl
    | some n => simp [pr_header_r p (r n hq)] <;> (first | done | mrfl)
  | l1Accepted =>
    simp only [D10.blockHeaderByID, V10.blockHeaderByID, d10_l1_r p]
    cases hq : V10.l1AcceptedBlockNumber nd with
    | none => rfl
    | some n => simp only [pr_header_r p (r n (by rw [l1A_10 nd]; exact hq))] <;> (first | done | mrfl)

theorem d10_blockByID_r {id : BlockId} (r : RetainedId db nd id) : D10.blockByID db id = V10.blockByID nd id := by
  cases id with
  | pre => rfl
  | latest => simp only [D10.blockByID, V10.blockByID, pr_head p] <;> (first | done | mrfl)
  | number n => simp only [D10.blockByID, V10.blockByID, pr_blockByNumber_r p (show db.prunedBelow ≤ n from r)] <;> (first | done | mrfl)
  | hash x =>
    simp only [D10.blockByID, V10.blockByID, Db.blockByHash, blockByHash,
      pr_numberByHash_r p (fun n hn => Nat.le_succ_of_le (r n hn))]
    cases hq : numberByHash nd x with
    | none => rfl
    | some n => simp [pr_blockByNumber_r p (r n hq)] <;> (first | done | mrfl)
  | l1Accepted =>
    simp only [D10.blockByID, V10.blockByID, d10_l1_r p]
    cases hq : V10.l1AcceptedBlockNumber nd with
    | none => rfl
    | some n => simp only [pr_blockByNumber_r p (r n (by rw [l1A_10 nd]; exact hq))] <;> (first | done | mrfl)

/-! ### retained identifiers: the pruned node answers as its never-pruned twin (rpc/v9) -/

theorem d9_l1_r : D9.l1AcceptedBlockNumber db = V9.l1AcceptedBlockNumber nd := by
  simp only [D9.l1AcceptedBlockNumber, V9.l1AcceptedBlockNumber, pr_height p, p.s.l1] <;> (first | done | mrfl)

theorem d9_blockStatus_r (n : Nat) : D9.blockStatus db n = V9.blockStatus nd n := by
  simp only [D9.blockStatus, V9.blockStatus, statusL1, p.s.l1, p.s.l1z] <;> (first | done | mrfl)

theorem d9_header_r (b : Block) : D9.header db b = V9.header nd b := by
  simp only [D9.header, V9.header, V9.blockStatus, statusL1, p.s.l1, p.s.l1z] <;> (first | done | mrfl)

theorem d9_blockHeaderByID_r {id : BlockId} (r : RetainedId db nd id) : D9.blockHeaderByID db id = V9.blockHeaderByID nd id := by
  cases id with
  | pre => rfl
  | latest => simp only [D9.blockHeaderByID, V9.blockHeaderByID, pr_headsHeader p] <;> (first | done | mrfl)
  | number n => simp only [D9.blockHeaderByID, V9.blockHeaderByID, pr_header_r p (show db.prunedBelow ≤ n from r)] <;> (first | done | mrfl)
  | hash x =>
    simp only [D9.blockHeaderByID, V9.blockHeaderByID, Db.headerByHash, blockByHash,
      pr_numberByHash_r p (fun n hn => Nat.le_succ_of_le (r n hn))]
    cases hq : numberByHash nd x with
    | none => rfl
    | some n => simp [pr_header_r p (r n hq)] <;> (first | done | mrfl)
  | l1Accepted =>
    simp only [D9.blockHeaderByID, V9.blockHeaderByID, d9_l1_r p]
    cases hq : V9.l1AcceptedBlockNumber nd with
    | none => rfl
    | some n => simp only [pr_header_r p (r n (by rw [l1A_9 nd]; exact hq))] <;> (first | done | mrfl)

theorem d9_blockByID_r {id : BlockId} (r : RetainedId db nd id) : D9.blockByID db id = V9.blockByID nd id := by
  cases id with
  | pre => rfl
  | latest => simp only [D9.blockByID, V9.blockByID, pr_head p] <;> (first | done | mrfl)
  | number n => simp only [D9.blockByID, V9.blockByID, pr_blockByNumber_r p (show db.prunedBelow ≤ n from r)] <;> (first | done | mrfl)
  | hash x =>
    simp only [D9.blockByID, V9.blockByID, Db.blockByHash, blockByHash,
      pr_numberByHash_r p (fun n hn => Nat.le_succ_of_le (r n hn))]
    cases hq : numberByHash nd x with
    | none => rfl
    | some n => simp [pr_blockByNumber_r p (r n hq)] <;> (first | done | mrfl)
  | l1Accepted =>
    simp only [D9.blockByID, V9.blockByID, d9_l1_r p]
    cases hq : V9.l1AcceptedBlockNumber nd with
    | none => rfl
    | some n => simp only [pr_blockByNumber_r p (r n (by rw [l1A_9 nd]; exact hq))] <;> (first | done | mrfl)

theorem v10_retained_number {id : BlockId} {hd : Block} (r : RetainedId db nd id) (hh : V10.blockByID nd id = .ok hd) :
    db.prunedBelow ≤ hd.number ∧ hd.number < nd.chain.length := by
  have key : ∀ n, nd.chain[n]? = some hd → db.prunedBelow ≤ n → db.prunedBelow ≤ hd.number ∧ hd.number < nd.chain.length := by
    intro n hn hE
    have e := p.wf n hd hn
    have hl := number_lt_of_getElem? p.wf hn
    omega
  cases id with
  | pre => simp [V10.blockByID] at hh
  | latest =>
    simp only [V10.blockByID, headBlock] at hh
    cases hq : height nd with
    | none => simp [hq] at hh
    | some h =>
      simp only [hq, Option.bind_some, blockByNumber] at hh
      cases hb : nd.chain[h]? with
      | none => simp [hb] at hh
      | some c => simp [hb] at hh; subst hh; exact key h hb (pr_height_retained p hq)
  | number n =>
    simp only [V10.blockByID, blockByNumber] at hh
    cases hb : nd.chain[n]? with
    | none => simp [hb] at hh
    | some c => simp [hb] at hh; subst hh; exact key n hb r
  | hash x =>
    simp only [V10.blockByID, blockByHash] at hh
    cases hq : numberByHash nd x with
    | none => simp [hq] at hh
    | some n =>
      simp only [hq, Option.bind_some, blockByNumber] at hh
      cases hb : nd.chain[n]? with
      | none => simp [hb] at hh
      | some c => simp [hb] at hh; subst hh; exact key n hb (r n hq)
  | l1Accepted =>
    simp only [V10.blockByID] at hh
    cases hq : V10.l1AcceptedBlockNumber nd with
    | none => simp [hq] at hh
    | some n =>
      simp only [hq, blockByNumber] at hh
      cases hb : nd.chain[n]? with
      | none => simp [hb] at hh
      | some c => simp [hb] at hh; subst hh; exact key n hb (r n (by rw [l1A_10 nd]; exact hq))

theorem d10_blockTransactionCount_r {id : BlockId} (r : RetainedId db nd id) :
    D10.blockTransactionCount db id = V10.blockTransactionCount nd id := by
  cases id with
  | pre => rfl
  | latest =>
    simp only [D10.blockTransactionCount, V10.blockTransactionCount, pr_height p]
    cases hq : height nd with
    | none => rfl
    | some h => simp only [pr_txCount_r p (pr_height_retained p hq)] <;> (first | done | mrfl)
  | number n => simp only [D10.blockTransactionCount, V10.blockTransactionCount, pr_txCount_r p (show db.prunedBelow ≤ n from r)] <;> (first | done | mrfl)
  | hash x =>
    simp only [D10.blockTransactionCount, V10.blockTransactionCount, pr_numberByHash_r p (fun n hn => Nat.le_succ_of_le (r n hn))]
    cases hq : numberByHash nd x with
    | none => rfl
    | some n => simp only [pr_txCount_r p (r n hq)] <;> (first | done | mrfl)
  | l1Accepted =>
    simp only [D10.blockTransactionCount, V10.blockTransactionCount, d10_l1_r p]
    cases hq : V10.l1AcceptedBlockNumber nd with
    | none => rfl
    | some n => simp only [pr_txCount_r p (r n (by rw [l1A_10 nd]; exact hq))] <;> (first | done | mrfl)

theorem d10_blockWithTxHashes_r {id : BlockId} (r : RetainedId db nd id) :
    D10.blockWithTxHashes db id = .ans (V10.blockWithTxHashes nd id) := by
  simp only [D10.blockWithTxHashes, V10.blockWithTxHashes, d10_blockHeaderByID_r p r]
  by_cases hp : (id == BlockId.pre) = true
  · simp [hp]
  · simp only [hp, Bool.false_eq_true, if_false]
    cases hh : V10.blockHeaderByID nd id with
    | error e => rfl
    | ok hd =>
      obtain ⟨hE, hl⟩ := v10_retained_number p r (by rw [← v10_header_eq_block]; exact hh)
      simp only [pr_txHashes_r p hE, d10_header_r p]
      cases txHashesByNumber nd hd.number with
      | none => rfl
      | some hs => simp [pr_hasCommit_r p hE hl]

theorem d10_blockWithTxs_r {id : BlockId} (r : RetainedId db nd id) :
    D10.blockWithTxs db id = .ans (V10.blockWithTxs nd id) := by
  simp only [D10.blockWithTxs, V10.blockWithTxs, d10_blockHeaderByID_r p r]
  by_cases hp : (id == BlockId.pre) = true
  · simp [hp]
  · simp only [hp, Bool.false_eq_true, if_false]
    cases hh : V10.blockHeaderByID nd id with
    | error e => rfl
    | ok hd =>
      obtain ⟨hE, hl⟩ := v10_retained_number p r (by rw [← v10_header_eq_block]; exact hh)
      simp only [pr_txs_r p hE, d10_header_r p]
      cases txsByNumber nd hd.number with
      | none => rfl
      | some hs => simp [pr_hasCommit_r p hE hl]

theorem d10_blockWithReceipts_r {id : BlockId} (r : RetainedId db nd id) :
    D10.blockWithReceipts db id = .ans (V10.blockWithReceipts nd id) := by
  simp only [D10.blockWithReceipts, V10.blockWithReceipts, d10_blockByID_r p r]
  cases hh : V10.blockByID nd id with
  | error e => rfl
  | ok b =>
    obtain ⟨hE, hl⟩ := v10_retained_number p r hh
    simp only [d10_header_r p, d10_blockStatus_r p]
    simp [pr_hasCommit_r p hE hl]

theorem d10_byHash_r {x : Nat} (r : RetainedTx db nd x) :
    D10.transactionByHash db x = V10.transactionByHash nd x ∧
    D10.transactionReceiptByHash db x = V10.transactionReceiptByHash nd x ∧
    D10.transactionStatusFromStore db x = V10.transactionStatusFromStore nd x := by
  have hloc : db.txLoc x = numberAndIndexByTxHash nd x := by
    rw [pr_txLoc p]
    cases hq : numberAndIndexByTxHash nd x with
    | none => rfl
    | some q =>
      obtain ⟨n, i⟩ := q
      have := r n i hq
      have hn : ¬ n < db.prunedBelow := by omega
      simp [hn]
  simp only [D10.transactionByHash, V10.transactionByHash, D10.transactionReceiptByHash, V10.transactionReceiptByHash,
    D10.transactionStatusFromStore, V10.transactionStatusFromStore, Db.txByHash, txByHash, hloc, d10_blockStatus_r p]
  cases hq : numberAndIndexByTxHash nd x with
  | none => exact ⟨rfl, rfl, rfl⟩
  | some q =>
    obtain ⟨n, i⟩ := q
    have hE := r n i hq
    simp only [Option.bind_some, pr_txAt_r p hE, pr_txAndBlockHash_r p hE]
    exact ⟨by mrfl, by mrfl, by mrfl⟩

theorem d10_status_r {x : Nat} (r : RetainedTx db nd x) (env : Env) :
    D10.transactionStatus env db x = V10.transactionStatus env nd x := by
  simp only [D10.transactionStatus, V10.transactionStatus, (d10_byHash_r p r).2.2]
  mrfl

theorem d10_txByIdx_r {id : BlockId} (r : RetainedId db nd id) (i : Int) :
    D10.transactionByBlockIDAndIndex db id i = V10.transactionByBlockIDAndIndex nd id i := by
  by_cases hi : i < 0
  · simp [D10.transactionByBlockIDAndIndex, V10.transactionByBlockIDAndIndex, hi]
  cases id with
  | pre => simp [D10.transactionByBlockIDAndIndex, V10.transactionByBlockIDAndIndex, hi]
  | latest =>
    simp only [D10.transactionByBlockIDAndIndex, V10.transactionByBlockIDAndIndex, hi, if_false, pr_headsHeader p]
    cases hq : headBlock nd with
    | none => rfl
    | some b =>
      obtain ⟨hE, _⟩ := v10_retained_number (id := .latest) (hd := b) p trivial (by simp [V10.blockByID, hq])
      simp only [Option.map_some, pr_txAt_r p hE] <;> (first | done | mrfl)
  | number n =>
    simp only [D10.transactionByBlockIDAndIndex, V10.transactionByBlockIDAndIndex, hi, if_false,
      pr_txAt_r p (show db.prunedBelow ≤ n from r)] <;> (first | done | mrfl)
  | hash x =>
    simp only [D10.transactionByBlockIDAndIndex, V10.transactionByBlockIDAndIndex, hi, if_false,
      pr_numberByHash_r p (fun n hn => Nat.le_succ_of_le (r n hn))]
    cases hq : numberByHash nd x with
    | none => rfl
    | some n => simp only [pr_txAt_r p (r n hq)] <;> (first | done | mrfl)
  | l1Accepted =>
    simp only [D10.transactionByBlockIDAndIndex, V10.transactionByBlockIDAndIndex, hi, if_false, d10_l1_r p]
    cases hq : V10.l1AcceptedBlockNumber nd with
    | none => rfl
    | some n => simp only [pr_txAt_r p (r n (by rw [l1A_10 nd]; exact hq))] <;> (first | done | mrfl)

theorem d10_stateUpdate_r {id : BlockId} (r : RetainedId db nd id) (f : List Nat) :
    D10.stateUpdate db id f = V10.stateUpdate nd id f := by
  cases id with
  | pre => rfl
  | latest =>
    simp only [D10.stateUpdate, V10.stateUpdate, pr_height p]
    cases hq : height nd with
    | none => rfl
    | some h => simp only [pr_update_r p (pr_height_retained p hq)] <;> (first | done | mrfl)
  | number n => simp only [D10.stateUpdate, V10.stateUpdate, pr_update_r p (show db.prunedBelow ≤ n from r)] <;> (first | done | mrfl)
  | hash x =>
    simp only [D10.stateUpdate, V10.stateUpdate, Db.updateByHash, stateUpdateByHash, blockByHash,
      pr_numberByHash_r p (fun n hn => Nat.le_succ_of_le (r n hn))]
    cases hq : numberByHash nd x with
    | none => rfl
    | some n => simp only [pr_update_r p (r n hq), stateUpdateByNumber, Option.bind_some] <;> (first | done | mrfl)
  | l1Accepted =>
    simp only [D10.stateUpdate, V10.stateUpdate, d10_l1_r p]
    cases hq : V10.l1AcceptedBlockNumber nd with
    | none => rfl
    | some n => simp only [pr_update_r p (r n (by rw [l1A_10 nd]; exact hq))] <;> (first | done | mrfl)

theorem d10_stateByBlockID_r {id : BlockId} (r : RetainedStateId db nd id) (be : Backend) :
    D10.stateByBlockID be db id = V10.stateByBlockID be nd id := by
  cases id with
  | pre => rfl
  | latest => simp only [D10.stateByBlockID, V10.stateByBlockID, pr_headState p] <;> (first | done | mrfl)
  | number n => simp only [D10.stateByBlockID, V10.stateByBlockID, pr_stateAtNumber_r p (show db.prunedBelow ≤ n + 1 from r)] <;> (first | done | mrfl)
  | hash x => simp only [D10.stateByBlockID, V10.stateByBlockID, pr_stateAtHash_r p r] <;> (first | done | mrfl)
  | l1Accepted =>
    simp only [D10.stateByBlockID, V10.stateByBlockID, d10_l1_r p]
    cases hq : V10.l1AcceptedBlockNumber nd with
    | none => rfl
    | some n => simp only [pr_stateAtNumber_r p (r n (by rw [l1A_10 nd]; exact hq))] <;> (first | done | mrfl)

theorem d10_stateMethods_r {id : BlockId} (r : RetainedStateId db nd id) (be : Backend) (a c k : Nat) (lu : Bool)
    (hlu : lu = false ∨ be = .new ∨ db.prunedBelow = 0) :
    D10.nonce be db id a = V10.nonce be nd id a ∧ D10.classHashAt be db id a = V10.classHashAt be nd id a ∧
    D10.classByHash be db id c = V10.classByHash be nd id c ∧ D10.classAt be db id a = V10.classAt be nd id a ∧
    D10.storageAt be db id a k lu = V10.storageAt be nd id a k lu := by
  have e := d10_stateByBlockID_r p r be
  have hn : D10.nonce be db id a = V10.nonce be nd id a := by simp only [D10.nonce, V10.nonce, e]; mrfl
  have hc : D10.classHashAt be db id a = V10.classHashAt be nd id a := by simp only [D10.classHashAt, V10.classHashAt, e]; mrfl
  have hb : ∀ c, D10.classByHash be db id c = V10.classByHash be nd id c := by
    intro c; simp only [D10.classByHash, V10.classByHash, e]; mrfl
  refine ⟨hn, hc, hb c, ?_, ?_⟩
  · simp only [D10.classAt, V10.classAt, hc]
    congr 1
    funext c
    exact hb c
  · have hl : lu = false ∨ ∀ bs, db.lastUpdate be bs a k = lastUpdateIn be bs a k := by
      rcases hlu with h | h | h
      · exact Or.inl h
      · right; intro bs; subst h; rfl
      · right; intro bs
        cases be with
        | legacy => simp [Db.lastUpdate, lastUpdateIn, lastLoggedIn, h, lastLoggedRevFrom_zero]
        | new => rfl
    simp only [D10.storageAt, V10.storageAt, D10.storageOf, e]
    rcases hl with h | h
    · subst h
      simp only [Bool.false_eq_true, if_false]
      mrfl
    · simp only [h]
      mrfl

theorem v9_retained_number {id : BlockId} {hd : Block} (r : RetainedId db nd id) (hh : V9.blockByID nd id = .ok hd) :
    db.prunedBelow ≤ hd.number ∧ hd.number < nd.chain.length := by
  have key : ∀ n, nd.chain[n]? = some hd → db.prunedBelow ≤ n → db.prunedBelow ≤ hd.number ∧ hd.number < nd.chain.length := by
    intro n hn hE
    have e := p.wf n hd hn
    have hl := number_lt_of_getElem? p.wf hn
    omega
  cases id with
  | pre => simp [V9.blockByID] at hh
  | latest =>
    simp only [V9.blockByID, headBlock] at hh
    cases hq : height nd with
    | none => simp [hq] at hh
    | some h =>
      simp only [hq, Option.bind_some, blockByNumber] at hh
      cases hb : nd.chain[h]? with
      | none => simp [hb] at hh
      | some c => simp [hb] at hh; subst hh; exact key h hb (pr_height_retained p hq)
  | number n =>
    simp only [V9.blockByID, blockByNumber] at hh
    cases hb : nd.chain[n]? with
    | none => simp [hb] at hh
    | some c => simp [hb] at hh; subst hh; exact key n hb r
  | hash x =>
    simp only [V9.blockByID, blockByHash] at hh
    cases hq : numberByHash nd x with
    | none => simp [hq] at hh
    | some n =>
      simp only [hq, Option.bind_some, blockByNumber] at hh
      cases hb : nd.chain[n]? with
      | none => simp [hb] at hh
      | some c => simp [hb] at hh; subst hh; exact key n hb (r n hq)
  | l1Accepted =>
    simp only [V9.blockByID] at hh
    cases hq : V9.l1AcceptedBlockNumber nd with
    | none => simp [hq] at hh
    | some n =>
      simp only [hq, blockByNumber] at hh
      cases hb : nd.chain[n]? with
      | none => simp [hb] at hh
      | some c => simp [hb] at hh; subst hh; exact key n hb (r n (by rw [l1A_9 nd]; exact hq))

theorem d9_blockTransactionCount_r {id : BlockId} (r : RetainedId db nd id) :
    D9.blockTransactionCount db id = V9.blockTransactionCount nd id := by
  cases id with
  | pre => rfl
  | latest =>
    simp only [D9.blockTransactionCount, V9.blockTransactionCount, pr_height p]
    cases hq : height nd with
    | none => rfl
    | some h => simp only [pr_txCount_r p (pr_height_retained p hq)] <;> (first | done | mrfl)
  | number n => simp only [D9.blockTransactionCount, V9.blockTransactionCount, pr_txCount_r p (show db.prunedBelow ≤ n from r)] <;> (first | done | mrfl)
  | hash x =>
    simp only [D9.blockTransactionCount, V9.blockTransactionCount, pr_numberByHash_r p (fun n hn => Nat.le_succ_of_le (r n hn))]
    cases hq : numberByHash nd x with
    | none => rfl
    | some n => simp only [pr_txCount_r p (r n hq)] <;> (first | done | mrfl)
  | l1Accepted =>
    simp only [D9.blockTransactionCount, V9.blockTransactionCount, d9_l1_r p]
    cases hq : V9.l1AcceptedBlockNumber nd with
    | none => rfl
    | some n => simp only [pr_txCount_r p (r n (by rw [l1A_9 nd]; exact hq))] <;> (first | done | mrfl)

theorem d9_blockWithTxHashes_r {id : BlockId} (r : RetainedId db nd id) :
    D9.blockWithTxHashes db id = (V9.blockWithTxHashes nd id) := by
  simp only [D9.blockWithTxHashes, V9.blockWithTxHashes, d9_blockHeaderByID_r p r]
  by_cases hp : (id == BlockId.pre) = true
  · simp [hp]
  · simp only [hp, Bool.false_eq_true, if_false]
    cases hh : V9.blockHeaderByID nd id with
    | error e => rfl
    | ok hd =>
      obtain ⟨hE, hl⟩ := v9_retained_number p r (by rw [← v9_header_eq_block]; exact hh)
      simp only [pr_txHashes_r p hE, d9_header_r p]
      cases txHashesByNumber nd hd.number with
      | none => rfl
      | some hs => rfl

theorem d9_blockWithTxs_r {id : BlockId} (r : RetainedId db nd id) :
    D9.blockWithTxs db id = (V9.blockWithTxs nd id) := by
  simp only [D9.blockWithTxs, V9.blockWithTxs, d9_blockHeaderByID_r p r]
  by_cases hp : (id == BlockId.pre) = true
  · simp [hp]
  · simp only [hp, Bool.false_eq_true, if_false]
    cases hh : V9.blockHeaderByID nd id with
    | error e => rfl
    | ok hd =>
      obtain ⟨hE, hl⟩ := v9_retained_number p r (by rw [← v9_header_eq_block]; exact hh)
      simp only [pr_txs_r p hE, d9_header_r p]
      cases txsByNumber nd hd.number with
      | none => rfl
      | some hs => rfl

theorem d9_blockWithReceipts_r {id : BlockId} (r : RetainedId db nd id) :
    D9.blockWithReceipts db id = (V9.blockWithReceipts nd id) := by
  simp only [D9.blockWithReceipts, V9.blockWithReceipts, d9_blockByID_r p r]
  cases hh : V9.blockByID nd id with
  | error e => rfl
  | ok b =>
    simp only [d9_header_r p, d9_blockStatus_r p]

theorem d9_byHash_r {x : Nat} (r : RetainedTx db nd x) :
    D9.transactionByHash db x = V9.transactionByHash nd x ∧
    D9.transactionReceiptByHash db x = V9.transactionReceiptByHash nd x ∧
    D9.transactionStatusFromStore db x = V9.transactionStatusFromStore nd x := by
  have hloc : db.txLoc x = numberAndIndexByTxHash nd x := by
    rw [pr_txLoc p]
    cases hq : numberAndIndexByTxHash nd x with
    | none => rfl
    | some q =>
      obtain ⟨n, i⟩ := q
      have := r n i hq
      have hn : ¬ n < db.prunedBelow := by omega
      simp [hn]
  simp only [D9.transactionByHash, V9.transactionByHash, D9.transactionReceiptByHash, V9.transactionReceiptByHash,
    D9.transactionStatusFromStore, V9.transactionStatusFromStore, Db.txByHash, txByHash, hloc, d9_blockStatus_r p]
  cases hq : numberAndIndexByTxHash nd x with
  | none => exact ⟨rfl, rfl, rfl⟩
  | some q =>
    obtain ⟨n, i⟩ := q
    have hE := r n i hq
    simp only [Option.bind_some, pr_txAt_r p hE, pr_txAndBlockHash_r p hE]
    exact ⟨by mrfl, by mrfl, by mrfl⟩

theorem d9_status_r {x : Nat} (r : RetainedTx db nd x) (env : Env) :
    D9.transactionStatus env db x = V9.transactionStatus env nd x := by
  simp only [D9.transactionStatus, V9.transactionStatus, (d9_byHash_r p r).2.2]
  mrfl

theorem d9_txByIdx_r {id : BlockId} (r : RetainedId db nd id) (i : Int) :
    D9.transactionByBlockIDAndIndex db id i = V9.transactionByBlockIDAndIndex nd id i := by
  by_cases hi : i < 0
  · simp [D9.transactionByBlockIDAndIndex, V9.transactionByBlockIDAndIndex, hi]
  cases id with
  | pre => simp [D9.transactionByBlockIDAndIndex, V9.transactionByBlockIDAndIndex, hi]
  | latest =>
    simp only [D9.transactionByBlockIDAndIndex, V9.transactionByBlockIDAndIndex, hi, if_false, pr_headsHeader p]
    cases hq : headBlock nd with
    | none => rfl
    | some b =>
      obtain ⟨hE, _⟩ := v9_retained_number (id := .latest) (hd := b) p trivial (by simp [V9.blockByID, hq])
      simp only [Option.map_some, pr_txAt_r p hE] <;> (first | done | mrfl)
  | number n =>
    simp only [D9.transactionByBlockIDAndIndex, V9.transactionByBlockIDAndIndex, hi, if_false,
      pr_txAt_r p (show db.prunedBelow ≤ n from r)] <;> (first | done | mrfl)
  | hash x =>
    simp only [D9.transactionByBlockIDAndIndex, V9.transactionByBlockIDAndIndex, hi, if_false,
      pr_numberByHash_r p (fun n hn => Nat.le_succ_of_le (r n hn))]
    cases hq : numberByHash nd x with
    | none => rfl
    | some n => simp only [pr_txAt_r p (r n hq)] <;> (first | done | mrfl)
  | l1Accepted =>
    simp only [D9.transactionByBlockIDAndIndex, V9.transactionByBlockIDAndIndex, hi, if_false, d9_l1_r p]
    cases hq : V9.l1AcceptedBlockNumber nd with
    | none => rfl
    | some n => simp only [pr_txAt_r p (r n (by rw [l1A_9 nd]; exact hq))] <;> (first | done | mrfl)

theorem d9_stateUpdate_r {id : BlockId} (r : RetainedId db nd id) :
    D9.stateUpdate db id = V9.stateUpdate nd id := by
  cases id with
  | pre => rfl
  | latest =>
    simp only [D9.stateUpdate, V9.stateUpdate, pr_height p]
    cases hq : height nd with
    | none => rfl
    | some h => simp only [pr_update_r p (pr_height_retained p hq)] <;> (first | done | mrfl)
  | number n => simp only [D9.stateUpdate, V9.stateUpdate, pr_update_r p (show db.prunedBelow ≤ n from r)] <;> (first | done | mrfl)
  | hash x =>
    simp only [D9.stateUpdate, V9.stateUpdate, Db.updateByHash, stateUpdateByHash, blockByHash,
      pr_numberByHash_r p (fun n hn => Nat.le_succ_of_le (r n hn))]
    cases hq : numberByHash nd x with
    | none => rfl
    | some n => simp only [pr_update_r p (r n hq), stateUpdateByNumber, Option.bind_some] <;> (first | done | mrfl)
  | l1Accepted =>
    simp only [D9.stateUpdate, V9.stateUpdate, d9_l1_r p]
    cases hq : V9.l1AcceptedBlockNumber nd with
    | none => rfl
    | some n => simp only [pr_update_r p (r n (by rw [l1A_9 nd]; exact hq))] <;> (first | done | mrfl)

theorem d9_stateByBlockID_r {id : BlockId} (r : RetainedStateId db nd id) (be : Backend) :
    D9.stateByBlockID be db id = V9.stateByBlockID be nd id := by
  cases id with
  | pre => rfl
  | latest => simp only [D9.stateByBlockID, V9.stateByBlockID, pr_headState p] <;> (first | done | mrfl)
  | number n => simp only [D9.stateByBlockID, V9.stateByBlockID, pr_stateAtNumber_r p (show db.prunedBelow ≤ n + 1 from r)] <;> (first | done | mrfl)
  | hash x => simp only [D9.stateByBlockID, V9.stateByBlockID, pr_stateAtHash_r p r] <;> (first | done | mrfl)
  | l1Accepted =>
    simp only [D9.stateByBlockID, V9.stateByBlockID, d9_l1_r p]
    cases hq : V9.l1AcceptedBlockNumber nd with
    | none => rfl
    | some n => simp only [pr_stateAtNumber_r p (r n (by rw [l1A_9 nd]; exact hq))] <;> (first | done | mrfl)

theorem d9_stateMethods_r {id : BlockId} (r : RetainedStateId db nd id) (be : Backend) (a c k : Nat) :
    D9.nonce be db id a = V9.nonce be nd id a ∧ D9.classHashAt be db id a = V9.classHashAt be nd id a ∧
    D9.classByHash be db id c = V9.classByHash be nd id c ∧ D9.classAt be db id a = V9.classAt be nd id a ∧
    D9.storageAt be db id a k = V9.storageAt be nd id a k := by
  have e := d9_stateByBlockID_r p r be
  have hn : D9.nonce be db id a = V9.nonce be nd id a := by simp only [D9.nonce, V9.nonce, e]; mrfl
  have hc : D9.classHashAt be db id a = V9.classHashAt be nd id a := by simp only [D9.classHashAt, V9.classHashAt, e]; mrfl
  have hb : ∀ c, D9.classByHash be db id c = V9.classByHash be nd id c := by
    intro c; simp only [D9.classByHash, V9.classByHash, e]; mrfl
  refine ⟨hn, hc, hb c, ?_, ?_⟩
  · simp only [D9.classAt, V9.classAt, hc]
    congr 1
    funext c
    exact hb c
  · simp only [D9.storageAt, V9.storageAt, e]
    mrfl

/-! rpc/v8 on retained identifiers -/

theorem pr_header_lag {m : Nat} (h : db.prunedBelow ≤ m + blockHashLag) : db.header m = blockByNumber nd m := by
  simp [Db.header, Db.headerKept, h, blockByNumber, p.s.chain] <;> (first | done | mrfl)

theorem headBlock_number {h : Block} (hq : headBlock nd = some h) : h.number + 1 = nd.chain.length := by
  simp only [headBlock, height] at hq
  by_cases he : nd.chain.isEmpty
  · simp [he] at hq
  · have hl := length_pos_of_not_isEmpty he
    simp only [he, Bool.false_eq_true, if_false, Option.bind_some, blockByNumber] at hq
    have := p.wf _ h hq
    omega

theorem d8_pending_r : D8.pending db = V8.pending nd := by
  simp only [D8.pending, V8.pending, pr_headsHeader p]
  cases hq : headBlock nd with
  | none => rfl
  | some h =>
    have hn := headBlock_number p hq
    by_cases hl : h.number + 1 < blockHashLag
    · simp [hl]
    · have hk : db.prunedBelow ≤ (h.number + 1 - blockHashLag) + blockHashLag := by
        rcases p.s.head with h0 | h1 <;> omega
      simp only [hl, if_false, pr_header_lag p hk]
      mrfl

theorem d8_blockStatus_r (n : Nat) : D8.blockStatus db n = V8.blockStatus nd n := by
  simp only [D8.blockStatus, V8.blockStatus, statusL1, p.s.l1, p.s.l1z] <;> (first | done | mrfl)

theorem d8_header_r (b : Block) : D8.header db b = V8.header nd b := by
  simp only [D8.header, V8.header, V8.blockStatus, statusL1, p.s.l1, p.s.l1z] <;> (first | done | mrfl)

theorem d8_blockHeaderByID_r {id : BlockId} (r : RetainedId db nd id) : D8.blockHeaderByID db id = V8.blockHeaderByID nd id := by
  cases id with
  | pre => simp only [D8.blockHeaderByID, V8.blockHeaderByID, d8_pending_r p] <;> (first | done | mrfl)
  | latest => simp only [D8.blockHeaderByID, V8.blockHeaderByID, pr_headsHeader p] <;> (first | done | mrfl)
  | number n => simp only [D8.blockHeaderByID, V8.blockHeaderByID, pr_header_r p (show db.prunedBelow ≤ n from r)] <;> (first | done | mrfl)
  | hash x =>
    simp only [D8.blockHeaderByID, V8.blockHeaderByID, Db.headerByHash, blockByHash,
      pr_numberByHash_r p (fun n hn => Nat.le_succ_of_le (r n hn))]
    cases hq : numberByHash nd x with
    | none => rfl
    | some n => simp [pr_header_r p (r n hq)] <;> (first | done | mrfl)
  | l1Accepted => rfl

theorem d8_blockByID_r {id : BlockId} (r : RetainedId db nd id) : D8.blockByID db id = V8.blockByID nd id := by
  cases id with
  | pre => simp only [D8.blockByID, V8.blockByID, d8_pending_r p] <;> (first | done | mrfl)
  | latest => simp only [D8.blockByID, V8.blockByID, pr_head p] <;> (first | done | mrfl)
  | number n => simp only [D8.blockByID, V8.blockByID, pr_blockByNumber_r p (show db.prunedBelow ≤ n from r)] <;> (first | done | mrfl)
  | hash x =>
    simp only [D8.blockByID, V8.blockByID, Db.blockByHash, blockByHash,
      pr_numberByHash_r p (fun n hn => Nat.le_succ_of_le (r n hn))]
    cases hq : numberByHash nd x with
    | none => rfl
    | some n => simp [pr_blockByNumber_r p (r n hq)] <;> (first | done | mrfl)
  | l1Accepted => rfl

/-- A stored header a retained identifier leads to is that of a retained block. -/
theorem v8_retained_number {id : BlockId} {hd : Block} (r : RetainedId db nd id) (hh : V8.blockHeaderByID nd id = .ok (.stored hd)) :
    db.prunedBelow ≤ hd.number ∧ hd.number < nd.chain.length := by
  have key : ∀ n, nd.chain[n]? = some hd → db.prunedBelow ≤ n → db.prunedBelow ≤ hd.number ∧ hd.number < nd.chain.length := by
    intro n hn hE
    have e := p.wf n hd hn
    have hl := number_lt_of_getElem? p.wf hn
    omega
  cases id with
  | pre =>
    simp only [V8.blockHeaderByID] at hh
    cases hp : V8.pending nd with
    | none => simp [hp] at hh
    | some q =>
      simp only [hp] at hh
      simp only [V8.pending] at hp
      cases hq : headBlock nd with
      | none => simp [hq] at hp
      | some c =>
        simp only [hq] at hp
        split at hp
        · cases hp; cases hh
        · split at hp
          · cases hp; cases hh
          · cases hp
  | latest =>
    simp only [V8.blockHeaderByID, headBlock] at hh
    cases hq : height nd with
    | none => simp [hq] at hh
    | some h =>
      simp only [hq, Option.bind_some, blockByNumber] at hh
      cases hb : nd.chain[h]? with
      | none => simp [hb] at hh
      | some c => simp [hb] at hh; subst hh; exact key h hb (pr_height_retained p hq)
  | number n =>
    simp only [V8.blockHeaderByID, blockByNumber] at hh
    cases hb : nd.chain[n]? with
    | none => simp [hb] at hh
    | some c => simp [hb] at hh; subst hh; exact key n hb r
  | hash x =>
    simp only [V8.blockHeaderByID, blockByHash] at hh
    cases hq : numberByHash nd x with
    | none => simp [hq] at hh
    | some n =>
      simp only [hq, Option.bind_some, blockByNumber] at hh
      cases hb : nd.chain[n]? with
      | none => simp [hb] at hh
      | some c => simp [hb] at hh; subst hh; exact key n hb (r n hq)
  | l1Accepted => simp [V8.blockHeaderByID] at hh

theorem d8_blockTxns_number_r {n : Nat} (h : db.prunedBelow ≤ n) :
    D8.blockTxnsByNumber db (.number n) = V8.blockTxnsByNumber nd (.number n) := by
  simp only [D8.blockTxnsByNumber, V8.blockTxnsByNumber, pr_txs_r p h] <;> (first | done | mrfl)

theorem d8_blockTxns_pre_r : D8.blockTxnsByNumber db .pre = V8.blockTxnsByNumber nd .pre := by
  simp only [D8.blockTxnsByNumber, V8.blockTxnsByNumber, d8_pending_r p] <;> (first | done | mrfl)

theorem d8_blockMethods_r {id : BlockId} (r : RetainedId db nd id) :
    D8.blockWithTxHashes db id = V8.blockWithTxHashes nd id ∧ D8.blockWithTxs db id = V8.blockWithTxs nd id ∧
    D8.blockWithReceipts db id = V8.blockWithReceipts nd id ∧
    D8.blockTransactionCount db id = V8.blockTransactionCount nd id := by
  have hh := d8_blockHeaderByID_r p r
  have htx : ∀ hd, V8.blockHeaderByID nd id = .ok hd →
      D8.blockTxnsByNumber db (if id == .pre then id else BlockId.number hd.number) =
        V8.blockTxnsByNumber nd (if id == .pre then id else BlockId.number hd.number) := by
    intro hd hq
    by_cases hp : (id == BlockId.pre) = true
    · have : id = .pre := by simpa using hp
      subst this
      simp only [beq_self_eq_true, if_true]
      exact d8_blockTxns_pre_r p
    · simp only [hp, Bool.false_eq_true, if_false]
      cases hd with
      | stored b => exact d8_blockTxns_number_r p (v8_retained_number p r hq).1
      | pending q m =>
        -- a pending header only comes from the `pending` tag
        exfalso
        cases id with
        | pre => simp at hp
        | latest => simp only [V8.blockHeaderByID] at hq; split at hq <;> cases hq
        | number n => simp only [V8.blockHeaderByID] at hq; split at hq <;> cases hq
        | hash x => simp only [V8.blockHeaderByID] at hq; split at hq <;> cases hq
        | l1Accepted => simp [V8.blockHeaderByID] at hq
  refine ⟨?_, ?_, ?_, ?_⟩
  · simp only [D8.blockWithTxHashes, V8.blockWithTxHashes, hh]
    cases hq : V8.blockHeaderByID nd id with
    | error e => rfl
    | ok hd => simp only [htx hd hq, d8_header_r p]; mrfl
  · simp only [D8.blockWithTxs, V8.blockWithTxs, hh]
    cases hq : V8.blockHeaderByID nd id with
    | error e => rfl
    | ok hd => simp only [htx hd hq, d8_header_r p]; mrfl
  · simp only [D8.blockWithReceipts, V8.blockWithReceipts, d8_blockByID_r p r, d8_header_r p, d8_blockStatus_r p]
    mrfl
  · simp only [D8.blockTransactionCount, V8.blockTransactionCount, hh]
    mrfl

theorem d8_byHash_r {x : Nat} (r : RetainedTx db nd x) :
    D8.transactionByHash db x = V8.transactionByHash nd x ∧
    D8.transactionReceiptByHash db x = V8.transactionReceiptByHash nd x := by
  have hloc : db.txLoc x = numberAndIndexByTxHash nd x := by
    rw [pr_txLoc p]
    cases hq : numberAndIndexByTxHash nd x with
    | none => rfl
    | some q =>
      obtain ⟨n, i⟩ := q
      have := r n i hq
      have hn : ¬ n < db.prunedBelow := by omega
      simp [hn]
  simp only [D8.transactionByHash, V8.transactionByHash, D8.transactionReceiptByHash, V8.transactionReceiptByHash,
    Db.txByHash, txByHash, hloc, d8_blockStatus_r p]
  cases hq : numberAndIndexByTxHash nd x with
  | none => exact ⟨rfl, rfl⟩
  | some q =>
    obtain ⟨n, i⟩ := q
    have hE := r n i hq
    simp only [Option.bind_some, pr_txAt_r p hE, pr_txAndBlockHash_r p hE]
    exact ⟨by mrfl, by mrfl⟩

theorem d8_status_r {x : Nat} (r : RetainedTx db nd x) (env : Env) :
    D8.transactionStatus env db x = V8.transactionStatus env nd x := by
  simp only [D8.transactionStatus, V8.transactionStatus, (d8_byHash_r p r).2]
  mrfl

theorem d8_txByIdx_r {id : BlockId} (r : RetainedId db nd id) (i : Int) :
    D8.transactionByBlockIDAndIndex db id i = V8.transactionByBlockIDAndIndex nd id i := by
  by_cases hi : i < 0
  · simp [D8.transactionByBlockIDAndIndex, V8.transactionByBlockIDAndIndex, hi]
  cases id with
  | pre => simp only [D8.transactionByBlockIDAndIndex, V8.transactionByBlockIDAndIndex, hi, if_false, d8_pending_r p] <;> (first | done | mrfl)
  | l1Accepted => simp [D8.transactionByBlockIDAndIndex, V8.transactionByBlockIDAndIndex, hi] <;> (first | done | mrfl)
  | latest =>
    simp only [D8.transactionByBlockIDAndIndex, V8.transactionByBlockIDAndIndex, hi, if_false, pr_headsHeader p]
    cases hq : headBlock nd with
    | none => rfl
    | some b =>
      have hn := headBlock_number p hq
      have hE : db.prunedBelow ≤ b.number := by rcases p.s.head with h0 | h1 <;> omega
      simp only [Option.map_some, pr_txAt_r p hE] <;> (first | done | mrfl)
  | number n =>
    simp only [D8.transactionByBlockIDAndIndex, V8.transactionByBlockIDAndIndex, hi, if_false,
      pr_txAt_r p (show db.prunedBelow ≤ n from r)] <;> (first | done | mrfl)
  | hash x =>
    simp only [D8.transactionByBlockIDAndIndex, V8.transactionByBlockIDAndIndex, hi, if_false,
      pr_numberByHash_r p (fun n hn => Nat.le_succ_of_le (r n hn))]
    cases hq : numberByHash nd x with
    | none => rfl
    | some n => simp only [pr_txAt_r p (r n hq)] <;> (first | done | mrfl)

theorem d8_stateUpdate_r {id : BlockId} (r : RetainedId db nd id) :
    D8.stateUpdate db id = V8.stateUpdate nd id := by
  cases id with
  | pre => simp only [D8.stateUpdate, V8.stateUpdate, d8_pending_r p] <;> (first | done | mrfl)
  | l1Accepted => rfl
  | latest =>
    simp only [D8.stateUpdate, V8.stateUpdate, pr_height p]
    cases hq : height nd with
    | none => rfl
    | some h => simp only [pr_update_r p (pr_height_retained p hq)] <;> (first | done | mrfl)
  | number n => simp only [D8.stateUpdate, V8.stateUpdate, pr_update_r p (show db.prunedBelow ≤ n from r)] <;> (first | done | mrfl)
  | hash x =>
    simp only [D8.stateUpdate, V8.stateUpdate, Db.updateByHash, stateUpdateByHash, blockByHash,
      pr_numberByHash_r p (fun n hn => Nat.le_succ_of_le (r n hn))]
    cases hq : numberByHash nd x with
    | none => rfl
    | some n => simp only [pr_update_r p (r n hq), stateUpdateByNumber, Option.bind_some] <;> (first | done | mrfl)

theorem d8_stateByBlockID_r {id : BlockId} (r : RetainedStateId db nd id) (be : Backend) :
    D8.stateByBlockID be db id = V8.stateByBlockID be nd id := by
  cases id with
  | pre => simp only [D8.stateByBlockID, V8.stateByBlockID, pr_headState p] <;> (first | done | mrfl)
  | latest => simp only [D8.stateByBlockID, V8.stateByBlockID, pr_headState p] <;> (first | done | mrfl)
  | number n => simp only [D8.stateByBlockID, V8.stateByBlockID, pr_stateAtNumber_r p (show db.prunedBelow ≤ n + 1 from r)] <;> (first | done | mrfl)
  | hash x => simp only [D8.stateByBlockID, V8.stateByBlockID, pr_stateAtHash_r p r] <;> (first | done | mrfl)
  | l1Accepted => rfl

theorem d8_stateMethods_r {id : BlockId} (r : RetainedStateId db nd id) (be : Backend) (a c k : Nat) :
    D8.nonce be db id a = V8.nonce be nd id a ∧ D8.classHashAt be db id a = V8.classHashAt be nd id a ∧
    D8.classByHash be db id c = V8.classByHash be nd id c ∧ D8.classAt be db id a = V8.classAt be nd id a ∧
    D8.storageAt be db id a k = V8.storageAt be nd id a k := by
  have e := d8_stateByBlockID_r p r be
  have hn : D8.nonce be db id a = V8.nonce be nd id a := by simp only [D8.nonce, V8.nonce, e]; mrfl
  have hc : D8.classHashAt be db id a = V8.classHashAt be nd id a := by simp only [D8.classHashAt, V8.classHashAt, e]; mrfl
  have hb : ∀ c, D8.classByHash be db id c = V8.classByHash be nd id c := by
    intro c; simp only [D8.classByHash, V8.classByHash, e]; mrfl
  refine ⟨hn, hc, hb c, ?_, ?_⟩
  · simp only [D8.classAt, V8.classAt, hc]
    congr 1
    funext c
    exact hb c
  · simp only [D8.storageAt, V8.storageAt, e]
    mrfl

end pruned2

/-- `withIdD` against `withIdV` when the handlers agree on the one identifier the raw argument
decodes to (or it decodes to none). -/
theorem withIdD_ans_at (cfg : Cfg) (ver : Ver) (p : Bool) (raw : RawId) (k : BlockId → DAns) (k' : BlockId → Ans)
    (h : ∀ id, unmarshalBlockIDV cfg ver raw = .ok id → k id = .ans (k' id)) :
    withIdD cfg ver p raw k = .ans (withIdV cfg ver p raw k') := by
  cases raw <;> simp only [withIdD, withIdV] <;> (repeat' split) <;> simp_all


/-! ### the legacy last-update log cut at the floor, exactly -/

theorem lastLoggedRev_le (m : Nat) : ∀ (bs : List Block) (a k : Nat), (∀ c ∈ bs, c.number ≤ m) → lastLoggedRev bs a k ≤ m
  | [], _, _, _ => Nat.zero_le _
  | b :: older, a, k, h => by
    have ih := lastLoggedRev_le m older a k (fun c hc => h c (List.mem_cons_of_mem _ hc))
    have hb := h b (List.mem_cons_self ..)
    simp only [lastLoggedRev]
    split
    · split
      · exact ih
      · exact hb
    · exact ih

/-- The legacy per-slot history log cut at the pruning floor, exactly: along a list of blocks with
strictly decreasing numbers (newest first) the cut log gives the uncut log's answer when that is at
or above the floor, and 0 ("never updated") when it lies below. -/
theorem lastLoggedRevFrom_exact (e : Nat) : ∀ (bs : List Block) (a k : Nat),
    bs.Pairwise (fun x y => y.number < x.number) →
    Db.lastLoggedRevFrom e bs a k = if e ≤ lastLoggedRev bs a k then lastLoggedRev bs a k else 0
  | [], _, _, _ => by simp [Db.lastLoggedRevFrom, lastLoggedRev]
  | b :: older, a, k, h => by
    rw [List.pairwise_cons] at h
    have ih := lastLoggedRevFrom_exact e older a k h.2
    by_cases hb : b.number < e
    · have hle : lastLoggedRev (b :: older) a k ≤ b.number :=
        lastLoggedRev_le b.number (b :: older) a k (by
          intro c hc
          rcases List.mem_cons.mp hc with rfl | hc
          · exact Nat.le_refl _
          · exact Nat.le_of_lt (h.1 c hc))
      have : ¬ e ≤ lastLoggedRev (b :: older) a k := by omega
      simp [Db.lastLoggedRevFrom, hb, this]
    · simp only [Db.lastLoggedRevFrom, hb, if_false]
      cases hl : lookup3 b.diff.storage a k with
      | none =>
        have hx : lastLoggedRev (b :: older) a k = lastLoggedRev older a k := by simp only [lastLoggedRev, hl]
        rw [hx]; exact ih
      | some v =>
        by_cases hc : (v == 0 && storageIn older.reverse a k == 0) = true
        · have hx : lastLoggedRev (b :: older) a k = lastLoggedRev older a k := by simp only [lastLoggedRev, hl, hc, if_true]
          rw [hx]; simpa only [hc, if_true] using ih
        · have hx : lastLoggedRev (b :: older) a k = b.number := by simp [lastLoggedRev, hl, hc]
          have : e ≤ b.number := by omega
          rw [hx]; simp [hc, this]

theorem wf_take_pairwise {nd : Node} (wf : WellFormed nd) (m : Nat) :
    (nd.chain.take m).reverse.Pairwise (fun x y => y.number < x.number) := by
  rw [List.pairwise_reverse, List.pairwise_iff_getElem]
  intro i j hi hj hij
  have e1 : nd.chain[i]? = some (nd.chain.take m)[i] := by
    have := List.getElem?_eq_getElem hi
    rw [List.getElem?_take] at this
    split at this
    · exact this
    · cases this
  have e2 : nd.chain[j]? = some (nd.chain.take m)[j] := by
    have := List.getElem?_eq_getElem hj
    rw [List.getElem?_take] at this
    split at this
    · exact this
    · cases this
  rw [wf i _ e1, wf j _ e2]
  exact hij

theorem v10_state_blocks {be : Backend} {nd : Node} {id : BlockId} {st : StateRef}
    (h : V10.stateByBlockID be nd id = .ok st) : ∃ m, st.blocks = nd.chain.take m := by
  have hnum : ∀ n, stateAtNumber nd n = .ok st → ∃ m, st.blocks = nd.chain.take m := by
    intro n hn
    simp only [stateAtNumber] at hn
    split at hn
    · cases hn; exact ⟨n + 1, rfl⟩
    · cases hn
  cases id with
  | pre => cases h
  | latest =>
    simp only [V10.stateByBlockID, headState] at h
    split at h
    · cases h
    · cases h; exact ⟨nd.chain.length, by simp⟩
  | hash x =>
    simp only [V10.stateByBlockID, stateAtBlockHash] at h
    split at h
    · cases be <;> cases h
      · exact ⟨0, by simp⟩
      · exact ⟨nd.chain.length, by simp⟩
    · split at h
      · cases h
      · exact hnum _ h
  | number n => exact hnum n h
  | l1Accepted =>
    simp only [V10.stateByBlockID] at h
    split at h
    · cases h
    · exact hnum _ h

end Juno.C08
