import JunoModel.C08.ModelEnv
import JunoModel.C08.Props
/-!
C08 — property theorems about the parts of the read path added in round 4 (`ModelEnv.lean`): the
feeder-gateway fallback of getTransactionStatus, the response-flag parameters, the method tables.
Same conventions as `Props.lean` (statements only, every theorem an obligation, non-vacuity
examples at the end).
-/
namespace Juno.C08.Props
open Juno.C08

/-! ## getTransactionStatus with a feeder gateway -/

/-- A transaction of the node's own chain is answered from the chain — block finality from the
recorded L1 head, its own execution result — whatever the feeder gateway would say (it is not
consulted), whether or not the node submitted the transaction, in every API version. This is the
clause "finality status derived from the recorded L1 head" for the configuration every production
node runs in (node.go always sets a feeder client). -/
theorem status_of_chain_transaction_ignores_feeder (ver : Ver) (env : Env) (ops : List Op) (fr : FreshFrom {} ops)
    (n i : Nat) (b : Block) (t : Tx) (hb : (run ops).chain[n]? = some b) (ht : b.txs[i]? = some t) :
    transactionStatusEnv ver env (run ops) t.hash =
      .local (.status (finality n (statusL1 (run ops))) t.reverted) := by
  have h := (Juno.C08.by_hash_complete (run_inv ops fr).1 (run_wellFormed ops) (run_inv ops fr).2.2 hb ht).2.2
  simp only [transactionStatusEnv, h]

/-- The same for any node whose buckets agree with its chain: if the local answer is a status, it
is the answer with any feeder environment. -/
theorem status_local_answer_wins (ver : Ver) (env : Env) (nd : Node) (h : Nat) (f : Fin) (r : Bool)
    (hl : transactionStatus nd h = .status f r) :
    transactionStatusEnv ver env nd h = .local (.status f r) := by
  simp only [transactionStatusEnv, hl]

/-- What `transactionStatus` can answer at all: a status or TXN_HASH_NOT_FOUND. -/
theorem transactionStatus_shape (nd : Node) (h : Nat) :
    transactionStatus nd h = .err .txnHashNotFound ∨ ∃ f r, transactionStatus nd h = .status f r := by
  unfold transactionStatus
  cases numberAndIndexByTxHash nd h with
  | none => exact .inl rfl
  | some p =>
    obtain ⟨n, i⟩ := p
    simp only
    cases txByNumberAndIndex nd n i with
    | none => exact .inl rfl
    | some t => exact .inr ⟨_, _, rfl⟩

/-- For a hash the chain does not hold the answer is a function of the environment alone (exact
table): no feeder client → TXN_HASH_NOT_FOUND; a failing gateway → internal error; otherwise the
gateway's answer — with NOT_RECEIVED read as RECEIVED when the node itself submitted the
transaction — as far as the API version can express it, TXN_HASH_NOT_FOUND when it cannot. -/
theorem status_off_chain_exact (ver : Ver) (env : Env) (nd : Node) (h : Nat) (ok : BucketsOk nd) (wf : WellFormed nd)
    (hn : ∀ b ∈ nd.chain, ∀ t ∈ b.txs, t.hash ≠ h) :
    transactionStatusEnv ver env nd h =
      match env.feeder with
      | .absent => .local (.err .txnHashNotFound)
      | .fails => .internal
      | .says fin exec =>
        match adaptStatus ver (if fin = .notReceived ∧ env.submitted = true then .received else fin) exec with
        | none => .local (.err .txnHashNotFound)
        | some (f, e, r) => .remote f e r := by
  have hl := (transactionStatus_notFound_iff ok wf).mpr hn
  simp only [transactionStatusEnv, hl]
  cases env.feeder with
  | absent => rfl
  | fails => rfl
  | says fin exec =>
    simp only
    have : (if (fin == FFin.notReceived && env.submitted) = true then FFin.received else fin) =
        (if fin = .notReceived ∧ env.submitted = true then .received else fin) := by
      cases fin <;> cases env.submitted <;> rfl
    rw [this]
    cases adaptStatus ver (if fin = .notReceived ∧ env.submitted = true then .received else fin) exec <;> rfl

/-- Which gateway answers a version cannot express (and therefore reports as "not found"):
v0.8 — NOT_RECEIVED, PRE_CONFIRMED, CANDIDATE and values outside the enumeration; v0.9 / v0.10 —
NOT_RECEIVED, values outside the enumeration, and a REJECTED execution status (unless the
transaction is a CANDIDATE, which has no execution status). -/
theorem adaptStatus_none_iff (ver : Ver) (fin : FFin) (exec : FExec) :
    adaptStatus ver fin exec = none ↔
      (match ver with
       | .v8 => fin = .notReceived ∨ fin = .preConfirmed ∨ fin = .candidate ∨ fin = .unknown
       | _ => fin = .notReceived ∨ fin = .unknown ∨ (fin ≠ .candidate ∧ exec = .rejected)) := by
  cases ver <;> cases fin <;> cases exec <;> decide

/-- TXN_HASH_NOT_FOUND precisely when the chain lacks the transaction AND the gateway has nothing
the version can report (no gateway configured, or an inexpressible answer after the
submitted-cache substitution). -/
theorem status_notfound_iff_env (ver : Ver) (env : Env) (nd : Node) (h : Nat) (ok : BucketsOk nd) (wf : WellFormed nd) :
    transactionStatusEnv ver env nd h = .local (.err .txnHashNotFound) ↔
      (∀ b ∈ nd.chain, ∀ t ∈ b.txs, t.hash ≠ h) ∧
      (match env.feeder with
       | .absent => True
       | .fails => False
       | .says fin exec =>
         adaptStatus ver (if fin = .notReceived ∧ env.submitted = true then .received else fin) exec = none) := by
  constructor
  · intro ha
    have hn : ∀ b ∈ nd.chain, ∀ t ∈ b.txs, t.hash ≠ h := by
      rcases transactionStatus_shape nd h with hl | ⟨f, r, hl⟩
      · exact (transactionStatus_notFound_iff ok wf).mp hl
      · rw [status_local_answer_wins ver env nd h f r hl] at ha
        cases ha
    refine ⟨hn, ?_⟩
    rw [status_off_chain_exact ver env nd h ok wf hn] at ha
    cases hf : env.feeder with
    | absent => trivial
    | fails => rw [hf] at ha; cases ha
    | says fin exec =>
      rw [hf] at ha
      simp only at ha ⊢
      cases hs : adaptStatus ver (if fin = .notReceived ∧ env.submitted = true then .received else fin) exec with
      | none => rfl
      | some p => obtain ⟨f, e, r⟩ := p; rw [hs] at ha; cases ha
  · rintro ⟨hn, hf⟩
    rw [status_off_chain_exact ver env nd h ok wf hn]
    cases hfe : env.feeder with
    | absent => rfl
    | fails => rw [hfe] at hf; exact hf.elim
    | says fin exec =>
      rw [hfe] at hf
      simp only at hf ⊢
      rw [hf]

/-- A status relayed from the gateway never carries a finality the version's specification lacks:
v0.8 has no PRE_CONFIRMED / CANDIDATE, v0.9 and v0.10 have no REJECTED; a CANDIDATE has no
execution status; a failure reason accompanies exactly REVERTED (the revert reason) and REJECTED
(the failure reason). -/
theorem relayed_status_is_expressible (ver : Ver) (fin : FFin) (exec : FExec) (f : SFin) (e : SExec) (r : SReason)
    (h : adaptStatus ver fin exec = some (f, e, r)) :
    (ver = .v8 → f ≠ .preConfirmed ∧ f ≠ .candidate) ∧ (ver ≠ .v8 → f ≠ .rejected) ∧
      (f = .candidate → e = .none) ∧ (r = .revertReason ↔ e = .reverted) ∧ (r = .failureReason ↔ f = .rejected) := by
  cases ver <;> cases fin <;> cases exec <;> simp [adaptStatus, adaptStatusV8, adaptStatusV9] at h <;>
    (obtain ⟨rfl, rfl, rfl⟩ := h; decide)

/-- v0.9 and v0.10 relay alike; v0.8 relays as they do except for the two finalities it lacks and
for REJECTED (which only it can express). -/
theorem relay_versions_agree (env : Env) (nd : Node) (h : Nat) :
    transactionStatusEnv .v9 env nd h = transactionStatusEnv .v10 env nd h ∧
    (∀ fin exec, fin ≠ .preConfirmed → fin ≠ .candidate → exec ≠ .rejected →
      adaptStatus .v8 fin exec = adaptStatus .v9 fin exec) := by
  refine ⟨rfl, ?_⟩
  intro fin exec h1 h2 h3
  cases fin <;> cases exec <;> first | rfl | exact absurd rfl h1 | exact absurd rfl h2 | exact absurd rfl h3

/-! ## response_flags -/

/-- Exactly which `response_flags` arguments are accepted and what they mean: absent and `null`
are "no flag"; a list is accepted iff every member is the method's own flag, and sets the flag iff
it is not empty; nothing else is accepted. -/
theorem decodeFlags_spec (known : String) (fl : RawFlags) (b : Bool) :
    decodeFlags known fl = .ok b ↔
      ((fl = .absent ∨ fl = .null) ∧ b = false) ∨
      (∃ l, fl = .list l ∧ (∀ s ∈ l, s = known) ∧ b = !l.isEmpty) := by
  cases fl with
  | absent => simp [decodeFlags, eq_comm]
  | null => simp [decodeFlags, eq_comm]
  | other => simp [decodeFlags]
  | list l =>
    simp only [decodeFlags, List.all_eq_true, beq_iff_eq]
    constructor
    · intro h
      split at h
      · rename_i hall
        cases h
        exact .inr ⟨l, rfl, hall, rfl⟩
      · cases h
    · rintro (⟨h | h, _⟩ | ⟨l', hl, hall, hb⟩)
      · cases h
      · cases h
      · cases hl
        rw [if_pos hall, hb]

/-- Every version / method without the parameter refuses a request that carries it (v0.8 and v0.9
altogether; in v0.10 the methods outside the five that have it). -/
theorem flags_refused_where_not_specified (cfg : Cfg) (be : Backend) (ver : Ver) (nd : Node) (r : Request) (fl : RawFlags)
    (hn : flagOf ver r = none) (hf : fl ≠ .absent) :
    serveFlagged cfg be ver nd r fl = .err .invalidParams := by
  simp only [serveFlagged, hn]
  rw [if_neg]
  simpa using hf

theorem older_versions_have_no_flags (ver : Ver) (r : Request) (hv : ver ≠ .v10) : flagOf ver r = none := by
  cases ver <;> first | exact absurd rfl hv | (cases r <;> rfl)

/-- A request with acceptable flags resolves its block identifier / transaction hash exactly as
the request without them: INCLUDE_PROOF_FACTS never changes which block or transaction answers,
and INCLUDE_LAST_UPDATE_BLOCK switches getStorageAt to the two-field form of the same read. An
argument that is not acceptable is invalid params. -/
theorem flags_do_not_change_what_is_read (cfg : Cfg) (be : Backend) (nd : Node) (r : Request) (fl : RawFlags)
    (known : String) (hk : flagOf .v10 r = some known) :
    serveFlagged cfg be .v10 nd r fl =
      match decodeFlags known fl with
      | .error _ => .err .invalidParams
      | .ok set =>
        match r with
        | .storageAt a k raw | .storageAtWithLastUpdate a k raw =>
          if set then serve cfg be .v10 nd (.storageAtWithLastUpdate a k raw) else serve cfg be .v10 nd (.storageAt a k raw)
        | r => serve cfg be .v10 nd r := by
  simp only [serveFlagged, hk]
  cases hd : decodeFlags known fl with
  | error e =>
    have : e = .invalidParams := by
      cases fl with
      | absent => simp [decodeFlags] at hd
      | null => simp [decodeFlags] at hd
      | other => simp only [decodeFlags] at hd; cases hd; rfl
      | list l =>
        simp only [decodeFlags] at hd
        split at hd
        · cases hd
        · cases hd; rfl
    rw [this]
  | ok set => cases r <;> rfl

/-! ## Method tables -/

/-- The parameter lists juno registers for the read methods (names, order, optionality, per
version) are those of the Starknet API specifications. -/
theorem tables_follow_the_specifications (ver : Ver) (m : Method) : paramsOf ver m = specParams ver m := by
  cases ver <;> cases m <;> rfl

/-- `buildArguments` lets a positional request through iff its length is between the number of
required parameters and the number of parameters. -/
theorem positional_shape_iff (ps : List Param) (n : Nat) :
    shapeOk ps (.positional n) = true ↔ (ps.filter (fun p => !p.2)).length ≤ n ∧ n ≤ ps.length := by
  simp [shapeOk]

/-- … and a named request iff it has every required name and only names of the table. -/
theorem named_shape_iff (ps : List Param) (names : List String) :
    shapeOk ps (.named names) = true ↔
      (∀ p ∈ ps, p.2 = false → p.1 ∈ names) ∧ (∀ nm ∈ names, ∃ p ∈ ps, p.1 = nm) := by
  simp only [shapeOk, Bool.and_eq_true, List.all_eq_true, Bool.or_eq_true, List.contains_iff_mem, List.any_eq_true,
    beq_iff_eq]
  constructor
  · rintro ⟨h1, h2⟩
    refine ⟨fun p hp hf => ?_, fun nm hn => ?_⟩
    · rcases h1 p hp with h | h
      · rw [hf] at h; cases h
      · exact h
    · exact h2 nm hn
  · rintro ⟨h1, h2⟩
    refine ⟨fun p hp => ?_, fun nm hn => h2 nm hn⟩
    cases hf : p.2 with
    | true => exact .inl rfl
    | false => exact .inr (h1 p hp hf)

/-- A request shaped as the specification says — all parameters by position, or by name with or
without the optional ones — gets through in every version; one that lacks `block_id`, or carries a
v0.10-only parameter to v0.8 / v0.9, does not. -/
theorem spec_shaped_requests_pass (ver : Ver) (m : Method) :
    shapeOk (paramsOf ver m) (.positional (specParams ver m).length) = true ∧
    shapeOk (paramsOf ver m) (.named ((specParams ver m).map (·.1))) = true ∧
    shapeOk (paramsOf ver m) (.named (((specParams ver m).filter (fun p => !p.2)).map (·.1))) = true := by
  cases ver <;> cases m <;> decide

theorem v10_parameters_unknown_to_older_versions :
    shapeOk (paramsOf .v9 .storageAt) (.positional 4) = false ∧
    shapeOk (paramsOf .v8 .storageAt) (.named ["contract_address", "key", "block_id", "response_flags"]) = false ∧
    shapeOk (paramsOf .v9 .stateUpdate) (.named ["block_id", "contract_addresses"]) = false ∧
    shapeOk (paramsOf .v10 .stateUpdate) (.named ["block_id", "contract_addresses"]) = true ∧
    shapeOk (paramsOf .v10 .nonce) (.named ["contract_address"]) = false := by
  decide

/-! ## Block headers of old blocks (fields the block does not hold) -/

/-
Full-strength statement (does NOT hold of juno as it is): every price of every header is a felt,
in every version. rpc/v8 renders a missing wei price of L1 gas as JSON `null`.
-/

/-- Every required price field of a block header is rendered as a felt — whatever the block lacks —
by rpc/v9 and rpc/v10, and by rpc/v8 unless the block has no wei price of L1 gas (with the repair
proposed-fixes/C08-v8-header-nil-l1-gas-price.diff, variant `v8WeiNull := false`: always). -/
theorem header_prices_are_felts_partial (cfg : HdrCfg) (ver : Ver) (h : RawHeader)
    (hv : ver = .v8 → cfg.v8WeiNull = true → h.l1Wei ≠ none) :
    (adaptHeader cfg ver h).allFelts = true := by
  obtain ⟨seq, w, f, d, l2, da⟩ := h
  cases ver
  · cases hc : cfg.v8WeiNull
    · cases w <;> cases f <;> rcases d with _ | ⟨_ | _, _ | _⟩ <;> rcases l2 with _ | ⟨_ | _, _ | _⟩ <;>
        simp [adaptHeader, adaptHeaderV8, HeaderOut.allFelts, JV.isFelt, orDefault, priceOr, hc]
    · have hw : w ≠ none := hv rfl hc
      cases w with
      | none => exact absurd rfl hw
      | some w =>
        cases f <;> rcases d with _ | ⟨_ | _, _ | _⟩ <;> rcases l2 with _ | ⟨_ | _, _ | _⟩ <;>
          simp [adaptHeader, adaptHeaderV8, HeaderOut.allFelts, JV.isFelt, orDefault, priceOr, hc]
  · cases w <;> cases f <;> rcases d with _ | ⟨_ | _, _ | _⟩ <;> rcases l2 with _ | ⟨_ | _, _ | _⟩ <;>
      simp [adaptHeader, adaptHeaderV9, HeaderOut.allFelts, JV.isFelt, orDefault, priceOr]
  · cases w <;> cases f <;> rcases d with _ | ⟨_ | _, _ | _⟩ <;> rcases l2 with _ | ⟨_ | _, _ | _⟩ <;>
      simp [adaptHeader, adaptHeaderV10, HeaderOut.allFelts, JV.isFelt, orDefault, priceOr]

/-- Witness: the barest header (a block older than every optional field): v0.8 answers
`"price_in_wei": null` where v0.9 answers 0x0 and v0.10 answers 0x1. -/
theorem v8_header_renders_missing_l1_gas_price_as_null :
    (adaptHeader {} .v8 {}).l1 = (.null, .felt 0) ∧ (adaptHeader {} .v9 {}).l1 = (.felt 0, .felt 0) ∧
      (adaptHeader {} .v10 {}).l1 = (.felt 1, .felt 1) ∧
      (adaptHeader { v8WeiNull := false } .v8 {}).l1 = (.felt 0, .felt 0) := by
  decide

/-- What a block holds is returned as it is, by every version: the sequencer address, each price,
the DA mode — in particular a price of 0 or 1 that the block really has is not confused with the
version's default for a missing one. -/
theorem header_present_values_verbatim (cfg : HdrCfg) (ver : Ver) (h : RawHeader) (s w f dw df lw lf : Nat)
    (hs : h.seq = some s) (hw : h.l1Wei = some w) (hf : h.l1Fri = some f) (hd : h.l1Data = some (some dw, some df))
    (hl : h.l2 = some (some lw, some lf)) :
    let o := adaptHeader cfg ver h
    o.seq = s ∧ o.l1 = (.felt w, .felt f) ∧ o.l1Data = (.felt dw, .felt df) ∧ o.l2 = (.felt lw, .felt lf) ∧
      o.blob = (h.daMode != 0) := by
  obtain ⟨seq, w', f', d', l2', da⟩ := h
  simp only at hs hw hf hd hl
  subst hs hw hf hd hl
  cases ver <;> cases hc : cfg.v8WeiNull <;>
    simp [adaptHeader, adaptHeaderV8, adaptHeaderV9, adaptHeaderV10, orDefault, priceOr, daBlob, hc]

/-- Where the versions' header schemas coincide the three adapters agree on every block that holds
all its fields; on missing fields v0.8 and v0.9 agree with each other (default 0; v0.8 as repaired)
and v0.10 deliberately differs (default 1): the disagreement is confined to values no block holds. -/
theorem header_versions_agree (h : RawHeader) :
    adaptHeader { v8WeiNull := false } .v8 h = adaptHeader {} .v9 h ∧
    (h.l1Wei.isSome → h.l1Fri.isSome → (∃ a b, h.l1Data = some (some a, some b)) → (∃ a b, h.l2 = some (some a, some b)) →
      { adaptHeader {} .v9 h with commitments := true } = adaptHeader {} .v10 h) := by
  obtain ⟨seq, w, f, d, l2, da⟩ := h
  refine ⟨?_, ?_⟩
  · cases w <;> rfl
  · intro h1 h2 ⟨a, b, h3⟩ ⟨c, e, h4⟩
    simp only at h3 h4
    subst h3 h4
    cases w with
    | none => cases h1
    | some w =>
      cases f with
      | none => cases h2
      | some f => rfl

/-! ## Non-vacuity -/

example : transactionStatusEnv .v10 { feeder := .says .acceptedOnL1 .succeeded, submitted := true } (run exampleOps) 0xf3 =
    .local (.status .l2 false) := by decide
example : transactionStatusEnv .v10 { feeder := .says .acceptedOnL1 .succeeded } (run exampleOps) 0xdead = .remote .l1 .succeeded .none ∧
    transactionStatusEnv .v8 { feeder := .says .received .rejected } (run exampleOps) 0xdead = .remote .rejected .none .failureReason ∧
    transactionStatusEnv .v9 { feeder := .says .received .rejected } (run exampleOps) 0xdead = .local (.err .txnHashNotFound) ∧
    transactionStatusEnv .v9 { feeder := .says .notReceived .none, submitted := true } (run exampleOps) 0xdead = .remote .received .none .none ∧
    transactionStatusEnv .v8 { feeder := .says .candidate .none } (run exampleOps) 0xdead = .local (.err .txnHashNotFound) ∧
    transactionStatusEnv .v9 { feeder := .fails } (run exampleOps) 0xdead = .internal := by decide
example : decodeFlags flagLastUpdate (.list [flagLastUpdate, flagLastUpdate]) = .ok true ∧
    decodeFlags flagLastUpdate (.list []) = .ok false ∧
    decodeFlags flagLastUpdate (.list [flagProofFacts]) = .error .invalidParams := ⟨by rfl, by rfl, by rfl⟩
example : serveFlagged {} .new .v10 (run exampleOps) (.storageAt 0x105 7 (.tag "latest")) (.list [flagLastUpdate]) = .valueAt 0 1 ∧
    serveFlagged {} .new .v10 (run exampleOps) (.storageAt 0x105 7 (.tag "latest")) .null = .num 0 ∧
    serveFlagged {} .new .v9 (run exampleOps) (.storageAt 0x105 7 (.tag "latest")) .null = .err .invalidParams := by decide

end Juno.C08.Props
