import JunoModel.C08.ModelV
/-!
C08 — the read path RECORD BY RECORD, and the pruned node (round 5).

`Model.lean` / `ModelV.lean` describe `blockchain.Reader` over a node that is the list of its
blocks: "block n" is one thing that is there or not. The database is not like that. A block is
five number-keyed records — header (`BlockHeadersByNumber`), transactions with receipts
(`BlockTransactions`), commitments (`BlockCommitments`), state update (`StateUpdatesByBlockNumber`)
— plus the hash-keyed index entries, and the handlers read them one after the other, each with its
own error mapping. On a node that was never pruned the records of a block are written and reverted
together, and the list view is exact (`PropsDb.unpruned_db_refines`). On a node run with
`--prune-mode` they are NOT there together: `pruner.PruneUpto(e)` deletes transactions, commitments,
state updates and the transaction-hash index entries of every block below `e`, the headers only
below `e - BlockHashLag` (the `get_block_hash` syscall needs the last ten), and the block-hash index
entries only below `e - 1` (`StateAtBlockHash(oldestKept.parentHash)`); historical state is served
from `e - 1` on (the shared `pruner.RetentionFloor`, or, when that was never seeded, a probe of the
header and of its hash-index entry).

This file transcribes, once more and package by package, every read handler of rpc/v8, rpc/v9,
rpc/v10 — this time over the records (`Db`), in the order the Go code reads them — together with
`core.GetBlockByNumber` & co. (core/accessors.go), the state-retention checks of
pruner/retention.go as the two state backends call them (blockchain/statebackend), `PruneUpto`
(pruner/accessors.go) and `RetentionFloor.Seed`. The driver answers EVERY request with this model
(`serveDb`); `prune` / `seed` / `dropcommit` are driver operations.

Core Lean only (linked into `c08drv`).
-/
namespace Juno.C08

/-- The database. `nd` holds what `Store` wrote and `RevertHead` did not take back (chain, L1 head,
the two hash-keyed index buckets — `PruneUpto` deletes from these physically); `prunedBelow` is how
far the number-keyed records were range-deleted; `floor` is the process-wide `RetentionFloor`
(`none`: never seeded); `noCommit`: blocks whose commitments record was removed behind the node's
back (a damaged database; only the harness' fault family produces it). -/
structure Db where
  nd : Node := {}
  prunedBelow : Nat := 0
  floor : Option Nat := none
  noCommit : List Nat := []
deriving Repr, DecidableEq, Inhabited

/-- A node that was never pruned. -/
def Db.ofNode (nd : Node) : Db := { nd := nd }

/-- An answer, or the JSON-RPC internal error (`rpccore.ErrInternal`, -32603). -/
inductive DAns
  | ans (a : Ans)
  | internal
deriving Repr, DecidableEq, Inhabited

namespace Db

/-! ## core/accessors.go: one function per record read -/

def len (db : Db) : Nat := db.nd.chain.length

/-- `GetChainHeight`. -/
def height (db : Db) : Option Nat := Juno.C08.height db.nd

/-- Is the header record of block `n` still there? `PruneBlockDataUpto` deletes the headers of
`[0, e - BlockHashLag)` (none when `e ≤ BlockHashLag`). -/
def headerKept (db : Db) (n : Nat) : Bool := decide (db.prunedBelow ≤ n + blockHashLag)

/-- Are the transactions / commitments / state update of block `n` still there? They are
range-deleted for `[0, e)`. -/
def bodyKept (db : Db) (n : Nat) : Bool := decide (db.prunedBelow ≤ n)

/-- `GetBlockHeaderByNumber` (and its projections: hash, state root, transaction count). The header
is the `Block` without its transaction list, of which only the length — `Header.TransactionCount`
— is part of the header. -/
def header (db : Db) (n : Nat) : Option Block := if db.headerKept n then db.nd.chain[n]? else none

/-- The `BlockTransactions` record of block `n`: transactions and receipts. -/
def body (db : Db) (n : Nat) : Option (List Tx) :=
  if db.bodyKept n then (db.nd.chain[n]?).map (·.txs) else none

/-- `GetStateUpdateByBlockNum`. -/
def update (db : Db) (n : Nat) : Option Block := if db.bodyKept n then db.nd.chain[n]? else none

/-- `GetBlockCommitmentByBlockNum` succeeds. -/
def hasCommit (db : Db) (n : Nat) : Bool :=
  db.bodyKept n && decide (n < db.len) && !db.noCommit.contains n

/-- `GetBlockHeaderNumberByHash`. -/
def numberByHash (db : Db) (x : Nat) : Option Nat := Juno.C08.numberByHash db.nd x

/-- `TransactionBlockNumbersAndIndicesByHashBucket.Get`. -/
def txLoc (db : Db) (x : Nat) : Option (Nat × Nat) := numberAndIndexByTxHash db.nd x

/-! ## blockchain.Reader over the records -/

/-- `HeadsHeader`: the height, then the header at it. -/
def headsHeader (db : Db) : Option Block :=
  match db.height with
  | none => none
  | some h => db.header h

/-- `BlockHeaderByHash`: the hash index, then the header. -/
def headerByHash (db : Db) (x : Nat) : Option Block :=
  match db.numberByHash x with
  | none => none
  | some n => db.header n

/-- `core.GetBlockByNumber`: the header, then transactions and receipts; either missing is an
error. -/
def blockByNumber (db : Db) (n : Nat) : Option Block :=
  match db.header n with
  | none => none
  | some hd =>
    match db.body n with
    | none => none
    | some ts => some { hd with txs := ts }

/-- `Head`. -/
def head (db : Db) : Option Block :=
  match db.height with
  | none => none
  | some h => db.blockByNumber h

/-- `BlockByHash`. -/
def blockByHash (db : Db) (x : Nat) : Option Block :=
  match db.numberByHash x with
  | none => none
  | some n => db.blockByNumber n

/-- `BlockTransactionCountByNumber`: read off the HEADER. -/
def txCountByNumber (db : Db) (n : Nat) : Option Nat := (db.header n).map (·.txs.length)

/-- `TransactionHashesByBlockNumber`. -/
def txHashesByNumber (db : Db) (n : Nat) : Option (List Nat) := (db.body n).map (·.map (·.hash))

/-- `TransactionsByBlockNumber`. -/
def txsByNumber (db : Db) (n : Nat) : Option (List Tx) := db.body n

/-- `TransactionByBlockNumberAndIndex` / `TransactionExecutionStatusByBlockNumberAndIndex`. -/
def txByNumberAndIndex (db : Db) (n i : Nat) : Option Tx :=
  match db.body n with
  | none => none
  | some ts => ts[i]?

/-- `TransactionByHash`. -/
def txByHash (db : Db) (x : Nat) : Option Tx :=
  match db.txLoc x with
  | none => none
  | some p => db.txByNumberAndIndex p.1 p.2

/-- `TransactionAndReceiptByBlockNumberAndIndex`: the pair out of the transactions record, then the
block hash out of the header. -/
def txAndBlockHash (db : Db) (n i : Nat) : Option (Tx × Nat) :=
  match db.txByNumberAndIndex n i with
  | none => none
  | some t =>
    match db.header n with
    | none => none
    | some hd => some (t, hd.hash)

/-- `StateUpdateByHash`. -/
def updateByHash (db : Db) (x : Nat) : Option Block :=
  match db.numberByHash x with
  | none => none
  | some n => db.update n

/-! ## State readers (blockchain/statebackend + pruner/retention.go) -/

def histAt (db : Db) (n : Nat) : StateRef := ⟨db.nd.chain.take (n + 1), .history⟩

/-- `HeadState`. Legacy backend: the chain height must exist. New backend: the height, then the
state root out of the head's header. -/
def headState (be : Backend) (db : Db) : Except Err StateRef :=
  match be with
  | .legacy => if db.nd.chain.isEmpty then .error .blockNotFound else .ok ⟨db.nd.chain, .head⟩
  | .new =>
    match db.height with
    | none => .error .blockNotFound
    | some h =>
      match db.header h with
      | none => .error .blockNotFound
      | some _ => .ok ⟨db.nd.chain, .head⟩

/-- `StateAtBlockNumber`. With a seeded floor (`RequireStateRetainedByBlockNumber` /
`StateRootIfStateRetainedByBlockNumber`): below the floor not found; above the chain not found
(legacy: compared with the height; new: the header read). Unseeded: the header must be there and
its hash must still have an entry in the hash index. -/
def stateAtBlockNumber (be : Backend) (db : Db) (n : Nat) : Except Err StateRef :=
  match db.floor with
  | some f =>
    if n < f then .error .blockNotFound else
    match be with
    | .legacy =>
      match db.height with
      | none => .error .blockNotFound
      | some h => if h < n then .error .blockNotFound else .ok (db.histAt n)
    | .new =>
      match db.header n with
      | none => .error .blockNotFound
      | some _ => .ok (db.histAt n)
  | none =>
    match db.header n with
    | none => .error .blockNotFound
    | some hd =>
      match db.numberByHash hd.hash with
      | none => .error .blockNotFound
      | some _ => .ok (db.histAt n)

/-- `StateAtBlockHash`: the zero hash is special-cased per backend; otherwise the hash index (no
retention check: an entry that survived pruning is served), and on the new backend the state root
out of the header. -/
def stateAtBlockHash (be : Backend) (db : Db) (x : Nat) : Except Err StateRef :=
  if x == 0 then (match be with | .legacy => .ok ⟨[], .head⟩ | .new => .ok ⟨db.nd.chain, .head⟩) else
  match db.numberByHash x with
  | none => .error .blockNotFound
  | some n =>
    match be with
    | .legacy => .ok (db.histAt n)
    | .new =>
      match db.header n with
      | none => .error .blockNotFound
      | some _ => .ok (db.histAt n)

/-- `ContractStorageLastUpdatedBlock`. The legacy backend answers from the per-slot history log,
and `PruneUpto` deletes the log entries of every pruned block (`pruneStateHistoryFromUpdate`): an
update below the floor is forgotten, the answer falls back to 0 = "never". (`lastLoggedRev` of
`Model.lean` cut off at the floor.) The new backend's history is not touched by the pruner. -/
def lastLoggedRevFrom (e : Nat) : List Block → Nat → Nat → Nat   -- newest block first
  | [], _, _ => 0
  | b :: older, a, k =>
    if b.number < e then 0 else
    match lookup3 b.diff.storage a k with
    | some v => if v == 0 && storageIn older.reverse a k == 0 then lastLoggedRevFrom e older a k else b.number
    | none => lastLoggedRevFrom e older a k

def lastUpdate (db : Db) (be : Backend) (bs : List Block) (a k : Nat) : Nat :=
  match be with
  | .legacy => lastLoggedRevFrom db.prunedBelow bs.reverse a k
  | .new => lastTouchedIn bs a k

/-! ## Writers -/

/-- `Store` (writes every record of the block; a commitments record removed earlier at that number
is there again). -/
def store (db : Db) (b : Block) : Option Db :=
  match Juno.C08.store db.nd b with
  | none => none
  | some nd' => some { db with nd := nd', noCommit := db.noCommit.filter (· != b.number) }

/-- `RevertHead`. -/
def revert (db : Db) : Option Db :=
  match Juno.C08.revert db.nd with
  | none => none
  | some nd' => some { db with nd := nd' }

/-- `OldestRetainedBlock`: the first commitments record (on a database whose commitments bucket was
not tampered with: `prunedBelow`, if that block exists). -/
def oldestRetained (db : Db) : Option Nat :=
  if db.prunedBelow < db.len then some db.prunedBelow else none

/-- The hashes whose hash-index entry a sweep over `[start, e)` deletes: block `N`'s iteration
deletes the entry of block `N - 1` (so the entry of `e - 1` survives, and the first iteration cleans
up the carve-out the previous call left at `start - 1`). -/
def sweptHashes (db : Db) (start e : Nat) : List Nat :=
  ((db.nd.chain.take (e - 1)).drop (start - 1)).map (·.hash)

/-- The transaction hashes whose index entry the sweep deletes: those of the blocks `[start, e)`. -/
def sweptTxHashes (db : Db) (start e : Nat) : List Nat :=
  ((db.nd.chain.take e).drop start).flatMap (fun b => b.txs.map (·.hash))

/-- `pruner.PruneUpto(ctx, db, e, …)` run to completion in one batch. A no-op on an empty database
and when `e` is not above the oldest retained block; an error (nothing written) when `e` is above
the chain: the sweep reads the state update of every block it prunes. -/
def pruneUpto (db : Db) (e : Nat) : Db :=
  match db.oldestRetained with
  | none => db
  | some start =>
    if e ≤ start || db.len < e then db else
    let hs := db.sweptHashes start e
    let ts := db.sweptTxHashes start e
    { db with prunedBelow := e,
              nd := { db.nd with numByHash := db.nd.numByHash.filter (fun x => !hs.contains x.1),
                                 txLoc := db.nd.txLoc.filter (fun x => !ts.contains x.1) } }

/-- `RetentionFloor.Seed`: `max(oldestRetained, 1) - 1` (0 on an empty database), never lowering. -/
def seed (db : Db) : Db :=
  let o := match db.oldestRetained with | some o => o | none => 0
  let f := max o 1 - 1
  { db with floor := some (match db.floor with | some g => max g f | none => f) }

/-- The fault: the commitments record of block `n` disappears. -/
def dropCommit (db : Db) (n : Nat) : Db := { db with noCommit := n :: db.noCommit }

end Db

/-! ## Histories of a pruning node -/

/-- Chain operations of a node that prunes. `prune e` is one trigger of the pruner service:
`PruneUpto(e)` and the retention floor kept in step (the service raises it to `e - 1`; the harness
re-seeds it from the database, which gives the same value) when the floor is in use. -/
inductive DOp
  | store (b : Block)
  | revert
  | setL1 (l : Option Nat)
  | setL1Zero
  | prune (e : Nat)
  | seed
deriving Repr, Inhabited

def applyDOp (db : Db) : DOp → Db
  | .store b => (db.store b).getD db
  | .revert => (db.revert).getD db
  | .setL1 l => { db with nd := setL1 db.nd l }
  | .setL1Zero => { db with nd := setL1Zero db.nd }
  | .prune e => if db.floor.isSome then (db.pruneUpto e).seed else db.pruneUpto e
  | .seed => db.seed

/-- The database after a history, starting empty (floor unseeded). -/
def runDb (ops : List DOp) : Db := ops.foldl applyDOp {}

/-- The same history on a node that never prunes. -/
def DOp.plain : DOp → Option Op
  | .store b => some (.store b)
  | .revert => some .revert
  | .setL1 l => some (.setL1 l)
  | .setL1Zero => some .setL1Zero
  | .prune _ => none
  | .seed => none

def plainOps (ops : List DOp) : List Op := ops.filterMap DOp.plain

/-! ## rpc/v10 over the records -/

namespace D10

/-- helpers.go `l1AcceptedBlockNumber`: the L1 head record, then the chain height. -/
def l1AcceptedBlockNumber (db : Db) : Option Nat :=
  match db.nd.l1 with
  | none => none
  | some l =>
    match db.height with
    | none => none
    | some h => some (min l h)

/-- helpers.go `blockByID`. -/
def blockByID (db : Db) : BlockId → Except Err Block
  | .pre => .error .blockNotFound
  | .latest => match db.head with | some b => .ok b | none => .error .blockNotFound
  | .hash x => match db.blockByHash x with | some b => .ok b | none => .error .blockNotFound
  | .l1Accepted =>
    match l1AcceptedBlockNumber db with
    | none => .error .blockNotFound
    | some n => match db.blockByNumber n with | some b => .ok b | none => .error .blockNotFound
  | .number n => match db.blockByNumber n with | some b => .ok b | none => .error .blockNotFound

/-- helpers.go `blockHeaderByID`. -/
def blockHeaderByID (db : Db) : BlockId → Except Err Block
  | .pre => .error .blockNotFound
  | .latest => match db.headsHeader with | some b => .ok b | none => .error .blockNotFound
  | .hash x => match db.headerByHash x with | some b => .ok b | none => .error .blockNotFound
  | .number n => match db.header n with | some b => .ok b | none => .error .blockNotFound
  | .l1Accepted =>
    match l1AcceptedBlockNumber db with
    | none => .error .blockNotFound
    | some n => match db.header n with | some b => .ok b | none => .error .blockNotFound

/-- helpers.go `stateByBlockID`. -/
def stateByBlockID (be : Backend) (db : Db) : BlockId → Except Err StateRef
  | .pre => .error .blockNotFound
  | .latest => db.headState be
  | .hash x => db.stateAtBlockHash be x
  | .number n => db.stateAtBlockNumber be n
  | .l1Accepted =>
    match l1AcceptedBlockNumber db with
    | none => .error .blockNotFound
    | some n => db.stateAtBlockNumber be n

def blockStatus (db : Db) (n : Nat) : Fin := V10.blockStatus db.nd n

def header (db : Db) (b : Block) : Hdr := V10.header db.nd b

/-- block.go `BlockTransactionCount`: resolve to a number, read the count off the header. -/
def blockTransactionCount (db : Db) (id : BlockId) : Ans :=
  let count? : Option Nat :=
    match id with
    | .pre => none
    | .latest => match db.height with | some h => db.txCountByNumber h | none => none
    | .hash x => match db.numberByHash x with | some n => db.txCountByNumber n | none => none
    | .number n => db.txCountByNumber n
    | .l1Accepted => match l1AcceptedBlockNumber db with | some n => db.txCountByNumber n | none => none
  match count? with
  | some c => .num c
  | none => .err .blockNotFound

/-- block.go `BlockWithTxHashes`: header by id; the hashes by `header.Number` (not found →
BLOCK_NOT_FOUND); the status; the commitments (any error → internal error). -/
def blockWithTxHashes (db : Db) (id : BlockId) : DAns :=
  if id == .pre then .ans (.err .blockNotFound) else
  match blockHeaderByID db id with
  | .error e => .ans (.err e)
  | .ok hd =>
    match db.txHashesByNumber hd.number with
    | none => .ans (.err .blockNotFound)
    | some hs => if db.hasCommit hd.number then .ans (.blockHashes (header db hd) hs) else .internal

/-- block.go `BlockWithTxs`. -/
def blockWithTxs (db : Db) (id : BlockId) : DAns :=
  if id == .pre then .ans (.err .blockNotFound) else
  match blockHeaderByID db id with
  | .error e => .ans (.err e)
  | .ok hd =>
    match db.txsByNumber hd.number with
    | none => .ans (.err .blockNotFound)
    | some ts => if db.hasCommit hd.number then .ans (.blockTxs (header db hd) ts) else .internal

/-- block.go `BlockWithReceipts`: the whole block by id, the status, the commitments. -/
def blockWithReceipts (db : Db) (id : BlockId) : DAns :=
  match blockByID db id with
  | .error e => .ans (.err e)
  | .ok b =>
    let st := blockStatus db b.number
    if db.hasCommit b.number then .ans (.blockReceipts (header db b) (b.txs.map (fun t => (t, st)))) else .internal

def transactionByHash (db : Db) (x : Nat) : Ans :=
  match db.txByHash x with | some t => .tx t | none => .err .txnHashNotFound

/-- transaction.go `TransactionByBlockIDAndIndex`: ANY failure of the read by number and index is
INVALID_TXN_INDEX. -/
def transactionByBlockIDAndIndex (db : Db) (id : BlockId) (i : Int) : Ans :=
  if i < 0 then .err .invalidTxIndex else
  let n? : Option Nat :=
    match id with
    | .pre => none
    | .latest => (db.headsHeader).map (·.number)
    | .hash x => db.numberByHash x
    | .number n => some n
    | .l1Accepted => l1AcceptedBlockNumber db
  match n? with
  | none => .err .blockNotFound
  | some n => match db.txByNumberAndIndex n i.toNat with | some t => .tx t | none => .err .invalidTxIndex

def transactionReceiptByHash (db : Db) (x : Nat) : Ans :=
  match db.txLoc x with
  | none => .err .txnHashNotFound
  | some (n, i) =>
    match db.txAndBlockHash n i with
    | none => .err .txnHashNotFound
    | some (t, bh) => .receipt t (blockStatus db n) n bh

def transactionStatusFromStore (db : Db) (x : Nat) : Ans :=
  match db.txLoc x with
  | none => .err .txnHashNotFound
  | some (n, i) =>
    match db.txByNumberAndIndex n i with
    | none => .err .txnHashNotFound
    | some t => .status (blockStatus db n) t.reverted

def transactionStatus (env : Env) (db : Db) (x : Nat) : StatusAns :=
  match transactionStatusFromStore db x with
  | .err .txnHashNotFound =>
    match env.feeder with
    | .absent => .local (.err .txnHashNotFound)
    | .fails => .internal
    | .says fin exec =>
      let fin' := if fin == .notReceived && env.submitted then FFin.received else fin
      match adaptStatusV9 fin' exec with
      | none => .local (.err .txnHashNotFound)
      | some (f, e, r) => .remote f e r
  | a => .local a

/-- state_update.go `stateUpdateByID` + `StateUpdate`. -/
def stateUpdate (db : Db) (id : BlockId) (filter : List Nat) : Ans :=
  let u? : Option Block :=
    match id with
    | .latest => match db.height with | some h => db.update h | none => none
    | .pre => none
    | .hash x => db.updateByHash x
    | .number n => db.update n
    | .l1Accepted => match l1AcceptedBlockNumber db with | some n => db.update n | none => none
  match u? with
  | none => .err .blockNotFound
  | some b =>
    let keep (a : Nat) : Bool := filter.isEmpty || filter.contains a
    .update b.hash b.root b.oldRoot
      { b.diff with deployed := b.diff.deployed.filter (fun e => keep e.1),
                    replaced := b.diff.replaced.filter (fun e => keep e.1),
                    nonces := b.diff.nonces.filter (fun e => keep e.1),
                    storage := b.diff.storage.filter (fun e => keep e.1) }

/-- storage.go `StorageAt` over a reader (the text of `V10.storageAt` after `stateByBlockID`). -/
def storageOf (be : Backend) (db : Db) (st : StateRef) (id : BlockId) (a k : Nat) (lastUpdate : Bool) : Ans :=
  let v := storageIn st.blocks a k
  let read : Except Err Nat :=
    match st.kind with
    | .history => if v != 0 then .ok v else if deployedIn st.blocks a then .ok 0 else .error .contractNotFound
    | .head => .ok v
  match read with
  | .error e => .err e
  | .ok v =>
    if v == 0 && id == .latest && !deployedIn st.blocks a then .err .contractNotFound
    else if lastUpdate then .valueAt v (db.lastUpdate be st.blocks a k) else .num v

def storageAt (be : Backend) (db : Db) (id : BlockId) (a k : Nat) (lastUpdate : Bool) : Ans :=
  match stateByBlockID be db id with
  | .error e => .err e
  | .ok st => storageOf be db st id a k lastUpdate

def nonce (be : Backend) (db : Db) (id : BlockId) (a : Nat) : Ans :=
  match stateByBlockID be db id with | .error e => .err e | .ok st => readNonce st a

def classHashAt (be : Backend) (db : Db) (id : BlockId) (a : Nat) : Ans :=
  match stateByBlockID be db id with | .error e => .err e | .ok st => readClassHash st a

def classByHash (be : Backend) (db : Db) (id : BlockId) (c : Nat) : Ans :=
  match stateByBlockID be db id with | .error e => .err e | .ok st => readClass st c

def classAt (be : Backend) (db : Db) (id : BlockId) (a : Nat) : Ans :=
  classAtOf (classHashAt be db id a) (classByHash be db id)

end D10

/-! ## rpc/v9 over the records (no commitments in its block header, no flags, no filter; StorageAt
probes the contract first) -/

namespace D9

def l1AcceptedBlockNumber (db : Db) : Option Nat :=
  match db.nd.l1 with
  | none => none
  | some l =>
    match db.height with
    | none => none
    | some h => some (min l h)

def blockByID (db : Db) : BlockId → Except Err Block
  | .pre => .error .blockNotFound
  | .latest => match db.head with | some b => .ok b | none => .error .blockNotFound
  | .hash x => match db.blockByHash x with | some b => .ok b | none => .error .blockNotFound
  | .l1Accepted =>
    match l1AcceptedBlockNumber db with
    | none => .error .blockNotFound
    | some n => match db.blockByNumber n with | some b => .ok b | none => .error .blockNotFound
  | .number n => match db.blockByNumber n with | some b => .ok b | none => .error .blockNotFound

def blockHeaderByID (db : Db) : BlockId → Except Err Block
  | .pre => .error .blockNotFound
  | .latest => match db.headsHeader with | some b => .ok b | none => .error .blockNotFound
  | .hash x => match db.headerByHash x with | some b => .ok b | none => .error .blockNotFound
  | .number n => match db.header n with | some b => .ok b | none => .error .blockNotFound
  | .l1Accepted =>
    match l1AcceptedBlockNumber db with
    | none => .error .blockNotFound
    | some n => match db.header n with | some b => .ok b | none => .error .blockNotFound

def stateByBlockID (be : Backend) (db : Db) : BlockId → Except Err StateRef
  | .pre => .error .blockNotFound
  | .latest => db.headState be
  | .hash x => db.stateAtBlockHash be x
  | .number n => db.stateAtBlockNumber be n
  | .l1Accepted =>
    match l1AcceptedBlockNumber db with
    | none => .error .blockNotFound
    | some n => db.stateAtBlockNumber be n

def blockStatus (db : Db) (n : Nat) : Fin := V9.blockStatus db.nd n

def header (db : Db) (b : Block) : Hdr := V9.header db.nd b

def blockTransactionCount (db : Db) (id : BlockId) : Ans :=
  let count? : Option Nat :=
    match id with
    | .pre => none
    | .latest => match db.height with | some h => db.txCountByNumber h | none => none
    | .hash x => match db.numberByHash x with | some n => db.txCountByNumber n | none => none
    | .number n => db.txCountByNumber n
    | .l1Accepted => match l1AcceptedBlockNumber db with | some n => db.txCountByNumber n | none => none
  match count? with
  | some c => .num c
  | none => .err .blockNotFound

def blockWithTxHashes (db : Db) (id : BlockId) : Ans :=
  if id == .pre then .err .blockNotFound else
  match blockHeaderByID db id with
  | .error e => .err e
  | .ok hd =>
    match db.txHashesByNumber hd.number with
    | none => .err .blockNotFound
    | some hs => .blockHashes (header db hd) hs

def blockWithTxs (db : Db) (id : BlockId) : Ans :=
  if id == .pre then .err .blockNotFound else
  match blockHeaderByID db id with
  | .error e => .err e
  | .ok hd =>
    match db.txsByNumber hd.number with
    | none => .err .blockNotFound
    | some ts => .blockTxs (header db hd) ts

def blockWithReceipts (db : Db) (id : BlockId) : Ans :=
  match blockByID db id with
  | .error e => .err e
  | .ok b =>
    let st := blockStatus db b.number
    .blockReceipts (header db b) (b.txs.map (fun t => (t, st)))

def transactionByHash (db : Db) (x : Nat) : Ans :=
  match db.txByHash x with | some t => .tx t | none => .err .txnHashNotFound

def transactionByBlockIDAndIndex (db : Db) (id : BlockId) (i : Int) : Ans :=
  if i < 0 then .err .invalidTxIndex else
  let n? : Option Nat :=
    match id with
    | .pre => none
    | .latest => (db.headsHeader).map (·.number)
    | .hash x => db.numberByHash x
    | .number n => some n
    | .l1Accepted => l1AcceptedBlockNumber db
  match n? with
  | none => .err .blockNotFound
  | some n => match db.txByNumberAndIndex n i.toNat with | some t => .tx t | none => .err .invalidTxIndex

def transactionReceiptByHash (db : Db) (x : Nat) : Ans :=
  match db.txLoc x with
  | none => .err .txnHashNotFound
  | some (n, i) =>
    match db.txAndBlockHash n i with
    | none => .err .txnHashNotFound
    | some (t, bh) => .receipt t (blockStatus db n) n bh

def transactionStatusFromStore (db : Db) (x : Nat) : Ans :=
  match db.txLoc x with
  | none => .err .txnHashNotFound
  | some (n, i) =>
    match db.txByNumberAndIndex n i with
    | none => .err .txnHashNotFound
    | some t => .status (blockStatus db n) t.reverted

def transactionStatus (env : Env) (db : Db) (x : Nat) : StatusAns :=
  match transactionStatusFromStore db x with
  | .err .txnHashNotFound =>
    match env.feeder with
    | .absent => .local (.err .txnHashNotFound)
    | .fails => .internal
    | .says fin exec =>
      let fin' := if fin == .notReceived && env.submitted then FFin.received else fin
      match adaptStatusV9 fin' exec with
      | none => .local (.err .txnHashNotFound)
      | some (f, e, r) => .remote f e r
  | a => .local a

def stateUpdate (db : Db) (id : BlockId) : Ans :=
  let u? : Option Block :=
    match id with
    | .latest => match db.height with | some h => db.update h | none => none
    | .pre => none
    | .hash x => db.updateByHash x
    | .number n => db.update n
    | .l1Accepted => match l1AcceptedBlockNumber db with | some n => db.update n | none => none
  match u? with
  | none => .err .blockNotFound
  | some b => .update b.hash b.root b.oldRoot b.diff

def storageAt (be : Backend) (db : Db) (id : BlockId) (a k : Nat) : Ans :=
  match stateByBlockID be db id with
  | .error e => .err e
  | .ok st => if deployedIn st.blocks a then .num (storageIn st.blocks a k) else .err .contractNotFound

def nonce (be : Backend) (db : Db) (id : BlockId) (a : Nat) : Ans :=
  match stateByBlockID be db id with | .error e => .err e | .ok st => readNonce st a

def classHashAt (be : Backend) (db : Db) (id : BlockId) (a : Nat) : Ans :=
  match stateByBlockID be db id with | .error e => .err e | .ok st => readClassHash st a

def classByHash (be : Backend) (db : Db) (id : BlockId) (c : Nat) : Ans :=
  match stateByBlockID be db id with | .error e => .err e | .ok st => readClass st c

def classAt (be : Backend) (db : Db) (id : BlockId) (a : Nat) : Ans :=
  classAtOf (classHashAt be db id a) (classByHash be db id)

end D9

/-! ## rpc/v8 over the records -/

namespace D8

/-- pending_wrapper.go `Pending` + `sync.MakeEmptyPendingForParent`: the head's header, then (from
height 10 on) the hash out of the header of block `n - 10`. -/
def pending (db : Db) : Option V8.Hd :=
  match db.headsHeader with
  | none => none
  | some h =>
    let n := h.number + 1
    if n < blockHashLag then some (.pending ⟨h.hash, h.root, {}⟩ n)
    else match db.header (n - blockHashLag) with
      | some b => some (.pending ⟨h.hash, h.root, { storage := [(1, n - blockHashLag, b.hash)] }⟩ n)
      | none => none

def blockHeaderByID (db : Db) : BlockId → Except Err V8.Hd
  | .pre => match pending db with | some p => .ok p | none => .error .blockNotFound
  | .latest => match db.headsHeader with | some b => .ok (.stored b) | none => .error .blockNotFound
  | .hash x => match db.headerByHash x with | some b => .ok (.stored b) | none => .error .blockNotFound
  | .number n => match db.header n with | some b => .ok (.stored b) | none => .error .blockNotFound
  | .l1Accepted => .error .invalidParams

def blockByID (db : Db) : BlockId → Except Err V8.Hd
  | .pre => match pending db with | some p => .ok p | none => .error .blockNotFound
  | .latest => match db.head with | some b => .ok (.stored b) | none => .error .blockNotFound
  | .hash x => match db.blockByHash x with | some b => .ok (.stored b) | none => .error .blockNotFound
  | .l1Accepted => .error .invalidParams
  | .number n => match db.blockByNumber n with | some b => .ok (.stored b) | none => .error .blockNotFound

def blockTxnsByNumber (db : Db) : BlockId → Except Err (List Tx)
  | .pre => match pending db with | some _ => .ok [] | none => .error .blockNotFound
  | .number n => match db.txsByNumber n with | some ts => .ok ts | none => .error .blockNotFound
  | _ => .error .blockNotFound

def stateByBlockID (be : Backend) (db : Db) : BlockId → Except Err StateRef
  | .pre => db.headState be
  | .latest => db.headState be
  | .hash x => db.stateAtBlockHash be x
  | .number n => db.stateAtBlockNumber be n
  | .l1Accepted => .error .invalidParams

def blockStatus (db : Db) (n : Nat) : Fin := V8.blockStatus db.nd n

def header (db : Db) (b : Block) : Hdr := V8.header db.nd b

def blockWithTxHashes (db : Db) (id : BlockId) : Ans :=
  match blockHeaderByID db id with
  | .error e => .err e
  | .ok hd =>
    let numID := if id == .pre then id else BlockId.number hd.number
    match blockTxnsByNumber db numID with
    | .error e => .err e
    | .ok ts =>
      match hd with
      | .pending p _ => .pendingBlock p.parent
      | .stored b => .blockHashes (header db b) (ts.map (·.hash))

def blockWithTxs (db : Db) (id : BlockId) : Ans :=
  match blockHeaderByID db id with
  | .error e => .err e
  | .ok hd =>
    let numID := if id == .pre then id else BlockId.number hd.number
    match blockTxnsByNumber db numID with
    | .error e => .err e
    | .ok ts =>
      match hd with
      | .pending p _ => .pendingBlock p.parent
      | .stored b => .blockTxs (header db b) ts

def blockWithReceipts (db : Db) (id : BlockId) : Ans :=
  match blockByID db id with
  | .error e => .err e
  | .ok (.pending p _) => .pendingBlock p.parent
  | .ok (.stored b) =>
    let st := blockStatus db b.number
    .blockReceipts (header db b) (b.txs.map (fun t => (t, st)))

/-- block.go `BlockTransactionCount`: `header.TransactionCount`. -/
def blockTransactionCount (db : Db) (id : BlockId) : Ans :=
  match blockHeaderByID db id with
  | .error e => .err e
  | .ok (.pending _ _) => .num 0
  | .ok (.stored b) => .num b.txs.length

def transactionByHash (db : Db) (x : Nat) : Ans :=
  match db.txByHash x with
  | some t => .tx t
  | none => .err .txnHashNotFound

def transactionByBlockIDAndIndex (db : Db) (id : BlockId) (i : Int) : Ans :=
  if i < 0 then .err .invalidTxIndex else
  match id with
  | .pre => match pending db with | none => .err .blockNotFound | some _ => .err .invalidTxIndex
  | .l1Accepted => .err .invalidParams
  | _ =>
    let n? : Option Nat :=
      match id with
      | .latest => (db.headsHeader).map (·.number)
      | .hash x => db.numberByHash x
      | .number n => some n
      | _ => none
    match n? with
    | none => .err .blockNotFound
    | some n => match db.txByNumberAndIndex n i.toNat with | some t => .tx t | none => .err .invalidTxIndex

def transactionReceiptByHash (db : Db) (x : Nat) : Ans :=
  match db.txLoc x with
  | none => .err .txnHashNotFound
  | some (n, i) =>
    match db.txAndBlockHash n i with
    | none => .err .txnHashNotFound
    | some (t, bh) => .receipt t (blockStatus db n) n bh

def transactionStatus (env : Env) (db : Db) (x : Nat) : StatusAns :=
  match transactionReceiptByHash db x with
  | .receipt t f _ _ => .local (.status f t.reverted)
  | .err .txnHashNotFound =>
    match env.feeder with
    | .absent => .local (.err .txnHashNotFound)
    | .fails => .internal
    | .says fin exec =>
      let fin' := if fin == .notReceived && env.submitted then FFin.received else fin
      match adaptStatusV8 fin' exec with
      | none => .local (.err .txnHashNotFound)
      | some (f, e, r) => .remote f e r
  | a => .local a

def stateUpdate (db : Db) (id : BlockId) : Ans :=
  match id with
  | .l1Accepted => .err .invalidParams
  | .pre => match pending db with | some (.pending p _) => .pendingUpdate p.oldRoot p.diff | _ => .err .blockNotFound
  | _ =>
    let u? : Option Block :=
      match id with
      | .latest => match db.height with | some h => db.update h | none => none
      | .hash x => db.updateByHash x
      | .number n => db.update n
      | _ => none
    match u? with
    | none => .err .blockNotFound
    | some b => .update b.hash b.root b.oldRoot b.diff

def storageAt (be : Backend) (db : Db) (id : BlockId) (a k : Nat) : Ans :=
  match stateByBlockID be db id with
  | .error e => .err e
  | .ok st => if deployedIn st.blocks a then .num (storageIn st.blocks a k) else .err .contractNotFound

def nonce (be : Backend) (db : Db) (id : BlockId) (a : Nat) : Ans :=
  match stateByBlockID be db id with | .error e => .err e | .ok st => readNonce st a

def classHashAt (be : Backend) (db : Db) (id : BlockId) (a : Nat) : Ans :=
  match stateByBlockID be db id with | .error e => .err e | .ok st => readClassHash st a

def classByHash (be : Backend) (db : Db) (id : BlockId) (c : Nat) : Ans :=
  match stateByBlockID be db id with | .error e => .err e | .ok st => readClass st c

def classAt (be : Backend) (db : Db) (id : BlockId) (a : Nat) : Ans :=
  classAtOf (classHashAt be db id a) (classByHash be db id)

end D8

/-! ## Dispatch -/

/-- `withIdV`, with an answer that may be the internal error. -/
def withIdD (cfg : Cfg) (ver : Ver) (ptrV8 : Bool) (raw : RawId) (k : BlockId → DAns) : DAns :=
  match raw with
  | .null =>
    if cfg.nullCrashes && (ver != .v8 || ptrV8) then .ans .crash else .ans (.err .invalidParams)
  | _ =>
    match unmarshalBlockIDV cfg ver raw with
    | .ok id => k id
    | .error e => .ans (.err e)

def blockNumberD (db : Db) : Ans := match db.height with | some n => .num n | none => .err .noBlocks

/-- `BlockHashAndNumber`: `HeadsHeader`. -/
def blockHashAndNumberD (db : Db) : Ans :=
  match db.headsHeader with | some b => .hashNum b.hash b.number | none => .err .noBlocks

/-- The handlers of one package by method (after the block id was decoded). -/
def handleD (be : Backend) (ver : Ver) (db : Db) : Request → (BlockId → DAns)
  | .blockWithTxHashes _ => (match ver with | .v8 => fun id => .ans (D8.blockWithTxHashes db id) | .v9 => fun id => .ans (D9.blockWithTxHashes db id) | .v10 => D10.blockWithTxHashes db)
  | .blockWithTxs _ => (match ver with | .v8 => fun id => .ans (D8.blockWithTxs db id) | .v9 => fun id => .ans (D9.blockWithTxs db id) | .v10 => D10.blockWithTxs db)
  | .blockWithReceipts _ => (match ver with | .v8 => fun id => .ans (D8.blockWithReceipts db id) | .v9 => fun id => .ans (D9.blockWithReceipts db id) | .v10 => D10.blockWithReceipts db)
  | .blockTransactionCount _ => (match ver with | .v8 => fun id => .ans (D8.blockTransactionCount db id) | .v9 => fun id => .ans (D9.blockTransactionCount db id) | .v10 => fun id => .ans (D10.blockTransactionCount db id))
  | .stateUpdate _ f => (match ver with | .v8 => fun id => .ans (D8.stateUpdate db id) | .v9 => fun id => .ans (D9.stateUpdate db id) | .v10 => fun id => .ans (D10.stateUpdate db id f))
  | .transactionByBlockIdAndIndex _ i =>
    (match ver with
     | .v8 => fun id => .ans (D8.transactionByBlockIDAndIndex db id i)
     | .v9 => fun id => .ans (D9.transactionByBlockIDAndIndex db id i)
     | .v10 => fun id => .ans (D10.transactionByBlockIDAndIndex db id i))
  | .storageAt a k _ =>
    (match ver with
     | .v8 => fun id => .ans (D8.storageAt be db id a k)
     | .v9 => fun id => .ans (D9.storageAt be db id a k)
     | .v10 => fun id => .ans (D10.storageAt be db id a k false))
  | .storageAtWithLastUpdate a k _ => fun id => .ans (D10.storageAt be db id a k true)
  | .nonce _ a => (match ver with | .v8 => fun id => .ans (D8.nonce be db id a) | .v9 => fun id => .ans (D9.nonce be db id a) | .v10 => fun id => .ans (D10.nonce be db id a))
  | .classHashAt _ a => (match ver with | .v8 => fun id => .ans (D8.classHashAt be db id a) | .v9 => fun id => .ans (D9.classHashAt be db id a) | .v10 => fun id => .ans (D10.classHashAt be db id a))
  | .classByHash _ c => (match ver with | .v8 => fun id => .ans (D8.classByHash be db id c) | .v9 => fun id => .ans (D9.classByHash be db id c) | .v10 => fun id => .ans (D10.classByHash be db id c))
  | .classAt _ a => (match ver with | .v8 => fun id => .ans (D8.classAt be db id a) | .v9 => fun id => .ans (D9.classAt be db id a) | .v10 => fun id => .ans (D10.classAt be db id a))
  | _ => fun _ => .ans (.err .invalidParams)

/-- The whole read path of one API version over the records (`serveV` of `ModelV.lean`, every
reader call resolved to record reads). -/
def serveDb (cfg : Cfg) (be : Backend) (ver : Ver) (db : Db) (r : Request) : DAns :=
  match r with
  | .blockNumber => .ans (blockNumberD db)
  | .blockHashAndNumber => .ans (blockHashAndNumberD db)
  | .transactionByHash h => .ans (match ver with | .v8 => D8.transactionByHash db h | .v9 => D9.transactionByHash db h | .v10 => D10.transactionByHash db h)
  | .transactionReceipt h => .ans (match ver with | .v8 => D8.transactionReceiptByHash db h | .v9 => D9.transactionReceiptByHash db h | .v10 => D10.transactionReceiptByHash db h)
  | .transactionStatus h =>
    .ans (match ver with
     | .v8 => (match D8.transactionStatus {} db h with | .local a => a | _ => .err .txnHashNotFound)
     | .v9 => D9.transactionStatusFromStore db h
     | .v10 => D10.transactionStatusFromStore db h)
  | .blockWithTxHashes raw | .blockWithTxs raw | .blockWithReceipts raw => withIdD cfg ver true raw (handleD be ver db r)
  | .blockTransactionCount raw | .stateUpdate raw _ => withIdD cfg ver false raw (handleD be ver db r)
  | .transactionByBlockIdAndIndex raw i =>
    if raw == .null && cfg.nullCrashes && i < 0 then .ans (.err .invalidTxIndex)
    else withIdD cfg ver true raw (handleD be ver db r)
  | .storageAt _ _ raw => withIdD cfg ver true raw (handleD be ver db r)
  | .storageAtWithLastUpdate _ _ raw =>
    (match ver with
     | .v10 => withIdD cfg ver true raw (handleD be ver db r)
     | _ => .ans (.err .invalidParams))
  | .nonce raw _ | .classHashAt raw _ | .classByHash raw _ | .classAt raw _ => withIdD cfg ver false raw (handleD be ver db r)

/-- getTransactionStatus with a feeder environment, per package, over the records. -/
def transactionStatusDb (ver : Ver) (env : Env) (db : Db) (h : Nat) : StatusAns :=
  match ver with
  | .v8 => D8.transactionStatus env db h
  | .v9 => D9.transactionStatus env db h
  | .v10 => D10.transactionStatus env db h

/-- `serveFlaggedV` over the records. -/
def serveFlaggedDb (cfg : Cfg) (be : Backend) (ver : Ver) (db : Db) (r : Request) (fl : RawFlags) : DAns :=
  match flagOf ver r with
  | none => if fl == .absent then serveDb cfg be ver db r else .ans (.err .invalidParams)
  | some known =>
    match decodeFlags known fl with
    | .error e => .ans (.err e)
    | .ok set =>
      match r with
      | .storageAt a k raw | .storageAtWithLastUpdate a k raw =>
        if set then serveDb cfg be ver db (.storageAtWithLastUpdate a k raw)
        else serveDb cfg be ver db (.storageAt a k raw)
      | r => serveDb cfg be ver db r

end Juno.C08
