import JunoModel.C08.ProofsDb
import JunoModel.C08.Props
/-!
C08 — property theorems about the RECORD-LEVEL model (`ModelDb.lean`, rounds 5 / 6): the read path of
rpc/v8, rpc/v9, rpc/v10 written over the database records (header / transactions / commitments /
state update per block number, the two hash-keyed index buckets, the retention floor), which is what
the driver answers every request with, and the node run with `--prune-mode`.

* On a database that was never pruned the record-level read path IS the list-level one of
  `ModelV.lean` (`unpruned_db_refines`): every theorem of `Props.lean` / `PropsV.lean` /
  `PropsEnv.lean` is a theorem about the record-level transcription, and the internal-error arm of
  the v0.10 block methods (missing commitments record) is dead there.
* A history WITH prunes leaves the chain of the same history without them, the two index buckets
  minus exactly the swept keys, and a retention floor one below the oldest retained block
  (`pruning_history_simulates_plain_history`, `pruned_index_buckets`).
* For every identifier that does not point below the floor the pruned node answers exactly as its
  never-pruned twin — all methods, all three packages, both backends (`pruned_node_*`); a block
  below the floor is BLOCK_NOT_FOUND for the block methods and the state update
  (`pruned_block_is_not_found`), its transactions are TXN_HASH_NOT_FOUND (`pruned_tx_is_not_found`),
  its state is BLOCK_NOT_FOUND below `floor - 1` (`pruned_state_is_not_found`).
* Two deviations, each a known finding with a witness AND an exact description of the behaviour:
  getTransactionByBlockIdAndIndex reports INVALID_TXN_INDEX for a pruned block
  (`pruned_block_index_request_exact`; the count is still served inside the window of kept headers,
  `pruned_block_count_follows_the_header_window`), and the legacy backend's last_update_block forgets
  exactly the writes below the floor (`pruned_node_last_update_exact`).
* `serve_pruned_node_retained` is the end-to-end form (wire request → answer) of the retained case.
-/
namespace Juno.C08.Props
open Juno.C08

/-! ## The database that was never pruned -/

/-- After any fresh history on a node that never prunes, the record-level read path (what the
driver computes) answers every request — plain, with response flags, and getTransactionStatus under
any feeder environment — exactly as the package transcriptions of `ModelV.lean`, and never with
the internal error. -/
theorem unpruned_db_refines (cfg : Cfg) (be : Backend) (ver : Ver) (ops : List Op) (fr : FreshFrom {} ops)
    (r : Request) (fl : RawFlags) (env : Env) (h : Nat) :
    let db := Db.ofNode (run ops)
    serveDb cfg be ver db r = .ans (serveV cfg be ver (run ops) r) ∧
    serveFlaggedDb cfg be ver db r fl = .ans (serveFlaggedV cfg be ver (run ops) r fl) ∧
    transactionStatusDb ver env db h = transactionStatusV ver env (run ops) h := by
  intro db
  have u : db.Unpruned := Db.ofNode_unpruned _
  exact ⟨serveDb_u u (run_inv ops fr).1 (run_wellFormed ops) cfg be ver r,
    serveFlaggedDb_u u (run_inv ops fr).1 (run_wellFormed ops) cfg be ver r fl,
    transactionStatusDb_u u ver env h⟩

/-- The same for a node that prunes but has not pruned yet (retention floor unseeded or seeded on
the unpruned database): seeding the floor at 0 changes no answer. -/
theorem seeded_unpruned_db_refines (cfg : Cfg) (be : Backend) (ver : Ver) (ops : List Op) (fr : FreshFrom {} ops)
    (r : Request) :
    serveDb cfg be ver (Db.ofNode (run ops)).seed r = .ans (serveV cfg be ver (run ops) r) := by
  have u : (Db.ofNode (run ops)).seed.Unpruned := by
    refine ⟨rfl, rfl, Or.inr ?_⟩
    by_cases hl : 0 < (run ops).chain.length <;> simp [Db.seed, Db.ofNode, Db.oldestRetained, Db.len, hl]
  exact serveDb_u u (run_inv ops fr).1 (run_wellFormed ops) cfg be ver r

/-! ## Histories with prunes -/

/-- Every valid history of a pruning node (`ValidFrom`: stored blocks are new, the oldest retained
block is never reverted, a prune keeps the head) leaves the CHAIN and L1 head of the same history
without the prunes; the head block is retained; the retention floor, once seeded, is one below the
oldest retained block; and the plain history is fresh (so every theorem over `run` applies to the
twin). -/
theorem pruning_history_simulates_plain_history (ops : List DOp) (v : ValidFrom {} ops) :
    let db := runDb ops
    let nd := run (plainOps ops)
    db.nd.chain = nd.chain ∧ db.nd.l1 = nd.l1 ∧ db.nd.l1Zero = nd.l1Zero ∧
      (db.prunedBelow = 0 ∨ db.prunedBelow < nd.chain.length) ∧ db.noCommit = [] ∧
      (db.floor = none ∨ db.floor = some (db.prunedBelow - 1)) ∧ FreshFrom {} (plainOps ops) := by
  obtain ⟨s, f, fr⟩ := runDb_sim ops v
  exact ⟨s.chain, s.l1, s.l1z, s.head, s.nc, f, fr⟩

/-- The two hash-keyed index buckets of the pruned node, entry by entry: the hash of block `n` is
indexed unless `n + 1 < prunedBelow` (the sweep keeps the entry of the block right below the
floor), a transaction of block `n` is indexed unless `n < prunedBelow`, and a hash that is not on
the chain is in neither bucket. -/
theorem pruned_index_buckets (ops : List DOp) (v : ValidFrom {} ops) (n i : Nat) (b : Block) (t : Tx)
    (hb : (run (plainOps ops)).chain[n]? = some b) (ht : b.txs[i]? = some t) :
    let db := runDb ops
    db.numberByHash b.hash = (if n + 1 < db.prunedBelow then none else some n) ∧
    db.txLoc t.hash = (if n < db.prunedBelow then none else some (n, i)) ∧
    (∀ x, numberByHash (run (plainOps ops)) x = none → db.numberByHash x = none) ∧
    (∀ x, numberAndIndexByTxHash (run (plainOps ops)) x = none → db.txLoc x = none) := by
  have p := runDb_pruned ops v
  exact ⟨pr_numberByHash_block p hb, pr_txLoc_tx p hb ht, fun x h => pr_numberByHash_none p h,
    fun x h => pr_txLoc_none p h⟩

/-! ## What the pruned node answers -/

/-- Block methods, count, state update and transaction by index, every package: for an identifier
that does not point below the floor (`RetainedId`: a number ≥ floor, a hash of no block or of a
retained block, `latest`, `l1_accepted` with the L1 head at or above the floor, the pending tag)
the pruned node answers exactly as the node that never pruned. -/
theorem pruned_node_block_methods_retained (ops : List DOp) (v : ValidFrom {} ops) (be : Backend) (ver : Ver)
    (id : BlockId) (raw : RawId) (f : List Nat) (i : Int)
    (r : RetainedId (runDb ops) (run (plainOps ops)) id) :
    let db := runDb ops
    let nd := run (plainOps ops)
    handleD be ver db (.blockWithTxHashes raw) id = .ans (handleV be ver nd (.blockWithTxHashes raw) id) ∧
    handleD be ver db (.blockWithTxs raw) id = .ans (handleV be ver nd (.blockWithTxs raw) id) ∧
    handleD be ver db (.blockWithReceipts raw) id = .ans (handleV be ver nd (.blockWithReceipts raw) id) ∧
    handleD be ver db (.blockTransactionCount raw) id = .ans (handleV be ver nd (.blockTransactionCount raw) id) ∧
    handleD be ver db (.stateUpdate raw f) id = .ans (handleV be ver nd (.stateUpdate raw f) id) ∧
    handleD be ver db (.transactionByBlockIdAndIndex raw i) id =
      .ans (handleV be ver nd (.transactionByBlockIdAndIndex raw i) id) := by
  dsimp only
  have p := runDb_pruned ops v
  refine ⟨?_, ?_, ?_, ?_, ?_, ?_⟩
  · cases ver <;> simp only [handleD, handleV, (d8_blockMethods_r p r).1, d9_blockWithTxHashes_r p r, d10_blockWithTxHashes_r p r]
  · cases ver <;> simp only [handleD, handleV, (d8_blockMethods_r p r).2.1, d9_blockWithTxs_r p r, d10_blockWithTxs_r p r]
  · cases ver <;> simp only [handleD, handleV, (d8_blockMethods_r p r).2.2.1, d9_blockWithReceipts_r p r, d10_blockWithReceipts_r p r]
  · cases ver <;> simp only [handleD, handleV, (d8_blockMethods_r p r).2.2.2, d9_blockTransactionCount_r p r, d10_blockTransactionCount_r p r]
  · cases ver <;> simp only [handleD, handleV, d8_stateUpdate_r p r, d9_stateUpdate_r p r, d10_stateUpdate_r p r]
  · cases ver <;> simp only [handleD, handleV, d8_txByIdx_r p r, d9_txByIdx_r p r, d10_txByIdx_r p r]

/-- State methods, every package, both backends: state is served from one block BELOW the floor on
(`RetainedStateId`); there the pruned node answers as the node that never pruned. -/
theorem pruned_node_state_methods_retained (ops : List DOp) (v : ValidFrom {} ops) (be : Backend) (ver : Ver)
    (id : BlockId) (raw : RawId) (a c k : Nat)
    (r : RetainedStateId (runDb ops) (run (plainOps ops)) id) :
    let db := runDb ops
    let nd := run (plainOps ops)
    handleD be ver db (.storageAt a k raw) id = .ans (handleV be ver nd (.storageAt a k raw) id) ∧
    handleD be ver db (.nonce raw a) id = .ans (handleV be ver nd (.nonce raw a) id) ∧
    handleD be ver db (.classHashAt raw a) id = .ans (handleV be ver nd (.classHashAt raw a) id) ∧
    handleD be ver db (.classByHash raw c) id = .ans (handleV be ver nd (.classByHash raw c) id) ∧
    handleD be ver db (.classAt raw a) id = .ans (handleV be ver nd (.classAt raw a) id) := by
  dsimp only
  have p := runDb_pruned ops v
  have h8 := d8_stateMethods_r p r be a c k
  have h9 := d9_stateMethods_r p r be a c k
  have h10 := d10_stateMethods_r p r be a c k false (Or.inl rfl)
  refine ⟨?_, ?_, ?_, ?_, ?_⟩
  · cases ver <;> simp only [handleD, handleV, h8.2.2.2.2, h9.2.2.2.2, h10.2.2.2.2]
  · cases ver <;> simp only [handleD, handleV, h8.1, h9.1, h10.1]
  · cases ver <;> simp only [handleD, handleV, h8.2.1, h9.2.1, h10.2.1]
  · cases ver <;> simp only [handleD, handleV, h8.2.2.1, h9.2.2.1, h10.2.2.1]
  · cases ver <;> simp only [handleD, handleV, h8.2.2.2.1, h9.2.2.2.1, h10.2.2.2.1]

/-
Full-strength statement (does NOT hold of juno): the same with INCLUDE_LAST_UPDATE_BLOCK on BOTH
backends. It fails on the legacy backend of a node that has pruned: see
`legacy_last_update_forgets_writes_below_the_floor`.
-/
/-- v0.10 getStorageAt with INCLUDE_LAST_UPDATE_BLOCK on a pruned node answers as the never-pruned
twin — on the new backend, or when nothing was pruned yet. -/
theorem pruned_node_last_update_partial (ops : List DOp) (v : ValidFrom {} ops) (be : Backend)
    (id : BlockId) (raw : RawId) (a k : Nat)
    (r : RetainedStateId (runDb ops) (run (plainOps ops)) id)
    (hbe : be = .new ∨ (runDb ops).prunedBelow = 0) :
    handleD be .v10 (runDb ops) (.storageAtWithLastUpdate a k raw) id =
      .ans (handleV be .v10 (run (plainOps ops)) (.storageAtWithLastUpdate a k raw) id) := by
  have p := runDb_pruned ops v
  simp only [handleD, handleV, (d10_stateMethods_r p r be a 0 k true (Or.inr hbe)).2.2.2.2]

/-- EXACT behaviour of the flag on the LEGACY backend of a pruned node (what finding 7 is): the value
is the twin's, and last_update_block is the twin's when that block is at or above the floor and 0
("never updated") when it lies below — the per-slot history log was deleted up to the floor, nothing
else changes. With `pruned_node_last_update_partial` (new backend) this describes the flag on every
pruned node for every retained state identifier. -/
theorem pruned_node_last_update_exact (ops : List DOp) (v : ValidFrom {} ops) (id : BlockId) (raw : RawId) (a k : Nat)
    (r : RetainedStateId (runDb ops) (run (plainOps ops)) id) :
    handleD .legacy .v10 (runDb ops) (.storageAtWithLastUpdate a k raw) id =
      .ans (match handleV .legacy .v10 (run (plainOps ops)) (.storageAtWithLastUpdate a k raw) id with
            | .valueAt x j => .valueAt x (if (runDb ops).prunedBelow ≤ j then j else 0)
            | x => x) := by
  have p := runDb_pruned ops v
  have e := d10_stateByBlockID_r p r .legacy
  simp only [handleD, handleV, D10.storageAt, V10.storageAt, e]
  cases hst : V10.stateByBlockID .legacy (run (plainOps ops)) id with
  | error err => rfl
  | ok st =>
    obtain ⟨m, hm⟩ := v10_state_blocks hst
    have hx : (runDb ops).lastUpdate .legacy st.blocks a k =
        if (runDb ops).prunedBelow ≤ lastUpdateIn .legacy st.blocks a k then lastUpdateIn .legacy st.blocks a k else 0 := by
      simp only [Db.lastUpdate, lastUpdateIn, lastLoggedIn]
      rw [hm]
      exact lastLoggedRevFrom_exact _ _ a k (wf_take_pairwise p.wf m)
    simp only [D10.storageOf, hx]
    generalize lastUpdateIn .legacy st.blocks a k = j
    cases hk : st.kind <;>
      by_cases h1 : storageIn st.blocks a k = 0 <;> by_cases h2 : deployedIn st.blocks a = true <;>
      by_cases h3 : id = .latest <;> simp [h1, h2, h3]

/-- By-hash methods and getTransactionStatus under any feeder environment: for a transaction hash
that does not point into a pruned block (`RetainedTx`: not on the chain at all, or in a retained
block) the pruned node answers as the node that never pruned. -/
theorem pruned_node_by_hash_retained (ops : List DOp) (v : ValidFrom {} ops) (ver : Ver) (env : Env) (x : Nat)
    (r : RetainedTx (runDb ops) (run (plainOps ops)) x) (cfg : Cfg) (be : Backend) :
    let db := runDb ops
    let nd := run (plainOps ops)
    serveDb cfg be ver db (.transactionByHash x) = .ans (serveV cfg be ver nd (.transactionByHash x)) ∧
    serveDb cfg be ver db (.transactionReceipt x) = .ans (serveV cfg be ver nd (.transactionReceipt x)) ∧
    transactionStatusDb ver env db x = transactionStatusV ver env nd x := by
  dsimp only
  have p := runDb_pruned ops v
  refine ⟨?_, ?_, ?_⟩
  · cases ver <;> simp only [serveDb, serveV, (d8_byHash_r p r).1, (d9_byHash_r p r).1, (d10_byHash_r p r).1]
  · cases ver <;> simp only [serveDb, serveV, (d8_byHash_r p r).2, (d9_byHash_r p r).2.1, (d10_byHash_r p r).2.1]
  · cases ver <;> simp only [transactionStatusDb, transactionStatusV, d8_status_r p r, d9_status_r p r, d10_status_r p r]

/-- End to end on the pruned node, from the WIRE form of the request: whenever the block-id argument
is refused by the decoder, or decodes to an identifier that does not point below the floor
(`RetainedId`), `serveDb` — decoding, null handling, dispatch, handler, record reads — answers every
block / index / state-update / state method exactly as `serveV` on the node that never pruned; and
the methods without a block id do so for retained transaction hashes (`pruned_node_by_hash_retained`). -/
theorem serve_pruned_node_retained (ops : List DOp) (v : ValidFrom {} ops) (cfg : Cfg) (be : Backend) (ver : Ver)
    (raw : RawId) (f : List Nat) (i : Int) (a k c : Nat)
    (hr : ∀ id, unmarshalBlockIDV cfg ver raw = .ok id → RetainedId (runDb ops) (run (plainOps ops)) id) :
    let db := runDb ops
    let nd := run (plainOps ops)
    serveDb cfg be ver db (.blockWithTxHashes raw) = .ans (serveV cfg be ver nd (.blockWithTxHashes raw)) ∧
    serveDb cfg be ver db (.blockWithTxs raw) = .ans (serveV cfg be ver nd (.blockWithTxs raw)) ∧
    serveDb cfg be ver db (.blockWithReceipts raw) = .ans (serveV cfg be ver nd (.blockWithReceipts raw)) ∧
    serveDb cfg be ver db (.blockTransactionCount raw) = .ans (serveV cfg be ver nd (.blockTransactionCount raw)) ∧
    serveDb cfg be ver db (.stateUpdate raw f) = .ans (serveV cfg be ver nd (.stateUpdate raw f)) ∧
    serveDb cfg be ver db (.transactionByBlockIdAndIndex raw i) = .ans (serveV cfg be ver nd (.transactionByBlockIdAndIndex raw i)) ∧
    serveDb cfg be ver db (.storageAt a k raw) = .ans (serveV cfg be ver nd (.storageAt a k raw)) ∧
    serveDb cfg be ver db (.nonce raw a) = .ans (serveV cfg be ver nd (.nonce raw a)) ∧
    serveDb cfg be ver db (.classHashAt raw a) = .ans (serveV cfg be ver nd (.classHashAt raw a)) ∧
    serveDb cfg be ver db (.classByHash raw c) = .ans (serveV cfg be ver nd (.classByHash raw c)) ∧
    serveDb cfg be ver db (.classAt raw a) = .ans (serveV cfg be ver nd (.classAt raw a)) := by
  dsimp only
  have hb := fun id (hd : unmarshalBlockIDV cfg ver raw = .ok id) =>
    pruned_node_block_methods_retained ops v be ver id raw f i (hr id hd)
  have hs := fun id (hd : unmarshalBlockIDV cfg ver raw = .ok id) =>
    pruned_node_state_methods_retained ops v be ver id raw a c k (hr id hd).state
  refine ⟨?_, ?_, ?_, ?_, ?_, ?_, ?_, ?_, ?_, ?_, ?_⟩
  · exact withIdD_ans_at cfg ver true raw _ _ (fun id hd => (hb id hd).1)
  · exact withIdD_ans_at cfg ver true raw _ _ (fun id hd => (hb id hd).2.1)
  · exact withIdD_ans_at cfg ver true raw _ _ (fun id hd => (hb id hd).2.2.1)
  · exact withIdD_ans_at cfg ver false raw _ _ (fun id hd => (hb id hd).2.2.2.1)
  · exact withIdD_ans_at cfg ver false raw _ _ (fun id hd => (hb id hd).2.2.2.2.1)
  · simp only [serveDb, serveV]
    split
    · rfl
    · exact withIdD_ans_at cfg ver true raw _ _ (fun id hd => (hb id hd).2.2.2.2.2)
  · exact withIdD_ans_at cfg ver true raw _ _ (fun id hd => (hs id hd).1)
  · exact withIdD_ans_at cfg ver false raw _ _ (fun id hd => (hs id hd).2.1)
  · exact withIdD_ans_at cfg ver false raw _ _ (fun id hd => (hs id hd).2.2.1)
  · exact withIdD_ans_at cfg ver false raw _ _ (fun id hd => (hs id hd).2.2.2.1)
  · exact withIdD_ans_at cfg ver false raw _ _ (fun id hd => (hs id hd).2.2.2.2)

/-- The head methods do not depend on pruning. -/
theorem pruned_node_head_methods (ops : List DOp) (v : ValidFrom {} ops) (cfg : Cfg) (be : Backend) (ver : Ver) :
    serveDb cfg be ver (runDb ops) .blockNumber = .ans (serveV cfg be ver (run (plainOps ops)) .blockNumber) ∧
    serveDb cfg be ver (runDb ops) .blockHashAndNumber = .ans (serveV cfg be ver (run (plainOps ops)) .blockHashAndNumber) := by
  have p := runDb_pruned ops v
  constructor
  · simp only [serveDb, serveV, blockNumberD, blockNumberV, pr_height p] <;> (first | done | (congr 1 <;> mrfl))
  · simp only [serveDb, serveV, blockHashAndNumberD, blockHashAndNumberV, pr_headsHeader p] <;> (first | done | (congr 1 <;> mrfl))

/-- A block below the floor, asked for by number: the block methods and getStateUpdate of every
package answer BLOCK_NOT_FOUND (the node does not hold the block any more) — also inside the window
of ten headers the pruner keeps for `get_block_hash`. -/
theorem pruned_block_is_not_found (ops : List DOp) (v : ValidFrom {} ops) (n : Nat) (f : List Nat)
    (h : n < (runDb ops).prunedBelow) :
    let db := runDb ops
    D10.blockWithTxHashes db (.number n) = .ans (.err .blockNotFound) ∧
    D10.blockWithTxs db (.number n) = .ans (.err .blockNotFound) ∧
    D10.blockWithReceipts db (.number n) = .ans (.err .blockNotFound) ∧
    D10.stateUpdate db (.number n) f = .err .blockNotFound ∧
    D9.blockWithTxHashes db (.number n) = .err .blockNotFound ∧
    D9.blockWithTxs db (.number n) = .err .blockNotFound ∧
    D9.blockWithReceipts db (.number n) = .err .blockNotFound ∧
    D9.stateUpdate db (.number n) = .err .blockNotFound ∧
    D8.blockWithReceipts db (.number n) = .err .blockNotFound ∧
    D8.stateUpdate db (.number n) = .err .blockNotFound := by
  dsimp only
  have p := runDb_pruned ops v
  obtain ⟨hbody, hupd, _, hblk, hhs, hts, _⟩ := pr_body_p (db := runDb ops) h
  have hnum : ∀ hd, (runDb ops).header n = some hd → hd.number = n := by
    intro hd hh
    simp only [Db.header] at hh
    split at hh
    · rw [p.s.chain] at hh; exact p.wf n hd hh
    · cases hh
  refine ⟨?_, ?_, ?_, ?_, ?_, ?_, ?_, ?_, ?_, ?_⟩
  · simp only [D10.blockWithTxHashes, D10.blockHeaderByID]
    cases hq : (runDb ops).header n with
    | none => simp
    | some hd => simp [hnum hd hq, hhs]
  · simp only [D10.blockWithTxs, D10.blockHeaderByID]
    cases hq : (runDb ops).header n with
    | none => simp
    | some hd => simp [hnum hd hq, hts]
  · simp [D10.blockWithReceipts, D10.blockByID, hblk]
  · simp [D10.stateUpdate, hupd]
  · simp only [D9.blockWithTxHashes, D9.blockHeaderByID]
    cases hq : (runDb ops).header n with
    | none => simp
    | some hd => simp [hnum hd hq, hhs]
  · simp only [D9.blockWithTxs, D9.blockHeaderByID]
    cases hq : (runDb ops).header n with
    | none => simp
    | some hd => simp [hnum hd hq, hts]
  · simp [D9.blockWithReceipts, D9.blockByID, hblk]
  · simp [D9.stateUpdate, hupd]
  · simp [D8.blockWithReceipts, D8.blockByID, hblk]
  · simp [D8.stateUpdate, hupd]

/-- A transaction of a block below the floor is gone from the hash index: by hash, receipt and the
local status are TXN_HASH_NOT_FOUND in every package. -/
theorem pruned_tx_is_not_found (ops : List DOp) (v : ValidFrom {} ops) (n i : Nat) (b : Block) (t : Tx)
    (hb : (run (plainOps ops)).chain[n]? = some b) (ht : b.txs[i]? = some t) (h : n < (runDb ops).prunedBelow) :
    let db := runDb ops
    D10.transactionByHash db t.hash = .err .txnHashNotFound ∧
    D10.transactionReceiptByHash db t.hash = .err .txnHashNotFound ∧
    D10.transactionStatusFromStore db t.hash = .err .txnHashNotFound ∧
    D9.transactionByHash db t.hash = .err .txnHashNotFound ∧
    D9.transactionReceiptByHash db t.hash = .err .txnHashNotFound ∧
    D9.transactionStatusFromStore db t.hash = .err .txnHashNotFound ∧
    D8.transactionByHash db t.hash = .err .txnHashNotFound ∧
    D8.transactionReceiptByHash db t.hash = .err .txnHashNotFound := by
  dsimp only
  have p := runDb_pruned ops v
  have hl : (runDb ops).txLoc t.hash = none := by rw [pr_txLoc_tx p hb ht]; simp [h]
  simp [D10.transactionByHash, D10.transactionReceiptByHash, D10.transactionStatusFromStore,
    D9.transactionByHash, D9.transactionReceiptByHash, D9.transactionStatusFromStore,
    D8.transactionByHash, D8.transactionReceiptByHash, Db.txByHash, hl]

/-- State below `floor - 1` is refused: by number on both backends whether or not the retention
floor was seeded, and by the hash of such a block (its index entry is swept). -/
theorem pruned_state_is_not_found (ops : List DOp) (v : ValidFrom {} ops) (be : Backend) (n : Nat) (b : Block)
    (hb : (run (plainOps ops)).chain[n]? = some b) (h : n + 1 < (runDb ops).prunedBelow) (h0 : b.hash ≠ 0) :
    (runDb ops).stateAtBlockNumber be n = .error .blockNotFound ∧
    (runDb ops).stateAtBlockHash be b.hash = .error .blockNotFound := by
  have p := runDb_pruned ops v
  exact ⟨pr_stateAtNumber_p p h be, pr_stateAtHash_p p hb h h0 be⟩

/-! ## The two deviations on a pruned node (known findings) -/

/-- A pruning node: three blocks with one transaction each, contract 0x105 deployed in block 0 with
slot 7 = 9; the retention floor seeded; blocks 0 and 1 pruned. -/
def prunedOps : List DOp :=
  [ .store { number := 0, hash := 0xa0, parent := 0, root := 0xe0, oldRoot := 0, txs := [⟨0xf0, 0x13, false⟩],
             diff := { deployed := [(0x105, 0xc0)], storage := [(0x105, 7, 9)], declared := [0xc0] } },
    .seed,
    .store { number := 1, hash := 0xa1, parent := 0xa0, root := 0xe1, oldRoot := 0xe0, txs := [⟨0xf1, 0x13, false⟩], diff := {} },
    .store { number := 2, hash := 0xa2, parent := 0xa1, root := 0xe2, oldRoot := 0xe1, txs := [⟨0xf2, 0x13, false⟩], diff := {} },
    .store { number := 3, hash := 0xa3, parent := 0xa2, root := 0xe3, oldRoot := 0xe2, txs := [⟨0xf3, 0x13, false⟩], diff := {} },
    .prune 2,
    .setL1 (some 2) ]

/-
Full-strength statement (does NOT hold of juno): for n below the floor
  D10.transactionByBlockIDAndIndex db (.number n) i = .err .blockNotFound
(as the block methods of the same identifier answer, `pruned_block_is_not_found`).
-/
/-- Witness: block 1 is pruned; getBlockWithTxHashes says BLOCK_NOT_FOUND, getBlockTransactionCount
(read off the header, which the pruner keeps for ten more blocks) still says 1, and
getTransactionByBlockIdAndIndex for index 0 says INVALID_TXN_INDEX — by number in all three packages,
and by the hash of block 1 (the one hash-index entry the sweep keeps). -/
theorem pruned_block_index_request_reports_invalid_index :
    let db := runDb prunedOps
    db.prunedBelow = 2 ∧ db.floor = some 1 ∧
    D10.blockWithTxHashes db (.number 1) = .ans (.err .blockNotFound) ∧
    D10.blockTransactionCount db (.number 1) = .num 1 ∧
    D10.transactionByBlockIDAndIndex db (.number 1) 0 = .err .invalidTxIndex ∧
    D9.transactionByBlockIDAndIndex db (.number 1) 0 = .err .invalidTxIndex ∧
    D8.transactionByBlockIDAndIndex db (.number 1) 0 = .err .invalidTxIndex ∧
    D10.transactionByBlockIDAndIndex db (.hash 0xa1) 0 = .err .invalidTxIndex ∧
    D10.transactionByBlockIDAndIndex db (.hash 0xa0) 0 = .err .blockNotFound ∧
    D10.transactionByBlockIDAndIndex db (.number 2) 0 = .tx ⟨0xf2, 0x13, false⟩ := by
  decide

/-- EXACT behaviour of getTransactionByBlockIdAndIndex for a block below the floor asked for by
number (what the full-strength statement above should say BLOCK_NOT_FOUND for): every package
answers INVALID_TXN_INDEX for every index — the transactions record is gone and ANY failure of
`TransactionByBlockNumberAndIndex` is mapped to that error (after any history at all). -/
theorem pruned_block_index_request_exact (ops : List DOp) (n : Nat) (i : Int)
    (h : n < (runDb ops).prunedBelow) :
    D10.transactionByBlockIDAndIndex (runDb ops) (.number n) i = .err .invalidTxIndex ∧
    D9.transactionByBlockIDAndIndex (runDb ops) (.number n) i = .err .invalidTxIndex ∧
    D8.transactionByBlockIDAndIndex (runDb ops) (.number n) i = .err .invalidTxIndex := by
  have hx := (pr_body_p (db := runDb ops) h).2.2.2.2.2.2 i.toNat
  by_cases hi : i < 0 <;>
    simp [D10.transactionByBlockIDAndIndex, D9.transactionByBlockIDAndIndex, D8.transactionByBlockIDAndIndex, hi, hx]

/-- EXACT behaviour of getBlockTransactionCount by number on a pruned node (v0.9 / v0.10 read the
count off the header record): the true count as long as the HEADER is kept — the pruner keeps the
headers of the ten blocks below the floor for `get_block_hash` — and BLOCK_NOT_FOUND below that
window. So for `floor - 10 ≤ n < floor` the count is answered for a block whose transactions every
other method reports as not found. -/
theorem pruned_block_count_follows_the_header_window (ops : List DOp) (v : ValidFrom {} ops) (n : Nat) :
    let db := runDb ops
    let want : Ans :=
      if db.prunedBelow ≤ n + blockHashLag then
        (match (run (plainOps ops)).chain[n]? with | some b => .num b.txs.length | none => .err .blockNotFound)
      else .err .blockNotFound
    D10.blockTransactionCount db (.number n) = want ∧ D9.blockTransactionCount db (.number n) = want := by
  dsimp only
  have p := runDb_pruned ops v
  by_cases hk : (runDb ops).prunedBelow ≤ n + blockHashLag
  · simp only [D10.blockTransactionCount, D9.blockTransactionCount, Db.txCountByNumber, Db.header, Db.headerKept, hk,
      decide_true, if_true, p.s.chain]
    cases (run (plainOps ops)).chain[n]? <;> simp
  · simp [D10.blockTransactionCount, D9.blockTransactionCount, Db.txCountByNumber, Db.header, Db.headerKept, hk]

/-- A second pruning node: contract 0x105 deployed in block 0, its slot 7 written (9) in block 1,
two more blocks, then blocks 0 and 1 pruned (retention floor never seeded). -/
def prunedOps2 : List DOp :=
  [ .store { number := 0, hash := 0xa0, parent := 0, root := 0xe0, oldRoot := 0, txs := [],
             diff := { deployed := [(0x105, 0xc0)], declared := [0xc0] } },
    .store { number := 1, hash := 0xa1, parent := 0xa0, root := 0xe1, oldRoot := 0xe0, txs := [],
             diff := { storage := [(0x105, 7, 9)] } },
    .store { number := 2, hash := 0xa2, parent := 0xa1, root := 0xe2, oldRoot := 0xe1, txs := [], diff := {} },
    .store { number := 3, hash := 0xa3, parent := 0xa2, root := 0xe3, oldRoot := 0xe2, txs := [], diff := {} },
    .prune 2 ]

/-- Witness: slot 7 of 0x105 was last written in block 1, which is pruned. Both backends still
serve the value 9 at `latest`; the new backend reports last_update_block 1, the legacy backend 0
("never updated"); before the prune both report 1. -/
theorem legacy_last_update_forgets_writes_below_the_floor :
    let db := runDb prunedOps2
    let before := runDb (prunedOps2.take 4)
    D10.storageAt .new db .latest 0x105 7 true = .valueAt 9 1 ∧
    D10.storageAt .legacy db .latest 0x105 7 true = .valueAt 9 0 ∧
    D10.storageAt .legacy db .latest 0x105 7 false = .num 9 ∧
    D10.storageAt .legacy before .latest 0x105 7 true = .valueAt 9 1 ∧
    D10.storageAt .new before .latest 0x105 7 true = .valueAt 9 1 := by
  decide

/-! ## Non-vacuity -/

example : ValidFrom {} prunedOps := by
  simp [ValidFrom, prunedOps, applyDOp, Db.store, Db.seed, Db.oldestRetained, Db.len, store, succeeds,
    storageOk, headNumberAndHash, FreshBlock, isSystemContract, deployedIn, deploysInDiff, lookup2]
example : (1 : Nat) < (runDb prunedOps).prunedBelow ∧ (runDb prunedOps).prunedBelow ≤ 1 + blockHashLag := by decide
example : serveDb {} .new .v10 (runDb prunedOps) (.blockWithTxHashes (.obj none (some 2))) =
      .ans (serveV {} .new .v10 (run (plainOps prunedOps)) (.blockWithTxHashes (.obj none (some 2)))) ∧
    serveDb {} .new .v10 (runDb prunedOps) (.blockWithTxHashes (.obj none (some 2))) ≠ .ans (.err .blockNotFound) ∧
    serveDb {} .legacy .v9 (runDb prunedOps) (.nonce (.tag "l1_accepted") 0x105) = .ans (.num 0) ∧
    serveDb {} .legacy .v9 (runDb prunedOps) (.blockWithTxs (.obj none (some 0))) = .ans (.err .blockNotFound) := by decide
example : RetainedStateId (runDb prunedOps2) (run (plainOps prunedOps2)) .latest ∧
    handleV .legacy .v10 (run (plainOps prunedOps2)) (.storageAtWithLastUpdate 0x105 7 (.tag "latest")) .latest = .valueAt 9 1 ∧
    (runDb prunedOps2).prunedBelow = 2 := ⟨trivial, by decide, by decide⟩
example : ValidFrom {} prunedOps2 := by
  simp [ValidFrom, prunedOps2, applyDOp, Db.store, store, succeeds,
    storageOk, headNumberAndHash, FreshBlock, isSystemContract, deployedIn, deploysInDiff, lookup2]
example : (runDb prunedOps).nd.chain.length = 4 ∧ (runDb prunedOps).nd.numByHash.map (·.1) = [0xa3, 0xa2, 0xa1] ∧
    (runDb prunedOps).nd.txLoc.map (·.1) = [0xf3, 0xf2] := by decide
example : RetainedId (runDb prunedOps) (run (plainOps prunedOps)) (.number 2) ∧
    RetainedId (runDb prunedOps) (run (plainOps prunedOps)) .l1Accepted ∧
    RetainedStateId (runDb prunedOps) (run (plainOps prunedOps)) (.number 1) ∧
    RetainedTx (runDb prunedOps) (run (plainOps prunedOps)) 0xf2 ∧
    ¬ RetainedTx (runDb prunedOps) (run (plainOps prunedOps)) 0xf1 := by
  have hp : (runDb prunedOps).prunedBelow = 2 := by decide
  refine ⟨by show (runDb prunedOps).prunedBelow ≤ 2; omega, ?_, by show (runDb prunedOps).prunedBelow ≤ 1 + 1; omega, ?_, ?_⟩
  · intro n hn
    have h2 : l1AcceptedNumber (run (plainOps prunedOps)) = some 2 := by decide
    rw [h2] at hn; cases hn; omega
  · intro n i hn
    have : n = 2 := by
      have h2 : numberAndIndexByTxHash (run (plainOps prunedOps)) 0xf2 = some (2, 0) := by decide
      rw [h2] at hn; cases hn; rfl
    subst this; omega
  · intro h
    have h2 : numberAndIndexByTxHash (run (plainOps prunedOps)) 0xf1 = some (1, 0) := by decide
    have := h 1 0 h2
    omega
example : (runDb prunedOps).stateAtBlockNumber .legacy 0 = .error .blockNotFound ∧
    D10.nonce .new (runDb prunedOps) (.number 1) 0x105 = .num 0 ∧
    D10.storageAt .legacy (runDb prunedOps) (.hash 0xa1) 0x105 7 false = .num 9 := ⟨by rfl, by decide, by decide⟩
example : serveDb {} .new .v10 (Db.ofNode (run exampleOps)) (.blockWithTxHashes (.tag "latest")) =
    .ans (serveV {} .new .v10 (run exampleOps) (.blockWithTxHashes (.tag "latest"))) := by decide

end Juno.C08.Props
