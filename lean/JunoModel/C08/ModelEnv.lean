import JunoModel.C08.Model
/-!
C08 — the parts of the read path that sit between the wire and the handlers of `Model.lean`, and
between the handlers and what is outside the node (round 4):

* the feeder-gateway fallback of `starknet_getTransactionStatus` (`TransactionStatus` of rpc/v8,
  rpc/v9, rpc/v10 + `adaptTransactionStatus` / `AdaptTransactionStatus` + the submitted-transactions
  cache): what the node answers for a hash its own chain does not hold, and that the fallback is
  never consulted for a hash the chain does hold;
* the response-flag parameters of v0.10 (`StorageAtResponseFlags.UnmarshalJSON`,
  `ResponseFlags.UnmarshalJSON`) and what `jsonrpc.Server.buildArguments` does with an optional
  parameter that is absent / `null`;
* the method tables of rpc/handlers.go as DATA (parameter names, order, optionality per version)
  and the arity / name checks of `buildArguments` over them.

Core Lean only (linked into `c08drv`).
-/
namespace Juno.C08

/-! ## Feeder fallback of getTransactionStatus -/

/-- `starknet.FinalityStatus` as the feeder client delivers it (`unknown`: a value outside the
enumeration, e.g. the zero value). -/
inductive FFin | acceptedOnL2 | acceptedOnL1 | notReceived | received | preConfirmed | candidate | unknown
deriving Repr, DecidableEq, Inhabited

/-- `starknet.ExecutionStatus` (`none`: the zero value, no execution status delivered). -/
inductive FExec | none | succeeded | reverted | rejected
deriving Repr, DecidableEq, Inhabited

/-- The feeder client of the handler: not configured (`h.feederClient == nil`), failing, or
answering. -/
inductive Feeder
  | absent
  | fails
  | says (fin : FFin) (exec : FExec)
deriving Repr, DecidableEq, Inhabited

/-- What surrounds the node for one getTransactionStatus call: the feeder and whether the
submitted-transactions cache is configured AND contains the hash. -/
structure Env where
  feeder : Feeder := .absent
  submitted : Bool := false
deriving Repr, DecidableEq, Inhabited

/-- Finality on the wire (`TxnStatus`). `rejected` exists in v0.8 only. -/
inductive SFin | received | candidate | preConfirmed | l2 | l1 | rejected
deriving Repr, DecidableEq, Inhabited

/-- Execution status on the wire; `none` = the field is omitted. -/
inductive SExec | none | succeeded | reverted
deriving Repr, DecidableEq, Inhabited

/-- Which of the feeder's texts ends up in `failure_reason`. -/
inductive SReason | none | revertReason | failureReason
deriving Repr, DecidableEq, Inhabited

/-- Answer of getTransactionStatus with a feeder: an answer of `Model.lean`, an internal error
(the feeder call failed), or a status built from the feeder's answer. -/
inductive StatusAns
  | local (a : Ans)
  | internal                                   -- -32603
  | remote (fin : SFin) (exec : SExec) (reason : SReason)
deriving Repr, DecidableEq, Inhabited

/-- rpc/v8 `adaptTransactionStatus`: `none` = an error (every error is turned into
TXN_HASH_NOT_FOUND by the caller). PRE_CONFIRMED / CANDIDATE / unknown values are "unknown
finality status"; a REJECTED execution status overrides the finality with REJECTED. -/
def adaptStatusV8 (fin : FFin) (exec : FExec) : Option (SFin × SExec × SReason) :=
  let fin? : Option SFin :=
    match fin with
    | .acceptedOnL1 => some .l1
    | .acceptedOnL2 => some .l2
    | .received => some .received
    | .notReceived => none
    | _ => none
  match fin? with
  | none => none
  | some f =>
    match exec with
    | .succeeded => some (f, .succeeded, .none)
    | .reverted => some (f, .reverted, .revertReason)
    | .rejected => some (.rejected, .none, .failureReason)
    | .none => some (f, .none, .none)

/-- rpc/v9 and rpc/v10 `AdaptTransactionStatus` (two copies of the same text): PRE_CONFIRMED and
CANDIDATE exist (a candidate has no execution status: the function returns at once); REJECTED is
mapped to "not found". -/
def adaptStatusV9 (fin : FFin) (exec : FExec) : Option (SFin × SExec × SReason) :=
  let fin? : Option (SFin × Bool) :=   -- (finality, return at once)
    match fin with
    | .acceptedOnL1 => some (.l1, false)
    | .acceptedOnL2 => some (.l2, false)
    | .received => some (.received, false)
    | .preConfirmed => some (.preConfirmed, false)
    | .candidate => some (.candidate, true)
    | .notReceived => none
    | .unknown => none
  match fin? with
  | none => none
  | some (f, true) => some (f, .none, .none)
  | some (f, false) =>
    match exec with
    | .succeeded => some (f, .succeeded, .none)
    | .reverted => some (f, .reverted, .revertReason)
    | .rejected => none
    | .none => some (f, .none, .none)

def adaptStatus (ver : Ver) : FFin → FExec → Option (SFin × SExec × SReason) :=
  match ver with
  | .v8 => adaptStatusV8
  | _ => adaptStatusV9

/-- `TransactionStatus` of the three packages: the local answer first; only TXN_HASH_NOT_FOUND
falls through to the feeder (when one is configured); a failing feeder is an internal error;
NOT_RECEIVED becomes RECEIVED when the node itself submitted the transaction; whatever
`adaptTransactionStatus` refuses is TXN_HASH_NOT_FOUND. -/
def transactionStatusEnv (ver : Ver) (env : Env) (nd : Node) (h : Nat) : StatusAns :=
  match transactionStatus nd h with
  | .err .txnHashNotFound =>
    match env.feeder with
    | .absent => .local (.err .txnHashNotFound)
    | .fails => .internal
    | .says fin exec =>
      let fin' := if fin == .notReceived && env.submitted then FFin.received else fin
      match adaptStatus ver fin' exec with
      | none => .local (.err .txnHashNotFound)
      | some (f, e, r) => .remote f e r
  | a => .local a

/-! ## Response flags (v0.10) -/

/-- An optional list-of-strings parameter as it arrives: not given, JSON `null`, a list of
strings, or any other JSON (a string, a number, a list with a non-string member, …). -/
inductive RawFlags
  | absent
  | null
  | list (l : List String)
  | other
deriving Repr, DecidableEq, Inhabited

/-- `StorageAtResponseFlags.UnmarshalJSON` / `ResponseFlags.UnmarshalJSON` (same text, another
flag name) behind `buildArguments`: an optional parameter that is absent or `null` is the zero
value (no flag); a list is walked, every member must be THE flag of that method (repeats are
fine); anything else is a decoding error = invalid params. The answer: is the flag set. -/
def decodeFlags (known : String) : RawFlags → Except Err Bool
  | .absent => .ok false
  | .null => .ok false
  | .other => .error .invalidParams
  | .list l => if l.all (· == known) then .ok (!l.isEmpty) else .error .invalidParams

def flagLastUpdate : String := "INCLUDE_LAST_UPDATE_BLOCK"
def flagProofFacts : String := "INCLUDE_PROOF_FACTS"

/-- Does this method of this version take `response_flags`, and which flag (rpc/handlers.go)? -/
def flagOf (ver : Ver) : Request → Option String
  | .storageAt .. | .storageAtWithLastUpdate .. => if ver == .v10 then some flagLastUpdate else none
  | .blockWithTxs _ | .blockWithReceipts _ | .transactionByHash _ | .transactionByBlockIdAndIndex .. =>
    if ver == .v10 then some flagProofFacts else none
  | _ => none

/-- A request that carries a `response_flags` argument in the position the v0.10 tables give it.
Versions / methods without the parameter refuse it (too many positional parameters / unexpected
name); v0.10 decodes it — an error there is invalid params (arguments are decoded in table order, so
an undecodable EARLIER argument is reported first, with the same code) —; INCLUDE_PROOF_FACTS only
changes the payload, INCLUDE_LAST_UPDATE_BLOCK switches getStorageAt to the two-field answer. -/
def serveFlagged (cfg : Cfg) (be : Backend) (ver : Ver) (nd : Node) (r : Request) (fl : RawFlags) : Ans :=
  match flagOf ver r with
  | none => if fl == .absent then serve cfg be ver nd r else .err .invalidParams
  | some known =>
    match decodeFlags known fl with
    | .error e =>
      -- the block id / index were decoded before the flags and a handler is never reached
      .err e
    | .ok set =>
      match r with
      | .storageAt a k raw | .storageAtWithLastUpdate a k raw =>
        if set then serve cfg be ver nd (.storageAtWithLastUpdate a k raw)
        else serve cfg be ver nd (.storageAt a k raw)
      | r => serve cfg be ver nd r

/-! ## The method tables as data, and `buildArguments` over them -/

inductive Method
  | blockNumber | blockHashAndNumber | blockWithTxHashes | blockWithTxs | blockWithReceipts
  | blockTransactionCount | stateUpdate | transactionByHash | transactionReceipt | transactionStatus
  | transactionByBlockIdAndIndex | storageAt | nonce | classHashAt | classByHash | classAt
deriving Repr, DecidableEq, Inhabited

/-- One `jsonrpc.Parameter`: name and `Optional`. -/
abbrev Param := String × Bool

/-- `MethodsV0_8` / `MethodsV0_9` / `MethodsV0_10` of rpc/handlers.go restricted to the read
methods: the parameter list each table registers. -/
def paramsOf (ver : Ver) : Method → List Param
  | .blockNumber | .blockHashAndNumber => []
  | .blockWithTxHashes | .blockTransactionCount => [("block_id", false)]
  | .blockWithTxs | .blockWithReceipts =>
    match ver with
    | .v10 => [("block_id", false), ("response_flags", true)]
    | _ => [("block_id", false)]
  | .stateUpdate =>
    match ver with
    | .v10 => [("block_id", false), ("contract_addresses", true)]
    | _ => [("block_id", false)]
  | .transactionByHash =>
    match ver with
    | .v10 => [("transaction_hash", false), ("response_flags", true)]
    | _ => [("transaction_hash", false)]
  | .transactionReceipt | .transactionStatus => [("transaction_hash", false)]
  | .transactionByBlockIdAndIndex =>
    match ver with
    | .v10 => [("block_id", false), ("index", false), ("response_flags", true)]
    | _ => [("block_id", false), ("index", false)]
  | .storageAt =>
    match ver with
    | .v10 => [("contract_address", false), ("key", false), ("block_id", false), ("response_flags", true)]
    | _ => [("contract_address", false), ("key", false), ("block_id", false)]
  | .nonce | .classHashAt | .classAt => [("block_id", false), ("contract_address", false)]
  | .classByHash => [("block_id", false), ("class_hash", false)]

/-- The same tables read off the Starknet API specifications (starknet_api_openrpc.json of v0.8.1,
v0.9.0, v0.10.x): names, order, `required`. Written independently of `paramsOf`; that they are
equal is a theorem (`tables_follow_the_specifications`). -/
def specParams (ver : Ver) (m : Method) : List Param :=
  let v10only (ps : List Param) (extra : Param) : List Param := if ver == .v10 then ps ++ [extra] else ps
  match m with
  | .blockNumber => []
  | .blockHashAndNumber => []
  | .blockWithTxHashes => [("block_id", false)]
  | .blockWithTxs => v10only [("block_id", false)] ("response_flags", true)
  | .blockWithReceipts => v10only [("block_id", false)] ("response_flags", true)
  | .blockTransactionCount => [("block_id", false)]
  | .stateUpdate => v10only [("block_id", false)] ("contract_addresses", true)
  | .transactionByHash => v10only [("transaction_hash", false)] ("response_flags", true)
  | .transactionReceipt => [("transaction_hash", false)]
  | .transactionStatus => [("transaction_hash", false)]
  | .transactionByBlockIdAndIndex => v10only [("block_id", false), ("index", false)] ("response_flags", true)
  | .storageAt => v10only [("contract_address", false), ("key", false), ("block_id", false)] ("response_flags", true)
  | .nonce => [("block_id", false), ("contract_address", false)]
  | .classHashAt => [("block_id", false), ("contract_address", false)]
  | .classByHash => [("block_id", false), ("class_hash", false)]
  | .classAt => [("block_id", false), ("contract_address", false)]

/-- The shape of the `params` member of a request: absent / `null` / `[]` / `{}` (all "nil or
empty"), `n` positional values, or an object with these member names. -/
inductive Shape
  | empty
  | positional (n : Nat)
  | named (names : List String)
deriving Repr, DecidableEq, Inhabited

/-- `jsonrpc.Server.buildArguments` as far as it looks at the shape only: does the request get as
far as decoding its arguments? Empty params need no required parameter; a positional list must be
between the number of required parameters and the number of parameters long; a named object must
have every required name and no name the table does not know. (Values — `null` for a required
parameter, undecodable values — are `withId` / `decodeFlags` territory.) -/
def shapeOk (ps : List Param) : Shape → Bool
  | .empty => ps.all (·.2)
  | .positional n => (ps.filter (fun p => !p.2)).length ≤ n && n ≤ ps.length
  | .named names =>
    ps.all (fun p => p.2 || names.contains p.1) && names.all (fun nm => ps.any (fun p => p.1 == nm))

/-! ## Block header adaptation (`adaptBlockHeader` of rpc/v8, `AdaptBlockHeader` of rpc/v9, rpc/v10)

Blocks older than the protocol versions that introduced them lack the sequencer address, the STRK
price of L1 gas, the L1 data gas price, the L2 gas price (nil pointers in `core.Header`); the API
schemas require the fields, so the adapters fill in defaults — differently per version. -/

/-- The optional parts of a stored `core.Header` (everything else is copied verbatim). A gas price
is a pair (wei, fri) whose members may be nil themselves. -/
structure RawHeader where
  seq : Option Nat := none
  l1Wei : Option Nat := none
  l1Fri : Option Nat := none
  l1Data : Option (Option Nat × Option Nat) := none
  l2 : Option (Option Nat × Option Nat) := none
  /-- `core.L1DAMode`: 0 = Calldata, 1 = Blob. -/
  daMode : Nat := 0
deriving Repr, DecidableEq, Inhabited

/-- A price as it goes on the wire: a felt, or JSON `null` (a nil pointer that was not defaulted). -/
inductive JV | null | felt (n : Nat)
deriving Repr, DecidableEq, Inhabited

structure HeaderOut where
  seq : Nat
  l1 : JV × JV        -- price_in_wei, price_in_fri
  l1Data : JV × JV
  l2 : JV × JV
  blob : Bool         -- l1_da_mode is BLOB (otherwise CALLDATA)
  commitments : Bool  -- the v0.10 commitment / count fields are present
deriving Repr, DecidableEq, Inhabited

/-- Which variant of rpc/v8 `adaptBlockHeader` is being looked at: `v8WeiNull` — `L1GasPrice.InWei`
is `header.L1GasPriceETH` as it is (a nil pointer is rendered as JSON `null`); repaired: defaulted
like every other price. The harness probes the code and tells the driver. -/
structure HdrCfg where
  v8WeiNull : Bool := true
deriving Repr, DecidableEq, Inhabited

def orDefault (d : Nat) : Option Nat → JV
  | some v => .felt v
  | none => .felt d

def priceOr (d : Nat) : Option (Option Nat × Option Nat) → JV × JV
  | some (w, f) => (orDefault d w, orDefault d f)
  | none => (.felt d, .felt d)

/-- `switch header.L1DAMode { case core.Blob: Blob; case core.Calldata: Calldata }` — anything else
leaves the zero value, which is `Blob`. -/
def daBlob (m : Nat) : Bool := m != 0

/-- rpc/v8 `adaptBlockHeader` (a stored block: `header.Hash != nil`): defaults are zero; the wei
price of L1 gas is not defaulted. -/
def adaptHeaderV8 (cfg : HdrCfg) (h : RawHeader) : HeaderOut :=
  { seq := h.seq.getD 0,
    l1 := ((if cfg.v8WeiNull then (match h.l1Wei with | some v => .felt v | none => .null) else orDefault 0 h.l1Wei),
           orDefault 0 h.l1Fri),
    l1Data := priceOr 0 h.l1Data, l2 := priceOr 0 h.l2, blob := daBlob h.daMode, commitments := false }

/-- rpc/v9 `AdaptBlockHeader`: defaults are zero (`nilToZero`). -/
def adaptHeaderV9 (h : RawHeader) : HeaderOut :=
  { seq := h.seq.getD 0, l1 := (orDefault 0 h.l1Wei, orDefault 0 h.l1Fri),
    l1Data := priceOr 0 h.l1Data, l2 := priceOr 0 h.l2, blob := daBlob h.daMode, commitments := false }

/-- rpc/v10 `AdaptBlockHeader`: defaults are ONE (`nilToOne`), the sequencer address still zero;
the commitments and counts are added for a block with a hash. -/
def adaptHeaderV10 (h : RawHeader) : HeaderOut :=
  { seq := h.seq.getD 0, l1 := (orDefault 1 h.l1Wei, orDefault 1 h.l1Fri),
    l1Data := priceOr 1 h.l1Data, l2 := priceOr 1 h.l2, blob := daBlob h.daMode, commitments := true }

def JV.isFelt : JV → Bool
  | .felt _ => true
  | .null => false

def HeaderOut.allFelts (o : HeaderOut) : Bool :=
  o.l1.1.isFelt && o.l1.2.isFelt && o.l1Data.1.isFelt && o.l1Data.2.isFelt && o.l2.1.isFelt && o.l2.2.isFelt

def adaptHeader (cfg : HdrCfg) : Ver → RawHeader → HeaderOut
  | .v8 => adaptHeaderV8 cfg
  | .v9 => adaptHeaderV9
  | .v10 => adaptHeaderV10

end Juno.C08
