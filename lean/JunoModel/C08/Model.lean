/-
C08 — model of juno's JSON-RPC read path: the part of `blockchain.Reader` the read handlers of
rpc/v8, rpc/v9 and rpc/v10 use, block-id resolution (`blockHeaderByID`, `blockByID`,
`stateByBlockID`, `l1AcceptedBlockNumber`), the finality rule (`isL1Verified`, `blockStatus`) and
the control flow of every read handler down to the canonical projection of its answer.
Core Lean only: this file is linked into the driver executable `c08drv`.

What is abstracted: felts, hashes, roots, addresses, class hashes are natural numbers (hash
functions are not computed; a block / transaction hash is an opaque identifier, distinct objects
are assumed to carry distinct identifiers where a theorem says so). A transaction is the triple
(hash, kind, reverted): `kind` encodes type and version and stands for the whole payload; JSON
shaping of the payload is not modelled. A node is the list of stored blocks (oldest first) and
the recorded L1 head number, plus the two index buckets the read path goes through: block hash →
number and transaction hash → (number, index), written by `store` and deleted by `revert` the way
`writeBlockContent` / `deleteBlockContent` do. That a lookup in these buckets is the same as a
search in the chain is a THEOREM about histories (Props: `buckets_agree_with_chain`), not built in.
The per-contract history buckets and the flat state are modelled by search in the list of diffs.

The model follows the code as it is; the three API versions are one definition with a `Ver`
parameter wherever the handlers differ.
-/
namespace Juno.C08

/-! ## Data -/

structure Tx where
  hash : Nat
  kind : Nat
  reverted : Bool
deriving Repr, DecidableEq, Inhabited

/-- `core.StateDiff` as far as the read API is concerned. `declared` lists every class hash that
becomes readable with this block (Cairo-0 and Sierra declarations). -/
structure Diff where
  deployed : List (Nat × Nat) := []        -- address, class hash
  replaced : List (Nat × Nat) := []        -- address, class hash
  nonces : List (Nat × Nat) := []          -- address, nonce
  storage : List (Nat × Nat × Nat) := []   -- address, key, value
  declared : List Nat := []
deriving Repr, DecidableEq, Inhabited

structure Block where
  number : Nat
  hash : Nat
  parent : Nat
  root : Nat
  /-- `StateUpdate.OldRoot` as stored with the block: the commitment of the previous state under
  this block's protocol version (it differs from the previous block's `root` when the commitment
  formula changes between the two versions). -/
  oldRoot : Nat
  txs : List Tx
  diff : Diff
deriving Repr, DecidableEq, Inhabited

/-- `chain[i]` is the block stored at height `i`; `l1` is `core.L1Head.BlockNumber` when an L1
head is recorded (bucket `L1Height`), `none` otherwise. -/
structure Node where
  chain : List Block := []
  l1 : Option Nat := none
  /-- the recorded L1 head is the zero struct `core.L1Head{}` (number 0, nil hash, nil root): then
  `l1 = some 0`, and `isL1Verified`'s test `l1 != core.L1Head{}` takes it for "no L1 head". -/
  l1Zero : Bool := false
  /-- bucket block-hash → block number (`core.BlockHeaderNumbersByHash`): an association list,
  newest write first, looked up by first match (= a map in which a later write overwrites). -/
  numByHash : List (Nat × Nat) := []
  /-- bucket transaction-hash → (block number, index) (`TransactionBlockNumbersAndIndicesByHash`). -/
  txLoc : List (Nat × (Nat × Nat)) := []
deriving Repr, DecidableEq, Inhabited

inductive Ver | v8 | v9 | v10
deriving Repr, DecidableEq, Inhabited

/-- State backend of the node: `legacy` = core/deprecatedstate + core/trie, `new` = core/state +
core/trie2 (`blockchain.WithNewState`). The read path differs in one place, see `stateById`. -/
inductive Backend | legacy | new
deriving Repr, DecidableEq, Inhabited

/-- Block identifiers as the handlers see them (after `BlockID.UnmarshalJSON`, see `decodeId`).
`pre` is the tag of the block under construction: `pre_confirmed` in v9/v10 — the node under
consideration has no pre-confirmed data (`sync.NoopSynchronizer`) — and `pending` in v8, which
rpc/v8 serves as a synthetic empty block on top of the head (`Handler.Pending`). v8 has no
`l1_accepted` tag. -/
inductive BlockId
  | number (n : Nat)
  | hash (h : Nat)
  | latest
  | l1Accepted
  | pre
deriving Repr, DecidableEq, Inhabited

inductive Err
  | contractNotFound   -- 20
  | blockNotFound      -- 24
  | invalidTxIndex     -- 27
  | classHashNotFound  -- 28
  | txnHashNotFound    -- 29
  | noBlocks           -- 32
  | invalidParams      -- -32602 (block tag unknown to this API version)
deriving Repr, DecidableEq, Inhabited

def Err.code : Err → String
  | .contractNotFound => "20"
  | .blockNotFound => "24"
  | .invalidTxIndex => "27"
  | .classHashNotFound => "28"
  | .txnHashNotFound => "29"
  | .noBlocks => "32"
  | .invalidParams => "-32602"

inductive Fin | l1 | l2
deriving Repr, DecidableEq, Inhabited

/-- Header projection shared by the three block methods. -/
structure Hdr where
  number : Nat
  hash : Nat
  parent : Nat
  root : Nat
  status : Fin
deriving Repr, DecidableEq, Inhabited

inductive Ans
  | err (e : Err)
  | num (n : Nat)
  | hashNum (h n : Nat)
  | blockHashes (h : Hdr) (txs : List Nat)
  | blockTxs (h : Hdr) (txs : List Tx)
  | blockReceipts (h : Hdr) (txs : List (Tx × Fin))
  | tx (t : Tx)
  | receipt (t : Tx) (fin : Fin) (blockNumber blockHash : Nat)
  | status (fin : Fin) (reverted : Bool)
  | update (blockHash newRoot oldRoot : Nat) (d : Diff)
  | valueAt (v lastUpdate : Nat)               -- v10 getStorageAt with INCLUDE_LAST_UPDATE_BLOCK
  | crash                                       -- the handler panics (nil pointer dereference)
  | pendingBlock (parent : Nat)                 -- v8 `pending`: no hash, no number, no transactions
  | pendingUpdate (oldRoot : Nat) (d : Diff)    -- v8 `pending` state update: no block hash / new root
deriving Repr, DecidableEq, Inhabited

/-! ## `blockchain.Reader` -/

/-- `Height`: `ErrKeyNotFound` (here `none`) on the empty chain. -/
def height (nd : Node) : Option Nat :=
  if nd.chain.isEmpty then none else some (nd.chain.length - 1)

/-- `BlockByNumber` / `BlockHeaderByNumber`. -/
def blockByNumber (nd : Node) (n : Nat) : Option Block := nd.chain[n]?

/-- `BlockNumberByHash`: a read of the bucket block-hash → number. -/
def numberByHash (nd : Node) (h : Nat) : Option Nat :=
  (nd.numByHash.find? (fun e => e.1 == h)).map (·.2)

/-- `BlockByHash` / `BlockHeaderByHash`: number by hash, then block by number. -/
def blockByHash (nd : Node) (h : Nat) : Option Block :=
  (numberByHash nd h).bind (blockByNumber nd)

/-- `Head` / `HeadsHeader`. -/
def headBlock (nd : Node) : Option Block := (height nd).bind (blockByNumber nd)

/-- `TransactionHashesByBlockNumber`. -/
def txHashesByNumber (nd : Node) (n : Nat) : Option (List Nat) :=
  (blockByNumber nd n).map (fun b => b.txs.map (·.hash))

/-- `TransactionsByBlockNumber`. -/
def txsByNumber (nd : Node) (n : Nat) : Option (List Tx) := (blockByNumber nd n).map (·.txs)

/-- `BlockTransactionCountByNumber`. -/
def txCountByNumber (nd : Node) (n : Nat) : Option Nat :=
  (blockByNumber nd n).map (·.txs.length)

/-- `TransactionByBlockNumberAndIndex`: any failure (no block, no such index) is an error. -/
def txByNumberAndIndex (nd : Node) (n i : Nat) : Option Tx :=
  (blockByNumber nd n).bind (fun b => b.txs[i]?)

/-- Specification of the tx-hash index: the first position in the chain holding the hash. -/
def findTx (bs : List Block) (h : Nat) : Option (Nat × Nat) :=
  bs.findSome? (fun b => (b.txs.findIdx? (fun t => t.hash == h)).map (fun i => (b.number, i)))

/-- `BlockNumberAndIndexByTxHash`: a read of the bucket tx-hash → (number, index). -/
def numberAndIndexByTxHash (nd : Node) (h : Nat) : Option (Nat × Nat) :=
  (nd.txLoc.find? (fun e => e.1 == h)).map (·.2)

/-- `TransactionByHash`. -/
def txByHash (nd : Node) (h : Nat) : Option Tx :=
  (numberAndIndexByTxHash nd h).bind (fun p => txByNumberAndIndex nd p.1 p.2)

/-- `TransactionAndReceiptByBlockNumberAndIndex`: transaction (with its receipt fields) and the
hash of the block holding it. -/
def txAndBlockHash (nd : Node) (n i : Nat) : Option (Tx × Nat) :=
  (blockByNumber nd n).bind (fun b => (b.txs[i]?).map (fun t => (t, b.hash)))

/-! ## State readers (`HeadState`, `StateAtBlockNumber`, `StateAtBlockHash`) -/

def lookup2 (l : List (Nat × Nat)) (a : Nat) : Option Nat := (l.find? (fun e => e.1 == a)).map (·.2)

def lookup3 (l : List (Nat × Nat × Nat)) (a k : Nat) : Option Nat :=
  (l.find? (fun e => e.1 == a && e.2.1 == k)).map (·.2.2)

/-- Class hash a block assigns to `a` (a replacement wins over a deployment of the same block). -/
def classInDiff (d : Diff) (a : Nat) : Option Nat :=
  match lookup2 d.replaced a with
  | some c => some c
  | none => lookup2 d.deployed a

/-- `state.IsSystemContract`: 0x1 and 0x2 hold storage but are never deployed by a state diff. -/
def isSystemContract (a : Nat) : Bool := a == 1 || a == 2

/-- Does the diff make `a` a contract of the state? An ordinary contract by a deployment; a
system contract by its first storage write (`updateContractStorages` deploys 0x1 / 0x2 with the
zero class hash when a diff touches their storage). -/
def deploysInDiff (d : Diff) (a : Nat) : Bool :=
  (lookup2 d.deployed a).isSome || (isSystemContract a && d.storage.any (fun e => e.1 == a))

/-- The state after the blocks `bs` (oldest first), read newest-first: the value of an item is
the one written by the newest block that wrote it. -/
def deployedIn (bs : List Block) (a : Nat) : Bool := bs.any (fun b => deploysInDiff b.diff a)

def classHashIn (bs : List Block) (a : Nat) : Nat :=
  (bs.reverse.findSome? (fun b => classInDiff b.diff a)).getD 0

def nonceIn (bs : List Block) (a : Nat) : Nat :=
  (bs.reverse.findSome? (fun b => lookup2 b.diff.nonces a)).getD 0

def storageIn (bs : List Block) (a k : Nat) : Nat :=
  (bs.reverse.findSome? (fun b => lookup3 b.diff.storage a k)).getD 0

def declaredIn (bs : List Block) (c : Nat) : Bool := bs.any (fun b => b.diff.declared.contains c)

/-- `ContractStorageLastUpdatedBlock` on the legacy backend: the newest block among `bs` for which
a history entry of the slot was logged. `deprecatedstate` logs an entry for every write of a state
diff except a write of zero to a slot that holds zero (`trie.Put` reports no old value then);
0 when there is none. -/
def lastLoggedRev : List Block → Nat → Nat → Nat   -- newest block first
  | [], _, _ => 0
  | b :: older, a, k =>
    match lookup3 b.diff.storage a k with
    | some v => if v == 0 && storageIn older.reverse a k == 0 then lastLoggedRev older a k else b.number
    | none => lastLoggedRev older a k

def lastLoggedIn (bs : List Block) (a k : Nat) : Nat := lastLoggedRev bs.reverse a k

/-- The new backend logs a history entry for every write of a state diff, also a zero written
to an unset slot: there the answer is the newest block whose diff TOUCHED the slot. -/
def lastTouchedIn (bs : List Block) (a k : Nat) : Nat :=
  match bs.reverse.find? (fun b => (lookup3 b.diff.storage a k).isSome) with
  | some b => b.number
  | none => 0

def lastUpdateIn (be : Backend) (bs : List Block) (a k : Nat) : Nat :=
  match be with
  | .legacy => lastLoggedIn bs a k
  | .new => lastTouchedIn bs a k

/-! ## Writers (`Store` as far as `verifyBlockSuccession` goes, `RevertHead`, `SetL1Head`) -/

/-- `headNumberAndHash`. -/
def headNumberAndHash (nd : Node) : Option (Nat × Nat) :=
  match nd.chain.getLast? with
  | none => none
  | some b => some (b.number, b.hash)

/-- `verifyBlockSuccession`: number and parent hash must extend the head (or be 0 / 0x0). -/
def succeeds (nd : Node) (b : Block) : Bool :=
  match headNumberAndHash nd with
  | some (n, h) => b.number == n + 1 && b.parent == h
  | none => b.number == 0 && b.parent == 0

/-- State update as far as it can fail on a well-linked block: a storage diff may only address a
contract that is deployed by then (by an earlier block or by this very diff) or a system
contract (`NewContractUpdater` / `getStateObject` fail with "contract not deployed" otherwise). -/
def storageOk (nd : Node) (b : Block) : Bool :=
  b.diff.storage.all (fun e => isSystemContract e.1 || deployedIn (nd.chain ++ [b]) e.1) &&
  -- likewise a nonce or a class replacement for a contract that does not exist is refused
  b.diff.nonces.all (fun e => deployedIn (nd.chain ++ [b]) e.1) &&
  b.diff.replaced.all (fun e => deployedIn (nd.chain ++ [b]) e.1)

/-- The tx-hash index entries `writeBlockContent` writes for a block, in writing order. -/
def txEntries (n : Nat) : Nat → List Tx → List (Nat × (Nat × Nat))
  | _, [] => []
  | i, t :: ts => (t.hash, (n, i)) :: txEntries n (i + 1) ts

def store (nd : Node) (b : Block) : Option Node :=
  if succeeds nd b && storageOk nd b then
    some { nd with chain := nd.chain ++ [b],
                   numByHash := (b.hash, b.number) :: nd.numByHash,
                   -- (within one block the first entry of a hash is the one found; the real map
                   -- would keep the last: the two agree when a block's tx hashes are distinct)
                   txLoc := txEntries b.number 0 b.txs ++ nd.txLoc }
  else none

/-- `RevertHead` / `deleteBlockContent`: drops the head block and DELETES its hash key and the
keys of its transactions from the index buckets. -/
def revert (nd : Node) : Option Node :=
  match nd.chain.getLast? with
  | none => none
  | some b =>
    some { nd with chain := nd.chain.dropLast,
                   numByHash := nd.numByHash.filter (fun e => e.1 != b.hash),
                   txLoc := nd.txLoc.filter (fun e => !(b.txs.any (fun t => t.hash == e.1))) }

/-- `SetL1Head` (the revert path never touches the recorded L1 head). -/
def setL1 (nd : Node) (l : Option Nat) : Node := { nd with l1 := l, l1Zero := false }

/-- `SetL1Head(&core.L1Head{})`. -/
def setL1Zero (nd : Node) : Node := { nd with l1 := some 0, l1Zero := true }

/-- The L1 head as the finality rule sees it (`l1Head()` + `l1 != core.L1Head{}`). -/
def statusL1 (nd : Node) : Option Nat := if nd.l1Zero then none else nd.l1

/-- Head readers answer zero for a missing contract's storage; history readers answer
`ErrKeyNotFound` when the value is zero and the contract is not deployed at that block. -/
inductive SKind | head | history
deriving Repr, DecidableEq, Inhabited

/-- A state reader: the blocks whose diffs it reflects and its flavour. -/
structure StateRef where
  blocks : List Block
  kind : SKind
deriving Repr, DecidableEq, Inhabited

/-- `l1AcceptedBlockNumber`: `min(L1 head number, height)`; an error if either is missing. -/
def l1AcceptedNumber (nd : Node) : Option Nat :=
  match nd.l1, height nd with
  | some l, some h => some (min l h)
  | _, _ => none

def stateAtNumber (nd : Node) (n : Nat) : Except Err StateRef :=
  if n < nd.chain.length then .ok ⟨nd.chain.take (n + 1), .history⟩ else .error .blockNotFound

/-- `stateByBlockID`. `StateAtBlockHash(0x0)` is not an error: the legacy backend opens a head
reader on an empty database (the pre-genesis state); the new backend opens
`state.NewStateReader(&felt.Zero, …)`, whose contract / class / storage reads go to the flat
head data whatever the root, i.e. it answers from the current head state.
v8: the tag `pending` (no pending data) is the head state; `l1_accepted` does not parse. -/
def stateById (be : Backend) (ver : Ver) (nd : Node) : BlockId → Except Err StateRef
  | .latest => if nd.chain.isEmpty then .error .blockNotFound else .ok ⟨nd.chain, .head⟩
  | .hash h =>
    if h == 0 then (match be with | .legacy => .ok ⟨[], .head⟩ | .new => .ok ⟨nd.chain, .head⟩) else
    match numberByHash nd h with
    | none => .error .blockNotFound
    | some n => stateAtNumber nd n
  | .number n => stateAtNumber nd n
  | .l1Accepted =>
    match ver with
    | .v8 => .error .invalidParams
    | _ =>
      match l1AcceptedNumber nd with
      | none => .error .blockNotFound
      | some n => stateAtNumber nd n
  | .pre =>
    match ver with
    | .v8 => if nd.chain.isEmpty then .error .blockNotFound else .ok ⟨nd.chain, .head⟩
    | _ => .error .blockNotFound

/-! ## Finality -/

/-- `isL1Verified`. (`l1 != core.L1Head{}` is "an L1 head is recorded": the L1 client always
records a head with its block hash and state root.) -/
def isL1Verified (n : Nat) (l1 : Option Nat) : Bool :=
  match l1 with
  | some l => decide (n ≤ l)
  | none => false

/-- `blockStatus` for ids other than pre_confirmed / pending. -/
def finality (n : Nat) (l1 : Option Nat) : Fin := if isL1Verified n l1 then .l1 else .l2

/-! ## Block-id resolution of the block methods -/

/-- `blockHeaderByID` / `blockByID`. -/
def blockById (ver : Ver) (nd : Node) : BlockId → Except Err Block
  | .latest => match headBlock nd with | some b => .ok b | none => .error .blockNotFound
  | .hash h => match blockByHash nd h with | some b => .ok b | none => .error .blockNotFound
  | .number n => match blockByNumber nd n with | some b => .ok b | none => .error .blockNotFound
  | .l1Accepted =>
    match ver with
    | .v8 => .error .invalidParams
    | _ =>
      match (l1AcceptedNumber nd).bind (blockByNumber nd) with
      | some b => .ok b
      | none => .error .blockNotFound
  | .pre => .error .blockNotFound   -- v9 / v10: no pre-confirmed data; v8 `pending`: see `pendingOf`

def hdrOf (nd : Node) (b : Block) : Hdr :=
  { number := b.number, hash := b.hash, parent := b.parent, root := b.root,
    status := finality b.number (statusL1 nd) }

/-! ## v8 `pending` (rpc/v8/pending_wrapper.go, sync.MakeEmptyPendingForParent) -/

/-- `core.BlockHashLag`. -/
def blockHashLag : Nat := 10

structure Pending where
  parent : Nat
  oldRoot : Nat
  diff : Diff
deriving Repr, DecidableEq, Inhabited

/-- `Handler.Pending`: an empty block on top of the head; its state diff writes the hash of block
`n - 10` into the block-hash contract 0x1 once `n ≥ 10` (`makeStateDiffForEmptyBlock`). Any
failure (no head, missing older header) is an error of the whole call. -/
def pendingOf (nd : Node) : Option Pending :=
  match headBlock nd with
  | none => none
  | some h =>
    let n := h.number + 1
    if n < blockHashLag then some ⟨h.hash, h.root, {}⟩
    else match blockByNumber nd (n - blockHashLag) with
      | some b => some ⟨h.hash, h.root, { storage := [(1, n - blockHashLag, b.hash)] }⟩
      | none => none

def isV8Pending (ver : Ver) (id : BlockId) : Bool := ver == .v8 && id == .pre

/-! ## Handlers -/

/-- `BlockNumber`. -/
def blockNumber (nd : Node) : Ans :=
  match height nd with | some n => .num n | none => .err .noBlocks

/-- `BlockHashAndNumber`. -/
def blockHashAndNumber (nd : Node) : Ans :=
  match headBlock nd with | some b => .hashNum b.hash b.number | none => .err .noBlocks

/-- `BlockWithTxHashes`: header by id, then the hashes by `header.Number`. -/
def blockWithTxHashesStored (ver : Ver) (nd : Node) (id : BlockId) : Ans :=
  match blockById ver nd id with
  | .error e => .err e
  | .ok b =>
    match txHashesByNumber nd b.number with
    | none => .err .blockNotFound
    | some hs => .blockHashes (hdrOf nd b) hs

def blockWithTxHashes (ver : Ver) (nd : Node) (id : BlockId) : Ans :=
  if isV8Pending ver id then (match pendingOf nd with | some p => .pendingBlock p.parent | none => .err .blockNotFound)
  else blockWithTxHashesStored ver nd id

/-- `BlockWithTxs`: header by id, then the transactions by `header.Number`. -/
def blockWithTxsStored (ver : Ver) (nd : Node) (id : BlockId) : Ans :=
  match blockById ver nd id with
  | .error e => .err e
  | .ok b =>
    match txsByNumber nd b.number with
    | none => .err .blockNotFound
    | some ts => .blockTxs (hdrOf nd b) ts

def blockWithTxs (ver : Ver) (nd : Node) (id : BlockId) : Ans :=
  if isV8Pending ver id then (match pendingOf nd with | some p => .pendingBlock p.parent | none => .err .blockNotFound)
  else blockWithTxsStored ver nd id

/-- `BlockWithReceipts`: the whole block by id; every receipt carries the block's finality. -/
def blockWithReceiptsStored (ver : Ver) (nd : Node) (id : BlockId) : Ans :=
  match blockById ver nd id with
  | .error e => .err e
  | .ok b => .blockReceipts (hdrOf nd b) (b.txs.map (fun t => (t, finality b.number (statusL1 nd))))

def blockWithReceipts (ver : Ver) (nd : Node) (id : BlockId) : Ans :=
  if isV8Pending ver id then (match pendingOf nd with | some p => .pendingBlock p.parent | none => .err .blockNotFound)
  else blockWithReceiptsStored ver nd id

/-- `BlockTransactionCount`. v8 reads `header.TransactionCount`; v9/v10 resolve the id to a
number first and read the count by number. -/
def blockTransactionCountStored (ver : Ver) (nd : Node) (id : BlockId) : Ans :=
  match ver with
  | .v8 =>
    match blockById ver nd id with
    | .error e => .err e
    | .ok b => .num b.txs.length
  | _ =>
    let n? : Except Err Nat :=
      match id with
      | .latest => match height nd with | some n => .ok n | none => .error .blockNotFound
      | .hash h => match numberByHash nd h with | some n => .ok n | none => .error .blockNotFound
      | .number n => .ok n
      | .l1Accepted => match l1AcceptedNumber nd with | some n => .ok n | none => .error .blockNotFound
      | .pre => .error .blockNotFound
    match n? with
    | .error e => .err e
    | .ok n => match txCountByNumber nd n with | some c => .num c | none => .err .blockNotFound

def blockTransactionCount (ver : Ver) (nd : Node) (id : BlockId) : Ans :=
  if isV8Pending ver id then (match pendingOf nd with | some _ => .num 0 | none => .err .blockNotFound)
  else blockTransactionCountStored ver nd id

/-- `TransactionByHash`. -/
def transactionByHash (nd : Node) (h : Nat) : Ans :=
  match txByHash nd h with | some t => .tx t | none => .err .txnHashNotFound

/-- `TransactionByBlockIDAndIndex` (index already known to be non-negative). For a `number` id
the block number is used as given: a missing block surfaces as INVALID_TXN_INDEX. -/
def transactionByBlockIdAndIndexStored (ver : Ver) (nd : Node) (id : BlockId) (i : Nat) : Ans :=
  let n? : Except Err Nat :=
    match id with
    | .latest => match headBlock nd with | some b => .ok b.number | none => .error .blockNotFound
    | .hash h => match numberByHash nd h with | some n => .ok n | none => .error .blockNotFound
    | .number n => .ok n
    | .l1Accepted =>
      match ver with
      | .v8 => .error .invalidParams
      | _ => match l1AcceptedNumber nd with | some n => .ok n | none => .error .blockNotFound
    | .pre => .error .blockNotFound
  match n? with
  | .error e => .err e
  | .ok n => match txByNumberAndIndex nd n i with | some t => .tx t | none => .err .invalidTxIndex

def transactionByBlockIdAndIndex (ver : Ver) (nd : Node) (id : BlockId) (i : Nat) : Ans :=
  if isV8Pending ver id then (match pendingOf nd with | some _ => .err .invalidTxIndex | none => .err .blockNotFound)
  else transactionByBlockIdAndIndexStored ver nd id i

/-- `TransactionReceiptByHash`. -/
def transactionReceipt (nd : Node) (h : Nat) : Ans :=
  match numberAndIndexByTxHash nd h with
  | none => .err .txnHashNotFound
  | some (n, i) =>
    match txAndBlockHash nd n i with
    | none => .err .txnHashNotFound
    | some (t, bh) => .receipt t (finality n (statusL1 nd)) n bh

/-- `TransactionStatus` (no feeder client). -/
def transactionStatus (nd : Node) (h : Nat) : Ans :=
  match numberAndIndexByTxHash nd h with
  | none => .err .txnHashNotFound
  | some (n, i) =>
    match txByNumberAndIndex nd n i with
    | none => .err .txnHashNotFound
    | some t => .status (finality n (statusL1 nd)) t.reverted

/-- v10 `contract_addresses` (`AddressList.Contains`): an empty list keeps everything; storage
diffs, nonces, deployed and replaced entries are filtered by address, declarations are not.
v8 / v9 have no such parameter. -/
def filterDiff (ver : Ver) (filter : List Nat) (d : Diff) : Diff :=
  match ver with
  | .v10 =>
    if filter.isEmpty then d else
    { d with deployed := d.deployed.filter (fun e => filter.contains e.1),
             replaced := d.replaced.filter (fun e => filter.contains e.1),
             nonces := d.nonces.filter (fun e => filter.contains e.1),
             storage := d.storage.filter (fun e => filter.contains e.1) }
  | _ => d

/-- `stateUpdateByID` + `StateUpdate`: the stored update of the resolved block. -/
def stateUpdateStored (ver : Ver) (nd : Node) (id : BlockId) (filter : List Nat) : Ans :=
  let b? : Except Err Block :=
    match id with
    | .latest => match (height nd).bind (blockByNumber nd) with | some b => .ok b | none => .error .blockNotFound
    | .hash h => match blockByHash nd h with | some b => .ok b | none => .error .blockNotFound
    | .number n => match blockByNumber nd n with | some b => .ok b | none => .error .blockNotFound
    | .l1Accepted =>
      match ver with
      | .v8 => .error .invalidParams
      | _ => match (l1AcceptedNumber nd).bind (blockByNumber nd) with | some b => .ok b | none => .error .blockNotFound
    | .pre => .error .blockNotFound
  match b? with
  | .error e => .err e
  | .ok b => .update b.hash b.root b.oldRoot (filterDiff ver filter b.diff)

def stateUpdate (ver : Ver) (nd : Node) (id : BlockId) (filter : List Nat := []) : Ans :=
  if isV8Pending ver id then (match pendingOf nd with | some p => .pendingUpdate p.oldRoot p.diff | none => .err .blockNotFound)
  else stateUpdateStored ver nd id filter

/-- `Nonce`. -/
def nonce (be : Backend) (ver : Ver) (nd : Node) (id : BlockId) (a : Nat) : Ans :=
  match stateById be ver nd id with
  | .error e => .err e
  | .ok st =>
    if isSystemContract a then .err .contractNotFound
    else if deployedIn st.blocks a then .num (nonceIn st.blocks a) else .err .contractNotFound

/-- `ClassHashAt`. -/
def classHashAt (be : Backend) (ver : Ver) (nd : Node) (id : BlockId) (a : Nat) : Ans :=
  match stateById be ver nd id with
  | .error e => .err e
  | .ok st =>
    if isSystemContract a then .err .contractNotFound
    else if deployedIn st.blocks a then .num (classHashIn st.blocks a) else .err .contractNotFound

/-- `Class`: the answer is identified by the class hash. -/
def classByHash (be : Backend) (ver : Ver) (nd : Node) (id : BlockId) (c : Nat) : Ans :=
  match stateById be ver nd id with
  | .error e => .err e
  | .ok st => if declaredIn st.blocks c then .num c else .err .classHashNotFound

/-- `ClassAt`: class hash of the contract, then the class; an undeclared class hash is reported
as CONTRACT_NOT_FOUND. -/
def classAt (be : Backend) (ver : Ver) (nd : Node) (id : BlockId) (a : Nat) : Ans :=
  match classHashAt be ver nd id a with
  | .num c =>
    match classByHash be ver nd id c with
    | .err .classHashNotFound => .err .contractNotFound
    | r => r
  | r => r

/-- `StorageAt`. v8/v9 probe the class hash first (a contract without class has no readable
storage); v10 reads the slot first and probes the class hash only for a zero value at `latest`
(history readers do that probe themselves; the empty reader of block hash 0x0 never does). -/
def storageAt (be : Backend) (ver : Ver) (nd : Node) (id : BlockId) (a k : Nat) : Ans :=
  match stateById be ver nd id with
  | .error e => .err e
  | .ok st =>
    let v := storageIn st.blocks a k
    let dep := deployedIn st.blocks a
    match ver with
    | .v10 =>
      match st.kind with
      | .history => if v != 0 then .num v else if dep then .num 0 else .err .contractNotFound
      | .head =>
        if v == 0 && id == .latest then (if dep then .num 0 else .err .contractNotFound)
        else .num v
    | _ => if dep then .num v else .err .contractNotFound

/-- v10 `StorageAt` with the response flag INCLUDE_LAST_UPDATE_BLOCK: the plain answer plus
`ContractStorageLastUpdatedBlock` of the same reader. -/
def storageAtWithLastUpdate (be : Backend) (nd : Node) (id : BlockId) (a k : Nat) : Ans :=
  match storageAt be .v10 nd id a k with
  | .num v =>
    match stateById be .v10 nd id with
    | .ok st =>
      .valueAt v (lastUpdateIn be st.blocks a k)
    | .error e => .err e
  | r => r

/-! ## The wire layer: block-id decoding and dispatch -/

/-- Two places where the code as it is today lets a malformed request through (findings, see
Props): the harness probes the real code and tells the driver which variant it is looking at, so
that the model follows the code before and after a repair.
* `nullCrashes`: `jsonrpc.Server.parseParam` hands a JSON `null` for a pointer parameter to the
  handler as a nil pointer, which the handler dereferences (a panic that leaves `HandleReader`).
  `false`: `null` for a required parameter is refused as invalid params.
* `nullNumberIsZero`: `BlockID.UnmarshalJSON` decodes `{"block_number": null}` with
  `json.Unmarshal(null, &uint64)`, a no-op, i.e. as block 0. `false`: refused. -/
structure Cfg where
  nullCrashes : Bool := true
  nullNumberIsZero : Bool := true
deriving Repr, DecidableEq, Inhabited

/-- A block id as it arrives (already JSON-decoded): `null`; a string; an object with optional
`block_hash` / `block_number` members of the right type; an object without `block_hash` whose
`block_number` is `null`; or anything else (a number, an array, an object whose member has the
wrong type — a float, a negative or too large number, a string where a number is required, a
`null` block_hash —, …). -/
inductive RawId
  | null
  | tag (s : String)
  | obj (hash : Option Nat) (number : Option Nat)
  | objNullNumber
  | other
deriving Repr, DecidableEq, Inhabited

/-- `BlockID.UnmarshalJSON` of the three packages (never called for `null`, see `withId`). A
string must be a tag the version knows; in an object `block_hash` wins over `block_number`;
everything else is a decoding error, which `jsonrpc.Server.buildArguments` turns into "invalid
params". -/
def decodeId (cfg : Cfg) (ver : Ver) : RawId → Except Err BlockId
  | .tag s =>
    if s == "latest" then .ok .latest
    else match ver with
      | .v8 => if s == "pending" then .ok .pre else .error .invalidParams
      | _ =>
        if s == "pre_confirmed" then .ok .pre
        else if s == "l1_accepted" then .ok .l1Accepted
        else .error .invalidParams
  | .obj (some h) _ => .ok (.hash h)
  | .obj none (some n) => .ok (.number n)
  | .obj none none => .error .invalidParams
  | .objNullNumber => if cfg.nullNumberIsZero then .ok (.number 0) else .error .invalidParams
  | .null => .error .invalidParams
  | .other => .error .invalidParams

/-- A read request as it arrives. -/
inductive Request
  | blockNumber
  | blockHashAndNumber
  | blockWithTxHashes (id : RawId)
  | blockWithTxs (id : RawId)
  | blockWithReceipts (id : RawId)
  | blockTransactionCount (id : RawId)
  | stateUpdate (id : RawId) (filter : List Nat)
  | transactionByHash (h : Nat)
  | transactionReceipt (h : Nat)
  | transactionStatus (h : Nat)
  | transactionByBlockIdAndIndex (id : RawId) (i : Int)
  | storageAt (a k : Nat) (id : RawId)
  | storageAtWithLastUpdate (a k : Nat) (id : RawId)   -- v10 only (v8 / v9: too many params)
  | nonce (id : RawId) (a : Nat)
  | classHashAt (id : RawId) (a : Nat)
  | classByHash (id : RawId) (c : Nat)
  | classAt (id : RawId) (a : Nat)
deriving Repr, DecidableEq, Inhabited

/-- Hand the decoded block id to the handler. `ptrV8`: does the v8 handler take a `*BlockID`
(BlockWithTxHashes, BlockWithTxs, BlockWithReceipts, TransactionByBlockIDAndIndex, StorageAt) or a
`BlockID` by value (the others: `null` then fails to decode)? v9 / v10 handlers all take pointers.
A `null` id becomes a nil pointer that every handler dereferences first. -/
def withId (cfg : Cfg) (ver : Ver) (ptrV8 : Bool) (raw : RawId) (k : BlockId → Ans) : Ans :=
  match raw with
  | .null =>
    if cfg.nullCrashes && (ver != .v8 || ptrV8) then .crash else .err .invalidParams
  | _ =>
    match decodeId cfg ver raw with
    | .ok id => k id
    | .error e => .err e

/-- The whole read path of one API version on one backend: decode, dispatch, handle. A negative
transaction index is refused by the handler before the block id is looked at (but after it was
decoded; a nil id is not looked at either). -/
def serve (cfg : Cfg) (be : Backend) (ver : Ver) (nd : Node) : Request → Ans
  | .blockNumber => blockNumber nd
  | .blockHashAndNumber => blockHashAndNumber nd
  | .blockWithTxHashes raw => withId cfg ver true raw (blockWithTxHashes ver nd)
  | .blockWithTxs raw => withId cfg ver true raw (blockWithTxs ver nd)
  | .blockWithReceipts raw => withId cfg ver true raw (blockWithReceipts ver nd)
  | .blockTransactionCount raw => withId cfg ver false raw (blockTransactionCount ver nd)
  | .stateUpdate raw f => withId cfg ver false raw (fun id => stateUpdate ver nd id f)
  | .transactionByHash h => transactionByHash nd h
  | .transactionReceipt h => transactionReceipt nd h
  | .transactionStatus h => transactionStatus nd h
  | .transactionByBlockIdAndIndex raw i =>
    if raw == .null && cfg.nullCrashes && i < 0 then .err .invalidTxIndex
    else withId cfg ver true raw (fun id =>
      if i < 0 then .err .invalidTxIndex else transactionByBlockIdAndIndex ver nd id i.toNat)
  | .storageAt a k raw => withId cfg ver true raw (fun id => storageAt be ver nd id a k)
  | .storageAtWithLastUpdate a k raw =>
    match ver with
    | .v10 => withId cfg ver true raw (fun id => storageAtWithLastUpdate be nd id a k)
    | _ => .err .invalidParams
  | .nonce raw a => withId cfg ver false raw (fun id => nonce be ver nd id a)
  | .classHashAt raw a => withId cfg ver false raw (fun id => classHashAt be ver nd id a)
  | .classByHash raw c => withId cfg ver false raw (fun id => classByHash be ver nd id c)
  | .classAt raw a => withId cfg ver false raw (fun id => classAt be ver nd id a)

/-- Requests whose required NON-id argument is JSON `null` (the block id `raw` may be anything). -/
inductive NullRequest
  | txHash                                 -- getTransactionByHash / Receipt / Status [null]
  | index (id : RawId)                     -- getTransactionByBlockIdAndIndex [id, null]
  | nonceAddr (id : RawId)
  | classHashAtAddr (id : RawId)
  | classAtAddr (id : RawId)
  | classHash (id : RawId)
  | storageAddr (k : Nat) (id : RawId)
  | storageKey (a : Nat) (id : RawId)
deriving Repr, DecidableEq, Inhabited

/-- What the state methods do with a nil address / key / class hash: nothing until the state of
the block id is open (an error of that step is the answer), then they dereference it. -/
def afterState (be : Backend) (ver : Ver) (nd : Node) (id : BlockId) : Ans :=
  match stateById be ver nd id with
  | .error e => .err e
  | .ok _ => .crash

/-- `null` where a felt / an index is required. As the code is (`nullCrashes`): v9 / v10 take
every felt by pointer and crash when they reach it; v8 takes felts by value (decoding `null`
fails: invalid params) except in StorageAt; an index is an `int` by value, for which `null` is
a no-op, i.e. index 0. v8 / v9 StorageAt probe the class hash of the contract before they touch
the key; v10 StorageAt reads the slot at once. Repaired (`!nullCrashes`): invalid params throughout. -/
def serveNull (cfg : Cfg) (be : Backend) (ver : Ver) (nd : Node) : NullRequest → Ans
  | .txHash => if cfg.nullCrashes && ver != .v8 then .crash else .err .invalidParams
  | .index raw =>
    if cfg.nullCrashes then serve cfg be ver nd (.transactionByBlockIdAndIndex raw 0) else .err .invalidParams
  | .nonceAddr raw | .classHashAtAddr raw | .classAtAddr raw | .classHash raw =>
    if cfg.nullCrashes && ver != .v8 then withId cfg ver false raw (afterState be ver nd)
    else .err .invalidParams
  | .storageAddr _ raw =>
    if cfg.nullCrashes then withId cfg ver true raw (afterState be ver nd) else .err .invalidParams
  | .storageKey a raw =>
    if !cfg.nullCrashes then .err .invalidParams
    else withId cfg ver true raw (fun id =>
      match stateById be ver nd id with
      | .error e => .err e
      | .ok st =>
        match ver with
        | .v10 =>
          -- v10 reads the slot first: every reader dereferences the key at once, except the new
          -- backend's history reader, which checks that the contract is deployed before
          if be == .new && st.kind == .history && !deployedIn st.blocks a then .err .contractNotFound
          else .crash
        | _ => if deployedIn st.blocks a then .crash else .err .contractNotFound)

/-! ## Specification side (not used by the handlers): what an identifier denotes -/

/-- The block number a block id denotes on the node's chain: a number below the height, the
position of the block carrying the hash, the head, `min(L1 head, head)`; `pre_confirmed`
denotes nothing (no pending data). -/
def resolve (nd : Node) : BlockId → Option Nat
  | .number n => if n < nd.chain.length then some n else none
  | .hash h => nd.chain.findIdx? (fun b => b.hash == h)
  | .latest => if nd.chain.isEmpty then none else some (nd.chain.length - 1)
  | .l1Accepted =>
    match nd.l1 with
    | some l => if nd.chain.isEmpty then none else some (min l (nd.chain.length - 1))
    | none => none
  | .pre => none

/-- Every stored header carries its own height (`verifyBlockSuccession`). -/
def WellFormed (nd : Node) : Prop := ∀ (i : Nat) (b : Block), nd.chain[i]? = some b → b.number = i

/-- Every stored block points at its predecessor; genesis points at 0x0. -/
def Linked (nd : Node) : Prop :=
  ∀ (i : Nat) (b : Block), nd.chain[i]? = some b →
    b.parent = (match i with | 0 => 0 | j + 1 => match nd.chain[j]? with | some p => p.hash | none => 0)

/-- Chain operations; an operation the node refuses (`store` of a block that does not extend
the head, `revert` of the empty chain) leaves it unchanged. -/
inductive Op
  | store (b : Block)
  | revert
  | setL1 (l : Option Nat)
  | setL1Zero
deriving Repr, Inhabited

def applyOp (nd : Node) : Op → Node
  | .store b => (store nd b).getD nd
  | .revert => (revert nd).getD nd
  | .setL1 l => setL1 nd l
  | .setL1Zero => setL1Zero nd

/-- The node after a history of operations, starting from the empty database. -/
def run (ops : List Op) : Node := ops.foldl applyOp {}

end Juno.C08
