import JunoModel.C08.Model
import JunoModel.C08.ModelEnv
/-!
C08 — the three API versions as THREE transcriptions (round 4).

`Model.lean` describes the read handlers by one definition per method with a `Ver` parameter that is
consulted where the Go packages differ. The Go code is not organised like that: rpc/v8, rpc/v9 and
rpc/v10 are three packages, each with its own copy of `blockByID`, `blockHeaderByID`,
`stateByBlockID`, `blockStatus`, `BlockID.UnmarshalJSON` and of every handler — v9 and v10 nearly
the same text, v8 written differently (its own `blockTxnsByNumber`, transaction count read from the
header, status derived from the receipt, the synthetic pending block, by-value parameters). This
file transcribes each package separately, function by function, over the `blockchain.Reader` of
`Model.lean`. The driver answers every request of version X with the transcription of package X
(`serveV`), so the correspondence run ties each package to its own transcription; that the three
agree with each other — and with the summary in `Model.lean`, about which the property theorems
are stated — is proved in `ProofsV.lean` / `PropsV.lean`, no longer built in.

Core Lean only (linked into `c08drv`).
-/
namespace Juno.C08

/-! ## `blockchain.Reader`: the state readers the packages ask for -/

/-- `HeadState`: `ErrKeyNotFound` (→ BLOCK_NOT_FOUND in every package) on the empty chain. -/
def headState (nd : Node) : Except Err StateRef :=
  if nd.chain.isEmpty then .error .blockNotFound else .ok ⟨nd.chain, .head⟩

/-- `StateAtBlockNumber`. -/
def stateAtBlockNumber (nd : Node) (n : Nat) : Except Err StateRef := stateAtNumber nd n

/-- `StateAtBlockHash`: the zero hash is special-cased per backend (see `stateById`), any other
hash goes through the hash → number bucket. -/
def stateAtBlockHash (be : Backend) (nd : Node) (h : Nat) : Except Err StateRef :=
  if h == 0 then (match be with | .legacy => .ok ⟨[], .head⟩ | .new => .ok ⟨nd.chain, .head⟩) else
  match numberByHash nd h with
  | none => .error .blockNotFound
  | some n => stateAtNumber nd n

/-- `StateUpdateByNumber` / `StateUpdateByHash`: the update stored with the block. -/
def stateUpdateByNumber (nd : Node) (n : Nat) : Option Block := blockByNumber nd n
def stateUpdateByHash (nd : Node) (h : Nat) : Option Block := blockByHash nd h

/-- The read answers of a state reader, shared text of the three packages' Nonce / ClassHashAt /
Class (system contracts refused before the reader is asked; any reader error is CONTRACT_NOT_FOUND
resp. CLASS_HASH_NOT_FOUND). -/
def readNonce (st : StateRef) (a : Nat) : Ans :=
  if isSystemContract a then .err .contractNotFound
  else if deployedIn st.blocks a then .num (nonceIn st.blocks a) else .err .contractNotFound

def readClassHash (st : StateRef) (a : Nat) : Ans :=
  if isSystemContract a then .err .contractNotFound
  else if deployedIn st.blocks a then .num (classHashIn st.blocks a) else .err .contractNotFound

def readClass (st : StateRef) (c : Nat) : Ans :=
  if declaredIn st.blocks c then .num c else .err .classHashNotFound

/-- `ClassAt` of the three packages: class hash, then the class; a class-hash miss becomes
CONTRACT_NOT_FOUND. -/
def classAtOf (classHashAt : Ans) (classOf : Nat → Ans) : Ans :=
  match classHashAt with
  | .num c =>
    match classOf c with
    | .err .classHashNotFound => .err .contractNotFound
    | r => r
  | r => r

/-! ## rpc/v10 -/

namespace V10

/-- block_id.go `BlockID.UnmarshalJSON`. -/
def unmarshalBlockID (cfg : Cfg) : RawId → Except Err BlockId
  | .tag s =>
    if s == "latest" then .ok .latest
    else if s == "pre_confirmed" then .ok .pre
    else if s == "l1_accepted" then .ok .l1Accepted
    else .error .invalidParams
  | .obj (some h) _ => .ok (.hash h)
  | .obj none (some n) => .ok (.number n)
  | .obj none none => .error .invalidParams
  | .objNullNumber => if cfg.nullNumberIsZero then .ok (.number 0) else .error .invalidParams
  | .null => .error .invalidParams
  | .other => .error .invalidParams

/-- helpers.go `l1AcceptedBlockNumber`. -/
def l1AcceptedBlockNumber (nd : Node) : Option Nat :=
  match nd.l1 with
  | none => none
  | some l =>
    match height nd with
    | none => none
    | some h => some (min l h)

/-- helpers.go `blockByID` (no pre-confirmed data: `PreConfirmedChain` fails). -/
def blockByID (nd : Node) : BlockId → Except Err Block
  | .pre => .error .blockNotFound
  | .latest => match headBlock nd with | some b => .ok b | none => .error .blockNotFound
  | .hash h => match blockByHash nd h with | some b => .ok b | none => .error .blockNotFound
  | .l1Accepted =>
    match l1AcceptedBlockNumber nd with
    | none => .error .blockNotFound
    | some n => match blockByNumber nd n with | some b => .ok b | none => .error .blockNotFound
  | .number n => match blockByNumber nd n with | some b => .ok b | none => .error .blockNotFound

/-- helpers.go `blockHeaderByID`. -/
def blockHeaderByID (nd : Node) : BlockId → Except Err Block
  | .pre => .error .blockNotFound
  | .latest => match headBlock nd with | some b => .ok b | none => .error .blockNotFound
  | .hash h => match blockByHash nd h with | some b => .ok b | none => .error .blockNotFound
  | .number n => match blockByNumber nd n with | some b => .ok b | none => .error .blockNotFound
  | .l1Accepted =>
    match l1AcceptedBlockNumber nd with
    | none => .error .blockNotFound
    | some n => match blockByNumber nd n with | some b => .ok b | none => .error .blockNotFound

/-- helpers.go `stateByBlockID`. -/
def stateByBlockID (be : Backend) (nd : Node) : BlockId → Except Err StateRef
  | .pre => .error .blockNotFound
  | .latest => headState nd
  | .hash h => stateAtBlockHash be nd h
  | .number n => stateAtBlockNumber nd n
  | .l1Accepted =>
    match l1AcceptedBlockNumber nd with
    | none => .error .blockNotFound
    | some n => stateAtBlockNumber nd n

/-- helpers.go `isL1Verified` + block.go `blockStatus` (ids other than pre_confirmed). -/
def blockStatus (nd : Node) (n : Nat) : Fin :=
  match statusL1 nd with
  | some l => if n ≤ l then .l1 else .l2
  | none => .l2

def header (nd : Node) (b : Block) : Hdr :=
  { number := b.number, hash := b.hash, parent := b.parent, root := b.root, status := blockStatus nd b.number }

/-- block.go `BlockTransactionCount`. -/
def blockTransactionCount (nd : Node) (id : BlockId) : Ans :=
  let count? : Option Nat :=
    match id with
    | .pre => none
    | .latest => match height nd with | some h => txCountByNumber nd h | none => none
    | .hash x => match numberByHash nd x with | some n => txCountByNumber nd n | none => none
    | .number n => txCountByNumber nd n
    | .l1Accepted => match l1AcceptedBlockNumber nd with | some n => txCountByNumber nd n | none => none
  match count? with
  | some c => .num c
  | none => .err .blockNotFound

/-- block.go `BlockWithTxHashes`. -/
def blockWithTxHashes (nd : Node) (id : BlockId) : Ans :=
  if id == .pre then .err .blockNotFound else
  match blockHeaderByID nd id with
  | .error e => .err e
  | .ok hd =>
    match txHashesByNumber nd hd.number with
    | none => .err .blockNotFound
    | some hs => .blockHashes (header nd hd) hs

/-- block.go `BlockWithTxs`. -/
def blockWithTxs (nd : Node) (id : BlockId) : Ans :=
  if id == .pre then .err .blockNotFound else
  match blockHeaderByID nd id with
  | .error e => .err e
  | .ok hd =>
    match txsByNumber nd hd.number with
    | none => .err .blockNotFound
    | some ts => .blockTxs (header nd hd) ts

/-- block.go `BlockWithReceipts`. -/
def blockWithReceipts (nd : Node) (id : BlockId) : Ans :=
  match blockByID nd id with
  | .error e => .err e
  | .ok b =>
    let st := blockStatus nd b.number
    .blockReceipts (header nd b) (b.txs.map (fun t => (t, st)))

/-- transaction.go `TransactionByHash` (the pre-confirmed chain is asked first: absent). -/
def transactionByHash (nd : Node) (h : Nat) : Ans :=
  match txByHash nd h with | some t => .tx t | none => .err .txnHashNotFound

/-- transaction.go `TransactionByBlockIDAndIndex`. -/
def transactionByBlockIDAndIndex (nd : Node) (id : BlockId) (i : Int) : Ans :=
  if i < 0 then .err .invalidTxIndex else
  let n? : Option Nat :=
    match id with
    | .pre => none
    | .latest => (headBlock nd).map (·.number)
    | .hash x => numberByHash nd x
    | .number n => some n
    | .l1Accepted => l1AcceptedBlockNumber nd
  match n? with
  | none => .err .blockNotFound
  | some n => match txByNumberAndIndex nd n i.toNat with | some t => .tx t | none => .err .invalidTxIndex

/-- transaction.go `TransactionReceiptByHash`. -/
def transactionReceiptByHash (nd : Node) (h : Nat) : Ans :=
  match numberAndIndexByTxHash nd h with
  | none => .err .txnHashNotFound
  | some (n, i) =>
    match txAndBlockHash nd n i with
    | none => .err .txnHashNotFound
    | some (t, bh) => .receipt t (blockStatus nd n) n bh

/-- transaction.go `transactionStatusFromStore`. -/
def transactionStatusFromStore (nd : Node) (h : Nat) : Ans :=
  match numberAndIndexByTxHash nd h with
  | none => .err .txnHashNotFound
  | some (n, i) =>
    match txByNumberAndIndex nd n i with    -- `TransactionExecutionStatusByBlockNumberAndIndex`
    | none => .err .txnHashNotFound
    | some t => .status (blockStatus nd n) t.reverted

/-- transaction.go `TransactionStatus` + `AdaptTransactionStatus`. -/
def transactionStatus (env : Env) (nd : Node) (h : Nat) : StatusAns :=
  match transactionStatusFromStore nd h with
  | .err .txnHashNotFound =>
    match env.feeder with
    | .absent => .local (.err .txnHashNotFound)
    | .fails => .internal
    | .says fin exec =>
      let fin' := if fin == .notReceived && env.submitted then FFin.received else fin
      match adaptStatusV9 fin' exec with
      | none => .local (.err .txnHashNotFound)
      | some (f, e, r) => .remote f e r
  | a => .local a

/-- state_update.go `stateUpdateByID` + `StateUpdate` (`contract_addresses`: an empty list keeps
everything). -/
def stateUpdate (nd : Node) (id : BlockId) (filter : List Nat) : Ans :=
  let u? : Option Block :=
    match id with
    | .latest => match height nd with | some h => stateUpdateByNumber nd h | none => none
    | .pre => none
    | .hash x => stateUpdateByHash nd x
    | .number n => stateUpdateByNumber nd n
    | .l1Accepted => match l1AcceptedBlockNumber nd with | some n => stateUpdateByNumber nd n | none => none
  match u? with
  | none => .err .blockNotFound
  | some b =>
    let keep (a : Nat) : Bool := filter.isEmpty || filter.contains a
    .update b.hash b.root b.oldRoot
      { b.diff with deployed := b.diff.deployed.filter (fun e => keep e.1),
                    replaced := b.diff.replaced.filter (fun e => keep e.1),
                    nonces := b.diff.nonces.filter (fun e => keep e.1),
                    storage := b.diff.storage.filter (fun e => keep e.1) }

/-- storage.go `StorageAt`: the slot first; the class-hash probe only for a zero value at
`latest`; with the flag, `ContractStorageLastUpdatedBlock` of the same reader. -/
def storageAt (be : Backend) (nd : Node) (id : BlockId) (a k : Nat) (lastUpdate : Bool) : Ans :=
  match stateByBlockID be nd id with
  | .error e => .err e
  | .ok st =>
    let v := storageIn st.blocks a k
    -- `ContractStorage`: a history reader reports a missing contract itself
    let read : Except Err Nat :=
      match st.kind with
      | .history => if v != 0 then .ok v else if deployedIn st.blocks a then .ok 0 else .error .contractNotFound
      | .head => .ok v
    match read with
    | .error e => .err e
    | .ok v =>
      if v == 0 && id == .latest && !deployedIn st.blocks a then .err .contractNotFound
      else if lastUpdate then .valueAt v (lastUpdateIn be st.blocks a k) else .num v

def nonce (be : Backend) (nd : Node) (id : BlockId) (a : Nat) : Ans :=
  match stateByBlockID be nd id with | .error e => .err e | .ok st => readNonce st a

def classHashAt (be : Backend) (nd : Node) (id : BlockId) (a : Nat) : Ans :=
  match stateByBlockID be nd id with | .error e => .err e | .ok st => readClassHash st a

def classByHash (be : Backend) (nd : Node) (id : BlockId) (c : Nat) : Ans :=
  match stateByBlockID be nd id with | .error e => .err e | .ok st => readClass st c

def classAt (be : Backend) (nd : Node) (id : BlockId) (a : Nat) : Ans :=
  classAtOf (classHashAt be nd id a) (classByHash be nd id)

end V10

/-! ## rpc/v9 (its own copies; no response flags, no `contract_addresses`; StorageAt probes first) -/

namespace V9

def unmarshalBlockID (cfg : Cfg) : RawId → Except Err BlockId
  | .tag s =>
    if s == "latest" then .ok .latest
    else if s == "pre_confirmed" then .ok .pre
    else if s == "l1_accepted" then .ok .l1Accepted
    else .error .invalidParams
  | .obj (some h) _ => .ok (.hash h)
  | .obj none (some n) => .ok (.number n)
  | .obj none none => .error .invalidParams
  | .objNullNumber => if cfg.nullNumberIsZero then .ok (.number 0) else .error .invalidParams
  | .null => .error .invalidParams
  | .other => .error .invalidParams

def l1AcceptedBlockNumber (nd : Node) : Option Nat :=
  match nd.l1 with
  | none => none
  | some l =>
    match height nd with
    | none => none
    | some h => some (min l h)

def blockByID (nd : Node) : BlockId → Except Err Block
  | .pre => .error .blockNotFound
  | .latest => match headBlock nd with | some b => .ok b | none => .error .blockNotFound
  | .hash h => match blockByHash nd h with | some b => .ok b | none => .error .blockNotFound
  | .l1Accepted =>
    match l1AcceptedBlockNumber nd with
    | none => .error .blockNotFound
    | some n => match blockByNumber nd n with | some b => .ok b | none => .error .blockNotFound
  | .number n => match blockByNumber nd n with | some b => .ok b | none => .error .blockNotFound

def blockHeaderByID (nd : Node) : BlockId → Except Err Block
  | .pre => .error .blockNotFound
  | .latest => match headBlock nd with | some b => .ok b | none => .error .blockNotFound
  | .hash h => match blockByHash nd h with | some b => .ok b | none => .error .blockNotFound
  | .number n => match blockByNumber nd n with | some b => .ok b | none => .error .blockNotFound
  | .l1Accepted =>
    match l1AcceptedBlockNumber nd with
    | none => .error .blockNotFound
    | some n => match blockByNumber nd n with | some b => .ok b | none => .error .blockNotFound

def stateByBlockID (be : Backend) (nd : Node) : BlockId → Except Err StateRef
  | .pre => .error .blockNotFound
  | .latest => headState nd
  | .hash h => stateAtBlockHash be nd h
  | .number n => stateAtBlockNumber nd n
  | .l1Accepted =>
    match l1AcceptedBlockNumber nd with
    | none => .error .blockNotFound
    | some n => stateAtBlockNumber nd n

def blockStatus (nd : Node) (n : Nat) : Fin :=
  match statusL1 nd with
  | some l => if n ≤ l then .l1 else .l2
  | none => .l2

def header (nd : Node) (b : Block) : Hdr :=
  { number := b.number, hash := b.hash, parent := b.parent, root := b.root, status := blockStatus nd b.number }

def blockTransactionCount (nd : Node) (id : BlockId) : Ans :=
  let count? : Option Nat :=
    match id with
    | .pre => none
    | .latest => match height nd with | some h => txCountByNumber nd h | none => none
    | .hash x => match numberByHash nd x with | some n => txCountByNumber nd n | none => none
    | .number n => txCountByNumber nd n
    | .l1Accepted => match l1AcceptedBlockNumber nd with | some n => txCountByNumber nd n | none => none
  match count? with
  | some c => .num c
  | none => .err .blockNotFound

def blockWithTxHashes (nd : Node) (id : BlockId) : Ans :=
  if id == .pre then .err .blockNotFound else
  match blockHeaderByID nd id with
  | .error e => .err e
  | .ok hd =>
    match txHashesByNumber nd hd.number with
    | none => .err .blockNotFound
    | some hs => .blockHashes (header nd hd) hs

def blockWithTxs (nd : Node) (id : BlockId) : Ans :=
  if id == .pre then .err .blockNotFound else
  match blockHeaderByID nd id with
  | .error e => .err e
  | .ok hd =>
    match txsByNumber nd hd.number with
    | none => .err .blockNotFound
    | some ts => .blockTxs (header nd hd) ts

def blockWithReceipts (nd : Node) (id : BlockId) : Ans :=
  match blockByID nd id with
  | .error e => .err e
  | .ok b =>
    let st := blockStatus nd b.number
    .blockReceipts (header nd b) (b.txs.map (fun t => (t, st)))

def transactionByHash (nd : Node) (h : Nat) : Ans :=
  match txByHash nd h with | some t => .tx t | none => .err .txnHashNotFound

def transactionByBlockIDAndIndex (nd : Node) (id : BlockId) (i : Int) : Ans :=
  if i < 0 then .err .invalidTxIndex else
  let n? : Option Nat :=
    match id with
    | .pre => none
    | .latest => (headBlock nd).map (·.number)
    | .hash x => numberByHash nd x
    | .number n => some n
    | .l1Accepted => l1AcceptedBlockNumber nd
  match n? with
  | none => .err .blockNotFound
  | some n => match txByNumberAndIndex nd n i.toNat with | some t => .tx t | none => .err .invalidTxIndex

def transactionReceiptByHash (nd : Node) (h : Nat) : Ans :=
  match numberAndIndexByTxHash nd h with
  | none => .err .txnHashNotFound
  | some (n, i) =>
    match txAndBlockHash nd n i with
    | none => .err .txnHashNotFound
    | some (t, bh) => .receipt t (blockStatus nd n) n bh

def transactionStatusFromStore (nd : Node) (h : Nat) : Ans :=
  match numberAndIndexByTxHash nd h with
  | none => .err .txnHashNotFound
  | some (n, i) =>
    match txByNumberAndIndex nd n i with
    | none => .err .txnHashNotFound
    | some t => .status (blockStatus nd n) t.reverted

def transactionStatus (env : Env) (nd : Node) (h : Nat) : StatusAns :=
  match transactionStatusFromStore nd h with
  | .err .txnHashNotFound =>
    match env.feeder with
    | .absent => .local (.err .txnHashNotFound)
    | .fails => .internal
    | .says fin exec =>
      let fin' := if fin == .notReceived && env.submitted then FFin.received else fin
      match adaptStatusV9 fin' exec with
      | none => .local (.err .txnHashNotFound)
      | some (f, e, r) => .remote f e r
  | a => .local a

def stateUpdate (nd : Node) (id : BlockId) : Ans :=
  let u? : Option Block :=
    match id with
    | .latest => match height nd with | some h => stateUpdateByNumber nd h | none => none
    | .pre => none
    | .hash x => stateUpdateByHash nd x
    | .number n => stateUpdateByNumber nd n
    | .l1Accepted => match l1AcceptedBlockNumber nd with | some n => stateUpdateByNumber nd n | none => none
  match u? with
  | none => .err .blockNotFound
  | some b => .update b.hash b.root b.oldRoot b.diff

/-- storage.go `StorageAt`: the class hash of the contract is probed first. -/
def storageAt (be : Backend) (nd : Node) (id : BlockId) (a k : Nat) : Ans :=
  match stateByBlockID be nd id with
  | .error e => .err e
  | .ok st => if deployedIn st.blocks a then .num (storageIn st.blocks a k) else .err .contractNotFound

def nonce (be : Backend) (nd : Node) (id : BlockId) (a : Nat) : Ans :=
  match stateByBlockID be nd id with | .error e => .err e | .ok st => readNonce st a

def classHashAt (be : Backend) (nd : Node) (id : BlockId) (a : Nat) : Ans :=
  match stateByBlockID be nd id with | .error e => .err e | .ok st => readClassHash st a

def classByHash (be : Backend) (nd : Node) (id : BlockId) (c : Nat) : Ans :=
  match stateByBlockID be nd id with | .error e => .err e | .ok st => readClass st c

def classAt (be : Backend) (nd : Node) (id : BlockId) (a : Nat) : Ans :=
  classAtOf (classHashAt be nd id a) (classByHash be nd id)

end V9

/-! ## rpc/v8 -/

namespace V8

/-- v8 block ids: no `l1_accepted`; the tag of the block under construction is `pending`. -/
def unmarshalBlockID (cfg : Cfg) : RawId → Except Err BlockId
  | .tag s =>
    if s == "latest" then .ok .latest
    else if s == "pending" then .ok .pre
    else .error .invalidParams
  | .obj (some h) _ => .ok (.hash h)
  | .obj none (some n) => .ok (.number n)
  | .obj none none => .error .invalidParams
  | .objNullNumber => if cfg.nullNumberIsZero then .ok (.number 0) else .error .invalidParams
  | .null => .error .invalidParams
  | .other => .error .invalidParams

/-- A header as the v8 helpers hand it on: a stored one, or that of the synthetic pending block
(`Handler.Pending`: no hash, number = head + 1, no transactions). -/
inductive Hd
  | stored (b : Block)
  | pending (p : Pending) (number : Nat)
deriving Repr, DecidableEq, Inhabited

def Hd.number : Hd → Nat
  | .stored b => b.number
  | .pending _ n => n

/-- pending_wrapper.go `Pending` (with `sync.MakeEmptyPendingForParent`). -/
def pending (nd : Node) : Option Hd :=
  match headBlock nd with
  | none => none
  | some h =>
    let n := h.number + 1
    if n < blockHashLag then some (.pending ⟨h.hash, h.root, {}⟩ n)
    else match blockByNumber nd (n - blockHashLag) with
      | some b => some (.pending ⟨h.hash, h.root, { storage := [(1, n - blockHashLag, b.hash)] }⟩ n)
      | none => none

/-- helpers.go `blockHeaderByID` (an `l1_accepted` id cannot be constructed in v8; the summary
model answers "invalid params" for it at decoding, so does this transcription). -/
def blockHeaderByID (nd : Node) : BlockId → Except Err Hd
  | .pre => match pending nd with | some p => .ok p | none => .error .blockNotFound
  | .latest => match headBlock nd with | some b => .ok (.stored b) | none => .error .blockNotFound
  | .hash h => match blockByHash nd h with | some b => .ok (.stored b) | none => .error .blockNotFound
  | .number n => match blockByNumber nd n with | some b => .ok (.stored b) | none => .error .blockNotFound
  | .l1Accepted => .error .invalidParams

/-- helpers.go `blockByID`. -/
def blockByID (nd : Node) : BlockId → Except Err Hd
  | .pre => match pending nd with | some p => .ok p | none => .error .blockNotFound
  | .latest => match headBlock nd with | some b => .ok (.stored b) | none => .error .blockNotFound
  | .hash h => match blockByHash nd h with | some b => .ok (.stored b) | none => .error .blockNotFound
  | .l1Accepted => .error .invalidParams
  | .number n => match blockByNumber nd n with | some b => .ok (.stored b) | none => .error .blockNotFound

/-- helpers.go `blockTxnsByNumber`: the pending block's (empty) list, or the list by number. -/
def blockTxnsByNumber (nd : Node) : BlockId → Except Err (List Tx)
  | .pre => match pending nd with | some _ => .ok [] | none => .error .blockNotFound
  | .number n => match txsByNumber nd n with | some ts => .ok ts | none => .error .blockNotFound
  | _ => .error .blockNotFound   -- not reachable: the callers pass `pending` or a number id

/-- helpers.go `stateByBlockID`: `pending` (no pending data) is the head state. -/
def stateByBlockID (be : Backend) (nd : Node) : BlockId → Except Err StateRef
  | .pre => headState nd
  | .latest => headState nd
  | .hash h => stateAtBlockHash be nd h
  | .number n => stateAtBlockNumber nd n
  | .l1Accepted => .error .invalidParams

/-- helpers.go `isL1Verified` + block.go `blockStatus`. -/
def blockStatus (nd : Node) (n : Nat) : Fin :=
  match statusL1 nd with
  | some l => if n ≤ l then .l1 else .l2
  | none => .l2

def header (nd : Node) (b : Block) : Hdr :=
  { number := b.number, hash := b.hash, parent := b.parent, root := b.root, status := blockStatus nd b.number }

/-- block.go `BlockWithTxHashes`: header by id; the transactions by `pending` or by
`BlockIDFromNumber(header.Number)`. -/
def blockWithTxHashes (nd : Node) (id : BlockId) : Ans :=
  match blockHeaderByID nd id with
  | .error e => .err e
  | .ok hd =>
    let numID := if id == .pre then id else BlockId.number hd.number
    match blockTxnsByNumber nd numID with
    | .error e => .err e
    | .ok ts =>
      match hd with
      | .pending p _ => .pendingBlock p.parent
      | .stored b => .blockHashes (header nd b) (ts.map (·.hash))

/-- block.go `BlockWithTxs`. -/
def blockWithTxs (nd : Node) (id : BlockId) : Ans :=
  match blockHeaderByID nd id with
  | .error e => .err e
  | .ok hd =>
    let numID := if id == .pre then id else BlockId.number hd.number
    match blockTxnsByNumber nd numID with
    | .error e => .err e
    | .ok ts =>
      match hd with
      | .pending p _ => .pendingBlock p.parent
      | .stored b => .blockTxs (header nd b) ts

/-- block.go `BlockWithReceipts`. -/
def blockWithReceipts (nd : Node) (id : BlockId) : Ans :=
  match blockByID nd id with
  | .error e => .err e
  | .ok (.pending p _) => .pendingBlock p.parent
  | .ok (.stored b) =>
    let st := blockStatus nd b.number
    .blockReceipts (header nd b) (b.txs.map (fun t => (t, st)))

/-- block.go `BlockTransactionCount`: `header.TransactionCount`. -/
def blockTransactionCount (nd : Node) (id : BlockId) : Ans :=
  match blockHeaderByID nd id with
  | .error e => .err e
  | .ok (.pending _ _) => .num 0
  | .ok (.stored b) => .num b.txs.length

/-- transaction.go `TransactionByHash`: the store, then the (empty) pending block. -/
def transactionByHash (nd : Node) (h : Nat) : Ans :=
  match txByHash nd h with
  | some t => .tx t
  | none => .err .txnHashNotFound   -- `PendingBlock()` is nil or holds no transaction

/-- transaction.go `TransactionByBlockIDAndIndex`. -/
def transactionByBlockIDAndIndex (nd : Node) (id : BlockId) (i : Int) : Ans :=
  if i < 0 then .err .invalidTxIndex else
  match id with
  | .pre => match pending nd with | none => .err .blockNotFound | some _ => .err .invalidTxIndex
  | .l1Accepted => .err .invalidParams
  | _ =>
    let n? : Option Nat :=
      match id with
      | .latest => (headBlock nd).map (·.number)
      | .hash x => numberByHash nd x
      | .number n => some n
      | _ => none
    match n? with
    | none => .err .blockNotFound
    | some n => match txByNumberAndIndex nd n i.toNat with | some t => .tx t | none => .err .invalidTxIndex

/-- transaction.go `TransactionReceiptByHash`: the tx-hash bucket; on a miss the (empty) pending
block; the finality from the L1 head (the stored block always has a hash). -/
def transactionReceiptByHash (nd : Node) (h : Nat) : Ans :=
  match numberAndIndexByTxHash nd h with
  | none => .err .txnHashNotFound
  | some (n, i) =>
    match txAndBlockHash nd n i with
    | none => .err .txnHashNotFound
    | some (t, bh) => .receipt t (blockStatus nd n) n bh

/-- transaction.go `TransactionStatus`: the receipt's finality and execution status; on
TXN_HASH_NOT_FOUND the feeder (`adaptTransactionStatus`). -/
def transactionStatus (env : Env) (nd : Node) (h : Nat) : StatusAns :=
  match transactionReceiptByHash nd h with
  | .receipt t f _ _ => .local (.status f t.reverted)
  | .err .txnHashNotFound =>
    match env.feeder with
    | .absent => .local (.err .txnHashNotFound)
    | .fails => .internal
    | .says fin exec =>
      let fin' := if fin == .notReceived && env.submitted then FFin.received else fin
      match adaptStatusV8 fin' exec with
      | none => .local (.err .txnHashNotFound)
      | some (f, e, r) => .remote f e r
  | a => .local a

/-- state_update.go `StateUpdate`. -/
def stateUpdate (nd : Node) (id : BlockId) : Ans :=
  match id with
  | .l1Accepted => .err .invalidParams
  | .pre => match pending nd with | some (.pending p _) => .pendingUpdate p.oldRoot p.diff | _ => .err .blockNotFound
  | _ =>
    let u? : Option Block :=
      match id with
      | .latest => match height nd with | some h => stateUpdateByNumber nd h | none => none
      | .hash x => stateUpdateByHash nd x
      | .number n => stateUpdateByNumber nd n
      | _ => none
    match u? with
    | none => .err .blockNotFound
    | some b => .update b.hash b.root b.oldRoot b.diff

def storageAt (be : Backend) (nd : Node) (id : BlockId) (a k : Nat) : Ans :=
  match stateByBlockID be nd id with
  | .error e => .err e
  | .ok st => if deployedIn st.blocks a then .num (storageIn st.blocks a k) else .err .contractNotFound

def nonce (be : Backend) (nd : Node) (id : BlockId) (a : Nat) : Ans :=
  match stateByBlockID be nd id with | .error e => .err e | .ok st => readNonce st a

def classHashAt (be : Backend) (nd : Node) (id : BlockId) (a : Nat) : Ans :=
  match stateByBlockID be nd id with | .error e => .err e | .ok st => readClassHash st a

def classByHash (be : Backend) (nd : Node) (id : BlockId) (c : Nat) : Ans :=
  match stateByBlockID be nd id with | .error e => .err e | .ok st => readClass st c

def classAt (be : Backend) (nd : Node) (id : BlockId) (a : Nat) : Ans :=
  classAtOf (classHashAt be nd id a) (classByHash be nd id)

end V8

/-! ## Dispatch: each version answered by the transcription of its own package -/

def unmarshalBlockIDV (cfg : Cfg) : Ver → RawId → Except Err BlockId
  | .v8 => V8.unmarshalBlockID cfg
  | .v9 => V9.unmarshalBlockID cfg
  | .v10 => V10.unmarshalBlockID cfg

/-- `withId` over the package's own `UnmarshalJSON`. -/
def withIdV (cfg : Cfg) (ver : Ver) (ptrV8 : Bool) (raw : RawId) (k : BlockId → Ans) : Ans :=
  match raw with
  | .null =>
    if cfg.nullCrashes && (ver != .v8 || ptrV8) then .crash else .err .invalidParams
  | _ =>
    match unmarshalBlockIDV cfg ver raw with
    | .ok id => k id
    | .error e => .err e

def blockNumberV (nd : Node) : Ans := match height nd with | some n => .num n | none => .err .noBlocks
def blockHashAndNumberV (nd : Node) : Ans :=
  match headBlock nd with | some b => .hashNum b.hash b.number | none => .err .noBlocks

/-- The handlers of one package by method (after the block id was decoded). -/
def handleV (be : Backend) (ver : Ver) (nd : Node) : Request → (BlockId → Ans)
  | .blockWithTxHashes _ => (match ver with | .v8 => V8.blockWithTxHashes nd | .v9 => V9.blockWithTxHashes nd | .v10 => V10.blockWithTxHashes nd)
  | .blockWithTxs _ => (match ver with | .v8 => V8.blockWithTxs nd | .v9 => V9.blockWithTxs nd | .v10 => V10.blockWithTxs nd)
  | .blockWithReceipts _ => (match ver with | .v8 => V8.blockWithReceipts nd | .v9 => V9.blockWithReceipts nd | .v10 => V10.blockWithReceipts nd)
  | .blockTransactionCount _ => (match ver with | .v8 => V8.blockTransactionCount nd | .v9 => V9.blockTransactionCount nd | .v10 => V10.blockTransactionCount nd)
  | .stateUpdate _ f => (match ver with | .v8 => V8.stateUpdate nd | .v9 => V9.stateUpdate nd | .v10 => fun id => V10.stateUpdate nd id f)
  | .transactionByBlockIdAndIndex _ i =>
    (match ver with
     | .v8 => fun id => V8.transactionByBlockIDAndIndex nd id i
     | .v9 => fun id => V9.transactionByBlockIDAndIndex nd id i
     | .v10 => fun id => V10.transactionByBlockIDAndIndex nd id i)
  | .storageAt a k _ =>
    (match ver with
     | .v8 => fun id => V8.storageAt be nd id a k
     | .v9 => fun id => V9.storageAt be nd id a k
     | .v10 => fun id => V10.storageAt be nd id a k false)
  | .storageAtWithLastUpdate a k _ => fun id => V10.storageAt be nd id a k true
  | .nonce _ a => (match ver with | .v8 => fun id => V8.nonce be nd id a | .v9 => fun id => V9.nonce be nd id a | .v10 => fun id => V10.nonce be nd id a)
  | .classHashAt _ a => (match ver with | .v8 => fun id => V8.classHashAt be nd id a | .v9 => fun id => V9.classHashAt be nd id a | .v10 => fun id => V10.classHashAt be nd id a)
  | .classByHash _ c => (match ver with | .v8 => fun id => V8.classByHash be nd id c | .v9 => fun id => V9.classByHash be nd id c | .v10 => fun id => V10.classByHash be nd id c)
  | .classAt _ a => (match ver with | .v8 => fun id => V8.classAt be nd id a | .v9 => fun id => V9.classAt be nd id a | .v10 => fun id => V10.classAt be nd id a)
  | _ => fun _ => .err .invalidParams   -- the methods without a block id never get here

/-- The whole read path of one API version: `serve` of `Model.lean`, with every handler and the
block-id decoder taken from the transcription of that version's package. -/
def serveV (cfg : Cfg) (be : Backend) (ver : Ver) (nd : Node) (r : Request) : Ans :=
  match r with
  | .blockNumber => blockNumberV nd
  | .blockHashAndNumber => blockHashAndNumberV nd
  | .transactionByHash h => (match ver with | .v8 => V8.transactionByHash nd h | .v9 => V9.transactionByHash nd h | .v10 => V10.transactionByHash nd h)
  | .transactionReceipt h => (match ver with | .v8 => V8.transactionReceiptByHash nd h | .v9 => V9.transactionReceiptByHash nd h | .v10 => V10.transactionReceiptByHash nd h)
  | .transactionStatus h =>
    (match ver with
     | .v8 => (match V8.transactionStatus {} nd h with | .local a => a | _ => .err .txnHashNotFound)
     | .v9 => V9.transactionStatusFromStore nd h
     | .v10 => V10.transactionStatusFromStore nd h)
  | .blockWithTxHashes raw | .blockWithTxs raw | .blockWithReceipts raw => withIdV cfg ver true raw (handleV be ver nd r)
  | .blockTransactionCount raw | .stateUpdate raw _ => withIdV cfg ver false raw (handleV be ver nd r)
  | .transactionByBlockIdAndIndex raw i =>
    if raw == .null && cfg.nullCrashes && i < 0 then .err .invalidTxIndex
    else withIdV cfg ver true raw (handleV be ver nd r)
  | .storageAt _ _ raw => withIdV cfg ver true raw (handleV be ver nd r)
  | .storageAtWithLastUpdate _ _ raw =>
    (match ver with
     | .v10 => withIdV cfg ver true raw (handleV be ver nd r)
     | _ => .err .invalidParams)
  | .nonce raw _ | .classHashAt raw _ | .classByHash raw _ | .classAt raw _ => withIdV cfg ver false raw (handleV be ver nd r)

/-- getTransactionStatus with a feeder environment, per package. -/
def transactionStatusV (ver : Ver) (env : Env) (nd : Node) (h : Nat) : StatusAns :=
  match ver with
  | .v8 => V8.transactionStatus env nd h
  | .v9 => V9.transactionStatus env nd h
  | .v10 => V10.transactionStatus env nd h

/-- `serveFlagged` over the per-package transcriptions. -/
def serveFlaggedV (cfg : Cfg) (be : Backend) (ver : Ver) (nd : Node) (r : Request) (fl : RawFlags) : Ans :=
  match flagOf ver r with
  | none => if fl == .absent then serveV cfg be ver nd r else .err .invalidParams
  | some known =>
    match decodeFlags known fl with
    | .error e => .err e
    | .ok set =>
      match r with
      | .storageAt a k raw | .storageAtWithLastUpdate a k raw =>
        if set then serveV cfg be ver nd (.storageAtWithLastUpdate a k raw)
        else serveV cfg be ver nd (.storageAt a k raw)
      | r => serveV cfg be ver nd r

end Juno.C08
