import JunoModel.C06.ProofsRun
/-!
C06 — an undisturbed cycle on the event machine does EXACTLY what `round` does: the same node
(chain and `currReorg`) and the same observations (commits and feed sends), not only the same chain.
`round` is the function the harness compares with the real synchroniser on every static shape
(commits and notifications); this closes the gap between that comparison and the machine the
theorems are about.
-/
namespace Juno.C06

theorem step_iter_full (cfg : Cfg) (s : Impl) (lpv : Nat) (H : Blk) (T : Chain) (ans : Option Blk)
    (ht : s.task = some lpv) (hch : s.node.chain = H :: T) :
    (revertIter cfg lpv H ans = .brk →
      (s.step cfg (.iter ans true)).1.node = s.node ∧ (s.step cfg (.iter ans true)).2 = [] ∧
      (s.step cfg (.iter ans true)).1.task = none) ∧
    (∀ cont, revertIter cfg lpv H ans = .revert cont →
      (s.step cfg (.iter ans true)).1.node = (revertHead s.node H true).1 ∧
      (s.step cfg (.iter ans true)).2 = (revertHead s.node H true).2 ∧
      (s.step cfg (.iter ans true)).1.task = (if cont then some lpv else none)) := by
  constructor
  · intro hit
    by_cases hle : H.num ≤ lpv
    · cases ans <;> simp [Impl.step, ht, hch, hit, hle]
    · simp [Impl.step, ht, hch, hit, hle]
  · intro cont hit
    by_cases hle : H.num ≤ lpv
    · cases ans <;> simp [Impl.step, ht, hch, hit, hle]
    · simp [Impl.step, ht, hch, hit, hle]

theorem node_eta (n : Node) : n = ⟨n.chain, n.reorg⟩ := rfl

theorem iterEvents_full (cfg : Cfg) (src : Chain) (lpv : Nat) :
    ∀ (c : Chain) (s : Impl), s.task = some lpv → s.node.chain = c →
      (Impl.run cfg s (iterEvents cfg src lpv c)).1.node = (revertTask cfg src lpv c s.node.reorg).1 ∧
      (Impl.run cfg s (iterEvents cfg src lpv c)).2 = (revertTask cfg src lpv c s.node.reorg).2
  | [], s, ht, hch => by
    have hn : (s.step cfg (.iter none true)).1.node = s.node ∧ (s.step cfg (.iter none true)).2 = [] := by
      simp [Impl.step, ht, hch]
    have hnode : s.node = ⟨[], s.node.reorg⟩ := by rw [← hch]
    simp only [iterEvents, Impl.run_cons, Impl.run, revertTask, hn.1, hn.2, List.append_nil]
    exact ⟨hnode, trivial⟩
  | hd :: tl, s, ht, hch => by
    obtain ⟨fb, fr⟩ := step_iter_full cfg s lpv hd tl (byNumber? src hd.num) ht hch
    have hnode : s.node = ⟨hd :: tl, s.node.reorg⟩ := by rw [← hch]
    unfold iterEvents revertTask
    cases hit : revertIter cfg lpv hd (byNumber? src hd.num) with
    | brk =>
      obtain ⟨h1, h2, _⟩ := fb hit
      simp only [Impl.run_cons, Impl.run, h1, h2, List.append_nil]
      exact ⟨hnode, trivial⟩
    | revert cont =>
      obtain ⟨h1, h2, h3⟩ := fr cont hit
      rw [hnode] at h1 h2
      cases cont with
      | false =>
        simp only [Bool.false_eq_true, if_false, Impl.run_cons, Impl.run, h1, h2, List.append_nil]
        exact ⟨trivial, trivial⟩
      | true =>
        simp only [if_true]
        have hch' : (s.step cfg (.iter (byNumber? src hd.num) true)).1.node.chain = tl := by
          rw [h1]; simp [revertHead]
        obtain ⟨i1, i2⟩ := iterEvents_full cfg src lpv tl (s.step cfg (.iter (byNumber? src hd.num) true)).1
          (by simpa using h3) hch'
        rw [Impl.run_cons]
        simp only [i1, i2, h1, h2]
        exact ⟨trivial, trivial⟩

/-- THE FULL REFINEMENT: an undisturbed cycle run on the event machine leaves the node (chain AND
`currReorg`) that `round` computes and emits the observations (commits, reorg and new-head
notifications, in order) that `round` lists. -/
theorem roundEvents_full (cfg : Cfg) (src : Chain) (s : Impl) (ht : s.task = none) :
    (Impl.run cfg s (roundEvents cfg src s.node.chain)).1.node = (round cfg src s.node).1 ∧
    (Impl.run cfg s (roundEvents cfg src s.node.chain)).2 = (round cfg src s.node).2 := by
  unfold roundEvents
  cases hf : byNumber? src (nextHeight s.node.chain) with
  | some b =>
    simp only []
    by_cases hok : b.ok = true
    · cases hsucc : succession s.node.chain b with
      | stored =>
        have h1 : (s.step cfg (.deliver (nextHeight s.node.chain) b false)).1.node = (onStored s.node b).1 ∧
            (s.step cfg (.deliver (nextHeight s.node.chain) b false)).2 = (onStored s.node b).2 := by
          simp [Impl.step, ht, hok, hsucc]
        have hr : round cfg src s.node = onStored s.node b := by simp [round, hf, hok, hsucc]
        rw [hr]
        simp [hok, Impl.run_cons, Impl.run, h1.1, h1.2]
      | badNumber =>
        have h1 : (s.step cfg (.deliver (nextHeight s.node.chain) b false)).1.node = s.node ∧
            (s.step cfg (.deliver (nextHeight s.node.chain) b false)).2 = [] := by
          simp [Impl.step, ht, hok, hsucc]
        have hr : round cfg src s.node = (s.node, []) := by simp [round, hf, hok, hsucc]
        rw [hr]
        simp [hok, Impl.run_cons, Impl.run, h1.1, h1.2]
      | rootMismatch =>
        have h1 : (s.step cfg (.deliver (nextHeight s.node.chain) b false)).1.node = s.node ∧
            (s.step cfg (.deliver (nextHeight s.node.chain) b false)).2 = [] := by
          simp [Impl.step, ht, hok, hsucc]
        have hr : round cfg src s.node = (s.node, []) := by simp [round, hf, hok, hsucc]
        rw [hr]
        simp [hok, Impl.run_cons, Impl.run, h1.1, h1.2]
      | parentMismatch =>
        have h1 : (s.step cfg (.deliver (nextHeight s.node.chain) b false)).1.node = s.node ∧
            (s.step cfg (.deliver (nextHeight s.node.chain) b false)).2 = [] ∧
            (s.step cfg (.deliver (nextHeight s.node.chain) b false)).1.task = some (mismatchLpv cfg b) := by
          simp [Impl.step, ht, hok, hsucc]
        obtain ⟨i1, i2⟩ := iterEvents_full cfg src (mismatchLpv cfg b) s.node.chain
          (s.step cfg (.deliver (nextHeight s.node.chain) b false)).1 h1.2.2 (by rw [h1.1])
        rw [h1.1] at i1 i2
        have hr : round cfg src s.node = revertTask cfg src (mismatchLpv cfg b) s.node.chain s.node.reorg := by
          simp [round, hf, hok, hsucc]
        rw [hr]
        simp only [hok, if_true]
        rw [Impl.run_cons, h1.2.1, List.nil_append]
        exact ⟨i1, i2⟩
    · have hokf : b.ok = false := by simpa using hok
      have h1 : (s.step cfg (.deliver (nextHeight s.node.chain) b false)).1.node = s.node ∧
          (s.step cfg (.deliver (nextHeight s.node.chain) b false)).2 = [] := by
        simp [Impl.step, ht, hokf]
      have hr : round cfg src s.node = (s.node, []) := by simp [round, hf, hokf]
      rw [hr]
      simp [hokf, Impl.run_cons, Impl.run, h1.1, h1.2]
  | none =>
    simp only []
    obtain ⟨hobs, hnode⟩ := step_reorgDetected cfg s (nextHeight s.node.chain) (srcLatest src) (srcConfirm src)
    have htask := step_reorgDetected_task cfg s (nextHeight s.node.chain) (srcLatest src)
      (srcConfirm src) ht
    cases hir : isReverting cfg s.node.chain (nextHeight s.node.chain) (srcLatest src)
        (srcConfirm src) with
    | none =>
      have hr : round cfg src s.node = (s.node, []) := by simp [round, hf, hir]
      rw [hr]
      simp [Impl.run_cons, Impl.run, hnode, hobs]
    | some lpv =>
      rw [hir] at htask
      obtain ⟨i1, i2⟩ := iterEvents_full cfg src lpv s.node.chain
        (s.step cfg (.reorgDetected (nextHeight s.node.chain) (srcLatest src) (srcConfirm src))).1
        htask (by rw [hnode])
      rw [hnode] at i1 i2
      have hr : round cfg src s.node = revertTask cfg src lpv s.node.chain s.node.reorg := by
        simp [round, hf, hir]
      rw [hr]
      simp only []
      rw [Impl.run_cons, hobs, List.nil_append]
      exact ⟨i1, i2⟩

theorem Impl.run_append_obs (cfg : Cfg) (s : Impl) (xs ys : List Ev) :
    (Impl.run cfg s (xs ++ ys)).2 = (Impl.run cfg s xs).2 ++ (Impl.run cfg (Impl.run cfg s xs).1 ys).2 := by
  induction xs generalizing s with
  | nil => simp [Impl.run]
  | cons x xs ih => simp only [List.cons_append, Impl.run_cons, ih, List.append_assoc]

/-- `k` undisturbed cycles in a row, as events -/
def roundsEvents (cfg : Cfg) (src : Chain) : Nat → Node → List Ev
  | 0, _ => []
  | k + 1, n => roundEvents cfg src n.chain ++ roundsEvents cfg src k (round cfg src n).1

/-- … and therefore `k` undisturbed cycles in a row on the event machine = `runRounds k`: the same
node and the same observations, for every `k`, every source chain (honest or not), every state
without a running task. -/
theorem roundsEvents_full (cfg : Cfg) (src : Chain) :
    ∀ (k : Nat) (s : Impl), s.task = none →
      (Impl.run cfg s (roundsEvents cfg src k s.node)).1.node = (runRounds cfg src k s.node).1 ∧
      (Impl.run cfg s (roundsEvents cfg src k s.node)).2 = (runRounds cfg src k s.node).2 ∧
      (Impl.run cfg s (roundsEvents cfg src k s.node)).1.task = none
  | 0, s, ht => ⟨rfl, rfl, ht⟩
  | k + 1, s, ht => by
    obtain ⟨f1, f2⟩ := roundEvents_full cfg src s ht
    obtain ⟨_, _, f3⟩ := roundEvents_spec cfg src s ht
    obtain ⟨i1, i2, i3⟩ := roundsEvents_full cfg src k (Impl.run cfg s (roundEvents cfg src s.node.chain)).1 f3
    rw [f1] at i1 i2 i3
    simp only [roundsEvents, runRounds]
    refine ⟨?_, ?_, ?_⟩
    · rw [Impl.run_append]; exact i1
    · rw [Impl.run_append_obs, f2, i2]
    · rw [Impl.run_append]; exact i3

end Juno.C06
