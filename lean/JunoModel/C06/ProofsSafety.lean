import JunoModel.C06.Proofs
/-!
C06 — helper lemmas, part 2: every run of the serial machine (`Impl`) is accepted by the
evidence-based relation (`Spec`).
-/
namespace Juno.C06

/-! ### the acceptor, step by step -/

theorem Spec.run_append (m : Mode) (s : Spec) (xs ys : List SEv) :
    Spec.run m s (xs ++ ys) = (match Spec.run m s xs with
      | .error r => .error r
      | .ok s' => Spec.run m s' ys) := by
  induction xs generalizing s with
  | nil => rfl
  | cons x xs ih =>
    simp only [List.cons_append, Spec.run]
    cases Spec.step m s x with
    | error r => rfl
    | ok s' => exact ih s'

theorem Spec.step_stored_head (m : Mode) (s : Spec) (req : Nat) (b : Blk) (rest : List (Nat × Blk))
    (hev : s.ev.blocks = (req, b) :: rest) (hok : b.ok = true) (hs : succession s.chain b = .stored) :
    Spec.step m s (.obs (.stored b.num b.hash)) =
      .ok { s with chain := b :: s.chain, pending := [], ev := s.ev.clearRecent,
                   owed := s.owed ++ reorgObs (rangeOf s.pending) ++ [Obs.newHead b.num b.hash] } := by
  simp [Spec.step, hev, hok, hs]

theorem Spec.step_newHead (m : Mode) (s : Spec) (n h : Nat) (rest : List Obs)
    (ho : s.owed = Obs.newHead n h :: rest) :
    Spec.step m s (.obs (.newHead n h)) = .ok { s with owed := rest } := by
  simp [Spec.step, ho]

theorem Spec.step_reorg (m : Mode) (s : Spec) (r : Range) (rest : List Obs)
    (ho : s.owed = Obs.reorg r :: rest) :
    Spec.step m s (.obs (.reorg r)) = .ok { s with owed := rest } := by
  simp [Spec.step, ho]

theorem Spec.step_reverted (m : Mode) (s : Spec) (hd : Blk) (tl : Chain) (hc : s.chain = hd :: tl)
    (hj : justified m s.ev s.chain hd = true) :
    Spec.step m s (.obs (.reverted hd.num hd.hash)) =
      .ok { s with chain := tl, pending := hd :: s.pending } := by
  have hj' : justified m s.ev (hd :: tl) hd = true := hc ▸ hj
  simp [Spec.step, hc, hj']

/-! ### evidence only grows -/

theorem justified_mono_blocks (m : Mode) (ev : Evidence) (x : Nat × Blk) (c : Chain) (hd : Blk)
    (h : justified m ev c hd = true) : justified m (ev.addBlock x) c hd = true := by
  cases m <;> unfold justified at * <;>
    simp only [Evidence.addBlock, List.any_cons, Bool.or_eq_true, Bool.and_eq_true] at *
  · rcases h with (h | h) | h
    · exact Or.inl (Or.inl (Or.inr h))
    · exact Or.inl (Or.inr (Or.inr h))
    · exact Or.inr h
  · rcases h with h | h
    · exact Or.inl (Or.inr h)
    · exact Or.inr h
  · exact Or.inr h

theorem justified_mono_latests (m : Mode) (ev : Evidence) (x : Hdr) (c : Chain) (hd : Blk)
    (h : justified m ev c hd = true) : justified m (ev.addLatest x) c hd = true := by
  cases m <;> unfold justified at * <;>
    simp only [Evidence.addLatest, List.any_cons, Bool.or_eq_true, Bool.and_eq_true] at *
  · rcases h with (h | h) | h
    · exact Or.inl (Or.inl h)
    · exact Or.inl (Or.inr h)
    · exact Or.inr (Or.inr h)
  · rcases h with h | h
    · exact Or.inl h
    · exact Or.inr (Or.inr h)
  · exact h

/-- which relation a code variant can be held to -/
structure ModeOK (cfg : Cfg) (m : Mode) : Prop where
  head : m ≠ .lenient → cfg.confirmHead = true
  ver : m = .verified → cfg.verifyAns = true ∧ cfg.confirmLatest = true

theorem ModeOK.lenient (cfg : Cfg) : ModeOK cfg .lenient := ⟨fun h => absurd rfl h, fun h => by cases h⟩

/-! ### what a run of the machine emits -/

/-- Ghost answers of the source (as `served` / `latest`) followed by the observations of the step. -/
def Impl.emit (cfg : Cfg) (s : Impl) (e : Ev) : List SEv :=
  match e with
  | .deliver req b _ =>
    match s.task with
    | some _ => []
    | none => SEv.served req b :: (s.step cfg e).2.map SEv.obs
  | .reorgDetected _ latest confirm =>
    match s.task, latest with
    | none, some l =>
      SEv.latest l :: (match confirm with
        | some b => if cfg.confirmLatest then [SEv.served l.num b] else []
        | none => [])
    | _, _ => []
  | .iter ans _ =>
    match s.task, s.node.chain with
    | some lpv, hd :: _ =>
      (if hd.num ≤ lpv then (match ans with | some rb => [SEv.served hd.num rb] | none => []) else [])
        ++ (s.step cfg e).2.map SEv.obs
    | _, _ => []
  | .restart =>
    match s.task with
    | none => [SEv.restart]
    | some _ => []

def Impl.trace (cfg : Cfg) (s : Impl) : List Ev → List SEv
  | [] => []
  | e :: es => s.emit cfg e ++ Impl.trace cfg (s.step cfg e).1 es

/-- Conditions on one event in its pre-state: block numbers are uint64 values, `RevertHead`
succeeds, and — unless the code checks it itself (`cfg.numCheck`) — the source answers the
revert task's `BlockByNumber(h)` with a block numbered `h`. -/
def Impl.evOK (cfg : Cfg) (s : Impl) : Ev → Prop
  | .deliver _ b _ => b.num < U64
  | .reorgDetected _ _ _ => True
  | .iter ans revOk =>
    revOk = true ∧
    (cfg.numCheck = false → ∀ lpv hd tl rb, s.task = some lpv → s.node.chain = hd :: tl →
      hd.num ≤ lpv → ans = some rb → rb.num = hd.num)
  | .restart => True

def Impl.runOK (cfg : Cfg) (s : Impl) : List Ev → Prop
  | [] => True
  | e :: es => s.evOK cfg e ∧ Impl.runOK cfg (s.step cfg e).1 es

/-- While `revertTask(lpv)` runs, every block above `lpv` that is still on the chain is justified. -/
def TaskInv (m : Mode) (i : Impl) : Prop :=
  ∀ lpv, i.task = some lpv → ∀ hd tl, (hd :: tl) <:+ i.node.chain → lpv < hd.num →
    justified m i.ev (hd :: tl) hd = true

structure Sim (m : Mode) (i : Impl) (sp : Spec) : Prop where
  chain : sp.chain = i.node.chain
  ev : sp.ev = i.ev
  owed : sp.owed = []
  reorg : i.node.reorg = rangeOf sp.pending
  linked : Linked i.node.chain
  bound : ∀ x ∈ i.node.chain, x.num < U64
  task : TaskInv m i

theorem rangeOf_cons (hd : Blk) (p : List Blk) :
    rangeOf (hd :: p) = some (match rangeOf p with
      | none => ⟨hd.num, hd.hash, hd.num, hd.hash⟩
      | some r => { r with startNum := hd.num, startHash := hd.hash }) := by
  cases p with
  | nil => rfl
  | cons a rest => simp [rangeOf, lastD]

theorem Sim.init {m : Mode} {c : Chain} (hl : Linked c) (hb : ∀ x ∈ c, x.num < U64) :
    Sim m (Impl.init c) (Spec.init c) :=
  ⟨rfl, rfl, rfl, rfl, hl, hb, by intro lpv h; cases h⟩

/-! ### facts about the transcribed functions -/

/-- expected parent of the next block -/
def expParent : Chain → Nat
  | [] => 0
  | hd :: _ => hd.hash

theorem succession_def (c : Chain) (b : Blk) : succession c b =
    if nextHeight c != b.num then .badNumber
    else if b.parent != expParent c then .parentMismatch
    else if b.root != rootStep (stateRoot c) b.diff then .rootMismatch else .stored := by
  cases c <;> rfl

theorem succession_stored {c : Chain} {b : Blk} (h : succession c b = .stored) :
    b.num = nextHeight c ∧ b.parent = expParent c := by
  rw [succession_def] at h
  by_cases h1 : nextHeight c = b.num
  · by_cases h2 : b.parent = expParent c
    · exact ⟨h1.symm, h2⟩
    · simp [h1, h2] at h
  · simp [h1] at h

/-- `Store` succeeded: the root the block claims IS the root of the state after applying its diff -/
theorem succession_stored_root {c : Chain} {b : Blk} (h : succession c b = .stored) :
    b.root = rootStep (stateRoot c) b.diff := by
  rw [succession_def] at h
  by_cases h1 : nextHeight c = b.num
  · by_cases h2 : b.parent = expParent c
    · by_cases h3 : b.root = rootStep (stateRoot c) b.diff
      · exact h3
      · simp [h1, h2, h3] at h
    · simp [h1, h2] at h
  · simp [h1] at h

/-- a block claiming another root than the one its diff produces is never `stored` -/
theorem succession_wrong_root {c : Chain} {b : Blk} (h : b.root ≠ rootStep (stateRoot c) b.diff) :
    succession c b ≠ .stored := fun hs => h (succession_stored_root hs)

/-- every block of the chain claims exactly the root of the state its history produces -/
def RootsOK : Chain → Prop
  | [] => True
  | b :: tl => b.root = rootStep (stateRoot tl) b.diff ∧ RootsOK tl

theorem RootsOK.tail {b : Blk} {tl : Chain} (h : RootsOK (b :: tl)) : RootsOK tl := h.2

theorem RootsOK.suffix {c d : Chain} (h : RootsOK c) (hs : d <:+ c) : RootsOK d := by
  induction c with
  | nil => simp at hs; subst hs; trivial
  | cons b tl ih =>
    rcases List.suffix_cons_iff.mp hs with rfl | h'
    · exact h
    · exact ih h.2 h'

/-- the head's claimed root is the root of the state the node holds -/
theorem RootsOK.head_root {b : Blk} {tl : Chain} (h : RootsOK (b :: tl)) :
    b.root = stateRoot (b :: tl) := h.1

theorem RootsOK.cons_of_succession {c : Chain} {b : Blk} (hr : RootsOK c)
    (h : succession c b = .stored) : RootsOK (b :: c) := ⟨succession_stored_root h, hr⟩

theorem succession_parentMismatch {c : Chain} {b : Blk} (h : succession c b = .parentMismatch) :
    b.num = nextHeight c ∧ b.parent ≠ expParent c := by
  rw [succession_def] at h
  by_cases h1 : nextHeight c = b.num
  · by_cases h2 : b.parent = expParent c
    · simp only [h1, h2, bne_self_eq_false, Bool.false_eq_true, if_false] at h
      split at h <;> cases h
    · exact ⟨h1.symm, h2⟩
  · simp [h1] at h

theorem Linked.cons_of_succession {c : Chain} {b : Blk} (hl : Linked c)
    (h : succession c b = .stored) : Linked (b :: c) := by
  obtain ⟨hn, hp⟩ := succession_stored h
  cases c with
  | nil => exact ⟨hn, hp⟩
  | cons hd tl => exact ⟨hn, hp, hl⟩

theorem isReverting_some {cfg : Cfg} {c : Chain} {next : Nat} {l : Hdr} {confirm : Option Blk} {lpv : Nat}
    (h : isReverting cfg c next (some l) confirm = some lpv) :
    ∃ H T lh, c = H :: T ∧ H.num + 1 = next ∧ l.num ≤ H.num ∧ byNumber? c l.num = some lh ∧
      lh.hash ≠ l.hash ∧
      (cfg.confirmLatest = true →
        ∃ b, confirm = some b ∧ b.ok = true ∧ b.num = l.num ∧ b.hash = l.hash) ∧
      ((cfg.zeroGuard = true ∧ l.num = 0 ∧ lpv = 0) ∨
       (¬ (cfg.zeroGuard = true ∧ l.num = 0) ∧ lpv = sub64 l.num 1)) := by
  unfold isReverting at h
  cases c with
  | nil => simp at h
  | cons H T =>
    simp only [] at h
    by_cases hnext : H.num + 1 = next
    case neg => simp [hnext] at h
    by_cases hgt : l.num > H.num
    case pos => simp [hnext, hgt] at h
    have hle' : l.num ≤ H.num := by omega
    have hcmp : (if l.num < H.num then l.num else H.num) = l.num := by split <;> omega
    simp only [hnext, bne_self_eq_false, Bool.false_eq_true, if_false, hgt, hcmp] at h
    cases hlh : byNumber? (H :: T) l.num with
    | none => simp [hlh] at h
    | some lh =>
      simp only [hlh] at h
      by_cases hne : l.hash = lh.hash
      case pos => simp [hne] at h
      have hb : (l.hash == lh.hash) = false := by simpa using hne
      simp only [hb, Bool.false_eq_true, if_false] at h
      by_cases hconf : (cfg.confirmLatest && !confirmed confirm l) = true
      case pos => rw [if_pos hconf] at h; cases h
      rw [if_neg hconf] at h
      refine ⟨H, T, lh, rfl, hnext, hle', rfl, fun e => hne e.symm, ?_, ?_⟩
      · intro hcl
        simp only [hcl, Bool.true_and, Bool.not_eq_true', Bool.not_eq_false] at hconf
        cases confirm with
        | none => simp [confirmed] at hconf
        | some b =>
          simp only [confirmed, Bool.and_eq_true, beq_iff_eq] at hconf
          exact ⟨b, rfl, hconf.1.1, hconf.1.2, hconf.2⟩
      · by_cases hz : (cfg.zeroGuard && l.num == 0) = true
        · rw [if_pos hz] at h
          simp only [Bool.and_eq_true, beq_iff_eq] at hz
          left; exact ⟨hz.1, hz.2, (Option.some.inj h).symm⟩
        · rw [if_neg hz] at h
          simp only [Bool.and_eq_true, beq_iff_eq] at hz
          right; exact ⟨hz, (Option.some.inj h).symm⟩

/-! ### the simulation -/

def Impl.addBlock (i : Impl) (x : Nat × Blk) : Impl := { i with ev := i.ev.addBlock x }

def Spec.addBlock (s : Spec) (x : Nat × Blk) : Spec := { s with ev := s.ev.addBlock x }

theorem Sim.addBlock {m : Mode} {i : Impl} {sp : Spec} (h : Sim m i sp) (x : Nat × Blk) :
    Sim m (i.addBlock x) (sp.addBlock x) := by
  refine ⟨h.chain, ?_, h.owed, h.reorg, h.linked, h.bound, ?_⟩
  · simp [Impl.addBlock, Spec.addBlock, h.ev]
  · intro lpv ht hd tl hs hlt
    exact justified_mono_blocks _ _ _ _ _ (h.task lpv ht hd tl hs hlt)

theorem suffix_eq_of_num {c : Chain} {H hd : Blk} {T tl : Chain} (hl : Linked c) (hc : c = H :: T)
    (hs : (hd :: tl) <:+ c) (hn : H.num ≤ hd.num) : hd = H ∧ tl = T := by
  subst hc
  have h1 := Linked.head_num hl
  have h2 := Linked.head_num (hl.suffix hs)
  have h3 := hs.length_le
  have : (hd :: tl).length = (H :: T).length := by simp at h3 ⊢; omega
  have := hs.eq_of_length this
  exact ⟨(List.cons.inj this).1, (List.cons.inj this).2⟩

theorem Sim.step_deliver (cfg : Cfg) {m : Mode} {i : Impl} {sp : Spec} (h : Sim m i sp)
    (hm : ModeOK cfg m) (req : Nat) (b : Blk)
    (c : Bool) (hb : b.num < U64) :
    ∃ sp', Spec.run m sp (i.emit cfg (.deliver req b c)) = .ok sp' ∧
      Sim m (i.step cfg (.deliver req b c)).1 sp' := by
  cases ht : i.task with
  | some lpv =>
    exact ⟨sp, by simp [Impl.emit, ht, Spec.run], by simpa [Impl.step, ht] using h⟩
  | none =>
    have h1 := h.addBlock (req, b)
    have hserved : Spec.step m sp (.served req b) = .ok (sp.addBlock (req, b)) := rfl
    by_cases hok : b.ok = true
    case neg =>
      refine ⟨sp.addBlock (req, b), ?_, ?_⟩
      · simp [Impl.emit, ht, Impl.step, hok, Spec.run, hserved]
      · simpa [Impl.step, ht, hok, Impl.addBlock] using h1
    case pos =>
    by_cases hc : c = true
    case pos =>
      refine ⟨sp.addBlock (req, b), ?_, ?_⟩
      · simp [Impl.emit, ht, Impl.step, hok, hc, Spec.run, hserved]
      · simpa [Impl.step, ht, hok, hc, Impl.addBlock] using h1
    case neg =>
    cases hsucc : succession i.node.chain b with
    | badNumber =>
      refine ⟨sp.addBlock (req, b), ?_, ?_⟩
      · simp [Impl.emit, ht, Impl.step, hok, hc, hsucc, Spec.run, hserved]
      · simpa [Impl.step, ht, hok, hc, hsucc, Impl.addBlock] using h1
    | rootMismatch =>
      refine ⟨sp.addBlock (req, b), ?_, ?_⟩
      · simp [Impl.emit, ht, Impl.step, hok, hc, hsucc, Spec.run, hserved]
      · simpa [Impl.step, ht, hok, hc, hsucc, Impl.addBlock] using h1
    | parentMismatch =>
      refine ⟨sp.addBlock (req, b), ?_, ?_⟩
      · simp [Impl.emit, ht, Impl.step, hok, hc, hsucc, Spec.run, hserved]
      · have hstep : (i.step cfg (.deliver req b c)).1 =
            { i.addBlock (req, b) with task := some (mismatchLpv cfg b) } := by
          simp [Impl.step, ht, hok, hc, hsucc, Impl.addBlock]
        rw [hstep]
        refine ⟨h1.chain, h1.ev, h1.owed, h1.reorg, h1.linked, h1.bound, ?_⟩
        intro lpv hlpv hd tl hs hlt
        simp only [Option.some.injEq] at hlpv
        subst hlpv
        obtain ⟨hn, hp⟩ := succession_parentMismatch hsucc
        cases hch : i.node.chain with
        | nil =>
          have : (hd :: tl) <:+ ([] : Chain) := by simpa [Impl.addBlock, hch] using hs
          simp at this
        | cons H T =>
          have hs' : (hd :: tl) <:+ i.node.chain := by simpa [Impl.addBlock] using hs
          have hbn : b.num = H.num + 1 := by simpa [hch, nextHeight] using hn
          have hHb := h.bound H (by simp [hch])
          have hhd : hd.num ≤ H.num := by
            have := Linked.head_num (h.linked.suffix hs')
            have := Linked.head_num (hch ▸ h.linked)
            have := hs'.length_le
            simp [hch] at this; omega
          cases hcf : cfg.confirmHead with
          | true =>
            have : mismatchLpv cfg b = b.num - 1 := by
              unfold mismatchLpv; simp only [hcf, if_true]; exact sub64_of_le (by omega) hb
            rw [this] at hlt; omega
          | false =>
            have hml : m = .lenient := by
              cases m with
              | lenient => rfl
              | fresh => have := hm.head (by simp); rw [this] at hcf; cases hcf
              | verified => have := hm.head (by simp); rw [this] at hcf; cases hcf
            subst hml
            have hmm : mismatchLpv cfg b = sub64 b.num 2 := by
              unfold mismatchLpv; simp [hcf]
            rw [hmm] at hlt
            by_cases hb2 : 2 ≤ b.num
            · have hlpv : sub64 b.num 2 = b.num - 2 := sub64_of_le hb2 hb
              rw [hlpv] at hlt
              obtain ⟨e1, e2⟩ := suffix_eq_of_num h.linked hch hs' (by omega)
              subst e1; subst e2
              unfold justified
              have : ((i.addBlock (req, b)).ev.blocks.any
                  (fun rb => rb.2.ok && rb.2.num == hd.num + 1 && rb.2.parent != hd.hash)) = true := by
                have hp' : b.parent ≠ hd.hash := by simpa [hch, expParent] using hp
                simp [Impl.addBlock, Evidence.addBlock, hok, hbn, hp']
              simp [this]
            · have hlpv : sub64 b.num 2 = U64 - 1 := by
                have : b.num = 1 := by omega
                rw [this]; decide
              rw [hlpv] at hlt
              have := h.bound hd (hs'.subset (List.mem_cons_self ..))
              unfold U64 at *; omega
    | stored =>
      have hl' := h.linked.cons_of_succession hsucc
      have hst := Spec.step_stored_head m (sp.addBlock (req, b)) req b sp.ev.blocks
        (by simp [Spec.addBlock, Evidence.addBlock]) hok (by simpa [Spec.addBlock, h.chain] using hsucc)
      have hemit : i.emit cfg (.deliver req b c) =
          SEv.served req b :: SEv.obs (.stored b.num b.hash) ::
            ((reorgObs i.node.reorg).map SEv.obs ++ [SEv.obs (.newHead b.num b.hash)]) := by
        simp [Impl.emit, ht, Impl.step, hok, hc, hsucc, onStored]
      have hstep : (i.step cfg (.deliver req b c)).1 =
          { i.addBlock (req, b) with node := ⟨b :: i.node.chain, none⟩,
                                     ev := (i.ev.addBlock (req, b)).clearRecent } := by
        simp [Impl.step, ht, hok, hc, hsucc, onStored, Impl.addBlock]
      rw [hemit, hstep]
      refine ⟨⟨b :: sp.chain, (sp.ev.addBlock (req, b)).clearRecent, [], []⟩, ?_, ?_⟩
      · simp only [Spec.run, hserved, hst]
        have ho : (sp.addBlock (req, b)).owed = [] := h.owed
        have hr : rangeOf (sp.addBlock (req, b)).pending = i.node.reorg := h.reorg.symm
        rw [ho, hr]
        cases hreo : i.node.reorg with
        | none =>
          simp only [reorgObs, List.map_nil, List.nil_append, Spec.run]
          rw [Spec.step_newHead m _ b.num b.hash [] (by simp)]
          simp [Spec.addBlock]
        | some r =>
          simp only [reorgObs, List.map_cons, List.map_nil, List.nil_append, List.cons_append, Spec.run]
          rw [Spec.step_reorg m _ r [Obs.newHead b.num b.hash] (by simp)]
          simp only []
          rw [Spec.step_newHead m _ b.num b.hash [] (by simp)]
          simp [Spec.addBlock]
      · refine ⟨by simp [h.chain], by simp [h.ev], rfl, by simp [rangeOf], hl', ?_, ?_⟩
        · intro x hx
          rcases List.mem_cons.mp hx with rfl | hx
          · exact hb
          · exact h.bound x hx
        · intro lpv hlpv
          simp [Impl.addBlock, ht] at hlpv

def Impl.addLatest (i : Impl) (x : Hdr) : Impl := { i with ev := i.ev.addLatest x }

def Spec.addLatest (s : Spec) (x : Hdr) : Spec := { s with ev := s.ev.addLatest x }

theorem Sim.addLatest {m : Mode} {i : Impl} {sp : Spec} (h : Sim m i sp) (x : Hdr) :
    Sim m (i.addLatest x) (sp.addLatest x) := by
  refine ⟨h.chain, ?_, h.owed, h.reorg, h.linked, h.bound, ?_⟩
  · simp [Impl.addLatest, Spec.addLatest, h.ev]
  · intro lpv ht hd tl hs hlt
    exact justified_mono_latests _ _ _ _ _ (h.task lpv ht hd tl hs hlt)

theorem isReverting_none_latest (cfg : Cfg) (c : Chain) (next : Nat) (confirm : Option Blk) :
    isReverting cfg c next none confirm = none := by
  unfold isReverting; cases c <;> simp

theorem Sim.step_reorgDetected (cfg : Cfg) {m : Mode} {i : Impl} {sp : Spec} (h : Sim m i sp)
    (hm : ModeOK cfg m) (next : Nat) (latest : Option Hdr) (confirm : Option Blk) :
    ∃ sp', Spec.run m sp (i.emit cfg (.reorgDetected next latest confirm)) = .ok sp' ∧
      Sim m (i.step cfg (.reorgDetected next latest confirm)).1 sp' := by
  cases ht : i.task with
  | some lpv =>
    exact ⟨sp, by simp [Impl.emit, ht, Spec.run], by simpa [Impl.step, ht] using h⟩
  | none =>
    cases latest with
    | none =>
      have hir := isReverting_none_latest cfg i.node.chain next confirm
      exact ⟨sp, by simp [Impl.emit, ht, Spec.run], by simpa [Impl.step, ht, hir] using h⟩
    | some l =>
      -- the states after the ghost answers (the header, and the confirming block if one was fetched)
      let addC : Bool := cfg.confirmLatest && confirm.isSome
      let i1 : Impl := match confirm with
        | some b => if cfg.confirmLatest then (i.addLatest l).addBlock (l.num, b) else i.addLatest l
        | none => i.addLatest l
      let sp1 : Spec := match confirm with
        | some b => if cfg.confirmLatest then (sp.addLatest l).addBlock (l.num, b) else sp.addLatest l
        | none => sp.addLatest l
      have h1 : Sim m i1 sp1 := by
        cases confirm with
        | none => exact h.addLatest l
        | some b =>
          by_cases hcl : cfg.confirmLatest = true
          · simpa [i1, sp1, hcl] using (h.addLatest l).addBlock (l.num, b)
          · simpa [i1, sp1, hcl] using h.addLatest l
      have hi1 : i1.node = i.node ∧ i1.task = none := by
        cases confirm with
        | none => exact ⟨rfl, ht⟩
        | some b =>
          by_cases hcl : cfg.confirmLatest = true
          · simp [i1, hcl, Impl.addBlock, Impl.addLatest, ht]
          · simp [i1, hcl, Impl.addLatest, ht]
      have hrun : Spec.run m sp (i.emit cfg (.reorgDetected next (some l) confirm)) = .ok sp1 := by
        cases confirm with
        | none => simp [Impl.emit, ht, Spec.run, Spec.step, sp1, Spec.addLatest]
        | some b =>
          by_cases hcl : cfg.confirmLatest = true
          · simp [Impl.emit, ht, Spec.run, Spec.step, sp1, hcl, Spec.addLatest, Spec.addBlock]
          · simp [Impl.emit, ht, Spec.run, Spec.step, sp1, hcl, Spec.addLatest]
      refine ⟨sp1, hrun, ?_⟩
      cases hir : isReverting cfg i.node.chain next (some l) confirm with
      | none =>
        have hstep : (i.step cfg (.reorgDetected next (some l) confirm)).1 = i1 := by
          cases confirm with
          | none => simp [Impl.step, ht, hir, i1, Impl.addLatest]
          | some b =>
            by_cases hcl : cfg.confirmLatest = true
            · simp [Impl.step, ht, hir, i1, hcl, Impl.addLatest, Impl.addBlock]
            · simp [Impl.step, ht, hir, i1, hcl, Impl.addLatest]
        rw [hstep]; exact h1
      | some lpv =>
        have hstep : (i.step cfg (.reorgDetected next (some l) confirm)).1 =
            { i1 with task := some lpv } := by
          cases confirm with
          | none => simp [Impl.step, ht, hir, i1, Impl.addLatest]
          | some b =>
            by_cases hcl : cfg.confirmLatest = true
            · simp [Impl.step, ht, hir, i1, hcl, Impl.addLatest, Impl.addBlock]
            · simp [Impl.step, ht, hir, i1, hcl, Impl.addLatest]
        rw [hstep]
        refine ⟨h1.chain, h1.ev, h1.owed, h1.reorg, h1.linked, h1.bound, ?_⟩
        intro lpv' hlpv hd tl hs hlt
        simp only [Option.some.injEq] at hlpv
        subst hlpv
        obtain ⟨H, T, lh, hch, _, hle, hlh, hne, hconf, hcase⟩ := isReverting_some hir
        have hs' : (hd :: tl) <:+ i.node.chain := by rw [← hi1.1]; exact hs
        have hHb := h.bound H (by simp [hch])
        have hlnum : l.num ≤ hd.num := by
          rcases hcase with ⟨_, hz, _⟩ | ⟨_, hl⟩
          · omega
          · by_cases h0 : l.num = 0
            · omega
            · have : sub64 l.num 1 = l.num - 1 := sub64_of_le (by omega) (by omega)
              rw [hl, this] at hlt; omega
        have hlook : byNumber? (hd :: tl) l.num = some lh := by
          rw [← Linked.byNumber_suffix h.linked hs' (by
            have := Linked.head_num (h.linked.suffix hs'); simp; omega)]
          exact hlh
        -- the header is in both evidence lists of i1, the confirming block (if demanded) too
        have hlat : l ∈ i1.ev.latests ∧ l ∈ i1.ev.rlatests := by
          cases confirm with
          | none => simp [i1, Impl.addLatest, Evidence.addLatest]
          | some b =>
            by_cases hcl : cfg.confirmLatest = true
            · simp [i1, hcl, Impl.addLatest, Impl.addBlock, Evidence.addLatest, Evidence.addBlock]
            · simp [i1, hcl, Impl.addLatest, Evidence.addLatest]
        cases m with
        | lenient =>
          unfold justified
          have : (i1.ev.latests.any (fun l' => decide (l'.num ≤ hd.num) &&
              (match byNumber? (hd :: tl) l'.num with
                | some lb => lb.hash != l'.hash | none => false))) = true := by
            rw [List.any_eq_true]
            exact ⟨l, hlat.1, by simp [hlnum, hlook, hne]⟩
          simp only [Bool.or_eq_true]
          exact Or.inr this
        | fresh =>
          unfold justified
          have : (i1.ev.rlatests.any (fun l' => decide (l'.num ≤ hd.num) &&
              (match byNumber? (hd :: tl) l'.num with
                | some lb => lb.hash != l'.hash | none => false))) = true := by
            rw [List.any_eq_true]
            exact ⟨l, hlat.2, by simp [hlnum, hlook, hne]⟩
          simp only [Bool.or_eq_true]
          exact Or.inr this
        | verified =>
          obtain ⟨_, hcl⟩ := hm.ver rfl
          obtain ⟨b, hcb, hbok, hbn, hbh⟩ := hconf hcl
          subst hcb
          unfold justified
          rw [List.any_eq_true]
          refine ⟨(l.num, b), by simp [i1, hcl, Impl.addBlock, Impl.addLatest, Evidence.addBlock, Evidence.addLatest], ?_⟩
          have hne' : lh.hash ≠ b.hash := by rw [hbh]; exact hne
          simp [hbok, hbn, hlnum, hlook, hne']

theorem Sim.step_iter (cfg : Cfg) {m : Mode} {i : Impl} {sp : Spec} (h : Sim m i sp)
    (hm : ModeOK cfg m) (ans : Option Blk)
    (revOk : Bool) (hok : i.evOK cfg (.iter ans revOk)) :
    ∃ sp', Spec.run m sp (i.emit cfg (.iter ans revOk)) = .ok sp' ∧
      Sim m (i.step cfg (.iter ans revOk)).1 sp' := by
  obtain ⟨hrev, hnum⟩ := hok
  subst hrev
  cases ht : i.task with
  | none =>
    exact ⟨sp, by simp [Impl.emit, ht, Spec.run], by simpa [Impl.step, ht] using h⟩
  | some lpv =>
    cases hch : i.node.chain with
    | nil =>
      refine ⟨sp, by simp [Impl.emit, ht, hch, Spec.run], ?_⟩
      have hstep : (i.step cfg (.iter ans true)).1 = { i with task := none } := by
        simp [Impl.step, ht, hch]
      rw [hstep]
      exact ⟨h.chain, h.ev, h.owed, h.reorg, h.linked, h.bound, by intro l hl; cases hl⟩
    | cons H T =>
      let x : Option (Nat × Blk) := if H.num ≤ lpv then ans.map (fun rb => (H.num, rb)) else none
      let i1 : Impl := match x with | some y => i.addBlock y | none => i
      let sp1 : Spec := match x with | some y => sp.addBlock y | none => sp
      have h1 : Sim m i1 sp1 := by
        cases hx : x with
        | none => simpa [i1, sp1, hx] using h
        | some y => simpa [i1, sp1, hx] using h.addBlock y
      have hi1 : i1.node = i.node ∧ i1.task = i.task := by
        cases hx : x <;> simp [i1, hx, Impl.addBlock]
      have hghost : ∀ rest, Spec.run m sp
          ((if H.num ≤ lpv then (match ans with | some rb => [SEv.served H.num rb] | none => [])
            else []) ++ rest) = Spec.run m sp1 rest := by
        intro rest
        by_cases hle : H.num ≤ lpv
        · cases ans with
          | none => simp [sp1, x, hle]
          | some rb => simp [sp1, x, hle, Spec.run, Spec.step, Spec.addBlock]
        · simp [sp1, x, hle]
      cases hit : revertIter cfg lpv H ans with
      | brk =>
        refine ⟨sp1, ?_, ?_⟩
        · have : i.emit cfg (.iter ans true) =
              (if H.num ≤ lpv then (match ans with | some rb => [SEv.served H.num rb] | none => [])
                else []) ++ [] := by
            simp [Impl.emit, ht, hch, Impl.step, hit]
          rw [this, hghost]; rfl
        · have hstep : (i.step cfg (.iter ans true)).1 = { i1 with task := none } := by
            by_cases hle : H.num ≤ lpv
            · cases ans <;> simp [Impl.step, ht, hch, hit, i1, x, hle, Impl.addBlock]
            · simp [Impl.step, ht, hch, hit, i1, x, hle]
          rw [hstep]
          exact ⟨h1.chain, h1.ev, h1.owed, h1.reorg, h1.linked, h1.bound, by intro l hl; cases hl⟩
      | revert cont =>
        have hj : justified m sp1.ev sp1.chain H = true := by
          rw [h1.ev, h1.chain, hi1.1, hch]
          by_cases hle : H.num ≤ lpv
          · -- the answer was consulted: it differs, carries the right number, (is verified)
            unfold revertIter at hit
            simp only [hle, if_true] at hit
            cases ans with
            | none => simp at hit
            | some rb =>
              simp only [] at hit
              have hrbnum : rb.num = H.num := by
                cases hnc : cfg.numCheck with
                | false => exact hnum hnc lpv H T rb ht hch hle rfl
                | true =>
                  by_cases e : rb.num = H.num
                  · exact e
                  · simp [hnc, e] at hit
              have hver : cfg.verifyAns = true → rb.ok = true := by
                intro hv
                by_cases e : rb.ok = true
                · exact e
                · simp [hv, e, hrbnum] at hit
              have hne : rb.hash ≠ H.hash := by
                intro e; simp [e, hrbnum] at hit
              have hmem : (H.num, rb) ∈ i1.ev.blocks ∧ (H.num, rb) ∈ i1.ev.rblocks := by
                simp [i1, x, hle, Impl.addBlock, Evidence.addBlock]
              cases m with
              | lenient =>
                unfold justified
                have : (i1.ev.blocks.any
                    (fun y => y.1 == H.num && y.2.num == H.num && y.2.hash != H.hash)) = true := by
                  rw [List.any_eq_true]; exact ⟨_, hmem.1, by simp [hrbnum, hne]⟩
                simp [this]
              | fresh =>
                unfold justified
                have : (i1.ev.rblocks.any
                    (fun y => y.1 == H.num && y.2.num == H.num && y.2.hash != H.hash)) = true := by
                  rw [List.any_eq_true]; exact ⟨_, hmem.2, by simp [hrbnum, hne]⟩
                simp [this]
              | verified =>
                have hrok := hver (hm.ver rfl).1
                unfold justified
                rw [List.any_eq_true]
                refine ⟨_, hmem.2, ?_⟩
                have hne' : H.hash ≠ rb.hash := fun e => hne e.symm
                simp [hrok, hrbnum, Linked.byNumber_head, hne']
          · have := h1.task lpv (by rw [hi1.2, ht]) H T (by rw [hi1.1, hch]; exact List.suffix_refl _)
              (by omega)
            exact this
        have hemit : i.emit cfg (.iter ans true) =
            (if H.num ≤ lpv then (match ans with | some rb => [SEv.served H.num rb] | none => [])
              else []) ++ [SEv.obs (.reverted H.num H.hash)] := by
          simp [Impl.emit, ht, hch, Impl.step, hit, revertHead]
        have hstep : (i.step cfg (.iter ans true)).1 =
            { i1 with node := (revertHead i.node H true).1, task := if cont then some lpv else none } := by
          by_cases hle : H.num ≤ lpv
          · cases ans <;> simp [Impl.step, ht, hch, hit, i1, x, hle, Impl.addBlock]
          · simp [Impl.step, ht, hch, hit, i1, x, hle]
        rw [hemit, hghost, hstep]
        have hc1 : sp1.chain = H :: T := by rw [h1.chain, hi1.1, hch]
        refine ⟨{ sp1 with chain := T, pending := H :: sp1.pending }, ?_, ?_⟩
        · simp only [Spec.run]
          rw [Spec.step_reverted m sp1 H T hc1 hj]
        · refine ⟨by simp [revertHead, hch], h1.ev, h1.owed, ?_, ?_, ?_, ?_⟩
          · have hr : i.node.reorg = rangeOf sp1.pending := by rw [← hi1.1]; exact h1.reorg
            simp only [revertHead]
            rw [rangeOf_cons, ← hr]
            generalize i.node.reorg = q
            cases q <;> rfl
          · simp only [revertHead, if_true, hch, List.tail_cons]
            exact (hch ▸ h.linked).tail
          · intro y hy
            simp only [revertHead, if_true, hch, List.tail_cons] at hy
            exact h.bound y (by rw [hch]; exact List.mem_cons_of_mem _ hy)
          · intro lpv' hl' hd tl hs hlt
            have hl'' : lpv' = lpv := by
              cases cont <;> simp at hl'
              exact hl'.symm
            subst hl''
            simp only [revertHead, if_true, hch, List.tail_cons] at hs
            exact h1.task lpv' (by rw [hi1.2, ht]) hd tl
              (by rw [hi1.1, hch]; exact hs.trans (List.suffix_cons _ _)) hlt

theorem Sim.step (cfg : Cfg) {m : Mode} {i : Impl} {sp : Spec} (h : Sim m i sp)
    (hm : ModeOK cfg m) (e : Ev) (hok : i.evOK cfg e) :
    ∃ sp', Spec.run m sp (i.emit cfg e) = .ok sp' ∧ Sim m (i.step cfg e).1 sp' := by
  cases e with
  | deliver req b c => exact h.step_deliver cfg hm req b c hok
  | reorgDetected next latest confirm => exact h.step_reorgDetected cfg hm next latest confirm
  | iter ans revOk => exact h.step_iter cfg hm ans revOk hok
  | restart =>
    cases ht : i.task with
    | some lpv =>
      exact ⟨sp, by simp [Impl.emit, ht, Spec.run], by simpa [Impl.step, ht] using h⟩
    | none =>
      refine ⟨{ sp with pending := [] }, ?_, ?_⟩
      · simp [Impl.emit, ht, Spec.run, Spec.step, h.owed]
      · have hstep : (i.step cfg .restart).1 = { i with node := { i.node with reorg := none } } := by
          simp [Impl.step, ht]
        rw [hstep]
        exact ⟨h.chain, h.ev, h.owed, rfl, h.linked, h.bound,
          by intro lpv hl; simp [ht] at hl⟩

theorem Impl.run_cons (cfg : Cfg) (i : Impl) (e : Ev) (es : List Ev) :
    Impl.run cfg i (e :: es) =
      ((Impl.run cfg (i.step cfg e).1 es).1, (i.step cfg e).2 ++ (Impl.run cfg (i.step cfg e).1 es).2) := rfl

theorem Sim.run (cfg : Cfg) {m : Mode} (hsc : ModeOK cfg m) :
    ∀ (es : List Ev) {i : Impl} {sp : Spec}, Sim m i sp → i.runOK cfg es →
    ∃ sp', Spec.run m sp (i.trace cfg es) = .ok sp' ∧ Sim m (Impl.run cfg i es).1 sp'
  | [], i, sp, h, _ => ⟨sp, rfl, h⟩
  | e :: es, i, sp, h, hok => by
    obtain ⟨sp1, hr1, hs1⟩ := h.step cfg hsc e hok.1
    obtain ⟨sp2, hr2, hs2⟩ := Sim.run cfg hsc es hs1 hok.2
    refine ⟨sp2, ?_, ?_⟩
    · simp only [Impl.trace]
      rw [Spec.run_append, hr1]; exact hr2
    · rw [Impl.run_cons]; exact hs2

/-! ### what acceptance means -/

theorem Spec.stored_inv {m : Mode} {s s' : Spec} {n h : Nat}
    (hst : Spec.step m s (.obs (.stored n h)) = .ok s') :
    ∃ req b, (req, b) ∈ s.ev.blocks ∧ b.ok = true ∧ b.num = n ∧ b.hash = h ∧
      succession s.chain b = .stored ∧ s'.chain = b :: s.chain ∧ s'.ev = s.ev.clearRecent := by
  simp only [Spec.step] at hst
  split at hst
  · split at hst <;> cases hst
  · split at hst
    · split at hst <;> cases hst
    · rename_i rb hfind
      have hm := List.mem_of_find?_eq_some hfind
      have hp := List.find?_some hfind
      simp only [Bool.and_eq_true, beq_iff_eq] at hp
      cases hst
      exact ⟨rb.1, rb.2, hm, hp.1.2, hp.1.1.1, hp.1.1.2, hp.2, rfl, rfl⟩

theorem Spec.reverted_inv {m : Mode} {s s' : Spec} {n h : Nat}
    (hst : Spec.step m s (.obs (.reverted n h)) = .ok s') :
    ∃ hd tl, s.chain = hd :: tl ∧ hd.num = n ∧ hd.hash = h ∧ justified m s.ev s.chain hd = true ∧
      s' = { s with chain := tl, pending := hd :: s.pending } := by
  simp only [Spec.step] at hst
  split at hst
  · cases hst
  · rename_i hd tl hc
    split at hst
    · cases hst
    · rename_i hne
      split at hst
      · cases hst
      · rename_i hj
        cases hst
        simp only [Bool.or_eq_true, bne_iff_ne, ne_eq, not_or, Decidable.not_not] at hne
        simp only [Bool.not_eq_true', Bool.not_eq_false] at hj
        exact ⟨hd, tl, hc, hne.1, hne.2, hc ▸ hj, rfl⟩

/-- Any accepted step changes the chain by one store, by one justified revert, or not at all. -/
theorem Spec.step_chain {m : Mode} {s s' : Spec} {e : SEv} (hst : Spec.step m s e = .ok s') :
    s'.chain = s.chain ∨
    (∃ n h, e = .obs (.stored n h)) ∨
    (∃ n h, e = .obs (.reverted n h)) := by
  cases e with
  | served r b => left; simp only [Spec.step] at hst; cases hst; rfl
  | latest l => left; simp only [Spec.step] at hst; cases hst; rfl
  | restart =>
    left; simp only [Spec.step] at hst
    split at hst <;> cases hst; rfl
  | obs o =>
    cases o with
    | stored n h => right; left; exact ⟨n, h, rfl⟩
    | reverted n h => right; right; exact ⟨n, h, rfl⟩
    | revertFailed n h => left; simp only [Spec.step] at hst; cases hst; rfl
    | newHead n h =>
      left; simp only [Spec.step] at hst
      split at hst
      · cases hst
      · split at hst <;> cases hst; rfl
    | reorg r =>
      left; simp only [Spec.step] at hst
      split at hst
      · cases hst
      · split at hst <;> cases hst; rfl

end Juno.C06
