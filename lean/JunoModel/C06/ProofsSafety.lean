import JunoModel.C06.Proofs
/-!
C06 — helper lemmas, part 2: every run of the serial machine (`Impl`) is accepted by the
evidence-based relation (`Spec`).
-/
namespace Juno.C06

/-! ### the acceptor, step by step -/

theorem Spec.run_append (s : Spec) (xs ys : List SEv) :
    Spec.run s (xs ++ ys) = (match Spec.run s xs with
      | .error r => .error r
      | .ok s' => Spec.run s' ys) := by
  induction xs generalizing s with
  | nil => rfl
  | cons x xs ih =>
    simp only [List.cons_append, Spec.run]
    cases Spec.step s x with
    | error r => rfl
    | ok s' => exact ih s'

theorem Spec.step_stored_head (s : Spec) (req : Nat) (b : Blk) (rest : List (Nat × Blk))
    (hev : s.ev.blocks = (req, b) :: rest) (hok : b.ok = true) (hs : succession s.chain b = .stored) :
    Spec.step s (.obs (.stored b.num b.hash)) =
      .ok { s with chain := b :: s.chain, pending := [],
                   owed := s.owed ++ reorgObs (rangeOf s.pending) ++ [Obs.newHead b.num b.hash] } := by
  simp [Spec.step, hev, hok, hs]

theorem Spec.step_newHead (s : Spec) (n h : Nat) (rest : List Obs)
    (ho : s.owed = Obs.newHead n h :: rest) :
    Spec.step s (.obs (.newHead n h)) = .ok { s with owed := rest } := by
  simp [Spec.step, ho]

theorem Spec.step_reorg (s : Spec) (r : Range) (rest : List Obs)
    (ho : s.owed = Obs.reorg r :: rest) :
    Spec.step s (.obs (.reorg r)) = .ok { s with owed := rest } := by
  simp [Spec.step, ho]

theorem Spec.step_reverted (s : Spec) (hd : Blk) (tl : Chain) (hc : s.chain = hd :: tl)
    (hj : justified s.ev s.chain hd = true) :
    Spec.step s (.obs (.reverted hd.num hd.hash)) =
      .ok { s with chain := tl, pending := hd :: s.pending } := by
  have hj' : justified s.ev (hd :: tl) hd = true := hc ▸ hj
  simp [Spec.step, hc, hj']

/-! ### evidence only grows -/

theorem justified_mono_blocks (ev : Evidence) (x : Nat × Blk) (c : Chain) (hd : Blk)
    (h : justified ev c hd = true) :
    justified { ev with blocks := x :: ev.blocks } c hd = true := by
  unfold justified at *
  simp only [List.any_cons, Bool.or_eq_true] at *
  rcases h with (h | h) | h
  · exact Or.inl (Or.inl (Or.inr h))
  · exact Or.inl (Or.inr (Or.inr h))
  · exact Or.inr h

theorem justified_mono_latests (ev : Evidence) (x : Hdr) (c : Chain) (hd : Blk)
    (h : justified ev c hd = true) :
    justified { ev with latests := x :: ev.latests } c hd = true := by
  unfold justified at *
  simp only [List.any_cons, Bool.or_eq_true] at *
  rcases h with (h | h) | h
  · exact Or.inl (Or.inl h)
  · exact Or.inl (Or.inr h)
  · exact Or.inr (Or.inr h)

/-! ### what a run of the machine emits -/

/-- Ghost answers of the source (as `served` / `latest`) followed by the observations of the step. -/
def Impl.emit (cfg : Cfg) (s : Impl) (e : Ev) : List SEv :=
  match e with
  | .deliver req b _ =>
    match s.task with
    | some _ => []
    | none => SEv.served req b :: (s.step cfg e).2.map SEv.obs
  | .reorgDetected _ latest =>
    match s.task, latest with
    | none, some l => [SEv.latest l]
    | _, _ => []
  | .iter ans _ =>
    match s.task, s.node.chain with
    | some lpv, hd :: _ =>
      (if hd.num ≤ lpv then (match ans with | some rb => [SEv.served hd.num rb] | none => []) else [])
        ++ (s.step cfg e).2.map SEv.obs
    | _, _ => []

def Impl.trace (cfg : Cfg) (s : Impl) : List Ev → List SEv
  | [] => []
  | e :: es => s.emit cfg e ++ Impl.trace cfg (s.step cfg e).1 es

/-- Conditions on one event in its pre-state: block numbers are uint64 values, `RevertHead`
succeeds, and — unless the code checks it itself (`cfg.numCheck`) — the source answers the
revert task's `BlockByNumber(h)` with a block numbered `h`. -/
def Impl.evOK (cfg : Cfg) (s : Impl) : Ev → Prop
  | .deliver _ b _ => b.num < U64
  | .reorgDetected _ _ => True
  | .iter ans revOk =>
    revOk = true ∧
    (cfg.numCheck = false → ∀ lpv hd tl rb, s.task = some lpv → s.node.chain = hd :: tl →
      hd.num ≤ lpv → ans = some rb → rb.num = hd.num)

def Impl.runOK (cfg : Cfg) (s : Impl) : List Ev → Prop
  | [] => True
  | e :: es => s.evOK cfg e ∧ Impl.runOK cfg (s.step cfg e).1 es

/-- While `revertTask(lpv)` runs, every block above `lpv` that is still on the chain is justified. -/
def TaskInv (i : Impl) : Prop :=
  ∀ lpv, i.task = some lpv → ∀ hd tl, (hd :: tl) <:+ i.node.chain → lpv < hd.num →
    justified i.ev (hd :: tl) hd = true

structure Sim (i : Impl) (sp : Spec) : Prop where
  chain : sp.chain = i.node.chain
  ev : sp.ev = i.ev
  owed : sp.owed = []
  reorg : i.node.reorg = rangeOf sp.pending
  linked : Linked i.node.chain
  bound : ∀ x ∈ i.node.chain, x.num < U64
  task : TaskInv i

theorem rangeOf_cons (hd : Blk) (p : List Blk) :
    rangeOf (hd :: p) = some (match rangeOf p with
      | none => ⟨hd.num, hd.hash, hd.num, hd.hash⟩
      | some r => { r with startNum := hd.num, startHash := hd.hash }) := by
  cases p with
  | nil => rfl
  | cons a rest => simp [rangeOf, lastD]

theorem Sim.init {c : Chain} (hl : Linked c) (hb : ∀ x ∈ c, x.num < U64) :
    Sim (Impl.init c) (Spec.init c) :=
  ⟨rfl, rfl, rfl, rfl, hl, hb, by intro lpv h; cases h⟩

end Juno.C06
