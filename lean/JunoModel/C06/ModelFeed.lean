/-!
C06 — executable model of `feed.Feed[T]` (`feed/feed.go`), the type behind `SubscribeNewHeads`,
`SubscribeReorg`, `SubscribePreConfirmed` (and `Blockchain.SubscribeL1Head`). Core Lean only.

Transcribed: `Feed{subs map[uint64]*Subscription, nextID}`, `subscribe` (fresh id = `nextID`,
`nextID++`, entry added to the map), `Subscription.Unsubscribe` (once: close the channel, delete
`subs[id]`), `Send` (for every entry of the map: non-blocking send into the 1-slot channel; a
keep-last subscriber gets its slot replaced, any other full slot means the value is skipped),
receiving from the channel (buffered value, else empty, else closed).

`objs` is the list of every `Subscription` object ever created (a HANDLE is its index — what the
caller holds); `map` is `f.subs`. Keeping both apart is what lets the model express the defect
class "two live subscriptions share an id" (`IdGen.lenOfMap`: id = `len(f.subs)`, the variant a
seeded change introduced): the map entry of the older one is overwritten.
-/
namespace Juno.C06.Feed

abbrev V := Nat

/-- one `Subscription` -/
structure Obj where
  id : Nat
  keepLast : Bool
  /-- the 1-slot channel -/
  buf : Option V
  /-- `unsubOnce` has fired: channel closed -/
  closed : Bool
deriving DecidableEq, Repr, Inhabited

/-- how `subscribe` chooses the id -/
inductive IdGen where
  /-- the code: `id: f.nextID; f.nextID++` -/
  | fresh
  /-- a broken variant: `id: uint64(len(f.subs))` -/
  | lenOfMap
deriving DecidableEq, Repr, Inhabited

structure Feed where
  objs : List Obj
  /-- `f.subs`: id ↦ handle -/
  map : List (Nat × Nat)
  nextID : Nat
deriving Repr, Inhabited

def init : Feed := ⟨[], [], 0⟩

inductive Op where
  | subscribe (keepLast : Bool)
  | unsubscribe (h : Nat)
  | send (v : V)
  | recv (h : Nat)
deriving DecidableEq, Repr, Inhabited

inductive Out where
  | handle (h : Nat)
  | ok
  | val (v : V)
  | empty
  | closed
  | badHandle
deriving DecidableEq, Repr, Inhabited

/-- `f.subs[id] = s` -/
def insertMap (m : List (Nat × Nat)) (id h : Nat) : List (Nat × Nat) :=
  (id, h) :: m.filter (fun p => p.1 != id)

/-- `delete(f.subs, id)` -/
def eraseMap (m : List (Nat × Nat)) (id : Nat) : List (Nat × Nat) :=
  m.filter (fun p => p.1 != id)

/-- is the subscription object with handle `h` reachable from the map? -/
def inMap (m : List (Nat × Nat)) (h : Nat) : Bool := m.any (fun p => p.2 == h)

/-- the `select` in `Send` for one subscriber -/
def deliver (o : Obj) (v : V) : Obj :=
  match o.buf with
  | none => { o with buf := some v }
  | some _ => if o.keepLast then { o with buf := some v } else o

def step (g : IdGen) (f : Feed) : Op → Feed × Out
  | .subscribe keepLast =>
    let id := match g with
      | .fresh => f.nextID
      | .lenOfMap => f.map.length
    let h := f.objs.length
    ({ objs := f.objs ++ [⟨id, keepLast, none, false⟩], map := insertMap f.map id h,
       nextID := f.nextID + 1 }, .handle h)
  | .unsubscribe h =>
    match f.objs[h]? with
    | none => (f, .badHandle)
    | some o =>
      if o.closed then (f, .ok)
      else ({ f with objs := f.objs.set h { o with closed := true }, map := eraseMap f.map o.id }, .ok)
  | .send v =>
    ({ f with objs := f.objs.mapIdx (fun h o => if inMap f.map h then deliver o v else o) }, .ok)
  | .recv h =>
    match f.objs[h]? with
    | none => (f, .badHandle)
    | some o =>
      match o.buf with
      | some v => ({ f with objs := f.objs.set h { o with buf := none } }, .val v)
      | none => (f, if o.closed then .closed else .empty)

def run (g : IdGen) (f : Feed) : List Op → Feed × List Out
  | [] => (f, [])
  | op :: ops =>
    let r := step g f op
    let rs := run g r.1 ops
    (rs.1, r.2 :: rs.2)

/-- What ONE subscription sees, written without any reference to the others: a send reaches it
while it is open, its own unsubscribe closes it, its own receive empties the slot; subscribing and
whatever other handles do is invisible. -/
def soloStep (h : Nat) (o : Obj) : Op → Obj
  | .subscribe _ => o
  | .unsubscribe h' => if h' = h then { o with closed := true } else o
  | .send v => if o.closed then o else deliver o v
  | .recv h' => if h' = h then { o with buf := none } else o

end Juno.C06.Feed
