/-!
C06 — executable model of juno's block synchroniser (`sync/sync.go`), core Lean only.

What is transcribed (function by function):

* `isReverting`      — `(*Synchronizer).isReverting` (sync.go:210), including the `remoteHeight - 1`
                       uint64 subtraction (`sub64`).
* `succession`       — `statebackend.verifyBlockSuccession` (block_ops.go:30) as used by `Store`.
* `onStored`         — the success branch of `storeTask` (sync.go:375-402): `currReorg` is sent on the
                       reorg feed and cleared, then the block is sent on the new-heads feed.
* `revertHead`       — `(*Synchronizer).revertHead` (sync.go:532): `RevertHead` (which may fail: the
                       failure is only logged) followed by the `currReorg` bookkeeping.
* `revertIter`       — one iteration of the `revertTask` loop (sync.go:422-452).
* `Impl.step`        — the SERIAL part of the pipeline as a transition system: every mutation of the
                       chain happens in the callback chain of the `verifiers` stream (callbacks of a
                       `conc/stream` run one at a time, in submission order, and a new stream is only
                       created after `Wait()` of the old one), so a run of the synchroniser is a
                       sequence of the events `deliver` (a fetched block reaches
                       `verifierTask`+`storeTask`), `reorgDetected` (a failed fetch whose `isReverting`
                       said "reorg": the `revertTask` it submits), `iter` (one loop iteration of a
                       running `revertTask`). What the source answered, whether the stream context was
                       already cancelled, whether `RevertHead` succeeded are INPUTS of the events:
                       the machine is the relation of allowed next steps, not a scheduler.
* `round`/`runRounds`— the canonical sequential schedule of the restart loop against a stable, honest
                       source (one fetcher, every request succeeds).
* `Spec.step`        — the evidence-based ACCEPTOR the harness runs on observed traces.

Blocks are abstract: number, hash, parent hash, `ok` = "SanityCheckNewHeight returns nil on this
(block, state update, classes) triple", the identity of the state diff and the CLAIMED state root; the
node's state is the sequence of the stored diffs, its root `stateRoot` (`Store` compares the two). Block numbers are `Nat`; the two places where the code does
uint64 subtraction use `sub64` (exact for numbers `< 2^64`).
-/
namespace Juno.C06

/-- 2^64. -/
def U64 : Nat := 18446744073709551616

/-- Go's `a - b` on `uint64` (for `a, b < 2^64`). -/
def sub64 (a b : Nat) : Nat := (a + U64 - b) % U64

structure Blk where
  num : Nat
  hash : Nat
  parent : Nat
  /-- `SanityCheckNewHeight` accepts this triple -/
  ok : Bool
  /-- abstract identity of the block's state diff (incl. declared classes); `0` = the EMPTY diff -/
  diff : Nat
  /-- the state root the block CLAIMS (`Header.GlobalStateRoot` = `StateUpdate.NewRoot`, with the
  matching `OldRoot`). `ok` does not look at it: `SanityCheckNewHeight` only checks that header, hash
  and state update agree with each other, and blocks are unsigned. -/
  root : Nat
deriving DecidableEq, Repr, Inhabited

/-- what `BlockHeaderLatest` answers -/
structure Hdr where
  num : Nat
  hash : Nat
deriving DecidableEq, Repr, Inhabited

/-- A chain, HEAD FIRST. -/
abbrev Chain := List Blk

/-- `sync.ReorgBlockRange` -/
structure Range where
  startNum : Nat
  startHash : Nat
  endNum : Nat
  endHash : Nat
deriving DecidableEq, Repr, Inhabited

/-- Everything observable: commits of the chain and feed sends, in the order the code performs them. -/
inductive Obs where
  /-- `Store` succeeded: the chain grew by this block -/
  | stored (num hash : Nat)
  /-- `RevertHead` succeeded: this block was removed from the head -/
  | reverted (num hash : Nat)
  /-- `RevertHead` failed (only logged by the code); the chain did not change -/
  | revertFailed (num hash : Nat)
  /-- `newHeads.Send(block)` -/
  | newHead (num hash : Nat)
  /-- `reorgFeed.Send(currReorg)` -/
  | reorg (r : Range)
deriving DecidableEq, Repr, Inhabited

structure Node where
  chain : Chain
  /-- `currReorg` -/
  reorg : Option Range
deriving DecidableEq, Repr, Inhabited

/-- `nextHeight()`: `height + 1`, or 0 when there is no head. -/
def nextHeight : Chain → Nat
  | [] => 0
  | b :: _ => b.num + 1

/-- `BlockHeaderByNumber` on the local chain. -/
def byNumber? (c : Chain) (n : Nat) : Option Blk := c.find? (fun b => b.num == n)

/-- Which variant of the code is modelled. The model follows the code: `Cfg.asFound` is the variant
/repo contains NOW — since the commits 4de714c, 6c0318d, 508f9af, 40dc8b7, 158580c that is the
repaired code, all five fields `true` — and `Cfg.original` is the code at the pinned commit before those fixes. The
theorems are stated for every `Cfg`; the negation witnesses are about `Cfg.original`. -/
structure Cfg where
  /-- `isReverting` returns `(0, true)` instead of `(remoteHeight-1, true)` when `remoteHeight = 0`
  (`proposed-fixes/C06-isreverting-remote-height-zero.diff`, commit 4de714c) -/
  zeroGuard : Bool
  /-- `revertTask` breaks when the block it was given for `BlockByNumber(head.num)` carries another
  number (`proposed-fixes/C06-reverttask-check-block-number.diff`, commit 6c0318d) -/
  numCheck : Bool
  /-- on `ErrParentDoesNotMatchHead` `storeTask` starts `revertTask(block.Number-1)` instead of
  `revertTask(block.Number-2)`: the head is compared with the source before it is reverted
  (`proposed-fixes/C06-storetask-confirm-head-before-revert.diff`, commit 508f9af) -/
  confirmHead : Bool
  /-- `revertTask` runs `SanityCheckNewHeight` on the answer before it compares hashes and breaks
  when the check fails (commit 40dc8b7) -/
  verifyAns : Bool
  /-- `isReverting` does not act on a differing `BlockHeaderLatest` answer alone: it fetches that
  block, verifies it and requires it to carry the announced number and hash
  (commit 158580c) -/
  confirmLatest : Bool
deriving DecidableEq, Repr, Inhabited

/-- the code at the pinned commit, before any of the proposed fixes (the negation witnesses in
`Props.lean` are about this variant and stay valid when `asFound` moves on) -/
def Cfg.original : Cfg := ⟨false, false, false, false, false⟩

/-- THE SWITCH: the variant /repo currently contains (used by the driver, i.e. by the
correspondence check, and by the `…_asFound` theorems in Props.lean). A field is `true` when the
corresponding fix is in /repo: `zeroGuard` = 4de714c, `numCheck` = 6c0318d, `confirmHead` = 508f9af;
`verifyAns` = 40dc8b7, `confirmLatest` = 158580c (the two fixes made after the independent review).
If one of these commits is reverted, set its field back to `false` (the check then reports the
finding again as a violation, and `run_accepted_asFound` / `convergence_sequential_asFound` stop
compiling until they are weakened). -/
def Cfg.asFound : Cfg := ⟨true, true, true, true, true⟩

/-- all proposed fixes applied -/
def Cfg.fixed : Cfg := ⟨true, true, true, true, true⟩

/-- `lastPossiblyValidHeight` chosen by `storeTask` after `ErrParentDoesNotMatchHead` for block `b` -/
def mismatchLpv (cfg : Cfg) (b : Blk) : Nat := sub64 b.num (if cfg.confirmHead then 1 else 2)

/-- the confirming fetch returned a verified block with the announced number and hash -/
def confirmed (confirm : Option Blk) (rh : Hdr) : Bool :=
  match confirm with
  | some b => b.ok && b.num == rh.num && b.hash == rh.hash
  | none => false

/-- `isReverting(nextHeight)` given the local chain and the answer of `BlockHeaderLatest`
(`none` = the request failed). Returns `some lastPossiblyValidHeight` iff `isReorg`. `confirm` =
answer to the confirming `BlockByNumber(remoteHeight)` (only consulted with `cfg.confirmLatest`). -/
def isReverting (cfg : Cfg) (c : Chain) (next : Nat) (latest : Option Hdr) (confirm : Option Blk := none) :
    Option Nat :=
  match c with
  | [] => none                                   -- Height() fails
  | hd :: _ =>
    if hd.num + 1 != next then none else         -- only when waiting for the very next block
    match latest with
    | none => none
    | some rh =>
      if rh.num > hd.num then none else          -- newer block available: storeTask handles it
      let cmpHeight := if rh.num < hd.num then rh.num else hd.num
      match byNumber? c cmpHeight with
      | none => none
      | some lh =>
        if rh.hash == lh.hash then none
        else if cfg.confirmLatest && !confirmed confirm rh then none  -- announced block not fetched/verified
        else if cfg.zeroGuard && rh.num == 0 then some 0
        else some (sub64 rh.num 1)

/-- The state commitment, abstractly: the root after applying the diff `d` to a state whose root is
`r`. The empty diff (`0`) leaves the state, hence the root, alone; otherwise some fixed function. -/
def rootStep (r d : Nat) : Nat :=
  if d == 0 then r else (r * 1000003 + d * 7919 + 1) % 2147483647

/-- Root of the state the node ACTUALLY holds: a function of the diffs of the stored blocks (what
`state.Update` has applied), never of what their headers claim. -/
def stateRoot : Chain → Nat
  | [] => 0
  | b :: tl => rootStep (stateRoot tl) b.diff

inductive StoreRes where
  | stored | badNumber | parentMismatch
  /-- `state.Update` applied the diff and found another root than the block claims ("state's current
  root … does not match the expected root"): `Store` fails, nothing is written -/
  | rootMismatch
deriving DecidableEq, Repr

/-- `Store`: `verifyBlockSuccession` (expected number / parent from the head, 0 / felt.Zero on an
empty chain), then the state update, which verifies the claimed root against the root of the
resulting state — the only link between the claim and the real state. -/
def succession (c : Chain) (b : Blk) : StoreRes :=
  let expNum := nextHeight c
  let expParent := match c with | [] => 0 | hd :: _ => hd.hash
  if expNum != b.num then .badNumber
  else if b.parent != expParent then .parentMismatch
  else if b.root != rootStep (stateRoot c) b.diff then .rootMismatch
  else .stored

/-- `if s.currReorg != nil { s.reorgFeed.Send(s.currReorg) }` -/
def reorgObs : Option Range → List Obs
  | some r => [Obs.reorg r]
  | none => []

/-- success branch of `storeTask` -/
def onStored (n : Node) (b : Blk) : Node × List Obs :=
  ({ chain := b :: n.chain, reorg := none },
   [Obs.stored b.num b.hash]
     ++ reorgObs n.reorg
     ++ [Obs.newHead b.num b.hash])

/-- `revertHead(localHeader)`; `revOk` = `RevertHead()` returned nil. -/
def revertHead (n : Node) (hd : Blk) (revOk : Bool) : Node × List Obs :=
  ({ chain := if revOk then n.chain.tail else n.chain,
     reorg := some (match n.reorg with
       | none => ⟨hd.num, hd.hash, hd.num, hd.hash⟩
       | some r => { r with startNum := hd.num, startHash := hd.hash }) },
   [if revOk then Obs.reverted hd.num hd.hash else Obs.revertFailed hd.num hd.hash])

inductive IterOut where
  /-- `break` -/
  | brk
  /-- revert the head; `cont` = `shouldContinue` afterwards -/
  | revert (cont : Bool)
deriving DecidableEq, Repr

/-- One iteration of the `revertTask` loop with head `hd`; `ans` is what the source answers to
`BlockByNumber(hd.num)` (`none` = error) — only consulted when `hd.num ≤ lastPossiblyValidHeight`. -/
def revertIter (cfg : Cfg) (lpv : Nat) (hd : Blk) (ans : Option Blk) : IterOut :=
  if hd.num ≤ lpv then
    match ans with
    | none => .brk
    | some rb =>
      if cfg.numCheck && rb.num != hd.num then .brk
      else if cfg.verifyAns && !rb.ok then .brk
      else if rb.hash == hd.hash then .brk
      else .revert (rb.parent != hd.parent)
  else .revert true

/-! ### The serial machine -/

/-- Ghost history of everything the source has answered so far. -/
structure Evidence where
  /-- `(h, b)`: the source answered `BlockByNumber(h)` with `b` -/
  blocks : List (Nat × Blk)
  latests : List Hdr
  /-- the same, restricted to the answers given SINCE THE LAST STORED BLOCK (hence after every block
  now on the chain was stored) -/
  rblocks : List (Nat × Blk)
  rlatests : List Hdr
deriving Repr, Inhabited

def Evidence.empty : Evidence := ⟨[], [], [], []⟩

def Evidence.addBlock (ev : Evidence) (x : Nat × Blk) : Evidence :=
  { ev with blocks := x :: ev.blocks, rblocks := x :: ev.rblocks }

def Evidence.addLatest (ev : Evidence) (x : Hdr) : Evidence :=
  { ev with latests := x :: ev.latests, rlatests := x :: ev.rlatests }

/-- a block was stored: the answers so far are older than the new head -/
def Evidence.clearRecent (ev : Evidence) : Evidence := { ev with rblocks := [], rlatests := [] }

inductive Ev where
  /-- the block fetched for height `req` reaches verifierTask/storeTask; `cancelled` = the stream context is done when
  storeTask starts -/
  | deliver (req : Nat) (b : Blk) (cancelled : Bool)
  /-- fetch of `next` failed, `isReverting(next)` ran with this `BlockHeaderLatest` answer (and, with
  `cfg.confirmLatest`, this answer to the confirming `BlockByNumber(latest.num)`) -/
  | reorgDetected (next : Nat) (latest : Option Hdr) (confirm : Option Blk)
  /-- one iteration of the running revertTask; `ans` = answer to `BlockByNumber(head.num)` -/
  | iter (ans : Option Blk) (revOk : Bool)
  /-- `Run` was cancelled and has returned (all callbacks finished), and a NEW `Synchronizer` is
  started on the same database: `currReorg` starts as nil, the feeds are new. (While a `revertTask`
  runs `Run` cannot return: the cancelled context makes its next `BlockByNumber` fail, which is an
  `iter none`.) -/
  | restart
deriving Repr, Inhabited

structure Impl where
  node : Node
  /-- `some lpv` while a `revertTask(lpv)` is running -/
  task : Option Nat
  ev : Evidence
deriving Repr, Inhabited

def Impl.init (c : Chain) : Impl := ⟨⟨c, none⟩, none, Evidence.empty⟩

def Impl.step (cfg : Cfg) (s : Impl) : Ev → Impl × List Obs
  | .deliver req b cancelled =>
    match s.task with
    | some _ => (s, [])                      -- the callback chain is busy: not enabled
    | none =>
      let s := { s with ev := s.ev.addBlock (req, b) }
      if !b.ok then (s, [])                  -- verifierTask: sanity check failed, reset
      else if cancelled then (s, [])         -- storeTask: ctx.Done
      else match succession s.node.chain b with
        | .stored => let (n, o) := onStored s.node b; ({ s with node := n, ev := s.ev.clearRecent }, o)
        | .badNumber => (s, [])              -- other store error: reset
        | .rootMismatch => (s, [])           -- other store error: reset
        | .parentMismatch => ({ s with task := some (mismatchLpv cfg b) }, [])
  | .reorgDetected next latest confirm =>
    match s.task with
    | some _ => (s, [])
    | none =>
      let s := match latest with
        | some l => { s with ev := s.ev.addLatest l }
        | none => s
      -- the confirming fetch is only made when the header differs; recording it always is harmless
      let s := match latest, confirm with
        | some l, some b => if cfg.confirmLatest then { s with ev := s.ev.addBlock (l.num, b) } else s
        | _, _ => s
      match isReverting cfg s.node.chain next latest confirm with
      | some lpv => ({ s with task := some lpv }, [])
      | none => (s, [])
  | .iter ans revOk =>
    match s.task with
    | none => (s, [])
    | some lpv =>
      match s.node.chain with
      | [] => ({ s with task := none }, [])  -- HeadsHeader fails: break
      | hd :: _ =>
        -- the answer is only requested (and becomes evidence) when hd.num ≤ lpv
        let s := if hd.num ≤ lpv then
            (match ans with
             | some rb => { s with ev := s.ev.addBlock (hd.num, rb) }
             | none => s)
          else s
        match revertIter cfg lpv hd ans with
        | .brk => ({ s with task := none }, [])
        | .revert cont =>
          let (n, o) := revertHead s.node hd revOk
          ({ s with node := n, task := if cont then some lpv else none }, o)
  | .restart =>
    match s.task with
    | some _ => (s, [])
    | none => ({ s with node := { s.node with reorg := none } }, [])

def Impl.run (cfg : Cfg) (s : Impl) : List Ev → Impl × List Obs
  | [] => (s, [])
  | e :: es =>
    let (s1, o1) := s.step cfg e
    let (s2, o2) := Impl.run cfg s1 es
    (s2, o1 ++ o2)

/-! ### Canonical sequential schedule against a stable honest source -/

def srcLatest (src : Chain) : Option Hdr := src.head?.map (fun b => ⟨b.num, b.hash⟩)

/-- the source's answer to the confirming `BlockByNumber(latest.Number)`: its head block -/
def srcConfirm (src : Chain) : Option Blk := src.head?

/-- `revertTask(lpv)` run to completion against a stable source (all requests succeed, every
`RevertHead` succeeds). Structural in the local chain. -/
def revertTask (cfg : Cfg) (src : Chain) (lpv : Nat) : Chain → Option Range → Node × List Obs
  | [], r => (⟨[], r⟩, [])
  | hd :: tl, r =>
    match revertIter cfg lpv hd (byNumber? src hd.num) with
    | .brk => (⟨hd :: tl, r⟩, [])
    | .revert cont =>
      let (n, o) := revertHead ⟨hd :: tl, r⟩ hd true
      if cont then
        let (n', o') := revertTask cfg src lpv tl n.reorg
        (n', o ++ o')
      else (n, o)

/-- One round of the restart loop: fetch `nextHeight`; verify+store it, or revert. -/
def round (cfg : Cfg) (src : Chain) (n : Node) : Node × List Obs :=
  let h := nextHeight n.chain
  match byNumber? src h with
  | some b =>
    if !b.ok then (n, [])
    else match succession n.chain b with
      | .stored => onStored n b
      | .badNumber => (n, [])
      | .rootMismatch => (n, [])
      | .parentMismatch => revertTask cfg src (mismatchLpv cfg b) n.chain n.reorg
  | none =>
    match isReverting cfg n.chain h (srcLatest src) (srcConfirm src) with
    | some lpv => revertTask cfg src lpv n.chain n.reorg
    | none => (n, [])

def runRounds (cfg : Cfg) (src : Chain) : Nat → Node → Node × List Obs
  | 0, n => (n, [])
  | k + 1, n =>
    let (n1, o1) := round cfg src n
    let (n2, o2) := runRounds cfg src k n1
    (n2, o1 ++ o2)

/-! ### Evidence-based acceptor for observed traces -/

/-- Which relation between reverts and the source's answers is demanded. -/
inductive Mode where
  /-- (original code) ANY answer ever given counts: a different block for that height, a verified
  successor with another parent, a latest header at/below that differs -/
  | lenient
  /-- (code with `confirmHead`) only answers given since the last stored block count — i.e. answers
  computed after the reverted head was stored — and no successor blocks; a bare latest header and an
  unverified block still count -/
  | fresh
  /-- (code with `verifyAns` and `confirmLatest` too) only VERIFIED blocks given since the last
  stored block count: a verified block numbered `r ≤ hd.num`, served for height `r`, whose hash
  differs from the node's block `r` -/
  | verified
deriving DecidableEq, Repr, Inhabited

def Cfg.mode (cfg : Cfg) : Mode :=
  if !cfg.confirmHead then .lenient
  else if cfg.verifyAns && cfg.confirmLatest then .verified
  else .fresh

/-- The source has shown that it does not hold `hd` (head of the local chain `c`) any more. -/
def justified (m : Mode) (ev : Evidence) (c : Chain) (hd : Blk) : Bool :=
  match m with
  | .lenient =>
    ev.blocks.any (fun rb => rb.1 == hd.num && rb.2.num == hd.num && rb.2.hash != hd.hash)
    || ev.blocks.any (fun rb => rb.2.ok && rb.2.num == hd.num + 1 && rb.2.parent != hd.hash)
    || ev.latests.any (fun l => decide (l.num ≤ hd.num) &&
          (match byNumber? c l.num with | some lb => lb.hash != l.hash | none => false))
  | .fresh =>
    ev.rblocks.any (fun rb => rb.1 == hd.num && rb.2.num == hd.num && rb.2.hash != hd.hash)
    || ev.rlatests.any (fun l => decide (l.num ≤ hd.num) &&
          (match byNumber? c l.num with | some lb => lb.hash != l.hash | none => false))
  | .verified =>
    ev.rblocks.any (fun rb => rb.2.ok && rb.1 == rb.2.num && decide (rb.2.num ≤ hd.num) &&
          (match byNumber? c rb.2.num with | some lb => lb.hash != rb.2.hash | none => false))

inductive SEv where
  /-- the source answered `BlockByNumber(req)` with this block -/
  | served (req : Nat) (b : Blk)
  /-- the source answered `BlockHeaderLatest` -/
  | latest (h : Hdr)
  /-- an observation -/
  | obs (o : Obs)
  /-- the synchroniser was shut down and a new instance started -/
  | restart
deriving Repr, Inhabited

structure Spec where
  chain : Chain
  ev : Evidence
  /-- blocks reverted since the last stored block, most recent first -/
  pending : List Blk
  /-- notifications the node owes (in order) -/
  owed : List Obs
deriving Repr, Inhabited

def Spec.init (c : Chain) : Spec := ⟨c, Evidence.empty, [], []⟩

/-- last element of `l`, or `d` when `l` is empty -/
def lastD : List Blk → Blk → Blk
  | [], d => d
  | a :: l, _ => lastD l a

/-- The range a reorg notification must carry for the reverted blocks `p` (most recent first). -/
def rangeOf : List Blk → Option Range
  | [] => none
  | last :: rest =>
    let first := lastD rest last
    some ⟨last.num, last.hash, first.num, first.hash⟩

inductive Reject where
  | storedNotServed | storedNotVerified | storedNotSuccessor | storedRootWrong
  | revertNotHead | revertNotJustified | revertFailed
  | notifUnexpected
  | notifOwedAtShutdown
deriving DecidableEq, Repr

def Reject.name : Reject → String
  | .storedNotServed => "stored-block-never-served"
  | .storedNotVerified => "stored-block-not-verified"
  | .storedNotSuccessor => "stored-block-does-not-extend-head"
  | .storedRootWrong => "stored-block-claims-a-state-root-that-is-not-the-root-of-the-resulting-state"
  | .revertNotHead => "revert-not-of-head"
  | .revertNotJustified => "revert-without-evidence"
  | .revertFailed => "revert-head-failed"
  | .notifUnexpected => "notification-unexpected"
  | .notifOwedAtShutdown => "notification-owed-at-shutdown"

def Spec.step (m : Mode) (s : Spec) : SEv → Except Reject Spec
  | .served req b => .ok { s with ev := s.ev.addBlock (req, b) }
  | .latest h => .ok { s with ev := s.ev.addLatest h }
  | .restart =>
    -- nothing may be left unsent when `Run` returns; reverts not yet announced are forgotten
    if s.owed.isEmpty then .ok { s with pending := [] } else .error .notifOwedAtShutdown
  | .obs (.stored num hash) =>
    match s.ev.blocks.find? (fun rb => rb.2.num == num && rb.2.hash == hash && rb.2.ok) with
    | none =>
      if s.ev.blocks.any (fun rb => rb.2.num == num && rb.2.hash == hash) then .error .storedNotVerified
      else .error .storedNotServed
    | some _ =>
      -- any verified served block with this number and hash whose parent fits
      match s.ev.blocks.find? (fun rb => rb.2.num == num && rb.2.hash == hash && rb.2.ok
                                  && succession s.chain rb.2 == .stored) with
      | none =>
        if s.ev.blocks.any (fun rb => rb.2.num == num && rb.2.hash == hash && rb.2.ok
                                  && succession s.chain rb.2 == .rootMismatch) then .error .storedRootWrong
        else .error .storedNotSuccessor
      | some rb =>
        .ok { s with chain := rb.2 :: s.chain, pending := [], ev := s.ev.clearRecent,
                     owed := s.owed ++ reorgObs (rangeOf s.pending) ++ [Obs.newHead num hash] }
  | .obs (.reverted num hash) =>
    match s.chain with
    | [] => .error .revertNotHead
    | hd :: tl =>
      if hd.num != num || hd.hash != hash then .error .revertNotHead
      else if !justified m s.ev s.chain hd then .error .revertNotJustified
      else .ok { s with chain := tl, pending := hd :: s.pending }
  -- a failed `RevertHead` changes nothing (what the code announces afterwards is checked by `owed`)
  | .obs (.revertFailed _ _) => .ok s
  | .obs o =>
    match s.owed with
    | [] => .error .notifUnexpected
    | e :: rest => if e == o then .ok { s with owed := rest } else .error .notifUnexpected

def Spec.run (m : Mode) (s : Spec) : List SEv → Except Reject Spec
  | [] => .ok s
  | e :: es => match s.step m e with
    | .error r => .error r
    | .ok s' => Spec.run m s' es

end Juno.C06
