import JunoModel.C06.Model
/-!
C06 — what a registered plugin is told (`sync/sync.go`, `s.plugin != nil`), core Lean only.

* `handlePluginRevertBlock` — `(*Synchronizer).handlePluginRevertBlock`: `Head()` (an empty chain:
  return, nothing is told), `fromBlock.Number != 0` → `BlockByHash(fromBlock.ParentHash)` (not found:
  return, nothing is told; `byHash?` = juno's hash → number index, in which the block stored LAST under
  a hash wins: the chain is searched head first), else `to = nil`; then `plugin.RevertBlock(from, to, …)`.
  (The two `StateUpdateByNumber` reads and `GetReverseStateDiff` succeed for a stored block: C07/C04.)
* `Impl.pluginCalls` — the plugin calls of one event of the serial machine `Impl.step`:
  `storeTask` tells `plugin.NewBlock(block, …)` LAST (after `Store`, the reorg and new-head sends) and
  only on the success branch; `revertTask` calls `handlePluginRevertBlock()` in every iteration that
  reverts, BEFORE `revertHead` — so also when `RevertHead` then fails.
  The plugin's return values are only logged: they are not inputs of the machine.
* `expectedCalls` — the specification the harness' plugin oracle states: one call per commit in commit
  order, `RevertBlock`'s `to` = the block below the reverted one (nil below the genesis).
-/
namespace Juno.C06

/-- one call of `junoplugin.JunoPlugin` made by the synchroniser -/
inductive PCall where
  /-- `NewBlock(block, stateUpdate, newClasses)` -/
  | newBlock (num hash : Nat)
  /-- `RevertBlock(from, to, reverseStateDiff)`; `to = none` is the nil pointer -/
  | revertBlock (num hash : Nat) (to : Option (Nat × Nat))
deriving DecidableEq, Repr, Inhabited

/-- `BlockByHash` on the local chain (head first: the newest block under a hash wins, as in the
hash → number index that `Store` overwrites). -/
def byHash? (c : Chain) (h : Nat) : Option Blk := c.find? (fun b => b.hash == h)

/-- `handlePluginRevertBlock()` on the chain as it is when `revertTask` is about to revert. -/
def handlePluginRevertBlock (c : Chain) : List PCall :=
  match c with
  | [] => []                                   -- Head() fails: warn, return
  | fromB :: _ =>
    if fromB.num != 0 then
      match byHash? c fromB.parent with
      | none => []                             -- parent block not found: warn, return
      | some toB => [.revertBlock fromB.num fromB.hash (some (toB.num, toB.hash))]
    else [.revertBlock fromB.num fromB.hash none]

/-- The plugin calls made while the machine executes one event (`s.plugin != nil`). -/
def Impl.pluginCalls (cfg : Cfg) (s : Impl) : Ev → List PCall
  | .deliver _ b cancelled =>
    match s.task with
    | some _ => []
    | none =>
      if !b.ok then []
      else if cancelled then []
      else match succession s.node.chain b with
        | .stored => [.newBlock b.num b.hash]   -- last statement of storeTask
        | _ => []                               -- every error branch returns before it
  | .iter ans _ =>
    match s.task with
    | none => []
    | some lpv =>
      match s.node.chain with
      | [] => []
      | hd :: _ =>
        match revertIter cfg lpv hd ans with
        | .brk => []
        | .revert _ => handlePluginRevertBlock s.node.chain   -- before revertHead, whatever it returns
  | .reorgDetected .. => []
  | .restart => []

/-- the plugin calls of a run -/
def Impl.runCalls (cfg : Cfg) (s : Impl) : List Ev → List PCall
  | [] => []
  | e :: es => s.pluginCalls cfg e ++ Impl.runCalls cfg (s.step cfg e).1 es

/-- `(number, hash)` of every block of a chain, head first -/
def stackOf (c : Chain) : List (Nat × Nat) := c.map (fun b => (b.num, b.hash))

/-- The specification: one call per commit, in commit order; `to` = the block below the reverted
one. A FAILED `RevertHead` is a call too (the plugin was told before). -/
def expectedCalls : List (Nat × Nat) → List Obs → List PCall
  | _, [] => []
  | st, .stored n h :: os => .newBlock n h :: expectedCalls ((n, h) :: st) os
  | st, .reverted n h :: os => .revertBlock n h st.tail.head? :: expectedCalls st.tail os
  | st, .revertFailed n h :: os => .revertBlock n h st.tail.head? :: expectedCalls st os
  | st, _ :: os => expectedCalls st os

/-- the `(number, hash)` stack after these observations -/
def stackAfter : List (Nat × Nat) → List Obs → List (Nat × Nat)
  | st, [] => st
  | st, .stored n h :: os => stackAfter ((n, h) :: st) os
  | st, .reverted _ _ :: os => stackAfter st.tail os
  | st, _ :: os => stackAfter st os

end Juno.C06
