import JunoModel.C06.ProofsFeed
import JunoModel.C06.ProofsLive
/-!
C06 — lemmas used by Props.lean that are not obligations themselves: statements for every code
variant `cfg` (the obligations in Props.lean are about `Cfg.asFound`), facts that restate the
model (documentation), the environment conditions.
-/
namespace Juno.C06
open Juno.C06

theorem step_reorgDetected (cfg : Cfg) (s : Impl) (next : Nat) (latest : Option Hdr)
    (confirm : Option Blk) :
    (s.step cfg (.reorgDetected next latest confirm)).2 = [] ∧
      (s.step cfg (.reorgDetected next latest confirm)).1.node = s.node := by
  cases ht : s.task with
  | some _ => simp [Impl.step, ht]
  | none =>
    cases latest with
    | none =>
      have hir := isReverting_none_latest cfg s.node.chain next confirm
      simp [Impl.step, ht, hir]
    | some l =>
      cases hir : isReverting cfg s.node.chain next (some l) confirm <;>
        cases confirm <;> cases hcl : cfg.confirmLatest <;> simp_all [Impl.step]


/-- WHERE the number is checked. `fetcherTask` hands on whatever block the source returned for a
height — it never compares `block.Number` with the height it asked for (in the model: the `req`
of `deliver` influences nothing but the ghost evidence). -/
theorem request_height_is_irrelevant (cfg : Cfg) (s : Impl) (r r' : Nat) (b : Blk) (c : Bool) :
    (s.step cfg (.deliver r b c)).1.node = (s.step cfg (.deliver r' b c)).1.node ∧
    (s.step cfg (.deliver r b c)).1.task = (s.step cfg (.deliver r' b c)).1.task ∧
    (s.step cfg (.deliver r b c)).2 = (s.step cfg (.deliver r' b c)).2 := by
  cases ht : s.task with
  | some _ => simp [Impl.step, ht]
  | none =>
    by_cases hok : b.ok = true
    case neg => simp [Impl.step, ht, hok]
    case pos =>
    cases c with
    | true => simp [Impl.step, ht, hok]
    | false =>
      cases hsucc : succession s.node.chain b <;> simp [Impl.step, ht, hok, hsucc, onStored]

/-- Conditions on the environment of a run that do not depend on the state: block numbers are
uint64 values and `RevertHead` succeeds. -/
def EnvOK : List Ev → Prop
  | [] => True
  | .deliver _ b _ :: es => b.num < U64 ∧ EnvOK es
  | .iter _ revOk :: es => revOk = true ∧ EnvOK es
  | _ :: es => EnvOK es

theorem EnvOK.runOK {cfg : Cfg} (hn : cfg.numCheck = true) :
    ∀ (es : List Ev) (s : Impl), EnvOK es → s.runOK cfg es
  | [], _, _ => trivial
  | .deliver _ _ _ :: es, s, h => ⟨h.1, EnvOK.runOK hn es _ h.2⟩
  | .reorgDetected _ _ _ :: es, s, h => ⟨trivial, EnvOK.runOK hn es _ h⟩
  | .iter _ _ :: es, s, h =>
    ⟨⟨h.1, fun hf => by rw [hn] at hf; cases hf⟩, EnvOK.runOK hn es _ h.2⟩
  | .restart :: es, s, h => ⟨trivial, EnvOK.runOK hn es _ h⟩


/-- every run of every code variant is accepted by the relation its mode allows (`ModeOK`) -/
theorem run_accepted_general (cfg : Cfg) (m : Mode) (hm : ModeOK cfg m)
    (c : Chain) (es : List Ev) (hl : Linked c)
    (hb : ∀ x ∈ c, x.num < U64) (hok : (Impl.init c).runOK cfg es) :
    ∃ sp, Spec.run m (Spec.init c) ((Impl.init c).trace cfg es) = .ok sp ∧
      sp.chain = (Impl.run cfg (Impl.init c) es).1.node.chain ∧ sp.owed = [] ∧
      Linked sp.chain ∧ ∀ x ∈ sp.chain, x.num < U64 := by
  obtain ⟨sp, hr, hs⟩ := Sim.run cfg hm es (Sim.init hl hb) hok
  exact ⟨sp, hr, hs.chain, hs.owed, hs.chain ▸ hs.linked, hs.chain ▸ hs.bound⟩

/-- why the acceptor rejected a trace (`none` = accepted) -/
def rejectOf : Except Reject Spec → Option Reject
  | .ok _ => none
  | .error r => some r

end Juno.C06
