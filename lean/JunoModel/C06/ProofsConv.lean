import JunoModel.C06.ProofsNotif
/-!
C06 — helper lemmas, part 4: the canonical sequential schedule against a stable honest source
converges (terminating measure).
-/
namespace Juno.C06

/-- the chain `revertTask` leaves behind -/
def revChain (cfg : Cfg) (src : Chain) (lpv : Nat) : Chain → Chain
  | [] => []
  | hd :: tl =>
    match revertIter cfg lpv hd (byNumber? src hd.num) with
    | .brk => hd :: tl
    | .revert cont => if cont then revChain cfg src lpv tl else tl

theorem revertTask_chain (cfg : Cfg) (src : Chain) (lpv : Nat) :
    ∀ (c : Chain) (r : Option Range), (revertTask cfg src lpv c r).1.chain = revChain cfg src lpv c
  | [], r => rfl
  | hd :: tl, r => by
    unfold revertTask revChain
    cases h : revertIter cfg lpv hd (byNumber? src hd.num) with
    | brk => rfl
    | revert cont =>
      cases cont with
      | false => simp [revertHead]
      | true =>
        simp only [revertHead, if_true, List.tail_cons]
        exact revertTask_chain cfg src lpv tl _

/-- `revertIter` consulted the source and decided to revert: the answer differs from the head. -/
theorem revertIter_checked {cfg : Cfg} {lpv : Nat} {hd : Blk} {ans : Option Blk} {cont : Bool}
    (hle : hd.num ≤ lpv) (h : revertIter cfg lpv hd ans = .revert cont) :
    ∃ rb, ans = some rb ∧ rb.hash ≠ hd.hash := by
  unfold revertIter at h
  simp only [hle, if_true] at h
  cases ans with
  | none => simp at h
  | some rb =>
    refine ⟨rb, rfl, ?_⟩
    intro e
    simp only [] at h
    split at h
    · cases h
    · simp [e] at h

theorem revertIter_unchecked {cfg : Cfg} {lpv : Nat} {hd : Blk} {ans : Option Blk}
    (hlt : lpv < hd.num) : revertIter cfg lpv hd ans = .revert true := by
  unfold revertIter
  have : ¬ hd.num ≤ lpv := by omega
  simp [this]

theorem revertIter_differs {cfg : Cfg} {lpv : Nat} {hd rb : Blk} (hle : hd.num ≤ lpv)
    (hn : rb.num = hd.num) (hne : rb.hash ≠ hd.hash) (hok : rb.ok = true) :
    ∃ cont, revertIter cfg lpv hd (some rb) = .revert cont := by
  unfold revertIter
  simp [hle, hn, hne, hok]

/-- `revertTask` only removes blocks the source does not have, provided the blocks above `lpv`
(removed without asking) are not the source's. -/
theorem revChain_safe (cfg : Cfg) {src : Chain} (hls : Linked src) (lpv : Nat) :
    ∀ (c : Chain), Linked c →
      (∀ hd tl, (hd :: tl) <:+ c → lpv < hd.num → hd ∉ src) →
      revChain cfg src lpv c <:+ c ∧
        ∀ d, d <:+ c → d <:+ src → d <:+ revChain cfg src lpv c
  | [], _, _ => ⟨List.suffix_refl _, fun d hd _ => hd⟩
  | hd :: tl, hl, hunc => by
    unfold revChain
    cases h : revertIter cfg lpv hd (byNumber? src hd.num) with
    | brk => exact ⟨List.suffix_refl _, fun d hd _ => hd⟩
    | revert cont =>
      -- the head is not a block of the source
      have hnot : hd ∉ src := by
        by_cases hle : hd.num ≤ lpv
        · obtain ⟨rb, hans, hne⟩ := revertIter_checked hle h
          intro hm
          rw [hls.byNumber_mem hm] at hans
          exact hne (by cases hans; rfl)
        · exact hunc hd tl (List.suffix_refl _) (by omega)
      have hd_tl : ∀ d, d <:+ hd :: tl → d <:+ src → d <:+ tl := by
        intro d hd1 hd2
        rcases List.suffix_cons_iff.mp hd1 with rfl | h'
        · exact absurd (hd2.subset (List.mem_cons_self ..)) hnot
        · exact h'
      cases cont with
      | false =>
        simp only [Bool.false_eq_true, if_false]
        exact ⟨List.suffix_cons _ _, hd_tl⟩
      | true =>
        simp only [if_true]
        have ih := revChain_safe cfg hls lpv tl hl.tail
          (fun hd' tl' hs hlt => hunc hd' tl' (hs.trans (List.suffix_cons _ _)) hlt)
        exact ⟨ih.1.trans (List.suffix_cons _ _), fun d hd1 hd2 => ih.2 d (hd_tl d hd1 hd2) hd2⟩

/-- if the first iteration reverts, the task makes progress -/
theorem revChain_progress (cfg : Cfg) {src : Chain} (hls : Linked src) (lpv : Nat) {hd : Blk}
    {tl : Chain} (hl : Linked (hd :: tl))
    (hunc : ∀ hd' tl', (hd' :: tl') <:+ (hd :: tl) → lpv < hd'.num → hd' ∉ src)
    {cont : Bool} (h : revertIter cfg lpv hd (byNumber? src hd.num) = .revert cont) :
    revChain cfg src lpv (hd :: tl) <:+ tl := by
  have := revChain_safe cfg hls lpv tl hl.tail
    (fun hd' tl' hs hlt => hunc hd' tl' (hs.trans (List.suffix_cons _ _)) hlt)
  unfold revChain
  rw [h]
  cases cont with
  | false => simp
  | true => simpa using this.1

/-- The stable, honest source: a well-formed chain of verified blocks. `u` is the universe of
blocks on which the hash is assumed collision free. -/
structure Setting (u : List Blk) (src : Chain) : Prop where
  inj : HashInj u
  linked : Linked src
  nonempty : src ≠ []
  ok : ∀ b ∈ src, b.ok = true
  /-- honest: every block claims the root its history of diffs produces -/
  roots : RootsOK src
  sub : ∀ b ∈ src, b ∈ u
  bound : src.length < U64

/-- What is assumed of the node's chain (and kept by every round). -/
structure Good (cfg : Cfg) (u : List Blk) (src c : Chain) : Prop where
  linked : Linked c
  sub : ∀ b ∈ c, b ∈ u
  bound : c.length < U64
  /-- the source's chain is not a proper prefix of the node's chain (a pure truncation cannot be
  told from a stale head and is never followed) -/
  notTrunc : src <:+ c → src = c
  /-- the `remoteHeight - 1` underflow: without the guard a source holding only block 0 is
  followed only by a node holding at most one block -/
  noUnderflow : cfg.zeroGuard = true ∨ src.length ≠ 1 ∨ c.length ≤ 1

theorem suffix_next {c src : Chain} (hs : c <:+ src) (hne : c ≠ src) : ∃ b, (b :: c) <:+ src := by
  obtain ⟨pre, hpre⟩ := hs
  have hp : pre ≠ [] := by
    intro e; subst e; exact hne (by simpa using hpre)
  refine ⟨pre.getLast hp, pre.dropLast, ?_⟩
  rw [← hpre]
  have := List.dropLast_concat_getLast hp
  conv => rhs; rw [← this]
  simp

theorem linked_cons_facts {b : Blk} {c : Chain} (h : Linked (b :: c)) :
    b.num = nextHeight c ∧ b.parent = expParent c := by
  cases c with
  | nil => exact h
  | cons H T => exact ⟨h.1, h.2.1⟩

theorem succession_of_linked {b : Blk} {c : Chain} (h : Linked (b :: c)) (hr : RootsOK (b :: c)) :
    succession c b = .stored := by
  obtain ⟨h1, h2⟩ := linked_cons_facts h
  rw [succession_def]
  simp [h1, h2, hr.1]

/-- Phase B: the node's chain is a proper prefix of the source's: the round stores the next block. -/
theorem round_extend {cfg : Cfg} {u : List Blk} {src : Chain} (S : Setting u src) {n : Node}
    (hs : n.chain <:+ src) (hne : n.chain ≠ src) :
    ∃ b, (b :: n.chain) <:+ src ∧ (round cfg src n).1.chain = b :: n.chain := by
  obtain ⟨b, hb⟩ := suffix_next hs hne
  have hlb : Linked (b :: n.chain) := S.linked.suffix hb
  have hbm : b ∈ src := hb.subset (List.mem_cons_self ..)
  have hnum : b.num = nextHeight n.chain := (linked_cons_facts hlb).1
  have hlook : byNumber? src (nextHeight n.chain) = some b := by
    rw [← hnum]; exact S.linked.byNumber_mem hbm
  refine ⟨b, hb, ?_⟩
  unfold round
  simp only [hlook, S.ok b hbm, succession_of_linked hlb (S.roots.suffix hb), onStored]
  simp

/-- Phase C: the chains are equal: nothing happens. -/
theorem round_fixpoint {cfg : Cfg} {u : List Blk} {src : Chain} (S : Setting u src) (n : Node)
    (he : n.chain = src) : round cfg src n = (n, []) := by
  have hl : Linked n.chain := he ▸ S.linked
  cases hsrc : src with
  | nil => exact absurd hsrc S.nonempty
  | cons H T =>
    have hch : n.chain = H :: T := by rw [he, hsrc]
    have hnone : byNumber? (H :: T) (nextHeight (H :: T)) = none :=
      (hsrc ▸ S.linked).byNumber_none (by rw [(hsrc ▸ S.linked : Linked (H :: T)).nextHeight]; exact Nat.le_refl _)
    unfold round
    simp only [hch, hnone]
    have : isReverting cfg (H :: T) (nextHeight (H :: T)) (srcLatest (H :: T)) (srcConfirm (H :: T)) = none := by
      unfold isReverting srcLatest
      simp [nextHeight, Linked.byNumber_head]
    simp [this]

theorem byNumber_none_len {c : Chain} (h : Linked c) {n : Nat} (hn : byNumber? c n = none) :
    c.length ≤ n := by
  by_cases hlt : n < c.length
  · obtain ⟨x, hx, _, _⟩ := h.byNumber_some hlt
    rw [hn] at hx; cases hx
  · omega

/-- Phase A: the node's chain is not a prefix of the source's: the round removes at least the
head and nothing of what the two chains share. -/
theorem round_revert {cfg : Cfg} {u : List Blk} {src : Chain} (S : Setting u src) {n : Node}
    (G : Good cfg u src n.chain) (hns : ¬ n.chain <:+ src) :
    ∃ H T, n.chain = H :: T ∧ (round cfg src n).1.chain <:+ T ∧
      ∀ d, d <:+ n.chain → d <:+ src → d <:+ (round cfg src n).1.chain := by
  cases hch : n.chain with
  | nil => exact absurd (hch ▸ List.nil_suffix) hns
  | cons H T =>
    have hl : Linked (H :: T) := hch ▸ G.linked
    have hHnum : H.num = T.length := Linked.head_num hl
    have hsubc : ∀ x ∈ H :: T, x ∈ u := fun x hx => G.sub x (hch ▸ hx)
    have hHnot : H ∉ src := by
      intro hm
      apply hns; rw [hch]
      exact Linked.suffix_of_head_mem S.inj hl S.linked
        (fun x hx => hsubc x (List.mem_cons_of_mem _ hx)) S.sub hm
    have hbound : T.length + 1 < U64 := by have := G.bound; rw [hch] at this; simpa using this
    have hnumlt : ∀ x ∈ H :: T, x.num < U64 := by
      intro x hx; have := hl.num_lt x hx; simp at this; omega
    refine ⟨H, T, rfl, ?_⟩
    suffices key : ∃ lpv, (round cfg src n).1.chain = revChain cfg src lpv (H :: T) ∧
        (∀ hd tl, (hd :: tl) <:+ (H :: T) → lpv < hd.num → hd ∉ src) ∧
        ∃ cont, revertIter cfg lpv H (byNumber? src H.num) = .revert cont by
      obtain ⟨lpv, hr, hunc, cont, hit⟩ := key
      rw [hr]
      exact ⟨revChain_progress cfg S.linked lpv hl hunc hit,
        (revChain_safe cfg S.linked lpv _ hl hunc).2⟩
    -- a suffix whose head is numbered at least like H is the whole chain
    have hwhole : ∀ hd tl, (hd :: tl) <:+ (H :: T) → H.num ≤ hd.num → hd = H := by
      intro hd tl hs hle
      exact (suffix_eq_of_num hl rfl hs hle).1
    -- the source has a block 0
    obtain ⟨g, hg, hgm, hgn⟩ := S.linked.byNumber_some
      (Nat.pos_of_ne_zero (by intro e; exact S.nonempty (List.length_eq_zero_iff.mp e)))
    cases hfetch : byNumber? src (nextHeight (H :: T)) with
    | some b =>
      obtain ⟨hbm, hbn⟩ := byNumber_mem_of_some hfetch
      have hbn' : b.num = H.num + 1 := by simpa [nextHeight] using hbn
      have hpm : succession (H :: T) b = .parentMismatch := by
        rw [succession_def]
        have h1 : nextHeight (H :: T) = b.num := hbn.symm
        have h2 : b.parent ≠ expParent (H :: T) := by
          intro e
          have hlt := S.linked.num_lt b hbm
          obtain ⟨x, _, hxm, hxn⟩ := S.linked.byNumber_some (n := H.num) (by omega)
          have hp := S.linked.parent_of_succ hxm hbm (by omega)
          have : x = H := S.inj x (S.sub x hxm) H (hsubc H (List.mem_cons_self ..))
            (by rw [← hp, e]; rfl)
          exact hHnot (this ▸ hxm)
        simp [h1, h2]
      refine ⟨mismatchLpv cfg b, ?_, ?_, ?_⟩
      · unfold round
        simp only [hch, hfetch, S.ok b hbm, hpm]
        simpa using revertTask_chain cfg src (mismatchLpv cfg b) (H :: T) n.reorg
      · intro hd tl hs hlt
        cases hcf : cfg.confirmHead with
        | true =>
          have : mismatchLpv cfg b = b.num - 1 := by
            unfold mismatchLpv; simp only [hcf, if_true]; exact sub64_of_le (by omega) (by omega)
          rw [this] at hlt
          have := hl.num_lt hd (hs.subset (List.mem_cons_self ..))
          simp at this; omega
        | false =>
          have hm : mismatchLpv cfg b = sub64 b.num 2 := by unfold mismatchLpv; simp [hcf]
          rw [hm] at hlt
          by_cases h2 : 2 ≤ b.num
          · rw [sub64_of_le h2 (by omega)] at hlt
            rw [hwhole hd tl hs (by omega)]; exact hHnot
          · have : b.num = 1 := by omega
            rw [this] at hlt
            have := hnumlt hd (hs.subset (List.mem_cons_self ..))
            have e : sub64 1 2 = U64 - 1 := by decide
            rw [e] at hlt; unfold U64 at *; omega
      · -- the source's block numbered like the head differs from the head
        have hlt := S.linked.num_lt b hbm
        obtain ⟨x, hx, hxm, hxn⟩ := S.linked.byNumber_some (n := H.num) (by omega)
        have hxne : x.hash ≠ H.hash := by
          intro eh
          have : x = H := S.inj x (S.sub x hxm) H (hsubc H (List.mem_cons_self ..)) eh
          exact hHnot (this ▸ hxm)
        cases hcf : cfg.confirmHead with
        | true =>
          have : mismatchLpv cfg b = b.num - 1 := by
            unfold mismatchLpv; simp only [hcf, if_true]; exact sub64_of_le (by omega) (by omega)
          rw [this, hx]
          exact revertIter_differs (by omega) hxn hxne (S.ok x hxm)
        | false =>
          have hm : mismatchLpv cfg b = sub64 b.num 2 := by unfold mismatchLpv; simp [hcf]
          rw [hm]
          by_cases h2 : 2 ≤ b.num
          · exact ⟨true, revertIter_unchecked (by rw [sub64_of_le h2 (by omega)]; omega)⟩
          · have e : sub64 b.num 2 = U64 - 1 := by
              have : b.num = 1 := by omega
              rw [this]; decide
            rw [e, hx]
            exact revertIter_differs (by unfold U64; omega) hxn hxne (S.ok x hxm)
    | none =>
      have hlen := byNumber_none_len S.linked hfetch
      cases hsrc : src with
      | nil => exact absurd hsrc S.nonempty
      | cons Sh St =>
        have hls : Linked (Sh :: St) := hsrc ▸ S.linked
        have hShm : Sh ∈ src := by rw [hsrc]; exact List.mem_cons_self ..
        have hr : Sh.num = St.length := Linked.head_num hls
        have hrle : Sh.num ≤ H.num := by
          rw [hsrc] at hlen; simp [nextHeight] at hlen; omega
        obtain ⟨lh, hlh, hlhm, hlhn⟩ := hl.byNumber_some (n := Sh.num) (by simp; omega)
        have hne : Sh.hash ≠ lh.hash := by
          intro e
          have : Sh = lh := S.inj Sh (S.sub Sh hShm) lh (hsubc lh hlhm) e
          have hsuf : src <:+ n.chain := by
            rw [hsrc, hch]
            exact Linked.suffix_of_head_mem S.inj hls hl
              (fun x hx => S.sub x (by rw [hsrc]; exact List.mem_cons_of_mem _ hx)) hsubc
              (this ▸ hlhm)
          have := G.notTrunc hsuf
          exact hns (this ▸ List.suffix_refl _)
        -- blocks of the node numbered at least Sh.num are not the source's
        have hhigh : ∀ x ∈ H :: T, Sh.num ≤ x.num → x ∉ src := by
          intro x hx hle hxs
          have hlt := S.linked.num_lt x hxs
          rw [hsrc] at hlt; simp at hlt
          have e1 : x = Sh := S.linked.eq_of_num hxs hShm (by omega)
          have e2 : x = lh := hl.eq_of_num hx hlhm (by omega)
          exact hne (by rw [← e1, ← e2])
        have hcmp : (if Sh.num < H.num then Sh.num else H.num) = Sh.num := by split <;> omega
        have hir : isReverting cfg (H :: T) (nextHeight (H :: T)) (srcLatest (Sh :: St))
              (srcConfirm (Sh :: St)) =
            some (if cfg.zeroGuard && Sh.num == 0 then 0 else sub64 Sh.num 1) := by
          unfold isReverting srcLatest srcConfirm
          have h1 : ¬ Sh.num > H.num := by omega
          simp only [List.head?_cons, Option.map_some, nextHeight, bne_self_eq_false,
            Bool.false_eq_true, if_false, h1, hcmp, hlh]
          have : (Sh.hash == lh.hash) = false := by simpa using hne
          have hc : confirmed (some Sh) ⟨Sh.num, Sh.hash⟩ = true := by
            simp [confirmed, S.ok Sh hShm]
          simp only [this, Bool.false_eq_true, if_false, hc, Bool.not_true, Bool.and_false]
          split <;> rfl
        refine ⟨(if cfg.zeroGuard && Sh.num == 0 then 0 else sub64 Sh.num 1), ?_, ?_, ?_⟩
        · unfold round
          simp only [hch, hfetch, ← hsrc]
          rw [hsrc, hir]
          simpa using revertTask_chain cfg (Sh :: St) _ (H :: T) n.reorg
        · intro hd tl hs hlt
          rw [← hsrc]
          apply hhigh hd (hs.subset (List.mem_cons_self ..))
          by_cases h0 : Sh.num = 0
          · omega
          · have : (cfg.zeroGuard && Sh.num == 0) = false := by simp [h0]
            rw [this] at hlt
            simp only [Bool.false_eq_true, if_false] at hlt
            rw [sub64_of_le (by omega) (by omega)] at hlt; omega
        · rw [← hsrc]
          by_cases h0 : Sh.num = 0
          · -- the source holds only block 0
            have hSt : St = [] := List.length_eq_zero_iff.mp (by omega)
            have hg' : g = Sh := by
              apply S.linked.eq_of_num hgm hShm; omega
            by_cases hz : cfg.zeroGuard = true
            · have : (cfg.zeroGuard && Sh.num == 0) = true := by simp [hz, h0]
              rw [this]; simp only [if_true]
              by_cases hH0 : H.num = 0
              · rw [hH0, hg]
                refine revertIter_differs (by omega) (by omega) ?_ (S.ok g hgm)
                intro eh
                have : g = H := S.inj g (S.sub g hgm) H (hsubc H (List.mem_cons_self ..)) eh
                exact hHnot (this ▸ hgm)
              · exact ⟨true, revertIter_unchecked (by omega)⟩
            · have : (cfg.zeroGuard && Sh.num == 0) = false := by simp [hz]
              rw [this]; simp only [Bool.false_eq_true, if_false]
              have e : sub64 Sh.num 1 = U64 - 1 := by rw [h0]; decide
              rw [e]
              -- without the guard only a node with at most one block gets here
              have hc1 : (H :: T).length ≤ 1 := by
                rcases G.noUnderflow with hz' | hs1 | hc1
                · exact absurd hz' hz
                · rw [hsrc, hSt] at hs1; simp at hs1
                · rw [hch] at hc1; exact hc1
              have hc1' : T.length + 1 ≤ 1 := hc1
              have hH0 : H.num = 0 := by omega
              rw [hH0, hg]
              refine revertIter_differs (by unfold U64; omega) (by omega) ?_ (S.ok g hgm)
              intro eh
              have : g = H := S.inj g (S.sub g hgm) H (hsubc H (List.mem_cons_self ..)) eh
              exact hHnot (this ▸ hgm)
          · have : (cfg.zeroGuard && Sh.num == 0) = false := by simp [h0]
            rw [this]; simp only [Bool.false_eq_true, if_false]
            exact ⟨true, revertIter_unchecked (by rw [sub64_of_le (by omega) (by omega)]; omega)⟩

open Classical in
/-- Terminating measure: blocks still to fetch if the node is on the source's chain, otherwise
also everything that may have to be reverted first. -/
noncomputable def measure (src c : Chain) : Nat :=
  if c <:+ src then src.length - c.length else src.length + c.length + 1

theorem suffix_antisymm {a b : Chain} (h1 : a <:+ b) (h2 : b <:+ a) : a = b :=
  h1.eq_of_length (Nat.le_antisymm h1.length_le h2.length_le)

theorem measure_zero {src c : Chain} (h : measure src c = 0) : c = src := by
  unfold measure at h
  split at h
  · rename_i hs
    exact hs.eq_of_length (by have := hs.length_le; omega)
  · omega

/-- One round keeps the assumptions and, unless the chains are already equal, decreases the measure. -/
theorem round_measure {cfg : Cfg} {u : List Blk} {src : Chain} (S : Setting u src) {n : Node}
    (G : Good cfg u src n.chain) :
    Good cfg u src (round cfg src n).1.chain ∧
      (n.chain ≠ src → measure src (round cfg src n).1.chain < measure src n.chain) := by
  by_cases hs : n.chain <:+ src
  · by_cases he : n.chain = src
    · rw [round_fixpoint S n he]; exact ⟨G, fun h => absurd he h⟩
    · obtain ⟨b, hb, hr⟩ := round_extend (cfg := cfg) S hs he
      rw [hr]
      have hlen := hb.length_le
      refine ⟨⟨S.linked.suffix hb, fun x hx => S.sub x (hb.subset hx), by have := S.bound; omega,
        fun h => suffix_antisymm h hb, ?_⟩, fun _ => ?_⟩
      · by_cases h1 : src.length = 1
        · right; right; omega
        · right; left; exact h1
      · unfold measure
        simp only [hs, hb, if_true]
        simp at hlen ⊢; omega
  · obtain ⟨H, T, hch, hsuf, hkeep⟩ := round_revert S G hs
    have hsuf' : (round cfg src n).1.chain <:+ n.chain := by
      rw [hch]; exact hsuf.trans (List.suffix_cons _ _)
    have hlen := hsuf.length_le
    refine ⟨⟨G.linked.suffix hsuf', fun x hx => G.sub x (hsuf'.subset hx),
      by have := G.bound; have := hsuf'.length_le; omega, ?_, ?_⟩, fun _ => ?_⟩
    · intro h
      have := G.notTrunc (h.trans hsuf')
      exact absurd (this ▸ List.suffix_refl _) hs
    · rcases G.noUnderflow with h | h | h
      · exact Or.inl h
      · exact Or.inr (Or.inl h)
      · right; right; have := hsuf'.length_le; omega
    · unfold measure
      simp only [hs, if_false]
      have hl2 : n.chain.length = T.length + 1 := by rw [hch]; rfl
      split <;> omega

theorem runRounds_chain {cfg : Cfg} {u : List Blk} {src : Chain} (S : Setting u src) :
    ∀ (k : Nat) (n : Node), Good cfg u src n.chain → measure src n.chain ≤ k →
      (runRounds cfg src k n).1.chain = src
  | 0, n, _, hm => measure_zero (Nat.le_zero.mp hm)
  | k + 1, n, G, hm => by
    have hstep : (runRounds cfg src (k + 1) n).1 = (runRounds cfg src k (round cfg src n).1).1 := rfl
    rw [hstep]
    obtain ⟨G', hdec⟩ := round_measure (cfg := cfg) S G
    apply runRounds_chain S k _ G'
    by_cases he : n.chain = src
    · rw [round_fixpoint S n he, he]
      have : measure src src = 0 := by unfold measure; simp
      omega
    · have := hdec he; omega

theorem measure_le (src c : Chain) : measure src c ≤ src.length + c.length + 1 := by
  unfold measure; split <;> omega

end Juno.C06
