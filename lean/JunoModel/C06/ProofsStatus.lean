import JunoModel.C06.ModelStatus
/-!
C06 — lemmas about `ModelStatus.lean` (the status bookkeeping of `storeTask`, the mode switch, the
reader accessors).
-/
namespace Juno.C06

theorem maxWorkers_le (procs : Nat) : maxWorkers procs ≤ 16 := by
  unfold maxWorkers; omega

theorem numWorkers_bounds (procs : Nat) (st : Status) (hp : 1 ≤ procs) :
    1 ≤ numWorkers procs st ∧ numWorkers procs st ≤ 16 ∧ (st.catchUp = false → numWorkers procs st = 1) := by
  unfold numWorkers maxWorkers
  cases st.catchUp <;> simp <;> omega

theorem withStart_highest (st : Status) (b : Blk) : (st.withStart b).highest = st.highest := by
  unfold Status.withStart; split <;> rfl

theorem withStart_catchUp (st : Status) (b : Blk) : (st.withStart b).catchUp = st.catchUp := by
  unfold Status.withStart; split <;> rfl

theorem withStart_startNum (st : Status) (b : Blk) : (st.withStart b).startNum = st.startNum := by
  unfold Status.withStart; split <;> rfl

theorem onStored_none (procs : Nat) (st : Status) (b : Blk) (cas : Bool) (h : st.highest = none) :
    st.onStored procs b cas =
      ({ st.withStart b with highest := if cas then some ⟨b.num, b.hash⟩ else none }, false) := by
  unfold Status.onStored
  rw [withStart_highest, h]
  rfl

theorem onStored_some (procs : Nat) (st : Status) (b : Blk) (cas : Bool) (hd : Hdr) (h : st.highest = some hd) :
    st.onStored procs b cas =
      ({ st.withStart b with
          catchUp := decide (hd.num > add64 b.num (maxWorkers procs)),
          highest := if decide (hd.num < b.num) && cas then some ⟨b.num, b.hash⟩ else some hd },
        st.catchUp != decide (hd.num > add64 b.num (maxWorkers procs))) := by
  unfold Status.onStored
  rw [withStart_highest, h]
  simp only [Status.afterLoad, withStart_catchUp]

/-- after storeTask's update (the compare-and-swap not disturbed by pollLatest) the highest known
header is at or above the block just stored -/
theorem highest_covers_stored (procs : Nat) (st : Status) (b : Blk) :
    ∃ h, (st.onStored procs b true).1.highest = some h ∧ b.num ≤ h.num := by
  cases hh : st.highest with
  | none => rw [onStored_none procs st b true hh]; exact ⟨⟨b.num, b.hash⟩, by simp, Nat.le_refl _⟩
  | some hd =>
    rw [onStored_some procs st b true hd hh]
    by_cases hlt : hd.num < b.num
    · exact ⟨⟨b.num, b.hash⟩, by simp [hlt], Nat.le_refl _⟩
    · exact ⟨hd, by simp [hlt], by omega⟩

/-- the mode after a store IS `isBehind`, and the streams are reset exactly when the mode changes -/
theorem mode_is_isBehind (procs : Nat) (st : Status) (b : Blk) (cas : Bool) (hd : Hdr)
    (h : st.highest = some hd) (hnw : b.num + maxWorkers procs < U64) :
    ((st.onStored procs b cas).1.catchUp = true ↔ hd.num > b.num + maxWorkers procs) ∧
    ((st.onStored procs b cas).2 = true ↔ (st.catchUp = true ↔ ¬ hd.num > b.num + maxWorkers procs)) := by
  rw [onStored_some procs st b cas hd h]
  have e : add64 b.num (maxWorkers procs) = b.num + maxWorkers procs := by
    unfold add64; exact Nat.mod_eq_of_lt hnw
  rw [e]
  constructor
  · simp
  · cases st.catchUp <;> by_cases hb : hd.num > b.num + maxWorkers procs <;> simp [hb]

/-- with no known head of the source the mode is left alone and nothing is reset -/
theorem mode_kept_without_head (procs : Nat) (st : Status) (b : Blk) (cas : Bool) (h : st.highest = none) :
    (st.onStored procs b cas).1.catchUp = st.catchUp ∧ (st.onStored procs b cas).2 = false := by
  rw [onStored_none procs st b cas h]
  exact ⟨withStart_catchUp st b, rfl⟩

/-- the starting header, once `StartingBlockHeader()` answers from the database, is the stored block
numbered `startingBlockNumber` -/
theorem starting_header_from_db (st : Status) (c : Chain) (h : Hdr) (st' : Status)
    (hn : st.startHdr = none) (ha : st.startingHeader c = (.hdr h, st')) :
    ∃ b ∈ c, st.startNum = some b.num ∧ h = ⟨b.num, b.hash⟩ ∧ st'.startHdr = some h := by
  unfold Status.startingHeader at ha
  rw [hn] at ha
  cases hs : st.startNum with
  | none => simp [hs] at ha
  | some n =>
    simp only [hs] at ha
    cases hb : byNumber? c n with
    | none => simp [hb] at ha
    | some b =>
      simp only [hb] at ha
      have hmem : b ∈ c := List.mem_of_find?_eq_some hb
      have hnum : b.num = n := by
        have := List.find?_some hb
        simpa using this
      injection ha with h1 h2
      injection h1 with h1
      subst h1 h2
      exact ⟨b, hmem, by rw [hnum], rfl, rfl⟩

/-- storeTask sets the starting header exactly when it stores the block numbered `startingBlockNumber` -/
theorem starting_header_set_by_store (procs : Nat) (st : Status) (b : Blk) (cas : Bool)
    (h : st.startNum = some b.num) :
    (st.onStored procs b cas).1.startHdr = some ⟨b.num, b.hash⟩ := by
  have hw : (st.withStart b).startHdr = some ⟨b.num, b.hash⟩ := by
    unfold Status.withStart; simp [h]
  cases hh : st.highest with
  | none => rw [onStored_none procs st b cas hh]; exact hw
  | some hd => rw [onStored_some procs st b cas hd hh]; exact hw

end Juno.C06
