import JunoModel.C06.ProofsSafety
/-!
C06 — helper lemmas, part 3: notifications are exact; evidence is sound for an honest source.
-/
namespace Juno.C06

/-! ### notifications -/

def Obs.isNotif : Obs → Bool
  | .newHead .. => true
  | .reorg .. => true
  | _ => false

/-- the feed sends of a trace, in order -/
def notifsOf : List SEv → List Obs
  | [] => []
  | .obs o :: tr => if o.isNotif then o :: notifsOf tr else notifsOf tr
  | _ :: tr => notifsOf tr

/-- The range a reorg notification must carry, from the `(number, hash)` pairs of the blocks
reverted since the last store (most recent first): it starts at the LAST block reverted (the lowest)
and ends at the FIRST one (the old head). -/
def rangeNH : List (Nat × Nat) → Option Range
  | [] => none
  | last :: rest =>
    let first := (rest.getLast?).getD last
    some ⟨last.1, last.2, first.1, first.2⟩

/-- The notifications the property demands for a sequence of commits: for every stored block,
first (iff blocks were reverted since the previous store) one reorg notification delimiting exactly
the reverted blocks, then one new-head notification for the block. `p` = blocks reverted so far
since the last store; a restart of the synchroniser forgets them (a new instance starts with
`currReorg = nil`). -/
def expectedNotifs : List (Nat × Nat) → List SEv → List Obs
  | _, [] => []
  | p, .obs (.stored n h) :: tr => reorgObs (rangeNH p) ++ [Obs.newHead n h] ++ expectedNotifs [] tr
  | p, .obs (.reverted n h) :: tr => expectedNotifs ((n, h) :: p) tr
  | _, .restart :: tr => expectedNotifs [] tr
  | p, _ :: tr => expectedNotifs p tr

theorem lastD_eq (l : List Blk) (d : Blk) : lastD l d = (l.getLast?).getD d := by
  induction l generalizing d with
  | nil => rfl
  | cons a l ih =>
    rw [lastD, ih]
    cases l with
    | nil => rfl
    | cons b l =>
      rw [List.getLast?_cons_cons]
      cases h : (b :: l).getLast? with
      | none => simp at h
      | some x => rfl

theorem rangeOf_eq_rangeNH (p : List Blk) :
    rangeOf p = rangeNH (p.map (fun b => (b.num, b.hash))) := by
  cases p with
  | nil => rfl
  | cons a rest =>
    simp only [rangeOf, rangeNH, List.map_cons, lastD_eq]
    cases h : rest.getLast? with
    | none => simp [List.getLast?_map, h]
    | some x => simp [List.getLast?_map, h]

/-- Accepted trace: what was owed before plus what the commits of the trace demand equals what was
sent plus what is still owed. -/
theorem Spec.notifs_balance (strict : Bool) : ∀ (tr : List SEv) (s s' : Spec), Spec.run strict s tr = .ok s' →
    s.owed ++ expectedNotifs (s.pending.map (fun b => (b.num, b.hash))) tr = notifsOf tr ++ s'.owed
  | [], s, s', h => by
    simp only [Spec.run] at h; cases h; simp [expectedNotifs, notifsOf]
  | e :: tr, s, s', h => by
    simp only [Spec.run] at h
    cases hst : Spec.step strict s e with
    | error r => rw [hst] at h; cases h
    | ok s1 =>
      rw [hst] at h
      have ih := Spec.notifs_balance strict tr s1 s' h
      cases e with
      | served r b =>
        simp only [Spec.step] at hst; cases hst
        simpa [expectedNotifs, notifsOf] using ih
      | latest l =>
        simp only [Spec.step] at hst; cases hst
        simpa [expectedNotifs, notifsOf] using ih
      | restart =>
        simp only [Spec.step] at hst
        split at hst
        · cases hst
          simpa [expectedNotifs, notifsOf] using ih
        · cases hst
      | obs o =>
        cases o with
        | stored n hh =>
          have hcopy := hst
          simp only [Spec.step] at hst
          split at hst
          · split at hst <;> cases hst
          · split at hst
            · cases hst
            · cases hst
              simp only [expectedNotifs, notifsOf, Obs.isNotif, List.map_nil] at ih ⊢
              rw [← rangeOf_eq_rangeNH]
              simpa [List.append_assoc] using ih
        | reverted n hh =>
          obtain ⟨hd, tl, _, hn, hhh, _, hs1⟩ := Spec.reverted_inv hst
          subst hs1
          simp only [expectedNotifs, notifsOf, Obs.isNotif, List.map_cons, hn, hhh] at ih ⊢
          exact ih
        | revertFailed n hh => simp [Spec.step] at hst
        | newHead n hh =>
          simp only [Spec.step] at hst
          split at hst
          · cases hst
          · rename_i e rest ho
            split at hst
            · rename_i heq
              cases hst
              have : e = Obs.newHead n hh := by simpa using heq
              subst this
              simp only [expectedNotifs, notifsOf, Obs.isNotif, ho] at ih ⊢
              simpa using ih
            · cases hst
        | reorg r =>
          simp only [Spec.step] at hst
          split at hst
          · cases hst
          · rename_i e rest ho
            split at hst
            · rename_i heq
              cases hst
              have : e = Obs.reorg r := by simpa using heq
              subst this
              simp only [expectedNotifs, notifsOf, Obs.isNotif, ho] at ih ⊢
              simpa using ih
            · cases hst

/-! ### evidence is sound when the source is honest -/

/-- Every answer in `ev` is true of the chain `src`: served blocks are blocks of `src` (served
for their own number), reported latest headers are headers of blocks of `src` (possibly stale:
not necessarily the head). -/
def Honest (ev : Evidence) (src : Chain) : Prop :=
  (∀ rb ∈ ev.blocks, rb.2 ∈ src) ∧
  (∀ l ∈ ev.latests, ∃ b ∈ src, b.num = l.num ∧ b.hash = l.hash)

theorem Linked.eq_of_num {c : Chain} (h : Linked c) {x y : Blk} (hx : x ∈ c) (hy : y ∈ c)
    (e : x.num = y.num) : x = y := by
  have h1 := h.byNumber_mem hx
  have h2 := h.byNumber_mem hy
  rw [e, h2] at h1
  exact (Option.some.inj h1).symm

theorem Linked.parent_of_succ {c : Chain} (h : Linked c) {x y : Blk} (hx : x ∈ c) (hy : y ∈ c)
    (e : y.num = x.num + 1) : y.parent = x.hash := by
  induction c with
  | nil => cases hx
  | cons b tl ih =>
    rcases List.mem_cons.mp hy with rfl | hy'
    · -- y is the head: x is the next one
      cases tl with
      | nil =>
        rcases List.mem_cons.mp hx with rfl | hx'
        · omega
        · cases hx'
      | cons b' tl' =>
        have hb' : b'.num = x.num := by have := h.1; omega
        have hxm : x ∈ b' :: tl' := by
          rcases List.mem_cons.mp hx with rfl | hx'
          · omega
          · exact hx'
        have := h.tail.eq_of_num (List.mem_cons_self ..) hxm hb'
        rw [← this]; exact h.2.1
    · rcases List.mem_cons.mp hx with rfl | hx'
      · have := h.tail.num_lt y hy'
        have := Linked.head_num h
        omega
      · exact ih h.tail hx' hy'

/-- If every answer the node has seen is true of `src` and the hash is collision free, a justified
revert removes a block that `src` does not contain. -/
theorem justified_sound {u : List Blk} (hi : HashInj u) {ev : Evidence} {src c : Chain} {hd : Blk}
    {tl : Chain} (hc : c = hd :: tl) (hlc : Linked c) (hls : Linked src)
    (hcu : ∀ x ∈ c, x ∈ u) (hsu : ∀ x ∈ src, x ∈ u)
    {strict : Bool} (hon : Honest ev src) (hj : justified strict ev c hd = true) : hd ∉ src := by
  intro hmem
  unfold justified at hj
  simp only [Bool.or_eq_true, List.any_eq_true, Bool.and_eq_true, beq_iff_eq, bne_iff_ne, ne_eq,
    decide_eq_true_eq] at hj
  rcases hj with (⟨rb, hrb, ⟨_, hnum⟩, hne⟩ | ⟨_, rb, hrb, ⟨_, hnum⟩, hne⟩) | ⟨l, hl, hle, hlook⟩
  · exact hne (congrArg Blk.hash (hls.eq_of_num (hon.1 rb hrb) hmem hnum))
  · exact hne (hls.parent_of_succ hmem (hon.1 rb hrb) hnum)
  · obtain ⟨b, hb, hbn, hbh⟩ := hon.2 l hl
    have hsuf : (hd :: tl) <:+ src := by
      subst hc
      exact Linked.suffix_of_head_mem hi hlc hls
        (fun x hx => hcu x (List.mem_cons_of_mem _ hx)) hsu hmem
    split at hlook
    · rename_i lb hlb
      obtain ⟨hlbm, hlbn⟩ := byNumber_mem_of_some hlb
      have : lb ∈ src := hsuf.subset (hc ▸ hlbm)
      have := hls.eq_of_num this hb (by omega)
      subst this
      simp [hbh] at hlook
    · cases hlook

end Juno.C06
