import JunoModel.C06.ProofsSafety
/-!
C06 — helper lemmas, part 3: notifications are exact; evidence is sound for an honest source.
-/
namespace Juno.C06

/-! ### notifications -/

def Obs.isNotif : Obs → Bool
  | .newHead .. => true
  | .reorg .. => true
  | _ => false

/-- the feed sends of a trace, in order -/
def notifsOf : List SEv → List Obs
  | [] => []
  | .obs o :: tr => if o.isNotif then o :: notifsOf tr else notifsOf tr
  | _ :: tr => notifsOf tr

/-- The range a reorg notification must carry, from the `(number, hash)` pairs of the blocks
reverted since the last store (most recent first): it starts at the LAST block reverted (the lowest)
and ends at the FIRST one (the old head). -/
def rangeNH : List (Nat × Nat) → Option Range
  | [] => none
  | last :: rest =>
    let first := (rest.getLast?).getD last
    some ⟨last.1, last.2, first.1, first.2⟩

/-- The notifications the property demands for a sequence of commits: for every stored block,
first (iff blocks were reverted since the previous store) one reorg notification delimiting exactly
the reverted blocks, then one new-head notification for the block. `p` = blocks reverted so far
since the last store; a restart of the synchroniser forgets them (a new instance starts with
`currReorg = nil`). -/
def expectedNotifs : List (Nat × Nat) → List SEv → List Obs
  | _, [] => []
  | p, .obs (.stored n h) :: tr => reorgObs (rangeNH p) ++ [Obs.newHead n h] ++ expectedNotifs [] tr
  | p, .obs (.reverted n h) :: tr => expectedNotifs ((n, h) :: p) tr
  | _, .restart :: tr => expectedNotifs [] tr
  | p, _ :: tr => expectedNotifs p tr

theorem lastD_eq (l : List Blk) (d : Blk) : lastD l d = (l.getLast?).getD d := by
  induction l generalizing d with
  | nil => rfl
  | cons a l ih =>
    rw [lastD, ih]
    cases l with
    | nil => rfl
    | cons b l =>
      rw [List.getLast?_cons_cons]
      cases h : (b :: l).getLast? with
      | none => simp at h
      | some x => rfl

theorem rangeOf_eq_rangeNH (p : List Blk) :
    rangeOf p = rangeNH (p.map (fun b => (b.num, b.hash))) := by
  cases p with
  | nil => rfl
  | cons a rest =>
    simp only [rangeOf, rangeNH, List.map_cons, lastD_eq]
    cases h : rest.getLast? with
    | none => simp [List.getLast?_map, h]
    | some x => simp [List.getLast?_map, h]

/-- Accepted trace: what was owed before plus what the commits of the trace demand equals what was
sent plus what is still owed. -/
theorem Spec.notifs_balance (m : Mode) : ∀ (tr : List SEv) (s s' : Spec), Spec.run m s tr = .ok s' →
    s.owed ++ expectedNotifs (s.pending.map (fun b => (b.num, b.hash))) tr = notifsOf tr ++ s'.owed
  | [], s, s', h => by
    simp only [Spec.run] at h; cases h; simp [expectedNotifs, notifsOf]
  | e :: tr, s, s', h => by
    simp only [Spec.run] at h
    cases hst : Spec.step m s e with
    | error r => rw [hst] at h; cases h
    | ok s1 =>
      rw [hst] at h
      have ih := Spec.notifs_balance m tr s1 s' h
      cases e with
      | served r b =>
        simp only [Spec.step] at hst; cases hst
        simpa [expectedNotifs, notifsOf] using ih
      | latest l =>
        simp only [Spec.step] at hst; cases hst
        simpa [expectedNotifs, notifsOf] using ih
      | restart =>
        simp only [Spec.step] at hst
        split at hst
        · cases hst
          simpa [expectedNotifs, notifsOf] using ih
        · cases hst
      | obs o =>
        cases o with
        | stored n hh =>
          have hcopy := hst
          simp only [Spec.step] at hst
          split at hst
          · split at hst <;> cases hst
          · split at hst
            · split at hst <;> cases hst
            · cases hst
              simp only [expectedNotifs, notifsOf, Obs.isNotif, List.map_nil] at ih ⊢
              rw [← rangeOf_eq_rangeNH]
              simpa [List.append_assoc] using ih
        | reverted n hh =>
          obtain ⟨hd, tl, _, hn, hhh, _, hs1⟩ := Spec.reverted_inv hst
          subst hs1
          simp only [expectedNotifs, notifsOf, Obs.isNotif, List.map_cons, hn, hhh] at ih ⊢
          exact ih
        | revertFailed n hh =>
          simp only [Spec.step] at hst; cases hst
          simpa [expectedNotifs, notifsOf, Obs.isNotif] using ih
        | newHead n hh =>
          simp only [Spec.step] at hst
          split at hst
          · cases hst
          · rename_i e rest ho
            split at hst
            · rename_i heq
              cases hst
              have : e = Obs.newHead n hh := by simpa using heq
              subst this
              simp only [expectedNotifs, notifsOf, Obs.isNotif, ho] at ih ⊢
              simpa using ih
            · cases hst
        | reorg r =>
          simp only [Spec.step] at hst
          split at hst
          · cases hst
          · rename_i e rest ho
            split at hst
            · rename_i heq
              cases hst
              have : e = Obs.reorg r := by simpa using heq
              subst this
              simp only [expectedNotifs, notifsOf, Obs.isNotif, ho] at ih ⊢
              simpa using ih
            · cases hst

/-! ### evidence is sound when the source is honest -/

/-- Every answer in `ev` is true of the chain `src`: served blocks are blocks of `src` (served
for their own number), reported latest headers are headers of blocks of `src` (possibly stale:
not necessarily the head). -/
def Honest (ev : Evidence) (src : Chain) : Prop :=
  (∀ rb ∈ ev.blocks, rb.2 ∈ src) ∧
  (∀ l ∈ ev.latests, ∃ b ∈ src, b.num = l.num ∧ b.hash = l.hash)

theorem Linked.eq_of_num {c : Chain} (h : Linked c) {x y : Blk} (hx : x ∈ c) (hy : y ∈ c)
    (e : x.num = y.num) : x = y := by
  have h1 := h.byNumber_mem hx
  have h2 := h.byNumber_mem hy
  rw [e, h2] at h1
  exact (Option.some.inj h1).symm

theorem Linked.parent_of_succ {c : Chain} (h : Linked c) {x y : Blk} (hx : x ∈ c) (hy : y ∈ c)
    (e : y.num = x.num + 1) : y.parent = x.hash := by
  induction c with
  | nil => cases hx
  | cons b tl ih =>
    rcases List.mem_cons.mp hy with rfl | hy'
    · -- y is the head: x is the next one
      cases tl with
      | nil =>
        rcases List.mem_cons.mp hx with rfl | hx'
        · omega
        · cases hx'
      | cons b' tl' =>
        have hb' : b'.num = x.num := by have := h.1; omega
        have hxm : x ∈ b' :: tl' := by
          rcases List.mem_cons.mp hx with rfl | hx'
          · omega
          · exact hx'
        have := h.tail.eq_of_num (List.mem_cons_self ..) hxm hb'
        rw [← this]; exact h.2.1
    · rcases List.mem_cons.mp hx with rfl | hx'
      · have := h.tail.num_lt y hy'
        have := Linked.head_num h
        omega
      · exact ih h.tail hx' hy'

/-- a block of `src` numbered like `hd` with another hash: `hd` is not in `src` -/
theorem block_evidence_sound {src : Chain} (hls : Linked src) {hd b : Blk} (hb : b ∈ src)
    (hn : b.num = hd.num) (hne : b.hash ≠ hd.hash) : hd ∉ src := by
  intro hm
  exact hne (congrArg Blk.hash (hls.eq_of_num hb hm hn))

/-- a block of `src` numbered `r ≤ hd.num` that differs from the node's block `r`: `hd` (whose
history contains the node's block `r`) is not in `src` -/
theorem below_evidence_sound {u : List Blk} (hi : HashInj u) {src : Chain} {hd : Blk} {tl : Chain}
    (hlc : Linked (hd :: tl)) (hls : Linked src) (hcu : ∀ x ∈ hd :: tl, x ∈ u) (hsu : ∀ x ∈ src, x ∈ u)
    {n h : Nat} {lb : Blk} (hb : ∃ b ∈ src, b.num = n ∧ b.hash = h)
    (hlook : byNumber? (hd :: tl) n = some lb) (hne : lb.hash ≠ h) : hd ∉ src := by
  intro hmem
  obtain ⟨b, hbm, hbn, hbh⟩ := hb
  have hsuf : (hd :: tl) <:+ src :=
    Linked.suffix_of_head_mem hi hlc hls (fun x hx => hcu x (List.mem_cons_of_mem _ hx)) hsu hmem
  obtain ⟨hlbm, hlbn⟩ := byNumber_mem_of_some hlook
  have := hls.eq_of_num (hsuf.subset hlbm) hbm (by omega)
  subst this
  exact hne hbh

/-- MODE `verified`: a justified revert is decided by ONE verified block `rb` the source served for
its own height since the last store (so after `hd` was stored), and `hd` is absent from EVERY
well-formed chain that contains `rb` — in particular from the source's chain at the moment that
answer was computed, if the source told the truth then. Nothing is assumed about any other answer. -/
theorem verified_revert_sound {ev : Evidence} {hd : Blk} {tl : Chain}
    (hj : justified .verified ev (hd :: tl) hd = true) :
    ∃ rb ∈ ev.rblocks, rb.2.ok = true ∧ rb.1 = rb.2.num ∧ rb.2.num ≤ hd.num ∧
      ∀ (u : List Blk) (src : Chain), HashInj u → Linked (hd :: tl) → Linked src →
        (∀ x ∈ hd :: tl, x ∈ u) → (∀ x ∈ src, x ∈ u) → rb.2 ∈ src → hd ∉ src := by
  unfold justified at hj
  simp only [List.any_eq_true, Bool.and_eq_true, beq_iff_eq, decide_eq_true_eq] at hj
  obtain ⟨rb, hrb, ⟨⟨hok, hreq⟩, hle⟩, hlook⟩ := hj
  refine ⟨rb, hrb, hok, hreq, hle, ?_⟩
  intro u src hi hlc hls hcu hsu hm
  split at hlook
  · rename_i lb hlb
    exact below_evidence_sound hi hlc hls hcu hsu ⟨rb.2, hm, rfl, rfl⟩ hlb (by simpa using hlook)
  · cases hlook

/-- MODE `fresh`: a justified revert is decided by one answer given since the last store: a block
served for `hd`'s height with `hd`'s number and another hash (then `hd` is absent from every chain
containing that block), or a latest header at or below `hd` that differs from the node's block
there (then `hd` is absent from every chain that has a block with that number and hash — a bare
header is an unverifiable claim: this is finding `…-unverifiable-latest-header`). -/
theorem fresh_revert_sound {ev : Evidence} {hd : Blk} {tl : Chain}
    (hj : justified .fresh ev (hd :: tl) hd = true) :
    (∃ rb ∈ ev.rblocks, rb.1 = hd.num ∧ rb.2.num = hd.num ∧
        ∀ src : Chain, Linked src → rb.2 ∈ src → hd ∉ src) ∨
    (∃ l ∈ ev.rlatests, l.num ≤ hd.num ∧
        ∀ (u : List Blk) (src : Chain), HashInj u → Linked (hd :: tl) → Linked src →
          (∀ x ∈ hd :: tl, x ∈ u) → (∀ x ∈ src, x ∈ u) →
          (∃ b ∈ src, b.num = l.num ∧ b.hash = l.hash) → hd ∉ src) := by
  unfold justified at hj
  simp only [Bool.or_eq_true, List.any_eq_true, Bool.and_eq_true, beq_iff_eq, bne_iff_ne, ne_eq,
    decide_eq_true_eq] at hj
  rcases hj with ⟨rb, hrb, ⟨hreq, hnum⟩, hne⟩ | ⟨l, hl, hle, hlook⟩
  · exact Or.inl ⟨rb, hrb, hreq, hnum, fun src hls hm => block_evidence_sound hls hm hnum hne⟩
  · refine Or.inr ⟨l, hl, hle, ?_⟩
    intro u src hi hlc hls hcu hsu hb
    split at hlook
    · rename_i lb hlb
      exact below_evidence_sound hi hlc hls hcu hsu hb hlb (by simpa using hlook)
    · cases hlook

/-- MODE `lenient` (the original code): if ALL answers ever seen are true of ONE chain `src` a
justified revert removes a block not in `src` (regression lemma; the two newer modes need no such
global hypothesis). -/
theorem justified_sound {u : List Blk} (hi : HashInj u) {ev : Evidence} {src c : Chain} {hd : Blk}
    {tl : Chain} (hc : c = hd :: tl) (hlc : Linked c) (hls : Linked src)
    (hcu : ∀ x ∈ c, x ∈ u) (hsu : ∀ x ∈ src, x ∈ u)
    (hon : Honest ev src) (hj : justified .lenient ev c hd = true) : hd ∉ src := by
  subst hc
  unfold justified at hj
  simp only [Bool.or_eq_true, List.any_eq_true, Bool.and_eq_true, beq_iff_eq, bne_iff_ne, ne_eq,
    decide_eq_true_eq] at hj
  rcases hj with (⟨rb, hrb, ⟨_, hnum⟩, hne⟩ | ⟨rb, hrb, ⟨_, hnum⟩, hne⟩) | ⟨l, hl, hle, hlook⟩
  · exact block_evidence_sound hls (hon.1 rb hrb) hnum hne
  · intro hmem; exact hne (hls.parent_of_succ hmem (hon.1 rb hrb) hnum)
  · split at hlook
    · rename_i lb hlb
      exact below_evidence_sound hi hlc hls hcu hsu (hon.2 l hl) hlb (by simpa using hlook)
    · cases hlook

end Juno.C06
