import JunoModel.C06.ModelClasses
/-!
C06 — `fetchUnknownClasses` fetches exactly the unknown classes the diff mentions, each once.
-/
namespace Juno.C06

theorem fetchAll_ok (known fetchOk : Nat → Bool) (hs acc res : List Nat)
    (hacc : acc.Nodup) (hk : ∀ x ∈ acc, known x = false)
    (h : fetchAll known fetchOk hs acc = .ok res) :
    res.Nodup ∧ (∀ x, x ∈ res ↔ x ∈ acc ∨ (x ∈ hs ∧ known x = false)) ∧
    (∀ x ∈ res, x ∈ acc ∨ fetchOk x = true) := by
  induction hs generalizing acc with
  | nil =>
    simp only [fetchAll] at h
    injection h with h; subst h
    exact ⟨hacc, by simp, fun x hx => Or.inl hx⟩
  | cons a hs ih =>
    simp only [fetchAll] at h
    unfold fetchIfNotFound at h
    by_cases hc : acc.contains a = true
    · simp only [hc, if_true] at h
      obtain ⟨h1, h2, h3⟩ := ih acc hacc hk h
      refine ⟨h1, ?_, h3⟩
      intro x
      rw [h2 x]
      have hmem : a ∈ acc := by simpa using hc
      constructor
      · rintro (hx | ⟨hx, hkx⟩)
        · exact Or.inl hx
        · exact Or.inr ⟨List.mem_cons_of_mem _ hx, hkx⟩
      · rintro (hx | ⟨hx, hkx⟩)
        · exact Or.inl hx
        · rcases List.mem_cons.mp hx with rfl | hx
          · exact Or.inl hmem
          · exact Or.inr ⟨hx, hkx⟩
    · simp only [hc] at h
      by_cases hkn : known a = true
      · simp only [hkn, if_true] at h
        have h' : fetchAll known fetchOk hs acc = .ok res := by simpa using h
        obtain ⟨h1, h2, h3⟩ := ih acc hacc hk h'
        refine ⟨h1, ?_, h3⟩
        intro x
        rw [h2 x]
        constructor
        · rintro (hx | ⟨hx, hkx⟩)
          · exact Or.inl hx
          · exact Or.inr ⟨List.mem_cons_of_mem _ hx, hkx⟩
        · rintro (hx | ⟨hx, hkx⟩)
          · exact Or.inl hx
          · rcases List.mem_cons.mp hx with rfl | hx
            · rw [hkn] at hkx; cases hkx
            · exact Or.inr ⟨hx, hkx⟩
      · have hkf : known a = false := by simpa using hkn
        by_cases hf : fetchOk a = true
        · have h' : fetchAll known fetchOk hs (acc ++ [a]) = .ok res := by
            simpa [hkf, hf] using h
          have hnm : a ∉ acc := by simpa using hc
          have hacc' : (acc ++ [a]).Nodup := by
            rw [List.nodup_append]
            refine ⟨hacc, by simp, ?_⟩
            intro x hx y hy
            have : y = a := by simpa using hy
            subst this
            intro e; subst e; exact hnm hx
          have hk' : ∀ x ∈ acc ++ [a], known x = false := by
            intro x hx
            rcases List.mem_append.mp hx with hx | hx
            · exact hk x hx
            · have : x = a := by simpa using hx
              subst this; exact hkf
          obtain ⟨h1, h2, h3⟩ := ih (acc ++ [a]) hacc' hk' h'
          refine ⟨h1, ?_, ?_⟩
          · intro x
            rw [h2 x]
            constructor
            · rintro (hx | ⟨hx, hkx⟩)
              · rcases List.mem_append.mp hx with hx | hx
                · exact Or.inl hx
                · have : x = a := by simpa using hx
                  subst this; exact Or.inr ⟨List.mem_cons_self, hkf⟩
              · exact Or.inr ⟨List.mem_cons_of_mem _ hx, hkx⟩
            · rintro (hx | ⟨hx, hkx⟩)
              · exact Or.inl (List.mem_append_left _ hx)
              · rcases List.mem_cons.mp hx with rfl | hx
                · exact Or.inl (List.mem_append_right _ (by simp))
                · exact Or.inr ⟨hx, hkx⟩
          · intro x hx
            rcases h3 x hx with hx | hx
            · rcases List.mem_append.mp hx with hx | hx
              · exact Or.inl hx
              · have : x = a := by simpa using hx
                subst this; exact Or.inr hf
            · exact Or.inr hx
        · simp [hkf, hf] at h

theorem fetchAll_error (known fetchOk : Nat → Bool) (hs acc : List Nat) (e : Nat)
    (h : fetchAll known fetchOk hs acc = .error e) :
    e ∈ hs ∧ known e = false ∧ fetchOk e = false := by
  induction hs generalizing acc with
  | nil => simp [fetchAll] at h
  | cons a hs ih =>
    simp only [fetchAll] at h
    unfold fetchIfNotFound at h
    by_cases hc : acc.contains a = true
    · simp only [hc, if_true] at h
      obtain ⟨h1, h2⟩ := ih acc h
      exact ⟨List.mem_cons_of_mem _ h1, h2⟩
    · simp only [hc] at h
      by_cases hkn : known a = true
      · have h' : fetchAll known fetchOk hs acc = .error e := by simpa [hkn] using h
        obtain ⟨h1, h2⟩ := ih acc h'
        exact ⟨List.mem_cons_of_mem _ h1, h2⟩
      · have hkf : known a = false := by simpa using hkn
        by_cases hf : fetchOk a = true
        · have h' : fetchAll known fetchOk hs (acc ++ [a]) = .error e := by simpa [hkf, hf] using h
          obtain ⟨h1, h2⟩ := ih _ h'
          exact ⟨List.mem_cons_of_mem _ h1, h2⟩
        · have hff : fetchOk a = false := by simpa using hf
          have : e = a := by
            have h' := h
            simp [hkf, hff] at h'
            exact h'.symm
          subst this
          exact ⟨List.mem_cons_self, hkf, hff⟩

/-- if every unknown class of the list can be fetched, the walk succeeds -/
theorem fetchAll_succeeds (known fetchOk : Nat → Bool) (hs acc : List Nat)
    (hall : ∀ x ∈ hs, known x = false → fetchOk x = true) :
    ∃ res, fetchAll known fetchOk hs acc = .ok res := by
  cases h : fetchAll known fetchOk hs acc with
  | ok res => exact ⟨res, rfl⟩
  | error e =>
    obtain ⟨h1, h2, h3⟩ := fetchAll_error known fetchOk hs acc e h
    rw [hall e h1 h2] at h3; cases h3

end Juno.C06
