import JunoModel.C06.Model
/-!
C06 — `Store` as `storeTask` sees it, with the FIRST check of `verifyBlockSuccession`
(blockchain/statebackend/block_ops.go:30): `core.CheckBlockVersion(block.ProtocolVersion)`
(core/version.go), and the classification of what one delivery to `verifierTask` + `storeTask` does
(the value that comes back on `CommittedBlock.Persisted`). Core Lean only.

Transcribed:

* `parseUint64?`        — `strconv.ParseUint(s, 10, 64)`: a non-empty string of ASCII digits whose value
                          fits 64 bits (no sign, no underscore, no space).
* `splitDots`           — `strings.Split(s, ".")`.
* `parseBlockVersion`   — `core.ParseBlockVersion`: `""` is 0.0.0; more than 31 BYTES is an error; the
                          first three dot-separated parts are parsed (missing ones are 0, a fourth and
                          later ones are ignored, even if they are not numbers).
* `checkBlockVersion`   — `core.CheckBlockVersion`: supported iff `major < L.major ∨ (major = L.major ∧
                          minor ≤ L.minor)` for `L = core.LatestVer = 0.14.1`; the patch number does not
                          count.
* `storeV`              — `Store` = version check, then `succession` (number, parent, state root).
* `Impl.deliverV`       — the `deliver` event of `Impl.step` with the version string of the block as an
                          extra input, written out as the code runs it. It is NOT a new machine:
                          `deliverV_eq_step` shows that a delivery of a block whose version is refused is
                          exactly a delivery that `storeTask` drops (the encoding `cancelled := true`),
                          so every theorem about `Impl.step` covers it.
* `deliverClass`        — which of the outcomes of one delivery happens (what `Persisted` receives).
-/
namespace Juno.C06

/-! ### `core.ParseBlockVersion` / `core.CheckBlockVersion` on byte strings -/

/-- ASCII digit value -/
def digit? (b : UInt8) : Option Nat :=
  if 48 ≤ b.toNat ∧ b.toNat ≤ 57 then some (b.toNat - 48) else none

/-- value of a string of digits, most significant first; `none` if a byte is not a digit -/
def digitsVal? : List UInt8 → Nat → Option Nat
  | [], acc => some acc
  | b :: bs, acc =>
    match digit? b with
    | none => none
    | some d => digitsVal? bs (acc * 10 + d)

/-- `strconv.ParseUint(s, 10, 64)` (`none` = error: empty, a non-digit, or out of range) -/
def parseUint64? (s : List UInt8) : Option Nat :=
  if s.isEmpty then none
  else match digitsVal? s 0 with
    | none => none
    | some v => if v < U64 then some v else none

/-- `strings.Split(s, ".")` (46 = '.'): always at least one part -/
def splitDots : List UInt8 → List (List UInt8)
  | [] => [[]]
  | b :: bs =>
    if b == 46 then [] :: splitDots bs
    else match splitDots bs with
      | [] => [[b]]               -- unreachable: splitDots never returns []
      | p :: ps => (b :: p) :: ps

inductive VerParse where
  /-- `semver.New(major, minor, patch, "", "")` -/
  | ok (major minor patch : Nat)
  /-- "starknet protocol version is N bytes long, at most 31 are allowed" -/
  | tooLong
  /-- "cannot parse starknet protocol version" -/
  | badNumber
deriving DecidableEq, Repr

/-- `maxProtocolVersionLen` -/
def maxProtocolVersionLen : Nat := 31

/-- `core.ParseBlockVersion` -/
def parseBlockVersion (s : List UInt8) : VerParse :=
  if s.isEmpty then .ok 0 0 0
  else if s.length > maxProtocolVersionLen then .tooLong
  else
    let parts := splitDots s
    -- `for i := range min(3, len(parts))`: the first error stops the loop
    match parts with
    | [] => .ok 0 0 0
    | [a] => (match parseUint64? a with | some x => .ok x 0 0 | none => .badNumber)
    | [a, b] =>
      (match parseUint64? a with
       | none => .badNumber
       | some x => match parseUint64? b with | some y => .ok x y 0 | none => .badNumber)
    | a :: b :: c :: _ =>
      (match parseUint64? a with
       | none => .badNumber
       | some x => match parseUint64? b with
         | none => .badNumber
         | some y => match parseUint64? c with | some z => .ok x y z | none => .badNumber)

/-- `core.LatestVer` = 0.14.1 (only major and minor are compared) -/
def latestMajor : Nat := 0
def latestMinor : Nat := 14

/-- the comparison inside `core.CheckBlockVersion` -/
def versionSupported (major minor : Nat) : Bool :=
  decide (major < latestMajor) || (major == latestMajor && decide (minor ≤ latestMinor))

/-- `core.CheckBlockVersion(v) == nil` -/
def checkBlockVersion (s : List UInt8) : Bool :=
  match parseBlockVersion s with
  | .ok major minor _ => versionSupported major minor
  | _ => false

/-! ### `Store` with the version check, and the outcome of one delivery -/

inductive StoreResV where
  /-- `verifyBlockSuccession`: `CheckBlockVersion` failed — before the head is even read -/
  | badVersion
  | base (r : StoreRes)
deriving DecidableEq, Repr

/-- `Store` as the code runs it: `verifyBlockSuccession` starts with the version check, then expected
number, then parent hash; then the state update (root verification). -/
def storeV (ver : List UInt8) (c : Chain) (b : Blk) : StoreResV :=
  if !checkBlockVersion ver then .badVersion else .base (succession c b)

/-- The `deliver` event with the block's version string as an input, written out the way
`verifierTask` + `storeTask` run: sanity check, `ctx.Done`, `Store` (version → number → parent →
root), and the reaction to `Store`'s error: only `ErrParentDoesNotMatchHead` starts a revert task;
every other error (an unsupported version included, whatever the block's number and parent are)
resets the streams and changes nothing. -/
def Impl.deliverV (cfg : Cfg) (s : Impl) (req : Nat) (b : Blk) (ver : List UInt8) (cancelled : Bool) :
    Impl × List Obs :=
  match s.task with
  | some _ => (s, [])
  | none =>
    let s := { s with ev := s.ev.addBlock (req, b) }
    if !b.ok then (s, [])
    else if cancelled then (s, [])
    else match storeV ver s.node.chain b with
      | .badVersion => (s, [])
      | .base .stored => let (n, o) := onStored s.node b; ({ s with node := n, ev := s.ev.clearRecent }, o)
      | .base .badNumber => (s, [])
      | .base .rootMismatch => (s, [])
      | .base .parentMismatch => ({ s with task := some (mismatchLpv cfg b) }, [])

/-- What one delivery does, as the value sent on `CommittedBlock.Persisted` shows it (while no revert
task occupies the callback chain). -/
inductive DClass where
  /-- verifierTask: `SanityCheckNewHeight` failed (`Persisted <- err`, streams reset) -/
  | sanity
  /-- storeTask: `ctx.Done` (`Persisted <- ctx.Err()`) -/
  | cancelled
  /-- Store: unsupported / unparsable protocol version (other error: streams reset) -/
  | badVersion
  /-- Store: "expected block #N, got block #M" (other error: streams reset) -/
  | badNumber
  /-- Store: `ErrParentDoesNotMatchHead`: `revertTask(block.Number-1)` runs -/
  | parentMismatch
  /-- Store: the state update found another root than the block claims (other error: streams reset) -/
  | rootMismatch
  /-- `Persisted <- nil`: the block is the new head -/
  | stored
deriving DecidableEq, Repr

def DClass.name : DClass → String
  | .sanity => "sanity"
  | .cancelled => "cancelled"
  | .badVersion => "bad-version"
  | .badNumber => "bad-number"
  | .parentMismatch => "parent-mismatch"
  | .rootMismatch => "root-mismatch"
  | .stored => "stored"

def deliverClass (ver : List UInt8) (c : Chain) (b : Blk) (cancelled : Bool) : DClass :=
  if !b.ok then .sanity
  else if cancelled then .cancelled
  else match storeV ver c b with
    | .badVersion => .badVersion
    | .base .stored => .stored
    | .base .badNumber => .badNumber
    | .base .rootMismatch => .rootMismatch
    | .base .parentMismatch => .parentMismatch

end Juno.C06
