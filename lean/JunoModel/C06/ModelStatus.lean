import JunoModel.C06.Model
/-!
C06 — the bookkeeping of `storeTask` that is NOT about the chain (sync/sync.go:400-418), the mode switch
between catch-up (parallel fetchers) and tip following (one fetcher), and the two reader accessors
`HighestBlockHeader()` / `StartingBlockHeader()`. Core Lean only.

Transcribed:

* `add64`                 — Go's `+` on `uint64` (`block.Number + uint64(maxWorkers())` can wrap).
* `maxWorkers`            — `min(16, runtime.GOMAXPROCS(0))`.
* `numWorkers`            — `setupWorkers`: `maxWorkers()` fetchers in catch-up mode, ONE otherwise.
* `Status.runStart`       — head of `syncBlocks`: `startingBlockNumber := nextHeight()`.
* `Status.runEnd`         — the deferred cleanup of `syncBlocks` (all three pointers nil).
* `Status.poll`           — `pollLatest`: `highestBlockHeader.Store(header)`, unconditionally.
* `Status.onStored`       — `storeTask` after a successful `Store` of block `b`:
                            the starting header is (re)set when `b.Number == *startingBlockNumber`;
                            `isBehind := highest.Number > b.Number + maxWorkers()`; a CHANGE of
                            `catchUpMode` resets the streams; `highestBlockHeader` is raised to `b` by a
                            compare-and-swap when it is nil or lower (`casOk = false`: `pollLatest`
                            stored a header between the `Load` and the `CompareAndSwap`, which then
                            does nothing — that store is a `poll` event of its own).
* `Status.startingHeader` — `StartingBlockHeader()`: the cached header, else the header of block
                            `startingBlockNumber` read from the database (and cached), else an error.
-/
namespace Juno.C06

/-- Go's `a + b` on `uint64` (for `a, b < 2^64`). -/
def add64 (a b : Nat) : Nat := (a + b) % U64

/-- `maxWorkers()`; `procs` = `runtime.GOMAXPROCS(0)` -/
def maxWorkers (procs : Nat) : Nat := min 16 procs

structure Status where
  /-- `startingBlockNumber` -/
  startNum : Option Nat
  /-- `startingBlockHeader` (number, hash) -/
  startHdr : Option Hdr
  /-- `highestBlockHeader` -/
  highest : Option Hdr
  /-- `catchUpMode` -/
  catchUp : Bool
deriving DecidableEq, Repr, Inhabited

/-- a fresh `Synchronizer` (`sync.New`) -/
def Status.init : Status := ⟨none, none, none, false⟩

/-- `setupWorkers`: number of parallel fetchers of the next stream generation -/
def numWorkers (procs : Nat) (st : Status) : Nat := if st.catchUp then maxWorkers procs else 1

def Status.runStart (st : Status) (c : Chain) : Status := { st with startNum := some (nextHeight c) }

def Status.runEnd (st : Status) : Status := { st with startNum := none, startHdr := none, highest := none }

def Status.poll (st : Status) (h : Hdr) : Status := { st with highest := some h }

/-- `if startingBlockNumber != nil && block.Number == *startingBlockNumber { startingBlockHeader.Store(block.Header) }` -/
def Status.withStart (st : Status) (b : Blk) : Status :=
  if st.startNum == some b.num then { st with startHdr := some ⟨b.num, b.hash⟩ } else st

/-- the rest of the bookkeeping, given what `highestBlockHeader.Load()` returned -/
def Status.afterLoad (procs : Nat) (st1 : Status) (b : Blk) (casOk : Bool) : Option Hdr → Status × Bool
  | none =>
    -- nothing known about the source's head: the mode is left alone
    ({ st1 with highest := if casOk then some ⟨b.num, b.hash⟩ else none }, false)
  | some h =>
    let isBehind := decide (h.num > add64 b.num (maxWorkers procs))
    let reset := st1.catchUp != isBehind
    let highest' := if decide (h.num < b.num) && casOk then some ⟨b.num, b.hash⟩ else some h
    ({ st1 with catchUp := isBehind, highest := highest' }, reset)

/-- `storeTask` after `Store(b)` succeeded. Second component: `resetStreams()` was called. -/
def Status.onStored (procs : Nat) (st : Status) (b : Blk) (casOk : Bool := true) : Status × Bool :=
  (st.withStart b).afterLoad procs b casOk (st.withStart b).highest

inductive StartAns where
  | hdr (h : Hdr)
  /-- "starting block number is not set" (no `Run` in progress) -/
  | errNotSet
  /-- the fallback read of the header failed (the block is not stored yet) -/
  | errDb
deriving DecidableEq, Repr

/-- `StartingBlockHeader()` on the chain `c` (what the database holds). -/
def Status.startingHeader (st : Status) (c : Chain) : StartAns × Status :=
  match st.startHdr with
  | some h => (.hdr h, st)
  | none =>
    match st.startNum with
    | none => (.errNotSet, st)
    | some n =>
      match byNumber? c n with
      | none => (.errDb, st)
      | some b => (.hdr ⟨b.num, b.hash⟩, { st with startHdr := some ⟨b.num, b.hash⟩ })

/-- storeTask as a whole on the pair (chain-and-feeds state, status): the part the property is about
(`onStored`) does not read the status, and the status part does not touch chain, `currReorg` or the
feed sends. -/
def storeTaskFull (procs : Nat) (n : Node) (st : Status) (b : Blk) (casOk : Bool := true) :
    Node × Status × List Obs × Bool :=
  let (n', o) := onStored n b
  let (st', reset) := st.onStored procs b casOk
  (n', st', o, reset)

end Juno.C06
