/-!
C06 — `feederGatewayDataSource.fetchUnknownClasses` (sync/data_source.go:84): which class definitions
`BlockByNumber` fetches for a block, i.e. what reaches `Store` as `NewClasses`. Core Lean only.

Class hashes are `Nat`s. Inputs: `known h` = the node's head state holds class `h` (`state.Class`
returns nil; on an empty database there is no state and nothing is known), the class hashes the
state diff mentions — the classes of `DeployedContracts`, `DeclaredV0Classes`, the keys of
`DeclaredV1Classes`, in the order the code walks them — and `fetchOk h` = the feeder's `Class(h)` call
succeeds. (`ReplacedClasses` and `MigratedClasses` are not looked at by the code.)
-/
namespace Juno.C06

/-- `fetchIfNotFound`: `acc` = `newClasses` so far (in fetch order); `Except.error h` = the fetch of
`h` failed, which aborts `BlockByNumber`. -/
def fetchIfNotFound (known fetchOk : Nat → Bool) (acc : List Nat) (h : Nat) : Except Nat (List Nat) :=
  if acc.contains h then .ok acc            -- already fetched for this block
  else if known h then .ok acc              -- the state has it
  else if fetchOk h then .ok (acc ++ [h])
  else .error h

def fetchAll (known fetchOk : Nat → Bool) : List Nat → List Nat → Except Nat (List Nat)
  | [], acc => .ok acc
  | h :: hs, acc =>
    match fetchIfNotFound known fetchOk acc h with
    | .error e => .error e
    | .ok acc' => fetchAll known fetchOk hs acc'

/-- `fetchUnknownClasses`: the three loops, one after the other -/
def fetchUnknownClasses (known fetchOk : Nat → Bool) (deployed declaredV0 declaredV1 : List Nat) :
    Except Nat (List Nat) :=
  fetchAll known fetchOk (deployed ++ declaredV0 ++ declaredV1) []

end Juno.C06
