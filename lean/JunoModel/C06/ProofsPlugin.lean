import JunoModel.C06.ModelPlugin
import JunoModel.C06.Proofs
/-!
C06 — the plugin calls of the synchroniser are exactly its commits (lemmas for `Props.lean`).
-/
namespace Juno.C06

/-- no block names itself as its parent (true of a collision-free hash: the parent was hashed before) -/
def NoSelf (c : Chain) : Prop := ∀ b ∈ c, b.hash ≠ b.parent

/-- the same of the blocks the source delivers -/
def EvNoSelf : Ev → Prop
  | .deliver _ b _ => b.hash ≠ b.parent
  | _ => True

theorem handle_linked {hd : Blk} {tl : Chain} (hl : Linked (hd :: tl)) (hs : hd.hash ≠ hd.parent) :
    handlePluginRevertBlock (hd :: tl)
      = [.revertBlock hd.num hd.hash (stackOf (hd :: tl)).tail.head?] := by
  cases tl with
  | nil =>
    have h0 : hd.num = 0 := hl.1
    simp [handlePluginRevertBlock, stackOf, h0]
  | cons nx tl' =>
    obtain ⟨hn, hp, _⟩ := hl
    have hne : (hd.num != 0) = true := by simp [hn]
    have h1 : (hd.hash == hd.parent) = false := by simpa using hs
    have h2 : (nx.hash == hd.parent) = true := by simp [hp]
    simp [handlePluginRevertBlock, stackOf, byHash?, List.find?, hne, h1, h2]

theorem expected_append (st : List (Nat × Nat)) (o1 o2 : List Obs) :
    expectedCalls st (o1 ++ o2) = expectedCalls st o1 ++ expectedCalls (stackAfter st o1) o2 := by
  induction o1 generalizing st with
  | nil => simp [expectedCalls, stackAfter]
  | cons o os ih =>
    cases o <;> simp [expectedCalls, stackAfter, ih]

theorem stackAfter_append (st : List (Nat × Nat)) (o1 o2 : List Obs) :
    stackAfter st (o1 ++ o2) = stackAfter (stackAfter st o1) o2 := by
  induction o1 generalizing st with
  | nil => simp [stackAfter]
  | cons o os ih =>
    cases o <;> simp [stackAfter, ih]

theorem linked_push {c : Chain} {b : Blk} (hl : Linked c) (h : succession c b = .stored) :
    Linked (b :: c) := by
  unfold succession at h
  cases c with
  | nil =>
    simp only [] at h
    split at h <;> try contradiction
    split at h <;> try contradiction
    rename_i h1 h2
    exact ⟨by simp [Juno.C06.nextHeight] at h1; omega, by simpa using h2⟩
  | cons hd tl =>
    simp only [] at h
    split at h <;> try contradiction
    split at h <;> try contradiction
    rename_i h1 h2
    exact ⟨by simp [Juno.C06.nextHeight] at h1; omega, by simpa using h2, hl⟩

/-- what one event tells the plugin = the specification applied to what the event commits; the
`(number, hash)` stack follows the chain; the invariants are kept. -/
theorem plugin_step (cfg : Cfg) (s : Impl) (e : Ev) (hl : Linked s.node.chain)
    (hs : NoSelf s.node.chain) (he : EvNoSelf e) :
    s.pluginCalls cfg e = expectedCalls (stackOf s.node.chain) (s.step cfg e).2 ∧
    stackOf (s.step cfg e).1.node.chain = stackAfter (stackOf s.node.chain) (s.step cfg e).2 ∧
    Linked (s.step cfg e).1.node.chain ∧ NoSelf (s.step cfg e).1.node.chain := by
  cases e with
  | deliver req b cancelled =>
    simp only [Impl.step, Impl.pluginCalls]
    cases ht : s.task with
    | some l => simp [expectedCalls, stackAfter, hl, hs]
    | none =>
      simp only []
      by_cases hok : b.ok = true
      · by_cases hc : cancelled = true
        · simp [hok, hc, expectedCalls, stackAfter, hl, hs]
        · cases hsu : succession s.node.chain b with
          | stored =>
            have hl' := linked_push hl hsu
            have hs' : NoSelf (b :: s.node.chain) := by
              intro x hx
              rcases List.mem_cons.mp hx with rfl | hx
              · exact he
              · exact hs x hx
            cases hr : s.node.reorg <;>
              simp [hok, hc, onStored, reorgObs, hr, expectedCalls, stackAfter, stackOf, hl', hs']
          | badNumber => simp [hok, hc, expectedCalls, stackAfter, hl, hs]
          | rootMismatch => simp [hok, hc, expectedCalls, stackAfter, hl, hs]
          | parentMismatch => simp [hok, hc, expectedCalls, stackAfter, hl, hs]
      · simp [hok, expectedCalls, stackAfter, hl, hs]
  | reorgDetected next latest confirm =>
    simp only [Impl.step, Impl.pluginCalls]
    cases ht : s.task with
    | some l => simp [expectedCalls, stackAfter, hl, hs]
    | none =>
      simp only []
      split <;> simp [expectedCalls, stackAfter] <;>
        (repeat' split) <;> simp_all
  | iter ans revOk =>
    simp only [Impl.step, Impl.pluginCalls]
    cases ht : s.task with
    | none => simp [expectedCalls, stackAfter, hl, hs]
    | some lpv =>
      simp only []
      cases hch : s.node.chain with
      | nil =>
        have hl0 := hl; have hs0 := hs
        rw [hch] at hl0 hs0
        simp [expectedCalls, stackAfter, hch, hl0, hs0]
      | cons hd tl =>
        rw [hch] at hl hs
        have hhd : hd.hash ≠ hd.parent := hs hd (List.mem_cons_self ..)
        have hl2 : Linked tl := Linked.tail hl
        have hs2 : NoSelf tl := fun x hx => hs x (List.mem_cons_of_mem _ hx)
        simp only []
        cases hit : revertIter cfg lpv hd ans with
        | brk =>
          simp only []
          split <;> (try split) <;> simp [expectedCalls, stackAfter, hch, hl, hs]
        | revert cont =>
          simp only []
          rw [← hch, hch, handle_linked hl hhd]
          cases revOk
          · split <;> (try split) <;>
              simp [revertHead, hch, expectedCalls, stackAfter, stackOf, hl, hs]
          · split <;> (try split) <;>
              simp [revertHead, hch, expectedCalls, stackAfter, stackOf, hl2, hs2]
  | restart =>
    simp only [Impl.step, Impl.pluginCalls]
    cases ht : s.task <;> simp [expectedCalls, stackAfter, hl, hs]

/-- every run: the plugin is told exactly the commits, in order, each revert with the block below -/
theorem plugin_run (cfg : Cfg) (s : Impl) (es : List Ev) (hl : Linked s.node.chain)
    (hs : NoSelf s.node.chain) (he : ∀ e ∈ es, EvNoSelf e) :
    Impl.runCalls cfg s es = expectedCalls (stackOf s.node.chain) (Impl.run cfg s es).2 := by
  induction es generalizing s with
  | nil => simp [Impl.runCalls, Impl.run, expectedCalls]
  | cons e es ih =>
    obtain ⟨h1, h2, h3, h4⟩ := plugin_step cfg s e hl hs (he e (List.mem_cons_self ..))
    have := ih (s.step cfg e).1 h3 h4 (fun x hx => he x (List.mem_cons_of_mem _ hx))
    simp only [Impl.runCalls, Impl.run]
    rw [expected_append, h1, this, h2]

end Juno.C06
