import JunoModel.C06.ModelPipe
/-!
C06 — the invariant of the goroutine-level machine `Pipe` (ModelPipe.lean) and its preservation by
every step of every goroutine: while a fetcher is inside a positive `isReverting` (or its revert task
is waiting in the verifiers stream) nothing can change the chain, so the three reads of `isReverting`
and the start of `revertTask` see ONE chain; hence every run of the pipeline is a run of the serial
machine `Impl`.
-/
namespace Juno.C06.Pipe
open Juno.C06

def notDone : FSt → Bool
  | .run | .gated _ _ | .gotLocal _ _ _ _ => true
  | _ => false

/-- the chain a fetcher inside (or after) a positive `isReverting` saw at `Height()` -/
def armedSnap : FSt → Option (Blk × Chain)
  | .gated hd tl | .gotLocal hd tl _ _ | .decided hd tl _ | .queued hd tl _ _ => some (hd, tl)
  | _ => none

def calledBack : FSt → Bool
  | .over | .queued _ _ _ _ => true
  | _ => false

/-- a pending item of the verifiers stream that cannot touch the chain: a fetched block whose
`storeTask` will find the context done -/
def CancelledBlock (s : St) (k : Nat) : Prop :=
  ∃ req b, s.vq[k]? = some (.block req b) ∧ s.cancelled = true

structure Inv (cfg : Cfg) (s : St) : Prop where
  ord1 : s.fnext ≤ s.fs.length
  ord2 : ∀ j, j < s.fnext → calledBack (s.f j) = true
  ord3 : ∀ j, s.fnext ≤ j → j < s.fs.length → calledBack (s.f j) = false
  ord4 : s.vq.length ≤ s.fnext
  ord5 : s.vdone ≤ s.vq.length
  nc1 : s.cancelled = false → s.vq.length = s.fnext
  nc2 : s.cancelled = false → ∀ j, s.f j ≠ .retNothing
  nc3 : s.cancelled = false → s.impl.task = none → nextHeight s.chain = s.start + s.vdone
  tk1 : ∀ lpv, s.impl.task = some lpv → nextHeight s.chain < s.start + s.fnext
  tk2 : ∀ lpv, s.impl.task = some lpv → ∀ j, armedSnap (s.f j) = none
  arm1 : ∀ j hd tl, armedSnap (s.f j) = some (hd, tl) →
    s.chain = hd :: tl ∧ hd.num + 1 = s.start + j ∧ s.impl.task = none
  arm2 : ∀ j hd tl d k0, s.f j = .queued hd tl d k0 →
    s.vdone ≤ k0 ∧ s.vq[k0]? = some (.revert j hd tl d) ∧ ∀ k, s.vdone ≤ k → k < k0 → CancelledBlock s k
  arm3 : ∀ j hd tl, armedSnap (s.f j) = some (hd, tl) → calledBack (s.f j) = false →
    (∀ k, s.vdone ≤ k → k < s.vq.length → CancelledBlock s k) ∧ (s.cancelled = false → s.fnext = j)
  qi : ∀ k i hd tl d, s.vdone ≤ k → s.vq[k]? = some (.revert i hd tl d) → s.f i = .queued hd tl d k
  dat1 : ∀ j hd tl rh lh, s.f j = .gotLocal hd tl rh lh →
    rh.num ≤ hd.num ∧ byNumber? (hd :: tl) (if rh.num < hd.num then rh.num else hd.num) = some lh ∧
    (rh.hash == lh.hash) = false ∧ cfg.confirmLatest = true
  dat2 : ∀ j hd tl d, (s.f j = .decided hd tl d ∨ ∃ k, s.f j = .queued hd tl d k) →
    isReverting cfg (hd :: tl) d.next (some d.latest) d.confirm = some d.lpv

theorem f_lt {s : St} {j : Nat} (h : s.f j ≠ .over) : j < s.fs.length := by
  by_cases lt : j < s.fs.length
  · exact lt
  · exfalso; apply h; simp [St.f, List.getD, List.getElem?_eq_none (Nat.le_of_not_lt lt)]

theorem getD_set_f {l : List FSt} {j : Nat} (lt : j < l.length) (x : FSt) (j' : Nat) :
    (l.set j x).getD j' .over = if j' = j then x else l.getD j' .over := by
  simp only [List.getD, List.getElem?_set]
  by_cases e : j = j'
  · subst e; simp [lt]
  · have : ¬ j' = j := fun x => e x.symm
    simp [e, this]

theorem getD_append_f (l : List FSt) (x : FSt) (j' : Nat) :
    (l ++ [x]).getD j' .over = if j' = l.length then x else l.getD j' .over := by
  simp only [List.getD]
  by_cases e : j' = l.length
  · subst e; simp
  · simp only [e, ↓reduceIte]
    by_cases lt : j' < l.length
    · simp [List.getElem?_append_left lt]
    · rw [List.getElem?_eq_none (by simp; omega), List.getElem?_eq_none (by omega)]

theorem getElem?_append_v (l : List VItem) (x : VItem) (k : Nat) :
    (l ++ [x])[k]? = if k = l.length then some x else l[k]? := by
  by_cases e : k = l.length
  · subst e; simp
  · simp only [e, ↓reduceIte]
    by_cases lt : k < l.length
    · simp [List.getElem?_append_left lt]
    · rw [List.getElem?_eq_none (by simp; omega), List.getElem?_eq_none (by omega)]

theorem Inv.init (cfg : Cfg) (c : Chain) : Inv cfg (St.init c) := by
  constructor <;> simp [St.init, St.f, St.chain, Impl.init, armedSnap, calledBack, notDone]

theorem inv_spawn {cfg : Cfg} {s : St} (hi : Inv cfg s) : Inv cfg (step cfg s .spawn) := by
  obtain ⟨o1, o2, o3, o4, o5, n1, n2, n3, t1, t2, a1, a2, a3, q, d1, d2⟩ := hi
  simp only [St.f, St.chain, CancelledBlock] at *
  constructor <;> simp only [step, St.f, St.chain, CancelledBlock, getD_append_f, List.length_append, List.length_singleton] <;>
    grind [notDone, armedSnap, calledBack]


macro "pipe_tac " k:term : tactic =>
  `(tactic| (constructor <;> simp only [setF, St.f, St.chain, CancelledBlock, $k:term, getElem?_append_v,
      List.length_append, List.length_singleton, List.length_set] <;> grind [notDone, armedSnap, calledBack]))

theorem inv_fetchOk {cfg : Cfg} {s : St} (hi : Inv cfg s) (i : Nat) (b : Blk) :
    Inv cfg (step cfg s (.fetchOk i b)) := by
  simp only [step]
  cases hf : s.f i with
  | run =>
    simp only
    have key := getD_set_f (f_lt (by rw [hf]; simp : s.f i ≠ .over))
    obtain ⟨o1, o2, o3, o4, o5, n1, n2, n3, t1, t2, a1, a2, a3, q, d1, d2⟩ := hi
    simp only [St.f, St.chain, CancelledBlock] at *
    pipe_tac key
  | _ => exact hi

theorem inv_fetchCancelled {cfg : Cfg} {s : St} (hi : Inv cfg s) (i : Nat) :
    Inv cfg (step cfg s (.fetchCancelled i)) := by
  simp only [step]
  cases hf : s.f i with
  | run =>
    simp only
    by_cases hc : s.cancelled = true
    · simp only [hc, ↓reduceIte]
      have key := getD_set_f (f_lt (by rw [hf]; simp : s.f i ≠ .over))
      obtain ⟨o1, o2, o3, o4, o5, n1, n2, n3, t1, t2, a1, a2, a3, q, d1, d2⟩ := hi
      simp only [St.f, St.chain, CancelledBlock] at *
      pipe_tac key
    · simp only [hc]; exact hi
  | _ => exact hi



theorem inv_fetchErr {cfg : Cfg} {s : St} (hi : Inv cfg s) (i : Nat) :
    Inv cfg (step cfg s (.fetchErr i)) := by
  simp only [step]
  cases hf : s.f i with
  | run =>
    simp only
    cases hc : s.chain with
    | nil => exact hi
    | cons hd tl =>
      simp only
      by_cases g : hd.num + 1 = s.start + i
      · have g' : (hd.num + 1 != s.start + i) = false := by simp [g]
        simp only [g', Bool.false_eq_true, ↓reduceIte]
        have key := getD_set_f (f_lt (by rw [hf]; simp : s.f i ≠ .over))
        have nh : nextHeight s.chain = hd.num + 1 := by rw [hc]; rfl
        obtain ⟨o1, o2, o3, o4, o5, n1, n2, n3, t1, t2, a1, a2, a3, q, d1, d2⟩ := hi
        simp only [St.f, St.chain, CancelledBlock] at *
        have hge : s.fnext ≤ i := by
          by_cases lt : i < s.fnext
          · have := o2 i lt; rw [hf] at this; simp [calledBack] at this
          · omega
        have htask : s.impl.task = none := by
          cases ht : s.impl.task with
          | none => rfl
          | some lpv => have := t1 lpv ht; omega
        have hnc : s.cancelled = false → s.fnext = i ∧ s.vdone = s.vq.length := by
          intro c
          have := n3 c htask
          have := n1 c
          omega
        have hpend : ∀ k, s.vdone ≤ k → k < s.vq.length →
            ∃ req b, s.vq[k]? = some (VItem.block req b) ∧ s.cancelled = true := by
          intro k h1 h2
          cases hcc : s.cancelled with
          | false => have := hnc hcc; omega
          | true =>
            have hk : s.vq[k]? = some s.vq[k] := List.getElem?_eq_getElem h2
            cases hv : s.vq[k] with
            | block req b => exact ⟨req, b, by rw [hk, hv], rfl⟩
            | revert i' hd' tl' d' =>
              exfalso
              rw [hv] at hk
              have hq := q k i' hd' tl' d' h1 hk
              have ha := a1 i' hd' tl' (by rw [hq]; rfl)
              have : i' = i := by
                have e1 := ha.1
                rw [hc] at e1
                injection e1 with e1 _
                have := ha.2.1
                rw [← e1] at this
                omega
              subst this
              rw [hf] at hq
              cases hq
        pipe_tac key
      · have g' : (hd.num + 1 != s.start + i) = true := by simp [g]
        simp only [g', ↓reduceIte]; exact hi
  | _ => exact hi


/-- the staged `isReverting` of the fetcher goroutine, when all its reads saw `hd :: tl`, is the
function `isReverting` of the serial model -/
theorem isReverting_decide (cfg : Cfg) (hd : Blk) (tl : Chain) (next : Nat) (rh : Hdr) (lh : Blk)
    (cb : Option Blk) (g : hd.num + 1 = next) (le : ¬ rh.num > hd.num)
    (hb : byNumber? (hd :: tl) (if rh.num < hd.num then rh.num else hd.num) = some lh)
    (hne : (rh.hash == lh.hash) = false) (hc : cfg.confirmLatest = true → confirmed cb rh = true) :
    isReverting cfg (hd :: tl) next (some rh) cb = some (decide cfg next rh cb).lpv := by
  unfold isReverting
  have g' : (hd.num + 1 != next) = false := by simp [g]
  simp only [g', Bool.false_eq_true, ↓reduceIte, le, hb, hne]
  cases hcl : cfg.confirmLatest with
  | false => simp only [decide, Bool.false_and, Bool.false_eq_true, ↓reduceIte]; split <;> rfl
  | true => simp only [hc hcl, decide, Bool.not_true, Bool.and_false, Bool.false_eq_true, ↓reduceIte]; split <;> rfl

/-- `isReverting` says "no reorg": the fetcher is back in its loop -/
theorem inv_disarm {cfg : Cfg} {s : St} (hi : Inv cfg s) (i : Nat)
    (hf : (∃ hd tl, s.f i = .gated hd tl) ∨ ∃ hd tl rh lh, s.f i = .gotLocal hd tl rh lh) :
    Inv cfg (setF s i .run) := by
  have ne : s.f i ≠ .over := by
    rcases hf with ⟨hd, tl, h⟩ | ⟨hd, tl, rh, lh, h⟩ <;> rw [h] <;> simp
  have key := getD_set_f (f_lt ne)
  obtain ⟨o1, o2, o3, o4, o5, n1, n2, n3, t1, t2, a1, a2, a3, q, d1, d2⟩ := hi
  simp only [St.f, St.chain, CancelledBlock] at *
  pipe_tac key

theorem inv_toGotLocal {cfg : Cfg} {s : St} (hi : Inv cfg s) (i : Nat) (hd : Blk) (tl : Chain)
    (rh : Hdr) (lh : Blk) (hf : s.f i = .gated hd tl) (le : ¬ rh.num > hd.num)
    (hb : byNumber? (hd :: tl) (if rh.num < hd.num then rh.num else hd.num) = some lh)
    (hne : (rh.hash == lh.hash) = false) (hcl : cfg.confirmLatest = true) :
    Inv cfg (setF s i (.gotLocal hd tl rh lh)) := by
  have key := getD_set_f (f_lt (by rw [hf]; simp : s.f i ≠ .over))
  obtain ⟨o1, o2, o3, o4, o5, n1, n2, n3, t1, t2, a1, a2, a3, q, d1, d2⟩ := hi
  simp only [St.f, St.chain, CancelledBlock] at *
  pipe_tac key

theorem inv_toDecided {cfg : Cfg} {s : St} (hi : Inv cfg s) (i : Nat) (hd : Blk) (tl : Chain)
    (d : Dec) (hf : (s.f i = .gated hd tl) ∨ ∃ rh lh, s.f i = .gotLocal hd tl rh lh)
    (hd2 : isReverting cfg (hd :: tl) d.next (some d.latest) d.confirm = some d.lpv) :
    Inv cfg (setF s i (.decided hd tl d)) := by
  have ne : s.f i ≠ .over := by
    rcases hf with h | ⟨rh, lh, h⟩ <;> rw [h] <;> simp
  have key := getD_set_f (f_lt ne)
  obtain ⟨o1, o2, o3, o4, o5, n1, n2, n3, t1, t2, a1, a2, a3, q, d1, d2⟩ := hi
  simp only [St.f, St.chain, CancelledBlock] at *
  pipe_tac key


theorem inv_localRead {cfg : Cfg} {s : St} (hi : Inv cfg s) (i : Nat) (rh? : Option Hdr) :
    Inv cfg (step cfg s (.localRead i rh?)) := by
  simp only [step]
  cases hf : s.f i with
  | gated hd tl =>
    simp only
    have harm := hi.arm1 i hd tl (by rw [hf]; rfl)
    have dis := inv_disarm hi i (Or.inl ⟨hd, tl, hf⟩)
    cases rh? with
    | none => exact dis
    | some rh =>
      simp only
      by_cases gt : rh.num > hd.num
      · simp only [gt, ↓reduceIte]; exact dis
      · simp only [gt, ↓reduceIte]
        cases hb : byNumber? s.chain (if rh.num < hd.num then rh.num else hd.num) with
        | none => exact dis
        | some lh =>
          simp only
          by_cases he : (rh.hash == lh.hash) = true
          · simp only [he, ↓reduceIte]; exact dis
          · have he' : (rh.hash == lh.hash) = false := by simpa using he
            simp only [he', Bool.false_eq_true, ↓reduceIte]
            rw [harm.1] at hb
            cases hcl : cfg.confirmLatest with
            | true =>
              simp only [↓reduceIte]
              exact inv_toGotLocal hi i hd tl rh lh hf gt hb he' hcl
            | false =>
              simp only [Bool.false_eq_true, ↓reduceIte]
              have hdec := isReverting_decide cfg hd tl (s.start + i) rh lh none harm.2.1 gt hb he'
                (by intro x; rw [hcl] at x; cases x)
              exact inv_toDecided hi i hd tl _ (Or.inl hf) hdec
  | _ => exact hi

theorem inv_confirm {cfg : Cfg} {s : St} (hi : Inv cfg s) (i : Nat) (cb : Option Blk) :
    Inv cfg (step cfg s (.confirm i cb)) := by
  simp only [step]
  cases hf : s.f i with
  | gotLocal hd tl rh lh =>
    simp only
    have harm := hi.arm1 i hd tl (by rw [hf]; rfl)
    have hd1 := hi.dat1 i hd tl rh lh hf
    cases hc : confirmed cb rh with
    | false =>
      simp only [Bool.not_false, ↓reduceIte]
      exact inv_disarm hi i (Or.inr ⟨hd, tl, rh, lh, hf⟩)
    | true =>
      simp only [Bool.not_true, Bool.false_eq_true, ↓reduceIte]
      have hdec := isReverting_decide cfg hd tl (s.start + i) rh lh cb harm.2.1 (by omega) hd1.2.1 hd1.2.2.1
        (fun _ => hc)
      exact inv_toDecided hi i hd tl _ (Or.inr ⟨rh, lh, hf⟩) hdec
  | _ => exact hi


end Juno.C06.Pipe
