import JunoModel.C06.ModelPipe
/-!
C06 — the invariant of the goroutine-level machine `Pipe` (ModelPipe.lean) and its preservation by
every step of every goroutine: while a fetcher is inside a positive `isReverting` (or its revert task
is waiting in the verifiers stream) nothing can change the chain, so the three reads of `isReverting`
and the start of `revertTask` see ONE chain; hence every run of the pipeline is a run of the serial
machine `Impl`.
-/
namespace Juno.C06.Pipe
open Juno.C06

def notDone : FSt → Bool
  | .run | .gated _ _ | .gotLocal _ _ _ _ => true
  | _ => false

/-- the chain a fetcher inside (or after) a positive `isReverting` saw at `Height()` -/
def armedSnap : FSt → Option (Blk × Chain)
  | .gated hd tl | .gotLocal hd tl _ _ | .decided hd tl _ | .queued hd tl _ _ => some (hd, tl)
  | _ => none

def calledBack : FSt → Bool
  | .over | .queued _ _ _ _ => true
  | _ => false

/-- a pending item of the verifiers stream that cannot touch the chain: a fetched block whose
`storeTask` will find the context done -/
def isBlock : Option VItem → Bool
  | some (.block _ _) => true
  | _ => false

def CancelledBlock (s : St) (k : Nat) : Prop :=
  isBlock s.vq[k]? = true ∧ s.cancelled = true

/-- block numbers along the chain are consecutive (a consequence of `Store`'s number check; all that
is needed here of the well-formedness `Linked`) -/
def Consec : Chain → Prop
  | [] => True
  | [_] => True
  | b :: b' :: tl => b.num = b'.num + 1 ∧ Consec (b' :: tl)

structure Inv (cfg : Cfg) (s : St) : Prop where
  mono : Consec s.chain
  ord1 : s.fnext ≤ s.fs.length
  ord2 : ∀ j, j < s.fnext → calledBack (s.f j) = true
  ord3 : ∀ j, s.fnext ≤ j → j < s.fs.length → calledBack (s.f j) = false
  ord4 : s.vq.length ≤ s.fnext
  ord5 : s.vdone ≤ s.vq.length
  nc1 : s.cancelled = false → s.vq.length = s.fnext
  nc2 : s.cancelled = false → ∀ j, s.f j ≠ .retNothing
  nc3 : s.cancelled = false → s.impl.task = none → nextHeight s.chain = s.start + s.vdone
  tk1 : ∀ lpv, s.impl.task = some lpv → nextHeight s.chain < s.start + s.fnext
  tk2 : ∀ lpv, s.impl.task = some lpv → ∀ j, armedSnap (s.f j) = none
  arm1 : ∀ j hd tl, armedSnap (s.f j) = some (hd, tl) →
    s.chain = hd :: tl ∧ hd.num + 1 = s.start + j ∧ s.impl.task = none
  arm2 : ∀ j hd tl d k0, s.f j = .queued hd tl d k0 →
    s.vdone ≤ k0 ∧ s.vq[k0]? = some (.revert j hd tl d) ∧ ∀ k, s.vdone ≤ k → k < k0 → CancelledBlock s k
  arm3 : ∀ j hd tl, armedSnap (s.f j) = some (hd, tl) → calledBack (s.f j) = false →
    (∀ k, s.vdone ≤ k → k < s.vq.length → CancelledBlock s k) ∧ (s.cancelled = false → s.fnext = j)
  qi : ∀ k i hd tl d, s.vdone ≤ k → s.vq[k]? = some (.revert i hd tl d) → s.f i = .queued hd tl d k
  dat1 : ∀ j hd tl rh lh, s.f j = .gotLocal hd tl rh lh →
    rh.num ≤ hd.num ∧ byNumber? (hd :: tl) (if rh.num < hd.num then rh.num else hd.num) = some lh ∧
    (rh.hash == lh.hash) = false ∧ cfg.confirmLatest = true
  dat2 : ∀ j hd tl d, (s.f j = .decided hd tl d ∨ ∃ k, s.f j = .queued hd tl d k) →
    isReverting cfg (hd :: tl) d.next (some d.latest) d.confirm = some d.lpv

theorem f_lt {s : St} {j : Nat} (h : s.f j ≠ .over) : j < s.fs.length := by
  by_cases lt : j < s.fs.length
  · exact lt
  · exfalso; apply h; simp [St.f, List.getD, List.getElem?_eq_none (Nat.le_of_not_lt lt)]

theorem getD_set_f {l : List FSt} {j : Nat} (lt : j < l.length) (x : FSt) (j' : Nat) :
    (l.set j x).getD j' .over = if j' = j then x else l.getD j' .over := by
  simp only [List.getD, List.getElem?_set]
  by_cases e : j = j'
  · subst e; simp [lt]
  · have : ¬ j' = j := fun x => e x.symm
    simp [e, this]

theorem getD_append_f (l : List FSt) (x : FSt) (j' : Nat) :
    (l ++ [x]).getD j' .over = if j' = l.length then x else l.getD j' .over := by
  simp only [List.getD]
  by_cases e : j' = l.length
  · subst e; simp
  · simp only [e, ↓reduceIte]
    by_cases lt : j' < l.length
    · simp [List.getElem?_append_left lt]
    · rw [List.getElem?_eq_none (by simp; omega), List.getElem?_eq_none (by omega)]

theorem getElem?_append_v (l : List VItem) (x : VItem) (k : Nat) :
    (l ++ [x])[k]? = if k = l.length then some x else l[k]? := by
  by_cases e : k = l.length
  · subst e; simp
  · simp only [e, ↓reduceIte]
    by_cases lt : k < l.length
    · simp [List.getElem?_append_left lt]
    · rw [List.getElem?_eq_none (by simp; omega), List.getElem?_eq_none (by omega)]

theorem Inv.init (cfg : Cfg) (c : Chain) (hc : Consec c) : Inv cfg (St.init c) := by
  constructor <;> first | exact hc | simp [St.init, St.f, St.chain, Impl.init, armedSnap, calledBack, notDone]

theorem inv_spawn {cfg : Cfg} {s : St} (hi : Inv cfg s) : Inv cfg (step cfg s .spawn) := by
  obtain ⟨mo, o1, o2, o3, o4, o5, n1, n2, n3, t1, t2, a1, a2, a3, q, d1, d2⟩ := hi
  simp only [St.f, St.chain, CancelledBlock] at *
  constructor <;> simp only [step, St.f, St.chain, CancelledBlock, getD_append_f, List.length_append, List.length_singleton] <;>
    grind [notDone, armedSnap, calledBack]


macro "pipe_tac " k:term : tactic =>
  `(tactic| (constructor <;> simp only [setF, St.f, St.chain, CancelledBlock, $k:term, getElem?_append_v,
      List.length_append, List.length_singleton, List.length_set] <;> grind [notDone, armedSnap, calledBack, isBlock]))

theorem inv_fetchOk {cfg : Cfg} {s : St} (hi : Inv cfg s) (i : Nat) (b : Blk) :
    Inv cfg (step cfg s (.fetchOk i b)) := by
  simp only [step]
  cases hf : s.f i with
  | run =>
    simp only
    have key := getD_set_f (f_lt (by rw [hf]; simp : s.f i ≠ .over))
    obtain ⟨mo, o1, o2, o3, o4, o5, n1, n2, n3, t1, t2, a1, a2, a3, q, d1, d2⟩ := hi
    simp only [St.f, St.chain, CancelledBlock] at *
    pipe_tac key
  | _ => exact hi

theorem inv_fetchCancelled {cfg : Cfg} {s : St} (hi : Inv cfg s) (i : Nat) :
    Inv cfg (step cfg s (.fetchCancelled i)) := by
  simp only [step]
  cases hf : s.f i with
  | run =>
    simp only
    by_cases hc : s.cancelled = true
    · simp only [hc, ↓reduceIte]
      have key := getD_set_f (f_lt (by rw [hf]; simp : s.f i ≠ .over))
      obtain ⟨mo, o1, o2, o3, o4, o5, n1, n2, n3, t1, t2, a1, a2, a3, q, d1, d2⟩ := hi
      simp only [St.f, St.chain, CancelledBlock] at *
      pipe_tac key
    · simp only [hc]; exact hi
  | _ => exact hi



theorem inv_fetchErr {cfg : Cfg} {s : St} (hi : Inv cfg s) (i : Nat) :
    Inv cfg (step cfg s (.fetchErr i)) := by
  simp only [step]
  cases hf : s.f i with
  | run =>
    simp only
    cases hc : s.chain with
    | nil => exact hi
    | cons hd tl =>
      simp only
      by_cases g : hd.num + 1 = s.start + i
      · have g' : (hd.num + 1 != s.start + i) = false := by simp [g]
        simp only [g', Bool.false_eq_true, ↓reduceIte]
        have key := getD_set_f (f_lt (by rw [hf]; simp : s.f i ≠ .over))
        have nh : nextHeight s.chain = hd.num + 1 := by rw [hc]; rfl
        obtain ⟨mo, o1, o2, o3, o4, o5, n1, n2, n3, t1, t2, a1, a2, a3, q, d1, d2⟩ := hi
        simp only [St.f, St.chain, CancelledBlock] at *
        have hge : s.fnext ≤ i := by
          by_cases lt : i < s.fnext
          · have := o2 i lt; rw [hf] at this; simp [calledBack] at this
          · omega
        have htask : s.impl.task = none := by
          cases ht : s.impl.task with
          | none => rfl
          | some lpv => have := t1 lpv ht; omega
        have hnc : s.cancelled = false → s.fnext = i ∧ s.vdone = s.vq.length := by
          intro c
          have := n3 c htask
          have := n1 c
          omega
        have hpend : ∀ k, s.vdone ≤ k → k < s.vq.length →
            isBlock s.vq[k]? = true ∧ s.cancelled = true := by
          intro k h1 h2
          cases hcc : s.cancelled with
          | false => have := hnc hcc; omega
          | true =>
            have hk : s.vq[k]? = some s.vq[k] := List.getElem?_eq_getElem h2
            cases hv : s.vq[k] with
            | block req b => exact ⟨by rw [hk, hv]; rfl, rfl⟩
            | revert i' hd' tl' d' =>
              exfalso
              rw [hv] at hk
              have hq := q k i' hd' tl' d' h1 hk
              have ha := a1 i' hd' tl' (by rw [hq]; rfl)
              have : i' = i := by
                have e1 := ha.1
                rw [hc] at e1
                injection e1 with e1 _
                have := ha.2.1
                rw [← e1] at this
                omega
              subst this
              rw [hf] at hq
              cases hq
        pipe_tac key
      · have g' : (hd.num + 1 != s.start + i) = true := by simp [g]
        simp only [g', ↓reduceIte]; exact hi
  | _ => exact hi


/-- the staged `isReverting` of the fetcher goroutine, when all its reads saw `hd :: tl`, is the
function `isReverting` of the serial model -/
theorem isReverting_decide (cfg : Cfg) (hd : Blk) (tl : Chain) (next : Nat) (rh : Hdr) (lh : Blk)
    (cb : Option Blk) (g : hd.num + 1 = next) (le : ¬ rh.num > hd.num)
    (hb : byNumber? (hd :: tl) (if rh.num < hd.num then rh.num else hd.num) = some lh)
    (hne : (rh.hash == lh.hash) = false) (hc : cfg.confirmLatest = true → confirmed cb rh = true) :
    isReverting cfg (hd :: tl) next (some rh) cb = some (decide cfg next rh cb).lpv := by
  unfold isReverting
  have g' : (hd.num + 1 != next) = false := by simp [g]
  simp only [g', Bool.false_eq_true, ↓reduceIte, le, hb, hne]
  cases hcl : cfg.confirmLatest with
  | false => simp only [decide, Bool.false_and, Bool.false_eq_true, ↓reduceIte]; split <;> rfl
  | true => simp only [hc hcl, decide, Bool.not_true, Bool.and_false, Bool.false_eq_true, ↓reduceIte]; split <;> rfl

/-- `isReverting` says "no reorg": the fetcher is back in its loop -/
theorem inv_disarm {cfg : Cfg} {s : St} (hi : Inv cfg s) (i : Nat)
    (hf : (∃ hd tl, s.f i = .gated hd tl) ∨ ∃ hd tl rh lh, s.f i = .gotLocal hd tl rh lh) :
    Inv cfg (setF s i .run) := by
  have ne : s.f i ≠ .over := by
    rcases hf with ⟨hd, tl, h⟩ | ⟨hd, tl, rh, lh, h⟩ <;> rw [h] <;> simp
  have key := getD_set_f (f_lt ne)
  obtain ⟨mo, o1, o2, o3, o4, o5, n1, n2, n3, t1, t2, a1, a2, a3, q, d1, d2⟩ := hi
  simp only [St.f, St.chain, CancelledBlock] at *
  pipe_tac key

theorem inv_toGotLocal {cfg : Cfg} {s : St} (hi : Inv cfg s) (i : Nat) (hd : Blk) (tl : Chain)
    (rh : Hdr) (lh : Blk) (hf : s.f i = .gated hd tl) (le : ¬ rh.num > hd.num)
    (hb : byNumber? (hd :: tl) (if rh.num < hd.num then rh.num else hd.num) = some lh)
    (hne : (rh.hash == lh.hash) = false) (hcl : cfg.confirmLatest = true) :
    Inv cfg (setF s i (.gotLocal hd tl rh lh)) := by
  have key := getD_set_f (f_lt (by rw [hf]; simp : s.f i ≠ .over))
  obtain ⟨mo, o1, o2, o3, o4, o5, n1, n2, n3, t1, t2, a1, a2, a3, q, d1, d2⟩ := hi
  simp only [St.f, St.chain, CancelledBlock] at *
  pipe_tac key

theorem inv_toDecided {cfg : Cfg} {s : St} (hi : Inv cfg s) (i : Nat) (hd : Blk) (tl : Chain)
    (d : Dec) (hf : (s.f i = .gated hd tl) ∨ ∃ rh lh, s.f i = .gotLocal hd tl rh lh)
    (hd2 : isReverting cfg (hd :: tl) d.next (some d.latest) d.confirm = some d.lpv) :
    Inv cfg (setF s i (.decided hd tl d)) := by
  have ne : s.f i ≠ .over := by
    rcases hf with h | ⟨rh, lh, h⟩ <;> rw [h] <;> simp
  have key := getD_set_f (f_lt ne)
  obtain ⟨mo, o1, o2, o3, o4, o5, n1, n2, n3, t1, t2, a1, a2, a3, q, d1, d2⟩ := hi
  simp only [St.f, St.chain, CancelledBlock] at *
  pipe_tac key


theorem inv_localRead {cfg : Cfg} {s : St} (hi : Inv cfg s) (i : Nat) (rh? : Option Hdr) :
    Inv cfg (step cfg s (.localRead i rh?)) := by
  simp only [step]
  cases hf : s.f i with
  | gated hd tl =>
    simp only
    have harm := hi.arm1 i hd tl (by rw [hf]; rfl)
    have dis := inv_disarm hi i (Or.inl ⟨hd, tl, hf⟩)
    cases rh? with
    | none => exact dis
    | some rh =>
      simp only
      by_cases gt : rh.num > hd.num
      · simp only [gt, ↓reduceIte]; exact dis
      · simp only [gt, ↓reduceIte]
        cases hb : byNumber? s.chain (if rh.num < hd.num then rh.num else hd.num) with
        | none => exact dis
        | some lh =>
          simp only
          by_cases he : (rh.hash == lh.hash) = true
          · simp only [he, ↓reduceIte]; exact dis
          · have he' : (rh.hash == lh.hash) = false := by simpa using he
            simp only [he', Bool.false_eq_true, ↓reduceIte]
            rw [harm.1] at hb
            cases hcl : cfg.confirmLatest with
            | true =>
              simp only [↓reduceIte]
              exact inv_toGotLocal hi i hd tl rh lh hf gt hb he' hcl
            | false =>
              simp only [Bool.false_eq_true, ↓reduceIte]
              have hdec := isReverting_decide cfg hd tl (s.start + i) rh lh none harm.2.1 gt hb he'
                (by intro x; rw [hcl] at x; cases x)
              exact inv_toDecided hi i hd tl _ (Or.inl hf) hdec
  | _ => exact hi

theorem inv_confirm {cfg : Cfg} {s : St} (hi : Inv cfg s) (i : Nat) (cb : Option Blk) :
    Inv cfg (step cfg s (.confirm i cb)) := by
  simp only [step]
  cases hf : s.f i with
  | gotLocal hd tl rh lh =>
    simp only
    have harm := hi.arm1 i hd tl (by rw [hf]; rfl)
    have hd1 := hi.dat1 i hd tl rh lh hf
    cases hc : confirmed cb rh with
    | false =>
      simp only [Bool.not_false, ↓reduceIte]
      exact inv_disarm hi i (Or.inr ⟨hd, tl, rh, lh, hf⟩)
    | true =>
      simp only [Bool.not_true, Bool.false_eq_true, ↓reduceIte]
      have hdec := isReverting_decide cfg hd tl (s.start + i) rh lh cb harm.2.1 (by omega) hd1.2.1 hd1.2.2.1
        (fun _ => hc)
      exact inv_toDecided hi i hd tl _ (Or.inr ⟨rh, lh, hf⟩) hdec
  | _ => exact hi


theorem inv_fcb_nothing {cfg : Cfg} {s : St} (hi : Inv cfg s) (hf : s.f s.fnext = .retNothing) :
    Inv cfg { setF s s.fnext .over with fnext := s.fnext + 1 } := by
  have key := getD_set_f (f_lt (by rw [hf]; simp : s.f s.fnext ≠ .over))
  have hc : s.cancelled = true := by
    cases h : s.cancelled with
    | true => rfl
    | false => exact absurd hf (hi.nc2 h s.fnext)
  obtain ⟨mo, o1, o2, o3, o4, o5, n1, n2, n3, t1, t2, a1, a2, a3, q, d1, d2⟩ := hi
  simp only [St.f, St.chain, CancelledBlock] at *
  pipe_tac key

theorem inv_fcb_block {cfg : Cfg} {s : St} (hi : Inv cfg s) (b : Blk) (hf : s.f s.fnext = .retBlock b) :
    Inv cfg { setF s s.fnext .over with fnext := s.fnext + 1, vq := s.vq ++ [.block (s.start + s.fnext) b] } := by
  have key := getD_set_f (f_lt (by rw [hf]; simp : s.f s.fnext ≠ .over))
  obtain ⟨mo, o1, o2, o3, o4, o5, n1, n2, n3, t1, t2, a1, a2, a3, q, d1, d2⟩ := hi
  simp only [St.f, St.chain, CancelledBlock] at *
  pipe_tac key

theorem inv_fcb_revert {cfg : Cfg} {s : St} (hi : Inv cfg s) (hd : Blk) (tl : Chain) (d : Dec)
    (hf : s.f s.fnext = .decided hd tl d) :
    Inv cfg { setF s s.fnext (.queued hd tl d s.vq.length) with
      fnext := s.fnext + 1, vq := s.vq ++ [.revert s.fnext hd tl d] } := by
  have key := getD_set_f (f_lt (by rw [hf]; simp : s.f s.fnext ≠ .over))
  have h3 := hi.arm3 s.fnext hd tl (by rw [hf]; rfl) (by rw [hf]; rfl)
  obtain ⟨mo, o1, o2, o3, o4, o5, n1, n2, n3, t1, t2, a1, a2, a3, q, d1, d2⟩ := hi
  simp only [St.f, St.chain, CancelledBlock] at *
  pipe_tac key

theorem inv_fcb {cfg : Cfg} {s : St} (hi : Inv cfg s) : Inv cfg (step cfg s .fcb) := by
  simp only [step]
  cases hf : s.f s.fnext with
  | retNothing => exact inv_fcb_nothing hi hf
  | retBlock b => exact inv_fcb_block hi b hf
  | decided hd tl d => exact inv_fcb_revert hi hd tl d hf
  | _ => exact hi


/-! facts about the serial machine's steps that the goroutine-level invariant needs -/

theorem succession_stored_num {c : Chain} {b : Blk} (h : succession c b = .stored) : b.num = nextHeight c := by
  unfold succession at h
  by_cases e : nextHeight c = b.num
  · exact e.symm
  · simp [e] at h

theorem deliver_cancelled (cfg : Cfg) (m : Impl) (req : Nat) (b : Blk) (ht : m.task = none) :
    (m.step cfg (.deliver req b true)).1.node = m.node ∧ (m.step cfg (.deliver req b true)).1.task = none := by
  simp only [Impl.step, ht]
  cases b.ok <;> simp [ht]

theorem deliver_live (cfg : Cfg) (m : Impl) (req : Nat) (b : Blk) (ht : m.task = none) :
    let r := (m.step cfg (.deliver req b false)).1
    (cancelsAfter m.node.chain b false = true → r.node = m.node ∧ r.task = none) ∧
    (b.ok = true → succession m.node.chain b = .stored → r.node.chain = b :: m.node.chain ∧ r.task = none) ∧
    (b.ok = true → succession m.node.chain b = .parentMismatch → r.node = m.node ∧ r.task = some (mismatchLpv cfg b)) := by
  simp only [Impl.step, ht, cancelsAfter]
  cases hok : b.ok with
  | false => simp [ht]
  | true =>
    cases hs : succession m.node.chain b <;> simp [ht, onStored]

theorem startTask_node (cfg : Cfg) (m : Impl) (d : Dec) :
    (startTask cfg m d).node = m.node ∧ (startTask cfg m d).task = some d.lpv := by
  refine ⟨?_, rfl⟩
  simp only [startTask, Impl.step]
  cases m.task with
  | some _ => rfl
  | none =>
    simp only
    cases d.confirm with
    | none => simp only; split <;> rfl
    | some b =>
      simp only
      cases cfg.confirmLatest <;> simp only [Bool.false_eq_true, ↓reduceIte] <;> split <;> rfl

theorem consec_tail {hd : Blk} {tl : Chain} (h : Consec (hd :: tl)) :
    Consec tl ∧ nextHeight tl ≤ hd.num := by
  cases tl with
  | nil => exact ⟨trivial, by simp [nextHeight]⟩
  | cons b' tl' => exact ⟨h.2, by simp [nextHeight, h.1]⟩

theorem consec_cons {c : Chain} {b : Blk} (h : Consec c) (hn : b.num = nextHeight c) : Consec (b :: c) := by
  cases c with
  | nil => trivial
  | cons hd tl => exact ⟨by simpa [nextHeight] using hn, h⟩

/-- one iteration of `revertTask`: the chain stays or loses its head, the task stays or ends -/
theorem iter_facts (cfg : Cfg) (m : Impl) (ans : Option Blk) (revOk : Bool) (lpv : Nat) (ht : m.task = some lpv) :
    let r := (m.step cfg (.iter ans revOk)).1
    (r.node.chain = m.node.chain ∨ r.node.chain = m.node.chain.tail) ∧ (r.task = none ∨ r.task = some lpv) := by
  simp only [Impl.step, ht]
  cases hc : m.node.chain with
  | nil => simp [hc]
  | cons hd tl =>
    simp only
    by_cases hle : hd.num ≤ lpv
    · cases ans with
      | none =>
        simp only [hle, ↓reduceIte]
        cases revertIter cfg lpv hd none with
        | brk => simp [hc]
        | revert cont => simp only [revertHead, hc]; cases revOk <;> cases cont <;> simp
      | some rb =>
        simp only [hle, ↓reduceIte]
        cases revertIter cfg lpv hd (some rb) with
        | brk => simp [hc]
        | revert cont => simp only [revertHead, hc]; cases revOk <;> cases cont <;> simp
    · simp only [hle, ↓reduceIte]
      cases revertIter cfg lpv hd ans with
      | brk => simp [hc]
      | revert cont => simp only [revertHead, hc]; cases revOk <;> cases cont <;> simp


macro "state_tac" : tactic =>
  `(tactic| (constructor <;> simp only [St.f, St.chain, CancelledBlock] <;> grind [notDone, armedSnap, calledBack, isBlock, nextHeight]))

/-- a fetched block is next in the verifiers stream and the context is live: no fetcher is inside a
positive reorg check, none has a revert task waiting -/
theorem no_armed_when_live {cfg : Cfg} {s : St} (hi : Inv cfg s) (hc : s.cancelled = false)
    (hb : isBlock s.vq[s.vdone]? = true) (hlt : s.vdone < s.vq.length) :
    ∀ j, armedSnap (s.f j) = none := by
  intro j
  cases ha : armedSnap (s.f j) with
  | none => rfl
  | some p =>
    exfalso
    obtain ⟨hd, tl⟩ := p
    cases hcb : calledBack (s.f j) with
    | false =>
      have := ((hi.arm3 j hd tl ha hcb).1 s.vdone (Nat.le_refl _) hlt).2
      rw [hc] at this; cases this
    | true =>
      cases hf : s.f j with
      | queued hd' tl' d k0 =>
        have h2 := hi.arm2 j hd' tl' d k0 hf
        by_cases e : k0 = s.vdone
        · rw [e] at h2; rw [h2.2.1] at hb; simp [isBlock] at hb
        · have := (h2.2.2 s.vdone (Nat.le_refl _) (by omega)).2
          rw [hc] at this; cases this
      | _ => rw [hf] at ha hcb <;> simp [armedSnap, calledBack] at ha hcb

/-- `storeTask` of a fetched block that changes nothing and leaves the context done -/
theorem inv_vcb_noop {cfg : Cfg} {s : St} (hi : Inv cfg s) (m' : Impl) (ob : List Obs) (ev : List Ev)
    (ht : s.impl.task = none) (hn : m'.node = s.impl.node) (ht' : m'.task = none)
    (hb : isBlock s.vq[s.vdone]? = true) (hlt : s.vdone < s.vq.length) :
    Inv cfg { s with impl := m', obs := ob, evs := ev, vdone := s.vdone + 1, cancelled := true } := by
  obtain ⟨mo, o1, o2, o3, o4, o5, n1, n2, n3, t1, t2, a1, a2, a3, q, d1, d2⟩ := hi
  simp only [St.f, St.chain, CancelledBlock] at *
  state_tac


/-- `storeTask` stored the block (`flip` = the mode changed: `resetStreams()`) -/
theorem inv_vcb_stored {cfg : Cfg} {s : St} (hi : Inv cfg s) (m' : Impl) (ob : List Obs) (ev : List Ev)
    (b : Blk) (flip : Bool)
    (ht : s.impl.task = none) (hc : s.cancelled = false) (hna : ∀ j, armedSnap (s.f j) = none)
    (hn : m'.node.chain = b :: s.chain) (hnum : b.num = nextHeight s.chain) (ht' : m'.task = none)
    (hlt : s.vdone < s.vq.length) :
    Inv cfg { s with impl := m', obs := ob, evs := ev, vdone := s.vdone + 1, cancelled := flip } := by
  have hmono := consec_cons hi.mono hnum
  obtain ⟨mo, o1, o2, o3, o4, o5, n1, n2, n3, t1, t2, a1, a2, a3, q, d1, d2⟩ := hi
  simp only [St.f, St.chain, CancelledBlock] at *
  state_tac

/-- `Store` answered `ErrParentDoesNotMatchHead`: `revertTask` starts inside the callback -/
theorem inv_vcb_mismatch {cfg : Cfg} {s : St} (hi : Inv cfg s) (m' : Impl) (ob : List Obs) (ev : List Ev)
    (lpv : Nat)
    (ht : s.impl.task = none) (hc : s.cancelled = false) (hna : ∀ j, armedSnap (s.f j) = none)
    (hn : m'.node = s.impl.node) (ht' : m'.task = some lpv) (hlt : s.vdone < s.vq.length) :
    Inv cfg { s with impl := m', obs := ob, evs := ev, vdone := s.vdone + 1, cancelled := false } := by
  obtain ⟨mo, o1, o2, o3, o4, o5, n1, n2, n3, t1, t2, a1, a2, a3, q, d1, d2⟩ := hi
  simp only [St.f, St.chain, CancelledBlock] at *
  state_tac


/-- the revert task a fetcher submitted is next in the verifiers stream: it starts, on the chain the
fetcher saw -/
theorem inv_vcb_revert {cfg : Cfg} {s : St} (hi : Inv cfg s) (m' : Impl) (ev : List Ev)
    (i : Nat) (hd : Blk) (tl : Chain) (d : Dec) (lpv : Nat)
    (hitem : s.vq[s.vdone]? = some (.revert i hd tl d))
    (hn : m'.node = s.impl.node) (ht' : m'.task = some lpv) :
    Inv cfg { setF s i .over with impl := m', vdone := s.vdone + 1, evs := ev } := by
  have hq := hi.qi s.vdone i hd tl d (Nat.le_refl _) hitem
  have key := getD_set_f (f_lt (by rw [hq]; simp : s.f i ≠ .over))
  have harm := hi.arm1 i hd tl (by rw [hq]; rfl)
  have hlt : i < s.fnext := by
    by_cases lt : i < s.fnext
    · exact lt
    · have := hi.ord3 i (by omega) (f_lt (by rw [hq]; simp : s.f i ≠ .over))
      rw [hq] at this; simp [calledBack] at this
  have huniq : ∀ j hd' tl', armedSnap (s.f j) = some (hd', tl') → j = i := by
    intro j hd' tl' h
    have a := hi.arm1 j hd' tl' h
    have e := a.1
    rw [harm.1] at e
    injection e with e1 _
    have := a.2.1
    have := harm.2.1
    rw [e1] at this
    omega
  have huniq' : ∀ j, j ≠ i → armedSnap (s.f j) = none := by
    intro j hne
    cases h : armedSnap (s.f j) with
    | none => rfl
    | some p => exact absurd (huniq j p.1 p.2 h) hne
  have hnh : nextHeight s.chain = s.start + i := by rw [harm.1]; simp [nextHeight, harm.2.1]
  obtain ⟨mo, o1, o2, o3, o4, o5, n1, n2, n3, t1, t2, a1, a2, a3, q, d1, d2⟩ := hi
  simp only [St.f, St.chain, CancelledBlock] at *
  constructor <;> simp only [setF, St.f, St.chain, CancelledBlock, key] <;>
    grind [notDone, armedSnap, calledBack, isBlock]


theorem inv_vcb {cfg : Cfg} {s : St} (hi : Inv cfg s) (flip : Bool) : Inv cfg (step cfg s (.vcb flip)) := by
  simp only [step]
  cases ht : s.impl.task with
  | some _ => exact hi
  | none =>
    simp only
    cases hv : s.vq[s.vdone]? with
    | none => exact hi
    | some item =>
      have hlt : s.vdone < s.vq.length := by
        by_cases lt : s.vdone < s.vq.length
        · exact lt
        · rw [List.getElem?_eq_none (by omega)] at hv; cases hv
      cases item with
      | revert i hd tl d =>
        simp only
        have := startTask_node cfg s.impl d
        exact inv_vcb_revert hi _ _ i hd tl d d.lpv hv this.1 this.2
      | block req b =>
        simp only
        have hb : isBlock s.vq[s.vdone]? = true := by rw [hv]; rfl
        cases hc : s.cancelled with
        | true =>
          have := deliver_cancelled cfg s.impl req b ht
          simp only [Bool.true_or]
          exact inv_vcb_noop hi _ _ _ ht this.1 this.2 hb hlt
        | false =>
          simp only [Bool.false_or]
          have hl := deliver_live cfg s.impl req b ht
          have hna := no_armed_when_live hi hc hb hlt
          cases hok : b.ok with
          | false =>
            have hca : cancelsAfter s.impl.node.chain b false = true := by simp [cancelsAfter, hok]
            have hcf : cancelsAfter s.chain b flip = true := by simp [cancelsAfter, hok]
            rw [hcf]
            have := hl.1 hca
            exact inv_vcb_noop hi _ _ _ ht this.1 this.2 hb hlt
          | true =>
            cases hs : succession s.impl.node.chain b with
            | stored =>
              have hcf : cancelsAfter s.chain b flip = flip := by simp [cancelsAfter, hok, St.chain, hs]
              rw [hcf]
              have := hl.2.1 hok hs
              exact inv_vcb_stored hi _ _ _ b flip ht hc hna this.1 (succession_stored_num hs) this.2 hlt
            | badNumber =>
              have hca : cancelsAfter s.impl.node.chain b false = true := by simp [cancelsAfter, hs]
              have hcf : cancelsAfter s.chain b flip = true := by simp [cancelsAfter, St.chain, hs]
              rw [hcf]
              have := hl.1 hca
              exact inv_vcb_noop hi _ _ _ ht this.1 this.2 hb hlt
            | rootMismatch =>
              have hca : cancelsAfter s.impl.node.chain b false = true := by simp [cancelsAfter, hs]
              have hcf : cancelsAfter s.chain b flip = true := by simp [cancelsAfter, St.chain, hs]
              rw [hcf]
              have := hl.1 hca
              exact inv_vcb_noop hi _ _ _ ht this.1 this.2 hb hlt
            | parentMismatch =>
              have hcf : cancelsAfter s.chain b flip = false := by simp [cancelsAfter, hok, St.chain, hs]
              rw [hcf]
              have := hl.2.2 hok hs
              exact inv_vcb_mismatch hi _ _ _ _ ht hc hna this.1 this.2 hlt

/-- one iteration of the `revertTask` running inside the verifiers' callback goroutine -/
theorem inv_iter {cfg : Cfg} {s : St} (hi : Inv cfg s) (ans : Option Blk) (revOk : Bool) :
    Inv cfg (step cfg s (.iter ans revOk)) := by
  simp only [step]
  cases ht : s.impl.task with
  | none => exact hi
  | some lpv =>
    simp only
    have hf := iter_facts cfg s.impl ans revOk lpv ht
    generalize (s.impl.step cfg (.iter ans revOk)) = r at hf
    have hmono : Consec r.1.node.chain ∧ nextHeight r.1.node.chain ≤ nextHeight s.chain := by
      rcases hf.1 with h | h
      · rw [h]; exact ⟨hi.mono, Nat.le_refl _⟩
      · rw [h]
        cases hc : s.impl.node.chain with
        | nil => simp [St.chain, hc, Consec]
        | cons hd tl =>
          have := consec_tail (by have := hi.mono; rw [St.chain, hc] at this; exact this : Consec (hd :: tl))
          simp only [List.tail_cons, St.chain, hc]
          exact ⟨this.1, Nat.le_succ_of_le this.2⟩
    have hna := hi.tk2 lpv ht
    have htk := hi.tk1 lpv ht
    obtain ⟨mo, o1, o2, o3, o4, o5, n1, n2, n3, t1, t2, a1, a2, a3, q, d1, d2⟩ := hi
    simp only [St.f, St.chain, CancelledBlock] at *
    rcases hf.2 with h | h
    · simp only [h, Option.isNone_none, Bool.or_true]
      state_tac
    · simp only [h, Option.isNone_some, Bool.or_false]
      state_tac

theorem inv_newGen {cfg : Cfg} {s : St} (hi : Inv cfg s) : Inv cfg (step cfg s .newGen) := by
  simp only [step]
  split
  · rename_i h
    simp only [Bool.and_eq_true, beq_iff_eq, Option.isNone_iff_eq_none] at h
    obtain ⟨mo, o1, o2, o3, o4, o5, n1, n2, n3, t1, t2, a1, a2, a3, q, d1, d2⟩ := hi
    constructor <;> simp_all [St.f, St.chain, CancelledBlock, armedSnap, calledBack, notDone]
  · exact hi


theorem Inv.step {cfg : Cfg} {s : St} (hi : Inv cfg s) (a : Act) : Inv cfg (step cfg s a) := by
  cases a with
  | spawn => exact inv_spawn hi
  | fetchOk i b => exact inv_fetchOk hi i b
  | fetchCancelled i => exact inv_fetchCancelled hi i
  | fetchErr i => exact inv_fetchErr hi i
  | localRead i rh => exact inv_localRead hi i rh
  | confirm i cb => exact inv_confirm hi i cb
  | fcb => exact inv_fcb hi
  | vcb flip => exact inv_vcb hi flip
  | iter ans revOk => exact inv_iter hi ans revOk
  | newGen => exact inv_newGen hi

theorem Inv.run {cfg : Cfg} {s : St} (hi : Inv cfg s) (acts : List Act) : Inv cfg (run cfg s acts) := by
  induction acts generalizing s with
  | nil => exact hi
  | cons a as ih => exact ih (hi.step a)

/-- THE REVERT TASK A FETCHER SUBMITTED STARTS AS THE SERIAL MACHINE WOULD START IT: the lpv the
fetcher goroutine computed from its own (earlier, separate) reads is what `isReverting` yields on the
chain at the moment the task starts. -/
theorem startTask_eq_step (cfg : Cfg) (m : Impl) (d : Dec) (ht : m.task = none)
    (hd : isReverting cfg m.node.chain d.next (some d.latest) d.confirm = some d.lpv) :
    m.step cfg (.reorgDetected d.next (some d.latest) d.confirm) = (startTask cfg m d, []) := by
  simp only [startTask, Impl.step, ht]
  cases hc : d.confirm with
  | none => simp only [hc] at hd; simp [hd]
  | some b =>
    simp only [hc] at hd
    cases hcl : cfg.confirmLatest <;> simp [hd]

/-- one step of one goroutine performs no event of the serial machine, or exactly one -/
def StepRefines (cfg : Cfg) (s s' : St) : Prop :=
  (s'.impl = s.impl ∧ s'.evs = s.evs ∧ s'.obs = s.obs) ∨
  ∃ e, s'.evs = s.evs ++ [e] ∧ s'.impl = (s.impl.step cfg e).1 ∧ s'.obs = s.obs ++ (s.impl.step cfg e).2

theorem step_refines {cfg : Cfg} {s : St} (hi : Inv cfg s) (a : Act) : StepRefines cfg s (step cfg s a) := by
  cases a with
  | spawn => exact Or.inl ⟨rfl, rfl, rfl⟩
  | fetchOk i b => simp only [step]; split <;> exact Or.inl ⟨rfl, rfl, rfl⟩
  | fetchCancelled i => simp only [step]; split <;> (try split) <;> exact Or.inl ⟨rfl, rfl, rfl⟩
  | fetchErr i =>
    simp only [step]; split
    · split
      · exact Or.inl ⟨rfl, rfl, rfl⟩
      · split <;> exact Or.inl ⟨rfl, rfl, rfl⟩
    · exact Or.inl ⟨rfl, rfl, rfl⟩
  | localRead i rh =>
    simp only [step]; split
    · split
      · exact Or.inl ⟨rfl, rfl, rfl⟩
      · split
        · exact Or.inl ⟨rfl, rfl, rfl⟩
        · split
          · exact Or.inl ⟨rfl, rfl, rfl⟩
          · split
            · exact Or.inl ⟨rfl, rfl, rfl⟩
            · split <;> exact Or.inl ⟨rfl, rfl, rfl⟩
    · exact Or.inl ⟨rfl, rfl, rfl⟩
  | confirm i cb =>
    simp only [step]; split
    · split <;> exact Or.inl ⟨rfl, rfl, rfl⟩
    · exact Or.inl ⟨rfl, rfl, rfl⟩
  | fcb => simp only [step]; split <;> exact Or.inl ⟨rfl, rfl, rfl⟩
  | newGen => simp only [step]; split <;> exact Or.inl ⟨rfl, rfl, rfl⟩
  | iter ans revOk =>
    simp only [step]
    cases ht : s.impl.task with
    | none => exact Or.inl ⟨rfl, rfl, rfl⟩
    | some lpv => exact Or.inr ⟨.iter ans revOk, rfl, rfl, rfl⟩
  | vcb flip =>
    simp only [step]
    cases ht : s.impl.task with
    | some _ => exact Or.inl ⟨rfl, rfl, rfl⟩
    | none =>
      simp only
      cases hv : s.vq[s.vdone]? with
      | none => exact Or.inl ⟨rfl, rfl, rfl⟩
      | some item =>
        cases item with
        | block req b => exact Or.inr ⟨.deliver req b s.cancelled, rfl, rfl, rfl⟩
        | revert i hd tl d =>
          simp only
          have hq := hi.qi s.vdone i hd tl d (Nat.le_refl _) hv
          have harm := hi.arm1 i hd tl (by rw [hq]; rfl)
          have hd2 := hi.dat2 i hd tl d (Or.inr ⟨_, hq⟩)
          have hs := startTask_eq_step cfg s.impl d ht (by rw [show s.impl.node.chain = s.chain from rfl, harm.1]; exact hd2)
          refine Or.inr ⟨.reorgDetected d.next (some d.latest) d.confirm, rfl, ?_, ?_⟩
          · rw [hs]
          · rw [hs]; simp [setF]

theorem impl_run_cons (cfg : Cfg) (i : Impl) (e : Ev) (es : List Ev) :
    Impl.run cfg i (e :: es) =
      ((Impl.run cfg (i.step cfg e).1 es).1, (i.step cfg e).2 ++ (Impl.run cfg (i.step cfg e).1 es).2) := rfl

/-- EVERY RUN OF THE GOROUTINES IS A RUN OF THE SERIAL MACHINE: whatever the schedule and the source,
the events logged (`evs`) replayed through `Impl.run` from the state at the start give exactly the
node, the running task and the observations of the pipeline. -/
theorem run_refines {cfg : Cfg} {s : St} (hi : Inv cfg s) (acts : List Act) :
    ∃ es, (run cfg s acts).evs = s.evs ++ es ∧
      (Impl.run cfg s.impl es).1 = (run cfg s acts).impl ∧
      (run cfg s acts).obs = s.obs ++ (Impl.run cfg s.impl es).2 := by
  induction acts generalizing s with
  | nil => exact ⟨[], by simp [run], rfl, by simp [run, Impl.run]⟩
  | cons a as ih =>
    obtain ⟨es, e1, e2, e3⟩ := ih (hi.step a)
    rcases step_refines hi a with ⟨h1, h2, h3⟩ | ⟨e, h1, h2, h3⟩
    · refine ⟨es, ?_, ?_, ?_⟩
      · simp only [run]; rw [e1, h2]
      · simp only [run]; rw [← e2, h1]
      · simp only [run]; rw [e3, h3, h1]
    · refine ⟨e :: es, ?_, ?_, ?_⟩
      · simp only [run]; rw [e1, h1]; simp
      · simp only [run, impl_run_cons]; rw [← e2, h2]
      · simp only [run, impl_run_cons]; rw [e3, h3, h2]; simp


end Juno.C06.Pipe
