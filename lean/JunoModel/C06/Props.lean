import JunoModel.C06.Model
/-! C06 property theorems (thin first version; extended below). -/
namespace Juno.C06.Props
open Juno.C06

/-- `block.Number-2` for block 1 wraps to 2^64-1. -/
theorem sub64_one_two : sub64 1 2 = U64 - 1 := by decide

end Juno.C06.Props
