import JunoModel.C06.ProofsRun
import JunoModel.C06.ProofsStore
import JunoModel.C06.ProofsStatus
import JunoModel.C06.ProofsClasses
import JunoModel.C06.ProofsRound
import JunoModel.C06.ProofsStale
import JunoModel.C06.ProofsFeedConc
import JunoModel.C06.ProofsPipe
import JunoModel.C06.ProofsPlugin
/-!
C06 — property theorems (obligations). Lemmas, statements for arbitrary code variants and facts
that merely restate the model are in `Proofs*.lean`; here every theorem is either about the code
/repo contains NOW (`Cfg.asFound`), or holds for every variant, or is a negation witness
(`*_before_<commit>` = regression witness for a defect that is fixed in /repo; all five defects found
by this check are fixed, so no `_partial`/negation pair is left).

Model (`Model.lean`): the SERIAL part of juno's sync pipeline as a transition system `Impl.step`
(every mutation of the chain happens in the callback chain of the `verifiers` stream, one at a
time); what the source answered, in which order things arrive, whether the stream was cancelled, a
restart, are inputs of the events, so "for all event lists" is "for all source behaviours and all
schedules" of the part that touches the chain. `Spec.step m` is the relation between commits /
notifications and the source's answers that the harness checks on observed traces of the real
`Synchronizer`; `m : Mode` says which answers may decide a revert (`lenient`, `fresh`, `verified`;
the code in /repo is held to `verified`).
The harness also replays every observed run through `Impl.step` itself (driver op `impl`).

Assumptions (checks/c06.json): block numbers are uint64 values; `RevertHead` succeeds on a stored
head; block hashes are collision free (`HashInj`) where chains are compared.
-/
namespace Juno.C06.Props
open Juno.C06

/-! ## every block the node stores passed verification and extended the head -/

/-- For EVERY state and EVERY event (no hypothesis): a step that stores a block got that block from
the source (`deliver`), `SanityCheckNewHeight` accepted it (`b.ok`), the stream had not been
cancelled, its number is head+1 (0 on an empty chain) and its parent hash is the head's hash
(`felt.Zero` on an empty chain), the state root it CLAIMS is the root of the state that results from
applying its diff to the node's state (`stateRoot`: a function of the stored diffs, not of any
header), and afterwards it is the head. -/
theorem stored_verified_and_extends (cfg : Cfg) (s : Impl) (e : Ev) (n h : Nat)
    (hs : Obs.stored n h ∈ (s.step cfg e).2) :
    ∃ req b, e = .deliver req b false ∧ b.ok = true ∧ b.num = n ∧ b.hash = h ∧
      b.num = nextHeight s.node.chain ∧ b.parent = expParent s.node.chain ∧
      b.root = rootStep (stateRoot s.node.chain) b.diff ∧
      (s.step cfg e).1.node.chain = b :: s.node.chain := by
  cases e with
  | deliver req b c =>
    cases ht : s.task with
    | some _ => simp [Impl.step, ht] at hs
    | none =>
      by_cases hok : b.ok = true
      case neg => simp [Impl.step, ht, hok] at hs
      case pos =>
      cases c with
      | true => simp [Impl.step, ht, hok] at hs
      | false =>
        cases hsucc : succession s.node.chain b with
        | badNumber => simp [Impl.step, ht, hok, hsucc] at hs
        | rootMismatch => simp [Impl.step, ht, hok, hsucc] at hs
        | parentMismatch => simp [Impl.step, ht, hok, hsucc] at hs
        | stored =>
          obtain ⟨h1, h2⟩ := succession_stored hsucc
          have hs' : Obs.stored n h ∈ (onStored s.node b).2 := by
            simpa [Impl.step, ht, hok, hsucc] using hs
          have : b.num = n ∧ b.hash = h := by
            unfold onStored at hs'
            simp only [List.mem_append, List.mem_cons, List.mem_nil_iff, or_false] at hs'
            rcases hs' with (e | e) | e
            · cases e; exact ⟨rfl, rfl⟩
            · cases hr : s.node.reorg <;> simp [reorgObs, hr] at e
            · cases e
          exact ⟨req, b, rfl, hok, this.1, this.2, h1, h2, succession_stored_root hsucc, by simp [Impl.step, ht, hok, hsucc, onStored]⟩
  | reorgDetected next latest confirm =>
    rw [(step_reorgDetected cfg s next latest confirm).1] at hs; cases hs
  | iter ans revOk =>
    cases ht : s.task with
    | none => simp [Impl.step, ht] at hs
    | some lpv =>
      cases hch : s.node.chain with
      | nil => simp [Impl.step, ht, hch] at hs
      | cons H T =>
        cases hit : revertIter cfg lpv H ans with
        | brk => simp [Impl.step, ht, hch, hit] at hs
        | revert cont => cases revOk <;> simp [Impl.step, ht, hch, hit, revertHead] at hs
  | restart => cases ht : s.task <;> simp [Impl.step, ht] at hs

/-- … it is `Store` (`verifyBlockSuccession`) that enforces "number = head + 1" (0 on an empty
chain): a block with any other number changes nothing, whatever height it was fetched for and
however valid it is. -/
theorem wrong_number_never_stored (cfg : Cfg) (s : Impl) (r : Nat) (b : Blk) (c : Bool)
    (hn : b.num ≠ nextHeight s.node.chain) :
    (s.step cfg (.deliver r b c)).1.node = s.node ∧ (s.step cfg (.deliver r b c)).2 = [] ∧
    (s.step cfg (.deliver r b c)).1.task = s.task := by
  have hbad : ∀ (x : StoreRes), succession s.node.chain b = x → x = .badNumber := by
    intro x hx
    rw [succession_def] at hx
    have : (nextHeight s.node.chain != b.num) = true := by simpa using fun e => hn e.symm
    simp [this] at hx; exact hx.symm
  cases ht : s.task with
  | some _ => simp [Impl.step, ht]
  | none =>
    by_cases hok : b.ok = true
    case neg => simp [Impl.step, ht, hok]
    case pos =>
    cases c with
    | true => simp [Impl.step, ht, hok]
    | false =>
      have := hbad _ rfl
      simp [Impl.step, ht, hok, this]

/-- On an empty chain only a block numbered 0 whose parent hash is `felt.Zero` can be stored (no
"genesis shortcut" for other blocks). -/
theorem genesis_must_be_block_zero (cfg : Cfg) (s : Impl) (e : Ev) (n h : Nat)
    (hempty : s.node.chain = []) (hs : Obs.stored n h ∈ (s.step cfg e).2) :
    n = 0 ∧ ∃ req b, e = .deliver req b false ∧ b.num = 0 ∧ b.parent = 0 ∧ b.ok = true := by
  obtain ⟨req, b, he, hok, hnum, _, hnext, hpar, _, _⟩ := stored_verified_and_extends cfg s e n h hs
  rw [hempty] at hnext hpar
  exact ⟨by rw [← hnum]; exact hnext, req, b, he, hnext, hpar, hok⟩

/-! ## the head only moves backwards by explicit reverts -/

/-- For EVERY state and EVERY event: the chain is unchanged, or grew by one stored block, or lost
exactly its head in an explicit revert (`RevertHead`, reported as `reverted`), which only a running
`revertTask` does. -/
theorem head_moves_back_only_by_revert (cfg : Cfg) (s : Impl) (e : Ev) :
    (s.step cfg e).1.node.chain = s.node.chain ∨
    (∃ b, (s.step cfg e).1.node.chain = b :: s.node.chain ∧ Obs.stored b.num b.hash ∈ (s.step cfg e).2) ∨
    (∃ hd lpv, s.node.chain = hd :: (s.step cfg e).1.node.chain ∧ s.task = some lpv ∧
      (s.step cfg e).2 = [Obs.reverted hd.num hd.hash]) := by
  cases e with
  | deliver req b c =>
    cases ht : s.task with
    | some _ => left; simp [Impl.step, ht]
    | none =>
      by_cases hok : b.ok = true
      case neg => left; simp [Impl.step, ht, hok]
      case pos =>
      cases c with
      | true => left; simp [Impl.step, ht, hok]
      | false =>
        cases hsucc : succession s.node.chain b with
        | badNumber => left; simp [Impl.step, ht, hok, hsucc]
        | rootMismatch => left; simp [Impl.step, ht, hok, hsucc]
        | parentMismatch => left; simp [Impl.step, ht, hok, hsucc]
        | stored => right; left; exact ⟨b, by simp [Impl.step, ht, hok, hsucc, onStored]⟩
  | reorgDetected next latest confirm =>
    left; rw [(step_reorgDetected cfg s next latest confirm).2]
  | iter ans revOk =>
    cases ht : s.task with
    | none => left; simp [Impl.step, ht]
    | some lpv =>
      cases hch : s.node.chain with
      | nil => left; simp [Impl.step, ht, hch]
      | cons H T =>
        cases hit : revertIter cfg lpv H ans with
        | brk =>
          left
          by_cases hle : H.num ≤ lpv
          · cases ans <;> simp [Impl.step, ht, hch, hit, hle]
          · simp [Impl.step, ht, hch, hit, hle]
        | revert cont =>
          cases revOk with
          | false =>
            left
            by_cases hle : H.num ≤ lpv
            · cases ans <;> simp [Impl.step, ht, hch, hit, hle, revertHead]
            · simp [Impl.step, ht, hch, hit, hle, revertHead]
          | true =>
            right; right
            refine ⟨H, lpv, ?_, rfl, ?_⟩
            · by_cases hle : H.num ≤ lpv
              · cases ans <;> simp [Impl.step, ht, hch, hit, hle, revertHead]
              · simp [Impl.step, ht, hch, hit, hle, revertHead]
            · simp [Impl.step, ht, hch, hit, revertHead]
  | restart => left; cases ht : s.task <;> simp [Impl.step, ht]


/-! ## the claimed state root is checked against the real state when a block is stored -/

/-- A block whose claimed state root is NOT the root of the state its diff produces on the node's
state changes nothing — however self-consistent it is (`ok`: hash recomputed over the forged header,
matching state update), whatever its number and parent, for EVERY state. In the code the only thing
standing between such a block and the database is the new-root verification inside `Store`
(`state.Update`); `SanityCheckNewHeight` cannot see it. -/
theorem wrong_state_root_never_stored (cfg : Cfg) (s : Impl) (r : Nat) (b : Blk) (c : Bool)
    (hr : b.root ≠ rootStep (stateRoot s.node.chain) b.diff) :
    (s.step cfg (.deliver r b c)).1.node = s.node ∧ (s.step cfg (.deliver r b c)).2 = [] := by
  cases ht : s.task with
  | some _ => simp [Impl.step, ht]
  | none =>
    by_cases hok : b.ok = true
    case neg => simp [Impl.step, ht, hok]
    case pos =>
    cases c with
    | true => simp [Impl.step, ht, hok]
    | false =>
      cases hsucc : succession s.node.chain b with
      | stored => exact absurd hsucc (succession_wrong_root hr)
      | badNumber => simp [Impl.step, ht, hok, hsucc]
      | rootMismatch => simp [Impl.step, ht, hok, hsucc]
      | parentMismatch => simp [Impl.step, ht, hok, hsucc]

/-- INVARIANT of every step, for every event: if every block of the chain claims the root of the
state its history produces (`RootsOK`), the same holds afterwards. -/
theorem claimed_roots_stay_true (cfg : Cfg) (s : Impl) (e : Ev) (h : RootsOK s.node.chain) :
    RootsOK (s.step cfg e).1.node.chain := by
  rcases head_moves_back_only_by_revert cfg s e with hc | ⟨b, hc, hst⟩ | ⟨hd, lpv, hc, _, _⟩
  · rw [hc]; exact h
  · obtain ⟨_, b', _, _, _, _, _, _, hroot, hc'⟩ := stored_verified_and_extends cfg s e b.num b.hash hst
    rw [hc'] at hc ⊢
    exact ⟨hroot, h⟩
  · rw [hc] at h; exact h.tail

/-- … hence along EVERY run (any events, any answers, any cancellations, failed reverts, restarts)
from a chain with true root claims — in particular from the empty database — the state root the
stored head claims is the root of the state the node actually holds. -/
theorem head_root_is_state_root (cfg : Cfg) (es : List Ev) (s : Impl) (h : RootsOK s.node.chain) :
    RootsOK (Impl.run cfg s es).1.node.chain ∧
    ∀ hd tl, (Impl.run cfg s es).1.node.chain = hd :: tl → hd.root = stateRoot (hd :: tl) := by
  have key : ∀ (es : List Ev) (s : Impl), RootsOK s.node.chain → RootsOK (Impl.run cfg s es).1.node.chain := by
    intro es
    induction es with
    | nil => intro s h; exact h
    | cons e es ih =>
      intro s h
      rw [Impl.run_cons]
      exact ih _ (claimed_roots_stay_true cfg s e h)
  refine ⟨key es s h, ?_⟩
  intro hd tl hc
  have := key es s h
  rw [hc] at this
  exact this.head_root

/-- The same for the ACCEPTOR the harness runs on observed traces: it only accepts `stored` for a
served block whose claimed root is the root of the resulting state, so the chain it tracks keeps
true root claims. -/
theorem accepted_trace_keeps_claimed_roots_true (m : Mode) (s s' : Spec) (e : SEv)
    (h : RootsOK s.chain) (hst : Spec.step m s e = .ok s') : RootsOK s'.chain := by
  cases e with
  | served req b => simp only [Spec.step] at hst; cases hst; exact h
  | latest l => simp only [Spec.step] at hst; cases hst; exact h
  | restart =>
    simp only [Spec.step] at hst
    split at hst
    · cases hst; exact h
    · cases hst
  | obs o =>
    cases o with
    | stored n hh =>
      obtain ⟨_, b, _, _, _, _, hsucc, hc, _⟩ := Spec.stored_inv hst
      rw [hc]; exact h.cons_of_succession hsucc
    | reverted n hh =>
      obtain ⟨hd, tl, hc, _, _, _, hs'⟩ := Spec.reverted_inv hst
      rw [hs']; rw [hc] at h; exact h.tail
    | revertFailed n hh => simp only [Spec.step] at hst; cases hst; exact h
    | newHead n hh =>
      simp only [Spec.step] at hst
      split at hst
      · cases hst
      · split at hst
        · cases hst; exact h
        · cases hst
    | reorg r =>
      simp only [Spec.step] at hst
      split at hst
      · cases hst
      · split at hst
        · cases hst; exact h
        · cases hst

-- non-vacuity: a self-consistent forged successor (right number and parent, `ok`, EMPTY diff, another
-- root) is refused; the honest block is stored; forged and honest differ in nothing `ok` can see
example :
    let g : Blk := ⟨0, 1, 0, true, 5, rootStep 0 5⟩
    let forged : Blk := ⟨1, 77, 1, true, 0, 4242⟩
    let honest : Blk := ⟨1, 2, 1, true, 0, rootStep 0 5⟩
    succession [g] forged = .rootMismatch ∧ succession [g] honest = .stored ∧
    ((Impl.init [g]).step Cfg.asFound (.deliver 1 forged false)).2 = [] ∧
    ((Impl.init [g]).step Cfg.asFound (.deliver 1 honest false)).2 = [Obs.stored 1 2, Obs.newHead 1 2] ∧
    rejectOf (Spec.run .verified (Spec.init [g]) [.served 1 forged, .obs (.stored 1 77)]) = some .storedRootWrong := by
  refine ⟨by decide, by decide, by decide, by decide, by decide⟩

/-! ## what a revert may be decided on -/

/-- THE CODE AS IT IS NOW, full run level. Every run from a well-formed chain — whatever the source
answers (lies included), in whatever order, with restarts — is accepted by `Spec` in mode `verified`:
* every stored block was served, verified and extends the head;
* every revert removes the head and is decided by a VERIFIED block that the source served, for its
  own height `r ≤ head`, SINCE THE LAST STORED BLOCK (hence after the reverted block was stored), and
  that differs from the node's block `r`;
* the notifications are exactly the owed ones, in order, nothing is owed at the end or at a restart;
* the chain stays well formed.
Environment: uint64 block numbers, `RevertHead` succeeds (`EnvOK`). Nothing is assumed about the
source. (The `rfl`s tie the statement to the switch `Cfg.asFound`: they fail if a field goes back.) -/
theorem run_accepted_asFound (c : Chain) (es : List Ev) (hl : Linked c)
    (hb : ∀ x ∈ c, x.num < U64) (he : EnvOK es) :
    ∃ sp, Spec.run .verified (Spec.init c) ((Impl.init c).trace Cfg.asFound es) = .ok sp ∧
      sp.chain = (Impl.run Cfg.asFound (Impl.init c) es).1.node.chain ∧ sp.owed = [] ∧
      Linked sp.chain ∧ ∀ x ∈ sp.chain, x.num < U64 :=
  run_accepted_general Cfg.asFound .verified ⟨fun _ => rfl, fun _ => ⟨rfl, rfl⟩⟩ c es hl hb
    (EnvOK.runOK rfl es _ he)

/-- "… of blocks the source no longer has", per decision, for a source that reorgs and lies at will:
the deciding answer of a `verified`-mode revert is ONE verified block `rb`, served for its own height
after the reverted head was stored, and the head is absent from EVERY well-formed chain that
contains `rb` — in particular from the source's chain at the moment it served `rb`. No hypothesis
about any other answer, about the source being honest at other times, or about it keeping one chain. -/
theorem verified_revert_absent_from_the_answering_chain (ev : Evidence) (hd : Blk) (tl : Chain)
    (hj : justified .verified ev (hd :: tl) hd = true) :
    ∃ rb ∈ ev.rblocks, rb.2.ok = true ∧ rb.1 = rb.2.num ∧ rb.2.num ≤ hd.num ∧
      ∀ (u : List Blk) (src : Chain), HashInj u → Linked (hd :: tl) → Linked src →
        (∀ x ∈ hd :: tl, x ∈ u) → (∀ x ∈ src, x ∈ u) → rb.2 ∈ src → hd ∉ src :=
  verified_revert_sound hj

/-- The weaker relation the code satisfied before 158580c / 40dc8b7 (mode `fresh`: a bare latest
header or an unverified block could decide): what such a decision was worth. Kept because the
regression witnesses below are stated against it. -/
theorem fresh_revert_absent_from_the_answering_chain (ev : Evidence) (hd : Blk) (tl : Chain)
    (hj : justified .fresh ev (hd :: tl) hd = true) :
    (∃ rb ∈ ev.rblocks, rb.1 = hd.num ∧ rb.2.num = hd.num ∧
        ∀ src : Chain, Linked src → rb.2 ∈ src → hd ∉ src) ∨
    (∃ l ∈ ev.rlatests, l.num ≤ hd.num ∧
        ∀ (u : List Blk) (src : Chain), HashInj u → Linked (hd :: tl) → Linked src →
          (∀ x ∈ hd :: tl, x ∈ u) → (∀ x ∈ src, x ∈ u) →
          (∃ b ∈ src, b.num = l.num ∧ b.hash = l.hash) → hd ∉ src) :=
  fresh_revert_sound hj

/-- code variant of /repo before 158580c and 40dc8b7 (the first three fixes only) -/
def cfgBeforeReviewFixes : Cfg := ⟨true, true, true, false, false⟩

/-- (fixed by 158580c) REGRESSION WITNESS: node and source hold the same chain `[g, x1, x2, x3]`. ONE
`BlockHeaderLatest` answer `(0, 999)` — a hash no chain contains — and the code reverted blocks 3, 2, 1
without asking for any of them. Accepted by `fresh`, rejected by `verified`; the code in /repo asks
for block 0 first, sees that it does not carry the announced hash, and reverts nothing. -/
theorem lying_latest_header_reverts_live_blocks_before_158580c :
    let g : Blk := ⟨0, 1, 0, true, 0, 0⟩
    let x1 : Blk := ⟨1, 2, 1, true, 0, 0⟩
    let x2 : Blk := ⟨2, 3, 2, true, 0, 0⟩
    let x3 : Blk := ⟨3, 4, 3, true, 0, 0⟩
    let es : List Ev := [.reorgDetected 4 (some ⟨0, 999⟩) (some g), .iter none true, .iter none true,
      .iter none true, .iter (some g) true]
    EnvOK es ∧
    (Impl.run cfgBeforeReviewFixes (Impl.init [x3, x2, x1, g]) es).2 =
      [Obs.reverted 3 4, Obs.reverted 2 3, Obs.reverted 1 2] ∧
    rejectOf (Spec.run .fresh (Spec.init [x3, x2, x1, g])
      ((Impl.init [x3, x2, x1, g]).trace cfgBeforeReviewFixes es)) = none ∧
    rejectOf (Spec.run .verified (Spec.init [x3, x2, x1, g])
      ((Impl.init [x3, x2, x1, g]).trace cfgBeforeReviewFixes es)) = some .revertNotJustified ∧
    (Impl.run Cfg.asFound (Impl.init [x3, x2, x1, g]) es).2 = [] := by
  refine ⟨⟨rfl, rfl, rfl, rfl, trivial⟩, by decide, by decide, by decide, by decide⟩

/-- (fixed by 40dc8b7) REGRESSION WITNESS: a revert task is running; for block 0 the source answers
with the genesis whose `Hash` field is altered — an answer `SanityCheckNewHeight` refuses
(`ok = false`). `revertTask` compared the hash without verifying and reverted the genesis: the chain
was empty. Accepted by `fresh`, rejected by `verified`; with `verifyAns` alone the task breaks at
block 0, and the code in /repo (with `confirmLatest` too) never starts it. -/
theorem hash_altered_answer_reverts_live_block_before_40dc8b7 :
    let g : Blk := ⟨0, 1, 0, true, 0, 0⟩
    let x1 : Blk := ⟨1, 2, 1, true, 0, 0⟩
    let bad : Blk := ⟨0, 555, 0, false, 0, 0⟩
    let es : List Ev := [.reorgDetected 2 (some ⟨1, 999⟩) none, .iter none true, .iter (some bad) true]
    EnvOK es ∧
    (Impl.run cfgBeforeReviewFixes (Impl.init [x1, g]) es).2 = [Obs.reverted 1 2, Obs.reverted 0 1] ∧
    (Impl.run cfgBeforeReviewFixes (Impl.init [x1, g]) es).1.node.chain = [] ∧
    rejectOf (Spec.run .fresh (Spec.init [x1, g]) ((Impl.init [x1, g]).trace cfgBeforeReviewFixes es)) = none ∧
    rejectOf (Spec.run .verified (Spec.init [x1, g]) ((Impl.init [x1, g]).trace cfgBeforeReviewFixes es)) =
      some .revertNotJustified ∧
    (Impl.run ⟨true, true, true, true, false⟩ (Impl.init [x1, g]) es).2 = [Obs.reverted 1 2] ∧
    (Impl.run Cfg.asFound (Impl.init [x1, g]) es).2 = [] := by
  refine ⟨⟨rfl, rfl, trivial⟩, by decide, by decide, by decide, by decide, by decide, by decide⟩

/-- REACHABILITY. The well-formedness `run_accepted` asks of the initial chain is an invariant:
every chain the machine produces (numbers 0,1,2,…, each block naming its predecessor's hash,
genesis parent `felt.Zero`, numbers uint64) is well-formed again — in particular every chain
reachable from the EMPTY database, for which the hypotheses hold trivially. -/
theorem chain_stays_linked (cfg : Cfg) (c : Chain) (es : List Ev) (hl : Linked c)
    (hb : ∀ x ∈ c, x.num < U64) (hok : (Impl.init c).runOK cfg es) :
    Linked (Impl.run cfg (Impl.init c) es).1.node.chain ∧
      ∀ x ∈ (Impl.run cfg (Impl.init c) es).1.node.chain, x.num < U64 := by
  obtain ⟨sp, _, hs⟩ := Sim.run cfg (ModeOK.lenient cfg) es (Sim.init hl hb) hok
  exact ⟨hs.linked, hs.bound⟩

theorem reachable_from_empty_linked (cfg : Cfg) (es : List Ev) (hok : (Impl.init []).runOK cfg es) :
    Linked (Impl.run cfg (Impl.init []) es).1.node.chain :=
  (chain_stays_linked cfg [] es trivial (by intro x hx; cases hx) hok).1


/-! ## regression witnesses for the three defects fixed in /repo (about `Cfg.original`) -/

/-- (fixed by 6c0318d) `revertTask` compared only hashes: an answer carrying another block number
made it revert a block no answer contradicted. -/
theorem wrong_number_answer_reverts_unjustified_before_6c0318d :
    let g : Blk := ⟨0, 1, 0, true, 0, 0⟩
    let x1 : Blk := ⟨1, 2, 1, true, 0, 0⟩
    let x2 : Blk := ⟨2, 3, 2, true, 0, 0⟩
    let es : List Ev := [.reorgDetected 2 (some ⟨1, 99⟩) none, .iter none true, .iter (some x2) true]
    (Impl.run Cfg.original (Impl.init [x1, g]) es).2 = [Obs.reverted 1 2, Obs.reverted 0 1] ∧
    rejectOf (Spec.run .lenient (Spec.init [x1, g]) ((Impl.init [x1, g]).trace Cfg.original es)) =
      some .revertNotJustified ∧
    (Impl.run ⟨true, true, true, false, false⟩ (Impl.init [x1, g]) es).2 = [Obs.reverted 1 2] := by
  refine ⟨by decide, by decide, by decide⟩

/-- (fixed by 508f9af) a successor block fetched before a reorg made `storeTask` revert the new
head without asking. -/
theorem stale_answer_reverts_live_block_before_508f9af :
    let g : Blk := ⟨0, 1, 0, true, 0, 0⟩
    let b1 : Blk := ⟨1, 20, 1, true, 0, 0⟩
    let a2 : Blk := ⟨2, 11, 10, true, 0, 0⟩
    let es : List Ev := [.deliver 2 a2 false, .iter (some b1) true]
    (Impl.run Cfg.original (Impl.init [b1, g]) es).2 = [Obs.reverted 1 20] ∧
    rejectOf (Spec.run .lenient (Spec.init [b1, g]) ((Impl.init [b1, g]).trace Cfg.original es)) = none ∧
    rejectOf (Spec.run .fresh (Spec.init [b1, g]) ((Impl.init [b1, g]).trace Cfg.original es)) =
      some .revertNotJustified ∧
    (Impl.run Cfg.asFound (Impl.init [b1, g]) es).2 = [] := by
  exact ⟨by decide, by decide, by decide, by decide⟩

/-- (fixed by 4de714c) finding `no-convergence-when-source-chain-is-a-different-genesis-only`:
source `[g']`, node `[g, x1]`: `isReverting` returns `remoteHeight - 1 = 2^64-1`, `revertTask` asks
for block 1, the source has none, the loop breaks; every round leaves the node unchanged, for ever.
The guard repairs it. -/
theorem no_convergence_remote_height_zero_before_4de714c :
    let g : Blk := ⟨0, 1, 0, true, 0, 0⟩
    let x1 : Blk := ⟨1, 2, 1, true, 0, 0⟩
    let g' : Blk := ⟨0, 50, 0, true, 0, 0⟩
    (∀ k, (runRounds Cfg.original [g'] k ⟨[x1, g], none⟩).1.chain = [x1, g]) ∧
    (runRounds Cfg.asFound [g'] 4 ⟨[x1, g], none⟩).1.chain = [g'] := by
  refine ⟨?_, by decide⟩
  intro k
  induction k with
  | zero => rfl
  | succ k ih =>
    have hr : round Cfg.original [⟨0, 50, 0, true, 0, 0⟩] ⟨[⟨1, 2, 1, true, 0, 0⟩, ⟨0, 1, 0, true, 0, 0⟩], none⟩ =
        (⟨[⟨1, 2, 1, true, 0, 0⟩, ⟨0, 1, 0, true, 0, 0⟩], none⟩, []) := by decide
    have hstep : (runRounds Cfg.original [⟨0, 50, 0, true, 0, 0⟩] (k + 1)
          ⟨[⟨1, 2, 1, true, 0, 0⟩, ⟨0, 1, 0, true, 0, 0⟩], none⟩).1 =
        (runRounds Cfg.original [⟨0, 50, 0, true, 0, 0⟩] k
          (round Cfg.original [⟨0, 50, 0, true, 0, 0⟩] ⟨[⟨1, 2, 1, true, 0, 0⟩, ⟨0, 1, 0, true, 0, 0⟩], none⟩).1).1 := rfl
    rw [hstep, hr]; exact ih

/-! ## notifications are exact -/

/-- In every run (same conditions as `run_accepted`) the feed sends are EXACTLY the ones the
commits demand, in order: per stored block one new-head notification, preceded — iff blocks were
reverted since the previous store — by one reorg notification whose range starts at the last block
reverted and ends at the first one (`expectedNotifs`, `rangeNH`). -/
theorem notifications_exact (cfg : Cfg) (c : Chain) (es : List Ev) (hl : Linked c)
    (hb : ∀ x ∈ c, x.num < U64) (hok : (Impl.init c).runOK cfg es) :
    notifsOf ((Impl.init c).trace cfg es) = expectedNotifs [] ((Impl.init c).trace cfg es) := by
  obtain ⟨sp, hr, _, ho, _⟩ := run_accepted_general cfg .lenient (ModeOK.lenient cfg) c es hl hb hok
  have := Spec.notifs_balance .lenient _ _ _ hr
  simpa [Spec.init, ho] using this.symm

/-- The same for any trace the acceptor accepts with nothing owed before or after (this is what
the harness establishes for each observed run of the real Synchronizer). -/
theorem accepted_notifications_exact (m : Mode) (s s' : Spec) (tr : List SEv)
    (hr : Spec.run m s tr = .ok s')
    (h0 : s.owed = []) (h1 : s'.owed = []) :
    notifsOf tr = expectedNotifs (s.pending.map (fun b => (b.num, b.hash))) tr := by
  have := Spec.notifs_balance m _ _ _ hr
  simpa [h0, h1] using this.symm

/-- (the code in /repo) When `RevertHead` fails the code still extends `currReorg`: the next reorg
notification then covers a block that was not reverted (witness; this is why `EnvOK` asks for
`revOk`; reproduced on the real code by injected database failures and replayed exactly). -/
theorem failed_revert_makes_reorg_range_wrong :
    let g : Blk := ⟨0, 1, 0, true, 0, 0⟩
    let x1 : Blk := ⟨1, 2, 1, true, 0, 0⟩
    let z2 : Blk := ⟨2, 40, 99, true, 0, 0⟩
    let y2 : Blk := ⟨2, 30, 2, true, 0, 0⟩
    let es : List Ev := [.deliver 2 z2 false, .iter (some ⟨1, 55, 1, true, 0, 0⟩) false, .deliver 2 y2 false]
    (Impl.run Cfg.asFound (Impl.init [x1, g]) es).2 =
      [Obs.revertFailed 1 2, Obs.stored 2 30, Obs.reorg ⟨1, 2, 1, 2⟩, Obs.newHead 2 30] := by
  decide


/-! ## convergence -/

/-- THE CODE AS IT IS NOW, canonical sequential schedule: against a stable honest source
(`Setting`) the restart loop reaches `chain = source chain` within `|source| + |node| + 1` rounds
and stays there, from every well-formed node chain of which the source's chain is not a proper
prefix (a pure truncation cannot be told from a stale head and is never followed: assumption). -/
theorem convergence_sequential_asFound (u : List Blk)
    (src c : Chain) (r : Option Range) (S : Setting u src) (hl : Linked c) (hu : ∀ b ∈ c, b ∈ u)
    (hb : c.length < U64) (ht : src <:+ c → src = c) (k : Nat)
    (hk : src.length + c.length + 1 ≤ k) :
    (runRounds Cfg.asFound src k ⟨c, r⟩).1.chain = src :=
  runRounds_chain S k ⟨c, r⟩ ⟨hl, hu, hb, ht, Or.inl rfl⟩ (Nat.le_trans (measure_le _ _) hk)

/-- SAFETY OF PROGRESS (every variant). With a stable honest source NO honest event — a block of the
source delivered late, twice, out of order, for another height, cancelled; a failed fetch with a
stale latest header; a revert iteration whose request failed; a restart — moves the node away from
the source's chain: the invariant is kept and the measure does not increase. -/
theorem honest_event_never_moves_away (cfg : Cfg) (u : List Blk) (src : Chain) (S : Setting u src)
    (s : Impl) (I : LInv cfg u src s) (e : Ev) (he : HonestEv src s e) :
    LInv cfg u src (s.step cfg e).1 ∧
      measure src (s.step cfg e).1.node.chain ≤ measure src s.node.chain :=
  honest_step S I e he

/-- LIVENESS UNDER FAIR INTERLEAVINGS, THE CODE AS IT IS NOW, FROM ANY STATE WITHOUT A RUNNING TASK
(not only the initial one: `currReorg`, the evidence, everything else arbitrary). Any event sequence
made of honest events (`FairRun.other`), of ARBITRARY events that leave the chain alone — corrupted,
mis-numbered, hash-altered answers, lies that start nothing — (`FairRun.noop`), and of `k`
undisturbed cycles for the then-next height (`FairRun.round`) ends with `chain = source chain` as
soon as `k ≥ |source| + |node| + 1`. -/
theorem liveness_fair_asFound (u : List Blk) (src : Chain) (S : Setting u src) (s : Impl)
    (ht : s.task = none) (hl : Linked s.node.chain) (hu : ∀ b ∈ s.node.chain, b ∈ u)
    (hb : s.node.chain.length < U64) (hnt : src <:+ s.node.chain → src = s.node.chain)
    (k : Nat) (es : List Ev) (h : FairRun Cfg.asFound src s k es)
    (hk : src.length + s.node.chain.length + 1 ≤ k) :
    (Impl.run Cfg.asFound s es).1.node.chain = src :=
  fair_run_converges S h ⟨⟨hl, hu, hb, hnt, Or.inl rfl⟩, by intro l hl'; rw [ht] at hl'; cases hl'⟩
    (Nat.le_trans (measure_le _ _) hk)

/-- … and FROM A STATE WITH A RUNNING REVERT TASK (started by whatever the source said before it
became stable, with any `lastPossiblyValidHeight`): whatever the task is answered, after at most
`|chain| + 1` iterations it has ended and the chain still satisfies the assumptions — so the previous
theorem applies from there. (Every variant.) -/
theorem running_task_terminates (cfg : Cfg) (u : List Blk) (src : Chain) (s : Impl)
    (G : Good cfg u src s.node.chain) (answers : List (Option Blk))
    (hlen : s.node.chain.length < answers.length) :
    (Impl.run cfg s (answers.map (fun a => Ev.iter a true))).1.task = none ∧
    Good cfg u src (Impl.run cfg s (answers.map (fun a => Ev.iter a true))).1.node.chain :=
  task_terminates answers s G hlen

/-- An undisturbed cycle, run on the event machine, does to the chain exactly what `round` (the
function the harness compares with the real synchroniser) does; all its events are honest and it
ends with no revert task running. -/
theorem round_events_refine_round (cfg : Cfg) (src : Chain) (s : Impl) (ht : s.task = none) :
    HonestRun cfg src s (roundEvents cfg src s.node.chain) ∧
    (Impl.run cfg s (roundEvents cfg src s.node.chain)).1.node.chain = (round cfg src s.node).1.chain ∧
    (Impl.run cfg s (roundEvents cfg src s.node.chain)).1.task = none :=
  roundEvents_spec cfg src s ht

/-! ## the uint64 subtractions -/

/-- `block.Number - 2` (storeTask) wraps for blocks 0 and 1, `remoteHeight - 1` (isReverting) for
remote height 0: the result is at least 2^64-2, so for every head numbered below that `revertTask`
takes the checking branch — it never reverts without comparing hashes (harmless for safety; for
`remoteHeight - 1` it cost liveness in the original code, see above). -/
theorem underflow_always_compares (cfg : Cfg) (hd : Blk) (ans : Option Blk) (lpv : Nat)
    (hl : lpv = sub64 0 2 ∨ lpv = sub64 1 2 ∨ lpv = sub64 0 1) (hn : hd.num < U64 - 2) :
    revertIter cfg lpv hd ans = .brk ∨
      ∃ rb cont, ans = some rb ∧ rb.hash ≠ hd.hash ∧ revertIter cfg lpv hd ans = .revert cont := by
  have hle : hd.num ≤ lpv := by
    have e1 : sub64 0 2 = U64 - 2 := by decide
    have e2 : sub64 1 2 = U64 - 1 := by decide
    have e3 : sub64 0 1 = U64 - 1 := by decide
    rcases hl with h | h | h <;> rw [h] <;> unfold U64 at * <;> omega
  cases hit : revertIter cfg lpv hd ans with
  | brk => exact Or.inl rfl
  | revert cont =>
    obtain ⟨rb, h1, h2⟩ := revertIter_checked hle hit
    exact Or.inr ⟨rb, cont, h1, h2, rfl⟩

/-- No wrap in the ordinary cases: the arithmetic is what the comments in the code say. -/
theorem sub64_no_wrap (a b : Nat) (hb : b ≤ a) (ha : a < U64) : sub64 a b = a - b :=
  sub64_of_le hb ha

/-! ## the feeds: notifications are per subscriber (`ModelFeed.lean`, `feed/feed.go`) -/

/-- For EVERY history of subscribe / unsubscribe / send / receive operations: the ids in `f.subs`
are pairwise distinct, and no two `Subscription` objects (open or not) ever carry the same id. -/
theorem feed_ids_unique (ops : List Feed.Op) :
    ((Feed.run .fresh Feed.init ops).1.map.map Prod.fst).Nodup ∧
    ∀ (h h' : Nat) (o o' : Feed.Obj), (Feed.run .fresh Feed.init ops).1.objs[h]? = some o →
      (Feed.run .fresh Feed.init ops).1.objs[h']? = some o' → o.id = o'.id → h = h' := by
  have hI := Feed.Inv.init.run ops
  refine ⟨hI.nodup, ?_⟩
  intro h h' o o' ho ho' e
  exact hI.inj h h' o.id o.closed o'.closed (Feed.shape_get ho) (by rw [e]; exact Feed.shape_get ho')

/-- For every history: a subscription is open (not unsubscribed) exactly when `f.subs` leads to it,
i.e. exactly the open subscriptions are offered each sent value. -/
theorem feed_open_iff_registered (ops : List Feed.Op) (h : Nat) (o : Feed.Obj)
    (ho : (Feed.run .fresh Feed.init ops).1.objs[h]? = some o) :
    o.closed = false ↔ Feed.inMap (Feed.run .fresh Feed.init ops).1.map h = true :=
  (Feed.Inv.init.run ops).live h o.id o.closed (Feed.shape_get ho)

/-- DELIVERY TO ONE SUBSCRIBER IS INDEPENDENT OF THE OTHERS. After any history `pre`, for any
continuation `ops`, the state of subscription `h` (its 1-slot channel and closed flag — hence
everything its owner can receive) is the fold of `soloStep h`, a function that looks only at the
sends, at `h`'s own unsubscribe and at `h`'s own receives: subscribing, unsubscribing (once or
twice) and receiving by other handles, in any order, cannot change what `h` gets. -/
theorem feed_delivery_independent (pre ops : List Feed.Op) (h : Nat) (o : Feed.Obj)
    (ho : (Feed.run .fresh Feed.init pre).1.objs[h]? = some o) :
    (Feed.run .fresh (Feed.run .fresh Feed.init pre).1 ops).1.objs[h]? =
      some (ops.foldl (Feed.soloStep h) o) :=
  Feed.run_solo (Feed.Inv.init.run pre) h o ho ops

/-- Negation witness for the id scheme `id = len(f.subs)` (a seeded change to feed.go): A and B
subscribe, A unsubscribes, C subscribes and gets B's id: B is silently dropped from the map — the
value 7 sent afterwards reaches C but not B — and B's unsubscribe then removes C, which misses 8.
With fresh ids both B and C receive 7, and C receives 8. -/
theorem feed_len_ids_lose_a_subscriber :
    let ops : List Feed.Op := [.subscribe false, .subscribe false, .unsubscribe 0, .subscribe false,
      .send 7, .recv 1, .recv 2, .unsubscribe 1, .send 8, .recv 2]
    (Feed.run .lenOfMap Feed.init ops).2 =
      [.handle 0, .handle 1, .ok, .handle 2, .ok, .empty, .val 7, .ok, .ok, .empty] ∧
    (Feed.run .fresh Feed.init ops).2 =
      [.handle 0, .handle 1, .ok, .handle 2, .ok, .val 7, .val 7, .ok, .ok, .val 8] := by
  decide

/-! ## round 4: the protocol-version gate of `Store`, and the outcome of every delivery

`verifyBlockSuccession` (block_ops.go:30) starts with `core.CheckBlockVersion`; `ModelStore.lean`
transcribes `ParseBlockVersion` / `CheckBlockVersion` on byte strings and writes the delivery out with
the version as an input (`Impl.deliverV`). -/

/-- The delivery with a version IS a delivery of the machine all theorems above are about: a block
whose version is refused is dropped exactly like a delivery `storeTask` finds cancelled. Hence
`stored_verified_and_extends`, `head_moves_back_only_by_revert`, `run_accepted_asFound`, … hold with
versions as additional inputs of the events. -/
theorem delivery_with_version_is_a_step (cfg : Cfg) (s : Impl) (req : Nat) (b : Blk) (ver : List UInt8)
    (c : Bool) :
    s.deliverV cfg req b ver c = s.step cfg (.deliver req b (c || !checkBlockVersion ver)) :=
  deliverV_eq_step cfg s req b ver c

/-- A block whose protocol version `CheckBlockVersion` refuses (above 0.14.x, unparsable, or longer
than 31 bytes) changes NOTHING, for every state — however valid it is otherwise, and also when its
parent hash does not match the head: the version is checked before number and parent, so such a
block never starts a revert task either. -/
theorem unsupported_version_never_stored (cfg : Cfg) (s : Impl) (req : Nat) (b : Blk) (ver : List UInt8)
    (c : Bool) (hv : checkBlockVersion ver = false) :
    (s.deliverV cfg req b ver c).1.node = s.node ∧ (s.deliverV cfg req b ver c).2 = [] ∧
    (s.deliverV cfg req b ver c).1.task = s.task := by
  rw [deliverV_eq_step, hv]
  cases ht : s.task with
  | some _ => simp [Impl.step, ht]
  | none =>
    by_cases hok : b.ok = true
    · simp [Impl.step, ht, hok]
    · simp [Impl.step, ht, hok]

/-- … and a stored block has a supported version, passed the sanity check, was not cancelled, and
extends the head with a true state-root claim. -/
theorem stored_block_has_supported_version (cfg : Cfg) (s : Impl) (req : Nat) (b : Blk) (ver : List UInt8)
    (c : Bool) (n h : Nat) (hs : Obs.stored n h ∈ (s.deliverV cfg req b ver c).2) :
    checkBlockVersion ver = true ∧ c = false ∧ b.ok = true ∧ b.num = n ∧ b.hash = h ∧
      b.num = nextHeight s.node.chain ∧ b.parent = expParent s.node.chain ∧
      b.root = rootStep (stateRoot s.node.chain) b.diff := by
  rw [deliverV_eq_step] at hs
  obtain ⟨req', b', he, hok, hn, hh, hnext, hpar, hroot, _⟩ := stored_verified_and_extends cfg s _ n h hs
  injection he with _ hb hc
  subst hb
  cases c with
  | true => simp at hc
  | false =>
    cases hv : checkBlockVersion ver with
    | false => simp [hv] at hc
    | true => exact ⟨rfl, rfl, hok, hn, hh, hnext, hpar, hroot⟩

/-- What one delivery does, by class (what `Persisted` receives), with no revert task running:
`stored` — the block becomes the head and is announced; `parent-mismatch` — nothing changes and
`revertTask(block.Number-1)` starts; every other class (failed sanity check, cancelled, unsupported
version, wrong number, wrong state root) — nothing changes and no task starts. -/
theorem delivery_outcome_classes (cfg : Cfg) (s : Impl) (req : Nat) (b : Blk) (ver : List UInt8) (c : Bool)
    (ht : s.task = none) :
    match deliverClass ver s.node.chain b c with
    | .stored =>
        (s.deliverV cfg req b ver c).1.node.chain = b :: s.node.chain ∧
        Obs.stored b.num b.hash ∈ (s.deliverV cfg req b ver c).2 ∧
        (s.deliverV cfg req b ver c).1.task = none
    | .parentMismatch =>
        (s.deliverV cfg req b ver c).1.node = s.node ∧ (s.deliverV cfg req b ver c).2 = [] ∧
        (s.deliverV cfg req b ver c).1.task = some (mismatchLpv cfg b)
    | _ =>
        (s.deliverV cfg req b ver c).1.node = s.node ∧ (s.deliverV cfg req b ver c).2 = [] ∧
        (s.deliverV cfg req b ver c).1.task = none :=
  deliverClass_spec cfg s req b ver c ht

/-- `CheckBlockVersion` accepts exactly the strings that parse to `0.minor.patch` with `minor ≤ 14`
(`core.LatestVer` = 0.14.1; the patch number does not count). -/
theorem version_gate_decision (v : List UInt8) :
    checkBlockVersion v = true ↔
      ∃ major minor patch, parseBlockVersion v = .ok major minor patch ∧ major = 0 ∧ minor ≤ 14 :=
  checkBlockVersion_iff v

/-- `x.y.z` (dot-free parts, at most 31 bytes) is read part by part with `strconv.ParseUint(·, 10, 64)`. -/
theorem version_string_three_parts (x y z : List UInt8)
    (hx : ∀ b ∈ x, b ≠ 46) (hy : ∀ b ∈ y, b ≠ 46) (hz : ∀ b ∈ z, b ≠ 46)
    (hlen : (x ++ 46 :: (y ++ 46 :: z)).length ≤ 31) :
    parseBlockVersion (x ++ 46 :: (y ++ 46 :: z)) =
      match parseUint64? x, parseUint64? y, parseUint64? z with
      | some a, some b, some c => .ok a b c
      | _, _, _ => .badNumber :=
  parse_three_parts x y z hx hy hz hlen

/-- a fourth part is never read: `0.14.1.anything` is a supported version -/
theorem version_fourth_part_not_read (x y z w : List UInt8)
    (hx : ∀ b ∈ x, b ≠ 46) (hy : ∀ b ∈ y, b ≠ 46) (hz : ∀ b ∈ z, b ≠ 46)
    (hlen : (x ++ 46 :: (y ++ 46 :: (z ++ 46 :: w))).length ≤ 31) :
    parseBlockVersion (x ++ 46 :: (y ++ 46 :: (z ++ 46 :: w))) =
      parseBlockVersion (x ++ 46 :: (y ++ 46 :: z)) :=
  parse_ignores_fourth_part x y z w hx hy hz hlen

/-- more than 31 bytes: refused whatever the string says (the hash commits to the string as ONE field
element) -/
theorem version_longer_than_31_bytes_refused (v : List UInt8) (h : 31 < v.length) :
    checkBlockVersion v = false :=
  long_version_refused v h

-- non-vacuity / boundaries of the gate: "0.14.1", "0.14.99", "0.14", "", "0.14.1.x" are supported;
-- "0.15.0", "1.0.0", "00.015.1", "+0.14.0", "0..1", "0.14.", 32 bytes are not
example :
    checkBlockVersion [48, 46, 49, 52, 46, 49] = true ∧
    checkBlockVersion [48, 46, 49, 52, 46, 57, 57] = true ∧
    checkBlockVersion [48, 46, 49, 52] = true ∧
    checkBlockVersion [] = true ∧
    checkBlockVersion [48, 46, 49, 52, 46, 49, 46, 120] = true ∧
    checkBlockVersion [48, 46, 49, 53, 46, 48] = false ∧
    checkBlockVersion [49, 46, 48, 46, 48] = false ∧
    checkBlockVersion [48, 48, 46, 48, 49, 53, 46, 49] = false ∧
    checkBlockVersion [43, 48, 46, 49, 52, 46, 48] = false ∧
    checkBlockVersion [48, 46, 46, 49] = false ∧
    checkBlockVersion [48, 46, 49, 52, 46] = false ∧
    checkBlockVersion (List.replicate 32 48) = false ∧
    parseBlockVersion (List.replicate 31 48) = .ok 0 0 0 := by
  refine ⟨by decide, by decide, by decide, by decide, by decide, by decide, by decide, by decide,
    by decide, by decide, by decide, by decide, by decide⟩

-- an unsupported version with a MISMATCHING parent: the code resets the streams (no revert task);
-- the same block with a supported version starts `revertTask(block.Number-1)`; every class occurs
example :
    let g : Blk := ⟨0, 1, 0, true, 0, 0⟩
    let x1 : Blk := ⟨1, 2, 1, true, 0, 0⟩
    let z2 : Blk := ⟨2, 40, 99, true, 0, 0⟩
    let y2 : Blk := ⟨2, 30, 2, true, 0, 0⟩
    let v15 : List UInt8 := [48, 46, 49, 53, 46, 48]
    let v14 : List UInt8 := [48, 46, 49, 52, 46, 49]
    ((Impl.init [x1, g]).deliverV Cfg.asFound 2 z2 v15 false).1.task = none ∧
    ((Impl.init [x1, g]).deliverV Cfg.asFound 2 z2 v14 false).1.task = some 1 ∧
    deliverClass v15 [x1, g] z2 false = .badVersion ∧
    deliverClass v14 [x1, g] z2 false = .parentMismatch ∧
    deliverClass v14 [x1, g] y2 false = .stored ∧
    deliverClass v14 [x1, g] y2 true = .cancelled ∧
    deliverClass v14 [x1, g] { y2 with ok := false } false = .sanity ∧
    deliverClass v14 [x1, g] { y2 with num := 3 } false = .badNumber ∧
    deliverClass v14 [x1, g] { y2 with root := 7 } false = .rootMismatch ∧
    ((Impl.init [x1, g]).deliverV Cfg.asFound 2 y2 v14 false).2 = [Obs.stored 2 30, Obs.newHead 2 30] ∧
    ((Impl.init [x1, g]).deliverV Cfg.asFound 2 y2 v15 false).2 = [] := by
  refine ⟨by decide, by decide, by decide, by decide, by decide, by decide, by decide, by decide,
    by decide, by decide, by decide⟩

/-! ## round 4: catch-up / tip-following mode and the status accessors (`ModelStatus.lean`) -/

/-- "catch-up and tip-following modes": what `storeTask` stores and announces does not depend on the
mode or on any of the status fields — for every status, every `GOMAXPROCS`, every outcome of the
compare-and-swap, the chain-and-feeds part of `storeTask` is `onStored` (the function all theorems
above are about); the status only decides whether the streams are reset afterwards, and a reset is an
input (`cancelled` deliveries) of the machine. -/
theorem store_task_ignores_the_mode (procs : Nat) (n : Node) (st : Status) (b : Blk) (cas : Bool) :
    (storeTaskFull procs n st b cas).1 = (onStored n b).1 ∧
    (storeTaskFull procs n st b cas).2.2.1 = (onStored n b).2 := ⟨rfl, rfl⟩

/-- after the bookkeeping of a store (compare-and-swap undisturbed) `HighestBlockHeader()` is at or
above the stored block: the node never reports a highest block below its own head right after storing -/
theorem highest_header_covers_stored_block (procs : Nat) (st : Status) (b : Blk) :
    ∃ h, (st.onStored procs b true).1.highest = some h ∧ b.num ≤ h.num :=
  highest_covers_stored procs st b

/-- the mode after a store is `isBehind` = "the highest known block is more than `maxWorkers()` above
the stored one" (no wrap for block numbers below 2^64 - 16), and the streams are reset exactly when the
mode changes -/
theorem mode_switch_decision (procs : Nat) (st : Status) (b : Blk) (cas : Bool) (hd : Hdr)
    (h : st.highest = some hd) (hnw : b.num + maxWorkers procs < U64) :
    ((st.onStored procs b cas).1.catchUp = true ↔ hd.num > b.num + maxWorkers procs) ∧
    ((st.onStored procs b cas).2 = true ↔ (st.catchUp = true ↔ ¬ hd.num > b.num + maxWorkers procs)) :=
  mode_is_isBehind procs st b cas hd h hnw

/-- while the source's head is unknown (pollLatest has not answered) the mode is left alone -/
theorem mode_kept_while_head_unknown (procs : Nat) (st : Status) (b : Blk) (cas : Bool)
    (h : st.highest = none) :
    (st.onStored procs b cas).1.catchUp = st.catchUp ∧ (st.onStored procs b cas).2 = false :=
  mode_kept_without_head procs st b cas h

/-- `setupWorkers`: between 1 and 16 fetchers, exactly ONE in tip-following mode -/
theorem fetcher_count_bounds (procs : Nat) (st : Status) (hp : 1 ≤ procs) :
    1 ≤ numWorkers procs st ∧ numWorkers procs st ≤ 16 ∧ (st.catchUp = false → numWorkers procs st = 1) :=
  numWorkers_bounds procs st hp

/-- `StartingBlockHeader()`: storeTask caches the header when it stores the block numbered
`startingBlockNumber`; before that the accessor answers from the database with exactly that block (and
caches it), or fails -/
theorem starting_header_is_the_starting_block (procs : Nat) (st : Status) :
    (∀ (b : Blk) (cas : Bool), st.startNum = some b.num →
      (st.onStored procs b cas).1.startHdr = some ⟨b.num, b.hash⟩) ∧
    (∀ (c : Chain) (h : Hdr) (st' : Status), st.startHdr = none → st.startingHeader c = (.hdr h, st') →
      ∃ b ∈ c, st.startNum = some b.num ∧ h = ⟨b.num, b.hash⟩ ∧ st'.startHdr = some h) :=
  ⟨fun b cas h => starting_header_set_by_store procs st b cas h,
   fun c h st' hn ha => starting_header_from_db st c h st' hn ha⟩

/-- (witness) `block.Number + uint64(maxWorkers())` wraps for block numbers at 2^64 - 16 and above:
a node AT the tip (highest = the block just stored) then decides it is behind and switches to
catch-up mode. Harmless for the property (the mode only sets the number of fetchers). -/
theorem mode_switch_wraps_near_2_64 :
    let b : Blk := ⟨U64 - 1, 5, 4, true, 0, 0⟩
    let st : Status := ⟨some 0, none, some ⟨U64 - 1, 5⟩, false⟩
    (st.onStored 16 b true).1.catchUp = true ∧ (st.onStored 16 b true).2 = true ∧
    (st.onStored 16 ⟨100, 5, 4, true, 0, 0⟩ true).1.catchUp = true ∧
    (Status.onStored 16 ⟨some 0, none, some ⟨100, 5⟩, true⟩ ⟨100, 5, 4, true, 0, 0⟩ true).1.catchUp = false := by
  refine ⟨by decide, by decide, by decide, by decide⟩

-- non-vacuity: a run of the status machine: Run starts at height 5, block 5 is stored before
-- pollLatest answered, pollLatest reports 30, blocks 6.. are stored in catch-up mode (4 fetchers),
-- the node gets within 4 of the head and switches back; after Run nothing is reported
example :
    let s0 := Status.init.runStart [⟨4, 9, 8, true, 0, 0⟩]
    let s1 := (s0.onStored 4 ⟨5, 77, 9, true, 0, 0⟩).1
    let s2 := s1.poll ⟨30, 99⟩
    let r3 := s2.onStored 4 ⟨6, 78, 77, true, 0, 0⟩
    let r4 := r3.1.onStored 4 ⟨26, 79, 0, true, 0, 0⟩
    s0.startNum = some 5 ∧ (s0.startingHeader [⟨4, 9, 8, true, 0, 0⟩]).1 = .errDb ∧
    s1.startHdr = some ⟨5, 77⟩ ∧ s1.highest = some ⟨5, 77⟩ ∧ s1.catchUp = false ∧
    r3 = (⟨some 5, some ⟨5, 77⟩, some ⟨30, 99⟩, true⟩, true) ∧ numWorkers 4 r3.1 = 4 ∧
    r4 = (⟨some 5, some ⟨5, 77⟩, some ⟨30, 99⟩, false⟩, true) ∧ numWorkers 4 r4.1 = 1 ∧
    (r4.1.runEnd.startingHeader []).1 = .errNotSet ∧ r4.1.runEnd.highest = none := by
  refine ⟨by decide, by decide, by decide, by decide, by decide, by decide, by decide, by decide,
    by decide, by decide, by decide⟩

/-! ## round 4: the classes `BlockByNumber` hands to `Store` (`fetchUnknownClasses`, data_source.go) -/

/-- When `fetchUnknownClasses` succeeds, `NewClasses` holds EXACTLY the classes the state diff
mentions (classes of deployed contracts, declared Cairo-0 classes, declared Sierra classes) that the
node's head state does not hold — each fetched once, each fetch successful; a class the state knows
is never fetched. For every diff, every state, every behaviour of the feeder. -/
theorem new_classes_are_exactly_the_unknown_ones (known fetchOk : Nat → Bool)
    (deployed declaredV0 declaredV1 res : List Nat)
    (h : fetchUnknownClasses known fetchOk deployed declaredV0 declaredV1 = .ok res) :
    res.Nodup ∧
    (∀ x, x ∈ res ↔ (x ∈ deployed ∨ x ∈ declaredV0 ∨ x ∈ declaredV1) ∧ known x = false) ∧
    (∀ x ∈ res, fetchOk x = true) := by
  obtain ⟨h1, h2, h3⟩ := fetchAll_ok known fetchOk _ [] res List.nodup_nil (by intro x hx; cases hx) h
  refine ⟨h1, ?_, ?_⟩
  · intro x
    rw [h2 x]
    simp only [List.not_mem_nil, false_or, List.mem_append, or_assoc]
  · intro x hx
    rcases h3 x hx with hx | hx
    · cases hx
    · exact hx

/-- `BlockByNumber` fails (and the block never reaches the pipeline) only because the fetch of a
class the diff mentions and the state lacks failed; and it succeeds whenever all those fetches do. -/
theorem class_fetch_failure_is_the_only_failure (known fetchOk : Nat → Bool)
    (deployed declaredV0 declaredV1 : List Nat) :
    (∀ e, fetchUnknownClasses known fetchOk deployed declaredV0 declaredV1 = .error e →
      (e ∈ deployed ∨ e ∈ declaredV0 ∨ e ∈ declaredV1) ∧ known e = false ∧ fetchOk e = false) ∧
    ((∀ x, (x ∈ deployed ∨ x ∈ declaredV0 ∨ x ∈ declaredV1) → known x = false → fetchOk x = true) →
      ∃ res, fetchUnknownClasses known fetchOk deployed declaredV0 declaredV1 = .ok res) := by
  constructor
  · intro e he
    obtain ⟨h1, h2, h3⟩ := fetchAll_error known fetchOk _ [] e he
    exact ⟨by simpa [List.mem_append, or_assoc] using h1, h2, h3⟩
  · intro hall
    exact fetchAll_succeeds known fetchOk _ [] (fun x hx => hall x (by simpa [List.mem_append, or_assoc] using hx))

-- non-vacuity: class 7 deployed twice and declared, 8 known, 9 unknown; then 9's fetch fails
example :
    fetchUnknownClasses (fun h => h == 8) (fun _ => true) [7, 8, 7] [9] [7] = .ok [7, 9] ∧
    fetchUnknownClasses (fun h => h == 8) (fun h => h != 9) [7, 8, 7] [9] [7] = .error 9 ∧
    fetchUnknownClasses (fun _ => false) (fun _ => true) [] [] [] = .ok [] := by
  refine ⟨rfl, rfl, rfl⟩

/-! ## round 4: stronger statements about cycles and liveness -/

/-- FULL refinement of a cycle (strengthens `round_events_refine_round`, which equates chains only):
an undisturbed cycle on the event machine leaves exactly the NODE (`currReorg` included) and emits
exactly the OBSERVATIONS (commits, reorg and new-head sends, in order) of `round` — the function the
harness compares with the real synchroniser, commit by commit and notification by notification, on
every static shape. Every variant, every source chain, every state without a running task. -/
theorem round_events_refine_round_fully (cfg : Cfg) (src : Chain) (s : Impl) (ht : s.task = none) :
    (Impl.run cfg s (roundEvents cfg src s.node.chain)).1.node = (round cfg src s.node).1 ∧
    (Impl.run cfg s (roundEvents cfg src s.node.chain)).2 = (round cfg src s.node).2 :=
  roundEvents_full cfg src s ht

/-- … lifted to any number of cycles by induction: `k` undisturbed cycles = `runRounds k`, node and
observations, and no task is left running. -/
theorem rounds_events_refine_runRounds (cfg : Cfg) (src : Chain) (k : Nat) (s : Impl) (ht : s.task = none) :
    (Impl.run cfg s (roundsEvents cfg src k s.node)).1.node = (runRounds cfg src k s.node).1 ∧
    (Impl.run cfg s (roundsEvents cfg src k s.node)).2 = (runRounds cfg src k s.node).2 ∧
    (Impl.run cfg s (roundsEvents cfg src k s.node)).1.task = none :=
  roundsEvents_full cfg src k s ht

/-- THE CODE AS IT IS NOW: a VALID block of an earlier chain of the source, still in flight when the
source became stable (`StaleEv`: verified, not a block of the final chain, not a child of the final
chain's head), delivered at ANY moment and in ANY state, keeps the invariant of the liveness proof
(well-formed chain, no block of the source above a running task's `lastPossiblyValidHeight`) and
lengthens the chain by at most one block. (Closes the case the liveness theorems left out; the
excluded child-of-the-head case is the pure-truncation assumption.) -/
theorem stale_block_keeps_invariant (u : List Blk) (src : Chain) (S : Setting u src) (s : Impl)
    (I : LInv Cfg.asFound u src s) (e : Ev) (he : StaleEv u src e) (hb : s.node.chain.length + 1 < U64) :
    LInv Cfg.asFound u src (s.step Cfg.asFound e).1 ∧
      (s.step Cfg.asFound e).1.node.chain.length ≤ s.node.chain.length + 1 :=
  stale_step S rfl rfl I e he hb

/-- LIVENESS WITH STALE BLOCKS IN FLIGHT, THE CODE AS IT IS NOW. After the source became stable let
ANY interleaving of honest events, events that change nothing and `m` deliveries of valid blocks of
earlier chains happen (`Disturbed`), from any state satisfying the invariant (a revert task may be
running); then every fair continuation with `k ≥ |source| + max(|node|, |source|) + m + 1`
undisturbed cycles ends with `chain = source chain`. -/
theorem liveness_with_stale_blocks_asFound (u : List Blk) (src : Chain) (S : Setting u src) (s : Impl)
    (I : LInv Cfg.asFound u src s) (m : Nat) (pre : List Ev) (hpre : Disturbed Cfg.asFound u src s m pre)
    (hb : max s.node.chain.length src.length + m + 1 < U64)
    (k : Nat) (es : List Ev) (hfair : FairRun Cfg.asFound src (Impl.run Cfg.asFound s pre).1 k es)
    (hk : src.length + max s.node.chain.length src.length + m + 1 ≤ k) :
    (Impl.run Cfg.asFound s (pre ++ es)).1.node.chain = src :=
  stale_then_fair_converges S rfl rfl hpre I hb hfair hk

-- non-vacuity: the source had [x1, g] and is now stable on [y1, g]; the node holds [g]; the old block x1
-- (valid, fetched before the reorg) arrives and IS STORED; six cycles later the node is on [y1, g]
example :
    let g : Blk := ⟨0, 1, 0, true, 0, 0⟩
    let x1 : Blk := ⟨1, 2, 1, true, 0, 0⟩
    let y1 : Blk := ⟨1, 12, 1, true, 0, 0⟩
    let pre : List Ev := [.deliver 1 x1 false]
    StaleEv [x1, y1, g] [y1, g] (.deliver 1 x1 false) ∧
    Disturbed Cfg.asFound [x1, y1, g] [y1, g] (Impl.init [g]) 1 pre ∧
    LInv Cfg.asFound [x1, y1, g] [y1, g] (Impl.init [g]) ∧
    (Impl.run Cfg.asFound (Impl.init [g]) pre).1.node.chain = [x1, g] ∧
    (Impl.run Cfg.asFound (Impl.init [g])
      (pre ++ roundsEvents Cfg.asFound [y1, g] 6 (Impl.run Cfg.asFound (Impl.init [g]) pre).1.node)).1.node.chain = [y1, g] := by
  have hst : StaleEv [⟨1, 2, 1, true, 0, 0⟩, ⟨1, 12, 1, true, 0, 0⟩, ⟨0, 1, 0, true, 0, 0⟩]
      [⟨1, 12, 1, true, 0, 0⟩, ⟨0, 1, 0, true, 0, 0⟩] (.deliver 1 ⟨1, 2, 1, true, 0, 0⟩ false) := by
    refine ⟨rfl, by decide, by decide, ?_⟩
    intro hd tl h
    injection h with h1 _
    subst h1
    decide
  refine ⟨hst, Disturbed.stale _ _ _ 0 hst (Disturbed.done _ 0), ⟨⟨⟨rfl, rfl⟩, by decide, by decide, ?_, Or.inl rfl⟩, ?_⟩,
    by decide, by decide⟩
  · intro h; exact absurd h.length_le (by decide)
  · intro lpv hl; cases hl

/-! ## non-vacuity -/

-- a catch-up + reorg run that satisfies every hypothesis of `run_accepted_asFound`
example :
    let g : Blk := ⟨0, 1, 0, true, 0, 0⟩
    let x1 : Blk := ⟨1, 2, 1, true, 0, 0⟩
    let y1 : Blk := ⟨1, 12, 1, true, 0, 0⟩
    let y2 : Blk := ⟨2, 13, 12, true, 0, 0⟩
    let es : List Ev := [.deliver 0 g false, .deliver 1 x1 false, .deliver 2 y2 false,
      .iter (some y1) true, .iter (some g) true, .deliver 1 y1 false, .deliver 2 y2 false]
    Linked ([] : Chain) ∧ EnvOK es ∧
    (Impl.run Cfg.asFound (Impl.init []) es).2 =
      [.stored 0 1, .newHead 0 1, .stored 1 2, .newHead 1 2, .reverted 1 2,
       .stored 1 12, .reorg ⟨1, 2, 1, 2⟩, .newHead 1 12, .stored 2 13, .newHead 2 13] := by
  refine ⟨trivial, ?_, by decide⟩
  exact ⟨by decide, by decide, by decide, rfl, rfl, by decide, by decide, trivial⟩

-- evidence that satisfies the hypotheses of the two "absent from the answering chain" theorems
example :
    let g : Blk := ⟨0, 1, 0, true, 0, 0⟩
    let x1 : Blk := ⟨1, 2, 1, true, 0, 0⟩
    let y1 : Blk := ⟨1, 12, 1, true, 0, 0⟩
    justified .verified ⟨[(1, y1)], [], [(1, y1)], []⟩ [x1, g] x1 = true ∧
    justified .fresh ⟨[(1, y1)], [], [(1, y1)], []⟩ [x1, g] x1 = true ∧
    justified .fresh ⟨[], [⟨0, 999⟩], [], [⟨0, 999⟩]⟩ [x1, g] x1 = true ∧
    justified .verified ⟨[], [⟨0, 999⟩], [], [⟨0, 999⟩]⟩ [x1, g] x1 = false := by decide

-- a `Setting`, and a fair run with ENOUGH cycles (k = 5 = |src| + |node| + 1) and junk in between
example :
    Setting [⟨1, 2, 1, true, 0, 0⟩, ⟨1, 12, 1, true, 0, 0⟩, ⟨0, 1, 0, true, 0, 0⟩] [⟨1, 12, 1, true, 0, 0⟩, ⟨0, 1, 0, true, 0, 0⟩] ∧
    ∃ es, FairRun Cfg.asFound [⟨1, 12, 1, true, 0, 0⟩, ⟨0, 1, 0, true, 0, 0⟩]
      (Impl.init [⟨1, 2, 1, true, 0, 0⟩, ⟨0, 1, 0, true, 0, 0⟩]) 5 es := by
  refine ⟨⟨?_, ⟨rfl, rfl, rfl, rfl⟩, by decide, by decide, ⟨rfl, rfl, trivial⟩, by decide, by decide⟩, ?_⟩
  · intro x hx y hy h
    simp only [List.mem_cons, List.mem_nil_iff, or_false] at hx hy
    rcases hx with rfl | rfl | rfl <;> rcases hy with rfl | rfl | rfl <;> first | rfl | (simp at h)
  · -- junk, then five rounds (every state without a task admits a round)
    have rounds : ∀ (k : Nat) (s : Impl), s.task = none →
        ∃ es, FairRun Cfg.asFound [⟨1, 12, 1, true, 0, 0⟩, ⟨0, 1, 0, true, 0, 0⟩] s k es := by
      intro k
      induction k with
      | zero => intro s _; exact ⟨[], FairRun.done s⟩
      | succ k ih =>
        intro s ht
        obtain ⟨_, _, ht'⟩ := roundEvents_spec Cfg.asFound [⟨1, 12, 1, true, 0, 0⟩, ⟨0, 1, 0, true, 0, 0⟩] s ht
        obtain ⟨es, hes⟩ := ih _ ht'
        exact ⟨_, FairRun.round s es k ht hes⟩
    obtain ⟨es, hes⟩ := rounds 5
      ((Impl.init [⟨1, 2, 1, true, 0, 0⟩, ⟨0, 1, 0, true, 0, 0⟩]).step Cfg.asFound (.deliver 7 ⟨0, 1, 0, false, 0, 0⟩ true)).1 rfl
    exact ⟨_, FairRun.noop _ (.deliver 7 ⟨0, 1, 0, false, 0, 0⟩ true) es 5 rfl (Or.inl rfl) hes⟩

/-! ## round 5: `feed.Feed` under CONCURRENT Subscribe / Unsubscribe / Send / receive (`ModelFeedConc.lean`)

`storeTask` calls `reorgFeed.Send` / `newHeads.Send` right after `blockchain.Store` while RPC
connection handlers subscribe and unsubscribe from their own goroutines. The machine `FeedConc.cstep`
interleaves goroutines at the granularity of `f.mu.Lock()/Unlock()` and of single channel
operations; `crun var s sched` runs the schedule `sched` (ANY list of goroutine numbers).
`Variant.underLock` is feed.go as it is; `Variant.snapshotThenSend` copies `f.subs` under the lock
and sends after `Unlock`. A start state `FeedConc.start chans pcs` has any channels (open ones are
registered) and any number of goroutines, each about to call one operation. -/

/-- SEND NEVER PANICS. For every start state and EVERY schedule of the code as it is: no goroutine
ever sends on a closed channel (`Send` racing `Unsubscribe`) or closes a channel twice (`Unsubscribe`
racing `Unsubscribe` of the same subscription). A panic in `Send` would unwind `storeTask` between
`blockchain.Store` and the notifications: the block stored, its new-head / reorg notification never
emitted. -/
theorem feed_send_under_lock_never_panics (chans : List FeedConc.Chan) (pcs : List FeedConc.Pc)
    (h : ∀ p ∈ pcs, p.initial = true) (sched : List Nat) :
    (FeedConc.crun .underLock (FeedConc.start chans pcs) sched).panicked = false :=
  FeedConc.crun_panicked (FeedConc.CInv.start chans pcs h) sched

/-- Mutual exclusion as the model has it: in every reachable state at most one goroutine is inside a
critical section of `f.mu`. -/
theorem feed_mutex (chans : List FeedConc.Chan) (pcs : List FeedConc.Pc)
    (h : ∀ p ∈ pcs, p.initial = true) (sched : List Nat) (t t' : Nat) :
    let s := FeedConc.crun .underLock (FeedConc.start chans pcs) sched
    FeedConc.holds .underLock (s.pc t) = true → FeedConc.holds .underLock (s.pc t') = true → t = t' := by
  intro s h1 h2
  have hi := (FeedConc.CInv.start chans pcs h).run sched
  have a := hi.mutex t h1
  have b := hi.mutex t' h2
  rw [a] at b
  exact Option.some.inj b

/-- THE BLOCKING SEND OF THE KEEP-LAST PATH NEVER BLOCKS ("This is guaranteed to succeed, so select
is not required", feed.go): in every reachable state, with any number of concurrent senders and of
readers emptying slots, a goroutine at `sub.c <- v` finds the slot empty. (A `Send` that blocked
would stop `storeTask`, i.e. the whole pipeline.) -/
theorem feed_keep_last_send_never_blocks (chans : List FeedConc.Chan) (pcs : List FeedConc.Pc)
    (h : ∀ p ∈ pcs, p.initial = true) (sched : List Nat) (t : Nat) :
    FeedConc.blocked (FeedConc.crun .underLock (FeedConc.start chans pcs) sched) t = false :=
  FeedConc.not_blocked ((FeedConc.CInv.start chans pcs h).run sched) t

/-- SEND IS ATOMIC WITH RESPECT TO SUBSCRIBE AND UNSUBSCRIBE. For every schedule: the caller's view
(who is registered, which channels are closed, which delivery attempts were made — with the critical
section in progress, if any, carried to its end) equals the result of executing the operations ONE
AT A TIME in the order in which they acquired the mutex (`hist`). In particular a state in which
nobody holds the mutex looks exactly like a sequential history. Readers are not part of this: they
take values out of the slots concurrently with a `Send` by design. -/
theorem feed_send_atomic_wrt_subscribe_unsubscribe (chans : List FeedConc.Chan) (pcs : List FeedConc.Pc)
    (h : ∀ p ∈ pcs, p.initial = true) (sched : List Nat) :
    let s := FeedConc.crun .underLock (FeedConc.start chans pcs) sched
    s.abs = s.hist.foldl FeedConc.astep (FeedConc.start chans pcs).view ∧
    (s.lock = none → s.view = s.hist.foldl FeedConc.astep (FeedConc.start chans pcs).view) := by
  intro s
  obtain ⟨ops, e1, e2⟩ := FeedConc.crun_refines (FeedConc.CInv.start chans pcs h) sched
  have e0 : (FeedConc.start chans pcs).hist = [] := rfl
  have e1' : s.hist = ops := by rw [e0, List.nil_append] at e1; exact e1
  have e2' : s.abs = ops.foldl FeedConc.astep (FeedConc.start chans pcs).view := e2
  refine ⟨by rw [e1']; exact e2', ?_⟩
  intro hl
  rw [e1', ← e2']
  simp [FeedConc.St.abs, hl]

/-- EVERY SUBSCRIBER THAT STAYS SUBSCRIBED IS ATTEMPTED EXACTLY ONCE PER SEND, whatever the others
do concurrently: if subscription `k` is registered at the start and no `Unsubscribe` of `k` ever
acquires the mutex, then in every state where the mutex is free `k` is still registered and the
number of delivery attempts `(v, k)` equals the number of `Send(v)` calls that have acquired the
mutex. -/
theorem feed_stayer_attempted_once_per_send (chans : List FeedConc.Chan) (pcs : List FeedConc.Pc)
    (h : ∀ p ∈ pcs, p.initial = true) (sched : List Nat) (k : Nat) (v : Nat)
    (hk : k ∈ (FeedConc.start chans pcs).subs) :
    let s := FeedConc.crun .underLock (FeedConc.start chans pcs) sched
    s.lock = none → FeedConc.AOp.unsub k ∉ s.hist →
      k ∈ s.subs ∧ s.log.count (v, k) = s.hist.count (.send v) := by
  intro s hl hno
  have hv := (feed_send_atomic_wrt_subscribe_unsubscribe chans pcs h sched).2 hl
  have := FeedConc.stayer_attempted_once (FeedConc.VInv.start chans pcs) s.hist k hk hno v
  rw [← hv] at this
  obtain ⟨a, b⟩ := this
  refine ⟨a, ?_⟩
  show s.view.log.count (v, k) = _
  rw [b]
  show ([] : List (Nat × Nat)).count (v, k) + _ = _
  simp

/-- NOTHING IS SENT TO A SUBSCRIBER AFTER ITS UNSUBSCRIBE: in the sequential history every run is
equivalent to (previous theorem), once `k` is not registered any more no operation — `Send`, or a
`Subscribe` of anybody else — makes a delivery attempt to `k`. -/
theorem feed_no_attempt_after_unsubscribe (w : FeedConc.View) (hw : FeedConc.VInv w) (k : Nat)
    (hk : k < w.closed.length) (ops : List FeedConc.AOp) :
    FeedConc.attemptsTo k (ops.foldl FeedConc.astep (FeedConc.astep w (.unsub k))).log =
      FeedConc.attemptsTo k w.log := by
  have := FeedConc.no_attempt_after_unsubscribe (hw.astep (.unsub k)) ops k
    (by simp [FeedConc.astep]) (by simpa [FeedConc.astep] using hk)
  rw [this]; rfl

-- non-vacuity: a start state with goroutines of every kind satisfies the hypothesis of the four
-- theorems above, and a schedule that lets all of them finish: the subscriber that stays (1, keep-last,
-- slot full) ends with the sent value, the one that leaves is closed, nobody holds the mutex, the
-- history is [send 5, unsub 0, sub], subscriber 1 was attempted once
example :
    let chans : List FeedConc.Chan := [⟨false, none, false⟩, ⟨true, some 9, false⟩]
    let pcs : List FeedConc.Pc := [.snd0 5, .un0 0, .sub0 false, .rcv 1, .un0 0]
    (∀ p ∈ pcs, p.initial = true) ∧ 1 ∈ (FeedConc.start chans pcs).subs ∧
    let s := FeedConc.crun .underLock (FeedConc.start chans pcs)
      [1, 0, 0, 1, 4, 0, 0, 3, 0, 0, 0, 0, 1, 1, 1, 1, 2, 2, 2, 2]
    s.lock = none ∧ s.hist = [.send 5, .unsub 0, .sub] ∧ s.log = [(5, 0), (5, 1)] ∧
    s.chans = [⟨false, some 5, true⟩, ⟨true, some 5, false⟩, ⟨false, none, false⟩] ∧
    s.subs = [1, 2] ∧ s.pcs = [.idle, .idle, .idle, .rcvD 1 (.val 9), .idle] ∧ s.panicked = false := by
  decide

example : FeedConc.VInv ⟨[0, 1], [false, false], []⟩ ∧ (1 : Nat) < [false, false].length :=
  ⟨⟨by decide, by decide⟩, by decide⟩

/-- REGRESSION WITNESS for the class "fan out on a snapshot of the subscriber set taken under the
lock but used after releasing it" (seeded from outside; not expressible in the sequential feed
model): one subscriber, one `Send` and one `Unsubscribe`; the `Unsubscribe` lands between the
snapshot and the channel send — send on a closed channel. The same schedule is harmless for the
code as it is (the `Unsubscribe` waits for the mutex), and by `feed_send_under_lock_never_panics` so
is every other schedule. -/
theorem feed_snapshot_then_send_sends_on_closed_channel :
    let s0 := FeedConc.start [⟨false, none, false⟩] [.snd0 1, .un0 0]
    (FeedConc.crun .snapshotThenSend s0 [0, 0, 1, 1, 1, 0]).panicked = true ∧
    (FeedConc.crun .underLock s0 [0, 0, 1, 1, 1, 0]).panicked = false := by
  decide

/-- Second witness for the same class: two concurrent `Send`s and a keep-last subscriber with a full
slot. Without the mutex around the fan-out the second sender fills the slot between the first
sender's drain and its blocking send: the first `Send` blocks for good (nobody reads). -/
theorem feed_snapshot_then_send_blocks_a_sender :
    let s0 := FeedConc.start [⟨true, some 9, false⟩] [.snd0 1, .snd0 2]
    FeedConc.blocked (FeedConc.crun .snapshotThenSend s0 [0, 0, 1, 1, 0, 0, 1, 1, 1]) 0 = true := by
  decide

/-! ## round 5: ALL GOROUTINE SCHEDULES of the fetch / verify / store pipeline (`ModelPipe.lean`)

Until this round "every Store / RevertHead / feed send happens in the serial callback chain, so a run
is a sequence of `Impl` events" was a trusted READING of sync.go, and `isReverting` — which runs in
a FETCHER goroutine, reads the chain twice at different moments and calls the source in between — was
modelled as atomic with the start of the revert task it submits. `Pipe.step` is the machine one level
below: the main loop, any number of fetcher goroutines (with `isReverting` read by read), the two
callback goroutines of the streams, the revert task running inside the verifiers' callback, stream
generations; a run is ANY list of goroutine steps with ANY source answers. What remains trusted is
the contract of conc/stream (callbacks of a stream run serially in submission order; `Wait` joins). -/

/-- THE REORG CHECK READS ONE CHAIN. For every schedule and every source, in every reachable state:
whenever a fetcher goroutine is inside `isReverting` past its gate (`localHeight+1 == nextHeight`), or
has returned "reorg" and its revert task has not started yet, the chain is STILL the chain its
`Height()` call saw (`hd :: tl`), the head is still the block below the height it waits for, and no
revert task is running. So `Height()`, `BlockHeaderByNumber`, the task's start — however far apart in
time, with stores and reverts of other callbacks possible in principle — all see the same chain. -/
theorem reorg_check_reads_one_chain (cfg : Cfg) (c : Chain) (hc : Pipe.Consec c) (acts : List Pipe.Act)
    (j : Nat) (hd : Blk) (tl : Chain) :
    let s := Pipe.run cfg (Pipe.St.init c) acts
    Pipe.armedSnap (s.f j) = some (hd, tl) →
      s.chain = hd :: tl ∧ hd.num + 1 = s.start + j ∧ s.impl.task = none :=
  fun h => ((Pipe.Inv.init cfg c hc).run acts).arm1 j hd tl h

/-- … and what the fetcher returns IS `isReverting` of the serial model on the chain as it is when the
revert task starts: for a decision `d` waiting for its callback or in the verifiers' queue,
`isReverting cfg (current chain) d.next d.latest d.confirm = some d.lpv`. -/
theorem submitted_revert_task_is_isReverting_now (cfg : Cfg) (c : Chain) (hc : Pipe.Consec c)
    (acts : List Pipe.Act) (j : Nat) (hd : Blk) (tl : Chain) (d : Pipe.Dec) :
    let s := Pipe.run cfg (Pipe.St.init c) acts
    (s.f j = .decided hd tl d ∨ ∃ k, s.f j = .queued hd tl d k) →
      isReverting cfg s.chain d.next (some d.latest) d.confirm = some d.lpv := by
  intro s h
  have hi := (Pipe.Inv.init cfg c hc).run acts
  have hsnap : Pipe.armedSnap (s.f j) = some (hd, tl) := by
    rcases h with h | ⟨k, h⟩ <;> rw [h] <;> rfl
  rw [(hi.arm1 j hd tl hsnap).1]
  exact hi.dat2 j hd tl d h

/-- EVERY RUN OF THE PIPELINE IS A RUN OF THE SERIAL MACHINE — for all goroutine schedules, all
source behaviours, any number of stream generations, parallel fetchers or one: the events the
pipeline performed (`evs`: one `deliver` per executed `storeTask`, one `reorgDetected` per started
revert task with what the fetcher had in its hands, one `iter` per loop iteration), fed to `Impl.run`
from the initial chain, give exactly the pipeline's chain, `currReorg`, running task and the sequence
of everything observable (stores, reverts, feed sends). Hence every theorem above that is stated for
all event lists of `Impl` (`stored_verified_and_extends`, `head_moves_back_only_by_revert`,
`run_accepted_asFound`, `notifications_exact`, …) holds for every schedule of the goroutines. -/
theorem pipeline_run_is_a_serial_run (cfg : Cfg) (c : Chain) (hc : Pipe.Consec c) (acts : List Pipe.Act) :
    let s := Pipe.run cfg (Pipe.St.init c) acts
    (Impl.run cfg (Impl.init c) s.evs).1 = s.impl ∧ (Impl.run cfg (Impl.init c) s.evs).2 = s.obs := by
  intro s
  obtain ⟨es, e1, e2, e3⟩ := Pipe.run_refines (Pipe.Inv.init cfg c hc) acts
  have e0 : (Pipe.St.init c).evs = [] := rfl
  have o0 : (Pipe.St.init c).obs = [] := rfl
  have e1' : s.evs = es := by rw [e0, List.nil_append] at e1; exact e1
  have e3' : s.obs = (Impl.run cfg (Impl.init c) es).2 := by rw [o0, List.nil_append] at e3; exact e3
  rw [e1']
  exact ⟨e2, e3'.symm⟩

/-- Structure of a stream generation, for every schedule: callbacks of the fetchers have run for
exactly the first `fnext` fetchers; the verifiers' queue never holds more items than that; while the
context is live every fetcher callback has submitted exactly one item and the head is `start + vdone`
(blocks are stored in height order, one per executed callback); while a revert task runs no fetcher
is inside a positive reorg check and the head is below every height still being fetched. -/
theorem generation_structure (cfg : Cfg) (c : Chain) (hc : Pipe.Consec c) (acts : List Pipe.Act) :
    let s := Pipe.run cfg (Pipe.St.init c) acts
    s.vdone ≤ s.vq.length ∧ s.vq.length ≤ s.fnext ∧ s.fnext ≤ s.fs.length ∧
    (s.cancelled = false → s.vq.length = s.fnext) ∧
    (s.cancelled = false → s.impl.task = none → nextHeight s.chain = s.start + s.vdone) ∧
    (∀ lpv, s.impl.task = some lpv → nextHeight s.chain < s.start + s.fnext ∧ ∀ j, Pipe.armedSnap (s.f j) = none) := by
  intro s
  have hi := (Pipe.Inv.init cfg c hc).run acts
  exact ⟨hi.ord5, hi.ord4, hi.ord1, hi.nc1, hi.nc3, fun lpv h => ⟨hi.tk1 lpv h, hi.tk2 lpv h⟩⟩

/-- FOR EVERY SCHEDULE, a block is stored only by the verifiers' callback goroutine executing the
`storeTask` of the item that is NEXT in its stream, with the context live, and that block passed
`SanityCheckNewHeight`, carries the number head+1, names the head as parent and claims the root of the
resulting state; no other step of any goroutine (fetchers, `isReverting`, the fetchers' callbacks,
the main loop) stores anything. -/
theorem pipeline_store_is_verified_and_extends (cfg : Cfg) (c : Chain) (acts : List Pipe.Act)
    (a : Pipe.Act) (n h : Nat) :
    let s := Pipe.run cfg (Pipe.St.init c) acts
    let s' := Pipe.step cfg s a
    Obs.stored n h ∈ s'.obs.drop s.obs.length →
      ∃ req b flip, a = .vcb flip ∧ s.vq[s.vdone]? = some (.block req b) ∧ s.cancelled = false ∧
        b.ok = true ∧ b.num = n ∧ b.hash = h ∧ b.num = nextHeight s.chain ∧
        b.parent = expParent s.chain ∧ b.root = rootStep (stateRoot s.chain) b.diff ∧
        s'.chain = b :: s.chain := by
  intro s s' hs
  have nothing : ∀ t : Pipe.St, t.obs = s.obs → Obs.stored n h ∈ t.obs.drop s.obs.length → False := by
    intro t e hm; rw [e] at hm; simp at hm
  cases a with
  | spawn => exact (nothing s' rfl hs).elim
  | fetchOk i b => exact (nothing s' (by simp only [s', Pipe.step]; split <;> rfl) hs).elim
  | fetchCancelled i => exact (nothing s' (by simp only [s', Pipe.step]; split <;> (try split) <;> rfl) hs).elim
  | fetchErr i =>
    refine (nothing s' ?_ hs).elim
    simp only [s', Pipe.step]; split
    · split
      · rfl
      · split <;> rfl
    · rfl
  | localRead i rh =>
    refine (nothing s' ?_ hs).elim
    simp only [s', Pipe.step]; split
    · split
      · rfl
      · split
        · rfl
        · split
          · rfl
          · split
            · rfl
            · split <;> rfl
    · rfl
  | confirm i cb =>
    refine (nothing s' ?_ hs).elim
    simp only [s', Pipe.step]; split
    · split <;> rfl
    · rfl
  | fcb => exact (nothing s' (by simp only [s', Pipe.step]; split <;> rfl) hs).elim
  | newGen => exact (nothing s' (by simp only [s', Pipe.step]; split <;> rfl) hs).elim
  | iter ans revOk =>
    exfalso
    simp only [s', Pipe.step] at hs
    cases ht : s.impl.task with
    | none => simp [ht] at hs
    | some lpv =>
      simp only [ht, List.drop_left] at hs
      obtain ⟨req, b, e, _⟩ := stored_verified_and_extends cfg s.impl _ n h hs
      cases e
  | vcb flip =>
    simp only [s', Pipe.step] at hs ⊢
    cases ht : s.impl.task with
    | some _ => simp [ht] at hs
    | none =>
      simp only [ht] at hs ⊢
      cases hv : s.vq[s.vdone]? with
      | none => simp [hv] at hs
      | some item =>
        cases item with
        | revert i hd tl d => simp [hv, Pipe.setF] at hs
        | block req b =>
          simp only [hv, List.drop_left] at hs ⊢
          obtain ⟨req', b', e, h1, h2, h3, h4, h5, h6, h7⟩ := stored_verified_and_extends cfg s.impl _ n h hs
          injection e with e1 e2 e3
          subst e1 e2
          exact ⟨req, b, flip, rfl, rfl, e3, h1, h2, h3, h4, h5, h6, h7⟩

/-- FOR EVERY SCHEDULE, one step of one goroutine leaves the chain alone, or stores one block on top
(previous theorem), or removes the head inside a running `revertTask` (an explicit `RevertHead`,
observed as `reverted`): the head never moves otherwise, whatever the fetchers and callbacks do. -/
theorem pipeline_head_moves_back_only_by_revert (cfg : Cfg) (c : Chain) (hc : Pipe.Consec c)
    (acts : List Pipe.Act) (a : Pipe.Act) :
    let s := Pipe.run cfg (Pipe.St.init c) acts
    let s' := Pipe.step cfg s a
    s'.chain = s.chain ∨
    (∃ b, s'.chain = b :: s.chain ∧ Obs.stored b.num b.hash ∈ s'.obs.drop s.obs.length) ∨
    (∃ hd lpv, s.chain = hd :: s'.chain ∧ s.impl.task = some lpv ∧
      s'.obs.drop s.obs.length = [Obs.reverted hd.num hd.hash]) := by
  intro s s'
  have hi := (Pipe.Inv.init cfg c hc).run acts
  rcases Pipe.step_refines hi a with ⟨h1, _, _⟩ | ⟨e, _, h2, h3⟩
  · left; show s'.impl.node.chain = s.impl.node.chain; rw [h1]
  · have hd : s'.obs.drop s.obs.length = (s.impl.step cfg e).2 := by rw [h3, List.drop_left]
    rcases head_moves_back_only_by_revert cfg s.impl e with h | ⟨b, ha, hb⟩ | ⟨hd', lpv, ha, hb, hc'⟩
    · left; show s'.impl.node.chain = s.impl.node.chain; rw [h2]; exact h
    · right; left; exact ⟨b, by show s'.impl.node.chain = _; rw [h2]; exact ha, by rw [hd]; exact hb⟩
    · right; right
      exact ⟨hd', lpv, by show s.impl.node.chain = hd' :: s'.impl.node.chain; rw [h2]; exact ha, hb, by rw [hd]; exact hc'⟩

-- non-vacuity: node holds [x1, g]; the source has reorged to [y1, g]. Two fetchers are spawned (heights
-- 2 and 3); the fetch of 2 fails, `isReverting` passes the gate, reads the latest header (1, hash 12),
-- the local header 1 (hash 2), confirms block y1, returns "reorg" (lpv 0); meanwhile fetcher 3 gets an
-- answer OUT OF ORDER (before fetcher 2 returns); callbacks run in order; the revert task starts and
-- reverts x1 after asking; the generation ends; the next one stores y1. The hypotheses of the theorems
-- are met in the intermediate state (a queued decision) and the run is the serial run.
example :
    let g : Blk := ⟨0, 1, 0, true, 0, 0⟩
    let x1 : Blk := ⟨1, 2, 1, true, 0, 0⟩
    let y1 : Blk := ⟨1, 12, 1, true, 0, 0⟩
    let acts1 : List Pipe.Act := [.spawn, .spawn, .fetchErr 0, .fetchOk 1 ⟨3, 9, 9, true, 0, 0⟩,
      .localRead 0 (some ⟨1, 12⟩), .confirm 0 (some y1), .fcb, .fcb]
    let s1 := Pipe.run Cfg.asFound (Pipe.St.init [x1, g]) acts1
    Pipe.Consec [x1, g] ∧
    s1.f 0 = .queued x1 [g] ⟨2, ⟨1, 12⟩, some y1, 0⟩ 0 ∧ s1.chain = [x1, g] ∧
    let s2 := Pipe.run Cfg.asFound s1 [.vcb false, .iter none true, .iter (some ⟨0, 1, 0, true, 0, 0⟩) true,
      .vcb false, .newGen, .spawn, .fetchOk 0 y1, .fcb, .vcb false]
    s2.chain = [y1, g] ∧
    s2.obs = [.reverted 1 2, .stored 1 12, .reorg ⟨1, 2, 1, 2⟩, .newHead 1 12] ∧ s2.start = 1 := by
  intro g x1 y1 acts1 s1
  refine ⟨⟨rfl, trivial⟩, by decide, by decide, ?_⟩
  intro s2
  exact ⟨by decide, by decide, by decide⟩

/-! ## Round 6: what a registered plugin is told (`storeTask` → `plugin.NewBlock`, `revertTask` →
`handlePluginRevertBlock` → `plugin.RevertBlock`), `ModelPlugin.lean` -/

/-- EVERY run of the serial machine (any answers, lies, cancellations, failing `RevertHead`, restarts)
from a well-formed chain: the plugin is told EXACTLY the commits, in commit order — `NewBlock` once per
stored block, `RevertBlock(from, to)` once per revert with `from` = the reverted block and `to` = the
block below it (nil below the genesis) — and nothing else: no call for a refused, cancelled,
mis-numbered or parent-mismatching delivery, none for a breaking iteration or a reorg check. (A
`RevertHead` that FAILS has been announced to the plugin all the same: `expectedCalls` counts
`revertFailed`, see the witness below.) Hypothesis on the inputs: no delivered block names itself as
its parent (collision-free hash). The plugin's own errors are not inputs of the machine: juno only
logs them. -/
theorem plugin_told_exactly_the_commits (cfg : Cfg) (c : Chain) (es : List Ev) (hl : Linked c)
    (hs : ∀ b ∈ c, b.hash ≠ b.parent)
    (he : ∀ req b cancelled, Ev.deliver req b cancelled ∈ es → b.hash ≠ b.parent) :
    Impl.runCalls cfg (Impl.init c) es
      = expectedCalls (stackOf c) (Impl.run cfg (Impl.init c) es).2 := by
  apply plugin_run cfg (Impl.init c) es hl hs
  intro e hm
  cases e with
  | deliver req b cancelled => exact he req b cancelled hm
  | _ => trivial

/-- FOR EVERY SCHEDULE of the goroutines (main loop, fetchers, the two callback goroutines, stream
generations): `plugin.NewBlock` / `plugin.RevertBlock` are called inside `storeTask` / `revertTask`, i.e.
inside the events the pipeline logs (`pipeline_run_is_a_serial_run`); what the plugin is told over the
whole run is the specification applied to everything the PIPELINE committed (`s.obs`). -/
theorem pipeline_plugin_told_exactly_the_commits (cfg : Cfg) (c : Chain) (hl : Linked c)
    (hs : ∀ b ∈ c, b.hash ≠ b.parent) (acts : List Pipe.Act)
    (he : ∀ req b cancelled,
      Ev.deliver req b cancelled ∈ (Pipe.run cfg (Pipe.St.init c) acts).evs → b.hash ≠ b.parent) :
    let s := Pipe.run cfg (Pipe.St.init c) acts
    Impl.runCalls cfg (Impl.init c) s.evs = expectedCalls (stackOf c) s.obs := by
  intro s
  have hc : Pipe.Consec c := by
    clear hs he s
    induction c with
    | nil => trivial
    | cons b tl ih =>
      cases tl with
      | nil => trivial
      | cons b' tl' => exact ⟨hl.1, ih hl.2.2⟩
  rw [← (pipeline_run_is_a_serial_run cfg c hc acts).2]
  exact plugin_told_exactly_the_commits cfg c s.evs hl hs he

/-- Every state with a well-formed chain, every event: the calls of that ONE event are the
specification applied to what the event commits (so between two events the plugin has seen exactly
the commits so far), and well-formedness is kept. -/
theorem plugin_calls_of_one_event (cfg : Cfg) (s : Impl) (e : Ev) (hl : Linked s.node.chain)
    (hs : NoSelf s.node.chain) (he : EvNoSelf e) :
    s.pluginCalls cfg e = expectedCalls (stackOf s.node.chain) (s.step cfg e).2 ∧
    Linked (s.step cfg e).1.node.chain ∧ NoSelf (s.step cfg e).1.node.chain :=
  let ⟨h1, _, h3, h4⟩ := plugin_step cfg s e hl hs he
  ⟨h1, h3, h4⟩

/-- `handlePluginRevertBlock` on a well-formed chain: `from` is the head, `to` the block below it,
nil exactly when the genesis is reverted (`fromBlock.Number != 0` ⇔ there is a block below). -/
theorem plugin_revert_target_is_the_block_below (hd : Blk) (tl : Chain) (hl : Linked (hd :: tl))
    (hs : hd.hash ≠ hd.parent) :
    handlePluginRevertBlock (hd :: tl)
      = [.revertBlock hd.num hd.hash (tl.head?.map (fun b => (b.num, b.hash)))] ∧
    (tl.head? = none ↔ hd.num = 0) := by
  refine ⟨by rw [handle_linked hl hs]; cases tl <;> simp [stackOf], ?_⟩
  have := Linked.head_num hl
  cases tl <;> simp_all

/-- WITNESS (the order of `revertTask`: plugin first, `revertHead` second): when `RevertHead` fails
the plugin has already been told of a revert that did not happen — the chain is unchanged. Database
faults are outside the property's quantifier; stated so that the model says what the code does. -/
theorem plugin_told_of_a_revert_that_failed :
    let g : Blk := ⟨0, 1, 0, true, 0, 0⟩
    let x1 : Blk := ⟨1, 2, 1, true, 0, 0⟩
    let s : Impl := { Impl.init [x1, g] with task := some 0 }
    s.pluginCalls Cfg.asFound (.iter none false) = [.revertBlock 1 2 (some (0, 1))] ∧
    (s.step Cfg.asFound (.iter none false)).1.node.chain = [x1, g] ∧
    (s.step Cfg.asFound (.iter none false)).2 = [Obs.revertFailed 1 2] := by
  decide

-- non-vacuity: a run with a store, a reorg of depth 2 down to the genesis and a refused delivery;
-- the hypotheses of the three theorems hold and the calls are the four commits.
example :
    let g : Blk := ⟨0, 1, 0, true, 0, 0⟩
    let x1 : Blk := ⟨1, 2, 1, true, 0, 0⟩
    let x2 : Blk := ⟨2, 3, 2, true, 0, 0⟩
    let y0 : Blk := ⟨0, 11, 0, true, 0, 0⟩
    let es : List Ev := [.deliver 2 x2 false, .deliver 3 ⟨3, 4, 3, false, 0, 0⟩ false,
      .reorgDetected 3 (some ⟨0, 11⟩) (some y0), .iter none true, .iter none true, .iter (some y0) true,
      .iter none true, .deliver 0 y0 false]
    Linked [x1, g] ∧ NoSelf [x1, g] ∧ (∀ e ∈ es, EvNoSelf e) ∧
    Impl.runCalls Cfg.asFound (Impl.init [x1, g]) es
      = [.newBlock 2 3, .revertBlock 2 3 (some (1, 2)), .revertBlock 1 2 (some (0, 1)),
         .revertBlock 0 1 none, .newBlock 0 11] := by
  intro g x1 x2 y0 es
  refine ⟨⟨rfl, rfl, rfl, rfl⟩, by simp [NoSelf, g, x1], ?_, by decide⟩
  intro e he
  simp only [es, List.mem_cons, List.not_mem_nil, or_false] at he
  rcases he with rfl | rfl | rfl | rfl | rfl | rfl | rfl | rfl <;> simp [EvNoSelf, x2, y0]

end Juno.C06.Props
