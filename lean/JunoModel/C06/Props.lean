import JunoModel.C06.ProofsConv
import JunoModel.C06.ProofsFeed
import JunoModel.C06.ProofsLive
/-!
C06 — property theorems (statements only; lemmas are in `Proofs*.lean`).

Model (`Model.lean`): the SERIAL part of juno's sync pipeline as a transition system `Impl.step`
(every mutation of the chain happens in the callback chain of the `verifiers` stream, one at a
time); what the source answered, in which order things arrive, whether the stream was cancelled are
inputs of the events, so "for all event lists" is "for all source behaviours and all goroutine
schedules" of the part that touches the chain. `Spec.step` is the evidence-based relation the
harness checks observed traces of the real `Synchronizer` against. `cfg : Cfg` selects the code
variant: `Cfg.asFound` = /repo as it is now (the three fixes 4de714c, 6c0318d, 508f9af applied),
`Cfg.original` = the pinned commit before them (what the negation witnesses are about).

Assumptions (recorded in checks/c06.json): block numbers are uint64 values; `RevertHead` succeeds
on a stored head (property C04); block hashes are collision free (`HashInj`) where chains are
compared.
-/
namespace Juno.C06.Props
open Juno.C06

theorem step_reorgDetected (cfg : Cfg) (s : Impl) (next : Nat) (latest : Option Hdr) :
    (s.step cfg (.reorgDetected next latest)).2 = [] ∧
      (s.step cfg (.reorgDetected next latest)).1.node = s.node := by
  cases ht : s.task with
  | some _ => simp [Impl.step, ht]
  | none =>
    cases latest with
    | none => cases hir : isReverting cfg s.node.chain next none <;> simp [Impl.step, ht, hir]
    | some l => cases hir : isReverting cfg s.node.chain next (some l) <;> simp [Impl.step, ht, hir]

/-! ## every block the node stores passed verification and extended the head -/

/-- For EVERY state and EVERY event (no hypothesis): a step that stores a block got that block from
the source (`deliver`), `SanityCheckNewHeight` accepted it (`b.ok`), the stream had not been
cancelled, its number is head+1 (0 on an empty chain) and its parent hash is the head's hash
(`felt.Zero` on an empty chain), and afterwards it is the head. -/
theorem stored_verified_and_extends (cfg : Cfg) (s : Impl) (e : Ev) (n h : Nat)
    (hs : Obs.stored n h ∈ (s.step cfg e).2) :
    ∃ req b, e = .deliver req b false ∧ b.ok = true ∧ b.num = n ∧ b.hash = h ∧
      b.num = nextHeight s.node.chain ∧ b.parent = expParent s.node.chain ∧
      (s.step cfg e).1.node.chain = b :: s.node.chain := by
  cases e with
  | deliver req b c =>
    cases ht : s.task with
    | some _ => simp [Impl.step, ht] at hs
    | none =>
      by_cases hok : b.ok = true
      case neg => simp [Impl.step, ht, hok] at hs
      case pos =>
      cases c with
      | true => simp [Impl.step, ht, hok] at hs
      | false =>
        cases hsucc : succession s.node.chain b with
        | badNumber => simp [Impl.step, ht, hok, hsucc] at hs
        | parentMismatch => simp [Impl.step, ht, hok, hsucc] at hs
        | stored =>
          obtain ⟨h1, h2⟩ := succession_stored hsucc
          have hs' : Obs.stored n h ∈ (onStored s.node b).2 := by
            simpa [Impl.step, ht, hok, hsucc] using hs
          have : b.num = n ∧ b.hash = h := by
            unfold onStored at hs'
            simp only [List.mem_append, List.mem_cons, List.mem_nil_iff, or_false] at hs'
            rcases hs' with (e | e) | e
            · cases e; exact ⟨rfl, rfl⟩
            · cases hr : s.node.reorg <;> simp [reorgObs, hr] at e
            · cases e
          exact ⟨req, b, rfl, hok, this.1, this.2, h1, h2, by simp [Impl.step, ht, hok, hsucc, onStored]⟩
  | reorgDetected next latest =>
    rw [(step_reorgDetected cfg s next latest).1] at hs; cases hs
  | iter ans revOk =>
    cases ht : s.task with
    | none => simp [Impl.step, ht] at hs
    | some lpv =>
      cases hch : s.node.chain with
      | nil => simp [Impl.step, ht, hch] at hs
      | cons H T =>
        cases hit : revertIter cfg lpv H ans with
        | brk => simp [Impl.step, ht, hch, hit] at hs
        | revert cont => cases revOk <;> simp [Impl.step, ht, hch, hit, revertHead] at hs
  | restart => cases ht : s.task <;> simp [Impl.step, ht] at hs

/-- WHERE the number is checked. `fetcherTask` hands on whatever block the source returned for a
height — it never compares `block.Number` with the height it asked for (in the model: the `req`
of `deliver` influences nothing but the ghost evidence). -/
theorem request_height_is_irrelevant (cfg : Cfg) (s : Impl) (r r' : Nat) (b : Blk) (c : Bool) :
    (s.step cfg (.deliver r b c)).1.node = (s.step cfg (.deliver r' b c)).1.node ∧
    (s.step cfg (.deliver r b c)).1.task = (s.step cfg (.deliver r' b c)).1.task ∧
    (s.step cfg (.deliver r b c)).2 = (s.step cfg (.deliver r' b c)).2 := by
  cases ht : s.task with
  | some _ => simp [Impl.step, ht]
  | none =>
    by_cases hok : b.ok = true
    case neg => simp [Impl.step, ht, hok]
    case pos =>
    cases c with
    | true => simp [Impl.step, ht, hok]
    | false =>
      cases hsucc : succession s.node.chain b <;> simp [Impl.step, ht, hok, hsucc, onStored]

/-- … it is `Store` (`verifyBlockSuccession`) that enforces "number = head + 1" (0 on an empty
chain): a block with any other number changes nothing, whatever height it was fetched for and
however valid it is. -/
theorem wrong_number_never_stored (cfg : Cfg) (s : Impl) (r : Nat) (b : Blk) (c : Bool)
    (hn : b.num ≠ nextHeight s.node.chain) :
    (s.step cfg (.deliver r b c)).1.node = s.node ∧ (s.step cfg (.deliver r b c)).2 = [] ∧
    (s.step cfg (.deliver r b c)).1.task = s.task := by
  have hbad : ∀ (x : StoreRes), succession s.node.chain b = x → x = .badNumber := by
    intro x hx
    rw [succession_def] at hx
    have : (nextHeight s.node.chain != b.num) = true := by simpa using fun e => hn e.symm
    simp [this] at hx; exact hx.symm
  cases ht : s.task with
  | some _ => simp [Impl.step, ht]
  | none =>
    by_cases hok : b.ok = true
    case neg => simp [Impl.step, ht, hok]
    case pos =>
    cases c with
    | true => simp [Impl.step, ht, hok]
    | false =>
      have := hbad _ rfl
      simp [Impl.step, ht, hok, this]

/-- On an empty chain only a block numbered 0 whose parent hash is `felt.Zero` can be stored (no
"genesis shortcut" for other blocks). -/
theorem genesis_must_be_block_zero (cfg : Cfg) (s : Impl) (e : Ev) (n h : Nat)
    (hempty : s.node.chain = []) (hs : Obs.stored n h ∈ (s.step cfg e).2) :
    n = 0 ∧ ∃ req b, e = .deliver req b false ∧ b.num = 0 ∧ b.parent = 0 ∧ b.ok = true := by
  obtain ⟨req, b, he, hok, hnum, _, hnext, hpar, _⟩ := stored_verified_and_extends cfg s e n h hs
  rw [hempty] at hnext hpar
  exact ⟨by rw [← hnum]; exact hnext, req, b, he, hnext, hpar, hok⟩

/-! ## the head only moves backwards by explicit reverts -/

/-- For EVERY state and EVERY event: the chain is unchanged, or grew by one stored block, or lost
exactly its head in an explicit revert (`RevertHead`, reported as `reverted`), which only a running
`revertTask` does. -/
theorem head_moves_back_only_by_revert (cfg : Cfg) (s : Impl) (e : Ev) :
    (s.step cfg e).1.node.chain = s.node.chain ∨
    (∃ b, (s.step cfg e).1.node.chain = b :: s.node.chain ∧ Obs.stored b.num b.hash ∈ (s.step cfg e).2) ∨
    (∃ hd lpv, s.node.chain = hd :: (s.step cfg e).1.node.chain ∧ s.task = some lpv ∧
      (s.step cfg e).2 = [Obs.reverted hd.num hd.hash]) := by
  cases e with
  | deliver req b c =>
    cases ht : s.task with
    | some _ => left; simp [Impl.step, ht]
    | none =>
      by_cases hok : b.ok = true
      case neg => left; simp [Impl.step, ht, hok]
      case pos =>
      cases c with
      | true => left; simp [Impl.step, ht, hok]
      | false =>
        cases hsucc : succession s.node.chain b with
        | badNumber => left; simp [Impl.step, ht, hok, hsucc]
        | parentMismatch => left; simp [Impl.step, ht, hok, hsucc]
        | stored => right; left; exact ⟨b, by simp [Impl.step, ht, hok, hsucc, onStored]⟩
  | reorgDetected next latest =>
    left; rw [(step_reorgDetected cfg s next latest).2]
  | iter ans revOk =>
    cases ht : s.task with
    | none => left; simp [Impl.step, ht]
    | some lpv =>
      cases hch : s.node.chain with
      | nil => left; simp [Impl.step, ht, hch]
      | cons H T =>
        cases hit : revertIter cfg lpv H ans with
        | brk =>
          left
          by_cases hle : H.num ≤ lpv
          · cases ans <;> simp [Impl.step, ht, hch, hit, hle]
          · simp [Impl.step, ht, hch, hit, hle]
        | revert cont =>
          cases revOk with
          | false =>
            left
            by_cases hle : H.num ≤ lpv
            · cases ans <;> simp [Impl.step, ht, hch, hit, hle, revertHead]
            · simp [Impl.step, ht, hch, hit, hle, revertHead]
          | true =>
            right; right
            refine ⟨H, lpv, ?_, rfl, ?_⟩
            · by_cases hle : H.num ≤ lpv
              · cases ans <;> simp [Impl.step, ht, hch, hit, hle, revertHead]
              · simp [Impl.step, ht, hch, hit, hle, revertHead]
            · simp [Impl.step, ht, hch, hit, revertHead]
  | restart => left; cases ht : s.task <;> simp [Impl.step, ht]

/-- Conditions on the environment of a run that do not depend on the state: block numbers are
uint64 values and `RevertHead` succeeds. -/
def EnvOK : List Ev → Prop
  | [] => True
  | .deliver _ b _ :: es => b.num < U64 ∧ EnvOK es
  | .iter _ revOk :: es => revOk = true ∧ EnvOK es
  | _ :: es => EnvOK es

theorem EnvOK.runOK {cfg : Cfg} (hn : cfg.numCheck = true) :
    ∀ (es : List Ev) (s : Impl), EnvOK es → s.runOK cfg es
  | [], _, _ => trivial
  | .deliver _ _ _ :: es, s, h => ⟨h.1, EnvOK.runOK hn es _ h.2⟩
  | .reorgDetected _ _ :: es, s, h => ⟨trivial, EnvOK.runOK hn es _ h⟩
  | .iter _ _ :: es, s, h =>
    ⟨⟨h.1, fun hf => by rw [hn] at hf; cases hf⟩, EnvOK.runOK hn es _ h.2⟩
  | .restart :: es, s, h => ⟨trivial, EnvOK.runOK hn es _ h⟩

/-- REFINEMENT. Every run of the machine from a well-formed chain — whatever the source answers, in
whatever order — is accepted by the evidence-based relation `Spec`: every stored block was served,
verified and extends the head; every revert removes the head and is justified by an answer of the
source (`justified`); the notifications are exactly the ones owed, in order; nothing stays owed.
`Impl.runOK` asks: uint64 block numbers, `RevertHead` succeeds, and — only if the code does not
check it itself (`cfg.numCheck = false`, the original code) — that `revertTask`'s
`BlockByNumber(h)` is answered with a block numbered `h`. The STRICT relation (no revert is ever
decided on a successor block fetched earlier) holds for the code that confirms the head first
(`cfg.confirmHead`). -/
theorem run_accepted (cfg : Cfg) (strict : Bool) (hsc : strict = true → cfg.confirmHead = true)
    (c : Chain) (es : List Ev) (hl : Linked c)
    (hb : ∀ x ∈ c, x.num < U64) (hok : (Impl.init c).runOK cfg es) :
    ∃ sp, Spec.run strict (Spec.init c) ((Impl.init c).trace cfg es) = .ok sp ∧
      sp.chain = (Impl.run cfg (Impl.init c) es).1.node.chain ∧ sp.owed = [] := by
  obtain ⟨sp, hr, hs⟩ := Sim.run cfg hsc es (Sim.init hl hb) hok
  exact ⟨sp, hr, hs.chain, hs.owed⟩

/-- REACHABILITY. The well-formedness `run_accepted` asks of the initial chain is an invariant:
every chain the machine produces (numbers 0,1,2,…, each block naming its predecessor's hash,
genesis parent `felt.Zero`, numbers uint64) is well-formed again — in particular every chain
reachable from the EMPTY database, for which the hypotheses hold trivially. -/
theorem chain_stays_linked (cfg : Cfg) (c : Chain) (es : List Ev) (hl : Linked c)
    (hb : ∀ x ∈ c, x.num < U64) (hok : (Impl.init c).runOK cfg es) :
    Linked (Impl.run cfg (Impl.init c) es).1.node.chain ∧
      ∀ x ∈ (Impl.run cfg (Impl.init c) es).1.node.chain, x.num < U64 := by
  obtain ⟨sp, _, hs⟩ := Sim.run cfg (strict := false) (fun h => by cases h) es (Sim.init hl hb) hok
  exact ⟨hs.linked, hs.bound⟩

theorem reachable_from_empty_linked (cfg : Cfg) (es : List Ev) (hok : (Impl.init []).runOK cfg es) :
    Linked (Impl.run cfg (Impl.init []) es).1.node.chain :=
  (chain_stays_linked cfg [] es trivial (by intro x hx; cases hx) hok).1

/-- With the number check in `revertTask` and the head confirmation in `storeTask` (proposed
fixes) the refinement needs no assumption about the source at all, and holds for the strict
relation. -/
theorem run_accepted_fixed (cfg : Cfg) (hn : cfg.numCheck = true) (hc : cfg.confirmHead = true)
    (c : Chain) (es : List Ev) (hl : Linked c) (hb : ∀ x ∈ c, x.num < U64) (he : EnvOK es) :
    ∃ sp, Spec.run true (Spec.init c) ((Impl.init c).trace cfg es) = .ok sp ∧
      sp.chain = (Impl.run cfg (Impl.init c) es).1.node.chain ∧ sp.owed = [] :=
  run_accepted cfg true (fun _ => hc) c es hl hb (EnvOK.runOK hn es _ he)

/-- THE CODE AS IT IS NOW (`Cfg.asFound`, the three fixes applied): every run, whatever the source
does, is accepted by the STRICT relation; the only assumptions left are uint64 block numbers and a
succeeding `RevertHead`. (The two `rfl`s are the tie to the switch: they fail if a field of
`Cfg.asFound` goes back to `false`.) -/
theorem run_accepted_asFound (c : Chain) (es : List Ev) (hl : Linked c)
    (hb : ∀ x ∈ c, x.num < U64) (he : EnvOK es) :
    ∃ sp, Spec.run true (Spec.init c) ((Impl.init c).trace Cfg.asFound es) = .ok sp ∧
      sp.chain = (Impl.run Cfg.asFound (Impl.init c) es).1.node.chain ∧ sp.owed = [] :=
  run_accepted_fixed Cfg.asFound rfl rfl c es hl hb he

/- FULL-STRENGTH statement for the ORIGINAL code — `run_accepted_fixed` with `cfg := Cfg.original` —
is FALSE, in two ways: (1) `revertTask` compares only hashes, so one answer carrying another block
number makes it revert a block without any evidence against it
(`wrong_number_answer_reverts_unjustified`); (2) `storeTask` reverts the head on a successor block
that may have been fetched before the head was stored (`stale_answer_reverts_live_block`). Proved
part: the non-strict relation, assuming well-numbered answers (`Impl.runOK`). Both defects are
repaired in /repo (6c0318d, 508f9af). -/
theorem run_accepted_original_partial (c : Chain) (es : List Ev) (hl : Linked c)
    (hb : ∀ x ∈ c, x.num < U64) (hok : (Impl.init c).runOK Cfg.original es) :
    ∃ sp, Spec.run false (Spec.init c) ((Impl.init c).trace Cfg.original es) = .ok sp ∧
      sp.chain = (Impl.run Cfg.original (Impl.init c) es).1.node.chain ∧ sp.owed = [] :=
  run_accepted Cfg.original false (fun h => by cases h) c es hl hb hok

/-- why the acceptor rejected a trace (`none` = accepted) -/
def rejectOf : Except Reject Spec → Option Reject
  | .ok _ => none
  | .error r => some r

/-- Negation witness (finding `revert-decided-on-answer-with-wrong-block-number`): node on
`[g, x1]`. A latest header `(1, 99)` that differs from the node's block 1 starts `revertTask(0)`:
block 1 is reverted (justified). For block 0 the task asks the source; the source answers
`BlockByNumber(0)` with its valid block number 2: the hashes differ, so the original code reverts
the genesis too — no answer of the source contradicts it, `Spec` rejects the trace. With the number
check the task breaks instead. -/
theorem wrong_number_answer_reverts_unjustified :
    let g : Blk := ⟨0, 1, 0, true⟩
    let x1 : Blk := ⟨1, 2, 1, true⟩
    let x2 : Blk := ⟨2, 3, 2, true⟩
    let es : List Ev := [.reorgDetected 2 (some ⟨1, 99⟩), .iter none true, .iter (some x2) true]
    EnvOK es ∧
    (Impl.run Cfg.original (Impl.init [x1, g]) es).2 = [Obs.reverted 1 2, Obs.reverted 0 1] ∧
    rejectOf (Spec.run false (Spec.init [x1, g]) ((Impl.init [x1, g]).trace Cfg.original es)) =
      some .revertNotJustified ∧
    (Impl.run Cfg.fixed (Impl.init [x1, g]) es).2 = [Obs.reverted 1 2] ∧
    rejectOf (Spec.run true (Spec.init [x1, g]) ((Impl.init [x1, g]).trace Cfg.fixed es)) = none := by
  refine ⟨⟨rfl, rfl, trivial⟩, by decide, by decide, by decide, by decide⟩

/-! ## reverts remove only blocks the source no longer has -/

/-- What acceptance of a revert means: the block is the head and the source has contradicted it. -/
theorem accepted_revert_is_justified (strict : Bool) (s s' : Spec) (n h : Nat)
    (hst : Spec.step strict s (.obs (.reverted n h)) = .ok s') :
    ∃ hd tl, s.chain = hd :: tl ∧ hd.num = n ∧ hd.hash = h ∧ justified strict s.ev s.chain hd = true ∧
      s'.chain = tl := by
  obtain ⟨hd, tl, h1, h2, h3, h4, h5⟩ := Spec.reverted_inv hst
  exact ⟨hd, tl, h1, h2, h3, h4, by rw [h5]⟩

/-- Soundness of the evidence: if every answer the node has seen so far is true of ONE chain `src`
(served blocks are blocks of `src`, latest headers — possibly stale — are headers of blocks of
`src`) and hashes are collision free, a justified revert removes a block `src` does not contain. -/
theorem justified_revert_not_in_source (strict : Bool) (u : List Blk) (hi : HashInj u) (ev : Evidence)
    (src : Chain) (hd : Blk) (tl : Chain) (hlc : Linked (hd :: tl)) (hls : Linked src)
    (hcu : ∀ x ∈ hd :: tl, x ∈ u) (hsu : ∀ x ∈ src, x ∈ u)
    (hon : Honest ev src) (hj : justified strict ev (hd :: tl) hd = true) : hd ∉ src :=
  justified_sound hi rfl hlc hls hcu hsu hon hj

/-- Negation witness (finding `reverted-live-block-on-successor-fetched-before-the-reorg`): answers
that were each true when given but belong to DIFFERENT chains of the source do cause the revert of
a block the source holds now. Source was `[g, a1, a2]`, is now `[g, b1]`; the node already stored
`b1` (fetched after the reorg); the block `a2`, fetched before the reorg by a parallel fetcher,
arrives: `ErrParentDoesNotMatchHead`, `revertTask(0)` reverts `b1` without asking. The non-strict
relation accepts this (a verified successor with another parent was served), the strict one
rejects it; the code that confirms the head first asks for block 1, gets `b1`, and keeps it. -/
theorem stale_answer_reverts_live_block :
    let g : Blk := ⟨0, 1, 0, true⟩
    let b1 : Blk := ⟨1, 20, 1, true⟩
    let a2 : Blk := ⟨2, 11, 10, true⟩
    let es : List Ev := [.deliver 2 a2 false, .iter (some b1) true]
    EnvOK es ∧
    (Impl.run Cfg.original (Impl.init [b1, g]) es).2 = [Obs.reverted 1 20] ∧
    rejectOf (Spec.run false (Spec.init [b1, g]) ((Impl.init [b1, g]).trace Cfg.original es)) = none ∧
    rejectOf (Spec.run true (Spec.init [b1, g]) ((Impl.init [b1, g]).trace Cfg.original es)) =
      some .revertNotJustified ∧
    (Impl.run Cfg.fixed (Impl.init [b1, g]) es).2 = [] := by
  exact ⟨⟨by decide, rfl, trivial⟩, by decide, by decide, by decide, by decide⟩

/-! ## notifications are exact -/

/-- In every run (same conditions as `run_accepted`) the feed sends are EXACTLY the ones the
commits demand, in order: per stored block one new-head notification, preceded — iff blocks were
reverted since the previous store — by one reorg notification whose range starts at the last block
reverted and ends at the first one (`expectedNotifs`, `rangeNH`). -/
theorem notifications_exact (cfg : Cfg) (c : Chain) (es : List Ev) (hl : Linked c)
    (hb : ∀ x ∈ c, x.num < U64) (hok : (Impl.init c).runOK cfg es) :
    notifsOf ((Impl.init c).trace cfg es) = expectedNotifs [] ((Impl.init c).trace cfg es) := by
  obtain ⟨sp, hr, _, ho⟩ := run_accepted cfg false (fun h => by cases h) c es hl hb hok
  have := Spec.notifs_balance false _ _ _ hr
  simpa [Spec.init, ho] using this.symm

/-- The same for any trace the acceptor accepts with nothing owed before or after (this is what
the harness establishes for each observed run of the real Synchronizer). -/
theorem accepted_notifications_exact (strict : Bool) (s s' : Spec) (tr : List SEv)
    (hr : Spec.run strict s tr = .ok s')
    (h0 : s.owed = []) (h1 : s'.owed = []) :
    notifsOf tr = expectedNotifs (s.pending.map (fun b => (b.num, b.hash))) tr := by
  have := Spec.notifs_balance strict _ _ _ hr
  simpa [h0, h1] using this.symm

/-- When `RevertHead` fails the code still extends `currReorg`: the next reorg notification then
covers a block that was not reverted (witness; this is why `EnvOK` asks for `revOk`). -/
theorem failed_revert_makes_reorg_range_wrong :
    let g : Blk := ⟨0, 1, 0, true⟩
    let x1 : Blk := ⟨1, 2, 1, true⟩
    let y2 : Blk := ⟨2, 30, 2, true⟩
    let es : List Ev := [.reorgDetected 2 (some ⟨0, 77⟩), .iter (some ⟨1, 55, 1, true⟩) false,
      .deliver 2 y2 false]
    (Impl.run Cfg.original (Impl.init [x1, g]) es).2 =
      [Obs.revertFailed 1 2, Obs.stored 2 30, Obs.reorg ⟨1, 2, 1, 2⟩, Obs.newHead 2 30] := by
  decide

/-! ## convergence of the canonical sequential schedule -/

/-- Against a stable honest source (`Setting`: a well-formed chain of verified blocks, shorter than
2^64, collision-free hashes) the restart loop's canonical sequential schedule reaches
`node.chain = source.chain` within `|source| + |node| + 1` rounds and stays there, from every
well-formed node chain such that (i) the source's chain is not a proper prefix of the node's
(`Good.notTrunc`) and (ii) `Good.noUnderflow`: the code has the `remoteHeight = 0` guard, or the
source holds more than one block, or the node holds at most one. Terminating measure: `measure`.
PARTIAL because of (ii): the full-strength statement (without it) is false for the original code,
see `no_convergence_remote_height_zero`. For schedules other than this one see
`liveness_fair_partial`. -/
theorem convergence_sequential_partial (cfg : Cfg) (u : List Blk) (src : Chain) (n : Node)
    (S : Setting u src) (G : Good cfg u src n.chain) (k : Nat)
    (hk : src.length + n.chain.length + 1 ≤ k) :
    (runRounds cfg src k n).1.chain = src :=
  runRounds_chain S k n G (Nat.le_trans (measure_le _ _) hk)

/-- With the proposed `remoteHeight = 0` guard, hypothesis (ii) disappears. -/
theorem convergence_sequential_fixed (cfg : Cfg) (hz : cfg.zeroGuard = true) (u : List Blk)
    (src c : Chain) (r : Option Range) (S : Setting u src) (hl : Linked c) (hu : ∀ b ∈ c, b ∈ u)
    (hb : c.length < U64) (ht : src <:+ c → src = c) (k : Nat)
    (hk : src.length + c.length + 1 ≤ k) :
    (runRounds cfg src k ⟨c, r⟩).1.chain = src :=
  convergence_sequential_partial cfg u src ⟨c, r⟩ S ⟨hl, hu, hb, ht, Or.inl hz⟩ k hk

/-- THE CODE AS IT IS NOW: convergence of the sequential schedule without the underflow
hypothesis (`rfl` ties it to the switch). -/
theorem convergence_sequential_asFound (u : List Blk)
    (src c : Chain) (r : Option Range) (S : Setting u src) (hl : Linked c) (hu : ∀ b ∈ c, b ∈ u)
    (hb : c.length < U64) (ht : src <:+ c → src = c) (k : Nat)
    (hk : src.length + c.length + 1 ≤ k) :
    (runRounds Cfg.asFound src k ⟨c, r⟩).1.chain = src :=
  convergence_sequential_fixed Cfg.asFound rfl u src c r S hl hu hb ht k hk

/-- Negation witness (finding `no-convergence-when-source-chain-is-a-different-genesis-only`):
source `[g']`, node `[g, x1]`: `isReverting` returns `remoteHeight - 1 = 2^64-1`, `revertTask` asks
for block 1, the source has none, the loop breaks; every round leaves the node unchanged, for ever.
The guard repairs it. -/
theorem no_convergence_remote_height_zero :
    let g : Blk := ⟨0, 1, 0, true⟩
    let x1 : Blk := ⟨1, 2, 1, true⟩
    let g' : Blk := ⟨0, 50, 0, true⟩
    (∀ k, (runRounds Cfg.original [g'] k ⟨[x1, g], none⟩).1.chain = [x1, g]) ∧
    (runRounds Cfg.fixed [g'] 4 ⟨[x1, g], none⟩).1.chain = [g'] := by
  refine ⟨?_, by decide⟩
  intro k
  induction k with
  | zero => rfl
  | succ k ih =>
    have hr : round Cfg.original [⟨0, 50, 0, true⟩] ⟨[⟨1, 2, 1, true⟩, ⟨0, 1, 0, true⟩], none⟩ =
        (⟨[⟨1, 2, 1, true⟩, ⟨0, 1, 0, true⟩], none⟩, []) := by decide
    have hstep : (runRounds Cfg.original [⟨0, 50, 0, true⟩] (k + 1)
          ⟨[⟨1, 2, 1, true⟩, ⟨0, 1, 0, true⟩], none⟩).1 =
        (runRounds Cfg.original [⟨0, 50, 0, true⟩] k
          (round Cfg.original [⟨0, 50, 0, true⟩] ⟨[⟨1, 2, 1, true⟩, ⟨0, 1, 0, true⟩], none⟩).1).1 := rfl
    rw [hstep, hr]; exact ih

/-! ## liveness beyond the sequential schedule -/

/-- SAFETY OF PROGRESS. With a stable honest source, NO event of the serial machine — a block of
the source delivered late, twice, out of order, for another height, cancelled; a failed fetch with a
stale latest header; a revert-task iteration whose request failed; a restart — ever moves the node
away from the source's chain: the invariant is kept and the terminating measure does not increase.
(`HonestEv`: the answers are truthful about `src`; nothing is assumed about their order.) -/
theorem honest_event_never_moves_away (cfg : Cfg) (u : List Blk) (src : Chain) (S : Setting u src)
    (s : Impl) (I : LInv cfg u src s) (e : Ev) (he : HonestEv src s e) :
    LInv cfg u src (s.step cfg e).1 ∧
      measure src (s.step cfg e).1.node.chain ≤ measure src s.node.chain :=
  honest_step S I e he

/-- LIVENESS UNDER FAIR INTERLEAVINGS. Take ANY event sequence in which every event is honest
(`FairRun.other`: arbitrary interleaving of late/duplicate/out-of-order/cancelled deliveries, failing
requests, stale heads, restarts) and which contains `k` undisturbed cycles for the then-next height
(`FairRun.round`: the fetched block or the failed fetch + latest header, followed by the iterations
of the revert task it starts — contiguous in the serial callback chain — with the requests
succeeding). If `k ≥ measure` (at most `|source| + |node| + 1`) the run ends with
`node.chain = source.chain`. I.e. convergence needs only that the pipeline gets, `measure` times,
an answered request for its next height; everything else that happens in between is harmless.
Same assumptions on the chains as `convergence_sequential_partial` (`Good`). -/
theorem liveness_fair_partial (cfg : Cfg) (u : List Blk) (src c : Chain) (S : Setting u src)
    (G : Good cfg u src c) (k : Nat) (es : List Ev)
    (h : FairRun cfg src (Impl.init c) k es) (hk : src.length + c.length + 1 ≤ k) :
    (Impl.run cfg (Impl.init c) es).1.node.chain = src :=
  fair_run_converges S h ⟨G, by intro l hl; cases hl⟩ (Nat.le_trans (measure_le _ _) hk)

/-- THE CODE AS IT IS NOW: the same without the underflow hypothesis. -/
theorem liveness_fair_asFound (u : List Blk) (src c : Chain) (S : Setting u src)
    (hl : Linked c) (hu : ∀ b ∈ c, b ∈ u) (hb : c.length < U64) (ht : src <:+ c → src = c)
    (k : Nat) (es : List Ev) (h : FairRun Cfg.asFound src (Impl.init c) k es)
    (hk : src.length + c.length + 1 ≤ k) :
    (Impl.run Cfg.asFound (Impl.init c) es).1.node.chain = src :=
  liveness_fair_partial Cfg.asFound u src c S ⟨hl, hu, hb, ht, Or.inl rfl⟩ k es h hk

/-- An undisturbed cycle, run on the event machine, does to the chain exactly what `round` (the
function the harness compares with the real synchroniser) does; all its events are honest and it
ends with no revert task running. -/
theorem round_events_refine_round (cfg : Cfg) (src : Chain) (s : Impl) (ht : s.task = none) :
    HonestRun cfg src s (roundEvents cfg src s.node.chain) ∧
    (Impl.run cfg s (roundEvents cfg src s.node.chain)).1.node.chain = (round cfg src s.node).1.chain ∧
    (Impl.run cfg s (roundEvents cfg src s.node.chain)).1.task = none :=
  roundEvents_spec cfg src s ht

/-! ## the uint64 subtractions -/

/-- `block.Number - 2` (storeTask) wraps for blocks 0 and 1, `remoteHeight - 1` (isReverting) for
remote height 0: the result is at least 2^64-2, so for every head numbered below that `revertTask`
takes the checking branch — it never reverts without comparing hashes (harmless for safety; for
`remoteHeight - 1` it cost liveness in the original code, see above). -/
theorem underflow_always_compares (cfg : Cfg) (hd : Blk) (ans : Option Blk) (lpv : Nat)
    (hl : lpv = sub64 0 2 ∨ lpv = sub64 1 2 ∨ lpv = sub64 0 1) (hn : hd.num < U64 - 2) :
    revertIter cfg lpv hd ans = .brk ∨
      ∃ rb cont, ans = some rb ∧ rb.hash ≠ hd.hash ∧ revertIter cfg lpv hd ans = .revert cont := by
  have hle : hd.num ≤ lpv := by
    have e1 : sub64 0 2 = U64 - 2 := by decide
    have e2 : sub64 1 2 = U64 - 1 := by decide
    have e3 : sub64 0 1 = U64 - 1 := by decide
    rcases hl with h | h | h <;> rw [h] <;> unfold U64 at * <;> omega
  cases hit : revertIter cfg lpv hd ans with
  | brk => exact Or.inl rfl
  | revert cont =>
    obtain ⟨rb, h1, h2⟩ := revertIter_checked hle hit
    exact Or.inr ⟨rb, cont, h1, h2, rfl⟩

/-- No wrap in the ordinary cases: the arithmetic is what the comments in the code say. -/
theorem sub64_no_wrap (a b : Nat) (hb : b ≤ a) (ha : a < U64) : sub64 a b = a - b :=
  sub64_of_le hb ha

/-! ## the feeds: notifications are per subscriber (`ModelFeed.lean`, `feed/feed.go`) -/

/-- For EVERY history of subscribe / unsubscribe / send / receive operations: the ids in `f.subs`
are pairwise distinct, and no two `Subscription` objects (open or not) ever carry the same id. -/
theorem feed_ids_unique (ops : List Feed.Op) :
    ((Feed.run .fresh Feed.init ops).1.map.map Prod.fst).Nodup ∧
    ∀ (h h' : Nat) (o o' : Feed.Obj), (Feed.run .fresh Feed.init ops).1.objs[h]? = some o →
      (Feed.run .fresh Feed.init ops).1.objs[h']? = some o' → o.id = o'.id → h = h' := by
  have hI := Feed.Inv.init.run ops
  refine ⟨hI.nodup, ?_⟩
  intro h h' o o' ho ho' e
  exact hI.inj h h' o.id o.closed o'.closed (Feed.shape_get ho) (by rw [e]; exact Feed.shape_get ho')

/-- For every history: a subscription is open (not unsubscribed) exactly when `f.subs` leads to it,
i.e. exactly the open subscriptions are offered each sent value. -/
theorem feed_open_iff_registered (ops : List Feed.Op) (h : Nat) (o : Feed.Obj)
    (ho : (Feed.run .fresh Feed.init ops).1.objs[h]? = some o) :
    o.closed = false ↔ Feed.inMap (Feed.run .fresh Feed.init ops).1.map h = true :=
  (Feed.Inv.init.run ops).live h o.id o.closed (Feed.shape_get ho)

/-- DELIVERY TO ONE SUBSCRIBER IS INDEPENDENT OF THE OTHERS. After any history `pre`, for any
continuation `ops`, the state of subscription `h` (its 1-slot channel and closed flag — hence
everything its owner can receive) is the fold of `soloStep h`, a function that looks only at the
sends, at `h`'s own unsubscribe and at `h`'s own receives: subscribing, unsubscribing (once or
twice) and receiving by other handles, in any order, cannot change what `h` gets. -/
theorem feed_delivery_independent (pre ops : List Feed.Op) (h : Nat) (o : Feed.Obj)
    (ho : (Feed.run .fresh Feed.init pre).1.objs[h]? = some o) :
    (Feed.run .fresh (Feed.run .fresh Feed.init pre).1 ops).1.objs[h]? =
      some (ops.foldl (Feed.soloStep h) o) :=
  Feed.run_solo (Feed.Inv.init.run pre) h o ho ops

/-- Negation witness for the id scheme `id = len(f.subs)` (a seeded change to feed.go): A and B
subscribe, A unsubscribes, C subscribes and gets B's id: B is silently dropped from the map — the
value 7 sent afterwards reaches C but not B — and B's unsubscribe then removes C, which misses 8.
With fresh ids both B and C receive 7, and C receives 8. -/
theorem feed_len_ids_lose_a_subscriber :
    let ops : List Feed.Op := [.subscribe false, .subscribe false, .unsubscribe 0, .subscribe false,
      .send 7, .recv 1, .recv 2, .unsubscribe 1, .send 8, .recv 2]
    (Feed.run .lenOfMap Feed.init ops).2 =
      [.handle 0, .handle 1, .ok, .handle 2, .ok, .empty, .val 7, .ok, .ok, .empty] ∧
    (Feed.run .fresh Feed.init ops).2 =
      [.handle 0, .handle 1, .ok, .handle 2, .ok, .val 7, .val 7, .ok, .ok, .val 8] := by
  decide

/-! ## non-vacuity -/

-- a catch-up + reorg run that satisfies every hypothesis of `run_accepted` and does something
example :
    let g : Blk := ⟨0, 1, 0, true⟩
    let x1 : Blk := ⟨1, 2, 1, true⟩
    let y1 : Blk := ⟨1, 12, 1, true⟩
    let y2 : Blk := ⟨2, 13, 12, true⟩
    let es : List Ev := [.deliver 0 g false, .deliver 1 x1 false, .deliver 2 y2 false,
      .iter (some y1) true, .iter (some g) true, .deliver 1 y1 false, .deliver 2 y2 false]
    Linked ([] : Chain) ∧ EnvOK es ∧
    (Impl.run Cfg.fixed (Impl.init []) es).2 =
      [.stored 0 1, .newHead 0 1, .stored 1 2, .newHead 1 2, .reverted 1 2,
       .stored 1 12, .reorg ⟨1, 2, 1, 2⟩, .newHead 1 12, .stored 2 13, .newHead 2 13] ∧
    (Impl.run Cfg.original (Impl.init []) es).2 = (Impl.run Cfg.fixed (Impl.init []) es).2 := by
  refine ⟨trivial, ?_, by decide, by decide⟩
  exact ⟨by decide, by decide, by decide, rfl, rfl, by decide, by decide, trivial⟩

-- a fair run with junk between the cycles (hypotheses of `liveness_fair_partial` are satisfiable)
example :
    let g : Blk := ⟨0, 1, 0, true⟩
    let x1 : Blk := ⟨1, 2, 1, true⟩
    let y1 : Blk := ⟨1, 12, 1, true⟩
    FairRun Cfg.asFound [y1, g] (Impl.init [x1, g]) 1
      (Ev.deliver 7 g true :: Ev.restart :: (roundEvents Cfg.asFound [y1, g] [x1, g] ++ [])) :=
  FairRun.other _ _ _ _ (by show (_ : Blk) ∈ _; decide) (FairRun.other _ _ _ _ trivial
    (FairRun.round _ [] 0 rfl (FairRun.done _)))

-- a setting and a node chain that satisfy the hypotheses of `convergence_sequential_partial`
example :
    let g : Blk := ⟨0, 1, 0, true⟩
    let x1 : Blk := ⟨1, 2, 1, true⟩
    let y1 : Blk := ⟨1, 12, 1, true⟩
    (runRounds Cfg.original [y1, g] 5 ⟨[x1, g], none⟩).1.chain = [y1, g] ∧
    (runRounds Cfg.original [y1, g] 5 ⟨[x1, g], none⟩).2 =
      [.reverted 1 2, .stored 1 12, .reorg ⟨1, 2, 1, 2⟩, .newHead 1 12] := by decide

end Juno.C06.Props
