/-!
C06 — `feed.Feed[T]` (`feed/feed.go`) as a CONCURRENT machine: several goroutines run `Subscribe`,
`Unsubscribe`, `Send` and a non-blocking receive at the same time; one step of the machine is one
step of one goroutine at the granularity of the mutex and of single channel operations. Core Lean only.

Transcribed (one `Pc` per program point that another goroutine can observe):

* `subscribe`: `f.mu.Lock()` | `f.subs[id] = s` (fresh channel, open, empty) | `Unlock`.
* `Subscription.Unsubscribe`: `unsubOnce.Do` (a second caller does nothing) | `f.mu.Lock()` |
  `close(s.c)` (panics on a closed channel) | `delete(f.subs, s.id)` | `Unlock`.
* `Send`: `f.mu.Lock()` | `for _, sub := range f.subs` | for each subscriber the three channel
  operations of the loop body — `select { case sub.c <- v: default: }` (panics on a closed channel),
  for a keep-last subscriber with a full slot `select { case <-sub.c: default: }` and the BLOCKING
  `sub.c <- v` ("guaranteed to succeed") — | `Unlock` (deferred).
* a reader: `select { case v, ok := <-sub.Recv(): default: }` — lock free, by design concurrent
  with `Send`.

`Variant.underLock` is the code. `Variant.snapshotThenSend` is the variant "copy the subscriber set
under the lock, release it, then do the channel sends on the copy": the class of change an outside
reviewer seeded and the sequential feed model cannot express.

Handles: a subscription is named by the index of its channel in `chans` (ids are fresh, so id and
handle can be identified here: `feed_ids_unique` of the sequential model).
The order in which `range f.subs` walks the map is the order of the list `subs` (Go randomises it;
deliveries to different subscribers commute).
-/
namespace Juno.C06.FeedConc

abbrev V := Nat

/-- the 1-slot channel of one `Subscription` -/
structure Chan where
  keepLast : Bool
  buf : Option V
  closed : Bool
deriving DecidableEq, Repr, Inhabited

inductive Variant where
  /-- the code: the whole fan-out happens while `f.mu` is held -/
  | underLock
  /-- snapshot of `f.subs` under the lock, channel sends after `Unlock` -/
  | snapshotThenSend
deriving DecidableEq, Repr, Inhabited

/-- where `Send` is inside the loop body for the subscriber at the head of its list -/
inductive Phase where
  /-- before `select { case sub.c <- v: default: }` -/
  | try_
  /-- keep-last, slot was full: before `select { case <-sub.c: default: }` -/
  | drain
  /-- before the blocking `sub.c <- v` -/
  | push
deriving DecidableEq, Repr, Inhabited

/-- what a non-blocking receive returned -/
inductive Got where
  | val (v : V)
  | empty
  | closed
deriving DecidableEq, Repr, Inhabited

/-- program counter of one goroutine -/
inductive Pc where
  | idle
  /-- `Subscribe`: before `f.mu.Lock()` -/
  | sub0 (keepLast : Bool)
  /-- lock held, before `f.subs[s.id] = s` -/
  | sub1 (keepLast : Bool)
  /-- lock held, before `Unlock` -/
  | sub2
  /-- `Unsubscribe`: before `unsubOnce.Do` -/
  | un0 (h : Nat)
  /-- the once has fired for this caller, before `f.mu.Lock()` -/
  | unA (h : Nat)
  /-- lock held, before `close(s.c)` -/
  | un1 (h : Nat)
  /-- lock held, before `delete(f.subs, s.id)` -/
  | un2 (h : Nat)
  /-- lock held, before `Unlock` -/
  | un3
  /-- `Send(v)`: before `f.mu.Lock()` -/
  | snd0 (v : V)
  /-- lock held, before `range f.subs` -/
  | snd1 (v : V)
  /-- inside the loop: subscribers still to serve (head = current one) -/
  | sndL (v : V) (todo : List Nat) (ph : Phase)
  /-- (variant `underLock`) loop finished, before the deferred `Unlock` -/
  | snd3
  /-- a reader before its non-blocking receive -/
  | rcv (h : Nat)
  /-- the reader afterwards -/
  | rcvD (h : Nat) (g : Got)
deriving DecidableEq, Repr, Inhabited

/-- the atomic operations as the CALLER sees them (lock-acquisition order = ghost `hist`) -/
inductive AOp where
  | sub
  | unsub (h : Nat)
  | send (v : V)
deriving DecidableEq, Repr, Inhabited

structure St where
  /-- `f.subs` -/
  subs : List Nat
  chans : List Chan
  /-- subscriptions whose `unsubOnce` has fired -/
  once : List Nat
  /-- `f.mu`: the goroutine holding it -/
  lock : Option Nat
  pcs : List Pc
  /-- ghost: every delivery ATTEMPT `(value, subscriber)` of every `Send`, in order -/
  log : List (V × Nat)
  /-- ghost: the operations in the order in which they got the lock -/
  hist : List AOp
  /-- a goroutine panicked: send on a closed channel / close of a closed channel -/
  panicked : Bool
deriving DecidableEq, Repr, Inhabited

def St.pc (s : St) (t : Nat) : Pc := s.pcs.getD t .idle

def St.setPc (s : St) (t : Nat) (p : Pc) : St := { s with pcs := s.pcs.set t p }

/-- does a goroutine at this program point hold `f.mu`? -/
def holds (var : Variant) : Pc → Bool
  | .sub1 _ | .sub2 | .un1 _ | .un2 _ | .un3 | .snd1 _ | .snd3 => true
  | .sndL _ _ _ => var == .underLock
  | _ => false

def setBuf (cs : List Chan) (h : Nat) (b : Option V) : List Chan :=
  match cs[h]? with
  | none => cs
  | some c => cs.set h { c with buf := b }

def setClosed (cs : List Chan) (h : Nat) : List Chan :=
  match cs[h]? with
  | none => cs
  | some c => cs.set h { c with closed := true }

/-- one step of goroutine `t` (a goroutine that cannot move — waiting for the mutex, blocked on a
full channel, finished, after a panic — leaves the state as it is) -/
def cstep (var : Variant) (s : St) (t : Nat) : St :=
  if s.panicked then s else
  match s.pc t with
  | .idle => s
  | .rcvD _ _ => s
  | .sub0 k =>
    if s.lock = none then { s.setPc t (.sub1 k) with lock := some t, hist := s.hist ++ [.sub] } else s
  | .sub1 k =>
    { s.setPc t .sub2 with chans := s.chans ++ [⟨k, none, false⟩], subs := s.subs ++ [s.chans.length] }
  | .sub2 => { s.setPc t .idle with lock := none }
  | .un0 h =>
    if h ∈ s.once ∨ s.chans.length ≤ h then s.setPc t .idle
    else { s.setPc t (.unA h) with once := h :: s.once }
  | .unA h =>
    if s.lock = none then { s.setPc t (.un1 h) with lock := some t, hist := s.hist ++ [.unsub h] } else s
  | .un1 h =>
    match s.chans[h]? with
    | none => s.setPc t (.un2 h)
    | some c =>
      if c.closed then { s with panicked := true }
      else { s.setPc t (.un2 h) with chans := setClosed s.chans h }
  | .un2 h => { s.setPc t .un3 with subs := s.subs.filter (· != h) }
  | .un3 => { s.setPc t .idle with lock := none }
  | .snd0 v =>
    if s.lock = none then { s.setPc t (.snd1 v) with lock := some t, hist := s.hist ++ [.send v] } else s
  | .snd1 v =>
    match var with
    | .underLock => s.setPc t (.sndL v s.subs .try_)
    | .snapshotThenSend => { s.setPc t (.sndL v s.subs .try_) with lock := none }
  | .sndL _ [] _ =>
    match var with
    | .underLock => s.setPc t .snd3
    | .snapshotThenSend => s.setPc t .idle
  | .sndL v (h :: rest) .try_ =>
    match s.chans[h]? with
    | none => { s with log := s.log ++ [(v, h)] }.setPc t (.sndL v rest .try_)
    | some c =>
      if c.closed then { s with panicked := true }
      else
        let s' := { s with log := s.log ++ [(v, h)] }
        match c.buf with
        | none => { s'.setPc t (.sndL v rest .try_) with chans := setBuf s.chans h (some v) }
        | some _ =>
          if c.keepLast then s'.setPc t (.sndL v (h :: rest) .drain)
          else s'.setPc t (.sndL v rest .try_)
  | .sndL v (h :: rest) .drain =>
    { s.setPc t (.sndL v (h :: rest) .push) with chans := setBuf s.chans h none }
  | .sndL v (h :: rest) .push =>
    match s.chans[h]? with
    | none => s.setPc t (.sndL v rest .try_)
    | some c =>
      if c.closed then { s with panicked := true }
      else
        match c.buf with
        | none => { s.setPc t (.sndL v rest .try_) with chans := setBuf s.chans h (some v) }
        | some _ => s
  | .snd3 => { s.setPc t .idle with lock := none }
  | .rcv h =>
    match s.chans[h]? with
    | none => s.setPc t (.rcvD h .empty)
    | some c =>
      match c.buf with
      | some v => { s.setPc t (.rcvD h (.val v)) with chans := setBuf s.chans h none }
      | none => s.setPc t (.rcvD h (if c.closed then .closed else .empty))

/-- a run under a schedule (the list of goroutines that are given a step, in order) -/
def crun (var : Variant) (s : St) : List Nat → St
  | [] => s
  | t :: ts => crun var (cstep var s t) ts

/-- goroutine `t` sits in the blocking `sub.c <- v` and the slot is full -/
def blocked (s : St) (t : Nat) : Bool :=
  match s.pc t with
  | .sndL _ (h :: _) .push =>
    match s.chans[h]? with
    | some c => !c.closed && c.buf.isSome
    | none => false
  | _ => false

/-- start state: these channels, all of them registered unless closed, these goroutines -/
def start (chans : List Chan) (pcs : List Pc) : St :=
  { subs := (List.range chans.length).filter (fun h => !(chans.getD h default).closed),
    chans := chans,
    once := (List.range chans.length).filter (fun h => (chans.getD h default).closed),
    lock := none, pcs := pcs, log := [], hist := [], panicked := false }

/-! ### the caller's view: atomic operations -/

/-- what callers of `Subscribe`/`Unsubscribe`/`Send` can tell apart, leaving channel contents
(which readers change concurrently) aside: who is registered, which channels are closed, and which
delivery attempts were made -/
structure View where
  subs : List Nat
  closed : List Bool
  log : List (V × Nat)
deriving DecidableEq, Repr, Inhabited

def St.view (s : St) : View := ⟨s.subs, s.chans.map (·.closed), s.log⟩

/-- an operation executed in one piece -/
def astep (w : View) : AOp → View
  | .sub => { w with subs := w.subs ++ [w.closed.length], closed := w.closed ++ [false] }
  | .unsub h => { w with subs := w.subs.filter (· != h), closed := w.closed.set h true }
  | .send v => { w with log := w.log ++ w.subs.map (fun h => (v, h)) }

/-- the rest of the critical section a goroutine is in, executed in one piece -/
def finish : Pc → View → View
  | .sub1 _, w => astep w .sub
  | .un1 h, w => astep w (.unsub h)
  | .un2 h, w => { w with subs := w.subs.filter (· != h) }
  | .snd1 v, w => astep w (.send v)
  | .sndL v todo .try_, w => { w with log := w.log ++ todo.map (fun h => (v, h)) }
  | .sndL v todo _, w => { w with log := w.log ++ todo.tail.map (fun h => (v, h)) }
  | _, w => w

/-- the state as callers will find it once the goroutine holding the mutex has left its section -/
def St.abs (s : St) : View :=
  match s.lock with
  | none => s.view
  | some t => finish (s.pc t) s.view

/-! ### exploration (driver): every outcome reachable under some schedule -/

def enabled (var : Variant) (s : St) (t : Nat) : Bool := cstep var s t != s

/-- the ghost fields do not influence any step: the exploration forgets them (far fewer states) -/
def St.noGhost (s : St) : St := { s with log := [], hist := [] }

def dedup [DecidableEq α] : List α → List α
  | [] => []
  | x :: xs => if x ∈ xs then dedup xs else x :: dedup xs

/-- breadth-first over ALL schedules; a state in which no goroutine can move (or a panic) is final -/
def explore (var : Variant) : Nat → List St → List St → List St
  | 0, _, fin => fin
  | fuel + 1, frontier, fin =>
    if frontier.isEmpty then fin else
    let ts (s : St) := (List.range s.pcs.length).filter (enabled var s)
    let fin' := dedup (fin ++ frontier.filter (fun s => (ts s).isEmpty))
    let next := dedup (frontier.flatMap (fun s => (ts s).map (fun t => (cstep var s t).noGhost)))
    explore var fuel next fin'

/-- an upper bound for the number of steps all goroutines can take together -/
def stepBound (s : St) : Nat :=
  s.pcs.foldl (fun n p => n + match p with
    | .sub0 _ => 3 | .un0 _ => 5 | .snd0 _ => 4 + 3 * (s.chans.length + s.pcs.length) | .rcv _ => 1
    | _ => 0) 1

def outcomes (var : Variant) (s : St) : List St := explore var (stepBound s + 1) [s.noGhost] []

end Juno.C06.FeedConc
