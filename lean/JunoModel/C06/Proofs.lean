import JunoModel.C06.Model
/-!
C06 — helper lemmas, part 1: well-formed chains, `sub64`, lookups, suffixes.
-/
namespace Juno.C06

/-- A chain as juno stores it: numbers 0,1,2,… from the genesis, every block names its
predecessor's hash, the genesis has parent `felt.Zero`. (Head first.) -/
def Linked : Chain → Prop
  | [] => True
  | [b] => b.num = 0 ∧ b.parent = 0
  | b :: b' :: tl => b.num = b'.num + 1 ∧ b.parent = b'.hash ∧ Linked (b' :: tl)

theorem Linked.tail : ∀ {b : Blk} {tl : Chain}, Linked (b :: tl) → Linked tl
  | _, [], _ => trivial
  | _, _ :: _, h => h.2.2

/-- In a linked chain the head's number is `length - 1`. -/
theorem Linked.head_num : ∀ {b : Blk} {tl : Chain}, Linked (b :: tl) → b.num = tl.length
  | _, [], h => h.1
  | _, b' :: tl, h => by
    have := Linked.head_num h.2.2
    simp [h.1, this]

theorem Linked.nextHeight {c : Chain} (h : Linked c) : nextHeight c = c.length := by
  cases c with
  | nil => rfl
  | cons b tl => simp [Juno.C06.nextHeight, Linked.head_num h]

theorem Linked.suffix {c d : Chain} (h : Linked c) (hs : d <:+ c) : Linked d := by
  induction c with
  | nil => simp at hs; subst hs; trivial
  | cons b tl ih =>
    rcases List.suffix_cons_iff.mp hs with rfl | h'
    · exact h
    · exact ih h.tail h'

theorem Linked.num_lt {c : Chain} (h : Linked c) : ∀ x ∈ c, x.num < c.length := by
  induction c with
  | nil => intro x hx; cases hx
  | cons b tl ih =>
    intro x hx
    rcases List.mem_cons.mp hx with rfl | hx
    · simp [Linked.head_num h]
    · have := ih h.tail x hx; simp; omega

/-- Lookup by number in a linked chain. -/
theorem Linked.byNumber_none {c : Chain} (h : Linked c) {n : Nat} (hn : c.length ≤ n) :
    byNumber? c n = none := by
  unfold byNumber?
  rw [List.find?_eq_none]
  intro x hx
  have := h.num_lt x hx
  simp; omega

theorem Linked.byNumber_head {b : Blk} {tl : Chain} : byNumber? (b :: tl) b.num = some b := by
  simp [byNumber?]

theorem Linked.byNumber_cons_lt {b : Blk} {tl : Chain} (h : Linked (b :: tl)) {n : Nat}
    (hn : n < b.num) : byNumber? (b :: tl) n = byNumber? tl n := by
  have : (b.num == n) = false := by simp; omega
  simp [byNumber?, List.find?_cons, this]

theorem Linked.byNumber_some {c : Chain} (h : Linked c) {n : Nat} (hn : n < c.length) :
    ∃ x, byNumber? c n = some x ∧ x ∈ c ∧ x.num = n := by
  induction c with
  | nil => simp at hn
  | cons b tl ih =>
    have hb := Linked.head_num h
    by_cases e : n = b.num
    · subst e; exact ⟨b, Linked.byNumber_head, List.mem_cons_self .., rfl⟩
    · have hlt : n < tl.length := by simp at hn; omega
      obtain ⟨x, hx, hm, hnum⟩ := ih h.tail hlt
      refine ⟨x, ?_, List.mem_cons_of_mem _ hm, hnum⟩
      rw [Linked.byNumber_cons_lt h (by omega)]; exact hx

/-- a member of a linked chain is found by its number -/
theorem Linked.byNumber_mem {c : Chain} (h : Linked c) {x : Blk} (hx : x ∈ c) :
    byNumber? c x.num = some x := by
  induction c with
  | nil => cases hx
  | cons b tl ih =>
    rcases List.mem_cons.mp hx with rfl | hx'
    · exact Linked.byNumber_head
    · have := h.tail.num_lt x hx'
      rw [Linked.byNumber_cons_lt h (by rw [Linked.head_num h]; exact this)]
      exact ih h.tail hx'

theorem byNumber_mem_of_some {c : Chain} {n : Nat} {x : Blk} (h : byNumber? c n = some x) :
    x ∈ c ∧ x.num = n := by
  unfold byNumber? at h
  have hm := List.mem_of_find?_eq_some h
  have hp := List.find?_some h
  exact ⟨hm, by simpa using hp⟩

/-- lookup in a suffix agrees with lookup in the whole chain for numbers the suffix covers -/
theorem Linked.byNumber_suffix {c d : Chain} (h : Linked c) (hs : d <:+ c) {n : Nat}
    (hn : n < d.length) : byNumber? c n = byNumber? d n := by
  induction c with
  | nil => simp at hs; subst hs; rfl
  | cons b tl ih =>
    rcases List.suffix_cons_iff.mp hs with rfl | h'
    · rfl
    · have hl := h'.length_le
      rw [Linked.byNumber_cons_lt h (by rw [Linked.head_num h]; omega)]
      exact ih h.tail h'

/-! ### uint64 subtraction -/

theorem sub64_of_le {a b : Nat} (hb : b ≤ a) (ha : a < U64) : sub64 a b = a - b := by
  unfold sub64 U64 at *; omega

theorem sub64_wrap {a b : Nat} (hb : a < b) (hb' : b ≤ U64) : sub64 a b = a + U64 - b := by
  unfold sub64 U64 at *; omega

theorem sub64_lt (a b : Nat) : sub64 a b < U64 := by
  unfold sub64 U64; omega

/-! ### collision freeness and suffixes -/

/-- The hash is collision free on a set of blocks: equal hashes, equal blocks. -/
def HashInj (u : List Blk) : Prop := ∀ x ∈ u, ∀ y ∈ u, x.hash = y.hash → x = y

/-- Two linked chains with the same head are the same chain (given collision freeness). -/
theorem Linked.eq_of_head {u : List Blk} (hi : HashInj u) :
    ∀ {c d : Chain} {b : Blk}, Linked (b :: c) → Linked (b :: d) →
      (∀ x ∈ c, x ∈ u) → (∀ x ∈ d, x ∈ u) → c = d := by
  intro c
  induction c with
  | nil =>
    intro d b hc hd _ _
    cases d with
    | nil => rfl
    | cons y tl => have := hc.1; have := hd.1; omega
  | cons x tl ih =>
    intro d b hc hd hcu hdu
    cases d with
    | nil => have := hc.1; have := hd.1; omega
    | cons y tl' =>
      have hxy : x = y := by
        apply hi x (hcu x (List.mem_cons_self ..)) y (hdu y (List.mem_cons_self ..))
        rw [← hc.2.1, ← hd.2.1]
      subst hxy
      have := ih hc.2.2 hd.2.2 (fun z hz => hcu z (List.mem_cons_of_mem _ hz))
        (fun z hz => hdu z (List.mem_cons_of_mem _ hz))
      rw [this]

/-- If the head of a linked chain occurs in another linked chain, the first is a suffix of the
second ("a block determines its whole history"). -/
theorem Linked.suffix_of_head_mem {u : List Blk} (hi : HashInj u) {c src : Chain} {b : Blk}
    (hc : Linked (b :: c)) (hs : Linked src) (hcu : ∀ x ∈ c, x ∈ u) (hsu : ∀ x ∈ src, x ∈ u)
    (hm : b ∈ src) : (b :: c) <:+ src := by
  induction src with
  | nil => cases hm
  | cons y tl ih =>
    rcases List.mem_cons.mp hm with rfl | hm'
    · have := Linked.eq_of_head hi hc hs hcu (fun z hz => hsu z (List.mem_cons_of_mem _ hz))
      rw [this]; exact List.suffix_refl _
    · exact (ih hs.tail (fun z hz => hsu z (List.mem_cons_of_mem _ hz)) hm').trans (List.suffix_cons _ _)

end Juno.C06
