import JunoModel.Common.Proto
import JunoModel.C06.Model
import JunoModel.C06.ModelFeed
import JunoModel.C06.ModelFeedConc
import JunoModel.C06.ModelStore
import JunoModel.C06.ModelStatus
import JunoModel.C06.ModelClasses
import JunoModel.C06.ModelPlugin
/-!
Line-protocol driver for the C06 model (`lake build c06drv`).

A block token is `num:hash:parent:ok:diff:root` (decimal numbers, `ok` is 0/1; hashes are small ids
chosen by the harness, 0 = felt.Zero; `diff` = id of the state diff, 0 = empty; `root` = the claimed
state root in the model's terms, see `roots`; the short form `num:hash:parent:ok` means an empty diff
and root 0). Chains are written GENESIS FIRST.

  roots D*                the model's state roots after each block of a chain with these diff ids -> `r0,r1,…`

  spec-init B*            start the acceptor with this local chain                   -> ok
  served REQ B | latest N H   something the source answered                              -> ok
  restart                 Run returned after cancellation, a new Synchronizer instance starts -> ok | reject <why>
  S N H | R N H | RF N H  observed commit (stored / reverted / RevertHead failed)    -> ok | reject <why>
  N N H | G SN SH EN EH   observed feed send (new head / reorg range)                -> ok | reject <why>
  force-S N H P           push a block the harness has recorded as stored-but-unverified            -> ok
  evidence N H            which kinds of answers contradict the head (N,H)  -> asked=B successor=B latest=B
  force-R N H             pop the head without the evidence check (after a recorded reject)  -> ok
  spec-end                -> `chain=<num:hash,...> owed=<k> pending=<k>`
  rounds K src B* | loc B*   canonical sequential schedule, K rounds, against a stable source
                          -> `<obs>;<obs>;... => chain=<...> reorg=<range|->`
  isrev NEXT (N H | -) loc B*   -> `none` | `some <lpv>`
  succ B loc B*           -> stored | badNumber | parentMismatch | rootMismatch
  sub64 A B               -> decimal
  feed-init fresh|len     fresh feed model (id scheme; `fresh` is the code)                          -> ok
  feed sub K | feed unsub H | feed send V | feed recv H   one feed operation (K = keep-last 0/1, H = handle)
                          -> h<handle> | ok | val V | empty | closed | bad-handle
  feedc lock|snap C* | P*   the CONCURRENT feed machine (`ModelFeedConc.lean`): channels `K:B:C` (keep-last 0/1,
                          slot `-`|value, closed 0/1), goroutines `send:V` `unsub:H` `sub:K` `recv:H`; every
                          outcome reachable under SOME schedule, sorted, separated by ` ; `
                          -> outcome = `panic` | `ch=<slot><o|c>,… new=<k|p><slot><o|c>,… rd=<v|-|c>,…[ stuck]`
  cfg Z N C V L           model variant (zeroGuard numCheck confirmHead verifyAns confirmLatest, 0/1);
                          default = `Cfg.asFound`; the acceptor's mode is `Cfg.mode`                  -> ok
  impl-init B*            start the event machine `Impl` with this chain                            -> ok
  impl deliver REQ B C | impl reorg NEXT (N H | -) (B | -) | impl iter (B | -) REVOK | impl restart
                          one event of `Impl.step`     -> `<obs>;<obs>… | task=<lpv|->`
  impl? <event>           the same answer without changing the state
  impl-end                -> `chain=<…> reorg=<range|-> task=<lpv|->`
  plug <event>            what a registered plugin is told while the machine executes this event in its
                          CURRENT state (`Impl.pluginCalls`, state not changed)
                          -> `-` | `nb N H` | `rb N H (TN:TH|-)` (several: separated by `;`)
  impl deliverv REQ B VERHEX C   the delivery with the block's protocol-version string (hex of its
                          bytes, `-` = empty) as an input (`Impl.deliverV`)
  ver VERHEX              core.ParseBlockVersion / CheckBlockVersion
                          -> `ok MAJOR MINOR PATCH supported=0|1` | `err:too-long` | `err:bad-number`
  st <op> …               the status bookkeeping of storeTask (`ModelStatus.lean`), PURE: the status is passed
                          in and out as `SN SH HI CU` (startingBlockNumber `N|-`, startingBlockHeader `N:H|-`,
                          highestBlockHeader `N:H|-`, catchUpMode 0/1)
      st begin SN SH HI CU NEXT        head of syncBlocks (NEXT = nextHeight())        -> SN SH HI CU
      st end SN SH HI CU               deferred cleanup of syncBlocks                  -> SN SH HI CU
      st poll SN SH HI CU N H          pollLatest stored this header                   -> SN SH HI CU
      st stored PROCS SN SH HI CU N H CAS   storeTask after Store of block (N,H)       -> SN SH HI CU reset=0|1
      st start SN SH HI CU (N:H|-)     StartingBlockHeader(); last arg = the stored block numbered SN, if any
                                                                                       -> (hdr N:H|err-not-set|err-db) SN SH HI CU
      st workers PROCS CU              setupWorkers: number of fetchers                -> K
  classes K h* | D h* | V0 h* | V1 h* | F h*   fetchUnknownClasses: K = classes the head state holds, D / V0 / V1 =
                          classes of deployed contracts / declared Cairo-0 / declared Sierra classes in the
                          order they are walked, F = classes whose fetch fails   -> `ok h*` | `err h`
  dclass B VERHEX C loc B*   what one delivery of B does on this chain (`deliverClass`)
                          -> sanity | cancelled | bad-version | bad-number | parent-mismatch | root-mismatch | stored
-/
open Juno.Proto Juno.C06

def blk? (s : String) : Option Blk :=
  match s.splitOn ":" with
  | [n, h, p, o] => do
    let n ← n.toNat?
    let h ← h.toNat?
    let p ← p.toNat?
    let o ← (if o == "1" then some true else if o == "0" then some false else none)
    pure ⟨n, h, p, o, 0, 0⟩
  | [n, h, p, o, d, r] => do
    let n ← n.toNat?
    let h ← h.toNat?
    let p ← p.toNat?
    let o ← (if o == "1" then some true else if o == "0" then some false else none)
    let d ← d.toNat?
    let r ← r.toNat?
    pure ⟨n, h, p, o, d, r⟩
  | _ => none

/-- roots after each block of a chain with these diffs (genesis first) -/
def rootsOf (ds : List Nat) : List Nat :=
  (ds.foldl (fun (acc : Nat × List Nat) d => let r := rootStep acc.1 d; (r, r :: acc.2)) (0, [])).2.reverse

/-- parse a genesis-first chain into the model's head-first chain -/
def chain? (ws : List String) : Option Chain := (ws.mapM blk?).map List.reverse

def showChain (c : Chain) : String :=
  if c.isEmpty then "-" else ",".intercalate (c.reverse.map (fun b => s!"{b.num}:{b.hash}"))

def showRange (r : Range) : String := s!"{r.startNum}:{r.startHash}..{r.endNum}:{r.endHash}"

def showObs : Obs → String
  | .stored n h => s!"S {n} {h}"
  | .reverted n h => s!"R {n} {h}"
  | .revertFailed n h => s!"RF {n} {h}"
  | .newHead n h => s!"N {n} {h}"
  | .reorg r => s!"G {r.startNum} {r.startHash} {r.endNum} {r.endHash}"

def splitBar (ws : List String) : List String × List String :=
  (ws.takeWhile (· != "|"), (ws.dropWhile (· != "|")).drop 1)

def specEv? : List String → Option SEv
  | ["served", r, b] => do pure (.served (← r.toNat?) (← blk? b))
  | ["latest", n, h] => do pure (.latest ⟨← n.toNat?, ← h.toNat?⟩)
  | ["restart"] => some .restart
  | ["S", n, h] => do pure (.obs (.stored (← n.toNat?) (← h.toNat?)))
  | ["R", n, h] => do pure (.obs (.reverted (← n.toNat?) (← h.toNat?)))
  | ["RF", n, h] => do pure (.obs (.revertFailed (← n.toNat?) (← h.toNat?)))
  | ["N", n, h] => do pure (.obs (.newHead (← n.toNat?) (← h.toNat?)))
  | ["G", a, b, c, d] => do
    pure (.obs (.reorg ⟨← a.toNat?, ← b.toNat?, ← c.toNat?, ← d.toNat?⟩))
  | _ => none

def bit? (s : String) : Option Bool :=
  if s == "1" then some true else if s == "0" then some false else none

structure St where
  cfg : Cfg
  spec : Spec
  feed : Feed.Feed := Feed.init
  gen : Feed.IdGen := .fresh
  impl : Impl := Impl.init []

def showFeedOut : Feed.Out → String
  | .handle h => s!"h{h}"
  | .ok => "ok"
  | .val v => s!"val {v}"
  | .empty => "empty"
  | .closed => "closed"
  | .badHandle => "bad-handle"

def optBlk? (s : String) : Option (Option Blk) :=
  if s == "-" then some none else (blk? s).map some

/-- one event of the serial machine:
  deliver REQ B C | reorg NEXT (N H | -) (B | -) | iter (B | -) REVOK | restart -/
def showPCall : PCall → String
  | .newBlock n h => s!"nb {n} {h}"
  | .revertBlock n h none => s!"rb {n} {h} -"
  | .revertBlock n h (some (tn, th)) => s!"rb {n} {h} {tn}:{th}"

def implEv? : List String → Option Ev
  | ["deliver", r, b, c] => do pure (.deliver (← r.toNat?) (← blk? b) (← bit? c))
  | ["reorg", n, "-", cb] => do pure (.reorgDetected (← n.toNat?) none (← optBlk? cb))
  | ["reorg", n, ln, lh, cb] => do
    pure (.reorgDetected (← n.toNat?) (some ⟨← ln.toNat?, ← lh.toNat?⟩) (← optBlk? cb))
  | ["iter", b, ok] => do pure (.iter (← optBlk? b) (← bit? ok))
  | ["restart"] => some .restart
  | _ => none

def feedOp? : List String → Option Feed.Op
  | ["sub", k] => (bit? k).map .subscribe
  | ["unsub", h] => h.toNat?.map .unsubscribe
  | ["send", v] => v.toNat?.map .send
  | ["recv", h] => h.toNat?.map .recv
  | _ => none

/-! concurrent feed machine -/

def slot? (s : String) : Option (Option Nat) :=
  if s == "-" then some none else s.toNat?.map some

def cchan? (s : String) : Option FeedConc.Chan :=
  match s.splitOn ":" with
  | [k, b, c] => do pure ⟨← bit? k, ← slot? b, ← bit? c⟩
  | _ => none

def cpc? (s : String) : Option FeedConc.Pc :=
  match s.splitOn ":" with
  | ["send", v] => v.toNat?.map .snd0
  | ["unsub", h] => h.toNat?.map .un0
  | ["sub", k] => (bit? k).map .sub0
  | ["recv", h] => h.toNat?.map .rcv
  | _ => none

def allSome {α β : Type} (f : α → Option β) : List α → Option (List β)
  | [] => some []
  | x :: xs => do pure ((← f x) :: (← allSome f xs))

def showSlot (c : FeedConc.Chan) : String :=
  (match c.buf with | some v => toString v | none => "-") ++ (if c.closed then "c" else "o")

def insertSorted (x : String) : List String → List String
  | [] => [x]
  | y :: ys => if x ≤ y then x :: y :: ys else y :: insertSorted x ys

def sortStrings (xs : List String) : List String := xs.foldr insertSorted []

/-- what the harness can observe of a final state: the channels that existed at the start in order,
the new ones as a sorted multiset (concurrent subscribers cannot be told apart otherwise), what each
reader got, and whether some goroutine is stuck -/
def showOutcome (n0 : Nat) (s : FeedConc.St) : String :=
  if s.panicked then "panic" else
  let old := (s.chans.take n0).map showSlot
  let new := sortStrings ((s.chans.drop n0).map (fun c => (if c.keepLast then "k" else "p") ++ showSlot c))
  let rd := s.pcs.filterMap (fun p => match p with
    | .rcvD _ (.val v) => some (toString v)
    | .rcvD _ .empty => some "-"
    | .rcvD _ .closed => some "c"
    | _ => none)
  let stuck := s.pcs.any (fun p => match p with | .idle => false | .rcvD _ _ => false | _ => true)
  "ch=" ++ ",".intercalate old ++ " new=" ++ ",".intercalate new ++ " rd=" ++ ",".intercalate rd ++
    (if stuck then " stuck" else "")

def feedConc (var : FeedConc.Variant) (cs ps : List String) : Option String := do
  let chans ← allSome cchan? cs
  let pcs ← allSome cpc? ps
  let outs := FeedConc.outcomes var (FeedConc.start chans pcs)
  pure (" ; ".intercalate (FeedConc.dedup (sortStrings (outs.map (showOutcome chans.length)))))

def stepSpec (cfg : Cfg) (m : Mode) (s : Spec) (line : String) : Spec × String :=
  match words line with
  | "spec-init" :: bs =>
    match chain? bs with
    | some c => (Spec.init c, "ok")
    | none => (s, "bad-op")
  | ["spec-end"] =>
    (s, s!"chain={showChain s.chain} owed={s.owed.length} pending={s.pending.length}")
  | "rounds" :: k :: "src" :: rest =>
    let (srcW, locW) := splitBar rest
    match k.toNat?, chain? srcW, locW with
    | some k, some src, "loc" :: locW =>
      match chain? locW with
      | some loc =>
        let (n, o) := runRounds cfg src k ⟨loc, none⟩
        (s, ";".intercalate (o.map showObs) ++ " => chain=" ++ showChain n.chain ++ " reorg=" ++
          (match n.reorg with | some r => showRange r | none => "-"))
      | none => (s, "bad-op")
    | _, _, _ => (s, "bad-op")
  | "isrev" :: next :: rest =>
    let (lat, rest) : Option (Option Hdr) × List String := match rest with
      | "-" :: r => (some none, r)
      | n :: h :: r => (match n.toNat?, h.toNat? with
          | some n, some h => (some (some ⟨n, h⟩), r) | _, _ => (none, r))
      | _ => (none, [])
    match next.toNat?, lat, rest with
    | some next, some lat, "loc" :: locW =>
      match chain? locW with
      | some loc => (s, match isReverting cfg loc next lat with | none => "none" | some l => s!"some {l}")
      | none => (s, "bad-op")
    | _, _, _ => (s, "bad-op")
  | "succ" :: b :: "loc" :: locW =>
    match blk? b, chain? locW with
    | some b, some loc => (s, match succession loc b with
        | .stored => "stored" | .badNumber => "badNumber" | .parentMismatch => "parentMismatch"
        | .rootMismatch => "rootMismatch")
    | _, _ => (s, "bad-op")
  | "roots" :: ds =>
    match ds.mapM String.toNat? with
    | some ds => (s, if ds.isEmpty then "-" else ",".intercalate ((rootsOf ds).map toString))
    | none => (s, "bad-op")
  | ["sub64", a, b] =>
    match a.toNat?, b.toNat? with
    | some a, some b => (s, toString (sub64 a b))
    | _, _ => (s, "bad-op")
  | ["evidence", n, h] =>
    -- which kinds of answers speak against the head (n, h): asked-height / successor / latest
    match s.chain, n.toNat?, h.toNat? with
    | hd :: _, some n, some h =>
      if hd.num == n && hd.hash == h then
        let e1 := s.ev.blocks.any (fun rb => rb.1 == hd.num && rb.2.num == hd.num && rb.2.hash != hd.hash)
        let e3 := s.ev.blocks.any (fun rb => rb.2.ok && rb.2.num == hd.num + 1 && rb.2.parent != hd.hash)
        let e2 := s.ev.rlatests.any (fun l => decide (l.num ≤ hd.num) &&
          (match byNumber? s.chain l.num with | some lb => lb.hash != l.hash | none => false))
        (s, s!"asked={e1} successor={e3} latest={e2}")
      else (s, "reject revert-not-of-head")
    | _, _, _ => (s, "bad-op")
  | ["force-R", n, h] =>
    -- continue after a rejected revert (the harness has recorded it): pop without the evidence check
    match s.chain, n.toNat?, h.toNat? with
    | hd :: tl, some n, some h =>
      if hd.num == n && hd.hash == h then ({ s with chain := tl, pending := hd :: s.pending }, "ok")
      else (s, "reject revert-not-of-head")
    | _, _, _ => (s, "bad-op")
  | ["force-S", n, h, p] =>
    -- continue after a store the harness has already recorded as unverified
    match n.toNat?, h.toNat?, p.toNat? with
    | some n, some h, some p =>
      ({ s with chain := ⟨n, h, p, false, 0, stateRoot s.chain⟩ :: s.chain, pending := [],
                owed := s.owed ++ reorgObs (rangeOf s.pending) ++ [Obs.newHead n h] }, "ok")
    | _, _, _ => (s, "bad-op")
  | ws =>
    match specEv? ws with
    | none => (s, "bad-op")
    | some e =>
      match s.step m e with
      | .ok s' => (s', "ok")
      | .error r => (s, "reject " ++ r.name)

def optNat? (s : String) : Option (Option Nat) :=
  if s == "-" then some none else s.toNat?.map some

def optHdr? (s : String) : Option (Option Hdr) :=
  if s == "-" then some none else
  match s.splitOn ":" with
  | [n, h] => do pure (some ⟨← n.toNat?, ← h.toNat?⟩)
  | _ => none

def status? : List String → Option Status
  | [sn, sh, hi, cu] => do pure ⟨← optNat? sn, ← optHdr? sh, ← optHdr? hi, ← bit? cu⟩
  | _ => none

def showOptHdr : Option Hdr → String
  | some h => s!"{h.num}:{h.hash}"
  | none => "-"

def showStatus (s : Status) : String :=
  (match s.startNum with | some n => toString n | none => "-") ++ " " ++ showOptHdr s.startHdr ++ " " ++
    showOptHdr s.highest ++ " " ++ (if s.catchUp then "1" else "0")

/-- the pure status ops (see the header) -/
def stepStatus : List String → String
  | ["begin", sn, sh, hi, cu, next] =>
    match status? [sn, sh, hi, cu], next.toNat? with
    | some s, some nx =>
      let c : Chain := if nx == 0 then [] else [⟨nx - 1, 0, 0, true, 0, 0⟩]
      showStatus (s.runStart c)
    | _, _ => "bad-op"
  | ["end", sn, sh, hi, cu] =>
    match status? [sn, sh, hi, cu] with
    | some s => showStatus s.runEnd
    | none => "bad-op"
  | ["poll", sn, sh, hi, cu, n, h] =>
    match status? [sn, sh, hi, cu], n.toNat?, h.toNat? with
    | some s, some n, some h => showStatus (s.poll ⟨n, h⟩)
    | _, _, _ => "bad-op"
  | ["stored", procs, sn, sh, hi, cu, n, h, cas] =>
    match procs.toNat?, status? [sn, sh, hi, cu], n.toNat?, h.toNat?, bit? cas with
    | some procs, some s, some n, some h, some cas =>
      let r := s.onStored procs ⟨n, h, 0, true, 0, 0⟩ cas
      showStatus r.1 ++ " reset=" ++ (if r.2 then "1" else "0")
    | _, _, _, _, _ => "bad-op"
  | ["start", sn, sh, hi, cu, fb] =>
    match status? [sn, sh, hi, cu], optHdr? fb with
    | some s, some fb =>
      let c : Chain := match fb with | some h => [⟨h.num, h.hash, 0, true, 0, 0⟩] | none => []
      let r := s.startingHeader c
      (match r.1 with
        | .hdr h => s!"hdr {h.num}:{h.hash}"
        | .errNotSet => "err-not-set"
        | .errDb => "err-db") ++ " " ++ showStatus r.2
    | _, _ => "bad-op"
  | ["workers", procs, cu] =>
    match procs.toNat?, bit? cu with
    | some procs, some cu => toString (numWorkers procs ⟨none, none, none, cu⟩)
    | _, _ => "bad-op"
  | _ => "bad-op"

/-- split `K a b | D c | …` into labelled sections -/
def sections (ws : List String) : List (String × List String) :=
  let rec go : List String → List String → List (List String) → List (List String)
    | [], cur, acc => (cur.reverse :: acc).reverse
    | "|" :: rest, cur, acc => go rest [] (cur.reverse :: acc)
    | w :: rest, cur, acc => go rest (w :: cur) acc
  (go ws [] []).filterMap (fun sec => match sec with | l :: xs => some (l, xs) | [] => none)

def stepClasses (ws : List String) : String :=
  let secs := sections ws
  let get (l : String) : Option (List Nat) :=
    match secs.find? (fun p => p.1 == l) with
    | some p => p.2.mapM String.toNat?
    | none => some []
  match get "K", get "D", get "V0", get "V1", get "F" with
  | some k, some d, some v0, some v1, some f =>
    match fetchUnknownClasses (fun h => k.contains h) (fun h => !f.contains h) d v0 v1 with
    | .ok res => if res.isEmpty then "ok" else "ok " ++ " ".intercalate (res.map toString)
    | .error e => s!"err {e}"
  | _, _, _, _, _ => "bad-op"

def stepLine (st : St) (line : String) : St × String :=
  match words line with
  | "st" :: ws => (st, stepStatus ws)
  | "classes" :: ws => (st, stepClasses ws)
  | ["cfg", z, n, c, v, l] =>
    match bit? z, bit? n, bit? c, bit? v, bit? l with
    | some z, some n, some c, some v, some l => ({ st with cfg := ⟨z, n, c, v, l⟩ }, "ok")
    | _, _, _, _, _ => (st, "bad-op")
  | "impl-init" :: bs =>
    match chain? bs with
    | some c => ({ st with impl := Impl.init c }, "ok")
    | none => (st, "bad-op")
  | ["impl-end"] =>
    (st, s!"chain={showChain st.impl.node.chain} reorg=" ++
      (match st.impl.node.reorg with | some r => showRange r | none => "-") ++ " task=" ++
      (match st.impl.task with | some l => toString l | none => "-"))
  | "plug" :: ws =>
    match implEv? ws with
    | none => (st, "bad-op")
    | some e =>
      let cs := st.impl.pluginCalls st.cfg e
      (st, if cs.isEmpty then "-" else ";".intercalate (cs.map showPCall))
  | "impl?" :: ws =>
    -- what WOULD the event do (the state is not changed)
    match implEv? ws with
    | none => (st, "bad-op")
    | some e =>
      let r := st.impl.step st.cfg e
      (st, ";".intercalate (r.2.map showObs) ++ " | task=" ++
        (match r.1.task with | some l => toString l | none => "-"))
  | ["ver", v] =>
    match hexToBytes? v with
    | none => (st, "bad-op")
    | some bs =>
      (st, match parseBlockVersion bs with
        | .ok a b c => s!"ok {a} {b} {c} supported={if checkBlockVersion bs then 1 else 0}"
        | .tooLong => "err:too-long"
        | .badNumber => "err:bad-number")
  | "dclass" :: b :: v :: c :: "loc" :: locW =>
    match blk? b, hexToBytes? v, bit? c, chain? locW with
    | some b, some v, some c, some loc => (st, (deliverClass v loc b c).name)
    | _, _, _, _ => (st, "bad-op")
  | ["impl", "deliverv", r, b, v, c] =>
    match r.toNat?, blk? b, hexToBytes? v, bit? c with
    | some r, some b, some v, some c =>
      let res := st.impl.deliverV st.cfg r b v c
      ({ st with impl := res.1 }, ";".intercalate (res.2.map showObs) ++ " | task=" ++
        (match res.1.task with | some l => toString l | none => "-"))
    | _, _, _, _ => (st, "bad-op")
  | "impl" :: ws =>
    match implEv? ws with
    | none => (st, "bad-op")
    | some e =>
      let r := st.impl.step st.cfg e
      ({ st with impl := r.1 }, ";".intercalate (r.2.map showObs) ++ " | task=" ++
        (match r.1.task with | some l => toString l | none => "-"))
  | ["feed-init", g] =>
    if g == "fresh" then ({ st with feed := Feed.init, gen := .fresh }, "ok")
    else if g == "len" then ({ st with feed := Feed.init, gen := .lenOfMap }, "ok")
    else (st, "bad-op")
  | "feed" :: ws =>
    match feedOp? ws with
    | none => (st, "bad-op")
    | some op => let r := Feed.step st.gen st.feed op; ({ st with feed := r.1 }, showFeedOut r.2)
  | "feedc" :: v :: ws =>
    let (cs, ps) := splitBar ws
    let var? : Option FeedConc.Variant :=
      if v == "lock" then some .underLock else if v == "snap" then some .snapshotThenSend else none
    match var? with
    | none => (st, "bad-op")
    | some var =>
      match feedConc var cs ps with
      | some out => (st, out)
      | none => (st, "bad-op")
  | ["cfg?"] =>
    (st, s!"{st.cfg.zeroGuard} {st.cfg.numCheck} {st.cfg.confirmHead} {st.cfg.verifyAns} {st.cfg.confirmLatest}")
  | _ =>
    -- the acceptor demands what the code variant can be held to (`Cfg.mode`)
    let (s', out) := stepSpec st.cfg st.cfg.mode st.spec line; ({ st with spec := s' }, out)

def main : IO Unit := loop stepLine { cfg := Cfg.asFound, spec := Spec.init [] }
