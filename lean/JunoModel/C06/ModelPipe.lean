import JunoModel.C06.Model
/-!
C06 — the GOROUTINES of `syncBlocks` (sync/sync.go:502) around the serial machine `Impl`: one step of
`Pipe.step` is one step of ONE goroutine, a run is any list of such steps (`Act`) — the schedule
and everything the source answers are inputs. Core Lean only.

What is transcribed:

* `syncBlocks`: the main loop starts a fetcher for `nextHeight`, `nextHeight+1`, … (`Act.spawn`);
  after `streamCtx` is cancelled it waits for both streams (`fetchers.Wait(); verifiers.Wait()`) and
  starts the next generation at `nextHeight()` (`Act.newGen`).
* `fetcherTask` (own goroutine per height): `ctx.Done` → `func(){}` (`Act.fetchCancelled`);
  `BlockByNumber` answers → callback "submit verifierTask" (`Act.fetchOk`, ANY block may be answered);
  `BlockByNumber` fails → `isReverting`, written out READ BY READ because it runs concurrently with
  the callbacks that mutate the chain:
    `Act.fetchErr`   `Height()` and the gate `localHeight+1 != nextHeight`,
    `Act.localRead`  the answer of `BlockHeaderLatest` arrives, `remoteHeight > localHeight`, then
                     `BlockHeaderByNumber(min(remote, local))` is read FROM THE CHAIN AS IT IS THEN,
    `Act.confirm`    the answer of the confirming `BlockByNumber(remoteHeight)` arrives, number / hash
                     / `SanityCheckNewHeight`, `remoteHeight == 0`, `remoteHeight - 1`;
  "no reorg" → the loop goes on (state `run` again); "reorg" → callback "submit revertTask(lpv)".
* the fetchers stream: callbacks run ONE AT A TIME IN SUBMISSION ORDER (`Act.fcb`; conc/stream) and
  append to the verifiers stream.
* the verifiers stream: callbacks run one at a time in submission order (`Act.vcb`): `storeTask` of a
  fetched block = `Impl.step (.deliver …)` with `cancelled` = the context is done at that moment;
  `resetStreams()` after a failed sanity check, a failed `Store` (other error), a mode flip
  (`flip`, input); `ErrParentDoesNotMatchHead` → `revertTask` runs INSIDE the callback:
  `Act.iter` = one loop iteration (`Impl.step (.iter …)`), `defer resetStreams()` at its end.
  A submitted `revertTask(lpv)` starts with the lpv THE FETCHER computed.

Trusted about conc/stream (stated in checks/c06.json): callbacks of one stream run serially in
submission order; `Wait` returns after all tasks and callbacks.
-/
namespace Juno.C06.Pipe
open Juno.C06

/-- what `isReverting` had in its hands when it said "reorg" -/
structure Dec where
  /-- the height the fetcher is waiting for -/
  next : Nat
  latest : Hdr
  confirm : Option Blk
  /-- the `lastPossiblyValidHeight` it returned -/
  lpv : Nat
deriving DecidableEq, Repr, Inhabited

/-- one fetcher goroutine (`hd :: tl` = the chain as `Height()` saw it) -/
inductive FSt where
  /-- in the loop: before / inside `BlockByNumber` -/
  | run
  /-- `isReverting`: `Height()` read, gate passed, waiting for `BlockHeaderLatest` -/
  | gated (hd : Blk) (tl : Chain)
  /-- local header read and found different, waiting for the confirming `BlockByNumber` -/
  | gotLocal (hd : Blk) (tl : Chain) (rh : Hdr) (lh : Blk)
  /-- returned `func(){}` (context done) -/
  | retNothing
  /-- returned "submit verifierTask(b)" -/
  | retBlock (b : Blk)
  /-- returned "submit revertTask(d.lpv)" -/
  | decided (hd : Blk) (tl : Chain) (d : Dec)
  /-- that callback has run: the revert task is item `k` of the verifiers stream -/
  | queued (hd : Blk) (tl : Chain) (d : Dec) (k : Nat)
  /-- callback run (and, for a revert task, executed) -/
  | over
deriving DecidableEq, Repr, Inhabited

/-- an item of the verifiers stream -/
inductive VItem where
  | block (req : Nat) (b : Blk)
  /-- `revertTask` submitted by fetcher `i` -/
  | revert (i : Nat) (hd : Blk) (tl : Chain) (d : Dec)
deriving DecidableEq, Repr, Inhabited

structure St where
  impl : Impl
  /-- first height of this stream generation -/
  start : Nat
  /-- fetcher `j` works on height `start + j` -/
  fs : List FSt
  /-- fetcher callbacks executed so far -/
  fnext : Nat
  vq : List VItem
  /-- verifier callbacks executed so far -/
  vdone : Nat
  /-- `streamCtx` is done -/
  cancelled : Bool
  /-- ghost: everything observed, and the events of the serial machine performed so far -/
  obs : List Obs
  evs : List Ev

def St.init (c : Chain) : St :=
  { impl := Impl.init c, start := nextHeight c, fs := [], fnext := 0, vq := [], vdone := 0,
    cancelled := false, obs := [], evs := [] }

def St.f (s : St) (j : Nat) : FSt := s.fs.getD j .over
def St.chain (s : St) : Chain := s.impl.node.chain

inductive Act where
  | spawn
  | fetchOk (i : Nat) (b : Blk)
  | fetchCancelled (i : Nat)
  | fetchErr (i : Nat)
  | localRead (i : Nat) (rh : Option Hdr)
  | confirm (i : Nat) (cb : Option Blk)
  | fcb
  | vcb (flip : Bool)
  | iter (ans : Option Blk) (revOk : Bool)
  | newGen
deriving Repr, Inhabited

def setF (s : St) (j : Nat) (x : FSt) : St := { s with fs := s.fs.set j x }

/-- the tail of `isReverting` after the hashes were found different and (if the variant asks for it)
the announced block was confirmed -/
def decide (cfg : Cfg) (next : Nat) (rh : Hdr) (cb : Option Blk) : Dec :=
  ⟨next, rh, cb, if cfg.zeroGuard && rh.num == 0 then 0 else sub64 rh.num 1⟩

/-- does `storeTask` call `resetStreams()` for this delivery (`flip` = the mode changed) -/
def cancelsAfter (c : Chain) (b : Blk) (flip : Bool) : Bool :=
  !b.ok || (match succession c b with
    | .stored => flip
    | .badNumber => true
    | .rootMismatch => true
    | .parentMismatch => false)

/-- `revertTask(ctx, d.lpv, resetStreams)` begins: the task runs with the lpv the fetcher computed
(the bookkeeping of the ghost evidence is the serial machine's) -/
def startTask (cfg : Cfg) (m : Impl) (d : Dec) : Impl :=
  { (m.step cfg (.reorgDetected d.next (some d.latest) d.confirm)).1 with task := some d.lpv }

def step (cfg : Cfg) (s : St) : Act → St
  | .spawn => { s with fs := s.fs ++ [.run] }
  | .fetchOk i b =>
    match s.f i with
    | .run => setF s i (.retBlock b)
    | _ => s
  | .fetchCancelled i =>
    match s.f i with
    | .run => if s.cancelled then setF s i .retNothing else s
    | _ => s
  | .fetchErr i =>
    match s.f i with
    | .run =>
      match s.chain with
      | [] => s                                              -- Height() fails: "not reverting", loop
      | hd :: tl => if hd.num + 1 != s.start + i then s      -- not waiting for the very next block
                    else setF s i (.gated hd tl)
    | _ => s
  | .localRead i rh? =>
    match s.f i with
    | .gated hd tl =>
      match rh? with
      | none => setF s i .run                                 -- BlockHeaderLatest failed
      | some rh =>
        if rh.num > hd.num then setF s i .run else
        match byNumber? s.chain (if rh.num < hd.num then rh.num else hd.num) with
        | none => setF s i .run
        | some lh =>
          if rh.hash == lh.hash then setF s i .run
          else if cfg.confirmLatest then setF s i (.gotLocal hd tl rh lh)
          else setF s i (.decided hd tl (decide cfg (s.start + i) rh none))
    | _ => s
  | .confirm i cb =>
    match s.f i with
    | .gotLocal hd tl rh _ =>
      if !confirmed cb rh then setF s i .run
      else setF s i (.decided hd tl (decide cfg (s.start + i) rh cb))
    | _ => s
  | .fcb =>
    match s.f s.fnext with
    | .retNothing => { setF s s.fnext .over with fnext := s.fnext + 1 }
    | .retBlock b =>
      { setF s s.fnext .over with fnext := s.fnext + 1, vq := s.vq ++ [.block (s.start + s.fnext) b] }
    | .decided hd tl d =>
      { setF s s.fnext (.queued hd tl d s.vq.length) with
        fnext := s.fnext + 1, vq := s.vq ++ [.revert s.fnext hd tl d] }
    | _ => s
  | .vcb flip =>
    match s.impl.task with
    | some _ => s                                             -- the callback goroutine is inside revertTask
    | none =>
      match s.vq[s.vdone]? with
      | none => s
      | some (.block req b) =>
        let e := Ev.deliver req b s.cancelled
        let r := s.impl.step cfg e
        { s with impl := r.1, obs := s.obs ++ r.2, evs := s.evs ++ [e], vdone := s.vdone + 1,
                 cancelled := s.cancelled || cancelsAfter s.chain b flip }
      | some (.revert i _ _ d) =>
        { setF s i .over with
          impl := startTask cfg s.impl d, vdone := s.vdone + 1,
          evs := s.evs ++ [.reorgDetected d.next (some d.latest) d.confirm] }
  | .iter ans revOk =>
    match s.impl.task with
    | none => s
    | some _ =>
      let e := Ev.iter ans revOk
      let r := s.impl.step cfg e
      { s with impl := r.1, obs := s.obs ++ r.2, evs := s.evs ++ [e],
               cancelled := s.cancelled || r.1.task.isNone }   -- defer resetStreams()
  | .newGen =>
    if s.cancelled && s.impl.task.isNone && s.fnext == s.fs.length && s.vdone == s.vq.length then
      { s with start := nextHeight s.chain, fs := [], fnext := 0, vq := [], vdone := 0, cancelled := false }
    else s

def run (cfg : Cfg) (s : St) : List Act → St
  | [] => s
  | a :: as => run cfg (step cfg s a) as

end Juno.C06.Pipe
