import JunoModel.C06.ModelFeedConc
/-!
C06 — lemmas about the concurrent feed machine (`ModelFeedConc.lean`): the invariant of the variant
that holds `f.mu` across the fan-out, its consequences (no send on a closed channel, no close of a
closed channel, the blocking keep-last send never blocks), and the refinement to atomic operations in
lock-acquisition order.
-/
namespace Juno.C06.FeedConc

theorem pc_lt {s : St} {t : Nat} (h : s.pc t ≠ .idle) : t < s.pcs.length := by
  by_cases lt : t < s.pcs.length
  · exact lt
  · exfalso; apply h; simp [St.pc, List.getD, List.getElem?_eq_none (Nat.le_of_not_lt lt)]

theorem getD_set_pc {l : List Pc} {t : Nat} (lt : t < l.length) (p : Pc) (t' : Nat) :
    (l.set t p).getD t' .idle = if t' = t then p else l.getD t' .idle := by
  simp only [List.getD, List.getElem?_set]
  by_cases e : t = t'
  · subst e; simp [lt]
  · have : ¬ t' = t := fun x => e x.symm
    simp [e, this]

/-- is channel `h` closed (no such channel: no) -/
def closedAt (cs : List Chan) (h : Nat) : Bool := (cs[h]?.map (·.closed)).getD false
/-- content of the slot of channel `h` -/
def bufAt (cs : List Chan) (h : Nat) : Option V := cs[h]?.bind (·.buf)

theorem setBuf_length (cs : List Chan) (h : Nat) (b : Option V) : (setBuf cs h b).length = cs.length := by
  unfold setBuf; cases cs[h]? <;> simp
theorem setClosed_length (cs : List Chan) (h : Nat) : (setClosed cs h).length = cs.length := by
  unfold setClosed; cases cs[h]? <;> simp

theorem closedAt_setBuf (cs : List Chan) (h : Nat) (b : Option V) (h' : Nat) :
    closedAt (setBuf cs h b) h' = closedAt cs h' := by
  unfold setBuf closedAt
  cases e : cs[h]? with
  | none => rfl
  | some c =>
    simp only [List.getElem?_set]
    by_cases x : h = h'
    · subst x
      obtain ⟨lt, hg⟩ := List.getElem?_eq_some_iff.mp e
      simp [lt, hg]
    · simp [x]

theorem bufAt_setBuf (cs : List Chan) (h : Nat) (b : Option V) (h' : Nat) :
    bufAt (setBuf cs h b) h' = if h' = h ∧ h < cs.length then b else bufAt cs h' := by
  unfold setBuf bufAt
  cases e : cs[h]? with
  | none =>
    have : ¬ h < cs.length := fun lt => by simp [List.getElem?_eq_getElem lt] at e
    simp [this]
  | some c =>
    have lt : h < cs.length := (List.getElem?_eq_some_iff.mp e).1
    simp only [List.getElem?_set]
    by_cases x : h = h'
    · subst x; simp [lt]
    · have : ¬ h' = h := fun y => x y.symm
      simp [x, this]

theorem closedAt_setClosed (cs : List Chan) (h : Nat) (h' : Nat) :
    closedAt (setClosed cs h) h' = if h' = h ∧ h < cs.length then true else closedAt cs h' := by
  unfold setClosed closedAt
  cases e : cs[h]? with
  | none =>
    have : ¬ h < cs.length := fun lt => by simp [List.getElem?_eq_getElem lt] at e
    simp [this]
  | some c =>
    have lt : h < cs.length := (List.getElem?_eq_some_iff.mp e).1
    simp only [List.getElem?_set]
    by_cases x : h = h'
    · subst x; simp [lt]
    · have : ¬ h' = h := fun y => x y.symm
      simp [x, this]

theorem bufAt_setClosed (cs : List Chan) (h : Nat) (h' : Nat) :
    bufAt (setClosed cs h) h' = bufAt cs h' := by
  unfold setClosed bufAt
  cases e : cs[h]? with
  | none => rfl
  | some c =>
    simp only [List.getElem?_set]
    by_cases x : h = h'
    · subst x
      obtain ⟨lt, hg⟩ := List.getElem?_eq_some_iff.mp e
      simp [lt, hg]
    · simp [x]

theorem closedAt_append (cs : List Chan) (c : Chan) (h' : Nat) :
    closedAt (cs ++ [c]) h' = if h' = cs.length then c.closed else closedAt cs h' := by
  unfold closedAt
  by_cases x : h' = cs.length
  · subst x; simp
  · simp only [x, ↓reduceIte]
    by_cases lt : h' < cs.length
    · simp [List.getElem?_append_left lt]
    · have : cs.length < h' := by omega
      rw [List.getElem?_eq_none (by simp; omega), List.getElem?_eq_none (by omega)]

theorem bufAt_append (cs : List Chan) (c : Chan) (h' : Nat) :
    bufAt (cs ++ [c]) h' = if h' = cs.length then c.buf else bufAt cs h' := by
  unfold bufAt
  by_cases x : h' = cs.length
  · subst x; simp
  · simp only [x, ↓reduceIte]
    by_cases lt : h' < cs.length
    · simp [List.getElem?_append_left lt]
    · have : cs.length < h' := by omega
      rw [List.getElem?_eq_none (by simp; omega), List.getElem?_eq_none (by omega)]

theorem closedAt_of_get {cs : List Chan} {h : Nat} {c : Chan} (e : cs[h]? = some c) :
    closedAt cs h = c.closed ∧ bufAt cs h = c.buf ∧ h < cs.length := by
  obtain ⟨lt, hg⟩ := List.getElem?_eq_some_iff.mp e
  simp [closedAt, bufAt, lt, hg]

structure CInv (s : St) : Prop where
  mutex : ∀ t, holds .underLock (s.pc t) = true → s.lock = some t
  openReg : ∀ h ∈ s.subs, h < s.chans.length ∧ (closedAt s.chans h = true → ∃ t, s.pc t = .un2 h)
  todo : ∀ t v td ph, s.pc t = .sndL v td ph → ∀ h ∈ td, h ∈ s.subs
  pushEmpty : ∀ t v h rest, s.pc t = .sndL v (h :: rest) .push → bufAt s.chans h = none
  onceA : ∀ t h, (s.pc t = .unA h ∨ s.pc t = .un1 h) → h < s.chans.length ∧ closedAt s.chans h = false
  onceM : ∀ t h, (s.pc t = .unA h ∨ s.pc t = .un1 h ∨ s.pc t = .un2 h) → h ∈ s.once
  onceU : ∀ t t' h, (s.pc t = .unA h ∨ s.pc t = .un1 h) →
    (s.pc t' = .unA h ∨ s.pc t' = .un1 h ∨ s.pc t' = .un2 h) → t = t'
  onceC : ∀ h, closedAt s.chans h = true → h ∈ s.once

local macro "fin_case " k:term : tactic =>
  `(tactic| (constructor <;> simp only [St.pc, St.setPc, $k:term, closedAt_setBuf, bufAt_setBuf,
      closedAt_setClosed, bufAt_setClosed, closedAt_append, bufAt_append, setBuf_length, setClosed_length,
      List.length_append, List.length_singleton] <;> grind [holds]))

theorem step_sub0 {s : St} {t : Nat} (hi : CInv s) (hp : s.panicked = false) {k : Bool} (hpc : s.pc t = .sub0 k) :
    CInv (cstep .underLock s t) := by
  have ne : s.pc t ≠ .idle := by rw [hpc]; simp
  have key := getD_set_pc (pc_lt ne)
  unfold cstep
  simp only [hp, Bool.false_eq_true, ↓reduceIte, hpc]
  obtain ⟨h1, h2, h3, h4, h5, h6, h7, h8⟩ := hi
  simp only [St.pc] at *
  by_cases hl : s.lock = none
  · simp only [hl, ↓reduceIte]
    fin_case key
  · simp only [hl, ↓reduceIte]; constructor <;> assumption

theorem step_sub1 {s : St} {t : Nat} (hi : CInv s) (hp : s.panicked = false) {k : Bool} (hpc : s.pc t = .sub1 k) :
    CInv (cstep .underLock s t) := by
  have ne : s.pc t ≠ .idle := by rw [hpc]; simp
  have key := getD_set_pc (pc_lt ne)
  unfold cstep
  simp only [hp, Bool.false_eq_true, ↓reduceIte, hpc]
  obtain ⟨h1, h2, h3, h4, h5, h6, h7, h8⟩ := hi
  simp only [St.pc] at *
  fin_case key

theorem step_sub2 {s : St} {t : Nat} (hi : CInv s) (hp : s.panicked = false) (hpc : s.pc t = .sub2) :
    CInv (cstep .underLock s t) := by
  have ne : s.pc t ≠ .idle := by rw [hpc]; simp
  have key := getD_set_pc (pc_lt ne)
  unfold cstep
  simp only [hp, Bool.false_eq_true, ↓reduceIte, hpc]
  obtain ⟨h1, h2, h3, h4, h5, h6, h7, h8⟩ := hi
  simp only [St.pc] at *
  fin_case key

theorem step_un0 {s : St} {t : Nat} (hi : CInv s) (hp : s.panicked = false) {h : Nat} (hpc : s.pc t = .un0 h) :
    CInv (cstep .underLock s t) := by
  have ne : s.pc t ≠ .idle := by rw [hpc]; simp
  have key := getD_set_pc (pc_lt ne)
  unfold cstep
  simp only [hp, Bool.false_eq_true, ↓reduceIte, hpc]
  obtain ⟨h1, h2, h3, h4, h5, h6, h7, h8⟩ := hi
  simp only [St.pc] at *
  by_cases c : h ∈ s.once ∨ s.chans.length ≤ h
  · simp only [c, ↓reduceIte]; fin_case key
  · simp only [c, ↓reduceIte]; fin_case key

theorem step_unA {s : St} {t : Nat} (hi : CInv s) (hp : s.panicked = false) {h : Nat} (hpc : s.pc t = .unA h) :
    CInv (cstep .underLock s t) := by
  have ne : s.pc t ≠ .idle := by rw [hpc]; simp
  have key := getD_set_pc (pc_lt ne)
  unfold cstep
  simp only [hp, Bool.false_eq_true, ↓reduceIte, hpc]
  obtain ⟨h1, h2, h3, h4, h5, h6, h7, h8⟩ := hi
  simp only [St.pc] at *
  by_cases hl : s.lock = none
  · simp only [hl, ↓reduceIte]
    fin_case key
  · simp only [hl, ↓reduceIte]; constructor <;> assumption

theorem step_un1 {s : St} {t : Nat} (hi : CInv s) (hp : s.panicked = false) {h : Nat} (hpc : s.pc t = .un1 h) :
    CInv (cstep .underLock s t) := by
  have ne : s.pc t ≠ .idle := by rw [hpc]; simp
  have key := getD_set_pc (pc_lt ne)
  unfold cstep
  simp only [hp, Bool.false_eq_true, ↓reduceIte, hpc]
  obtain ⟨h1, h2, h3, h4, h5, h6, h7, h8⟩ := hi
  simp only [St.pc] at *
  cases hc : s.chans[h]? with
  | none => simp only; fin_case key
  | some c =>
    simp only
    have ⟨e1, e2, e3⟩ := closedAt_of_get hc
    by_cases cc : c.closed = true
    · simp only [cc, ↓reduceIte]; constructor <;> assumption
    · simp only [cc, Bool.false_eq_true, ↓reduceIte]; fin_case key

theorem step_un2 {s : St} {t : Nat} (hi : CInv s) (hp : s.panicked = false) {h : Nat} (hpc : s.pc t = .un2 h) :
    CInv (cstep .underLock s t) := by
  have ne : s.pc t ≠ .idle := by rw [hpc]; simp
  have key := getD_set_pc (pc_lt ne)
  unfold cstep
  simp only [hp, Bool.false_eq_true, ↓reduceIte, hpc]
  obtain ⟨h1, h2, h3, h4, h5, h6, h7, h8⟩ := hi
  simp only [St.pc] at *
  fin_case key

theorem step_un3 {s : St} {t : Nat} (hi : CInv s) (hp : s.panicked = false) (hpc : s.pc t = .un3) :
    CInv (cstep .underLock s t) := by
  have ne : s.pc t ≠ .idle := by rw [hpc]; simp
  have key := getD_set_pc (pc_lt ne)
  unfold cstep
  simp only [hp, Bool.false_eq_true, ↓reduceIte, hpc]
  obtain ⟨h1, h2, h3, h4, h5, h6, h7, h8⟩ := hi
  simp only [St.pc] at *
  fin_case key

theorem step_snd0 {s : St} {t : Nat} (hi : CInv s) (hp : s.panicked = false) {v : V} (hpc : s.pc t = .snd0 v) :
    CInv (cstep .underLock s t) := by
  have ne : s.pc t ≠ .idle := by rw [hpc]; simp
  have key := getD_set_pc (pc_lt ne)
  unfold cstep
  simp only [hp, Bool.false_eq_true, ↓reduceIte, hpc]
  obtain ⟨h1, h2, h3, h4, h5, h6, h7, h8⟩ := hi
  simp only [St.pc] at *
  by_cases hl : s.lock = none
  · simp only [hl, ↓reduceIte]
    fin_case key
  · simp only [hl, ↓reduceIte]; constructor <;> assumption

theorem step_snd1 {s : St} {t : Nat} (hi : CInv s) (hp : s.panicked = false) {v : V} (hpc : s.pc t = .snd1 v) :
    CInv (cstep .underLock s t) := by
  have ne : s.pc t ≠ .idle := by rw [hpc]; simp
  have key := getD_set_pc (pc_lt ne)
  unfold cstep
  simp only [hp, Bool.false_eq_true, ↓reduceIte, hpc]
  obtain ⟨h1, h2, h3, h4, h5, h6, h7, h8⟩ := hi
  simp only [St.pc] at *
  fin_case key

theorem step_snd3 {s : St} {t : Nat} (hi : CInv s) (hp : s.panicked = false) (hpc : s.pc t = .snd3) :
    CInv (cstep .underLock s t) := by
  have ne : s.pc t ≠ .idle := by rw [hpc]; simp
  have key := getD_set_pc (pc_lt ne)
  unfold cstep
  simp only [hp, Bool.false_eq_true, ↓reduceIte, hpc]
  obtain ⟨h1, h2, h3, h4, h5, h6, h7, h8⟩ := hi
  simp only [St.pc] at *
  fin_case key

theorem step_rcv {s : St} {t : Nat} (hi : CInv s) (hp : s.panicked = false) {h : Nat} (hpc : s.pc t = .rcv h) :
    CInv (cstep .underLock s t) := by
  have ne : s.pc t ≠ .idle := by rw [hpc]; simp
  have key := getD_set_pc (pc_lt ne)
  unfold cstep
  simp only [hp, Bool.false_eq_true, ↓reduceIte, hpc]
  obtain ⟨h1, h2, h3, h4, h5, h6, h7, h8⟩ := hi
  simp only [St.pc] at *
  cases hc : s.chans[h]? with
  | none => simp only; fin_case key
  | some c =>
    simp only
    have ⟨e1, e2, e3⟩ := closedAt_of_get hc
    cases hb : c.buf with
    | none => simp only; fin_case key
    | some v => simp only; fin_case key

theorem step_sndL_nil {s : St} {t : Nat} (hi : CInv s) (hp : s.panicked = false) {v : V} {ph : Phase} (hpc : s.pc t = .sndL v [] ph) :
    CInv (cstep .underLock s t) := by
  have ne : s.pc t ≠ .idle := by rw [hpc]; simp
  have key := getD_set_pc (pc_lt ne)
  unfold cstep
  simp only [hp, Bool.false_eq_true, ↓reduceIte, hpc]
  obtain ⟨h1, h2, h3, h4, h5, h6, h7, h8⟩ := hi
  simp only [St.pc] at *
  fin_case key

theorem step_sndL_try {s : St} {t : Nat} (hi : CInv s) (hp : s.panicked = false) {v : V} {h : Nat} {rest : List Nat} (hpc : s.pc t = .sndL v (h :: rest) .try_) :
    CInv (cstep .underLock s t) := by
  have ne : s.pc t ≠ .idle := by rw [hpc]; simp
  have key := getD_set_pc (pc_lt ne)
  unfold cstep
  simp only [hp, Bool.false_eq_true, ↓reduceIte, hpc]
  obtain ⟨h1, h2, h3, h4, h5, h6, h7, h8⟩ := hi
  simp only [St.pc] at *
  have hin : h ∈ s.subs := h3 t v _ _ hpc h List.mem_cons_self
  have hlt := (h2 h hin).1
  cases hc : s.chans[h]? with
  | none => simp only; fin_case key
  | some c =>
    simp only
    have ⟨e1, e2, e3⟩ := closedAt_of_get hc
    by_cases cc : c.closed = true
    · simp only [cc, ↓reduceIte]; constructor <;> assumption
    · simp only [cc, Bool.false_eq_true, ↓reduceIte]
      cases hb : c.buf with
      | none => simp only; fin_case key
      | some b =>
        simp only
        by_cases kl : c.keepLast = true
        · simp only [kl, ↓reduceIte]; fin_case key
        · simp only [kl, Bool.false_eq_true, ↓reduceIte]; fin_case key

theorem step_sndL_drain {s : St} {t : Nat} (hi : CInv s) (hp : s.panicked = false) {v : V} {h : Nat} {rest : List Nat} (hpc : s.pc t = .sndL v (h :: rest) .drain) :
    CInv (cstep .underLock s t) := by
  have ne : s.pc t ≠ .idle := by rw [hpc]; simp
  have key := getD_set_pc (pc_lt ne)
  unfold cstep
  simp only [hp, Bool.false_eq_true, ↓reduceIte, hpc]
  obtain ⟨h1, h2, h3, h4, h5, h6, h7, h8⟩ := hi
  simp only [St.pc] at *
  have hin : h ∈ s.subs := h3 t v _ _ hpc h List.mem_cons_self
  have hlt := (h2 h hin).1
  fin_case key

theorem step_sndL_push {s : St} {t : Nat} (hi : CInv s) (hp : s.panicked = false) {v : V} {h : Nat} {rest : List Nat} (hpc : s.pc t = .sndL v (h :: rest) .push) :
    CInv (cstep .underLock s t) := by
  have ne : s.pc t ≠ .idle := by rw [hpc]; simp
  have key := getD_set_pc (pc_lt ne)
  unfold cstep
  simp only [hp, Bool.false_eq_true, ↓reduceIte, hpc]
  obtain ⟨h1, h2, h3, h4, h5, h6, h7, h8⟩ := hi
  simp only [St.pc] at *
  have hin : h ∈ s.subs := h3 t v _ _ hpc h List.mem_cons_self
  have hlt := (h2 h hin).1
  cases hc : s.chans[h]? with
  | none => simp only; fin_case key
  | some c =>
    simp only
    have ⟨e1, e2, e3⟩ := closedAt_of_get hc
    by_cases cc : c.closed = true
    · simp only [cc, ↓reduceIte]; constructor <;> assumption
    · simp only [cc, Bool.false_eq_true, ↓reduceIte]
      cases hb : c.buf with
      | none => simp only; fin_case key
      | some b => simp only; constructor <;> assumption

theorem CInv.step {s : St} (hi : CInv s) (t : Nat) : CInv (cstep .underLock s t) := by
  by_cases hp : s.panicked = true
  · unfold cstep; simp only [hp, ↓reduceIte]; exact hi
  have hp : s.panicked = false := by simpa using hp
  cases hpc : s.pc t with
  | idle => unfold cstep; simp only [hp, hpc, Bool.false_eq_true, ↓reduceIte]; exact hi
  | rcvD _ _ => unfold cstep; simp only [hp, hpc, Bool.false_eq_true, ↓reduceIte]; exact hi
  | sub0 k => exact step_sub0 hi hp hpc
  | sub1 k => exact step_sub1 hi hp hpc
  | sub2 => exact step_sub2 hi hp hpc
  | un0 h => exact step_un0 hi hp hpc
  | unA h => exact step_unA hi hp hpc
  | un1 h => exact step_un1 hi hp hpc
  | un2 h => exact step_un2 hi hp hpc
  | un3 => exact step_un3 hi hp hpc
  | snd0 v => exact step_snd0 hi hp hpc
  | snd1 v => exact step_snd1 hi hp hpc
  | snd3 => exact step_snd3 hi hp hpc
  | rcv h => exact step_rcv hi hp hpc
  | sndL v todo ph =>
    cases todo with
    | nil => exact step_sndL_nil hi hp hpc
    | cons h rest =>
      cases ph with
      | try_ => exact step_sndL_try hi hp hpc
      | drain => exact step_sndL_drain hi hp hpc
      | push => exact step_sndL_push hi hp hpc

theorem CInv.run {s : St} (hi : CInv s) (sched : List Nat) : CInv (crun .underLock s sched) := by
  induction sched generalizing s with
  | nil => exact hi
  | cons t ts ih => exact ih (hi.step t)

/-- with the fan-out under the lock no step raises a panic -/
theorem cstep_panicked {s : St} (hi : CInv s) (t : Nat) :
    (cstep .underLock s t).panicked = s.panicked := by
  by_cases hp : s.panicked = true
  · unfold cstep; simp only [hp, ↓reduceIte]
  have hp : s.panicked = false := by simpa using hp
  obtain ⟨h1, h2, h3, h4, h5, h6, h7, h8⟩ := hi
  unfold cstep
  simp only [hp, Bool.false_eq_true, ↓reduceIte]
  cases hpc : s.pc t with
  | sub0 k => simp only; split <;> simp [St.setPc, hp]
  | unA k => simp only; split <;> simp [St.setPc, hp]
  | snd0 k => simp only; split <;> simp [St.setPc, hp]
  | un0 k => simp only; split <;> simp [St.setPc, hp]
  | snd1 v => simp [St.setPc, hp]
  | rcv h =>
    simp only
    cases s.chans[h]? with
    | none => simp [St.setPc, hp]
    | some c => simp only; cases hb : c.buf <;> simp [St.setPc, hp]
  | un1 h =>
    simp only
    cases hc : s.chans[h]? with
    | none => simp [St.setPc, hp]
    | some c =>
      have ⟨e1, _, _⟩ := closedAt_of_get hc
      have := (h5 t h (Or.inr hpc)).2
      have cc : c.closed = false := by rw [← e1]; exact this
      simp [cc, St.setPc, hp]
  | sndL v todo ph =>
    cases todo with
    | nil => simp [St.setPc, hp]
    | cons h rest =>
      have hin : h ∈ s.subs := h3 t v _ _ hpc h List.mem_cons_self
      have hopen : closedAt s.chans h = false := by
        cases hcl : closedAt s.chans h with
        | false => rfl
        | true =>
          obtain ⟨t', ht'⟩ := (h2 h hin).2 hcl
          have l1 := h1 t (by rw [hpc]; simp [holds])
          have l2 := h1 t' (by rw [ht']; simp [holds])
          have : t = t' := by rw [l1] at l2; exact Option.some.inj l2
          subst this; rw [hpc] at ht'; cases ht'
      cases ph with
      | drain => simp [St.setPc, hp]
      | try_ =>
        simp only
        cases hc : s.chans[h]? with
        | none => simp [St.setPc, hp]
        | some c =>
          have ⟨e1, _, _⟩ := closedAt_of_get hc
          have cc : c.closed = false := by rw [← e1]; exact hopen
          simp only [cc, Bool.false_eq_true, ↓reduceIte]
          cases c.buf with
          | none => simp [St.setPc, hp]
          | some b => simp only; split <;> simp [St.setPc, hp]
      | push =>
        simp only
        cases hc : s.chans[h]? with
        | none => simp [St.setPc, hp]
        | some c =>
          have ⟨e1, _, _⟩ := closedAt_of_get hc
          have cc : c.closed = false := by rw [← e1]; exact hopen
          simp only [cc, Bool.false_eq_true, ↓reduceIte]
          cases c.buf <;> simp [St.setPc, hp]
  | _ => simp [St.setPc, hp]

theorem crun_panicked {s : St} (hi : CInv s) (sched : List Nat) :
    (crun .underLock s sched).panicked = s.panicked := by
  induction sched generalizing s with
  | nil => rfl
  | cons t ts ih => exact (ih (hi.step t)).trans (cstep_panicked hi t)

/-- the blocking `sub.c <- v` of the keep-last path finds the slot empty -/
theorem not_blocked {s : St} (hi : CInv s) (t : Nat) : blocked s t = false := by
  unfold blocked
  cases hpc : s.pc t with
  | sndL v todo ph =>
    cases todo with
    | nil => rfl
    | cons h rest =>
      cases ph with
      | push =>
        simp only
        cases hc : s.chans[h]? with
        | none => rfl
        | some c =>
          have ⟨_, e2, _⟩ := closedAt_of_get hc
          have := hi.pushEmpty t v h rest hpc
          rw [e2] at this
          simp [this]
      | _ => rfl
  | _ => rfl

/-- program points at which a goroutine of a start state may be -/
def Pc.initial : Pc → Bool
  | .idle | .sub0 _ | .un0 _ | .snd0 _ | .rcv _ | .rcvD _ _ => true
  | _ => false


theorem map_closed_setBuf (cs : List Chan) (h : Nat) (b : Option V) :
    (setBuf cs h b).map (·.closed) = cs.map (·.closed) := by
  apply List.ext_getElem?
  intro i
  have := closedAt_setBuf cs h b i
  simp only [closedAt] at this
  simp only [List.getElem?_map]
  cases e1 : (setBuf cs h b)[i]? with
  | none =>
    have : cs[i]? = none := by
      have l := setBuf_length cs h b
      rw [List.getElem?_eq_none_iff] at e1 ⊢; omega
    simp [this]
  | some c =>
    have : ∃ c', cs[i]? = some c' := by
      have l := setBuf_length cs h b
      have := (List.getElem?_eq_some_iff.mp e1).1
      exact ⟨cs[i]'(by omega), List.getElem?_eq_getElem (by omega)⟩
    obtain ⟨c', e2⟩ := this
    simp [e1, e2] at this ⊢
    exact this

theorem map_closed_setClosed (cs : List Chan) (h : Nat) :
    (setClosed cs h).map (·.closed) = (cs.map (·.closed)).set h true := by
  unfold setClosed
  cases e : cs[h]? with
  | none =>
    have : cs.length ≤ h := by rw [List.getElem?_eq_none_iff] at e; exact e
    simp only
    rw [List.set_eq_of_length_le (by simpa using this)]
  | some c => simp [List.map_set]


/-- `hist`/`abs` relation of one step: nothing, or exactly one operation takes effect -/
def Refines (s s' : St) : Prop :=
  (s'.hist = s.hist ∧ s'.abs = s.abs) ∨ ∃ op, s'.hist = s.hist ++ [op] ∧ s'.abs = astep s.abs op

theorem pc_self {s : St} {t : Nat} (ne : s.pc t ≠ .idle) (p : Pc) : (s.pcs.set t p).getD t .idle = p := by
  rw [getD_set_pc (pc_lt ne)]; simp

theorem pc_other {s : St} {t t' : Nat} (ne : s.pc t ≠ .idle) (p : Pc) (d : t' ≠ t) :
    (s.pcs.set t p).getD t' .idle = s.pc t' := by
  rw [getD_set_pc (pc_lt ne)]; simp [d, St.pc]

/-- a step of a goroutine that is outside every critical section and does not enter one: only its
own program counter, `once` and slot contents change -/
theorem refines_outside {s s' : St} {t : Nat} {p : Pc} (ne : s.pc t ≠ .idle)
    (hf : finish (s.pc t) = fun w => w) (hf' : finish p = fun w => w)
    (e1 : s'.pcs = s.pcs.set t p) (e2 : s'.lock = s.lock) (e3 : s'.view = s.view) (e4 : s'.hist = s.hist) :
    Refines s s' := by
  left
  refine ⟨e4, ?_⟩
  unfold St.abs
  rw [e2, e3]
  cases hl : s.lock with
  | none => rfl
  | some t' =>
    simp only
    by_cases d : t' = t
    · subst d
      have : s'.pc t' = p := by simp only [St.pc, e1]; exact pc_self ne p
      rw [this, hf, hf']
    · have : s'.pc t' = s.pc t' := by simp only [St.pc, e1]; exact pc_other ne p d
      rw [this]


theorem refines_stay {s s' : St} {t : Nat} {p : Pc} (ne : s.pc t ≠ .idle) (hl : s.lock = some t)
    (e1 : s'.pcs = s.pcs.set t p) (e2 : s'.lock = some t) (e4 : s'.hist = s.hist)
    (e3 : finish p s'.view = finish (s.pc t) s.view) : Refines s s' := by
  left
  refine ⟨e4, ?_⟩
  unfold St.abs
  rw [e2, hl]
  have : s'.pc t = p := by simp only [St.pc, e1]; exact pc_self ne p
  simp only [this, e3]

theorem refines_leave {s s' : St} {t : Nat} (hl : s.lock = some t)
    (e2 : s'.lock = none) (e4 : s'.hist = s.hist)
    (e3 : s'.view = finish (s.pc t) s.view) : Refines s s' := by
  left
  refine ⟨e4, ?_⟩
  unfold St.abs
  rw [e2, hl]
  simp only [e3]

theorem refines_enter {s s' : St} {t : Nat} {p : Pc} {op : AOp} (ne : s.pc t ≠ .idle) (hl : s.lock = none)
    (e1 : s'.pcs = s.pcs.set t p) (e2 : s'.lock = some t) (e4 : s'.hist = s.hist ++ [op])
    (e3 : finish p s'.view = astep s.view op) : Refines s s' := by
  right
  refine ⟨op, e4, ?_⟩
  unfold St.abs
  rw [e2, hl]
  have : s'.pc t = p := by simp only [St.pc, e1]; exact pc_self ne p
  simp only [this, e3]

theorem refines_refl (s : St) : Refines s s := Or.inl ⟨rfl, rfl⟩

theorem refines_panic (s : St) : Refines s { s with panicked := true } := Or.inl ⟨rfl, rfl⟩

theorem cstep_refines {s : St} (hi : CInv s) (t : Nat) : Refines s (cstep .underLock s t) := by
  by_cases hp : s.panicked = true
  · unfold cstep; simp only [hp, ↓reduceIte]; exact refines_refl s
  have hp : s.panicked = false := by simpa using hp
  unfold cstep
  simp only [hp, Bool.false_eq_true, ↓reduceIte]
  cases hpc : s.pc t with
  | idle => exact refines_refl s
  | rcvD _ _ => exact refines_refl s
  | sub0 k =>
    have ne : s.pc t ≠ .idle := by rw [hpc]; simp
    simp only
    by_cases hl : s.lock = none
    · simp only [hl, ↓reduceIte]
      exact refines_enter ne hl rfl rfl rfl rfl
    · simp only [hl, ↓reduceIte]; exact refines_refl s
  | unA h =>
    have ne : s.pc t ≠ .idle := by rw [hpc]; simp
    simp only
    by_cases hl : s.lock = none
    · simp only [hl, ↓reduceIte]
      exact refines_enter ne hl rfl rfl rfl rfl
    · simp only [hl, ↓reduceIte]; exact refines_refl s
  | snd0 v =>
    have ne : s.pc t ≠ .idle := by rw [hpc]; simp
    simp only
    by_cases hl : s.lock = none
    · simp only [hl, ↓reduceIte]
      exact refines_enter ne hl rfl rfl rfl rfl
    · simp only [hl, ↓reduceIte]; exact refines_refl s
  | un0 h =>
    have ne : s.pc t ≠ .idle := by rw [hpc]; simp
    simp only
    split
    · exact refines_outside ne (by rw [hpc]; rfl) rfl rfl rfl rfl rfl
    · exact refines_outside (p := .unA h) ne (by rw [hpc]; rfl) rfl rfl rfl rfl rfl
  | rcv h =>
    have ne : s.pc t ≠ .idle := by rw [hpc]; simp
    simp only
    cases hc : s.chans[h]? with
    | none => exact refines_outside ne (by rw [hpc]; rfl) rfl rfl rfl rfl rfl
    | some c =>
      simp only
      cases hb : c.buf with
      | none => exact refines_outside ne (by rw [hpc]; rfl) rfl rfl rfl rfl rfl
      | some v =>
        refine refines_outside (p := .rcvD h (.val v)) ne (by rw [hpc]; rfl) rfl rfl rfl ?_ rfl
        simp [St.view, St.setPc, map_closed_setBuf]
  | sub1 k =>
    have ne : s.pc t ≠ .idle := by rw [hpc]; simp
    have hl := hi.mutex t (by rw [hpc]; rfl)
    refine refines_stay (p := .sub2) ne hl rfl hl rfl ?_
    rw [hpc]; simp [finish, astep, St.view, St.setPc]
  | sub2 =>
    have hl := hi.mutex t (by rw [hpc]; rfl)
    refine refines_leave hl rfl rfl ?_
    rw [hpc]; rfl
  | un1 h =>
    have ne : s.pc t ≠ .idle := by rw [hpc]; simp
    have hl := hi.mutex t (by rw [hpc]; rfl)
    simp only
    cases hc : s.chans[h]? with
    | none =>
      refine refines_stay (p := .un2 h) ne hl rfl hl rfl ?_
      have : s.chans.length ≤ h := by rw [List.getElem?_eq_none_iff] at hc; exact hc
      rw [hpc]; simp only [finish, astep, St.view, St.setPc]
      rw [List.set_eq_of_length_le (by simpa using this)]
    | some c =>
      simp only
      split
      · exact refines_panic s
      · refine refines_stay (p := .un2 h) ne hl rfl hl rfl ?_
        rw [hpc]; simp [finish, astep, St.view, St.setPc, map_closed_setClosed]
  | un2 h =>
    have ne : s.pc t ≠ .idle := by rw [hpc]; simp
    have hl := hi.mutex t (by rw [hpc]; rfl)
    refine refines_stay (p := .un3) ne hl rfl hl rfl ?_
    rw [hpc]; rfl
  | un3 =>
    have hl := hi.mutex t (by rw [hpc]; rfl)
    refine refines_leave hl rfl rfl ?_
    rw [hpc]; rfl
  | snd1 v =>
    have ne : s.pc t ≠ .idle := by rw [hpc]; simp
    have hl := hi.mutex t (by rw [hpc]; rfl)
    refine refines_stay (p := .sndL v s.subs .try_) ne hl rfl hl rfl ?_
    rw [hpc]; rfl
  | snd3 =>
    have hl := hi.mutex t (by rw [hpc]; rfl)
    refine refines_leave hl rfl rfl ?_
    rw [hpc]; rfl
  | sndL v todo ph =>
    have ne : s.pc t ≠ .idle := by rw [hpc]; simp
    have hl := hi.mutex t (by rw [hpc]; rfl)
    cases todo with
    | nil =>
      refine refines_stay (p := .snd3) ne hl rfl hl rfl ?_
      rw [hpc]; cases ph <;> simp [finish, St.view, St.setPc]
    | cons h rest =>
      cases ph with
      | drain =>
        refine refines_stay (p := .sndL v (h :: rest) .push) ne hl rfl hl rfl ?_
        rw [hpc]; simp [finish, St.view, St.setPc, map_closed_setBuf]
      | try_ =>
        simp only
        cases hc : s.chans[h]? with
        | none =>
          refine refines_stay (p := .sndL v rest .try_) ne hl rfl hl rfl ?_
          rw [hpc]; simp [finish, St.view, St.setPc]
        | some c =>
          simp only
          split
          · exact refines_panic s
          · cases hb : c.buf with
            | none =>
              refine refines_stay (p := .sndL v rest .try_) ne hl rfl hl rfl ?_
              rw [hpc]; simp [finish, St.view, St.setPc, map_closed_setBuf]
            | some b =>
              simp only
              split
              · refine refines_stay (p := .sndL v (h :: rest) .drain) ne hl rfl hl rfl ?_
                rw [hpc]; simp [finish, St.view, St.setPc]
              · refine refines_stay (p := .sndL v rest .try_) ne hl rfl hl rfl ?_
                rw [hpc]; simp [finish, St.view, St.setPc]
      | push =>
        simp only
        cases hc : s.chans[h]? with
        | none =>
          refine refines_stay (p := .sndL v rest .try_) ne hl rfl hl rfl ?_
          rw [hpc]; simp [finish, St.view, St.setPc]
        | some c =>
          simp only
          split
          · exact refines_panic s
          · cases hb : c.buf with
            | none =>
              refine refines_stay (p := .sndL v rest .try_) ne hl rfl hl rfl ?_
              rw [hpc]; simp [finish, St.view, St.setPc, map_closed_setBuf]
            | some b => exact refines_refl s


theorem crun_refines {s : St} (hi : CInv s) (sched : List Nat) :
    ∃ ops, (crun .underLock s sched).hist = s.hist ++ ops ∧
      (crun .underLock s sched).abs = ops.foldl astep s.abs := by
  induction sched generalizing s with
  | nil => exact ⟨[], by simp [crun], rfl⟩
  | cons t ts ih =>
    obtain ⟨ops, e1, e2⟩ := ih (hi.step t)
    rcases cstep_refines hi t with ⟨a, b⟩ | ⟨op, a, b⟩
    · exact ⟨ops, by simp only [crun]; rw [e1, a], by simp only [crun]; rw [e2, b]⟩
    · refine ⟨op :: ops, ?_, ?_⟩
      · simp only [crun]; rw [e1, a]; simp
      · simp only [crun]; rw [e2, b]; rfl

theorem pc_initial_of_all {pcs : List Pc} (h : ∀ p ∈ pcs, p.initial = true) (t : Nat) :
    (pcs.getD t .idle).initial = true := by
  simp only [List.getD]
  cases e : pcs[t]? with
  | none => rfl
  | some p => exact h p (List.mem_of_getElem? e)

theorem CInv.start (chans : List Chan) (pcs : List Pc) (h : ∀ p ∈ pcs, p.initial = true) :
    CInv (start chans pcs) := by
  have hi := pc_initial_of_all h
  have closedAt_getD : ∀ k, k < chans.length → (chans.getD k default).closed = closedAt chans k := by
    intro k lt
    simp [closedAt, List.getD, List.getElem?_eq_getElem lt]
  refine ⟨?_, ?_, ?_, ?_, ?_, ?_, ?_, ?_⟩
  · intro t ht
    have := hi t
    simp only [St.pc, FeedConc.start] at ht
    cases e : pcs.getD t .idle <;> rw [e] at this ht <;> simp [holds, Pc.initial] at this ht
  · intro k hk
    simp only [FeedConc.start, List.mem_filter, List.mem_range] at hk
    refine ⟨hk.1, ?_⟩
    intro hc
    simp only [FeedConc.start] at hc
    rw [← closedAt_getD k hk.1] at hc
    rw [hc] at hk
    simp at hk
  · intro t v td ph ht
    have := hi t
    simp only [St.pc, FeedConc.start] at ht
    rw [ht] at this; simp [Pc.initial] at this
  · intro t v k rest ht
    have := hi t
    simp only [St.pc, FeedConc.start] at ht
    rw [ht] at this; simp [Pc.initial] at this
  · intro t k ht
    have := hi t
    simp only [St.pc, FeedConc.start] at ht
    rcases ht with ht | ht <;> rw [ht] at this <;> simp [Pc.initial] at this
  · intro t k ht
    have := hi t
    simp only [St.pc, FeedConc.start] at ht
    rcases ht with ht | ht | ht <;> rw [ht] at this <;> simp [Pc.initial] at this
  · intro t t' k ht
    have := hi t
    simp only [St.pc, FeedConc.start] at ht
    rcases ht with ht | ht <;> rw [ht] at this <;> simp [Pc.initial] at this
  · intro k hc
    simp only [FeedConc.start] at hc ⊢
    have lt : k < chans.length := by
      by_cases lt : k < chans.length
      · exact lt
      · simp [closedAt, List.getElem?_eq_none (Nat.le_of_not_lt lt)] at hc
    simp only [List.mem_filter, List.mem_range]
    exact ⟨lt, by rw [closedAt_getD k lt]; exact hc⟩

/-! ### the atomic operations: who is attempted -/

/-- well-formed caller's view: registered handles are distinct and name existing channels -/
structure VInv (w : View) : Prop where
  nodup : w.subs.Nodup
  lt : ∀ h ∈ w.subs, h < w.closed.length

theorem VInv.astep {w : View} (hw : VInv w) (op : AOp) : VInv (astep w op) := by
  cases op with
  | sub =>
    refine ⟨?_, ?_⟩
    · simp only [FeedConc.astep]
      rw [List.nodup_append]
      refine ⟨hw.nodup, by simp, ?_⟩
      intro a ha b hb
      simp only [List.mem_singleton] at hb
      have := hw.lt a ha
      omega
    · intro h hh
      simp only [FeedConc.astep, List.mem_append, List.mem_singleton, List.length_append, List.length_singleton] at hh ⊢
      rcases hh with hh | hh
      · have := hw.lt h hh; omega
      · omega
  | unsub k =>
    refine ⟨?_, ?_⟩
    · simp only [FeedConc.astep]; exact hw.nodup.filter _
    · intro h hh
      simp only [FeedConc.astep, List.mem_filter, List.length_set] at hh ⊢
      exact hw.lt h hh.1
  | send v => exact ⟨hw.nodup, hw.lt⟩

theorem VInv.foldl {w : View} (hw : VInv w) (ops : List AOp) : VInv (ops.foldl FeedConc.astep w) := by
  induction ops generalizing w with
  | nil => exact hw
  | cons op ops ih => exact ih (hw.astep op)

theorem count_map_pair (subs : List Nat) (v v' h : Nat) :
    (subs.map (fun k => (v', k))).count (v, h) = if v' = v then subs.count h else 0 := by
  induction subs with
  | nil => simp
  | cons k ks ih =>
    simp only [List.map_cons, List.count_cons, ih]
    by_cases e : v' = v
    · subst e; simp
    · simp [e]

/-- a subscriber that nobody unsubscribes stays registered and is attempted exactly once by every
`Send` -/
theorem stayer_attempted_once {w : View} (hw : VInv w) (ops : List AOp) (h : Nat) (hin : h ∈ w.subs)
    (hno : AOp.unsub h ∉ ops) (v : V) :
    h ∈ (ops.foldl FeedConc.astep w).subs ∧
      (ops.foldl FeedConc.astep w).log.count (v, h) = w.log.count (v, h) + ops.count (.send v) := by
  induction ops generalizing w with
  | nil => exact ⟨hin, by simp⟩
  | cons op ops ih =>
    have hno' : AOp.unsub h ∉ ops := fun x => hno (List.mem_cons_of_mem _ x)
    have hne : op ≠ AOp.unsub h := fun x => hno (by rw [x]; exact List.mem_cons_self)
    have hin' : h ∈ (FeedConc.astep w op).subs := by
      cases op with
      | sub => simp [FeedConc.astep, hin]
      | unsub k =>
        simp only [FeedConc.astep, List.mem_filter]
        refine ⟨hin, ?_⟩
        have : h ≠ k := fun x => hne (by rw [x])
        simp [this]
      | send v' => exact hin
    obtain ⟨a, b⟩ := ih (hw.astep op) hin' hno'
    refine ⟨a, ?_⟩
    simp only [List.foldl_cons]
    rw [b]
    cases op with
    | sub => simp [FeedConc.astep]
    | unsub k => simp [FeedConc.astep]
    | send v' =>
      simp only [FeedConc.astep, List.count_append, count_map_pair, List.count_cons]
      have c1 : w.subs.count h = 1 := by rw [hw.nodup.count]; simp [hin]
      by_cases e : v' = v
      · subst e; simp [c1]; omega
      · have : ¬ (AOp.send v' == AOp.send v) = true := by simp [e]
        simp [e]

/-- the delivery attempts addressed to subscriber `h` -/
def attemptsTo (h : Nat) (log : List (V × Nat)) : List (V × Nat) := log.filter (fun e => e.2 == h)

/-- once a subscription is unsubscribed no later `Send` attempts it, whatever is subscribed later -/
theorem no_attempt_after_unsubscribe {w : View} (hw : VInv w) (ops : List AOp) (h : Nat)
    (hout : h ∉ w.subs) (hlt : h < w.closed.length) :
    attemptsTo h (ops.foldl FeedConc.astep w).log = attemptsTo h w.log := by
  induction ops generalizing w with
  | nil => rfl
  | cons op ops ih =>
    simp only [List.foldl_cons]
    cases op with
    | sub =>
      rw [ih (hw.astep .sub)]
      · rfl
      · simp only [FeedConc.astep, List.mem_append, List.mem_singleton]
        intro x; rcases x with x | x
        · exact hout x
        · omega
      · simp only [FeedConc.astep, List.length_append, List.length_singleton]; omega
    | unsub k =>
      rw [ih (hw.astep (.unsub k))]
      · rfl
      · simp only [FeedConc.astep, List.mem_filter]; exact fun x => hout x.1
      · simp only [FeedConc.astep, List.length_set]; exact hlt
    | send v =>
      rw [ih (hw.astep (.send v)) hout hlt]
      simp only [FeedConc.astep, attemptsTo, List.filter_append]
      have : (w.subs.map (fun k => (v, k))).filter (fun e => e.2 == h) = [] := by
        rw [List.filter_eq_nil_iff]
        intro e he
        simp only [List.mem_map] at he
        obtain ⟨k, hk, rfl⟩ := he
        simp only [beq_iff_eq]
        intro x; subst x; exact hout hk
      rw [this, List.append_nil]

theorem VInv.start (chans : List Chan) (pcs : List Pc) : VInv (FeedConc.start chans pcs).view := by
  refine ⟨?_, ?_⟩
  · simp only [St.view, FeedConc.start]
    exact (List.nodup_range).filter _
  · intro h hh
    simp only [St.view, FeedConc.start, List.mem_filter, List.mem_range, List.length_map] at hh ⊢
    exact hh.1

end Juno.C06.FeedConc
