import JunoModel.C06.ProofsConv
/-!
C06 — helper lemmas, part 5: liveness beyond the sequential schedule. Against a stable honest source
NO event of the serial machine (late, duplicated, out-of-order answers, failing requests, stale
heads, cancellations, restarts) ever moves the node away from the source's chain (`measure` never
increases), and every undisturbed fetch–verify–store / revert cycle for the next height
(`roundEvents`) strictly decreases it.
-/
namespace Juno.C06

theorem step_reorgDetected_node (cfg : Cfg) (s : Impl) (next : Nat) (latest : Option Hdr)
    (confirm : Option Blk) :
    (s.step cfg (.reorgDetected next latest confirm)).1.node = s.node := by
  cases ht : s.task with
  | some _ => simp [Impl.step, ht]
  | none =>
    cases latest with
    | none =>
      cases hir : isReverting cfg s.node.chain next none confirm <;> simp [Impl.step, ht, hir]
    | some l =>
      cases hir : isReverting cfg s.node.chain next (some l) confirm <;>
        cases confirm <;> cases hcl : cfg.confirmLatest <;> simp_all [Impl.step]

theorem step_reorgDetected_task (cfg : Cfg) (s : Impl) (next : Nat) (latest : Option Hdr)
    (confirm : Option Blk) (ht : s.task = none) :
    (s.step cfg (.reorgDetected next latest confirm)).1.task =
      isReverting cfg s.node.chain next latest confirm := by
  cases latest with
  | none =>
    have hir := isReverting_none_latest cfg s.node.chain next confirm
    simp [Impl.step, ht, hir]
  | some l =>
    cases hir : isReverting cfg s.node.chain next (some l) confirm <;>
      cases confirm <;> cases hcl : cfg.confirmLatest <;> simp_all [Impl.step]

/-- An event whose source-dependent inputs are truthful about the stable chain `src`: a delivered
block is a block of `src` (for whatever height, whenever it was fetched), a reported latest header
is the header of some block of `src` (possibly stale), a `revertTask` request fails or is answered
with `src`'s block of that height, `RevertHead` succeeds. -/
def HonestEv (src : Chain) (s : Impl) : Ev → Prop
  | .deliver _ b _ => b ∈ src
  | .reorgDetected _ latest _ => ∀ l, latest = some l → ∃ b ∈ src, b.num = l.num ∧ b.hash = l.hash
  | .iter ans revOk =>
    revOk = true ∧ (ans = none ∨ ∀ hd tl, s.node.chain = hd :: tl → ans = byNumber? src hd.num)
  | .restart => True

/-- What is kept: the assumptions on the node's chain and, while a `revertTask(lpv)` runs, that the
blocks it will revert without asking are not the source's. -/
structure LInv (cfg : Cfg) (u : List Blk) (src : Chain) (s : Impl) : Prop where
  good : Good cfg u src s.node.chain
  task : ∀ lpv, s.task = some lpv → ∀ hd tl, (hd :: tl) <:+ s.node.chain → lpv < hd.num → hd ∉ src

theorem head_not_in_src_not_suffix {c src : Chain} {H : Blk} {T : Chain} (hc : c = H :: T)
    (h : H ∉ src) : ¬ c <:+ src := by
  intro hs; subst hc; exact h (hs.subset (List.mem_cons_self ..))

/-- removing a head that is not the source's keeps the assumptions and lowers the measure -/
theorem good_pop {cfg : Cfg} {u : List Blk} {src : Chain} {H : Blk} {T : Chain}
    (G : Good cfg u src (H :: T)) (hH : H ∉ src) :
    Good cfg u src T ∧ measure src T < measure src (H :: T) := by
  have hns : ¬ (H :: T) <:+ src := head_not_in_src_not_suffix rfl hH
  refine ⟨⟨G.linked.tail, fun x hx => G.sub x (List.mem_cons_of_mem _ hx),
    by have := G.bound; simp at this; omega, ?_, ?_⟩, ?_⟩
  · intro h
    have := G.notTrunc (h.trans (List.suffix_cons _ _))
    exact absurd (this ▸ List.suffix_refl _) hns
  · rcases G.noUnderflow with h | h | h
    · exact Or.inl h
    · exact Or.inr (Or.inl h)
    · right; right; have h' : T.length + 1 ≤ 1 := h; omega
  · unfold measure
    simp only [hns, if_false, List.length_cons]
    split <;> omega

/-- storing the source's next block keeps the assumptions and lowers the measure -/
theorem good_push {cfg : Cfg} {u : List Blk} {src c : Chain} {b : Blk} (S : Setting u src)
    (G : Good cfg u src c) (hs : c <:+ src) (hb : (b :: c) <:+ src) :
    Good cfg u src (b :: c) ∧ measure src (b :: c) < measure src c := by
  have hlen := hb.length_le
  refine ⟨⟨S.linked.suffix hb, fun x hx => S.sub x (hb.subset hx), by have := S.bound; omega,
    fun h => suffix_antisymm h hb, ?_⟩, ?_⟩
  · by_cases h1 : src.length = 1
    · right; right; omega
    · right; left; exact h1
  · unfold measure
    simp only [hs, hb, if_true]
    simp at hlen ⊢; omega

/-- a block of the source that fits on the node's head: the node is on the source's chain and the
block is the source's next one -/
theorem stored_honest {cfg : Cfg} {u : List Blk} {src c : Chain} {b : Blk} (S : Setting u src)
    (G : Good cfg u src c) (hb : b ∈ src) (hsucc : succession c b = .stored) :
    c <:+ src ∧ (b :: c) <:+ src := by
  obtain ⟨hn, hp⟩ := succession_stored hsucc
  have hblt := S.linked.num_lt b hb
  have hcs : c <:+ src := by
    cases c with
    | nil => exact List.nil_suffix
    | cons H T =>
      have hbn : b.num = H.num + 1 := by simpa [nextHeight] using hn
      obtain ⟨x, _, hxm, hxn⟩ := S.linked.byNumber_some (n := H.num) (by omega)
      have hpx := S.linked.parent_of_succ hxm hb (by omega)
      have : x = H := S.inj x (S.sub x hxm) H (G.sub H (List.mem_cons_self ..))
        (by rw [← hpx, hp]; rfl)
      exact Linked.suffix_of_head_mem S.inj G.linked S.linked
        (fun y hy => G.sub y (List.mem_cons_of_mem _ hy)) S.sub (this ▸ hxm)
  refine ⟨hcs, ?_⟩
  have hne : c ≠ src := by
    intro e; subst e
    rw [G.linked.nextHeight] at hn; omega
  obtain ⟨b', hb'⟩ := suffix_next hcs hne
  have hb'm : b' ∈ src := hb'.subset (List.mem_cons_self ..)
  have hb'n : b'.num = nextHeight c := (linked_cons_facts (S.linked.suffix hb')).1
  have : b' = b := S.linked.eq_of_num hb'm hb (by omega)
  exact this ▸ hb'

/-- the node's blocks numbered at least like a block of the source that differs from the node's
block of that number are not the source's -/
theorem above_divergence_not_in_src {u : List Blk} {src c : Chain} (hi : HashInj u)
    (hlc : Linked c) (hls : Linked src) (hcu : ∀ x ∈ c, x ∈ u) (hsu : ∀ x ∈ src, x ∈ u)
    {x lh : Blk} (hx : x ∈ src) (hlh : byNumber? c x.num = some lh) (hne : lh.hash ≠ x.hash)
    {hd : Blk} {tl : Chain} (hs : (hd :: tl) <:+ c) (hle : x.num ≤ hd.num) : hd ∉ src := by
  intro hm
  have hl' := hlc.suffix hs
  have hsuf : (hd :: tl) <:+ src :=
    Linked.suffix_of_head_mem hi hl' hls
      (fun y hy => hcu y (hs.subset (List.mem_cons_of_mem _ hy))) hsu hm
  have hlook : byNumber? (hd :: tl) x.num = some lh := by
    rw [← Linked.byNumber_suffix hlc hs (by have := Linked.head_num hl'; simp; omega)]; exact hlh
  obtain ⟨hlhm, hlhn⟩ := byNumber_mem_of_some hlook
  have : lh = x := hls.eq_of_num (hsuf.subset hlhm) hx hlhn
  exact hne (by rw [this])

/-- MONOTONICITY: an honest event keeps the invariant and never increases the measure. -/
theorem honest_step {cfg : Cfg} {u : List Blk} {src : Chain} (S : Setting u src) {s : Impl}
    (I : LInv cfg u src s) (e : Ev) (he : HonestEv src s e) :
    LInv cfg u src (s.step cfg e).1 ∧
      measure src (s.step cfg e).1.node.chain ≤ measure src s.node.chain := by
  cases e with
  | deliver req b c =>
    have hb : b ∈ src := he
    cases ht : s.task with
    | some lpv =>
      have : (s.step cfg (.deliver req b c)).1 = s := by simp [Impl.step, ht]
      rw [this]; exact ⟨I, Nat.le_refl _⟩
    | none =>
      have hok := S.ok b hb
      cases c with
      | true =>
        have hn : (s.step cfg (.deliver req b true)).1.node = s.node ∧
            (s.step cfg (.deliver req b true)).1.task = none := by simp [Impl.step, ht, hok]
        exact ⟨⟨by rw [hn.1]; exact I.good, by intro l hl; rw [hn.2] at hl; cases hl⟩,
          by rw [hn.1]; exact Nat.le_refl _⟩
      | false =>
        cases hsucc : succession s.node.chain b with
        | badNumber =>
          have hn : (s.step cfg (.deliver req b false)).1.node = s.node ∧
              (s.step cfg (.deliver req b false)).1.task = none := by
            simp [Impl.step, ht, hok, hsucc]
          exact ⟨⟨by rw [hn.1]; exact I.good, by intro l hl; rw [hn.2] at hl; cases hl⟩,
            by rw [hn.1]; exact Nat.le_refl _⟩
        | rootMismatch =>
          have hn : (s.step cfg (.deliver req b false)).1.node = s.node ∧
              (s.step cfg (.deliver req b false)).1.task = none := by
            simp [Impl.step, ht, hok, hsucc]
          exact ⟨⟨by rw [hn.1]; exact I.good, by intro l hl; rw [hn.2] at hl; cases hl⟩,
            by rw [hn.1]; exact Nat.le_refl _⟩
        | stored =>
          have hn : (s.step cfg (.deliver req b false)).1.node.chain = b :: s.node.chain ∧
              (s.step cfg (.deliver req b false)).1.task = none := by
            simp [Impl.step, ht, hok, hsucc, onStored]
          obtain ⟨hcs, hbs⟩ := stored_honest S I.good hb hsucc
          obtain ⟨G', hm⟩ := good_push S I.good hcs hbs
          exact ⟨⟨by rw [hn.1]; exact G', by intro l hl; rw [hn.2] at hl; cases hl⟩,
            by rw [hn.1]; omega⟩
        | parentMismatch =>
          have hn : (s.step cfg (.deliver req b false)).1.node = s.node ∧
              (s.step cfg (.deliver req b false)).1.task = some (mismatchLpv cfg b) := by
            simp [Impl.step, ht, hok, hsucc]
          refine ⟨⟨by rw [hn.1]; exact I.good, ?_⟩, by rw [hn.1]; exact Nat.le_refl _⟩
          intro lpv hl hd tl hs hlt
          rw [hn.2] at hl; cases hl
          rw [hn.1] at hs
          obtain ⟨hnum, hpar⟩ := succession_parentMismatch hsucc
          cases hch : s.node.chain with
          | nil => rw [hch] at hs; simp at hs
          | cons H T =>
            have hl : Linked (H :: T) := hch ▸ I.good.linked
            have hbn : b.num = H.num + 1 := by simpa [hch, nextHeight] using hnum
            have hblt := S.linked.num_lt b hb
            have hbound : T.length + 1 < U64 := by
              have := I.good.bound; rw [hch] at this; simpa using this
            have hHn := Linked.head_num hl
            rw [hch] at hs
            have hhd : hd.num ≤ H.num := by
              have := Linked.head_num (hl.suffix hs)
              have := hs.length_le
              simp at this; omega
            -- H is not the source's block: the source's block H.num+1 has another parent
            have hHnot : H ∉ src := by
              intro hm
              have := S.linked.parent_of_succ hm hb (by omega)
              exact hpar (by rw [this, hch]; rfl)
            cases hcf : cfg.confirmHead with
            | true =>
              have : mismatchLpv cfg b = b.num - 1 := by
                unfold mismatchLpv; simp only [hcf, if_true]
                exact sub64_of_le (by omega) (by omega)
              rw [this] at hlt; omega
            | false =>
              have hm : mismatchLpv cfg b = sub64 b.num 2 := by unfold mismatchLpv; simp [hcf]
              rw [hm] at hlt
              by_cases h2 : 2 ≤ b.num
              · rw [sub64_of_le h2 (by omega)] at hlt
                rw [(suffix_eq_of_num hl rfl hs (by omega)).1]; exact hHnot
              · have : b.num = 1 := by omega
                rw [this] at hlt
                have e : sub64 1 2 = U64 - 1 := by decide
                rw [e] at hlt; unfold U64 at *; omega
  | reorgDetected next latest confirm =>
    cases ht : s.task with
    | some lpv =>
      have : (s.step cfg (.reorgDetected next latest confirm)).1 = s := by simp [Impl.step, ht]
      rw [this]; exact ⟨I, Nat.le_refl _⟩
    | none =>
      have hnode : (s.step cfg (.reorgDetected next latest confirm)).1.node = s.node :=
        step_reorgDetected_node cfg s next latest confirm
      refine ⟨⟨by rw [hnode]; exact I.good, ?_⟩, by rw [hnode]; exact Nat.le_refl _⟩
      intro lpv hl hd tl hs hlt
      rw [hnode] at hs
      cases latest with
      | none =>
        have hir := isReverting_none_latest cfg s.node.chain next confirm
        simp [Impl.step, ht, hir] at hl
      | some l =>
        cases hir : isReverting cfg s.node.chain next (some l) confirm with
        | none =>
          cases confirm <;> cases hcl : cfg.confirmLatest <;> simp_all [Impl.step]
        | some lpv' =>
          have : lpv = lpv' := by
            cases confirm <;> cases hcl : cfg.confirmLatest <;> simp_all [Impl.step]
          subst this
          obtain ⟨H, T, lh, hch, _, hle, hlh, hne, _, hcase⟩ := isReverting_some hir
          obtain ⟨x, hx, hxn, hxh⟩ := he l rfl
          have hHlt : H.num + 1 < U64 := by
            have := I.good.bound; rw [hch] at this
            have := Linked.head_num (hch ▸ I.good.linked : Linked (H :: T))
            simp at *; omega
          have hlnum : l.num ≤ hd.num := by
            rcases hcase with ⟨_, hz, _⟩ | ⟨_, hl'⟩
            · omega
            · by_cases h0 : l.num = 0
              · omega
              · rw [hl', sub64_of_le (by omega) (by omega)] at hlt; omega
          exact above_divergence_not_in_src S.inj I.good.linked S.linked I.good.sub S.sub hx
            (by rw [hxn]; exact hlh) (by rw [hxh]; exact hne) hs (by omega)
  | iter ans revOk =>
    obtain ⟨hrev, hans⟩ := he
    subst hrev
    cases ht : s.task with
    | none =>
      have : (s.step cfg (.iter ans true)).1 = s := by simp [Impl.step, ht]
      rw [this]; exact ⟨I, Nat.le_refl _⟩
    | some lpv =>
      cases hch : s.node.chain with
      | nil =>
        have hn : (s.step cfg (.iter ans true)).1.node = s.node ∧
            (s.step cfg (.iter ans true)).1.task = none := by simp [Impl.step, ht, hch]
        exact ⟨⟨by rw [hn.1]; exact I.good, by intro l hl; rw [hn.2] at hl; cases hl⟩,
          by rw [hn.1, hch]; exact Nat.le_refl _⟩
      | cons H T =>
        cases hit : revertIter cfg lpv H ans with
        | brk =>
          have hn : (s.step cfg (.iter ans true)).1.node = s.node ∧
              (s.step cfg (.iter ans true)).1.task = none := by
            by_cases hle : H.num ≤ lpv
            · cases ans <;> simp [Impl.step, ht, hch, hit, hle]
            · simp [Impl.step, ht, hch, hit, hle]
          exact ⟨⟨by rw [hn.1]; exact I.good, by intro l hl; rw [hn.2] at hl; cases hl⟩,
            by rw [hn.1, hch]; exact Nat.le_refl _⟩
        | revert cont =>
          have hn : (s.step cfg (.iter ans true)).1.node.chain = T ∧
              (s.step cfg (.iter ans true)).1.task = (if cont then some lpv else none) := by
            by_cases hle : H.num ≤ lpv
            · cases ans <;> simp [Impl.step, ht, hch, hit, hle, revertHead]
            · simp [Impl.step, ht, hch, hit, hle, revertHead]
          have hHnot : H ∉ src := by
            by_cases hle : H.num ≤ lpv
            · obtain ⟨rb, hrb, hne⟩ := revertIter_checked hle hit
              intro hm
              rcases hans with h0 | h1
              · rw [h0] at hrb; cases hrb
              · rw [h1 H T hch, S.linked.byNumber_mem hm] at hrb
                exact hne (by cases hrb; rfl)
            · exact I.task lpv ht H T (by rw [hch]; exact List.suffix_refl _) (by omega)
          have G : Good cfg u src (H :: T) := hch ▸ I.good
          obtain ⟨G', hm⟩ := good_pop G hHnot
          refine ⟨⟨by rw [hn.1]; exact G', ?_⟩, by rw [hn.1]; omega⟩
          intro l hl hd tl hs hlt
          rw [hn.2] at hl
          have : l = lpv := by cases cont <;> simp at hl; exact hl.symm
          subst this
          rw [hn.1] at hs
          exact I.task l ht hd tl (by rw [hch]; exact hs.trans (List.suffix_cons _ _)) hlt
  | restart =>
    cases ht : s.task with
    | some lpv =>
      have : (s.step cfg .restart).1 = s := by simp [Impl.step, ht]
      rw [this]; exact ⟨I, Nat.le_refl _⟩
    | none =>
      have hn : (s.step cfg .restart).1.node.chain = s.node.chain ∧
          (s.step cfg .restart).1.task = none := by simp [Impl.step, ht]
      exact ⟨⟨by rw [hn.1]; exact I.good, by intro l hl; rw [hn.2] at hl; cases hl⟩,
        by rw [hn.1]; exact Nat.le_refl _⟩

/-! ### rounds as event sequences -/

def HonestRun (cfg : Cfg) (src : Chain) : Impl → List Ev → Prop
  | _, [] => True
  | s, e :: es => HonestEv src s e ∧ HonestRun cfg src (s.step cfg e).1 es

theorem Impl.run_append (cfg : Cfg) (s : Impl) (xs ys : List Ev) :
    (Impl.run cfg s (xs ++ ys)).1 = (Impl.run cfg (Impl.run cfg s xs).1 ys).1 := by
  induction xs generalizing s with
  | nil => rfl
  | cons x xs ih => simp only [List.cons_append, Impl.run_cons]; exact ih _

theorem honest_run {cfg : Cfg} {u : List Blk} {src : Chain} (S : Setting u src) :
    ∀ (es : List Ev) {s : Impl}, LInv cfg u src s → HonestRun cfg src s es →
      LInv cfg u src (Impl.run cfg s es).1 ∧
        measure src (Impl.run cfg s es).1.node.chain ≤ measure src s.node.chain
  | [], _, I, _ => ⟨I, Nat.le_refl _⟩
  | e :: es, s, I, h => by
    obtain ⟨I1, m1⟩ := honest_step S I e h.1
    obtain ⟨I2, m2⟩ := honest_run S es I1 h.2
    rw [Impl.run_cons]
    exact ⟨I2, Nat.le_trans m2 m1⟩

theorem step_iter_facts (cfg : Cfg) (s : Impl) (lpv : Nat) (H : Blk) (T : Chain) (ans : Option Blk)
    (ht : s.task = some lpv) (hch : s.node.chain = H :: T) :
    (revertIter cfg lpv H ans = .brk →
      (s.step cfg (.iter ans true)).1.node = s.node ∧ (s.step cfg (.iter ans true)).1.task = none) ∧
    (∀ cont, revertIter cfg lpv H ans = .revert cont →
      (s.step cfg (.iter ans true)).1.node.chain = T ∧
      (s.step cfg (.iter ans true)).1.task = (if cont then some lpv else none)) := by
  constructor
  · intro hit
    by_cases hle : H.num ≤ lpv
    · cases ans <;> simp [Impl.step, ht, hch, hit, hle]
    · simp [Impl.step, ht, hch, hit, hle]
  · intro cont hit
    by_cases hle : H.num ≤ lpv
    · cases ans <;> simp [Impl.step, ht, hch, hit, hle, revertHead]
    · simp [Impl.step, ht, hch, hit, hle, revertHead]

/-- the iterations of `revertTask(lpv)` against the stable source, as events -/
def iterEvents (cfg : Cfg) (src : Chain) (lpv : Nat) : Chain → List Ev
  | [] => [.iter none true]
  | hd :: tl =>
    .iter (byNumber? src hd.num) true ::
      (match revertIter cfg lpv hd (byNumber? src hd.num) with
       | .brk => []
       | .revert cont => if cont then iterEvents cfg src lpv tl else [])

theorem iterEvents_spec (cfg : Cfg) (src : Chain) (lpv : Nat) :
    ∀ (c : Chain) (s : Impl), s.task = some lpv → s.node.chain = c →
      HonestRun cfg src s (iterEvents cfg src lpv c) ∧
      (Impl.run cfg s (iterEvents cfg src lpv c)).1.node.chain = revChain cfg src lpv c ∧
      (Impl.run cfg s (iterEvents cfg src lpv c)).1.task = none
  | [], s, ht, hch => by
    have hn : (s.step cfg (.iter none true)).1.node = s.node ∧
        (s.step cfg (.iter none true)).1.task = none := by simp [Impl.step, ht, hch]
    refine ⟨⟨⟨rfl, Or.inl rfl⟩, trivial⟩, ?_, ?_⟩
    · simp only [iterEvents, Impl.run_cons, Impl.run, revChain]; rw [hn.1, hch]
    · simp only [iterEvents, Impl.run_cons, Impl.run]; exact hn.2
  | hd :: tl, s, ht, hch => by
    have hhon : HonestEv src s (.iter (byNumber? src hd.num) true) := by
      refine ⟨rfl, Or.inr ?_⟩
      intro hd' tl' h'; rw [hch] at h'; cases h'; rfl
    obtain ⟨fb, fr⟩ := step_iter_facts cfg s lpv hd tl (byNumber? src hd.num) ht hch
    unfold iterEvents revChain
    cases hit : revertIter cfg lpv hd (byNumber? src hd.num) with
    | brk =>
      obtain ⟨h1, h2⟩ := fb hit
      refine ⟨⟨hhon, trivial⟩, ?_, ?_⟩
      · simp only [Impl.run_cons, Impl.run]; rw [h1, hch]
      · simp only [Impl.run_cons, Impl.run]; exact h2
    | revert cont =>
      obtain ⟨h1, h2⟩ := fr cont hit
      cases cont with
      | false =>
        refine ⟨⟨hhon, trivial⟩, ?_, ?_⟩
        · simp only [Bool.false_eq_true, if_false, Impl.run_cons, Impl.run]; exact h1
        · simp only [Bool.false_eq_true, if_false, Impl.run_cons, Impl.run]; simpa using h2
      | true =>
        simp only [if_true]
        obtain ⟨i1, i2, i3⟩ := iterEvents_spec cfg src lpv tl (s.step cfg (.iter (byNumber? src hd.num) true)).1
          (by simpa using h2) h1
        exact ⟨⟨hhon, i1⟩, by rw [Impl.run_cons]; exact i2, by rw [Impl.run_cons]; exact i3⟩

/-- one undisturbed cycle for the next height, as events: the fetched block (or the failed fetch
with the latest header) followed by the iterations of the revert task it starts -/
def roundEvents (cfg : Cfg) (src : Chain) (c : Chain) : List Ev :=
  match byNumber? src (nextHeight c) with
  | some b =>
    .deliver (nextHeight c) b false ::
      (if b.ok then
        (match succession c b with
         | .parentMismatch => iterEvents cfg src (mismatchLpv cfg b) c
         | _ => [])
       else [])
  | none =>
    .reorgDetected (nextHeight c) (srcLatest src) (srcConfirm src) ::
      (match isReverting cfg c (nextHeight c) (srcLatest src) (srcConfirm src) with
       | some lpv => iterEvents cfg src lpv c
       | none => [])

theorem srcLatest_honest (src : Chain) (l : Hdr) (h : srcLatest src = some l) :
    ∃ b ∈ src, b.num = l.num ∧ b.hash = l.hash := by
  cases src with
  | nil => simp [srcLatest] at h
  | cons b tl =>
    simp only [srcLatest, List.head?_cons, Option.map_some, Option.some.injEq] at h
    exact ⟨b, List.mem_cons_self .., by rw [← h], by rw [← h]⟩

theorem roundEvents_spec (cfg : Cfg) (src : Chain) (s : Impl) (ht : s.task = none) :
    HonestRun cfg src s (roundEvents cfg src s.node.chain) ∧
    (Impl.run cfg s (roundEvents cfg src s.node.chain)).1.node.chain = (round cfg src s.node).1.chain ∧
    (Impl.run cfg s (roundEvents cfg src s.node.chain)).1.task = none := by
  unfold roundEvents
  cases hf : byNumber? src (nextHeight s.node.chain) with
  | some b =>
    have hbm : b ∈ src := (byNumber_mem_of_some hf).1
    have hhon : HonestEv src s (.deliver (nextHeight s.node.chain) b false) := hbm
    simp only []
    by_cases hok : b.ok = true
    · cases hsucc : succession s.node.chain b with
      | stored =>
        have h1 : (s.step cfg (.deliver (nextHeight s.node.chain) b false)).1.node.chain = b :: s.node.chain ∧
            (s.step cfg (.deliver (nextHeight s.node.chain) b false)).1.task = none := by
          simp [Impl.step, ht, hok, hsucc, onStored]
        have hr : (round cfg src s.node).1.chain = b :: s.node.chain := by
          simp [round, hf, hok, hsucc, onStored]
        refine ⟨by simp [hok, HonestRun]; exact hhon, ?_, ?_⟩
        · simp [hok, Impl.run_cons, Impl.run, h1.1, hr]
        · simp [hok, Impl.run_cons, Impl.run, h1.2]
      | badNumber =>
        have h1 : (s.step cfg (.deliver (nextHeight s.node.chain) b false)).1.node = s.node ∧
            (s.step cfg (.deliver (nextHeight s.node.chain) b false)).1.task = none := by
          simp [Impl.step, ht, hok, hsucc]
        have hr : (round cfg src s.node).1.chain = s.node.chain := by
          simp [round, hf, hok, hsucc]
        refine ⟨by simp [hok, HonestRun]; exact hhon, ?_, ?_⟩
        · simp [hok, Impl.run_cons, Impl.run, h1.1, hr]
        · simp [hok, Impl.run_cons, Impl.run, h1.2]
      | rootMismatch =>
        have h1 : (s.step cfg (.deliver (nextHeight s.node.chain) b false)).1.node = s.node ∧
            (s.step cfg (.deliver (nextHeight s.node.chain) b false)).1.task = none := by
          simp [Impl.step, ht, hok, hsucc]
        have hr : (round cfg src s.node).1.chain = s.node.chain := by
          simp [round, hf, hok, hsucc]
        refine ⟨by simp [hok, HonestRun]; exact hhon, ?_, ?_⟩
        · simp [hok, Impl.run_cons, Impl.run, h1.1, hr]
        · simp [hok, Impl.run_cons, Impl.run, h1.2]
      | parentMismatch =>
        have h1 : (s.step cfg (.deliver (nextHeight s.node.chain) b false)).1.node = s.node ∧
            (s.step cfg (.deliver (nextHeight s.node.chain) b false)).1.task = some (mismatchLpv cfg b) := by
          simp [Impl.step, ht, hok, hsucc]
        obtain ⟨i1, i2, i3⟩ := iterEvents_spec cfg src (mismatchLpv cfg b) s.node.chain
          (s.step cfg (.deliver (nextHeight s.node.chain) b false)).1 h1.2 (by rw [h1.1])
        have hr : (round cfg src s.node).1.chain =
            revChain cfg src (mismatchLpv cfg b) s.node.chain := by
          simp only [round, hf, hok, hsucc, Bool.not_true, Bool.false_eq_true, if_false]
          exact revertTask_chain cfg src _ _ _
        simp only [hok, if_true]
        refine ⟨⟨hhon, i1⟩, ?_, ?_⟩
        · rw [Impl.run_cons, hr]; exact i2
        · rw [Impl.run_cons]; exact i3
    · have hokf : b.ok = false := by simpa using hok
      have h1 : (s.step cfg (.deliver (nextHeight s.node.chain) b false)).1.node = s.node ∧
          (s.step cfg (.deliver (nextHeight s.node.chain) b false)).1.task = none := by
        simp [Impl.step, ht, hokf]
      have hr : (round cfg src s.node).1.chain = s.node.chain := by simp [round, hf, hokf]
      refine ⟨by simp [hokf, HonestRun]; exact hhon, ?_, ?_⟩
      · simp [hokf, Impl.run_cons, Impl.run, h1.1, hr]
      · simp [hokf, Impl.run_cons, Impl.run, h1.2]
  | none =>
    have hhon : HonestEv src s
        (.reorgDetected (nextHeight s.node.chain) (srcLatest src) (srcConfirm src)) := by
      intro l hl; exact srcLatest_honest src l hl
    simp only []
    have hnode := step_reorgDetected_node cfg s (nextHeight s.node.chain) (srcLatest src) (srcConfirm src)
    have htask := step_reorgDetected_task cfg s (nextHeight s.node.chain) (srcLatest src)
      (srcConfirm src) ht
    cases hir : isReverting cfg s.node.chain (nextHeight s.node.chain) (srcLatest src)
        (srcConfirm src) with
    | none =>
      rw [hir] at htask
      have hr : (round cfg src s.node).1.chain = s.node.chain := by simp [round, hf, hir]
      refine ⟨⟨hhon, trivial⟩, ?_, ?_⟩
      · simp [Impl.run_cons, Impl.run, hnode, hr]
      · simp [Impl.run_cons, Impl.run, htask]
    | some lpv =>
      rw [hir] at htask
      obtain ⟨i1, i2, i3⟩ := iterEvents_spec cfg src lpv s.node.chain
        (s.step cfg (.reorgDetected (nextHeight s.node.chain) (srcLatest src) (srcConfirm src))).1
        htask (by rw [hnode])
      have hr : (round cfg src s.node).1.chain = revChain cfg src lpv s.node.chain := by
        simp only [round, hf, hir]
        exact revertTask_chain cfg src _ _ _
      refine ⟨⟨hhon, i1⟩, ?_, ?_⟩
      · rw [Impl.run_cons, hr]; exact i2
      · rw [Impl.run_cons]; exact i3

/-- A run in which every event is honest and which contains `k` undisturbed cycles. -/
inductive FairRun (cfg : Cfg) (src : Chain) : Impl → Nat → List Ev → Prop
  | done (s : Impl) : FairRun cfg src s 0 []
  | other (s : Impl) (e : Ev) (es : List Ev) (k : Nat) : HonestEv src s e →
      FairRun cfg src (s.step cfg e).1 k es → FairRun cfg src s k (e :: es)
  /-- ANY event (a corrupted or mis-numbered answer, a lie, …) that leaves the chain alone and does
  not start or re-target a revert task -/
  | noop (s : Impl) (e : Ev) (es : List Ev) (k : Nat) : (s.step cfg e).1.node.chain = s.node.chain →
      ((s.step cfg e).1.task = s.task ∨ (s.step cfg e).1.task = none) →
      FairRun cfg src (s.step cfg e).1 k es → FairRun cfg src s k (e :: es)
  | round (s : Impl) (es : List Ev) (k : Nat) : s.task = none →
      FairRun cfg src (Impl.run cfg s (roundEvents cfg src s.node.chain)).1 k es →
      FairRun cfg src s (k + 1) (roundEvents cfg src s.node.chain ++ es)

theorem fair_run_converges {cfg : Cfg} {u : List Blk} {src : Chain} (S : Setting u src)
    {s : Impl} {k : Nat} {es : List Ev} (h : FairRun cfg src s k es) :
    LInv cfg u src s → measure src s.node.chain ≤ k → (Impl.run cfg s es).1.node.chain = src := by
  induction h with
  | done s => intro _ hm; exact measure_zero (Nat.le_zero.mp hm)
  | other s e es k he _ ih =>
    intro I hm
    obtain ⟨I1, m1⟩ := honest_step S I e he
    rw [Impl.run_cons]
    exact ih I1 (Nat.le_trans m1 hm)
  | noop s e es k hc ht _ ih =>
    intro I hm
    rw [Impl.run_cons]
    refine ih ⟨by rw [hc]; exact I.good, ?_⟩ (by rw [hc]; exact hm)
    intro lpv hl hd tl hs hlt
    rw [hc] at hs
    rcases ht with h | h
    · exact I.task lpv (by rw [← h]; exact hl) hd tl hs hlt
    · rw [h] at hl; cases hl
  | round s es k ht _ ih =>
    intro I hm
    obtain ⟨hr, hc, _⟩ := roundEvents_spec cfg src s ht
    obtain ⟨I1, _⟩ := honest_run S _ I hr
    rw [Impl.run_append]
    apply ih I1
    rw [hc]
    by_cases he : s.node.chain = src
    · rw [round_fixpoint S s.node he, he]
      have : measure src src = 0 := by unfold measure; simp
      omega
    · have := (round_measure (cfg := cfg) S I.good).2 he; omega

/-! ### from any state: a running revert task ends, whatever it is fed -/

theorem good_pop_any {cfg : Cfg} {u : List Blk} {src : Chain} {H : Blk} {T : Chain}
    (G : Good cfg u src (H :: T)) : Good cfg u src T := by
  refine ⟨G.linked.tail, fun x hx => G.sub x (List.mem_cons_of_mem _ hx),
    by have := G.bound; simp at this; omega, ?_, ?_⟩
  · intro h
    have h1 := G.notTrunc (h.trans (List.suffix_cons _ _))
    have := h.length_le
    rw [h1] at this; simp at this; omega
  · rcases G.noUnderflow with h | h | h
    · exact Or.inl h
    · exact Or.inr (Or.inl h)
    · right; right; have h' : T.length + 1 ≤ 1 := h; omega

/-- `iter` events only: each one ends the task or removes the head; `Good` is kept. -/
theorem iter_step_any {cfg : Cfg} {u : List Blk} {src : Chain} {s : Impl} (ans : Option Blk)
    (G : Good cfg u src s.node.chain) :
    Good cfg u src (s.step cfg (.iter ans true)).1.node.chain ∧
    ((s.step cfg (.iter ans true)).1.task = none ∨
      ((s.step cfg (.iter ans true)).1.task = s.task ∧
        (s.step cfg (.iter ans true)).1.node.chain.length + 1 = s.node.chain.length)) := by
  cases ht : s.task with
  | none =>
    have : (s.step cfg (.iter ans true)).1 = s := by simp [Impl.step, ht]
    rw [this]; exact ⟨G, Or.inl ht⟩
  | some lpv =>
    cases hch : s.node.chain with
    | nil =>
      have hn : (s.step cfg (.iter ans true)).1.node = s.node ∧
          (s.step cfg (.iter ans true)).1.task = none := by simp [Impl.step, ht, hch]
      exact ⟨by rw [hn.1]; exact G, Or.inl hn.2⟩
    | cons H T =>
      obtain ⟨fb, fr⟩ := step_iter_facts cfg s lpv H T ans ht hch
      cases hit : revertIter cfg lpv H ans with
      | brk =>
        obtain ⟨h1, h2⟩ := fb hit
        exact ⟨by rw [h1]; exact G, Or.inl h2⟩
      | revert cont =>
        obtain ⟨h1, h2⟩ := fr cont hit
        refine ⟨by rw [h1]; exact good_pop_any (hch ▸ G), ?_⟩
        cases cont with
        | false => left; simpa using h2
        | true => right; exact ⟨by simpa using h2, by rw [h1]; simp⟩

/-- TERMINATION of a running task: after `|chain| + 1` iterations (with arbitrary answers) no task
is running, and the chain still satisfies `Good`. -/
theorem task_terminates {cfg : Cfg} {u : List Blk} {src : Chain} :
    ∀ (answers : List (Option Blk)) (s : Impl), Good cfg u src s.node.chain →
      s.node.chain.length < answers.length →
      (Impl.run cfg s (answers.map (fun a => Ev.iter a true))).1.task = none ∧
      Good cfg u src (Impl.run cfg s (answers.map (fun a => Ev.iter a true))).1.node.chain
  | [], s, _, h => by simp at h
  | a :: as, s, G, h => by
    obtain ⟨G1, hcase⟩ := iter_step_any (cfg := cfg) (s := s) a G
    simp only [List.map_cons, Impl.run_cons]
    rcases hcase with hn | ⟨_, hlen⟩
    · -- the task is over: further iterations change nothing
      have hstay : ∀ (bs : List (Option Blk)) (t : Impl), t.task = none →
          (Impl.run cfg t (bs.map (fun a => Ev.iter a true))).1 = t := by
        intro bs
        induction bs with
        | nil => intro t _; rfl
        | cons b bs ih =>
          intro t ht
          have : (t.step cfg (.iter b true)).1 = t := by simp [Impl.step, ht]
          simp only [List.map_cons, Impl.run_cons, this]; exact ih t ht
      rw [hstay as _ hn]; exact ⟨hn, G1⟩
    · exact task_terminates as _ G1 (by simp at h; omega)

end Juno.C06
