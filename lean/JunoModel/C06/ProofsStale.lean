import JunoModel.C06.ProofsLive
/-!
C06 — liveness with VALID BLOCKS OF AN EARLIER CHAIN STILL IN FLIGHT when the source becomes stable
(the case the earlier liveness theorems left out: "a reorg … including while fetchers are in
flight"). Such a block is verified (`ok`), is not a block of the source's final chain, and may be
delivered at any time: it is stored if it happens to extend the node's head (the node is then on a
dead branch and has to revert it), it may start a revert task, or it is dropped.

`stale_step`: for the code in /repo (`zeroGuard`, `confirmHead`) a stale delivery keeps the invariant
`LInv` of the liveness proof and lengthens the chain by at most one block. Hence after ANY
interleaving of honest events, no-op events and `m` stale deliveries the liveness theorem applies
again, with `m` extra rounds (`stale_then_fair_converges`).

One case stays excluded: a stale block that extends the HEAD of the source's final chain (its parent
is the source's last block). That is the pure-truncation situation of the assumptions (the source
dropped blocks from its tip and added nothing): the node cannot tell it from a stale head.
-/
namespace Juno.C06

/-- a delivery of a valid block of an earlier chain of the source -/
def StaleEv (u : List Blk) (src : Chain) : Ev → Prop
  | .deliver _ b _ =>
    b.ok = true ∧ b ∈ u ∧ b ∉ src ∧ (∀ hd tl, src = hd :: tl → b.parent ≠ hd.hash)
  | _ => False

theorem stale_step {cfg : Cfg} {u : List Blk} {src : Chain} (S : Setting u src)
    (hz : cfg.zeroGuard = true) (hc : cfg.confirmHead = true) {s : Impl}
    (I : LInv cfg u src s) (e : Ev) (he : StaleEv u src e) (hb : s.node.chain.length + 1 < U64) :
    LInv cfg u src (s.step cfg e).1 ∧
      (s.step cfg e).1.node.chain.length ≤ s.node.chain.length + 1 := by
  cases e with
  | reorgDetected _ _ _ => cases he
  | iter _ _ => cases he
  | restart => cases he
  | deliver req b c =>
    obtain ⟨hok, hbu, hbs, hpar⟩ := he
    cases ht : s.task with
    | some lpv =>
      have : (s.step cfg (.deliver req b c)).1 = s := by simp [Impl.step, ht]
      rw [this]; exact ⟨I, Nat.le_succ _⟩
    | none =>
      cases c with
      | true =>
        have hn : (s.step cfg (.deliver req b true)).1.node = s.node ∧
            (s.step cfg (.deliver req b true)).1.task = none := by simp [Impl.step, ht, hok]
        exact ⟨⟨by rw [hn.1]; exact I.good, by intro l hl; rw [hn.2] at hl; cases hl⟩,
          by rw [hn.1]; exact Nat.le_succ _⟩
      | false =>
        cases hsucc : succession s.node.chain b with
        | badNumber =>
          have hn : (s.step cfg (.deliver req b false)).1.node = s.node ∧
              (s.step cfg (.deliver req b false)).1.task = none := by
            simp [Impl.step, ht, hok, hsucc]
          exact ⟨⟨by rw [hn.1]; exact I.good, by intro l hl; rw [hn.2] at hl; cases hl⟩,
            by rw [hn.1]; exact Nat.le_succ _⟩
        | rootMismatch =>
          have hn : (s.step cfg (.deliver req b false)).1.node = s.node ∧
              (s.step cfg (.deliver req b false)).1.task = none := by
            simp [Impl.step, ht, hok, hsucc]
          exact ⟨⟨by rw [hn.1]; exact I.good, by intro l hl; rw [hn.2] at hl; cases hl⟩,
            by rw [hn.1]; exact Nat.le_succ _⟩
        | stored =>
          have hn : (s.step cfg (.deliver req b false)).1.node.chain = b :: s.node.chain ∧
              (s.step cfg (.deliver req b false)).1.task = none := by
            simp [Impl.step, ht, hok, hsucc, onStored]
          obtain ⟨_, hp⟩ := succession_stored hsucc
          have G := I.good
          have G' : Good cfg u src (b :: s.node.chain) := by
            refine ⟨Linked.cons_of_succession G.linked hsucc, ?_, by simpa using hb, ?_, Or.inl hz⟩
            · intro x hx
              rcases List.mem_cons.mp hx with rfl | hx
              · exact hbu
              · exact G.sub x hx
            · intro hsuf
              rcases List.suffix_cons_iff.mp hsuf with h | h
              · exact absurd (h ▸ List.mem_cons_self) hbs
              · -- the node was ON the source's chain and the stale block extends the source's head
                have hcs := G.notTrunc h
                cases hsrc : src with
                | nil => exact absurd hsrc S.nonempty
                | cons hd tl =>
                  have : expParent s.node.chain = hd.hash := by rw [← hcs, hsrc]; rfl
                  exact absurd (by rw [hp, this]) (hpar hd tl hsrc)
          exact ⟨⟨by rw [hn.1]; exact G', by intro l hl; rw [hn.2] at hl; cases hl⟩,
            by rw [hn.1]; simp⟩
        | parentMismatch =>
          have hn : (s.step cfg (.deliver req b false)).1.node = s.node ∧
              (s.step cfg (.deliver req b false)).1.task = some (mismatchLpv cfg b) := by
            simp [Impl.step, ht, hok, hsucc]
          refine ⟨⟨by rw [hn.1]; exact I.good, ?_⟩, by rw [hn.1]; exact Nat.le_succ _⟩
          -- revertTask(block.Number-1): no block of the chain lies above lastPossiblyValidHeight
          intro lpv hl hd tl hs hlt
          rw [hn.2] at hl
          injection hl with hl
          rw [hn.1] at hs
          obtain ⟨hnum, _⟩ := succession_parentMismatch hsucc
          have hl' := I.good.linked
          have hhd : hd.num < s.node.chain.length := hl'.num_lt hd (hs.subset List.mem_cons_self)
          have hbn : b.num = s.node.chain.length := by rw [hnum, hl'.nextHeight]
          have hne : s.node.chain.length ≠ 0 := by
            intro h0; rw [h0] at hhd; omega
          have : lpv = s.node.chain.length - 1 := by
            rw [← hl]; unfold mismatchLpv; simp only [hc, if_true]
            rw [sub64_of_le (by omega) (by omega), hbn]
          omega

/-- a prefix of a run after the source became stable: honest events, events that change nothing,
and at most `m` deliveries of valid blocks of earlier chains, in any order -/
inductive Disturbed (cfg : Cfg) (u : List Blk) (src : Chain) : Impl → Nat → List Ev → Prop
  | done (s : Impl) (m : Nat) : Disturbed cfg u src s m []
  | honest (s : Impl) (e : Ev) (es : List Ev) (m : Nat) : HonestEv src s e →
      Disturbed cfg u src (s.step cfg e).1 m es → Disturbed cfg u src s m (e :: es)
  | noop (s : Impl) (e : Ev) (es : List Ev) (m : Nat) : (s.step cfg e).1.node.chain = s.node.chain →
      ((s.step cfg e).1.task = s.task ∨ (s.step cfg e).1.task = none) →
      Disturbed cfg u src (s.step cfg e).1 m es → Disturbed cfg u src s m (e :: es)
  | stale (s : Impl) (e : Ev) (es : List Ev) (m : Nat) : StaleEv u src e →
      Disturbed cfg u src (s.step cfg e).1 m es → Disturbed cfg u src s (m + 1) (e :: es)

/-- how one step can change the chain: not at all, by storing a delivered block whose succession
check passed, or by removing the head -/
theorem step_chain_cases (cfg : Cfg) (s : Impl) (e : Ev) :
    (s.step cfg e).1.node.chain = s.node.chain ∨
    (∃ req b, e = .deliver req b false ∧ succession s.node.chain b = .stored ∧
      (s.step cfg e).1.node.chain = b :: s.node.chain) ∨
    (∃ hd, s.node.chain = hd :: (s.step cfg e).1.node.chain) := by
  cases e with
  | deliver req b c =>
    cases ht : s.task with
    | some _ => left; simp [Impl.step, ht]
    | none =>
      by_cases hok : b.ok = true
      case neg => left; simp [Impl.step, ht, hok]
      case pos =>
      cases c with
      | true => left; simp [Impl.step, ht, hok]
      | false =>
        cases hsucc : succession s.node.chain b with
        | badNumber => left; simp [Impl.step, ht, hok, hsucc]
        | rootMismatch => left; simp [Impl.step, ht, hok, hsucc]
        | parentMismatch => left; simp [Impl.step, ht, hok, hsucc]
        | stored => right; left; exact ⟨req, b, rfl, hsucc, by simp [Impl.step, ht, hok, hsucc, onStored]⟩
  | reorgDetected next latest confirm =>
    left; rw [step_reorgDetected_node]
  | iter ans revOk =>
    cases ht : s.task with
    | none => left; simp [Impl.step, ht]
    | some lpv =>
      cases hch : s.node.chain with
      | nil => left; simp [Impl.step, ht, hch]
      | cons H T =>
        cases hit : revertIter cfg lpv H ans with
        | brk =>
          left
          by_cases hle : H.num ≤ lpv
          · cases ans <;> simp [Impl.step, ht, hch, hit, hle]
          · simp [Impl.step, ht, hch, hit, hle]
        | revert cont =>
          cases revOk with
          | false =>
            left
            by_cases hle : H.num ≤ lpv
            · cases ans <;> simp [Impl.step, ht, hch, hit, hle, revertHead]
            · simp [Impl.step, ht, hch, hit, hle, revertHead]
          | true =>
            right; right
            refine ⟨H, ?_⟩
            by_cases hle : H.num ≤ lpv
            · cases ans <;> simp [Impl.step, ht, hch, hit, hle, revertHead]
            · simp [Impl.step, ht, hch, hit, hle, revertHead]
  | restart => left; cases ht : s.task <;> simp [Impl.step, ht]

/-- an honest event never makes the chain longer than the longer of (what it was, the source's) -/
theorem honest_step_length {cfg : Cfg} {u : List Blk} {src : Chain} (S : Setting u src) {s : Impl}
    (I : LInv cfg u src s) (e : Ev) (he : HonestEv src s e) :
    (s.step cfg e).1.node.chain.length ≤ max s.node.chain.length src.length := by
  rcases step_chain_cases cfg s e with h | ⟨req, b, rfl, hsucc, h⟩ | ⟨hd, h⟩
  · rw [h]; exact Nat.le_max_left _ _
  · have hb : b ∈ src := he
    obtain ⟨_, hbs⟩ := stored_honest S I.good hb hsucc
    rw [h]
    exact Nat.le_trans hbs.length_le (Nat.le_max_right _ _)
  · have : s.node.chain.length = (s.step cfg e).1.node.chain.length + 1 := by rw [h]; rfl
    have := Nat.le_max_left s.node.chain.length src.length
    omega

/-- AFTER THE PREFIX the invariant of the liveness proof holds again, and the chain is at most `m`
blocks longer than the longer of (the chain before, the source's chain). -/
theorem disturbed_keeps_invariant {cfg : Cfg} {u : List Blk} {src : Chain} (S : Setting u src)
    (hz : cfg.zeroGuard = true) (hc : cfg.confirmHead = true)
    {s : Impl} {m : Nat} {pre : List Ev} (h : Disturbed cfg u src s m pre) :
    LInv cfg u src s → max s.node.chain.length src.length + m + 1 < U64 →
      LInv cfg u src (Impl.run cfg s pre).1 ∧
      (Impl.run cfg s pre).1.node.chain.length ≤ max s.node.chain.length src.length + m := by
  induction h with
  | done s m => intro I _; exact ⟨I, by have := Nat.le_max_left s.node.chain.length src.length; simp [Impl.run]; omega⟩
  | honest s e es m he _ ih =>
    intro I hb
    obtain ⟨I1, _⟩ := honest_step S I e he
    have hlen := honest_step_length S I e he
    have hmax : max (s.step cfg e).1.node.chain.length src.length ≤ max s.node.chain.length src.length :=
      Nat.max_le.mpr ⟨hlen, Nat.le_max_right _ _⟩
    obtain ⟨I2, h2⟩ := ih I1 (by omega)
    rw [Impl.run_cons]
    exact ⟨I2, Nat.le_trans h2 (by omega)⟩
  | noop s e es m hch htk _ ih =>
    intro I hb
    have I1 : LInv cfg u src (s.step cfg e).1 := by
      refine ⟨by rw [hch]; exact I.good, ?_⟩
      intro lpv hl hd tl hs hlt
      rw [hch] at hs
      rcases htk with h | h
      · exact I.task lpv (by rw [← h]; exact hl) hd tl hs hlt
      · rw [h] at hl; cases hl
    obtain ⟨I2, h2⟩ := ih I1 (by rw [hch]; exact hb)
    rw [Impl.run_cons]
    exact ⟨I2, by rw [hch] at h2; exact h2⟩
  | stale s e es m he _ ih =>
    intro I hb
    have hl0 := Nat.le_max_left s.node.chain.length src.length
    obtain ⟨I1, hlen⟩ := stale_step S hz hc I e he (by omega)
    have hmax : max (s.step cfg e).1.node.chain.length src.length ≤ max s.node.chain.length src.length + 1 := by
      have := Nat.le_max_right s.node.chain.length src.length
      exact Nat.max_le.mpr ⟨by omega, by omega⟩
    obtain ⟨I2, h2⟩ := ih I1 (by omega)
    rw [Impl.run_cons]
    exact ⟨I2, Nat.le_trans h2 (by omega)⟩

/-- LIVENESS WITH STALE BLOCKS IN FLIGHT. After any such prefix with `m` stale deliveries, every fair
continuation (honest events, no-op events, `k` undisturbed cycles) with
`k ≥ |source| + max(|node|, |source|) + m + 1` ends on the source's chain. -/
theorem stale_then_fair_converges {cfg : Cfg} {u : List Blk} {src : Chain} (S : Setting u src)
    (hz : cfg.zeroGuard = true) (hc : cfg.confirmHead = true)
    {s : Impl} {m : Nat} {pre : List Ev} (hpre : Disturbed cfg u src s m pre)
    (I : LInv cfg u src s) (hb : max s.node.chain.length src.length + m + 1 < U64)
    {k : Nat} {es : List Ev} (hfair : FairRun cfg src (Impl.run cfg s pre).1 k es)
    (hk : src.length + max s.node.chain.length src.length + m + 1 ≤ k) :
    (Impl.run cfg s (pre ++ es)).1.node.chain = src := by
  obtain ⟨I1, hlen⟩ := disturbed_keeps_invariant S hz hc hpre I hb
  rw [Impl.run_append]
  apply fair_run_converges S hfair I1
  have := measure_le src (Impl.run cfg s pre).1.node.chain
  omega

end Juno.C06
