import JunoModel.C06.ModelFeed
/-!
C06 — lemmas about the feed model: with fresh ids the map and the open subscriptions stay in
one-to-one correspondence, ids are unique, and every subscription evolves by `soloStep`.
-/
namespace Juno.C06.Feed

/-- what the invariant looks at: id and closed flag of every object -/
def shape (f : Feed) : List (Nat × Bool) := f.objs.map (fun o => (o.id, o.closed))

structure Inv (f : Feed) : Prop where
  /-- a subscription is open iff the map leads to it -/
  live : ∀ (h id : Nat) (c : Bool), (shape f)[h]? = some (id, c) → (c = false ↔ inMap f.map h = true)
  /-- every map entry leads to the object carrying that id -/
  ent : ∀ p ∈ f.map, ∃ c : Bool, (shape f)[p.2]? = some (p.1, c)
  ltM : ∀ p ∈ f.map, p.1 < f.nextID
  ltO : ∀ (h id : Nat) (c : Bool), (shape f)[h]? = some (id, c) → id < f.nextID
  nodup : (f.map.map Prod.fst).Nodup
  /-- different subscription objects never carry the same id -/
  inj : ∀ (h h' id : Nat) (c c' : Bool), (shape f)[h]? = some (id, c) →
    (shape f)[h']? = some (id, c') → h = h'

theorem shape_get {f : Feed} {h : Nat} {o : Obj} (ho : f.objs[h]? = some o) :
    (shape f)[h]? = some (o.id, o.closed) := by
  simp [shape, ho]

theorem shape_get' {f : Feed} {h : Nat} {id : Nat} {c : Bool} (hs : (shape f)[h]? = some (id, c)) :
    ∃ o, f.objs[h]? = some o ∧ o.id = id ∧ o.closed = c := by
  simp only [shape, List.getElem?_map] at hs
  cases ho : f.objs[h]? with
  | none => simp [ho] at hs
  | some o =>
    simp only [ho, Option.map_some, Option.some.injEq, Prod.mk.injEq] at hs
    exact ⟨o, rfl, hs.1, hs.2⟩

theorem Inv.init : Inv init := by
  refine ⟨?_, ?_, ?_, ?_, List.nodup_nil, ?_⟩
  · intro h id c hs; simp [shape, Feed.init] at hs
  · intro p hp; cases hp
  · intro p hp; cases hp
  · intro h id c hs; simp [shape, Feed.init] at hs
  · intro h h' id c c' hs; simp [shape, Feed.init] at hs

/-- `send` and `recv` change neither ids nor closed flags nor the map -/
theorem shape_send (f : Feed) (v : V) : shape (step .fresh f (.send v)).1 = shape f := by
  apply List.ext_getElem?
  intro i
  simp only [step, shape, List.getElem?_map, List.getElem?_mapIdx]
  cases f.objs[i]? with
  | none => rfl
  | some o =>
    simp only [Option.map_some]
    split
    · unfold deliver; split
      · rfl
      · split <;> rfl
    · rfl

theorem shape_recv (g : IdGen) (f : Feed) (h : Nat) : shape (step g f (.recv h)).1 = shape f := by
  simp only [step]
  cases ho : f.objs[h]? with
  | none => rfl
  | some o =>
    simp only []
    cases hb : o.buf with
    | none => rfl
    | some v =>
      simp only [shape]
      apply List.ext_getElem?
      intro i
      simp only [List.getElem?_map, List.getElem?_set]
      by_cases e : h = i
      · subst e
        have hlt : h < f.objs.length := by
          have := List.getElem?_eq_some_iff.mp ho; exact this.1
        have hg : f.objs[h] = o := (List.getElem?_eq_some_iff.mp ho).2
        simp [hlt, hg]
      · simp [e]

theorem Inv.of_shape {f f' : Feed} (h : Inv f) (hs : shape f' = shape f) (hm : f'.map = f.map)
    (hn : f'.nextID = f.nextID) : Inv f' :=
  ⟨by rw [hs, hm]; exact h.live, by rw [hs, hm]; exact h.ent, by rw [hm, hn]; exact h.ltM,
   by rw [hs, hn]; exact h.ltO, by rw [hm]; exact h.nodup, by rw [hs]; exact h.inj⟩

theorem filter_fresh {f : Feed} (h : Inv f) :
    f.map.filter (fun p => p.1 != f.nextID) = f.map := by
  rw [List.filter_eq_self]
  intro p hp
  have := h.ltM p hp
  simp; omega

theorem inMap_cons (m : List (Nat × Nat)) (id h h' : Nat) :
    inMap ((id, h) :: m) h' = (h == h' || inMap m h') := by
  simp [inMap]

theorem Inv.subscribe {f : Feed} (h : Inv f) (k : Bool) : Inv (step .fresh f (.subscribe k)).1 := by
  have hmap : (step .fresh f (.subscribe k)).1.map = (f.nextID, f.objs.length) :: f.map := by
    simp [step, insertMap, filter_fresh h]
  have hshape : shape (step .fresh f (.subscribe k)).1 = shape f ++ [(f.nextID, false)] := by
    simp [step, shape]
  have hlen : (shape f).length = f.objs.length := by simp [shape]
  have hnext : (step .fresh f (.subscribe k)).1.nextID = f.nextID + 1 := rfl
  -- lookup in the extended shape
  have look : ∀ i id c, (shape f ++ [(f.nextID, false)])[i]? = some (id, c) →
      ((shape f)[i]? = some (id, c) ∧ i < f.objs.length) ∨
      (i = f.objs.length ∧ id = f.nextID ∧ c = false) := by
    intro i id c hi
    by_cases hlt : i < (shape f).length
    · rw [List.getElem?_append_left hlt] at hi
      exact Or.inl ⟨hi, by omega⟩
    · rw [List.getElem?_append_right (by omega)] at hi
      have : i - (shape f).length = 0 := by
        by_cases e : i - (shape f).length = 0
        · exact e
        · have : ([(f.nextID, false)] : List (Nat × Bool))[i - (shape f).length]? = none := by
            apply List.getElem?_eq_none; simp; omega
          rw [this] at hi; cases hi
      rw [this] at hi
      simp only [List.getElem?_cons_zero, Option.some.injEq, Prod.mk.injEq] at hi
      exact Or.inr ⟨by omega, hi.1.symm, hi.2.symm⟩
  refine ⟨?_, ?_, ?_, ?_, ?_, ?_⟩
  · intro i id c hi
    rw [hshape] at hi; rw [hmap, inMap_cons]
    rcases look i id c hi with ⟨ho, hlt⟩ | ⟨e1, _, e3⟩
    · have : (f.objs.length == i) = false := by simp; omega
      rw [this, Bool.false_or]; exact h.live i id c ho
    · subst e1; subst e3; simp
  · intro p hp
    rw [hmap] at hp; rw [hshape]
    rcases List.mem_cons.mp hp with rfl | hp'
    · exact ⟨false, by rw [List.getElem?_append_right (by omega)]; simp [hlen]⟩
    · obtain ⟨c, hc⟩ := h.ent p hp'
      have hlt : p.2 < (shape f).length := by
        have := List.getElem?_eq_some_iff.mp hc; exact this.1
      exact ⟨c, by rw [List.getElem?_append_left hlt]; exact hc⟩
  · intro p hp
    rw [hmap] at hp; rw [hnext]
    rcases List.mem_cons.mp hp with rfl | hp'
    · simp
    · have := h.ltM p hp'; omega
  · intro i id c hi
    rw [hshape] at hi; rw [hnext]
    rcases look i id c hi with ⟨ho, _⟩ | ⟨_, e2, _⟩
    · have := h.ltO i id c ho; omega
    · omega
  · rw [hmap]
    simp only [List.map_cons, List.nodup_cons]
    refine ⟨?_, h.nodup⟩
    intro hm
    obtain ⟨p, hp, he⟩ := List.mem_map.mp hm
    have := h.ltM p hp; omega
  · intro i i' id c c' hi hi'
    rw [hshape] at hi hi'
    rcases look i id c hi with ⟨ho, _⟩ | ⟨e1, e2, _⟩ <;>
      rcases look i' id c' hi' with ⟨ho', _⟩ | ⟨e1', e2', _⟩
    · exact h.inj i i' id c c' ho ho'
    · have := h.ltO i id c ho; omega
    · have := h.ltO i' id c' ho'; omega
    · omega

theorem Inv.unsubscribe {f : Feed} (h : Inv f) (x : Nat) : Inv (step .fresh f (.unsubscribe x)).1 := by
  simp only [step]
  cases ho : f.objs[x]? with
  | none => exact h
  | some o =>
    simp only []
    by_cases hc : o.closed = true
    · simp only [hc, if_true]; exact h
    · simp only [hc, Bool.false_eq_true, if_false]
      have hcf : o.closed = false := by simpa using hc
      have hxs := shape_get ho
      have hxlt : x < f.objs.length := (List.getElem?_eq_some_iff.mp ho).1
      -- an entry carries o's id iff it leads to x
      have key : ∀ p ∈ f.map, (p.1 = o.id ↔ p.2 = x) := by
        intro p hp
        obtain ⟨c, hpc⟩ := h.ent p hp
        constructor
        · intro e; rw [e] at hpc; exact h.inj p.2 x o.id c o.closed hpc hxs
        · intro e; rw [e, hxs] at hpc; exact ((Prod.mk.inj (Option.some.inj hpc)).1).symm
      -- the new shape
      show Inv ⟨f.objs.set x { o with closed := true }, eraseMap f.map o.id, f.nextID⟩
      have hshape : ∀ i : Nat,
          (shape ⟨f.objs.set x { o with closed := true }, eraseMap f.map o.id, f.nextID⟩)[i]? =
          if i = x then some (o.id, true) else (shape f)[i]? := by
        intro i
        simp only [shape, List.getElem?_map, List.getElem?_set]
        by_cases e : x = i
        · subst e; simp [hxlt]
        · have e' : ¬ i = x := fun q => e q.symm
          simp [e, e']
      have hin : ∀ i, inMap (eraseMap f.map o.id) i = (inMap f.map i && i != x) := by
        intro i
        simp only [inMap, eraseMap]
        rw [Bool.eq_iff_iff]
        simp only [List.any_eq_true, List.mem_filter, Bool.and_eq_true, bne_iff_ne, ne_eq,
          beq_iff_eq]
        constructor
        · rintro ⟨p, ⟨hp, hne⟩, hpi⟩
          exact ⟨⟨p, hp, hpi⟩, fun e => hne ((key p hp).mpr (hpi.trans e))⟩
        · rintro ⟨⟨p, hp, hpi⟩, hne⟩
          exact ⟨p, ⟨hp, fun e => hne (hpi.symm.trans ((key p hp).mp e))⟩, hpi⟩
      refine ⟨?_, ?_, ?_, ?_, ?_, ?_⟩
      · intro i id c hi
        rw [hshape] at hi
        show c = false ↔ inMap (eraseMap f.map o.id) i = true
        rw [hin]
        by_cases e : i = x
        · subst e; simp only [if_true, Option.some.injEq, Prod.mk.injEq] at hi
          simp [← hi.2]
        · simp only [e, if_false] at hi
          simp [e, h.live i id c hi]
      · intro p hp
        have hp' : p ∈ f.map ∧ p.1 ≠ o.id := by simpa [eraseMap] using hp
        obtain ⟨c, hpc⟩ := h.ent p hp'.1
        have : ¬ p.2 = x := fun e => hp'.2 ((key p hp'.1).mpr e)
        exact ⟨c, by rw [hshape]; simp [this, hpc]⟩
      · intro p hp
        have hp' : p ∈ f.map ∧ p.1 ≠ o.id := by simpa [eraseMap] using hp
        exact h.ltM p hp'.1
      · intro i id c hi
        rw [hshape] at hi
        by_cases e : i = x
        · simp only [e, if_true, Option.some.injEq, Prod.mk.injEq] at hi
          rw [← hi.1]; exact h.ltO x o.id o.closed hxs
        · simp only [e, if_false] at hi; exact h.ltO i id c hi
      · exact h.nodup.sublist ((List.filter_sublist).map _)
      · intro i i' id c c' hi hi'
        rw [hshape] at hi hi'
        -- recover the old entries (same ids)
        have old : ∀ j d cc, (if j = x then some (o.id, true) else (shape f)[j]?) = some (d, cc) →
            ∃ cc', (shape f)[j]? = some (d, cc') := by
          intro j d cc hj
          by_cases e : j = x
          · simp only [e, if_true, Option.some.injEq, Prod.mk.injEq] at hj
            exact ⟨o.closed, by rw [e, ← hj.1]; exact hxs⟩
          · simp only [e, if_false] at hj; exact ⟨cc, hj⟩
        obtain ⟨a, ha⟩ := old i id c hi
        obtain ⟨b, hb⟩ := old i' id c' hi'
        exact h.inj i i' id a b ha hb

theorem Inv.step {f : Feed} (h : Inv f) (op : Op) : Inv (step .fresh f op).1 := by
  cases op with
  | subscribe k => exact h.subscribe k
  | unsubscribe x => exact h.unsubscribe x
  | send v => exact h.of_shape (shape_send f v) rfl rfl
  | recv x =>
    refine h.of_shape (shape_recv .fresh f x) ?_ ?_
    · simp only [Feed.step]; split
      · rfl
      · split <;> rfl
    · simp only [Feed.step]; split
      · rfl
      · split <;> rfl

theorem run_cons (g : IdGen) (f : Feed) (op : Op) (ops : List Op) :
    run g f (op :: ops) = ((run g (step g f op).1 ops).1, (step g f op).2 :: (run g (step g f op).1 ops).2) := rfl

theorem Inv.run {f : Feed} (h : Inv f) : ∀ ops, Inv (run .fresh f ops).1
  | [] => h
  | op :: ops => by rw [run_cons]; exact Inv.run (h.step op) ops

/-- One step of the feed changes a subscription exactly as `soloStep` says. -/
theorem step_solo {f : Feed} (hI : Inv f) (op : Op) (h : Nat) (o : Obj) (ho : f.objs[h]? = some o) :
    (step .fresh f op).1.objs[h]? = some (soloStep h o op) := by
  have hlt : h < f.objs.length := (List.getElem?_eq_some_iff.mp ho).1
  cases op with
  | subscribe k =>
    simp only [Feed.step, soloStep]
    rw [List.getElem?_append_left hlt]; exact ho
  | unsubscribe x =>
    simp only [Feed.step, soloStep]
    cases hx : f.objs[x]? with
    | none =>
      have : ¬ x = h := by intro e; rw [e, ho] at hx; cases hx
      simp [this, ho]
    | some ox =>
      simp only []
      by_cases hc : ox.closed = true
      · simp only [hc, if_true]
        by_cases e : x = h
        · subst e; rw [ho] at hx; cases hx
          simp only [if_true, ho, Option.some.injEq]
          cases o; simp_all
        · simp [e, ho]
      · simp only [hc, Bool.false_eq_true, if_false, List.getElem?_set]
        by_cases e : x = h
        · subst e; rw [ho] at hx; cases hx; simp [hlt]
        · simp [e, ho]
  | send v =>
    simp only [Feed.step, soloStep, List.getElem?_mapIdx, ho, Option.map_some, Option.some.injEq]
    have := hI.live h o.id o.closed (shape_get ho)
    cases hc : o.closed with
    | false => rw [this.mp hc]; simp
    | true =>
      have : inMap f.map h = false := by
        cases hm : inMap f.map h with
        | false => rfl
        | true => have := this.mpr hm; rw [hc] at this; cases this
      rw [this]; simp
  | recv x =>
    simp only [Feed.step, soloStep]
    cases hx : f.objs[x]? with
    | none =>
      have : ¬ x = h := by intro e; rw [e, ho] at hx; cases hx
      simp [this, ho]
    | some ox =>
      simp only []
      by_cases e : x = h
      · subst e; rw [ho] at hx; cases hx
        cases hb : o.buf with
        | none => simp only [if_true, ho, Option.some.injEq]; cases o; simp_all
        | some v => simp [List.getElem?_set, hlt]
      · cases hb : ox.buf with
        | none => simp [e, ho]
        | some v => simp [List.getElem?_set, e, ho]

theorem run_solo {f : Feed} (hI : Inv f) (h : Nat) (o : Obj) (ho : f.objs[h]? = some o) :
    ∀ ops, (run .fresh f ops).1.objs[h]? = some (ops.foldl (soloStep h) o)
  | [] => ho
  | op :: ops => by
    rw [run_cons]
    exact run_solo (hI.step op) h _ (step_solo hI op h o ho) ops

end Juno.C06.Feed
