import JunoModel.C06.ModelStore
import JunoModel.C06.ProofsSafety
/-!
C06 — lemmas about `ModelStore.lean`: the version check of `verifyBlockSuccession`, the delivery with a
version (`Impl.deliverV`) as an instance of `Impl.step`, and the outcome classes.
-/
namespace Juno.C06

/-! ### the delivery with a version is a delivery of `Impl.step` -/

/-- A delivery whose block has a version `CheckBlockVersion` refuses is EXACTLY a delivery that
`storeTask` drops: `Impl.deliverV` (the code written out with the version check as the first step of
`Store`) equals `Impl.step` on the event `deliver req b (cancelled || !checkBlockVersion ver)`. -/
theorem deliverV_eq_step (cfg : Cfg) (s : Impl) (req : Nat) (b : Blk) (ver : List UInt8) (c : Bool) :
    s.deliverV cfg req b ver c = s.step cfg (.deliver req b (c || !checkBlockVersion ver)) := by
  cases ht : s.task with
  | some _ => simp [Impl.deliverV, Impl.step, ht]
  | none =>
    by_cases hok : b.ok = true
    case neg => simp [Impl.deliverV, Impl.step, ht, hok]
    case pos =>
    cases c with
    | true => simp [Impl.deliverV, Impl.step, ht, hok]
    | false =>
      cases hv : checkBlockVersion ver with
      | false => simp [Impl.deliverV, Impl.step, ht, hok, hv, storeV]
      | true =>
        cases hsucc : succession s.node.chain b <;>
          simp [Impl.deliverV, Impl.step, ht, hok, hv, storeV, hsucc]

/-- the class of a delivery decides what `Impl.deliverV` does (no task running) -/
theorem deliverClass_spec (cfg : Cfg) (s : Impl) (req : Nat) (b : Blk) (ver : List UInt8) (c : Bool)
    (ht : s.task = none) :
    match deliverClass ver s.node.chain b c with
    | .stored =>
        (s.deliverV cfg req b ver c).1.node.chain = b :: s.node.chain ∧
        Obs.stored b.num b.hash ∈ (s.deliverV cfg req b ver c).2 ∧
        (s.deliverV cfg req b ver c).1.task = none
    | .parentMismatch =>
        (s.deliverV cfg req b ver c).1.node = s.node ∧ (s.deliverV cfg req b ver c).2 = [] ∧
        (s.deliverV cfg req b ver c).1.task = some (mismatchLpv cfg b)
    | _ =>
        (s.deliverV cfg req b ver c).1.node = s.node ∧ (s.deliverV cfg req b ver c).2 = [] ∧
        (s.deliverV cfg req b ver c).1.task = none := by
  by_cases hok : b.ok = true
  case neg => simp [deliverClass, Impl.deliverV, ht, hok]
  case pos =>
  cases c with
  | true => simp [deliverClass, Impl.deliverV, ht, hok]
  | false =>
    cases hv : checkBlockVersion ver with
    | false => simp [deliverClass, Impl.deliverV, ht, hok, hv, storeV]
    | true =>
      cases hsucc : succession s.node.chain b <;>
        simp [deliverClass, Impl.deliverV, ht, hok, hv, storeV, hsucc, onStored]

/-! ### `CheckBlockVersion` -/

theorem versionSupported_iff (major minor : Nat) :
    versionSupported major minor = true ↔ major = 0 ∧ minor ≤ 14 := by
  simp only [versionSupported, latestMajor, latestMinor, Nat.not_lt_zero, decide_false, Bool.false_or,
    Bool.and_eq_true, beq_iff_eq]
  constructor
  · intro ⟨h1, h2⟩; exact ⟨h1, of_decide_eq_true h2⟩
  · intro ⟨h1, h2⟩; exact ⟨h1, decide_eq_true h2⟩

theorem checkBlockVersion_iff (s : List UInt8) :
    checkBlockVersion s = true ↔
      ∃ major minor patch, parseBlockVersion s = .ok major minor patch ∧ major = 0 ∧ minor ≤ 14 := by
  unfold checkBlockVersion
  cases h : parseBlockVersion s with
  | ok M m p =>
    simp only [versionSupported_iff]
    constructor
    · intro ⟨h1, h2⟩; exact ⟨M, m, p, rfl, h1, h2⟩
    · intro ⟨M', m', p', he, h1, h2⟩; cases he; exact ⟨h1, h2⟩
  | tooLong => simp
  | badNumber => simp

/-- a version string of more than 31 bytes is refused whatever it says -/
theorem long_version_refused (s : List UInt8) (h : 31 < s.length) : checkBlockVersion s = false := by
  have hne : s.isEmpty = false := by
    cases s with
    | nil => simp at h
    | cons _ _ => rfl
  simp [checkBlockVersion, parseBlockVersion, hne, maxProtocolVersionLen, h]

/-! #### the parser splits at the dots and reads the first three parts -/

theorem splitDots_ne_nil (s : List UInt8) : splitDots s ≠ [] := by
  induction s with
  | nil => simp [splitDots]
  | cons b bs ih =>
    unfold splitDots
    by_cases h : (b == 46) = true
    · simp [h]
    · simp only [h]
      cases hs : splitDots bs with
      | nil => exact absurd hs ih
      | cons p ps => simp

/-- `strings.Split` at the first dot: a dot-free prefix `x` followed by a dot is the first part -/
theorem splitDots_prefix (x rest : List UInt8) (hx : ∀ b ∈ x, b ≠ 46) :
    splitDots (x ++ 46 :: rest) = x :: splitDots rest := by
  induction x with
  | nil => simp [splitDots]
  | cons b bs ih =>
    have hb : (b == 46) = false := by
      have := hx b (by simp)
      simpa using this
    have ih' := ih (fun c hc => hx c (by simp [hc]))
    simp only [List.cons_append]
    rw [splitDots]
    simp [hb, ih']

/-- a dot-free string is one part -/
theorem splitDots_nodot (x : List UInt8) (hx : ∀ b ∈ x, b ≠ 46) : splitDots x = [x] := by
  induction x with
  | nil => simp [splitDots]
  | cons b bs ih =>
    have hb : (b == 46) = false := by
      have := hx b (by simp)
      simpa using this
    have ih' := ih (fun c hc => hx c (by simp [hc]))
    rw [splitDots]
    simp [hb, ih']

/-- THREE PARTS: `x.y.z` (dot-free parts, at most 31 bytes in all) parses part by part with
`strconv.ParseUint`; the result is an error as soon as one part is not a uint64 numeral. -/
theorem parse_three_parts (x y z : List UInt8)
    (hx : ∀ b ∈ x, b ≠ 46) (hy : ∀ b ∈ y, b ≠ 46) (hz : ∀ b ∈ z, b ≠ 46)
    (hlen : (x ++ 46 :: (y ++ 46 :: z)).length ≤ 31) :
    parseBlockVersion (x ++ 46 :: (y ++ 46 :: z)) =
      match parseUint64? x, parseUint64? y, parseUint64? z with
      | some a, some b, some c => .ok a b c
      | _, _, _ => .badNumber := by
  have hne : (x ++ 46 :: (y ++ 46 :: z)).isEmpty = false := by
    cases x <;> rfl
  have hl : ¬ (x ++ 46 :: (y ++ 46 :: z)).length > maxProtocolVersionLen := by
    unfold maxProtocolVersionLen; omega
  have hs : splitDots (x ++ 46 :: (y ++ 46 :: z)) = [x, y, z] := by
    rw [splitDots_prefix x _ hx, splitDots_prefix y _ hy, splitDots_nodot z hz]
  unfold parseBlockVersion
  simp only [hne, hl, hs]
  cases parseUint64? x <;> cases parseUint64? y <;> cases parseUint64? z <;> simp

/-- A FOURTH PART IS NOT READ: `x.y.z.w` parses like `x.y.z` whatever `w` is (as long as the whole
string has at most 31 bytes) — `0.14.1.anything` is a supported version for juno. -/
theorem parse_ignores_fourth_part (x y z w : List UInt8)
    (hx : ∀ b ∈ x, b ≠ 46) (hy : ∀ b ∈ y, b ≠ 46) (hz : ∀ b ∈ z, b ≠ 46)
    (hlen : (x ++ 46 :: (y ++ 46 :: (z ++ 46 :: w))).length ≤ 31) :
    parseBlockVersion (x ++ 46 :: (y ++ 46 :: (z ++ 46 :: w))) =
      parseBlockVersion (x ++ 46 :: (y ++ 46 :: z)) := by
  have hlen' : (x ++ 46 :: (y ++ 46 :: z)).length ≤ 31 := by
    simp only [List.length_append, List.length_cons] at hlen ⊢; omega
  rw [parse_three_parts x y z hx hy hz hlen']
  have hne : (x ++ 46 :: (y ++ 46 :: (z ++ 46 :: w))).isEmpty = false := by
    cases x <;> rfl
  have hl : ¬ (x ++ 46 :: (y ++ 46 :: (z ++ 46 :: w))).length > maxProtocolVersionLen := by
    unfold maxProtocolVersionLen; omega
  obtain ⟨p, ps, hw⟩ : ∃ p ps, splitDots w = p :: ps := by
    cases h : splitDots w with
    | nil => exact absurd h (splitDots_ne_nil w)
    | cons p ps => exact ⟨p, ps, rfl⟩
  have hs : splitDots (x ++ 46 :: (y ++ 46 :: (z ++ 46 :: w))) = x :: y :: z :: p :: ps := by
    rw [splitDots_prefix x _ hx, splitDots_prefix y _ hy, splitDots_prefix z _ hz, hw]
  unfold parseBlockVersion
  simp only [hne, hl, hs]
  cases parseUint64? x <;> cases parseUint64? y <;> cases parseUint64? z <;> simp

end Juno.C06
