import JunoModel.C01.Proofs
/-!
Helper lemmas for C01, part 2: cached hashes stay sound, the hasher returns the hash of the
tree, and the hash of a canonical tree is the Starknet commitment of its key/value map.
-/
namespace Juno.C01
open Trie2

/-- The hash of a tree with all caches ignored. -/
def rawHash (k : HashKind) : Node → HTerm
  | .nil => .felt 0
  | .value v => v
  | .hash h => h
  | .edge p c _ => edgeHash k p (rawHash k c)
  | .bin l r _ => .h k (rawHash k l) (rawHash k r)

/-- Every cached hash in the tree is the hash of the subtree it sits on
(`flags.Hash = some x → x = hash(subtree)`): a stale cache falsifies this. -/
def CacheOK (k : HashKind) : Node → Prop
  | .edge p c fl => (∀ x, fl.hash = some x → x = rawHash k (.edge p c fl)) ∧ CacheOK k c
  | .bin l r fl => (∀ x, fl.hash = some x → x = rawHash k (.bin l r fl)) ∧ CacheOK k l ∧ CacheOK k r
  | _ => True

theorem CacheOK_insNil {k : HashKind} {p : Path} {c : Node} (h : CacheOK k c) :
    CacheOK k (insNil p c) := by
  unfold insNil
  split
  · exact h
  · exact ⟨by simp [Flags.new], h⟩

theorem ins_cacheOK {k : HashKind} {t : Node} (h : CacheOK k t) (key : Path) (v : HTerm) :
    CacheOK k (ins t key v).1 := by
  induction t generalizing key with
  | nil => cases key <;> simp [ins, CacheOK, Flags.new]
  | value w => cases key <;> simp [ins, CacheOK]
  | hash x => cases key <;> simp [ins, CacheOK]
  | edge p c fl ih =>
    cases key with
    | nil => simp [ins, CacheOK]
    | cons b ks =>
      simp only [ins]
      split
      · split
        · exact h
        · exact ⟨by simp [Flags.new], ih h.2 _⟩
      · have hold : CacheOK k (insNil (List.drop ((cpre p (b :: ks)).length + 1) p) c) :=
          CacheOK_insNil h.2
        have hnew : CacheOK k (insNil (List.drop ((cpre p (b :: ks)).length + 1) (b :: ks)) (.value v)) :=
          CacheOK_insNil (by simp [CacheOK])
        have hbr : CacheOK k (Node.bin
            (if (b :: ks).getD (cpre p (b :: ks)).length false = false then
              insNil (List.drop ((cpre p (b :: ks)).length + 1) (b :: ks)) (.value v)
             else if p.getD (cpre p (b :: ks)).length false = false then
              insNil (List.drop ((cpre p (b :: ks)).length + 1) p) c else .nil)
            (if (b :: ks).getD (cpre p (b :: ks)).length false = true then
              insNil (List.drop ((cpre p (b :: ks)).length + 1) (b :: ks)) (.value v)
             else if p.getD (cpre p (b :: ks)).length false = true then
              insNil (List.drop ((cpre p (b :: ks)).length + 1) p) c else .nil) Flags.new) := by
          refine ⟨by simp [Flags.new], ?_, ?_⟩
          · split
            · exact hnew
            · split
              · exact hold
              · simp [CacheOK]
          · split
            · exact hnew
            · split
              · exact hold
              · simp [CacheOK]
        split
        · exact hbr
        · exact ⟨by simp [Flags.new], hbr⟩
  | bin l r fl ihl ihr =>
    cases key with
    | nil => simp [ins, CacheOK]
    | cons b ks =>
      simp only [ins]
      cases b
      · simp only [Bool.false_eq_true, if_false]
        split
        · exact h
        · exact ⟨by simp [Flags.new], ihl h.2.1 _, h.2.2⟩
      · simp only [if_true]
        split
        · exact h
        · exact ⟨by simp [Flags.new], h.2.1, ihr h.2.2 _⟩

theorem del_cacheOK {k : HashKind} {t : Node} (h : CacheOK k t) (key : Path) :
    CacheOK k (del t key).1 := by
  induction t generalizing key with
  | nil => simp [del, CacheOK]
  | value w => simp [del, CacheOK]
  | hash x => simp [del, CacheOK]
  | edge p c fl ih =>
    simp only [del]
    split
    · exact h
    · split
      · simp [CacheOK]
      · have hc := ih h.2 (List.drop p.length key)
        split
        · exact h
        · split
          · rename_i q cc qfl heq
            rw [heq] at hc
            exact ⟨by simp [Flags.new], hc.2⟩
          · exact ⟨by simp [Flags.new], hc⟩
  | bin l r fl ihl ihr =>
    cases key with
    | nil => simpa [del] using h
    | cons b ks =>
      simp only [del]
      cases b
      · simp only [Bool.false_eq_true, if_false, Bool.not_false]
        have hres := ihl h.2.1 ks
        split
        · exact h
        · split
          · split
            · rename_i q cc qfl
              exact ⟨by simp [Flags.new], h.2.2.2⟩
            · exact ⟨by simp [Flags.new], h.2.2⟩
          · exact ⟨by simp [Flags.new], hres, h.2.2⟩
      · simp only [if_true, Bool.not_true]
        have hres := ihr h.2.2 ks
        split
        · exact h
        · split
          · split
            · rename_i q cc qfl
              exact ⟨by simp [Flags.new], h.2.1.2⟩
            · exact ⟨by simp [Flags.new], h.2.1⟩
          · exact ⟨by simp [Flags.new], h.2.1, hres⟩

/-! ### the hasher -/

theorem hashNode_spec (k : HashKind) (t : Node) (h : CacheOK k t) :
    (hashNode k t).1 = rawHash k t ∧ CacheOK k (hashNode k t).2 ∧
    rawHash k (hashNode k t).2 = rawHash k t ∧
    (∀ key, Trie2.get (hashNode k t).2 key = Trie2.get t key) := by
  induction t with
  | nil => simp [hashNode, rawHash, CacheOK]
  | value v => simp [hashNode, rawHash, CacheOK]
  | hash x => simp [hashNode, rawHash, CacheOK]
  | edge p c fl ih =>
    unfold hashNode
    cases hfl : fl.hash with
    | some x =>
      simp only []
      exact ⟨h.1 x hfl, h, by simp, by simp⟩
    | none =>
      simp only []
      have hc : ∀ (r : HTerm × Node), r.1 = rawHash k c → CacheOK k r.2 → rawHash k r.2 = rawHash k c →
          (∀ key, Trie2.get r.2 key = Trie2.get c key) →
          edgeHash k p r.1 = rawHash k (.edge p c fl) ∧
          CacheOK k (.edge p r.2 { fl with hash := some (edgeHash k p r.1) }) ∧
          rawHash k (.edge p r.2 { fl with hash := some (edgeHash k p r.1) }) = rawHash k (.edge p c fl) ∧
          (∀ key, Trie2.get (.edge p r.2 { fl with hash := some (edgeHash k p r.1) }) key =
            Trie2.get (.edge p c fl) key) := by
        intro r h1 h2 h3 h4
        refine ⟨by simp [rawHash, h1], ⟨?_, h2⟩, by simp [rawHash, h3], ?_⟩
        · intro x hx
          simp at hx
          simp [← hx, rawHash, h1, h3]
        · intro key; simp [Trie2.get, h4]
      cases c with
      | nil => exact hc (_, _) rfl (by simp [CacheOK]) rfl (fun _ => rfl)
      | value v => exact hc (_, _) rfl (by simp [CacheOK]) rfl (fun _ => rfl)
      | hash x => exact hc (_, _) rfl (by simp [CacheOK]) rfl (fun _ => rfl)
      | edge q cc qfl => obtain ⟨a, b, c', d⟩ := ih h.2; exact hc _ a b c' d
      | bin l r bfl => obtain ⟨a, b, c', d⟩ := ih h.2; exact hc _ a b c' d
  | bin l r fl ihl ihr =>
    unfold hashNode
    cases hfl : fl.hash with
    | some x =>
      simp only []
      exact ⟨h.1 x hfl, h, by simp, by simp⟩
    | none =>
      simp only []
      obtain ⟨a1, a2, a3, a4⟩ := ihl h.2.1
      obtain ⟨b1, b2, b3, b4⟩ := ihr h.2.2
      split <;> split <;>
      · refine ⟨by simp [rawHash, a1, b1], ⟨?_, by simp [CacheOK, a2], by simp [CacheOK, b2]⟩,
          by simp [rawHash, a3, b3], ?_⟩
        · intro x hx; simp at hx; simp [← hx, rawHash, a1, b1, a3, b3]
        · intro key
          cases key with
          | nil => simp [Trie2.get]
          | cons b ks => cases b <;> simp [Trie2.get, a4, b4]

theorem hashNode_bin_notEdge (k : HashKind) (l r : Node) (fl : Flags) :
    NotEdge (hashNode k (.bin l r fl)).2 := by
  unfold hashNode
  cases fl.hash <;> simp [NotEdge]

theorem hashNode_wf (k : HashKind) {t : Node} {n : Nat} (h : WF t n) : WF (hashNode k t).2 n := by
  induction h with
  | value hv => simpa [hashNode] using WF.value hv
  | @edge p c n fl hp hc hne ih =>
    unfold hashNode
    cases fl.hash with
    | some x => exact WF.edge hp hc hne
    | none =>
      simp only []
      cases hc with
      | value hv => exact WF.edge hp (WF.value hv) (by simp [NotEdge])
      | edge _ _ _ => simp [NotEdge] at hne
      | bin hl hr =>
        exact WF.edge hp ih (hashNode_bin_notEdge k _ _ _)
  | @bin l r n fl hl hr ihl ihr =>
    unfold hashNode
    cases fl.hash with
    | some x => exact WF.bin hl hr
    | none =>
      simp only []
      split
      · exact absurd rfl hl.ne_nil
      · split
        · exact absurd rfl hr.ne_nil
        · exact WF.bin ihl ihr

/-! ### partially resolved trees (after Commit + reopen) -/

/-- `Abstracts a t`: `t` is the resolved tree `a` with some subtrees left unresolved, i.e. replaced by
a `HashNode` carrying the hash of the subtree (what `DecodeNode` produces for the children of a node
read back from the database). -/
inductive Abstracts (k : HashKind) : Node → Node → Prop
  | refl (a : Node) : Abstracts k a a
  | unresolved (a : Node) : Abstracts k a (.hash (rawHash k a))
  | edge {p : Path} {c c' : Node} {fl fl' : Flags} : Abstracts k c c' → Abstracts k (.edge p c fl) (.edge p c' fl')
  | bin {l r l' r' : Node} {fl fl' : Flags} : Abstracts k l l' → Abstracts k r r' →
      Abstracts k (.bin l r fl) (.bin l' r' fl')

theorem rawHash_abstracts {k : HashKind} {a t : Node} (h : Abstracts k a t) : rawHash k t = rawHash k a := by
  induction h with
  | refl a => rfl
  | unresolved a => simp [rawHash]
  | edge _ ih => simp [rawHash, ih]
  | bin _ _ ihl ihr => simp [rawHash, ihl, ihr]

end Juno.C01
