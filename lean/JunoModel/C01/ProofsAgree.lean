import JunoModel.C01.ProofsAbs
/-!
Helper lemmas for C01, part 9: `State.run false` (deprecatedstate: no purge) and `State.run true` (core/state)
are the same function on every history in which no system contract is emptied.
-/
namespace Juno.C01
namespace State
open Trie2

/-! ### the two backends agree unless a system contract is emptied -/

def NoPurge (objs : AList Obj) : Prop :=
  ∀ e ∈ objs, ¬ (isSystem e.1 = true ∧ (commitObj e.2).2 = .felt 0)

theorem commitObjs_purge_irrelevant (objs : AList Obj) (h : NoPurge objs) :
    ∀ s, commitObjs false objs s = commitObjs true objs s := by
  induction objs with
  | nil => intro s; rfl
  | cons e rest ih =>
    intro s
    obtain ⟨addr, o⟩ := e
    have hrest : NoPurge rest := fun e he => h e (List.mem_cons_of_mem _ he)
    have hh := h _ (List.mem_cons_self ..)
    have hc : (true && isSystem addr && (commitObj o).2 == HTerm.felt 0) = false := by
      cases hs : isSystem addr with
      | false => simp
      | true =>
        have : (commitObj o).2 ≠ .felt 0 := fun hz => hh ⟨hs, hz⟩
        simp [this]
    simp only [commitObjs, Bool.false_and, hc]
    exact ih hrest _

theorem alookup_of_mem_nodup {α : Type} (l : AList α) (hnd : (l.map (·.1)).Nodup) (k : Path) (v : α)
    (h : (k, v) ∈ l) : alookup l k = some v := by
  induction l with
  | nil => cases h
  | cons e rest ih =>
    simp only [List.map_cons, List.nodup_cons] at hnd
    simp only [alookup]
    cases h with
    | head => simp
    | tail _ h =>
      have : ¬ e.1 = k := by
        intro hh
        exact hnd.1 (hh ▸ List.mem_map_of_mem (f := (·.1)) h)
      simp only [this, if_false]
      exact ih hnd.2 h

/-- keys of the objects created by a phase -/
theorem deployAll_keys {s : St} (l : List (Path × HTerm)) :
    ∀ objs objs', deployAll s l objs = some objs' → ∀ e ∈ objs', e ∈ objs ∨ e.1 ∈ l.map (·.1) := by
  induction l with
  | nil => intro objs objs' h e he; simp [deployAll] at h; subst h; exact Or.inl he
  | cons x rest ih =>
    intro objs objs' h e he
    obtain ⟨addr, cls⟩ := x
    simp only [deployAll] at h
    cases h1 : alookup s.recs addr with
    | some _ => simp [h1] at h
    | none =>
      simp only [h1] at h
      rcases ih _ _ h e he with h2 | h2
      · cases h2 with
        | head => exact Or.inr (by simp)
        | tail _ h2 => exact Or.inl h2
      · exact Or.inr (by simp [h2])

theorem replaceAll_keys {s : St} (l : List (Path × HTerm)) :
    ∀ objs objs', replaceAll s l objs = some objs' → ∀ e ∈ objs', e ∈ objs ∨ e.1 ∈ l.map (·.1) := by
  induction l with
  | nil => intro objs objs' h e he; simp [replaceAll] at h; subst h; exact Or.inl he
  | cons x rest ih =>
    intro objs objs' h e he
    obtain ⟨addr, cls⟩ := x
    simp only [replaceAll] at h
    cases h1 : getObj s objs addr with
    | none => simp [h1] at h
    | some o =>
      simp only [h1] at h
      rcases ih _ _ h e he with h2 | h2
      · cases h2 with
        | head => exact Or.inr (by simp)
        | tail _ h2 => exact Or.inl h2
      · exact Or.inr (by simp [h2])

theorem nonceAll_keys {s : St} (l : List (Path × HTerm)) :
    ∀ objs objs', nonceAll s l objs = some objs' → ∀ e ∈ objs', e ∈ objs ∨ e.1 ∈ l.map (·.1) := by
  induction l with
  | nil => intro objs objs' h e he; simp [nonceAll] at h; subst h; exact Or.inl he
  | cons x rest ih =>
    intro objs objs' h e he
    obtain ⟨addr, cls⟩ := x
    simp only [nonceAll] at h
    cases h1 : getObj s objs addr with
    | none => simp [h1] at h
    | some o =>
      simp only [h1] at h
      rcases ih _ _ h e he with h2 | h2
      · cases h2 with
        | head => exact Or.inr (by simp)
        | tail _ h2 => exact Or.inl h2
      · exact Or.inr (by simp [h2])

theorem storageAll_keys {s : St} (l : List (Path × List (Path × HTerm))) :
    ∀ objs objs', storageAll s l objs = some objs' → ∀ e ∈ objs', e ∈ objs ∨ e.1 ∈ l.map (·.1) := by
  induction l with
  | nil => intro objs objs' h e he; simp [storageAll] at h; subst h; exact Or.inl he
  | cons x rest ih =>
    intro objs objs' h e he
    obtain ⟨addr, kvs⟩ := x
    simp only [storageAll] at h
    cases h1 : getObj s objs addr with
    | some o =>
      simp only [h1] at h
      rcases ih _ _ h e he with h2 | h2
      · cases h2 with
        | head => exact Or.inr (by simp)
        | tail _ h2 => exact Or.inl h2
      · exact Or.inr (by simp [h2])
    | none =>
      simp only [h1] at h
      by_cases hsys : isSystem addr = true
      · simp only [hsys, if_true] at h
        rcases ih _ _ h e he with h2 | h2
        · cases h2 with
          | head => exact Or.inr (by simp)
          | tail _ h2 => exact Or.inl h2
        · exact Or.inr (by simp [h2])
      · simp [hsys] at h

/-- every system contract whose storage the diff writes still has a non-empty storage afterwards -/
def SysKept (a : AbsSt) (d : Diff) : Prop :=
  ∀ e ∈ d.storage, isSystem e.1 = true → ∃ key, key.length = 251 ∧ (absApply a d).storage e.1 key ≠ .felt 0

/-- ... along a whole history -/
def NoSystemContractEmptied : AbsSt → List Diff → Prop
  | _, [] => True
  | a, d :: rest => SysKept a d ∧ NoSystemContractEmptied (absApply a d) rest

theorem touched_mem_of {objs : AList Obj} {e : Path × Obj} (he : e ∈ touched objs) :
    alookup objs e.1 = some e.2 := by
  obtain ⟨tnd, tlk⟩ := touched_spec objs
  rw [← tlk e.1]
  exact alookup_of_mem_nodup _ tnd e.1 e.2 he

theorem update_backends_agree {s : St} {d : Diff} {a : AbsSt} (hs : SWF s) (hd : ValidDiff d) (hr : Rel s a)
    (hk : SysKept a d) : update false s d = update true s d := by
  simp only [update, bind, Option.bind]
  cases h1 : deployAll s d.deployed [] with
  | none => rfl
  | some o1 =>
    simp only
    cases h2 : replaceAll s d.replaced o1 with
    | none => rfl
    | some o2 =>
      simp only
      cases h3 : nonceAll s d.nonces o2 with
      | none => rfl
      | some o3 =>
        simp only
        cases h4 : storageAll s d.storage o3 with
        | none => rfl
        | some o4 =>
          simp only [pure]
          have g1 := deployAll_good (s := s) d.deployed (fun e he => (hd.deployed e he).1) [] o1
            (by intro e he; simp at he) h1
          have g2 := replaceAll_good hs d.replaced (fun e he => (hd.replaced e he).1) o1 o2 g1 h2
          have g3 := nonceAll_good hs d.nonces (fun e he => (hd.nonces e he).1) o2 o3 g2 h3
          have g4 := storageAll_good hs d.storage hd.storage o3 o4 g3 h4
          obtain ⟨p1, c1⟩ := deployAll_pinv d.deployed (fun e he => (hd.deployed e he).2.2) hd.deployedNodup
            [] o1 a.cls (by intro e he; cases he) (by intro e he; cases he) hr h1
          obtain ⟨p2, c2⟩ := replaceAll_pinv d.replaced (fun e he => (hd.replaced e he).2.2) o1 o2 _ c1 p1 h2
          obtain ⟨p3, c3⟩ := nonceAll_pinv d.nonces (fun e he => (hd.nonces e he).2) o2 o3 _ c2 p2 h3
          have p4 := storageAll_pinv d.storage hd.storageNodup o3 o4 _ (fun e he _ => c3 e he) p3 h4
          have tg := touched_good g4
          congr 1
          apply commitObjs_purge_irrelevant
          intro e he ⟨hsys, hz⟩
          have hlk := touched_mem_of he
          have hmem4 : e ∈ o4 := by
            have := alookup_mem hlk
            exact this
          -- a system address can only have been touched by the storage phase
          have hin : e.1 ∈ d.storage.map (·.1) := by
            rcases storageAll_keys _ _ _ h4 e hmem4 with h5 | h5
            · exfalso
              rcases nonceAll_keys _ _ _ h3 e h5 with h6 | h6
              · rcases replaceAll_keys _ _ _ h2 e h6 with h7 | h7
                · rcases deployAll_keys _ _ _ h1 e h7 with h8 | h8
                  · cases h8
                  · obtain ⟨x, hx, hxe⟩ := List.mem_map.mp h8
                    have := (hd.deployed x hx).2.2
                    rw [hxe, hsys] at this; cases this
                · obtain ⟨x, hx, hxe⟩ := List.mem_map.mp h7
                  have := (hd.replaced x hx).2.2
                  rw [hxe, hsys] at this; cases this
              · obtain ⟨x, hx, hxe⟩ := List.mem_map.mp h6
                have := (hd.nonces x hx).2
                rw [hxe, hsys] at this; cases this
            · exact h5
          obtain ⟨x, hx, hxe⟩ := List.mem_map.mp hin
          have h251 : e.1.length = 251 := hxe ▸ (hd.storage x hx).1
          obtain ⟨key, hk251, hne⟩ := hk x hx (hxe ▸ hsys)
          have hgo := tg _ he
          obtain ⟨cs1, cs2, cs3, cs4⟩ := commitObj_spec e.2 hgo.2.1 hgo.2.2
          have hget := commitObj_get e.2 hgo.2.1 hgo.2.2
          have ag := p4.agree e.1 h251
          have hview : getObj s o4 e.1 = some e.2 := by simp [getObj, hlk]
          rw [hview] at ag
          simp only [AgreeObj] at ag
          have hzero := spec_root_zero (hz ▸ cs2.symm) key hk251
          apply hne
          rw [hxe]
          exact (ag.2.2 key hk251).symm.trans ((hget key hk251).symm.trans hzero)

theorem run_backends_agree (ds : List Diff) (hd : ∀ d ∈ ds, ValidDiff d) :
    ∀ (s : St) (a : AbsSt), SWF s → Rel s a → Inv .poseidon 251 s.cltrie a.classes →
      NoSystemContractEmptied a ds → run false ds s = run true ds s := by
  induction ds with
  | nil => intro s a _ _ _ _; rfl
  | cons d rest ih =>
    intro s a hs hr hm hk
    have hd1 := hd d (List.mem_cons_self ..)
    simp only [run]
    rw [update_backends_agree hs hd1 hr hk.1]
    cases h1 : update true s d with
    | none => rfl
    | some s1 =>
      simp only [Option.bind]
      obtain ⟨w1, i1⟩ := update_swf hs hd1 _ hm h1
      rw [classes_fold_eq] at i1
      exact ih (fun d hd' => hd d (List.mem_cons_of_mem _ hd')) s1 _ w1 (update_rel hs hd1 hr h1) i1 hk.2

end State
end Juno.C01
