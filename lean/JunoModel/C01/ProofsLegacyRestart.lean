import JunoModel.C01.ProofsLegacyDel
import JunoModel.C01.ProofsLazy
/-!
Helper lemmas for C01, part 10: the legacy trie across restarts. A restart is `Hash()` (which persists the
root key and rehashes the dirty part — production code always commits a trie before its transaction ends)
followed by `Legacy.reopen` (a new trie object on the same storage: the in-memory dirty list is gone).
-/
namespace Juno.C01
namespace Legacy

/-- one step of a history with restarts (`LOp.reopen` = `Hash()` + reopen) -/
def stepL (t : Trie) : LOp → Option Trie
  | .put key v => put t key v
  | .hash => (hash t).map (·.2)
  | .reopen => (hash t).map (fun r => reopen r.2)
  | .get _ => some t        -- `Trie.Get` of core/trie reads the storage and leaves the object as it is

def runL (height : Nat) (kind : HashKind) (ops : List LOp) : Option HTerm :=
  (ops.foldlM stepL (Trie.empty height kind)).bind (fun t => (hash t).map (·.1))

theorem reopen_repr {tr : Trie} {t : Node} {n : Nat} (hr : Repr tr t n) (h : t = .nil ∨ tr.dirty = []) :
    Repr (reopen tr) t n := by
  refine ⟨hr.height, hr.wf, hr.agree, hr.root, ?_⟩
  intro K nd hs
  rcases h with h | h
  · subst h
    have := hr.agree K
    simp only [reopen] at hs
    rw [hs] at this
    simp [flatS, Matches] at this
  · have := hr.cache K nd hs
    simp only [reopen]
    rw [h] at this
    exact this

theorem hash_shape {tr tr' : Trie} {t : Node} {n : Nat} {h : HTerm} (hr : Repr tr t n)
    (e : hash tr = some (h, tr')) : t = .nil ∨ tr'.dirty = [] := by
  unfold hash at e
  split at e
  · rename_i hk
    left
    have := hr.root
    rw [hk] at this
    cases t <;> simp [rootKeyOf] at this ⊢
  · split at e
    · cases e
    · simp at e; obtain ⟨_, rfl⟩ := e; right; rfl

theorem stepL_inv {kind : HashKind} {n : Nat} {tr : Trie} {t : Node} {m : Path → HTerm}
    (hr : Repr tr t n) (hk : tr.kind = kind) (hi : Inv kind n t m) (op : LOp)
    (hv : match op with | .put key _ => key.length = n | _ => True) :
    ∃ tr' t', stepL tr op = some tr' ∧ Repr tr' t' n ∧ tr'.kind = kind ∧ Inv kind n t' (labsStep m op) := by
  cases op with
  | put key v =>
    obtain ⟨tr', t', s, r, k, i⟩ := stepOp_inv_all hr hk hi (.put key v) hv
    exact ⟨tr', t', s, r, k, i⟩
  | hash =>
    obtain ⟨tr', t', s, r, k, i⟩ := stepOp_inv_all hr hk hi .hash trivial
    exact ⟨tr', t', s, r, k, i⟩
  | get key => exact ⟨tr, t, rfl, hr, hk, hi⟩
  | reopen =>
    obtain ⟨tr', h1, h2, h3⟩ := hash_repr hr
    refine ⟨reopen tr', t, by simp [stepL, h1], reopen_repr h2 (hash_shape hr h1), h3.trans hk, hi⟩

theorem runL_all (kind : HashKind) (n : Nat) (ops : List LOp) (hv : TrieL.ValidLOps n ops) :
    runL n kind ops = some (Spec.root kind n (labsRun ops)) := by
  have key : ∀ (ops : List LOp), TrieL.ValidLOps n ops → ∀ (tr : Trie) (t : Node) (m : Path → HTerm),
      Repr tr t n → tr.kind = kind → Inv kind n t m →
      ∃ tr' t', ops.foldlM stepL tr = some tr' ∧ Repr tr' t' n ∧ tr'.kind = kind ∧
        Inv kind n t' (ops.foldl labsStep m) := by
    intro ops
    induction ops with
    | nil => intro _ tr t m hr hk hi; exact ⟨tr, t, rfl, hr, hk, hi⟩
    | cons op rest ih =>
      intro hv tr t m hr hk hi
      obtain ⟨tr1, t1, s1, r1, k1, i1⟩ := stepL_inv hr hk hi op (hv op (List.mem_cons_self ..))
      obtain ⟨tr2, t2, s2, r2, k2, i2⟩ := ih (fun o ho => hv o (List.mem_cons_of_mem _ ho)) tr1 t1 _ r1 k1 i1
      exact ⟨tr2, t2, by simp [List.foldlM_cons, s1, s2], r2, k2, i2⟩
  obtain ⟨tr, t, s, r, k, i⟩ := key ops hv (Trie.empty n kind) .nil
    (fun _ => HTerm.felt 0) (repr_empty n kind) rfl
    ⟨Or.inl rfl, by simp [CacheOK], fun _ _ => by simp [Trie2.get]⟩
  obtain ⟨tr', h1, _, _⟩ := hash_repr r
  simp only [runL, s, Option.bind, h1, Option.map_some, Option.some.injEq]
  rw [k, rawHash_eq_spec kind i.wf]
  simp only [Spec.root, labsRun]
  rw [spec_node_congr kind n _ _ i.sem]

end Legacy
end Juno.C01
