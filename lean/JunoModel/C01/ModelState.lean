import JunoModel.C01.Model
/-!
C01 — model, part 2: the state commitment (`core/state/state.go` Update / commit,
`core/state/contract.go` commitment, `core/state/state_reader.go` stateCommitment; the same formulas
in `core/deprecatedstate/state.go`). Core Lean only.

The per-contract storage tries, the contract trie and the class trie are trie2 trees (`Model.lean`).
`purgeEmptySystem` selects the treatment of a system contract (0x1 / 0x2) whose storage is empty
after the update: `true` = remove its leaf and record (core/state.commit; core/deprecatedstate after
the proposed fix), `false` = keep it (core/deprecatedstate.Update of the unchanged tree).
-/
namespace Juno.C01
namespace State

abbrev AList (α : Type) := List (Path × α)

def alookup {α : Type} : AList α → Path → Option α
  | [], _ => none
  | (k, v) :: rest, key => if k = key then some v else alookup rest key

/-- `felt.NewFromBytes("STARKNET_STATE_V0")`, `("CONTRACT_CLASS_LEAF_V0")` as numbers. -/
def stateVersion0 : Nat := 0x535441524b4e45545f53544154455f5630
def leafVersion0 : Nat := 0x434f4e54524143545f434c4153535f4c4541465f5630

/-- `stateContract.commitment()` / `calculateContractCommitment`. -/
def contractLeaf (cls storageRoot nonce : HTerm) : HTerm :=
  .h .pedersen (.h .pedersen (.h .pedersen cls storageRoot) nonce) (.felt 0)

/-- class-trie leaf `Poseidon(leafVersion0, compiledClassHash)`. -/
def classLeaf (casm : HTerm) : HTerm := .h .poseidon (.felt leafVersion0) casm

/-- `stateCommitment(contractRoot, classRoot, protocolVersion)`; `pre014 = ver < 0.14.0`. -/
def stateCommitment (pre014 : Bool) (contractRoot classRoot : HTerm) : HTerm :=
  if classRoot = .felt 0 ∧ contractRoot = .felt 0 then .felt 0
  else if classRoot = .felt 0 ∧ pre014 then contractRoot
  else .pos3 (.felt stateVersion0) contractRoot classRoot

/-- On-disk contract record + its storage trie. -/
structure Rec where
  cls : HTerm
  nonce : HTerm
  storage : Node
deriving DecidableEq

/-- `stateObject`: a record being modified in this update, with its `dirtyStorage`. -/
structure Obj where
  crec : Rec
  dirty : List (Path × HTerm)

structure St where
  recs : AList Rec        -- contract records (newest binding first)
  ctrie : Node            -- contract trie root
  cltrie : Node           -- class trie root
deriving DecidableEq

def St.empty : St := ⟨[], .nil, .nil⟩

/-- One state diff (`core.StateDiff`); maps are given as lists in the order the Go code happens to
iterate them. -/
structure Diff where
  declared : List (Path × HTerm)   -- DeclaredV1Classes with a definition: class hash -> compiled class hash
  migrated : List (Path × HTerm)
  deployed : List (Path × HTerm)   -- address -> class hash
  replaced : List (Path × HTerm)
  nonces : List (Path × HTerm)
  storage : List (Path × List (Path × HTerm))

/-- `IsSystemContract`: address 0x1 or 0x2 (as 251-bit paths). -/
def isSystem (addr : Path) : Bool := pathNat addr == 1 || pathNat addr == 2

/-- `getStateObject`: the object touched in this update, else the record on disk. -/
def getObj (s : St) (objs : AList Obj) (addr : Path) : Option Obj :=
  match alookup objs addr with
  | some o => some o
  | none => (alookup s.recs addr).map (fun r => ⟨r, []⟩)

def deployAll (s : St) : List (Path × HTerm) → AList Obj → Option (AList Obj)
  | [], objs => some objs
  | (addr, cls) :: rest, objs =>
    -- HasContract(disk): ErrContractAlreadyDeployed
    match alookup s.recs addr with
    | some _ => none
    | none => deployAll s rest ((addr, ⟨⟨cls, .felt 0, .nil⟩, []⟩) :: objs)

def replaceAll (s : St) : List (Path × HTerm) → AList Obj → Option (AList Obj)
  | [], objs => some objs
  | (addr, cls) :: rest, objs =>
    match getObj s objs addr with
    | none => none
    | some o => replaceAll s rest ((addr, { o with crec := { o.crec with cls := cls } }) :: objs)

def nonceAll (s : St) : List (Path × HTerm) → AList Obj → Option (AList Obj)
  | [], objs => some objs
  | (addr, n) :: rest, objs =>
    match getObj s objs addr with
    | none => none
    | some o => nonceAll s rest ((addr, { o with crec := { o.crec with nonce := n } }) :: objs)

def storageAll (s : St) : List (Path × List (Path × HTerm)) → AList Obj → Option (AList Obj)
  | [], objs => some objs
  | (addr, kvs) :: rest, objs =>
    match getObj s objs addr with
    | some o => storageAll s rest ((addr, { o with dirty := kvs }) :: objs)
    | none =>
      -- system contracts are created on first storage write, with class hash zero
      if isSystem addr then storageAll s rest ((addr, ⟨⟨.felt 0, .felt 0, .nil⟩, kvs⟩) :: objs)
      else none

/-- Distinct touched addresses, each with its final object (the Go map `stateObjects`). -/
def touched (objs : AList Obj) : AList Obj :=
  objs.foldr (fun (e : Path × Obj) acc => if (alookup acc e.1).isSome then acc else e :: acc) []
    |>.map (fun e => (e.1, (alookup objs e.1).getD e.2))

/-- `stateObject.commit`: apply the dirty storage to the storage trie, hash it. -/
def commitObj (o : Obj) : Rec × HTerm :=
  let tr := o.dirty.foldl (fun t (kv : Path × HTerm) => Trie2.update t kv.1 kv.2) o.crec.storage
  let r := Trie2.hashRoot .pedersen tr
  ({ o.crec with storage := r.2 }, r.1)

/-- `State.commit` + `flush` for the touched objects: storage tries, contract trie leaves, records. -/
def commitObjs (purgeEmptySystem : Bool) : AList Obj → St → St
  | [], s => s
  | (addr, o) :: rest, s =>
    let (rec, root) := commitObj o
    if purgeEmptySystem && isSystem addr && root == .felt 0 then
      -- contractTrie.Update(addr, commitment) followed by contractTrie.Update(addr, 0); record deleted
      commitObjs purgeEmptySystem rest
        { s with ctrie := Trie2.update (Trie2.update s.ctrie addr (contractLeaf rec.cls root rec.nonce)) addr (.felt 0),
                 recs := s.recs.filter (fun e => e.1 != addr) }
    else
      commitObjs purgeEmptySystem rest
        { s with ctrie := Trie2.update s.ctrie addr (contractLeaf rec.cls root rec.nonce),
                 recs := (addr, rec) :: s.recs }

/-- `State.Update` (skipVerifyNewRoot): `none` = the update is rejected. -/
def update (purgeEmptySystem : Bool) (s : St) (d : Diff) : Option St := do
  let cl := (d.declared ++ d.migrated).foldl
    (fun t (e : Path × HTerm) => Trie2.update t e.1 (classLeaf e.2)) s.cltrie
  let objs ← deployAll s d.deployed []
  let objs ← replaceAll s d.replaced objs
  let objs ← nonceAll s d.nonces objs
  let objs ← storageAll s d.storage objs
  pure (commitObjs purgeEmptySystem (touched objs) { s with cltrie := cl })

/-- A sequence of accepted updates from the empty state. -/
def run (purgeEmptySystem : Bool) : List Diff → St → Option St
  | [], s => some s
  | d :: rest, s => (update purgeEmptySystem s d).bind (run purgeEmptySystem rest)

/-- A state update is either accepted (its batch is written) or executed and dropped (`Simulate`,
a batch closed without `Write`, an update that fails its root check). -/
inductive DOp where
  | accept (d : Diff)
  | dropped (d : Diff)

/-- Histories with dropped updates: a dropped update is computed and its result thrown away. -/
def runD (purgeEmptySystem : Bool) : List DOp → St → Option St
  | [], s => some s
  | .accept d :: rest, s => (update purgeEmptySystem s d).bind (runD purgeEmptySystem rest)
  | .dropped d :: rest, s =>
    let _ := update purgeEmptySystem s d
    runD purgeEmptySystem rest s

def accepted : List DOp → List Diff
  | [] => []
  | .accept d :: rest => d :: accepted rest
  | .dropped _ :: rest => accepted rest

/-- `State.Commitment(protocolVersion)`. -/
def commitment (pre014 : Bool) (s : St) : HTerm :=
  stateCommitment pre014 (Trie2.hashRoot .pedersen s.ctrie).1 (Trie2.hashRoot .poseidon s.cltrie).1

/-! ## The abstract state (specification side)

What the property calls "the resulting abstract state": plain total maps, independent of every trie
and of the model's records. A state diff is applied by last-write-wins on each map; writing zero to
a storage slot deletes it (zero = absent); a deployed contract starts with nonce 0 and empty storage
(nothing to do: an address that holds no contract has them anyway). -/

structure AbsSt where
  cls : Path → HTerm              -- address -> class hash (0 = none)
  nonce : Path → HTerm            -- address -> nonce
  storage : Path → Path → HTerm   -- address -> slot -> value (0 = absent)
  classes : Path → HTerm          -- class hash -> class-trie leaf value (0 = not declared)

def AbsSt.empty : AbsSt := ⟨fun _ => .felt 0, fun _ => .felt 0, fun _ _ => .felt 0, fun _ => .felt 0⟩

def setAt {α : Type} (m : Path → α) (k : Path) (v : α) : Path → α := fun p => if p = k then v else m p

def absApply (a : AbsSt) (d : Diff) : AbsSt where
  cls := d.replaced.foldl (fun m e => setAt m e.1 e.2) (d.deployed.foldl (fun m e => setAt m e.1 e.2) a.cls)
  nonce := d.nonces.foldl (fun m e => setAt m e.1 e.2) a.nonce
  storage := d.storage.foldl
    (fun m e => setAt m e.1 (e.2.foldl (fun sm (kv : Path × HTerm) => setAt sm kv.1 kv.2) (m e.1))) a.storage
  classes := (d.declared ++ d.migrated).foldl (fun m e => setAt m e.1 (classLeaf e.2)) a.classes

/-- The abstract state after a sequence of accepted diffs. -/
def absState (ds : List Diff) : AbsSt := ds.foldl absApply AbsSt.empty

/-- The contract-trie leaf the Starknet OS assigns to a contract state
(`get_contract_state_hash`): zero for the entirely empty state, else
`H(H(H(class_hash, storage_root), nonce), 0)`. -/
def protocolLeaf (cls storageRoot nonce : HTerm) : HTerm :=
  if cls = .felt 0 ∧ storageRoot = .felt 0 ∧ nonce = .felt 0 then .felt 0
  else contractLeaf cls storageRoot nonce

/-- address -> protocol leaf of the abstract contract state -/
def absContractLeaf (a : AbsSt) (addr : Path) : HTerm :=
  protocolLeaf (a.cls addr) (Spec.root .pedersen 251 (a.storage addr)) (a.nonce addr)

/-- **The Starknet state commitment of an abstract state** for a protocol version. -/
def absCommitment (pre014 : Bool) (a : AbsSt) : HTerm :=
  stateCommitment pre014 (Spec.root .pedersen 251 (absContractLeaf a)) (Spec.root .poseidon 251 a.classes)

/-! ## The old-root check of `Update`

`State.Update` first verifies `update.OldRoot` against `Commitment(header.ProtocolVersion)` — the
version of the NEW block. `stored` is the root the previous block stored (computed under the previous
block's version). `fixed = false` is the unchanged tree; `fixed = true` the proposed repair (the old root
may also be the commitment under the formula of before 0.14.0). -/
def oldRootOK (fixed pre014 : Bool) (stored : HTerm) (s : St) : Bool :=
  commitment pre014 s == stored || (fixed && commitment true s == stored)

/-- A chain: every block carries its version flag; the OldRoot of block n is the root stored for block
n-1 (as the feeder gateway sends it and `Blockchain.Store` checks it). `none` = a block was rejected. -/
def runStored (fixed : Bool) : List (Bool × Diff) → St × HTerm → Option (St × HTerm)
  | [], st => some st
  | (pre014, d) :: rest, (s, stored) =>
    if oldRootOK fixed pre014 stored s then
      (update true s d).bind (fun s' => runStored fixed rest (s', commitment pre014 s'))
    else none

end State
end Juno.C01
