import JunoModel.C01.Model
/-!
C01 — model, part 2: the state commitment (`core/state/state.go` Update / commit,
`core/state/contract.go` commitment, `core/state/state_reader.go` stateCommitment; the same formulas
in `core/deprecatedstate/state.go`). Core Lean only.

The per-contract storage tries, the contract trie and the class trie are trie2 trees (`Model.lean`).
`purgeEmptySystem` selects the treatment of a system contract (0x1 / 0x2) whose storage is empty
after the update: `true` = remove its leaf and record (core/state.commit; core/deprecatedstate after
the proposed fix), `false` = keep it (core/deprecatedstate.Update of the unchanged tree).
-/
namespace Juno.C01
namespace State

abbrev AList (α : Type) := List (Path × α)

def alookup {α : Type} : AList α → Path → Option α
  | [], _ => none
  | (k, v) :: rest, key => if k = key then some v else alookup rest key

/-- `felt.NewFromBytes("STARKNET_STATE_V0")`, `("CONTRACT_CLASS_LEAF_V0")` as numbers. -/
def stateVersion0 : Nat := 0x535441524b4e45545f53544154455f5630
def leafVersion0 : Nat := 0x434f4e54524143545f434c4153535f4c4541465f5630

/-- `stateContract.commitment()` / `calculateContractCommitment`. -/
def contractLeaf (cls storageRoot nonce : HTerm) : HTerm :=
  .h .pedersen (.h .pedersen (.h .pedersen cls storageRoot) nonce) (.felt 0)

/-- class-trie leaf `Poseidon(leafVersion0, compiledClassHash)`. -/
def classLeaf (casm : HTerm) : HTerm := .h .poseidon (.felt leafVersion0) casm

/-- `stateCommitment(contractRoot, classRoot, protocolVersion)`; `pre014 = ver < 0.14.0`. -/
def stateCommitment (pre014 : Bool) (contractRoot classRoot : HTerm) : HTerm :=
  if classRoot = .felt 0 ∧ contractRoot = .felt 0 then .felt 0
  else if classRoot = .felt 0 ∧ pre014 then contractRoot
  else .pos3 (.felt stateVersion0) contractRoot classRoot

/-- On-disk contract record + its storage trie. -/
structure Rec where
  cls : HTerm
  nonce : HTerm
  storage : Node
deriving DecidableEq

/-- `stateObject`: a record being modified in this update, with its `dirtyStorage`. -/
structure Obj where
  crec : Rec
  dirty : List (Path × HTerm)

structure St where
  recs : AList Rec        -- contract records (newest binding first)
  ctrie : Node            -- contract trie root
  cltrie : Node           -- class trie root
deriving DecidableEq

def St.empty : St := ⟨[], .nil, .nil⟩

/-- One state diff (`core.StateDiff`); maps are given as lists in the order the Go code happens to
iterate them. -/
structure Diff where
  declared : List (Path × HTerm)   -- DeclaredV1Classes with a definition: class hash -> compiled class hash
  migrated : List (Path × HTerm)
  deployed : List (Path × HTerm)   -- address -> class hash
  replaced : List (Path × HTerm)
  nonces : List (Path × HTerm)
  storage : List (Path × List (Path × HTerm))

/-- `IsSystemContract`: address 0x1 or 0x2 (as 251-bit paths). -/
def isSystem (addr : Path) : Bool := pathNat addr == 1 || pathNat addr == 2

/-- `getStateObject`: the object touched in this update, else the record on disk. -/
def getObj (s : St) (objs : AList Obj) (addr : Path) : Option Obj :=
  match alookup objs addr with
  | some o => some o
  | none => (alookup s.recs addr).map (fun r => ⟨r, []⟩)

def deployAll (s : St) : List (Path × HTerm) → AList Obj → Option (AList Obj)
  | [], objs => some objs
  | (addr, cls) :: rest, objs =>
    -- HasContract(disk): ErrContractAlreadyDeployed
    match alookup s.recs addr with
    | some _ => none
    | none => deployAll s rest ((addr, ⟨⟨cls, .felt 0, .nil⟩, []⟩) :: objs)

def replaceAll (s : St) : List (Path × HTerm) → AList Obj → Option (AList Obj)
  | [], objs => some objs
  | (addr, cls) :: rest, objs =>
    match getObj s objs addr with
    | none => none
    | some o => replaceAll s rest ((addr, { o with crec := { o.crec with cls := cls } }) :: objs)

def nonceAll (s : St) : List (Path × HTerm) → AList Obj → Option (AList Obj)
  | [], objs => some objs
  | (addr, n) :: rest, objs =>
    match getObj s objs addr with
    | none => none
    | some o => nonceAll s rest ((addr, { o with crec := { o.crec with nonce := n } }) :: objs)

def storageAll (s : St) : List (Path × List (Path × HTerm)) → AList Obj → Option (AList Obj)
  | [], objs => some objs
  | (addr, kvs) :: rest, objs =>
    match getObj s objs addr with
    | some o => storageAll s rest ((addr, { o with dirty := kvs }) :: objs)
    | none =>
      -- system contracts are created on first storage write, with class hash zero
      if isSystem addr then storageAll s rest ((addr, ⟨⟨.felt 0, .felt 0, .nil⟩, kvs⟩) :: objs)
      else none

/-- Distinct touched addresses, each with its final object (the Go map `stateObjects`). -/
def touched (objs : AList Obj) : AList Obj :=
  objs.foldr (fun (e : Path × Obj) acc => if (alookup acc e.1).isSome then acc else e :: acc) []
    |>.map (fun e => (e.1, (alookup objs e.1).getD e.2))

/-- `stateObject.commit`: apply the dirty storage to the storage trie, hash it. -/
def commitObj (o : Obj) : Rec × HTerm :=
  let tr := o.dirty.foldl (fun t (kv : Path × HTerm) => Trie2.update t kv.1 kv.2) o.crec.storage
  let r := Trie2.hashRoot .pedersen tr
  ({ o.crec with storage := r.2 }, r.1)

/-- `State.commit` + `flush` for the touched objects: storage tries, contract trie leaves, records. -/
def commitObjs (purgeEmptySystem : Bool) : AList Obj → St → St
  | [], s => s
  | (addr, o) :: rest, s =>
    let (rec, root) := commitObj o
    if purgeEmptySystem && isSystem addr && root == .felt 0 then
      -- contractTrie.Update(addr, commitment) followed by contractTrie.Update(addr, 0); record deleted
      commitObjs purgeEmptySystem rest
        { s with ctrie := Trie2.update (Trie2.update s.ctrie addr (contractLeaf rec.cls root rec.nonce)) addr (.felt 0),
                 recs := s.recs.filter (fun e => e.1 != addr) }
    else
      commitObjs purgeEmptySystem rest
        { s with ctrie := Trie2.update s.ctrie addr (contractLeaf rec.cls root rec.nonce),
                 recs := (addr, rec) :: s.recs }

/-- `State.Update` (skipVerifyNewRoot): `none` = the update is rejected. -/
def update (purgeEmptySystem : Bool) (s : St) (d : Diff) : Option St := do
  let cl := (d.declared ++ d.migrated).foldl
    (fun t (e : Path × HTerm) => Trie2.update t e.1 (classLeaf e.2)) s.cltrie
  let objs ← deployAll s d.deployed []
  let objs ← replaceAll s d.replaced objs
  let objs ← nonceAll s d.nonces objs
  let objs ← storageAll s d.storage objs
  pure (commitObjs purgeEmptySystem (touched objs) { s with cltrie := cl })

/-- A sequence of accepted updates from the empty state. -/
def run (purgeEmptySystem : Bool) : List Diff → St → Option St
  | [], s => some s
  | d :: rest, s => (update purgeEmptySystem s d).bind (run purgeEmptySystem rest)

/-- A state update is either accepted (its batch is written) or executed and dropped (`Simulate`,
a batch closed without `Write`, an update that fails its root check). -/
inductive DOp where
  | accept (d : Diff)
  | dropped (d : Diff)

/-- Histories with dropped updates: a dropped update is computed and its result thrown away. -/
def runD (purgeEmptySystem : Bool) : List DOp → St → Option St
  | [], s => some s
  | .accept d :: rest, s => (update purgeEmptySystem s d).bind (runD purgeEmptySystem rest)
  | .dropped d :: rest, s =>
    let _ := update purgeEmptySystem s d
    runD purgeEmptySystem rest s

def accepted : List DOp → List Diff
  | [] => []
  | .accept d :: rest => d :: accepted rest
  | .dropped _ :: rest => accepted rest

/-- `State.Commitment(protocolVersion)`. -/
def commitment (pre014 : Bool) (s : St) : HTerm :=
  stateCommitment pre014 (Trie2.hashRoot .pedersen s.ctrie).1 (Trie2.hashRoot .poseidon s.cltrie).1

end State
end Juno.C01
