import JunoModel.C01.ProofsLegacy
/-!
Helper lemmas for C01, part 7: deletions in the legacy flat trie (`deleteLast`).
-/
namespace Juno.C01
namespace Legacy
open Trie2

/-- deleting an absent key changes nothing -/
theorem del_absent {S : Node} {n : Nat} (hw : WF S n) :
    ∀ (pre rest : Path), rest.length = n → flatS pre S (pre ++ rest) = none → (del S rest).2 = false := by
  induction hw with
  | @value w hwv =>
    intro pre rest hr habs
    have : rest = [] := List.length_eq_zero_iff.mp hr
    subst this
    simp [flatS] at habs
  | @edge p c n fl hp hc hne ih =>
    intro pre rest hrl habs
    have habs' : flatS (pre ++ p) c (pre ++ rest) = none := by simpa [flatS] using habs
    simp only [del]
    by_cases h1 : (cpre p rest).length < p.length
    · simp [h1]
    · simp only [h1, if_false]
      have hfull : (cpre p rest).length = p.length := by have := cpre_length_le p rest; omega
      have hpk : p.isPrefixOf rest = true := (cpre_full_iff p rest).mp hfull
      obtain ⟨kt, rfl⟩ := List.isPrefixOf_iff_prefix.mp hpk
      have hkt : kt.length = n := by simp at hrl; omega
      have hassoc : pre ++ (p ++ kt) = (pre ++ p) ++ kt := by simp
      rw [hassoc] at habs'
      by_cases h2 : (cpre p (p ++ kt)).length = (p ++ kt).length
      · -- the edge leads to the leaf with this key: it would be present
        exfalso
        have hkt0 : kt = [] := by
          rw [hfull] at h2; simpa using h2
        subst hkt0
        cases hc with
        | value hv => simp [flatS] at habs'
        | edge _ _ _ => simp [NotEdge] at hne
        | bin _ _ => simp at hkt
      · simp only [h2, if_false, List.drop_left]
        have := ih (pre ++ p) kt hkt habs'
        simp [this]
  | @bin l r n fl hl hr ihl ihr =>
    intro pre rest hrl habs
    cases rest with
    | nil => simp at hrl
    | cons b ks =>
      have hks : ks.length = n := by simpa using hrl
      have hkey : pre ++ b :: ks = (pre ++ [b]) ++ ks := append_cons_assoc pre b ks
      have hne_pre : pre ++ b :: ks ≠ pre := by
        intro e; have := congrArg List.length e; simp at this
      have hkeypre : (pre ++ [b]).isPrefixOf (pre ++ b :: ks) = true :=
        (prefix_dec _ _).mpr (by rw [hkey]; exact List.prefix_append _ _)
      have hchild : flatS (pre ++ [b]) (child b l r) ((pre ++ [b]) ++ ks) = none := by
        rw [← hkey]
        have := flatS_bin_child pre l r fl b (pre ++ b :: ks) hne_pre
        rw [habs, hkeypre] at this
        simpa using this.symm
      simp only [del]
      cases b
      · have := ihl (pre ++ [false]) ks hks (by simpa [child] using hchild)
        simp [this]
      · have := ihr (pre ++ [true]) ks hks (by simpa [child] using hchild)
        simp [this]

def thirdLast {α : Type} (l : List α) : Option α := secondLast l.dropLast

/-- how the expected store content changes when a present key is deleted -/
def delUpd (f : Path → Option Shape) (key P : Path) (grand : Option Path) (sib : Path) (k : Path) : Option Shape :=
  if k = key ∨ k = P then none
  else if grand = some k then (f k).map (relink P sib)
  else f k

theorem thirdLast_cons {α : Type} (a : α) (l : List α) (h : l ≠ []) :
    thirdLast (a :: l) = if l.length = 2 then some a else thirdLast l := by
  unfold thirdLast
  have : (a :: l).dropLast = a :: l.dropLast := by
    cases l with
    | nil => exact absurd rfl h
    | cons b t => simp [List.dropLast]
  rw [this, secondLast_cons]
  have hl : l.dropLast.length = l.length - 1 := by simp
  by_cases h2 : l.length = 2
  · simp [h2, hl]
  · have : ¬ l.dropLast.length = 1 := by
      rw [hl]
      have : l.length ≠ 0 := fun e => h (List.length_eq_zero_iff.mp e)
      omega
    simp [h2, this]

theorem del_edge_eq (p : Path) (c : Node) (fl : Flags) (kt : Path) (hp : p ≠ []) (hkt : kt ≠ []) :
    del (.edge p c fl) (p ++ kt) =
      (if !(del c kt).2 then (Node.edge p c fl, false)
       else match (del c kt).1 with
        | .edge q cc _ => (.edge (p ++ q) cc Flags.new, true)
        | c' => (.edge p c' Flags.new, true)) := by
  have hfull : (cpre p (p ++ kt)).length = p.length :=
    (cpre_full_iff p _).mpr (List.isPrefixOf_iff_prefix.mpr (List.prefix_append _ _))
  have h1 : ¬ (cpre p (p ++ kt)).length < p.length := by omega
  have h2 : ¬ (cpre p (p ++ kt)).length = (p ++ kt).length := by
    rw [hfull]; simp; exact hkt
  simp only [del, h1, if_false, h2, List.drop_left]
  rfl

theorem flatS_edge_merge (pre p : Path) (c' : Node) (k : Path) :
    flatS pre (match c' with
      | .edge q cc _ => (Node.edge (p ++ q) cc Flags.new, true)
      | c' => (Node.edge p c' Flags.new, true)).1 k = flatS (pre ++ p) c' k := by
  cases c' <;> simp [flatS, List.append_assoc]

theorem topKey_edge_merge (pre p : Path) (c' : Node) :
    topKey pre (match c' with
      | .edge q cc _ => (Node.edge (p ++ q) cc Flags.new, true)
      | c' => (Node.edge p c' Flags.new, true)).1 = topKey (pre ++ p) c' := by
  cases c' <;> simp [topKey, List.append_assoc]

theorem del_bin_eq (l r : Node) (fl : Flags) (b : Bool) (ks : Path) :
    del (.bin l r fl) (b :: ks) =
      (if !(del (child b l r) ks).2 then (Node.bin l r fl, false)
       else match (del (child b l r) ks).1 with
        | .nil =>
          (match child (!b) l r with
            | .edge q cc _ => (Node.edge ((!b) :: q) cc Flags.new, true)
            | other => (Node.edge [!b] other Flags.new, true))
        | c' => (setChild b l r c' Flags.new, true)) := by
  cases b <;> simp only [del, child, setChild, if_true, Bool.false_eq_true, if_false, Bool.not_true, Bool.not_false] <;> rfl

theorem flatS_collapse (pre : Path) (b : Bool) (other : Node) (k : Path) :
    flatS pre (match other with
      | .edge q cc _ => (Node.edge (b :: q) cc Flags.new, true)
      | o => (Node.edge [b] o Flags.new, true)).1 k = flatS (pre ++ [b]) other k := by
  cases other <;> simp [flatS]

theorem topKey_collapse (pre : Path) (b : Bool) (other : Node) :
    topKey pre (match other with
      | .edge q cc _ => (Node.edge (b :: q) cc Flags.new, true)
      | o => (Node.edge [b] o Flags.new, true)).1 = topKey (pre ++ [b]) other := by
  cases other <;> simp [topKey]

/-- The expected store content after deleting a present key, in terms of the walk of `nodesFromRoot`:
the leaf and its parent disappear, the grandparent is linked to the sibling. -/
theorem flatS_del {S : Node} {n : Nat} (hw : WF S n) :
    ∀ (pre rest : Path), rest.length = n → flatS pre S (pre ++ rest) ≠ none →
      (del S rest).2 = true ∧
      (pathKeys (pre ++ rest) pre S).getLast? = some (pre ++ rest) ∧
      ((pathKeys (pre ++ rest) pre S).length = 1 →
        (del S rest).1 = .nil ∧ ∀ k, k ≠ pre ++ rest → flatS pre S k = none) ∧
      ((pathKeys (pre ++ rest) pre S).length ≠ 1 →
        ∃ P L R, secondLast (pathKeys (pre ++ rest) pre S) = some P ∧ flatS pre S P = some (.inner L R) ∧
          (L = pre ++ rest ∨ R = pre ++ rest) ∧ (del S rest).1 ≠ .nil ∧
          (∀ k, flatS pre (del S rest).1 k =
            delUpd (flatS pre S) (pre ++ rest) P (thirdLast (pathKeys (pre ++ rest) pre S))
              (if L = pre ++ rest then R else L) k) ∧
          topKey pre (del S rest).1 =
            (if (pathKeys (pre ++ rest) pre S).length = 2 then (if L = pre ++ rest then R else L) else topKey pre S) ∧
          (∀ G, thirdLast (pathKeys (pre ++ rest) pre S) = some G → G <+: P ∧ G.length < P.length ∧
            ∃ GL GR, flatS pre S G = some (.inner GL GR) ∧ (GL = P ∨ GR = P))) := by
  induction hw with
  | @value w hwv =>
    intro pre rest hr _
    have : rest = [] := List.length_eq_zero_iff.mp hr
    subst this
    refine ⟨by simp [del], by simp [pathKeys], fun _ => ⟨by simp [del], ?_⟩, fun h => absurd (by simp [pathKeys]) h⟩
    intro k hk
    simp only [List.append_nil] at hk
    simp [flatS, hk]
  | @edge p c n fl hp hc hne ih =>
    intro pre rest hrl hpres
    have hpres' : flatS (pre ++ p) c (pre ++ rest) ≠ none := by simpa [flatS] using hpres
    have hpp : p <+: rest := by
      cases hx : flatS (pre ++ p) c (pre ++ rest) with
      | none => exact absurd hx hpres'
      | some x =>
        obtain ⟨t, ht⟩ := flatS_prefix hx
        rw [List.append_assoc] at ht
        exact ⟨t, List.append_cancel_left ht⟩
    obtain ⟨kt, rfl⟩ := hpp
    have hkt : kt.length = n := by simp at hrl; omega
    have hassoc : pre ++ (p ++ kt) = (pre ++ p) ++ kt := by simp
    rw [hassoc] at hpres'
    obtain ⟨d1, d2, d3, d4⟩ := ih (pre ++ p) kt hkt hpres'
    rw [← hassoc] at d2 d3 d4
    cases hc with
    | edge _ _ _ => simp [NotEdge] at hne
    | @value w hwv =>
      -- the edge leads to the leaf
      have hkt0 : kt = [] := List.length_eq_zero_iff.mp hkt
      subst hkt0
      have hself : (cpre p p).length = p.length := (cpre_full_iff p p).mpr (by simp)
      have hdel : del (.edge p (.value w) fl) (p ++ []) = (.nil, true) := by
        simp [del, hself]
      refine ⟨by rw [hdel], by simp [pathKeys], fun _ => ⟨by rw [hdel], ?_⟩,
        fun h => absurd (by simp [pathKeys]) h⟩
      intro k hk
      simp only [List.append_nil] at hk
      simp [flatS, hk]
    | @bin l r n' bfl hl hr =>
      have hktne : kt ≠ [] := by intro e; subst e; simp at hkt
      have hlen2 : (pathKeys (pre ++ (p ++ kt)) (pre ++ p) (.bin l r bfl)).length ≠ 1 := by
        rw [hassoc]
        cases kt with
        | nil => exact absurd rfl hktne
        | cons b ks =>
          rw [pathKeys_bin]
          have hwc : WF (child b l r) n' := by cases b <;> simp [child, hl, hr]
          obtain ⟨tl, htl⟩ := pathKeys_head (key := (pre ++ p) ++ b :: ks) hwc ((pre ++ p) ++ [b])
          rw [htl]; simp
      obtain ⟨P, L, R, e1, e2, e3, e4, e5, e6, e7⟩ := d4 hlen2
      have hdel := del_edge_eq p (.bin l r bfl) fl kt hp hktne
      rw [d1] at hdel
      simp only [Bool.not_true, Bool.false_eq_true, if_false] at hdel
      refine ⟨by rw [hdel]; cases (del (.bin l r bfl) kt).1 <;> rfl, d2,
        fun h => absurd h hlen2, fun _ => ?_⟩
      refine ⟨P, L, R, e1, by simpa [flatS] using e2, e3, ?_, ?_, ?_, fun G hG => by simpa [flatS] using e7 G hG⟩
      · rw [hdel]; cases (del (.bin l r bfl) kt).1 <;> simp
      · intro k
        rw [hdel, flatS_edge_merge, e5 k]
        simp only [pathKeys, flatS]
      · rw [hdel, topKey_edge_merge, e6]
        rfl
  | @bin l r n fl hl hr ihl ihr =>
    intro pre rest hrl hpres
    cases rest with
    | nil => simp at hrl
    | cons b ks =>
      have hks : ks.length = n := by simpa using hrl
      have hkey : pre ++ b :: ks = (pre ++ [b]) ++ ks := append_cons_assoc pre b ks
      have hne_pre : pre ++ b :: ks ≠ pre := by
        intro e; have := congrArg List.length e; simp at this
      have hkeypre : (pre ++ [b]).isPrefixOf (pre ++ b :: ks) = true :=
        (prefix_dec _ _).mpr (by rw [hkey]; exact List.prefix_append _ _)
      have hwc : WF (child b l r) n := by cases b <;> simp [child, hl, hr]
      have hchild : flatS (pre ++ [b]) (child b l r) ((pre ++ [b]) ++ ks) ≠ none := by
        rw [← hkey]
        have := flatS_bin_child pre l r fl b (pre ++ b :: ks) hne_pre
        rw [hkeypre] at this
        simpa [this] using hpres
      have ih := (by
        cases b
        · exact ihl (pre ++ [false]) ks hks hchild
        · exact ihr (pre ++ [true]) ks hks hchild :
        (del (child b l r) ks).2 = true ∧
        (pathKeys ((pre ++ [b]) ++ ks) (pre ++ [b]) (child b l r)).getLast? = some ((pre ++ [b]) ++ ks) ∧
        ((pathKeys ((pre ++ [b]) ++ ks) (pre ++ [b]) (child b l r)).length = 1 →
          (del (child b l r) ks).1 = .nil ∧ ∀ k, k ≠ (pre ++ [b]) ++ ks → flatS (pre ++ [b]) (child b l r) k = none) ∧
        ((pathKeys ((pre ++ [b]) ++ ks) (pre ++ [b]) (child b l r)).length ≠ 1 →
          ∃ P L R, secondLast (pathKeys ((pre ++ [b]) ++ ks) (pre ++ [b]) (child b l r)) = some P ∧
            flatS (pre ++ [b]) (child b l r) P = some (.inner L R) ∧
            (L = (pre ++ [b]) ++ ks ∨ R = (pre ++ [b]) ++ ks) ∧ (del (child b l r) ks).1 ≠ .nil ∧
            (∀ k, flatS (pre ++ [b]) (del (child b l r) ks).1 k =
              delUpd (flatS (pre ++ [b]) (child b l r)) ((pre ++ [b]) ++ ks) P
                (thirdLast (pathKeys ((pre ++ [b]) ++ ks) (pre ++ [b]) (child b l r)))
                (if L = (pre ++ [b]) ++ ks then R else L) k) ∧
            topKey (pre ++ [b]) (del (child b l r) ks).1 =
              (if (pathKeys ((pre ++ [b]) ++ ks) (pre ++ [b]) (child b l r)).length = 2
                then (if L = (pre ++ [b]) ++ ks then R else L) else topKey (pre ++ [b]) (child b l r)) ∧
            (∀ G, thirdLast (pathKeys ((pre ++ [b]) ++ ks) (pre ++ [b]) (child b l r)) = some G →
              G <+: P ∧ G.length < P.length ∧
              ∃ GL GR, flatS (pre ++ [b]) (child b l r) G = some (.inner GL GR) ∧ (GL = P ∨ GR = P))))
      obtain ⟨d1, d2, d3, d4⟩ := ih
      rw [← hkey] at d2 d3 d4
      obtain ⟨tl, htl⟩ := pathKeys_head (key := pre ++ b :: ks) hwc (pre ++ [b])
      have hpath := pathKeys_bin pre l r fl b ks
      have hdel := del_bin_eq l r fl b ks
      rw [d1] at hdel
      simp only [Bool.not_true, Bool.false_eq_true, if_false] at hdel
      generalize hP : pathKeys (pre ++ b :: ks) (pre ++ [b]) (child b l r) = pc at d2 d3 d4 htl hpath
      have hpcne : pc ≠ [] := by rw [htl]; simp
      have hlenS : (pre :: pc).length ≠ 1 := by rw [htl]; simp
      refine ⟨?_, ?_, fun h => absurd (by rw [hpath] at h; exact h) hlenS, fun _ => ?_⟩
      · rw [hdel]
        cases (del (child b l r) ks).1 with
        | nil => cases child (!b) l r <;> rfl
        | _ => rfl
      · rw [hpath, htl]; rw [htl] at d2; simpa [List.getLast?_cons_cons] using d2
      · rw [hpath]
        by_cases hlen1 : pc.length = 1
        · -- the child is the leaf: the binary node collapses into the other child
          obtain ⟨c1, c2⟩ := d3 hlen1
          have hpc : pc = [pre ++ b :: ks] := by
            rw [htl] at hlen1 d2 ⊢
            have : tl = [] := by simpa using hlen1
            subst this
            simpa using d2
          have htopc : topKey (pre ++ [b]) (child b l r) = pre ++ b :: ks := by
            have := htl.symm.trans hpc
            simp only [List.cons.injEq] at this
            exact this.1
          rw [c1] at hdel
          simp only [] at hdel
          have hL : flatS pre (.bin l r fl) pre = some (.inner (topKey (pre ++ [false]) l) (topKey (pre ++ [true]) r)) := by
            simp [flatS]
          refine ⟨pre, _, _, by rw [hpc]; simp [secondLast], hL, ?_, ?_, ?_, ?_, ?_⟩
          · cases b
            · left; simpa [child] using htopc
            · right; simpa [child] using htopc
          · rw [hdel]; cases child (!b) l r <;> simp
          · intro k
            rw [hdel, flatS_collapse]
            have hsib : (if topKey (pre ++ [false]) l = pre ++ b :: ks then topKey (pre ++ [true]) r
                else topKey (pre ++ [false]) l) = topKey (pre ++ [!b]) (child (!b) l r) := by
              cases b
              · simp only [child, Bool.false_eq_true, if_false] at htopc
                simp [htopc, child]
              · simp only [child, if_true] at htopc
                have : topKey (pre ++ [false]) l ≠ pre ++ true :: ks := by
                  rw [← htopc]; exact topKey_child_ne pre l r
                simp [this, child]
            have hth : thirdLast (pre :: pc) = none := by rw [hpc]; simp [thirdLast, secondLast]
            rw [hth]
            unfold delUpd
            by_cases hk1 : k = pre ++ b :: ks ∨ k = pre
            · simp only [hk1, if_true]
              apply flatS_none_of_not_prefix
              rcases hk1 with e | e
              · rw [e, hkey]
                exact not_prefix_sibling pre b (List.prefix_append _ _)
              · rw [e]; intro h; have := h.length_le; simp at this; omega
            · simp only [hk1, if_false]
              have hnone : ¬ (none : Option Path) = some k := by simp
              simp only [hnone, if_false]
              have hkp : k ≠ pre := fun e => hk1 (Or.inr e)
              have hkk : k ≠ pre ++ b :: ks := fun e => hk1 (Or.inl e)
              rw [flatS_bin_child pre l r fl b k hkp]
              by_cases hin : (pre ++ [b]).isPrefixOf k = true
              · simp only [hin, if_true]
                rw [c2 k hkk]
                exact flatS_none_of_not_prefix (not_prefix_sibling pre b ((prefix_dec _ _).mp hin))
              · simp [Bool.eq_false_iff.mpr hin]
          · rw [hdel, topKey_collapse]
            have : (pre :: pc).length = 2 := by rw [hpc]; rfl
            simp only [this, if_true]
            cases b
            · simp only [child, Bool.false_eq_true, if_false] at htopc
              simp [htopc, child]
            · simp only [child, if_true] at htopc
              have : topKey (pre ++ [false]) l ≠ pre ++ true :: ks := by
                rw [← htopc]; exact topKey_child_ne pre l r
              simp [this, child]
          · intro G hG
            rw [hpc] at hG; simp [thirdLast, secondLast] at hG
        · -- the deletion happens deeper in the child
          obtain ⟨P, L, R, e1, e2, e3, e4, e5, e6, e7⟩ := d4 hlen1
          have hPin : (pre ++ [b]) <+: P := flatS_prefix e2
          have hPne : P ≠ pre := by intro e; have := hPin.length_le; rw [e] at this; simp at this; omega
          have hPflat : flatS pre (.bin l r fl) P = some (.inner L R) := by
            rw [flatS_bin_child pre l r fl b P hPne, (prefix_dec _ _).mpr hPin]; exact e2
          have hdel' : del (.bin l r fl) (b :: ks) = (setChild b l r (del (child b l r) ks).1 Flags.new, true) := by
            rw [hdel]
            cases hc : (del (child b l r) ks).1 with
            | nil => exact absurd hc e4
            | _ => rfl
          generalize hc' : (del (child b l r) ks).1 = c' at e4 e5 e6 hdel'
          generalize hsib : (if L = pre ++ b :: ks then R else L) = sib at e5 e6
          refine ⟨P, L, R, ?_, hPflat, e3, by rw [hdel']; cases b <;> simp [setChild], ?_, ?_, ?_⟩
          · rw [secondLast_cons]; simp [hlen1, e1]
          · intro k
            rw [hdel', flatS_setChild, hsib, thirdLast_cons pre pc hpcne]
            by_cases hkpre : k = pre
            · subst hkpre
              have hk1 : ¬ (k = k ++ b :: ks ∨ k = P) := by
                rintro (e | e)
                · exact hne_pre e.symm
                · exact hPne e.symm
              simp only [if_true, delUpd, hk1, if_false]
              by_cases hlen2 : pc.length = 2
              · simp only [hlen2, if_true]
                have htop : topKey (k ++ [b]) c' = sib := by simpa [hlen2] using e6
                have hPtop : topKey (k ++ [b]) (child b l r) = P := by
                  rw [htl] at hlen2 e1
                  cases tl with
                  | nil => simp at hlen2
                  | cons x tl2 =>
                    have : tl2 = [] := by simpa using hlen2
                    subst this
                    simpa [secondLast] using e1
                cases b
                · simp only [child, Bool.false_eq_true, if_false] at hPtop htop ⊢
                  simp [flatS, relink, hPtop, htop]
                · simp only [child, if_true] at hPtop htop ⊢
                  have hdiff : topKey (k ++ [false]) l ≠ P := by
                    rw [← hPtop]; exact topKey_child_ne k l r
                  simp [flatS, relink, hPtop, htop, hdiff]
              · simp only [hlen2, if_false]
                have htop : topKey (k ++ [b]) c' = topKey (k ++ [b]) (child b l r) := by simpa [hlen2] using e6
                have hG : ¬ thirdLast pc = some k := by
                  intro e
                  obtain ⟨g1, g2⟩ := e7 k e
                  have := hPin.length_le
                  have hm : k ∈ pc := List.dropLast_subset _ (mem_of_secondLast e)
                  have := (pathKeys_prefix hwc (k ++ [b]) k (by rw [hP]; exact hm)).length_le
                  simp at this; omega
                cases b
                · simp only [child, Bool.false_eq_true, if_false] at htop ⊢
                  simp [hG, flatS, htop]
                · simp only [child, if_true] at htop ⊢
                  simp [hG, flatS, htop]
            · simp only [hkpre, if_false]
              by_cases hkin : (pre ++ [b]).isPrefixOf k = true
              · simp only [hkin, if_true]
                rw [e5 k]
                have hold := flatS_bin_child pre l r fl b k hkpre
                simp only [hkin, if_true] at hold
                unfold delUpd
                rw [hold]
                by_cases hlen2 : pc.length = 2
                · have hth : thirdLast pc = none := by
                    unfold thirdLast
                    apply (secondLast_none_iff _).mpr
                    simp; omega
                  have hpk : ¬ (some pre = some k) := by simpa using fun e : pre = k => hkpre e.symm
                  simp [hlen2, hth, hpk]
                · simp [hlen2]
              · have hkin' : (pre ++ [b]).isPrefixOf k = false := Bool.eq_false_iff.mpr hkin
                have hnp : ¬ (pre ++ [b]) <+: k := fun h => hkin ((prefix_dec _ _).mpr h)
                simp only [hkin', Bool.false_eq_true, if_false]
                have hold := flatS_bin_child pre l r fl b k hkpre
                simp only [hkin', Bool.false_eq_true, if_false] at hold
                have c1 : ¬ (k = pre ++ b :: ks ∨ k = P) := by
                  rintro (e | e)
                  · apply hnp; rw [e, hkey]; exact List.prefix_append _ _
                  · apply hnp; rw [e]; exact hPin
                have c2 : ¬ (if pc.length = 2 then some pre else thirdLast pc) = some k := by
                  split
                  · simpa using fun e : pre = k => hkpre e.symm
                  · intro e
                    have hm : k ∈ pc := List.dropLast_subset _ (mem_of_secondLast e)
                    exact hnp (pathKeys_prefix hwc (pre ++ [b]) k (by rw [hP]; exact hm))
                simp only [delUpd, c1, c2, if_false, hold]
          · rw [hdel', hsib]
            have h2 : (pre :: pc).length ≠ 2 := by simp; exact hlen1
            simp only [h2, if_false]
            cases b <;> simp [setChild, topKey]
          · intro G hG
            rw [thirdLast_cons pre pc hpcne] at hG
            by_cases hlen2 : pc.length = 2
            · simp only [hlen2, if_true, Option.some.injEq] at hG
              subst hG
              refine ⟨(List.prefix_append _ _).trans hPin, ?_, ?_⟩
              · have := hPin.length_le; simp at this; omega
              · have hPtop : topKey (pre ++ [b]) (child b l r) = P := by
                  rw [htl] at hlen2 e1
                  cases tl with
                  | nil => simp at hlen2
                  | cons x tl2 =>
                    have : tl2 = [] := by simpa using hlen2
                    subst this
                    simpa [secondLast] using e1
                refine ⟨topKey (pre ++ [false]) l, topKey (pre ++ [true]) r, by simp [flatS], ?_⟩
                cases b
                · left; simpa [child] using hPtop
                · right; simpa [child] using hPtop
            · simp only [hlen2, if_false] at hG
              obtain ⟨x1, x2, GL, GR, x3, x4⟩ := e7 G hG
              refine ⟨x1, x2, GL, GR, ?_, x4⟩
              have hGin : (pre ++ [b]) <+: G := flatS_prefix x3
              have hGne : G ≠ pre := by intro e; have := hGin.length_le; rw [e] at this; simp at this; omega
              rw [flatS_bin_child pre l r fl b G hGne, (prefix_dec _ _).mpr hGin]; exact x3

/-! ### `deleteLast` on the store -/

theorem lasts_of_reverse {α : Type} (l : List α) :
    (∀ a, l.reverse = [a] → l.getLast? = some a ∧ secondLast l = none) ∧
    (∀ a b, l.reverse = [a, b] → l.getLast? = some a ∧ secondLast l = some b ∧ thirdLast l = none) ∧
    (∀ a b c rest, l.reverse = a :: b :: c :: rest →
      l.getLast? = some a ∧ secondLast l = some b ∧ thirdLast l = some c) := by
  refine ⟨?_, ?_, ?_⟩
  · intro a h
    have : l = [a] := by have := congrArg List.reverse h; simpa using this
    subst this; simp [secondLast]
  · intro a b h
    have : l = [b, a] := by have := congrArg List.reverse h; simpa using this
    subst this; simp [secondLast, thirdLast]
  · intro a b c rest h
    have : l = rest.reverse ++ [c, b, a] := by have := congrArg List.reverse h; simpa using this
    subst this
    simp [secondLast, thirdLast, List.dropLast_append_of_ne_nil]

theorem deleteLast_spec (tr : Trie) (nodes : List (Path × LNode)) (last : Path × LNode)
    (hlast : nodes.getLast? = some last) :
    match secondLast nodes with
    | none =>
      deleteLast tr nodes = some { tr with store := sdel tr.store last.1, rootKey := none }
    | some parent =>
      match (if parent.2.left = some last.1 then parent.2.right else parent.2.left) with
      | none => deleteLast tr nodes = none
      | some sib =>
        match thirdLast nodes with
        | none =>
          deleteLast tr nodes = some { tr with store := sdel (sdel tr.store last.1) parent.1, rootKey := some sib }
        | some grand =>
          deleteLast tr nodes = some { tr with
            store := sput (sdel (sdel tr.store last.1) parent.1) grand.1 (relinkNode grand.2 parent.1 sib),
            dirty := tr.dirty ++ [sib] } := by
  obtain ⟨h1, h2, h3⟩ := lasts_of_reverse nodes
  cases hrev : nodes.reverse with
  | nil =>
    have : nodes = [] := by simpa using hrev
    subst this; simp at hlast
  | cons a rest =>
    cases rest with
    | nil =>
      obtain ⟨x, y⟩ := h1 a hrev
      rw [x] at hlast; simp only [Option.some.injEq] at hlast; subst hlast
      rw [y]
      simp [deleteLast, hrev, setRootKey]
    | cons b rest2 =>
      cases rest2 with
      | nil =>
        obtain ⟨x, y, z⟩ := h2 a b hrev
        rw [x] at hlast; simp only [Option.some.injEq] at hlast; subst hlast
        rw [y]
        simp only [deleteLast, hrev]
        cases hs : (if b.2.left = some a.1 then b.2.right else b.2.left) with
        | none => simp
        | some sib => simp [z, setRootKey]
      | cons c rest3 =>
        obtain ⟨x, y, z⟩ := h3 a b c rest3 hrev
        rw [x] at hlast; simp only [Option.some.injEq] at hlast; subst hlast
        rw [y]
        simp only [deleteLast, hrev]
        cases hs : (if b.2.left = some a.1 then b.2.right else b.2.left) with
        | none => simp
        | some sib => simp [z, relinkNode]

/-- every node stored below the left (right) branch of an inner node lies below its left (right) link -/
theorem below_link {S : Node} {n : Nat} (hw : WF S n) :
    ∀ (pre K L R Y : Path), flatS pre S K = some (.inner L R) → flatS pre S Y ≠ none →
      ((K ++ [false]) <+: Y → L <+: Y) ∧ ((K ++ [true]) <+: Y → R <+: Y) := by
  induction hw with
  | value _ =>
    intro pre K L R Y h
    simp only [flatS] at h
    split at h <;> simp at h
  | edge _ _ _ ih =>
    intro pre K L R Y h hY
    exact ih _ K L R Y (by simpa [flatS] using h) (by simpa [flatS] using hY)
  | @bin l r n fl hl hr ihl ihr =>
    intro pre K L R Y h hY
    by_cases hk : K = pre
    · subst hk
      simp only [flatS, if_true, Option.some.injEq, Shape.inner.injEq] at h
      obtain ⟨rfl, rfl⟩ := h
      constructor
      · intro hp
        have hne : Y ≠ K := by intro e; have := hp.length_le; rw [e] at this; simp at this; omega
        rw [flatS_bin_child K l r fl false Y hne, (prefix_dec _ _).mpr hp] at hY
        cases hx : flatS (K ++ [false]) l Y with
        | none => simp [child, hx] at hY
        | some x => exact flatS_topKey_prefix hx
      · intro hp
        have hne : Y ≠ K := by intro e; have := hp.length_le; rw [e] at this; simp at this; omega
        rw [flatS_bin_child K l r fl true Y hne, (prefix_dec _ _).mpr hp] at hY
        cases hx : flatS (K ++ [true]) r Y with
        | none => simp [child, hx] at hY
        | some x => exact flatS_topKey_prefix hx
    · -- K lies in one of the subtrees; so does everything below it
      have side : ∀ (b : Bool), (pre ++ [b]) <+: K → flatS (pre ++ [b]) (child b l r) K = some (.inner L R) →
          (∀ Z, (K ++ [false]) <+: Z ∨ (K ++ [true]) <+: Z → flatS pre (.bin l r fl) Z ≠ none →
            flatS (pre ++ [b]) (child b l r) Z ≠ none) := by
        intro b hb _ Z hZ hZs
        have hbZ : (pre ++ [b]) <+: Z := by
          rcases hZ with h | h
          · exact hb.trans ((List.prefix_append _ _).trans h)
          · exact hb.trans ((List.prefix_append _ _).trans h)
        have hne : Z ≠ pre := by intro e; have := hbZ.length_le; rw [e] at this; simp at this; omega
        rw [flatS_bin_child pre l r fl b Z hne, (prefix_dec _ _).mpr hbZ] at hZs
        simpa using hZs
      have h0 := flatS_bin_child pre l r fl false K hk
      rw [h] at h0
      by_cases hin : (pre ++ [false]).isPrefixOf K = true
      · simp only [hin, if_true] at h0
        have hb := (prefix_dec _ _).mp hin
        have := ihl (pre ++ [false]) K L R Y (by simpa [child] using h0.symm)
        constructor
        · intro hp
          exact (this (by simpa [child] using side false hb h0.symm Y (Or.inl hp) hY)).1 hp
        · intro hp
          exact (this (by simpa [child] using side false hb h0.symm Y (Or.inr hp) hY)).2 hp
      · have hin' : (pre ++ [false]).isPrefixOf K = false := Bool.eq_false_iff.mpr hin
        simp only [hin', Bool.false_eq_true, if_false, Bool.not_false] at h0
        have hb : (pre ++ [true]) <+: K := flatS_prefix h0.symm
        have := ihr (pre ++ [true]) K L R Y (by simpa [child] using h0.symm)
        constructor
        · intro hp
          exact (this (by simpa [child] using side true hb h0.symm Y (Or.inl hp) hY)).1 hp
        · intro hp
          exact (this (by simpa [child] using side true hb h0.symm Y (Or.inr hp) hY)).2 hp

/-- a node has at most one parent -/
theorem parent_unique {S : Node} {n : Nat} (hw : WF S n) (pre K K' L R L' R' X : Path)
    (h : flatS pre S K = some (.inner L R)) (h' : flatS pre S K' = some (.inner L' R'))
    (hx : L = X ∨ R = X) (hx' : L' = X ∨ R' = X) : K = K' := by
  obtain ⟨a, b, _, _⟩ := link_facts hw pre K L R h
  obtain ⟨a', b', _, _⟩ := link_facts hw pre K' L' R' h'
  -- K ++ [bit] <+: X, K' ++ [bit'] <+: X
  have hb : ∃ bit, (K ++ [bit]) <+: X ∧ (if bit then R else L) = X := by
    rcases hx with e | e
    · exact ⟨false, e ▸ a, by simpa using e⟩
    · exact ⟨true, e ▸ b, by simpa using e⟩
  have hb' : ∃ bit, (K' ++ [bit]) <+: X ∧ (if bit then R' else L') = X := by
    rcases hx' with e | e
    · exact ⟨false, e ▸ a', by simpa using e⟩
    · exact ⟨true, e ▸ b', by simpa using e⟩
  obtain ⟨bit, p1, q1⟩ := hb
  obtain ⟨bit', p2, q2⟩ := hb'
  have key : ∀ (A B LA RA : Path) (bA bB : Bool), flatS pre S A = some (.inner LA RA) →
      flatS pre S B ≠ none → (A ++ [bA]) <+: X → (if bA then RA else LA) = X → (B ++ [bB]) <+: X →
      A.length < B.length → False := by
    intro A B LA RA bA bB hA hB pA qA pB hlt
    have hAB : (A ++ [bA]) <+: B := by
      have hBX : B <+: X := (List.prefix_append _ _).trans pB
      exact List.prefix_of_prefix_length_le pA hBX (by simp; omega)
    have hlink := below_link hw pre A LA RA B hA hB
    have : X <+: B := by
      cases bA
      · simp only [Bool.false_eq_true, if_false] at qA; rw [← qA]; exact hlink.1 hAB
      · simp only [if_true] at qA; rw [← qA]; exact hlink.2 hAB
    have l1 := this.length_le
    have l2 := pB.length_le
    simp at l2; omega
  rcases Nat.lt_trichotomy K.length K'.length with hlt | heq | hgt
  · exact absurd (key K K' L R bit bit' h (by rw [h']; simp) p1 q1 p2 hlt) id
  · have k1 : K <+: X := (List.prefix_append _ _).trans p1
    have k2 : K' <+: X := (List.prefix_append _ _).trans p2
    exact List.prefix_of_prefix_length_le k1 k2 (by omega) |>.eq_of_length heq
  · exact absurd (key K' K L' R' bit' bit h' (by rw [h]; simp) p2 q2 p1 hgt) id

/-- `Put` of zero to a key that is not there: nothing happens -/
theorem put_zero_absent {tr : Trie} {t : Node} {n : Nat} (hr : Repr tr t n) (key : Path) (hk : key.length = n)
    (hab : sget tr.store key = none) :
    put tr key (.felt 0) = some tr ∧ (del t key).1 = t := by
  have hb1 : ((HTerm.felt 0) != HTerm.felt 0 && (sget tr.store key).isSome) = false := by simp
  cases hr.wf with
  | inl e =>
    subst e
    have hroot : tr.rootKey = none := hr.root
    exact ⟨by simp [put, hroot, nodesFromRoot], by simp [del]⟩
  | inr hwf =>
    have hflat : flatS [] t ([] ++ key) = none := by
      simpa using (matches_some_iff (hr.agree key)).mp hab
    have hclean := del_clean (del_absent hwf [] key hk hflat)
    obtain ⟨nodes, w1, w2, w3⟩ := walk (tr := tr) (key := key) hwf [] (tr.height + 2) []
      (fun k _ => hr.agree k) (by simp [hk]) (by rw [hr.height]; omega) (Or.inl rfl)
    simp only [List.nil_append] at w1
    obtain ⟨tl, htl⟩ := pathKeys_head (key := key) hwf []
    have hnodes : nodes ≠ [] := by intro e; subst e; rw [htl] at w2; simp at w2
    have hroot : tr.rootKey = some (topKey [] t) := by rw [hr.root, root_of_wf hwf]
    refine ⟨?_, hclean⟩
    cases hsib : nodes.getLast? with
    | none => exact absurd (List.getLast?_eq_none_iff.mp hsib) hnodes
    | some sib =>
      have hsibs : sget tr.store sib.1 = some sib.2 := w3 sib (List.mem_of_getLast? hsib)
      have hne : key ≠ sib.1 := by intro e; rw [← e, hab] at hsibs; simp at hsibs
      simp only [put, hb1, Bool.false_eq_true, if_false, hroot, w1]
      cases nodes with
      | nil => exact absurd rfl hnodes
      | cons a rest => simp [hsib, hne]

/-- `Put` of zero to a present key (`deleteExistingKey` + `deleteLast`) -/
theorem put_zero_present {tr : Trie} {t : Node} {n : Nat} (hr : Repr tr t n) (hwf : WF t n) (key : Path)
    (hk : key.length = n) (hp : sget tr.store key ≠ none) :
    ∃ tr', put tr key (.felt 0) = some tr' ∧ Repr tr' (del t key).1 n ∧ tr'.kind = tr.kind := by
  have hflat : flatS [] t ([] ++ key) ≠ none := by
    intro e; exact hp ((matches_some_iff (hr.agree key)).mpr (by simpa using e))
  obtain ⟨d1, d2, d3, d4⟩ := flatS_del hwf [] key hk hflat
  simp only [List.nil_append] at d2 d3 d4
  obtain ⟨nodes, w1, w2, w3⟩ := walk (tr := tr) (key := key) hwf [] (tr.height + 2) []
    (fun k _ => hr.agree k) (by simp [hk]) (by rw [hr.height]; omega) (Or.inl rfl)
  simp only [List.nil_append] at w1
  have hlast : (nodes.map Prod.fst).getLast? = some key := by rw [w2]; exact d2
  rw [List.getLast?_map] at hlast
  cases hsib : nodes.getLast? with
  | none => rw [hsib] at hlast; simp at hlast
  | some last =>
    rw [hsib] at hlast
    simp only [Option.map_some, Option.some.injEq] at hlast
    have hnodes : nodes ≠ [] := by intro e; subst e; simp at hsib
    have hroot : tr.rootKey = some (topKey [] t) := by rw [hr.root, root_of_wf hwf]
    have hb1 : ((HTerm.felt 0) != HTerm.felt 0 && (sget tr.store key).isSome) = false := by simp
    have hput : put tr key (.felt 0) = deleteLast tr nodes := by
      simp only [put, hb1, Bool.false_eq_true, if_false, hroot, w1]
      cases nodes with
      | nil => exact absurd rfl hnodes
      | cons a rest => simp [hsib, hlast]
    have hspec := deleteLast_spec tr nodes last hsib
    have hsl : secondLast (pathKeys key [] t) = (secondLast nodes).map Prod.fst := by
      rw [← w2, secondLast_map]
    have hth : thirdLast (pathKeys key [] t) = (thirdLast nodes).map Prod.fst := by
      rw [← w2]; unfold thirdLast; rw [← List.map_dropLast, secondLast_map]
    have hlen : (pathKeys key [] t).length = nodes.length := by rw [← w2]; simp
    have hwfr : WFRoot (del t key).1 n := (del_spec hwf key hk).1
    cases hsp : secondLast nodes with
    | none =>
      -- the only key is removed
      rw [hsp] at hspec
      simp only [] at hspec
      have hlen1 : (pathKeys key [] t).length = 1 := by
        have h1 : nodes.length ≤ 1 := (secondLast_none_iff nodes).mp hsp
        have h2 : nodes.length ≠ 0 := fun e => hnodes (List.length_eq_zero_iff.mp e)
        omega
      obtain ⟨c1, c2⟩ := d3 hlen1
      refine ⟨_, hput.trans hspec, ?_, rfl⟩
      rw [c1]
      refine ⟨hr.height, Or.inl rfl, ?_, by simp [rootKeyOf], ?_⟩
      · intro k
        simp only [sget_sdel, hlast, flatS, Matches]
        by_cases e : k = key
        · simp [e]
        · simp only [e, if_false]
          have := hr.agree k
          rw [c2 k e] at this
          simpa [Matches] using this
      · intro K nd hK
        simp only [sget_sdel, hlast] at hK
        by_cases e : K = key
        · simp [e] at hK
        · simp only [e, if_false] at hK
          have := hr.agree K
          rw [c2 K e, hK] at this
          simp [Matches] at this
    | some parent =>
      rw [hsp] at hspec hsl
      simp only [Option.map_some] at hsl
      have hlen1 : (pathKeys key [] t).length ≠ 1 := by
        intro h1
        have : secondLast (pathKeys key [] t) = none := (secondLast_none_iff _).mpr (by omega)
        rw [hsl] at this; simp at this
      obtain ⟨P, L, R, e1, e2, e3, e4, e5, e6, e7⟩ := d4 hlen1
      rw [hsl] at e1
      simp only [Option.some.injEq] at e1
      have hpmem : parent ∈ nodes := mem_of_secondLast hsp
      have hps : sget tr.store parent.1 = some parent.2 := w3 parent hpmem
      have hpm := hr.agree parent.1
      rw [hps, e1, e2] at hpm
      simp only [Matches, Option.some.injEq] at hpm
      obtain ⟨cv, hcv⟩ := hpm
      have hsibeq : (if parent.2.left = some last.1 then parent.2.right else parent.2.left) =
          some (if L = key then R else L) := by
        rw [hcv, hlast]
        by_cases hL : L = key <;> simp [hL]
      simp only [] at hspec
      rw [hsibeq] at hspec
      simp only [] at hspec
      have hwf' : WF (del t key).1 n := hwfr.wf e4
      obtain ⟨lp1, lp2, lp3, lp4⟩ := link_facts hwf [] P L R e2
      have hPK : P ≠ key := by
        intro e
        rw [e] at e2
        have hm := hr.agree key
        rw [e2] at hm
        -- an inner node at full depth: impossible
        rcases e3 with h | h
        · have := lp1.length_le; rw [h, e] at this; simp at this; omega
        · have := lp2.length_le; rw [h, e] at this; simp at this; omega
      generalize hsibdef : (if L = key then R else L) = sib at hspec e5 e6
      have hsibP : ∃ bit, (P ++ [bit]) <+: sib := by
        by_cases hL : L = key
        · simp only [hL, if_true] at hsibdef; exact ⟨true, hsibdef ▸ lp2⟩
        · simp only [hL, if_false] at hsibdef; exact ⟨false, hsibdef ▸ lp1⟩
      obtain ⟨sbit, hsibP⟩ := hsibP
      have hsibflat : flatS [] t sib ≠ none := by
        by_cases hL : L = key
        · simp only [hL, if_true] at hsibdef; rw [← hsibdef]; exact lp4
        · simp only [hL, if_false] at hsibdef; rw [← hsibdef]; exact lp3
      have hsibK : sib ≠ key := by
        intro e
        by_cases hL : L = key
        · simp only [hL, if_true] at hsibdef
          -- both links would be the key
          have h1 := lp1; have h2 := lp2
          rw [hL] at h1; rw [hsibdef, e] at h2
          exact not_prefix_sibling P false h1 (by simpa using h2)
        · simp only [hL, if_false] at hsibdef; exact hL (hsibdef.trans e)
      have hsibPne : sib ≠ P := by
        intro e; have := hsibP.length_le; rw [e] at this; simp at this; omega
      cases htl : thirdLast nodes with
      | none =>
        rw [htl] at hspec hth
        simp only [Option.map_none] at hth
        simp only [] at hspec
        have hlen2 : (pathKeys key [] t).length = 2 := by
          have : nodes.dropLast.length ≤ 1 := (secondLast_none_iff _).mp htl
          have h2 : nodes.length ≠ 0 := fun e => hnodes (List.length_eq_zero_iff.mp e)
          have h3 : nodes.length ≠ 1 := by rw [← hlen]; exact hlen1
          simp at this; omega
        refine ⟨_, hput.trans hspec, ?_, rfl⟩
        refine ⟨hr.height, hwfr, ?_, ?_, ?_⟩
        · intro k
          simp only [sget_sdel, hlast, e1]
          rw [e5 k, hth]
          unfold delUpd
          by_cases ek : k = key ∨ k = P
          · rcases ek with e | e <;> simp [e, Matches]
          · have ek1 : k ≠ key := fun e => ek (Or.inl e)
            have ek2 : k ≠ P := fun e => ek (Or.inr e)
            have hn : ¬ (none : Option Path) = some k := by simp
            simpa [ek, ek1, ek2, hn] using hr.agree k
        · show some sib = _
          rw [root_of_wf hwf', e6, hlen2]; simp
        · intro K nd hK
          simp only [sget_sdel, hlast, e1] at hK
          by_cases ek2 : K = P
          · simp [ek2] at hK
          · by_cases ek1 : K = key
            · simp [ek1, ek2] at hK
            · simp only [ek2, ek1, if_false] at hK
              cases hr.cache K nd hK with
              | inr hd => exact Or.inr hd
              | inl hl =>
                left
                intro L0 R0 hL0 hR0
                obtain ⟨nl, nr, a, b, c⟩ := hl L0 R0 hL0 hR0
                have hKflat : flatS [] t K = some (.inner L0 R0) := by
                  have hm := hr.agree K
                  rw [hK] at hm
                  cases hsh : flatS [] t K with
                  | none => rw [hsh] at hm; simp [Matches] at hm
                  | some sh =>
                    rw [hsh] at hm
                    cases sh with
                    | leaf w => simp only [Matches, Option.some.injEq] at hm; subst hm; simp at hL0
                    | inner L1 R1 =>
                      simp only [Matches, Option.some.injEq] at hm
                      obtain ⟨c0, hc0⟩ := hm; subst hc0
                      simp only [Option.some.injEq] at hL0 hR0; subst hL0 hR0; rfl
                -- K is neither the parent of the deleted leaf nor (there is none) of its parent
                have hnk : L0 ≠ key ∧ R0 ≠ key := by
                  constructor <;> intro e
                  · exact ek2 (parent_unique hwf [] K P L0 R0 L R key hKflat e2 (Or.inl e) e3)
                  · exact ek2 (parent_unique hwf [] K P L0 R0 L R key hKflat e2 (Or.inr e) e3)
                have hnp : L0 ≠ P ∧ R0 ≠ P := by
                  obtain ⟨q1, q2, _, _⟩ := link_facts hwf [] K L0 R0 hKflat
                  have hKtop : topKey [] t <+: K := flatS_topKey_prefix hKflat
                  have hPtop : P = topKey [] t := by
                    obtain ⟨tl2, htl2⟩ := pathKeys_head (key := key) hwf []
                    have hsl' : secondLast (pathKeys key [] t) = some P := by rw [hsl, e1]
                    rw [htl2] at hlen2 hsl'
                    cases tl2 with
                    | nil => simp at hlen2
                    | cons x tl3 =>
                      have : tl3 = [] := by simpa using hlen2
                      subst this
                      simpa [secondLast] using hsl'.symm
                  constructor <;> intro e
                  · have := q1.length_le; rw [e, hPtop] at this
                    have := hKtop.length_le; simp at *; omega
                  · have := q2.length_le; rw [e, hPtop] at this
                    have := hKtop.length_le; simp at *; omega
                exact ⟨nl, nr, by simp [sget_sdel, hlast, e1, hnk.1, hnp.1, a],
                  by simp [sget_sdel, hlast, e1, hnk.2, hnp.2, b], c⟩
      | some grand =>
        rw [htl] at hspec hth
        simp only [Option.map_some] at hth
        simp only [] at hspec
        obtain ⟨g1, g2, GL, GR, hGsh, hGlink⟩ := e7 grand.1 hth
        have hgmem : grand ∈ nodes := List.dropLast_subset _ (mem_of_secondLast htl)
        have hgs : sget tr.store grand.1 = some grand.2 := w3 grand hgmem
        have hlen2 : (pathKeys key [] t).length ≠ 2 := by
          intro h2
          have : thirdLast (pathKeys key [] t) = none := by
            unfold thirdLast; apply (secondLast_none_iff _).mpr; simp; omega
          rw [hth] at this; simp at this
        have hGP : grand.1 ≠ P := by intro e; rw [e] at g2; omega
        have hGK : grand.1 ≠ key := by
          intro e
          have := (lp1.length_le); have l2 := g1.length_le
          have hPlen : P.length < n := by
            rcases e3 with h | h
            · have := lp1.length_le; rw [h] at this; simp at this; omega
            · have := lp2.length_le; rw [h] at this; simp at this; omega
          rw [e] at g2; omega
        refine ⟨_, hput.trans hspec, ?_, rfl⟩
        refine ⟨hr.height, hwfr, ?_, ?_, ?_⟩
        · intro k
          simp only [sget_sput, sget_sdel, hlast, e1]
          rw [e5 k, hth]
          unfold delUpd
          by_cases eg : k = grand.1
          · subst eg
            have c1 : ¬ (grand.1 = key ∨ grand.1 = P) := by rintro (e | e); exact hGK e; exact hGP e
            simp only [if_true, c1, if_false, hGsh, Option.map_some]
            have hm := hr.agree grand.1
            rw [hgs, hGsh] at hm
            simp only [Matches, Option.some.injEq] at hm
            obtain ⟨c0, hc0⟩ := hm
            rw [hc0]
            simp only [relinkNode, relink, e1]
            by_cases hl : GL = P <;> simp [hl, Matches]
          · simp only [eg, if_false]
            by_cases ek : k = key ∨ k = P
            · rcases ek with e | e <;> simp [e, Matches]
            · have ek1 : k ≠ key := fun e => ek (Or.inl e)
              have ek2 : k ≠ P := fun e => ek (Or.inr e)
              have hn : ¬ some grand.1 = some k := by simpa using fun e : grand.1 = k => eg e.symm
              simpa [ek, ek1, ek2, hn] using hr.agree k
        · show tr.rootKey = _
          rw [root_of_wf hwf', e6]; simp only [hlen2, if_false]; exact hroot
        · intro K nd hK
          simp only [sget_sput, sget_sdel, hlast, e1] at hK
          by_cases eg : K = grand.1
          · -- relinked: the sibling key below it is dirty
            right
            rw [eg]
            refine ⟨sib, by simp, ?_, g1.trans ((List.prefix_append _ _).trans hsibP)⟩
            have := hsibP.length_le; simp at this; omega
          · simp only [eg, if_false] at hK
            by_cases ek2 : K = P
            · simp [ek2] at hK
            · by_cases ek1 : K = key
              · simp [ek1, ek2] at hK
              · simp only [ek2, ek1, if_false] at hK
                cases hr.cache K nd hK with
                | inr hd => exact Or.inr (dirtyBelow_mono hd _)
                | inl hl =>
                  left
                  intro L0 R0 hL0 hR0
                  obtain ⟨nl, nr, a, b, c⟩ := hl L0 R0 hL0 hR0
                  have hKflat : flatS [] t K = some (.inner L0 R0) := by
                    have hm := hr.agree K
                    rw [hK] at hm
                    cases hsh : flatS [] t K with
                    | none => rw [hsh] at hm; simp [Matches] at hm
                    | some sh =>
                      rw [hsh] at hm
                      cases sh with
                      | leaf w => simp only [Matches, Option.some.injEq] at hm; subst hm; simp at hL0
                      | inner L1 R1 =>
                        simp only [Matches, Option.some.injEq] at hm
                        obtain ⟨c0, hc0⟩ := hm; subst hc0
                        simp only [Option.some.injEq] at hL0 hR0; subst hL0 hR0; rfl
                  have hnk : L0 ≠ key ∧ R0 ≠ key := by
                    constructor <;> intro e
                    · exact ek2 (parent_unique hwf [] K P L0 R0 L R key hKflat e2 (Or.inl e) e3)
                    · exact ek2 (parent_unique hwf [] K P L0 R0 L R key hKflat e2 (Or.inr e) e3)
                  have hnp : L0 ≠ P ∧ R0 ≠ P := by
                    constructor <;> intro e
                    · exact eg (parent_unique hwf [] K grand.1 L0 R0 GL GR P hKflat hGsh (Or.inl e) hGlink)
                    · exact eg (parent_unique hwf [] K grand.1 L0 R0 GL GR P hKflat hGsh (Or.inr e) hGlink)
                  have getC : ∀ (X : Path) (nx : LNode), X ≠ key → X ≠ P → sget tr.store X = some nx →
                      ∃ nx', sget (sput (sdel (sdel tr.store key) P) grand.1 (relinkNode grand.2 P sib)) X = some nx' ∧
                        nx'.value = nx.value := by
                    intro X nx h1 h2 h3
                    by_cases hx : X = grand.1
                    · subst hx
                      rw [hgs] at h3
                      simp only [Option.some.injEq] at h3; subst h3
                      refine ⟨relinkNode grand.2 P sib, by simp [sget_sput], ?_⟩
                      simp only [relinkNode]; split <;> rfl
                    · exact ⟨nx, by simp [sget_sput, sget_sdel, hx, h1, h2, h3], rfl⟩
                  obtain ⟨nl', gl1, gl2⟩ := getC L0 nl hnk.1 hnp.1 a
                  obtain ⟨nr', gr1, gr2⟩ := getC R0 nr hnk.2 hnp.2 b
                  refine ⟨nl', nr', by simpa [hlast, e1] using gl1, by simpa [hlast, e1] using gr1, ?_⟩
                  rw [c, nodeHash_value _ nl' nl _ gl2, nodeHash_value _ nr' nr _ gr2]

/-! ### every operation keeps the representation invariant -/

theorem stepOp_inv_all {kind : HashKind} {n : Nat} {tr : Trie} {t : Node} {m : Path → HTerm}
    (hr : Repr tr t n) (hk : tr.kind = kind) (hi : Inv kind n t m) (op : Op) (hv : OpKeyLen n op) :
    ∃ tr' t', stepOp tr op = some tr' ∧ Repr tr' t' n ∧ tr'.kind = kind ∧ Inv kind n t' (absStep m op) := by
  cases op with
  | hash => exact stepOp_inv hr hk hi .hash hv trivial
  | put key v =>
    by_cases hz : v = .felt 0
    · subst hz
      simp only [OpKeyLen] at hv
      have hstep := step_inv hi (.put key (.felt 0)) hv
      simp only [Trie2.step, Trie2.update, beq_self_eq_true, if_true] at hstep
      cases hs : sget tr.store key with
      | none =>
        obtain ⟨a, b⟩ := put_zero_absent hr key hv hs
        rw [b] at hstep
        exact ⟨tr, t, by simpa [stepOp] using a, hr, hk, hstep⟩
      | some x =>
        have hwf : WF t n := by
          cases hr.wf with
          | inr w => exact w
          | inl e =>
            subst e
            have := hr.agree key
            rw [hs] at this
            simp [flatS, Matches] at this
        obtain ⟨tr', a, b, c⟩ := put_zero_present hr hwf key hv (by rw [hs]; simp)
        exact ⟨tr', _, by simpa [stepOp] using a, b, c.trans hk, hstep⟩
    · exact stepOp_inv hr hk hi (.put key v) hv hz

theorem foldlM_inv_all {kind : HashKind} {n : Nat} (ops : List Op) (hv : ValidOps n ops) :
    ∀ (tr : Trie) (t : Node) (m : Path → HTerm), Repr tr t n → tr.kind = kind → Inv kind n t m →
      ∃ tr' t', ops.foldlM stepOp tr = some tr' ∧ Repr tr' t' n ∧ tr'.kind = kind ∧
        Inv kind n t' (ops.foldl absStep m) := by
  induction ops with
  | nil => intro tr t m hr hk hi; exact ⟨tr, t, rfl, hr, hk, hi⟩
  | cons op rest ih =>
    intro tr t m hr hk hi
    have hv1 : OpKeyLen n op := by
      have := hv op (List.mem_cons_self ..)
      cases op <;> simpa [OpKeyLen] using this
    obtain ⟨tr1, t1, s1, r1, k1, i1⟩ := stepOp_inv_all hr hk hi op hv1
    obtain ⟨tr2, t2, s2, r2, k2, i2⟩ := ih (fun o ho => hv o (List.mem_cons_of_mem _ ho)) tr1 t1 _ r1 k1 i1
    exact ⟨tr2, t2, by simp [List.foldlM_cons, s1, s2], r2, k2, i2⟩

/-- the legacy trie after any history: the store is the flattening of a canonical tree with the
history's map semantics, and `Hash()` returns the commitment of that map -/
theorem runOps_all (kind : HashKind) (n : Nat) (ops : List Op) (hv : ValidOps n ops) :
    runOps n kind ops = some (Spec.root kind n (absRun ops)) := by
  obtain ⟨tr, t, s, r, k, i⟩ := foldlM_inv_all (kind := kind) ops hv (Trie.empty n kind) .nil
    (fun _ => HTerm.felt 0) (repr_empty n kind) rfl
    ⟨Or.inl rfl, by simp [CacheOK], fun _ _ => by simp [Trie2.get]⟩
  obtain ⟨tr', h1, _, _⟩ := hash_repr r
  simp only [runOps, s, Option.bind, h1, Option.map_some, Option.some.injEq]
  rw [k, rawHash_eq_spec kind i.wf]
  simp only [Spec.root, absRun]
  rw [spec_node_congr kind n _ _ i.sem]

end Legacy
end Juno.C01
