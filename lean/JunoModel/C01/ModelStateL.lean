import JunoModel.C01.ModelState
import JunoModel.C01.ModelLazy
/-!
C01 — model, part 7: the state update as `core/state` really runs it — every block works on trie objects
that were opened from the node database (`state.New` per block; `StateDB.ContractTrie / ClassTrie /
ContractStorageTrie` → `trie2.New`), never on the objects of the previous block. Core Lean only.

`ModelState.lean` keeps one resolved tree per trie across all blocks. Here every trie is a `TrieL` tree
(`ModelLazy.lean`: unresolved `HashNode`s carry the subtree the database holds for them) and opening a trie is
* `trie2.New` with `id.StateComm() == 0` (the state root the `State` was opened at is zero): the EMPTY trie,
  whatever the database holds — the root node is not even read;
* otherwise `Commit()`-ted form read back: root resolved with unknown hash, everything below unresolved
  (`TrieL.reopen`), so every write of the block goes through `resolveNode` — insert / delete through
  unresolved nodes, collapse into an unresolved sibling.
The flag `restart` of a block says whether the tries are (re)opened for it (`true` = what juno does for every
block, and what a process restart amounts to) or the objects of the previous block are kept (`false`; not how
juno works — it is there so that the theorem can say that it makes no difference).
The state objects, the order of the phases, the system-contract rules and the commitment are those of
`ModelState.lean` (`State.update`), transcribed again over the lazy tries.
-/
namespace Juno.C01
namespace StateL
open State

/-- contract record + what the node database holds for its storage trie -/
structure RecL where
  cls : HTerm
  nonce : HTerm
  storage : LNode

structure ObjL where
  crec : RecL
  dirty : List (Path × HTerm)

structure StL where
  recs : AList RecL
  ctrie : LNode
  cltrie : LNode

def StL.empty : StL := ⟨[], .nil, .nil⟩

/-- `State.Commitment(protocolVersion)` -/
def commitment (pre014 : Bool) (s : StL) : HTerm :=
  stateCommitment pre014 (TrieL.rootHash .pedersen s.ctrie) (TrieL.rootHash .poseidon s.cltrie)

/-- `trie2.New(id, height, hashFn, db)` for a trie whose committed content is `t`; `zero` = the state root
the tries are opened at is zero (`felt.IsZero(&stateComm)`: return the empty trie without reading). -/
def openT (zero restart : Bool) (k : HashKind) (t : LNode) : LNode :=
  if !restart then t
  else if zero then .nil
  else TrieL.reopen k (TrieL.hashRoot k t)

/-- `getStateObject`: the object touched in this update, else the record on disk with its storage trie
opened (`getStorageTrie`, called by `stateObject.commit`). -/
def getObj (zero restart : Bool) (s : StL) (objs : AList ObjL) (addr : Path) : Option ObjL :=
  match alookup objs addr with
  | some o => some o
  | none => (alookup s.recs addr).map (fun r => ⟨{ r with storage := openT zero restart .pedersen r.storage }, []⟩)

def deployAll (s : StL) : List (Path × HTerm) → AList ObjL → Option (AList ObjL)
  | [], objs => some objs
  | (addr, cls) :: rest, objs =>
    match alookup s.recs addr with
    | some _ => none
    | none => deployAll s rest ((addr, ⟨⟨cls, .felt 0, .nil⟩, []⟩) :: objs)

def replaceAll (zero restart : Bool) (s : StL) : List (Path × HTerm) → AList ObjL → Option (AList ObjL)
  | [], objs => some objs
  | (addr, cls) :: rest, objs =>
    match getObj zero restart s objs addr with
    | none => none
    | some o => replaceAll zero restart s rest ((addr, { o with crec := { o.crec with cls := cls } }) :: objs)

def nonceAll (zero restart : Bool) (s : StL) : List (Path × HTerm) → AList ObjL → Option (AList ObjL)
  | [], objs => some objs
  | (addr, n) :: rest, objs =>
    match getObj zero restart s objs addr with
    | none => none
    | some o => nonceAll zero restart s rest ((addr, { o with crec := { o.crec with nonce := n } }) :: objs)

def storageAll (zero restart : Bool) (s : StL) : List (Path × List (Path × HTerm)) → AList ObjL → Option (AList ObjL)
  | [], objs => some objs
  | (addr, kvs) :: rest, objs =>
    match getObj zero restart s objs addr with
    | some o => storageAll zero restart s rest ((addr, { o with dirty := kvs }) :: objs)
    | none =>
      if isSystem addr then storageAll zero restart s rest ((addr, ⟨⟨.felt 0, .felt 0, .nil⟩, kvs⟩) :: objs)
      else none

def touched (objs : AList ObjL) : AList ObjL :=
  objs.foldr (fun (e : Path × ObjL) acc => if (alookup acc e.1).isSome then acc else e :: acc) []
    |>.map (fun e => (e.1, (alookup objs e.1).getD e.2))

/-- `stateObject.commit`: the dirty slots through the (lazily resolved) storage trie, `Commit()`. -/
def commitObj (o : ObjL) : RecL × HTerm :=
  let tr := o.dirty.foldl (fun t (kv : Path × HTerm) => TrieL.update t kv.1 kv.2) o.crec.storage
  ({ o.crec with storage := TrieL.hashRoot .pedersen tr }, TrieL.rootHash .pedersen tr)

def commitObjs (purgeEmptySystem : Bool) : AList ObjL → StL → StL
  | [], s => s
  | (addr, o) :: rest, s =>
    let (rec, root) := commitObj o
    if purgeEmptySystem && isSystem addr && root == .felt 0 then
      commitObjs purgeEmptySystem rest
        { s with ctrie := TrieL.update (TrieL.update s.ctrie addr (contractLeaf rec.cls root rec.nonce)) addr (.felt 0),
                 recs := s.recs.filter (fun e => e.1 != addr) }
    else
      commitObjs purgeEmptySystem rest
        { s with ctrie := TrieL.update s.ctrie addr (contractLeaf rec.cls root rec.nonce),
                 recs := (addr, rec) :: s.recs }

/-- `state.New(root)` + `State.Update`: `zero` is decided from the root the state is opened at (the
commitment is zero under one formula iff it is under the other). -/
def update (purgeEmptySystem restart : Bool) (s : StL) (d : Diff) : Option StL := do
  let zero := commitment true s == .felt 0
  let cl := (d.declared ++ d.migrated).foldl
    (fun t (e : Path × HTerm) => TrieL.update t e.1 (classLeaf e.2)) (openT zero restart .poseidon s.cltrie)
  let objs ← deployAll s d.deployed []
  let objs ← replaceAll zero restart s d.replaced objs
  let objs ← nonceAll zero restart s d.nonces objs
  let objs ← storageAll zero restart s d.storage objs
  pure (commitObjs purgeEmptySystem (touched objs)
    { s with cltrie := cl, ctrie := openT zero restart .pedersen s.ctrie })

/-- blocks with their restart flag -/
def run (purgeEmptySystem : Bool) : List (Bool × Diff) → StL → Option StL
  | [], s => some s
  | (restart, d) :: rest, s => (update purgeEmptySystem restart s d).bind (run purgeEmptySystem rest)

end StateL
end Juno.C01
