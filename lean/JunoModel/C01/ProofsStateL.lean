import JunoModel.C01.ProofsLazy
import JunoModel.C01.ProofsState
import JunoModel.C01.ProofsAbs
import JunoModel.C01.ModelStateL
/-!
Helper lemmas for C01, part 10: the state update on trie objects that are reopened from the node database
for every block (`ModelStateL.lean`) goes through the same states — up to the shape of the trees: resolved /
unresolved nodes, cached hashes — as the update on trees that are kept (`ModelState.lean`), accepts exactly the
same diffs and computes the same root. Simulation: two tries are related when they are sound representations
(`TrieL.InvL` resp. `Inv`) of the SAME key/value map.
-/
namespace Juno.C01
namespace StateL
open State

/-- both tries are canonical, have sound caches / unresolved hashes and hold the same map -/
def SimT (k : HashKind) (tl : LNode) (t : Node) : Prop :=
  ∃ m, TrieL.InvL k 251 tl m ∧ Inv k 251 t m

theorem invL_nil (k : HashKind) (m : Path → HTerm) (hm : ∀ key, key.length = 251 → m key = .felt 0) :
    TrieL.InvL k 251 .nil m :=
  ⟨by simp [TrieL.LazyOK], by simp [TrieL.CacheOKL], Or.inl rfl,
   fun key hk => by simp [TrieL.erase, Trie2.get, hm key hk]⟩

theorem simT_nil (k : HashKind) : SimT k .nil .nil :=
  ⟨fun _ => .felt 0, invL_nil k _ (fun _ _ => rfl),
   ⟨Or.inl rfl, by simp [CacheOK], fun _ _ => by simp [Trie2.get]⟩⟩

theorem simT_update {k : HashKind} {tl : LNode} {t : Node} (h : SimT k tl t) (key : Path)
    (hk : key.length = 251) (v : HTerm) : SimT k (TrieL.update tl key v) (Trie2.update t key v) := by
  obtain ⟨m, hl, hi⟩ := h
  exact ⟨_, TrieL.step_invL hl (.put key v) hk, step_inv hi (.put key v) hk⟩

theorem simT_fold {k : HashKind} (kvs : List (Path × HTerm)) (hk : ∀ kv ∈ kvs, kv.1.length = 251) :
    ∀ (tl : LNode) (t : Node), SimT k tl t →
      SimT k (kvs.foldl (fun t (kv : Path × HTerm) => TrieL.update t kv.1 kv.2) tl)
        (kvs.foldl (fun t (kv : Path × HTerm) => Trie2.update t kv.1 kv.2) t) := by
  induction kvs with
  | nil => intro tl t h; exact h
  | cons kv rest ih =>
    intro tl t h
    simp only [List.foldl_cons]
    exact ih (fun e he => hk e (List.mem_cons_of_mem _ he)) _ _
      (simT_update h kv.1 (hk kv (List.mem_cons_self ..)) kv.2)

theorem simT_hash {k : HashKind} {tl : LNode} {t : Node} (h : SimT k tl t) :
    SimT k (TrieL.hashRoot k tl) (Trie2.hashRoot k t).2 ∧
    TrieL.rootHash k tl = (Trie2.hashRoot k t).1 := by
  obtain ⟨m, hl, hi⟩ := h
  refine ⟨⟨m, TrieL.step_invL hl .hash trivial, step_inv hi .hash trivial⟩, ?_⟩
  rw [TrieL.invL_hash hl, inv_hash hi]

/-- opening a trie: the `StateComm == 0` shortcut is sound when the trie's own root is zero -/
theorem simT_open {k : HashKind} {tl : LNode} {t : Node} (h : SimT k tl t) (zero restart : Bool)
    (hz : zero = true → (Trie2.hashRoot k t).1 = .felt 0) : SimT k (openT zero restart k tl) t := by
  obtain ⟨m, hl, hi⟩ := h
  unfold openT
  cases restart with
  | false => exact ⟨m, hl, hi⟩
  | true =>
    cases zero with
    | true =>
      have h0 := hz rfl
      rw [inv_hash hi] at h0
      exact ⟨m, invL_nil k m (spec_root_zero h0), hi⟩
    | false => exact ⟨m, TrieL.step_invL hl .reopen trivial, hi⟩

/-! ### association lists with the same keys and related values -/

inductive RelA {α β : Type} (R : α → β → Prop) : AList α → AList β → Prop
  | nil : RelA R [] []
  | cons {k : Path} {a : α} {b : β} {l : AList α} {l' : AList β} :
      R a b → RelA R l l' → RelA R ((k, a) :: l) ((k, b) :: l')

/-- both absent, or both present and related -/
def ORel {α β : Type} (R : α → β → Prop) : Option α → Option β → Prop
  | some a, some b => R a b
  | none, none => True
  | _, _ => False

theorem alookup_rel {α β : Type} {R : α → β → Prop} {l : AList α} {l' : AList β} (h : RelA R l l')
    (key : Path) : ORel R (alookup l key) (alookup l' key) := by
  induction h with
  | nil => simp [alookup, ORel]
  | cons hab _ ih =>
    simp only [alookup]
    split
    · exact hab
    · exact ih

theorem relA_filter {α β : Type} {R : α → β → Prop} {l : AList α} {l' : AList β} (h : RelA R l l')
    (addr : Path) : RelA R (l.filter (fun e => e.1 != addr)) (l'.filter (fun e => e.1 != addr)) := by
  induction h with
  | nil => exact .nil
  | @cons k a b l l' hab _ ih =>
    by_cases hk : k = addr
    · simp only [List.filter, hk, bne_self_eq_false]; exact ih
    · have : (k != addr) = true := by simpa using hk
      simp only [List.filter, this]; exact .cons hab ih

def RelRec (a : RecL) (b : Rec) : Prop :=
  a.cls = b.cls ∧ a.nonce = b.nonce ∧ SimT .pedersen a.storage b.storage

def RelObj (a : ObjL) (b : Obj) : Prop := RelRec a.crec b.crec ∧ a.dirty = b.dirty

structure SimS (sl : StL) (s : St) : Prop where
  recs : RelA RelRec sl.recs s.recs
  ctrie : SimT .pedersen sl.ctrie s.ctrie
  cltrie : SimT .poseidon sl.cltrie s.cltrie

theorem simS_empty : SimS StL.empty St.empty := ⟨.nil, simT_nil _, simT_nil _⟩

theorem commitment_sim {sl : StL} {s : St} (h : SimS sl s) (pre014 : Bool) :
    StateL.commitment pre014 sl = State.commitment pre014 s := by
  simp only [StateL.commitment, State.commitment, (simT_hash h.ctrie).2, (simT_hash h.cltrie).2]

/-- a zero state commitment (under either formula) means both roots are zero -/
theorem commitment_zero {pre014 : Bool} {s : St} (h : State.commitment pre014 s = .felt 0) :
    (Trie2.hashRoot .pedersen s.ctrie).1 = .felt 0 ∧ (Trie2.hashRoot .poseidon s.cltrie).1 = .felt 0 := by
  simp only [State.commitment, stateCommitment] at h
  split at h
  · rename_i h1; exact ⟨h1.2, h1.1⟩
  · split at h
    · rename_i h1 h2; exact absurd ⟨h2.1, h⟩ h1
    · cases h

/-- a state whose contract-trie root is zero holds no contract record -/
theorem no_rec_of_zero {s : St} (hs : SWF s) (h0 : (Trie2.hashRoot .pedersen s.ctrie).1 = .felt 0)
    (addr : Path) (ha : addr.length = 251) : alookup s.recs addr = none := by
  rw [inv_hash hs.ctrie] at h0
  have := spec_root_zero h0 addr ha
  simp only [leafOfRecs] at this
  cases hr : alookup s.recs addr with
  | none => rfl
  | some r =>
    simp only [hr] at this
    exact absurd this (contractLeaf_ne_zero _ _ _)

theorem getObj_rel {sl : StL} {s : St} {ol : AList ObjL} {o : AList Obj} (zero restart : Bool)
    (hs : SWF s) (hsim : SimS sl s) (ho : RelA RelObj ol o)
    (hz : zero = true → (Trie2.hashRoot .pedersen s.ctrie).1 = .felt 0)
    (addr : Path) (ha : addr.length = 251) :
    ORel RelObj (StateL.getObj zero restart sl ol addr) (State.getObj s o addr) := by
  unfold StateL.getObj State.getObj
  have h1 := alookup_rel ho addr
  cases e1 : alookup ol addr with
  | some a =>
    cases e2 : alookup o addr with
    | some b => simp only [e1, e2, ORel] at h1 ⊢; exact h1
    | none => simp [e1, e2, ORel] at h1
  | none =>
    cases e2 : alookup o addr with
    | some b => simp [e1, e2, ORel] at h1
    | none =>
      simp only
      have h2 := alookup_rel hsim.recs addr
      cases e3 : alookup sl.recs addr with
      | none =>
        cases e4 : alookup s.recs addr with
        | none => simp [ORel]
        | some r => simp [e3, e4, ORel] at h2
      | some rl =>
        cases e4 : alookup s.recs addr with
        | none => simp [e3, e4, ORel] at h2
        | some r =>
          simp only [e3, e4, ORel] at h2
          simp only [Option.map, ORel]
          refine ⟨⟨h2.1, h2.2.1, ?_⟩, rfl⟩
          apply simT_open h2.2.2
          intro hzz
          have := no_rec_of_zero hs (hz hzz) addr ha
          rw [e4] at this
          cases this

theorem deployAll_rel {sl : StL} {s : St} (hsim : SimS sl s) (l : List (Path × HTerm)) :
    ∀ (ol : AList ObjL) (o : AList Obj), RelA RelObj ol o →
      ORel (RelA RelObj) (StateL.deployAll sl l ol) (State.deployAll s l o) := by
  induction l with
  | nil => intro ol o h; simpa [StateL.deployAll, State.deployAll, ORel] using h
  | cons e rest ih =>
    intro ol o h
    obtain ⟨addr, cls⟩ := e
    simp only [StateL.deployAll, State.deployAll]
    have h2 := alookup_rel hsim.recs addr
    cases e3 : alookup sl.recs addr with
    | some rl =>
      cases e4 : alookup s.recs addr with
      | some r => simp [ORel]
      | none => simp [e3, e4, ORel] at h2
    | none =>
      cases e4 : alookup s.recs addr with
      | some r => simp [e3, e4, ORel] at h2
      | none =>
        simp only
        exact ih _ _ (.cons ⟨⟨rfl, rfl, simT_nil _⟩, rfl⟩ h)

theorem replaceAll_rel {sl : StL} {s : St} (zero restart : Bool) (hs : SWF s) (hsim : SimS sl s)
    (hz : zero = true → (Trie2.hashRoot .pedersen s.ctrie).1 = .felt 0)
    (l : List (Path × HTerm)) (hl : ∀ e ∈ l, e.1.length = 251) :
    ∀ (ol : AList ObjL) (o : AList Obj), RelA RelObj ol o →
      ORel (RelA RelObj) (StateL.replaceAll zero restart sl l ol) (State.replaceAll s l o) := by
  induction l with
  | nil => intro ol o h; simpa [StateL.replaceAll, State.replaceAll, ORel] using h
  | cons e rest ih =>
    intro ol o h
    obtain ⟨addr, cls⟩ := e
    simp only [StateL.replaceAll, State.replaceAll]
    have hg := getObj_rel zero restart hs hsim h hz addr (hl _ (List.mem_cons_self ..))
    cases e1 : StateL.getObj zero restart sl ol addr with
    | none =>
      cases e2 : State.getObj s o addr with
      | none => simp [ORel]
      | some b => simp [e1, e2, ORel] at hg
    | some a =>
      cases e2 : State.getObj s o addr with
      | none => simp [e1, e2, ORel] at hg
      | some b =>
        simp only [e1, e2, ORel] at hg
        simp only
        exact ih (fun e he => hl e (List.mem_cons_of_mem _ he)) _ _
          (.cons ⟨⟨rfl, hg.1.2.1, hg.1.2.2⟩, hg.2⟩ h)

theorem nonceAll_rel {sl : StL} {s : St} (zero restart : Bool) (hs : SWF s) (hsim : SimS sl s)
    (hz : zero = true → (Trie2.hashRoot .pedersen s.ctrie).1 = .felt 0)
    (l : List (Path × HTerm)) (hl : ∀ e ∈ l, e.1.length = 251) :
    ∀ (ol : AList ObjL) (o : AList Obj), RelA RelObj ol o →
      ORel (RelA RelObj) (StateL.nonceAll zero restart sl l ol) (State.nonceAll s l o) := by
  induction l with
  | nil => intro ol o h; simpa [StateL.nonceAll, State.nonceAll, ORel] using h
  | cons e rest ih =>
    intro ol o h
    obtain ⟨addr, n⟩ := e
    simp only [StateL.nonceAll, State.nonceAll]
    have hg := getObj_rel zero restart hs hsim h hz addr (hl _ (List.mem_cons_self ..))
    cases e1 : StateL.getObj zero restart sl ol addr with
    | none =>
      cases e2 : State.getObj s o addr with
      | none => simp [ORel]
      | some b => simp [e1, e2, ORel] at hg
    | some a =>
      cases e2 : State.getObj s o addr with
      | none => simp [e1, e2, ORel] at hg
      | some b =>
        simp only [e1, e2, ORel] at hg
        simp only
        exact ih (fun e he => hl e (List.mem_cons_of_mem _ he)) _ _
          (.cons ⟨⟨hg.1.1, rfl, hg.1.2.2⟩, hg.2⟩ h)

theorem storageAll_rel {sl : StL} {s : St} (zero restart : Bool) (hs : SWF s) (hsim : SimS sl s)
    (hz : zero = true → (Trie2.hashRoot .pedersen s.ctrie).1 = .felt 0)
    (l : List (Path × List (Path × HTerm))) (hl : ∀ e ∈ l, e.1.length = 251) :
    ∀ (ol : AList ObjL) (o : AList Obj), RelA RelObj ol o →
      ORel (RelA RelObj) (StateL.storageAll zero restart sl l ol) (State.storageAll s l o) := by
  induction l with
  | nil => intro ol o h; simpa [StateL.storageAll, State.storageAll, ORel] using h
  | cons e rest ih =>
    intro ol o h
    obtain ⟨addr, kvs⟩ := e
    simp only [StateL.storageAll, State.storageAll]
    have hg := getObj_rel zero restart hs hsim h hz addr (hl _ (List.mem_cons_self ..))
    have hrest : ∀ e ∈ rest, e.1.length = 251 := fun e he => hl e (List.mem_cons_of_mem _ he)
    cases e1 : StateL.getObj zero restart sl ol addr with
    | none =>
      cases e2 : State.getObj s o addr with
      | none =>
        simp only
        by_cases hsys : isSystem addr = true
        · simp only [hsys, if_true]
          exact ih hrest _ _ (.cons ⟨⟨rfl, rfl, simT_nil _⟩, rfl⟩ h)
        · simp [hsys, ORel]
      | some b => simp [e1, e2, ORel] at hg
    | some a =>
      cases e2 : State.getObj s o addr with
      | none => simp [e1, e2, ORel] at hg
      | some b =>
        simp only [e1, e2, ORel] at hg
        simp only
        exact ih hrest _ _ (.cons ⟨hg.1, rfl⟩ h)

theorem touched_rel {ol : AList ObjL} {o : AList Obj} (h : RelA RelObj ol o) :
    RelA RelObj (StateL.touched ol) (State.touched o) := by
  have key : ∀ (xl : AList ObjL) (x : AList Obj), RelA RelObj xl x →
      RelA RelObj
        (xl.foldr (fun (e : Path × ObjL) acc => if (alookup acc e.1).isSome then acc else e :: acc) [])
        (x.foldr (fun (e : Path × Obj) acc => if (alookup acc e.1).isSome then acc else e :: acc) []) := by
    intro xl x hx
    induction hx with
    | nil => exact .nil
    | @cons k a b l l' hab _ ih =>
      simp only [List.foldr_cons]
      have hl := alookup_rel ih k
      generalize List.foldr (fun (e : Path × ObjL) acc => if (alookup acc e.1).isSome then acc else e :: acc) [] l = accL at *
      generalize List.foldr (fun (e : Path × Obj) acc => if (alookup acc e.1).isSome then acc else e :: acc) [] l' = acc at *
      cases e1 : alookup accL k with
      | none =>
        cases e2 : alookup acc k with
        | none => simp only [Option.isSome_none, Bool.false_eq_true, if_false]; exact .cons hab ih
        | some _ => simp [e1, e2, ORel] at hl
      | some _ =>
        cases e2 : alookup acc k with
        | none => simp [e1, e2, ORel] at hl
        | some _ => simp only [Option.isSome_some, if_true]; exact ih
  have mapk : ∀ (xl : AList ObjL) (x : AList Obj), RelA RelObj xl x →
      RelA RelObj (xl.map (fun e => (e.1, (alookup ol e.1).getD e.2)))
        (x.map (fun e => (e.1, (alookup o e.1).getD e.2))) := by
    intro xl x hx
    induction hx with
    | nil => exact .nil
    | @cons k a b l l' hab _ ih =>
      simp only [List.map_cons]
      refine .cons ?_ ih
      have hl := alookup_rel h k
      cases e1 : alookup ol k with
      | none =>
        cases e2 : alookup o k with
        | none => simpa using hab
        | some _ => simp [e1, e2, ORel] at hl
      | some a' =>
        cases e2 : alookup o k with
        | none => simp [e1, e2, ORel] at hl
        | some b' => simp only [e1, e2, ORel] at hl; simpa using hl
  exact mapk _ _ (key _ _ h)

theorem commitObj_rel {a : ObjL} {b : Obj} (h : RelObj a b) (hd : ∀ kv ∈ b.dirty, kv.1.length = 251) :
    RelRec (StateL.commitObj a).1 (State.commitObj b).1 ∧
    (StateL.commitObj a).2 = (State.commitObj b).2 := by
  have h1 := simT_fold (k := .pedersen) b.dirty hd _ _ h.1.2.2
  have h2 := simT_hash h1
  simp only [StateL.commitObj, State.commitObj, h.2]
  exact ⟨⟨h.1.1, h.1.2.1, h2.1⟩, h2.2⟩

theorem commitObjs_rel (purge : Bool) {ol : AList ObjL} {o : AList Obj} (h : RelA RelObj ol o)
    (hg : ∀ e ∈ o, e.1.length = 251 ∧ ∀ kv ∈ e.2.dirty, kv.1.length = 251) :
    ∀ (sl : StL) (s : St), SimS sl s → SimS (StateL.commitObjs purge ol sl) (State.commitObjs purge o s) := by
  induction h with
  | nil => intro sl s hs; exact hs
  | @cons k a b l l' hab _ ih =>
    intro sl s hs
    have hk := hg _ (List.mem_cons_self ..)
    obtain ⟨c1, c2⟩ := commitObj_rel hab hk.2
    have hrest : ∀ e ∈ l', e.1.length = 251 ∧ ∀ kv ∈ e.2.dirty, kv.1.length = 251 :=
      fun e he => hg e (List.mem_cons_of_mem _ he)
    simp only [StateL.commitObjs, State.commitObjs]
    rw [c2, c1.1, c1.2.1]
    split
    · apply ih hrest
      refine ⟨relA_filter hs.recs k, ?_, hs.cltrie⟩
      dsimp only
      exact simT_update (simT_update hs.ctrie k hk.1 _) k hk.1 _
    · apply ih hrest
      refine ⟨.cons c1 hs.recs, ?_, hs.cltrie⟩
      dsimp only
      exact simT_update hs.ctrie k hk.1 _

theorem simT_class_fold (l : List (Path × HTerm)) (hl : ∀ e ∈ l, e.1.length = 251) :
    ∀ (tl : LNode) (t : Node), SimT .poseidon tl t →
      SimT .poseidon (l.foldl (fun t (e : Path × HTerm) => TrieL.update t e.1 (classLeaf e.2)) tl)
        (l.foldl (fun t (e : Path × HTerm) => Trie2.update t e.1 (classLeaf e.2)) t) := by
  induction l with
  | nil => intro tl t h; exact h
  | cons e rest ih =>
    intro tl t h
    simp only [List.foldl_cons]
    exact ih (fun e he => hl e (List.mem_cons_of_mem _ he)) _ _
      (simT_update h e.1 (hl e (List.mem_cons_self ..)) _)

/-- one block: same acceptance, related results -/
theorem update_sim {purge restart : Bool} {sl : StL} {s : St} {d : Diff} (hs : SWF s) (hd : ValidDiff d)
    (hsim : SimS sl s) :
    ORel SimS (StateL.update purge restart sl d) (State.update purge s d) := by
  simp only [StateL.update, State.update, bind, Option.bind, pure]
  generalize hzero : (StateL.commitment true sl == HTerm.felt 0) = zero
  have hz : zero = true → (Trie2.hashRoot .pedersen s.ctrie).1 = .felt 0 ∧
      (Trie2.hashRoot .poseidon s.cltrie).1 = .felt 0 := by
    intro h
    rw [← hzero, commitment_sim hsim] at h
    exact commitment_zero (by simpa using h)
  have hz1 := fun h => (hz h).1
  have r1 := deployAll_rel hsim d.deployed [] [] .nil
  cases e1 : StateL.deployAll sl d.deployed [] with
  | none =>
    cases f1 : State.deployAll s d.deployed [] with
    | none => simp [ORel]
    | some _ => simp [e1, f1, ORel] at r1
  | some ol1 =>
    cases f1 : State.deployAll s d.deployed [] with
    | none => simp [e1, f1, ORel] at r1
    | some o1 =>
      simp only [e1, f1, ORel] at r1
      simp only
      have r2 := replaceAll_rel zero restart hs hsim hz1 d.replaced (fun e he => (hd.replaced e he).1) _ _ r1
      cases e2 : StateL.replaceAll zero restart sl d.replaced ol1 with
      | none =>
        cases f2 : State.replaceAll s d.replaced o1 with
        | none => simp [ORel]
        | some _ => simp [e2, f2, ORel] at r2
      | some ol2 =>
        cases f2 : State.replaceAll s d.replaced o1 with
        | none => simp [e2, f2, ORel] at r2
        | some o2 =>
          simp only [e2, f2, ORel] at r2
          simp only
          have r3 := nonceAll_rel zero restart hs hsim hz1 d.nonces (fun e he => (hd.nonces e he).1) _ _ r2
          cases e3 : StateL.nonceAll zero restart sl d.nonces ol2 with
          | none =>
            cases f3 : State.nonceAll s d.nonces o2 with
            | none => simp [ORel]
            | some _ => simp [e3, f3, ORel] at r3
          | some ol3 =>
            cases f3 : State.nonceAll s d.nonces o2 with
            | none => simp [e3, f3, ORel] at r3
            | some o3 =>
              simp only [e3, f3, ORel] at r3
              simp only
              have r4 := storageAll_rel zero restart hs hsim hz1 d.storage (fun e he => (hd.storage e he).1) _ _ r3
              cases e4 : StateL.storageAll zero restart sl d.storage ol3 with
              | none =>
                cases f4 : State.storageAll s d.storage o3 with
                | none => simp [ORel]
                | some _ => simp [e4, f4, ORel] at r4
              | some ol4 =>
                cases f4 : State.storageAll s d.storage o3 with
                | none => simp [e4, f4, ORel] at r4
                | some o4 =>
                  simp only [e4, f4, ORel] at r4
                  simp only [ORel]
                  have g1 := deployAll_good (s := s) d.deployed (fun e he => (hd.deployed e he).1) [] o1
                    (by intro e he; simp at he) f1
                  have g2 := replaceAll_good hs d.replaced (fun e he => (hd.replaced e he).1) o1 o2 g1 f2
                  have g3 := nonceAll_good hs d.nonces (fun e he => (hd.nonces e he).1) o2 o3 g2 f3
                  have g4 := storageAll_good hs d.storage hd.storage o3 o4 g3 f4
                  have gt := touched_good g4
                  apply commitObjs_rel purge (touched_rel r4) (fun e he => ⟨(gt e he).1, (gt e he).2.2⟩)
                  refine ⟨hsim.recs, simT_open hsim.ctrie zero restart hz1, ?_⟩
                  exact simT_class_fold _ hd.declared _ _
                    (simT_open hsim.cltrie zero restart (fun h => (hz h).2))

theorem run_sim (purge : Bool) (bs : List (Bool × Diff)) (hd : ∀ b ∈ bs, ValidDiff b.2) :
    ∀ (sl : StL) (s : St), SWF s → SimS sl s →
      ORel SimS (StateL.run purge bs sl) (State.run purge (bs.map (·.2)) s) := by
  induction bs with
  | nil => intro sl s _ h; simpa [StateL.run, State.run, ORel] using h
  | cons b rest ih =>
    intro sl s hs hsim
    obtain ⟨restart, d⟩ := b
    simp only [StateL.run, List.map_cons, State.run]
    have hdv := hd _ (List.mem_cons_self ..)
    have h1 := update_sim (purge := purge) (restart := restart) hs hdv hsim
    cases e1 : StateL.update purge restart sl d with
    | none =>
      cases f1 : State.update purge s d with
      | none => simp [ORel]
      | some _ => simp [e1, f1, ORel] at h1
    | some sl1 =>
      cases f1 : State.update purge s d with
      | none => simp [e1, f1, ORel] at h1
      | some s1 =>
        simp only [e1, f1, ORel] at h1
        simp only [Option.bind]
        obtain ⟨m, _, hm⟩ := hsim.cltrie
        exact ih (fun b hb => hd b (List.mem_cons_of_mem _ hb)) _ _ (update_swf hs hdv m hm f1).1 h1

/-- Reopening the tries from the node database for any subset of the blocks changes neither which
histories are accepted nor any root. -/
theorem run_commitment_eq (purge pre014 : Bool) (bs : List (Bool × Diff)) (hd : ∀ b ∈ bs, ValidDiff b.2) :
    (StateL.run purge bs StL.empty).map (StateL.commitment pre014) =
      (State.run purge (bs.map (·.2)) St.empty).map (State.commitment pre014) := by
  have h := run_sim purge bs hd _ _ swf_empty simS_empty
  cases e1 : StateL.run purge bs StL.empty with
  | none =>
    cases f1 : State.run purge (bs.map (·.2)) St.empty with
    | none => rfl
    | some _ => simp [e1, f1, ORel] at h
  | some sl =>
    cases f1 : State.run purge (bs.map (·.2)) St.empty with
    | none => simp [e1, f1, ORel] at h
    | some s =>
      simp only [e1, f1, ORel] at h
      simp [commitment_sim h]

end StateL
end Juno.C01
